/-
  Lemmas about the "marks due" layer (`Nq.DaemonOwed`): which reports put a record on the list, and
  that the base monitor's report reader adds a record to `delivered` only together with `mayMark`.
-/
import Nq.DaemonOwed
import Nq.Lemmas.DaemonInv

namespace Nq.Lemmas.DO
open Nq Nq.Daemon Nq.Lemmas.DI

theorem msg_setDline (s : St) (c : Ch) (v : Bytes × Nat) (m : Nat) : (s.setDline c v).msg m = s.msg m := by
  cases c <;> rfl

theorem mayMark_setDline (s : St) (c : Ch) (v : Bytes × Nat) : (s.setDline c v).mayMark = s.mayMark := by
  cases c <;> rfl

/-- a report adds a record to `delivered` only together with the permission (`mayMark`) to mark it;
permissions are not withdrawn while reports are read -/
theorem handleReport_delivered (cfg : Cfg) (s : St) (c : Ch) (rep : Bytes) :
    (∀ x ∈ s.mayMark, x ∈ (handleReport cfg s c rep).mayMark) ∧
    (∀ m c' i, (c', i) ∈ ((handleReport cfg s c rep).msg m).delivered →
      (c', i) ∈ (s.msg m).delivered ∨ (m, c', i) ∈ (handleReport cfg s c rep).mayMark) := by
  simp only [handleReport]
  split
  · exact ⟨fun _ h => h, fun _ _ _ h => Or.inl h⟩
  · rename_i sl _
    split
    · exact ⟨fun _ h => h, fun _ _ _ h => Or.inl h⟩
    · split
      · -- K
        refine ⟨fun x h => List.mem_cons_of_mem _ h, ?_⟩
        intro m c' i h
        have h : (c', i) ∈ (St.msg (St.upd { s with slots := s.slots.filter (fun x => !(x.c == c && x.delnum == (rep.headD 0).toNat)) } sl.m
            fun ms => { ms with fin := (c, sl.idx) :: ms.fin, delivered := (c, sl.idx) :: ms.delivered }) m).delivered := h
        have hmsg : ∀ k, St.msg { s with slots := s.slots.filter (fun x => !(x.c == c && x.delnum == (rep.headD 0).toNat)) } k = s.msg k :=
          fun _ => rfl
        rw [St.msg_upd] at h
        by_cases hm : m = sl.m
        · subst hm
          simp only [if_true] at h
          rcases List.mem_cons.1 h with he | hin
          · right
            cases he
            exact List.mem_cons_self
          · left; rw [hmsg] at hin; exact hin
        · simp only [hm, if_false] at h
          left; rw [hmsg] at h; exact h
      · split
        · exact ⟨fun _ h => h, fun _ _ _ h => Or.inl h⟩
        · split
          · exact ⟨fun _ h => h, fun _ _ _ h => Or.inl h⟩
          · exact ⟨fun _ h => h, fun _ _ _ h => Or.inl h⟩

theorem feedReports_delivered (cfg : Cfg) (c : Ch) : ∀ (bs : Bytes) (s : St),
    (∀ x ∈ s.mayMark, x ∈ (feedReports cfg s c bs).mayMark) ∧
    (∀ m c' i, (c', i) ∈ ((feedReports cfg s c bs).msg m).delivered →
      (c', i) ∈ (s.msg m).delivered ∨ (m, c', i) ∈ (feedReports cfg s c bs).mayMark)
  | [], s => by
    simp only [feedReports]
    exact ⟨fun _ h => h, fun _ _ _ h => Or.inl h⟩
  | b :: bs, s => by
    simp only [feedReports]
    split
    · rename_i rep _
      have ih := feedReports_delivered cfg c bs (handleReport cfg (s.setDline c (reportByte (s.dline c).1 (s.dline c).2 b).1) c rep)
      have hr := handleReport_delivered cfg (s.setDline c (reportByte (s.dline c).1 (s.dline c).2 b).1) c rep
      refine ⟨fun x hx => ih.1 x (hr.1 x (by rw [mayMark_setDline]; exact hx)), ?_⟩
      intro m c' i h
      rcases ih.2 m c' i h with h1 | h1
      · rcases hr.2 m c' i h1 with h2 | h2
        · left; rw [msg_setDline] at h2; exact h2
        · right; exact ih.1 _ h2
      · right; exact h1
    · have ih := feedReports_delivered cfg c bs (s.setDline c (reportByte (s.dline c).1 (s.dline c).2 b).1)
      refine ⟨fun x hx => ih.1 x (by rw [mayMark_setDline]; exact hx), ?_⟩
      intro m c' i h
      rcases ih.2 m c' i h with h1 | h1
      · left; rw [msg_setDline] at h1; exact h1
      · right; exact h1

theorem mem_dropRec {owed : List (Nat × Ch × Nat)} {x y : Nat × Ch × Nat} (h : x ∈ owed) (hne : x ≠ y) : x ∈ dropRec owed y := by
  unfold dropRec
  exact List.mem_filter.2 ⟨h, by simpa using hne⟩

theorem mem_dropChan {owed : List (Nat × Ch × Nat)} {x : Nat × Ch × Nat} {m : Nat} {c : Ch} (h : x ∈ owed)
    (hne : ¬ (x.1 = m ∧ x.2.1 = c)) : x ∈ dropChan owed m c := by
  unfold dropChan
  refine List.mem_filter.2 ⟨h, ?_⟩
  simp only [Bool.not_eq_true', Bool.and_eq_false_iff, beq_eq_false_iff_ne, ne_eq]
  by_cases h1 : x.1 = m
  · right; exact fun h2 => hne ⟨h1, h2⟩
  · left; exact h1

theorem mem_dropMsg {owed : List (Nat × Ch × Nat)} {x : Nat × Ch × Nat} {m : Nat} (h : x ∈ owed)
    (hne : x.1 ≠ m) : x ∈ dropMsg owed m := by
  unfold dropMsg
  exact List.mem_filter.2 ⟨h, by simpa using hne⟩

/-! ### which events can change a channel file; completion marks stay -/

/-- events that can change the content or the existence of channel file `c` of message `m` -/
def touchesChan (m : Nat) (c : Ch) : Ev → Bool
  | .unlinkChan m' c' => m' == m && c' == c
  | .creatChan m' c' => m' == m && c' == c
  | .writeChan m' c' _ => m' == m && c' == c
  | .markD m' c' _ => m' == m && c' == c
  | .crashMarks m' c' _ => m' == m && c' == c
  | .crashTodoFiles m' => m' == m
  | .newmsg m' _ _ => m' == m
  | _ => false

theorem handleReport_chan (cfg : Cfg) (s : St) (c : Ch) (rep : Bytes) (m : Nat) (c' : Ch) :
    ((handleReport cfg s c rep).msg m).chan c' = (s.msg m).chan c' := by
  simp only [handleReport]
  repeat' split
  all_goals first
    | rfl
    | (simp only [St.msg, St.upd, tabGet_set]; split <;> first | rfl | (subst_vars; cases c' <;> rfl))

theorem feedReports_chan (cfg : Cfg) (c : Ch) (m : Nat) (c' : Ch) : ∀ (bs : Bytes) (s : St),
    ((feedReports cfg s c bs).msg m).chan c' = (s.msg m).chan c'
  | [], s => rfl
  | b :: bs, s => by
    simp only [feedReports]
    split
    · rw [feedReports_chan cfg c m c' bs, handleReport_chan, msg_setDline]
    · rw [feedReports_chan cfg c m c' bs, msg_setDline]

/-- frame lemma: an accepted event that does not touch channel file `c` of message `m` leaves it as it is -/
theorem chan_frame (cfg : Cfg) (s s' : St) (e : Ev) (h : accept cfg s e = some s') (m : Nat) (c : Ch)
    (ht : touchesChan m c e = false) : (s'.msg m).chan c = (s.msg m).chan c := by
  cases e
  case rbytes c' bs =>
    simp only [accept] at h
    split at h
    · cases h
    · cases h; rw [feedReports_chan]; rfl
  all_goals (simp only [accept] at h; repeat' split at h)
  all_goals first
    | (cases h; done)
    | (cases h; rfl)
    | (cases h; simp only [St.msg, St.upd, tabGet_set]; split <;> first | rfl | (subst_vars; cases c <;> rfl))
    | (cases h; simp only [St.msg, St.upd, tabGet_set]; split
       · rename_i he; subst he; simp [touchesChan] at ht
       · rfl)
    | (cases h; simp only [St.msg, St.upd, tabGet_set]; split
       · rename_i he; subst he; simp [touchesChan] at ht
         simp only [chan_setChan, chan_setChanSynced]
         rw [if_neg (fun hh => ht hh.symm)]
       · rfl)
    | (cases h; simp only [St.msg, St.upd, tabGet_set]; split
       · rename_i he; subst he; exact chan_setChanSynced _ _ _ _
       · rfl)

theorem getD_append_left' {α : Type} (l l' : List α) (d : α) (n : Nat) (h : n < l.length) : (l ++ l').getD n d = l.getD n d := by
  simp [List.getD, List.getElem?_append_left h]

theorem getD_setDone_mono : ∀ (rs : List Rec) (i j : Nat), (rs.getD j ⟨false, []⟩).done = true →
    ((setDone rs i).getD j ⟨false, []⟩).done = true
  | [], _, _, h => by simp at h
  | r :: rs, 0, 0, _ => by simp [setDone]
  | r :: rs, 0, j + 1, h => by simpa [setDone] using h
  | r :: rs, i + 1, 0, h => by simpa [setDone] using h
  | r :: rs, i + 1, j + 1, h => by
    have := getD_setDone_mono rs i j (by simpa using h)
    simpa [setDone] using this

theorem getD_setDone_self : ∀ (rs : List Rec) (i : Nat), i < rs.length → ((setDone rs i).getD i ⟨false, []⟩).done = true
  | [], _, h => by simp at h
  | r :: rs, 0, _ => by simp [setDone]
  | r :: rs, i + 1, h => by
    have := getD_setDone_self rs i (by simpa using h)
    simpa [setDone] using this

theorem recIndex_lt : ∀ (rs : List Rec) (pos idx : Nat), recIndex rs pos = some idx → idx < rs.length
  | [], _, _, h => by simp [recIndex] at h
  | r :: rs, pos, idx, h => by
    simp only [recIndex] at h
    split at h
    · cases h; simp
    · split at h
      · cases h
      · cases hr : recIndex rs (pos - r.size) with
        | none => simp [hr] at h
        | some k =>
          simp [hr] at h
          have := recIndex_lt rs _ k hr
          subst h; simp; omega

theorem markedDone_of_chan (s s' : St) (x : Nat × Ch × Nat) (h : (s'.msg x.1).chan x.2.1 = (s.msg x.1).chan x.2.1) :
    markedDone s' x = markedDone s x := by
  simp only [markedDone, h]

/-- **A completion mark on disk stays** under every accepted event except a machine crash that reverts marks of that file
(`crashMarks`), the removal of the file (`unlinkChan`) and a machine crash that garbles the files of a message still being
preprocessed (`crashTodoFiles`) -/
theorem markedDone_step (cfg : Cfg) (s s' : St) (e : Ev) (h : accept cfg s e = some s') (x : Nat × Ch × Nat)
    (hm : markedDone s x = true) :
    markedDone s' x = true ∨ (∃ marks, e = .crashMarks x.1 x.2.1 marks) ∨ e = .unlinkChan x.1 x.2.1 ∨ e = .crashTodoFiles x.1 := by
  by_cases ht : touchesChan x.1 x.2.1 e = false
  · left; rw [markedDone_of_chan s s' x (chan_frame cfg s s' e h x.1 x.2.1 ht)]; exact hm
  · have ht : touchesChan x.1 x.2.1 e = true := by simpa using ht
    obtain ⟨m, c, i⟩ := x
    simp only at hm ht ⊢
    cases e with
    | unlinkChan m' c' =>
      simp [touchesChan] at ht; right; right; left; rw [ht.1, ht.2]
    | crashMarks m' c' marks =>
      simp [touchesChan] at ht; right; left; exact ⟨marks, by rw [ht.1, ht.2]⟩
    | crashTodoFiles m' =>
      simp [touchesChan] at ht; right; right; right; rw [ht]
    | newmsg m' sd rc =>
      simp [touchesChan] at ht; subst ht
      simp only [accept] at h
      split at h
      · rename_i hg
        exfalso
        simp only [markedDone] at hm
        cases c
        · have h6 := hg.2.2.2.2.2.1
          cases hl : (s.msg m').loc with
          | none => simp [MsgSt.chan, hl] at hm
          | some rs => simp [hl] at h6
        · have h7 := hg.2.2.2.2.2.2.1
          cases hl : (s.msg m').rem with
          | none => simp [MsgSt.chan, hl] at hm
          | some rs => simp [hl] at h7
      · cases h
    | creatChan m' c' =>
      simp [touchesChan] at ht; obtain ⟨h1, h2⟩ := ht; subst h1; subst h2
      simp only [accept] at h
      split at h
      · rename_i hg
        exfalso
        simp only [markedDone] at hm
        cases hl : (s.msg m').chan c' with
        | none => simp [hl] at hm
        | some rs => have := hg.2.2; simp [hl] at this
      · cases h
    | writeChan m' c' bs =>
      simp [touchesChan] at ht; obtain ⟨h1, h2⟩ := ht; subst h1; subst h2
      simp only [accept] at h
      split at h
      · rename_i cur rs hcur _
        split at h
        · cases h
          left
          simp only [markedDone] at hm ⊢
          rw [hcur] at hm
          simp only [Bool.and_eq_true, decide_eq_true_eq] at hm
          simp only [St.msg, St.upd, tabGet_set, if_true, chan_setChanSynced, chan_setChan]
          simp only [Bool.and_eq_true, decide_eq_true_eq, List.length_append]
          refine ⟨by omega, ?_⟩
          rw [getD_append_left' _ _ _ _ hm.1]; exact hm.2
        · cases h
      · cases h
    | markD m' c' pos =>
      simp [touchesChan] at ht; obtain ⟨h1, h2⟩ := ht; subst h1; subst h2
      simp only [accept] at h
      split at h
      · cases h
      · split at h
        · cases h
        · rename_i rs hrs
          split at h
          · cases h
          · rename_i idx _
            split at h
            · cases h
              left
              simp only [markedDone] at hm ⊢
              rw [hrs] at hm
              simp only [Bool.and_eq_true, decide_eq_true_eq] at hm
              simp only [St.msg, St.upd, tabGet_set, if_true, chan_setChan]
              simp only [Bool.and_eq_true, decide_eq_true_eq, length_setDone]
              exact ⟨hm.1, getD_setDone_mono rs idx i hm.2⟩
            · cases h
    | _ => simp [touchesChan] at ht

end Nq.Lemmas.DO
