import Nq.Lemmas.Pop3Walk7
namespace Nq.Lemmas.Pop3
open Nq Nq.Pop3 Nq.Pop3Ref Nq.Lemmas.Pop3Fmt Nq.Lemmas.Pop3Heap

/-! ### the start state is related to the reference's initial state -/

def toR (f : File) : RMsg := { path := f.path, data := f.data }

/-- the numbering the reference is run with: message by message, the path and the data of the file
of that name in the maildir at start-up -/
def numberingOf (fs : FS) (msgs : List Msg) : List RMsg :=
  msgs.map (fun m => { path := m.fn, data := match fsFind fs m.fn with | some f => f.data | none => [] })

theorem find_some_of_mem (fs : FS) (f : File) (h : f ∈ fs) : ∃ g, fsFind fs f.path = some g := by
  induction fs with
  | nil => simp at h
  | cons x fs ih =>
    rw [find_cons]
    by_cases e : x.path = f.path
    · exact ⟨x, by simp [e]⟩
    · rcases List.mem_cons.mp h with hh | hh
      · exact absurd (hh ▸ rfl) e
      · obtain ⟨g, hg⟩ := ih hh
        exact ⟨g, by simp [e, hg]⟩

theorem rel_start (fs : FS) : ∀ (k : Nat) (L : List File), (∀ f ∈ L, f ∈ fs) →
    Rel [] k (L.map (startMsg fs)) (numberingOf fs (L.map (startMsg fs))) := by
  intro k L
  induction L generalizing k with
  | nil => intro _; simp [numberingOf, Rel]
  | cons f L ih =>
    intro h
    simp only [List.map_cons, numberingOf, Rel]
    refine ⟨trivial, ?_, by simp [startMsg], ih (k + 1) (fun x hx => h x (by simp [hx]))⟩
    simp only [startMsg, sizeAt]
    cases fsFind fs f.path <;> rfl

theorem sim_start (now : Nat) (fs : FS)
    (h1 : (getlist now (cleanTmp now fs)).length ≤ INT_MAX)
    (h2 : ∀ f ∈ fs, LF ∉ f.path)
    (h3 : ((numberingOf (cleanTmp now fs) (getlist now (cleanTmp now fs))).map (fun r => r.data.length)).sum < U64 - 1) :
    Sim (start now fs).s { msgs := numberingOf (cleanTmp now fs) (getlist now (cleanTmp now fs)) } := by
  obtain ⟨L, hperm, _, hL⟩ := getlist_sorted_perm now (cleanTmp now fs)
  have hmem : ∀ f ∈ L, f ∈ cleanTmp now fs := fun f hf => eligible_mem now _ f (hperm.subset hf)
  have hsub : ∀ f ∈ cleanTmp now fs, f ∈ fs := by
    intro f hf; unfold cleanTmp at hf; exact (List.mem_filter.mp hf).1
  exact {
    rel := by
      show Rel [] 0 (getlist now (cleanTmp now fs)) _
      rw [hL]; exact rel_start _ 0 L hmem
    modz := rfl
    last := start_lastInv now fs
    small := h1
    inrange := by intro i hi; simp at hi
    noLF := by
      intro r hr
      show LF ∉ r.path
      simp only [numberingOf, hL, List.map_map, List.mem_map, Function.comp] at hr
      obtain ⟨f, hf, rfl⟩ := hr
      exact h2 f (hsub f (hmem f hf))
    total := h3
    file := by
      intro r hr
      refine ⟨fun hg => by simp at hg, fun _ => ?_⟩
      simp only [numberingOf, hL, List.map_map, List.mem_map, Function.comp] at hr
      obtain ⟨f, hf, rfl⟩ := hr
      obtain ⟨g, hg⟩ := find_some_of_mem _ f (hmem f hf)
      refine ⟨g, ?_, ?_⟩
      · show fsFind (cleanTmp now fs) (startMsg (cleanTmp now fs) f).fn = some g
        exact hg
      · show g.data = (match fsFind (cleanTmp now fs) (startMsg (cleanTmp now fs) f).fn with | some f => f.data | none => [])
        have : (startMsg (cleanTmp now fs) f).fn = f.path := rfl
        rw [this, hg] }

/-- with unique names the numbering is the list of the files themselves, in the mtime order of
`getlist_sorted_perm` -/
theorem numbering_admissible (now : Nat) (fs : FS) (hu : (fs.map (·.path)).Nodup) :
    ∃ L : List File, L.Perm (eligible now fs) ∧ L.Pairwise (fun a b => a.mtime ≤ b.mtime) ∧
      numberingOf (cleanTmp now fs) (getlist now (cleanTmp now fs)) = L.map toR := by
  obtain ⟨L, hperm, hs, hL⟩ := getlist_sorted_perm now (cleanTmp now fs)
  have hu' : ((cleanTmp now fs).map (·.path)).Nodup := by
    unfold cleanTmp
    exact (List.filter_sublist.map _).nodup hu
  refine ⟨L, by rw [← eligible_cleanTmp]; exact hperm, hs, ?_⟩
  rw [hL]
  simp only [numberingOf, List.map_map]
  apply List.map_congr_left
  intro f hf
  have hm : f ∈ cleanTmp now fs := eligible_mem now _ f (hperm.subset hf)
  simp only [Function.comp, toR, startMsg, find_of_nodup _ hu' f hm]

end Nq.Lemmas.Pop3
