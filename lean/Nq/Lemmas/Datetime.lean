/-
  Lemmas about `Nq.Datetime`: `datetime_tai` computes the proleptic Gregorian calendar date, for every t ∈ ℤ;
  no `int` overflows for the supported range; the calendar specification is sound (year lengths, injectivity).
  Core Lean + omega only.
-/
import Nq.Datetime

set_option linter.unusedSimpArgs false

namespace Nq.Lemmas.Datetime
open Nq Nq.Datetime

/-! ### C division -/

theorem tdivmod (a b : Int) (hb : 0 < b) :
    a = b * a.tdiv b + a.tmod b ∧ -b < a.tmod b ∧ a.tmod b < b ∧ (0 ≤ a → 0 ≤ a.tmod b) ∧ (a ≤ 0 → a.tmod b ≤ 0) := by
  refine ⟨?_, ?_, ?_, ?_, ?_⟩
  · have := Int.mul_tdiv_add_tmod a b; omega
  · have := Int.tmod_lt_of_pos (-a) hb
    rw [Int.neg_tmod] at this; omega
  · exact Int.tmod_lt_of_pos a hb
  · intro h; exact Int.tmod_nonneg b h
  · intro h
    have := Int.tmod_nonneg b (show 0 ≤ -a by omega)
    rw [Int.neg_tmod] at this; omega

/-! ### the calendar specification -/

theorem isLeap_iff (y : Int) : isLeap y = true ↔ y % 4 = 0 ∧ (y % 100 ≠ 0 ∨ y % 400 = 0) := by
  simp [isLeap]

/-- the step of `leapsThrough` is the leap-year rule -/
theorem leapsThrough_succ (y : Int) : leapsThrough y = leapsThrough (y - 1) + (if isLeap y then 1 else 0) := by
  unfold leapsThrough
  by_cases h : isLeap y = true
  · rw [if_pos h]; rw [isLeap_iff] at h; omega
  · rw [if_neg h]; rw [isLeap_iff] at h; omega

theorem daysBeforeYear_1970 : daysBeforeYear 1970 = 0 := by decide

/-- `daysBeforeYear` is *the* day count: it is 0 for 1970 and grows by the length of each year -/
theorem daysBeforeYear_succ (y : Int) : daysBeforeYear (y + 1) = daysBeforeYear y + yearLen y := by
  unfold daysBeforeYear yearLen
  have := leapsThrough_succ y
  rw [show y + 1 - 1 = y by omega]
  split <;> simp_all <;> omega

theorem daysBeforeYear_mono (y y' : Int) (h : y ≤ y') : daysBeforeYear y ≤ daysBeforeYear y' := by
  unfold daysBeforeYear leapsThrough; omega

def leapI (y : Int) : Int := if isLeap y then 1 else 0
theorem leapI01 (y : Int) : leapI y = 0 ∨ leapI y = 1 := by unfold leapI; split <;> simp
theorem yearLen_eq (y : Int) : yearLen y = 365 + leapI y := by unfold yearLen leapI; split <;> simp
theorem dbm_all (y : Int) :
    daysBeforeMonth y 0 = 0 ∧ daysBeforeMonth y 1 = 31 ∧ daysBeforeMonth y 2 = 59 + leapI y ∧ daysBeforeMonth y 3 = 90 + leapI y ∧
    daysBeforeMonth y 4 = 120 + leapI y ∧ daysBeforeMonth y 5 = 151 + leapI y ∧ daysBeforeMonth y 6 = 181 + leapI y ∧
    daysBeforeMonth y 7 = 212 + leapI y ∧ daysBeforeMonth y 8 = 243 + leapI y ∧ daysBeforeMonth y 9 = 273 + leapI y ∧
    daysBeforeMonth y 10 = 304 + leapI y ∧ daysBeforeMonth y 11 = 334 + leapI y ∧ daysBeforeMonth y 12 = 365 + leapI y := by
  unfold leapI
  cases h : isLeap y <;> simp [daysBeforeMonth, monthLen, h]
theorem ml_all (y : Int) :
    monthLen y 0 = 31 ∧ monthLen y 1 = 28 + leapI y ∧ monthLen y 2 = 31 ∧ monthLen y 3 = 30 ∧ monthLen y 4 = 31 ∧
    monthLen y 5 = 30 ∧ monthLen y 6 = 31 ∧ monthLen y 7 = 31 ∧ monthLen y 8 = 30 ∧ monthLen y 9 = 31 ∧
    monthLen y 10 = 30 ∧ monthLen y 11 = 31 := by
  unfold leapI
  cases h : isLeap y <;> simp [monthLen, h]
theorem dbm0 (y : Int) : daysBeforeMonth y 0 = 0 := (dbm_all y).1
theorem dbm1 (y : Int) : daysBeforeMonth y 1 = 31 := (dbm_all y).2.1
theorem dbm2 (y : Int) : daysBeforeMonth y 2 = 59 + leapI y := (dbm_all y).2.2.1
theorem dbm3 (y : Int) : daysBeforeMonth y 3 = 90 + leapI y := (dbm_all y).2.2.2.1
theorem dbm4 (y : Int) : daysBeforeMonth y 4 = 120 + leapI y := (dbm_all y).2.2.2.2.1
theorem dbm5 (y : Int) : daysBeforeMonth y 5 = 151 + leapI y := (dbm_all y).2.2.2.2.2.1
theorem dbm6 (y : Int) : daysBeforeMonth y 6 = 181 + leapI y := (dbm_all y).2.2.2.2.2.2.1
theorem dbm7 (y : Int) : daysBeforeMonth y 7 = 212 + leapI y := (dbm_all y).2.2.2.2.2.2.2.1
theorem dbm8 (y : Int) : daysBeforeMonth y 8 = 243 + leapI y := (dbm_all y).2.2.2.2.2.2.2.2.1
theorem dbm9 (y : Int) : daysBeforeMonth y 9 = 273 + leapI y := (dbm_all y).2.2.2.2.2.2.2.2.2.1
theorem dbm10 (y : Int) : daysBeforeMonth y 10 = 304 + leapI y := (dbm_all y).2.2.2.2.2.2.2.2.2.2.1
theorem dbm11 (y : Int) : daysBeforeMonth y 11 = 334 + leapI y := (dbm_all y).2.2.2.2.2.2.2.2.2.2.2.1
theorem ml0 (y : Int) : monthLen y 0 = 31 := (ml_all y).1
theorem ml1 (y : Int) : monthLen y 1 = 28 + leapI y := (ml_all y).2.1
theorem ml2 (y : Int) : monthLen y 2 = 31 := (ml_all y).2.2.1
theorem ml3 (y : Int) : monthLen y 3 = 30 := (ml_all y).2.2.2.1
theorem ml4 (y : Int) : monthLen y 4 = 31 := (ml_all y).2.2.2.2.1
theorem ml5 (y : Int) : monthLen y 5 = 30 := (ml_all y).2.2.2.2.2.1
theorem ml6 (y : Int) : monthLen y 6 = 31 := (ml_all y).2.2.2.2.2.2.1
theorem ml7 (y : Int) : monthLen y 7 = 31 := (ml_all y).2.2.2.2.2.2.2.1
theorem ml8 (y : Int) : monthLen y 8 = 30 := (ml_all y).2.2.2.2.2.2.2.2.1
theorem ml9 (y : Int) : monthLen y 9 = 31 := (ml_all y).2.2.2.2.2.2.2.2.2.1
theorem ml10 (y : Int) : monthLen y 10 = 30 := (ml_all y).2.2.2.2.2.2.2.2.2.2.1
theorem ml11 (y : Int) : monthLen y 11 = 31 := (ml_all y).2.2.2.2.2.2.2.2.2.2.2
theorem mon_cases (m : Int) (h0 : 0 ≤ m) (h1 : m < 12) :
    m = 0 ∨ m = 1 ∨ m = 2 ∨ m = 3 ∨ m = 4 ∨ m = 5 ∨ m = 6 ∨ m = 7 ∨ m = 8 ∨ m = 9 ∨ m = 10 ∨ m = 11 := by omega


theorem isLeap_leapI (y : Int) (h : isLeap y = true) : leapI y = 1 := by simp [leapI, h]

/-- a valid date lies inside its year -/
theorem dfc_bounds (y m d : Int) (h : validDate y m d) :
    daysBeforeYear y ≤ daysFromCivil y m d ∧ daysFromCivil y m d < daysBeforeYear (y + 1) := by
  obtain ⟨h0, h1, h2, h3⟩ := h
  have hL := leapI01 y
  rw [daysBeforeYear_succ, yearLen_eq]
  unfold daysFromCivil
  rcases mon_cases m h0 h1 with rfl | rfl | rfl | rfl | rfl | rfl | rfl | rfl | rfl | rfl | rfl | rfl <;>
    simp only [Int.reduceToNat, Int.reduceAdd, Int.reduceSub, dbm0, dbm1, dbm2, dbm3, dbm4, dbm5, dbm6, dbm7, dbm8, dbm9, dbm10, dbm11,
      ml0, ml1, ml2, ml3, ml4, ml5, ml6, ml7, ml8, ml9, ml10, ml11] at h3 ⊢ <;> omega

/-- within one year the day number determines month and day -/
theorem dfc_inj_year (y m d m' d' : Int) (h : validDate y m d) (h' : validDate y m' d')
    (e : daysFromCivil y m d = daysFromCivil y m' d') : m = m' ∧ d = d' := by
  obtain ⟨h0, h1, h2, h3⟩ := h
  obtain ⟨h0', h1', h2', h3'⟩ := h'
  have hL := leapI01 y
  unfold daysFromCivil at e
  rcases mon_cases m h0 h1 with rfl | rfl | rfl | rfl | rfl | rfl | rfl | rfl | rfl | rfl | rfl | rfl <;>
    rcases mon_cases m' h0' h1' with rfl | rfl | rfl | rfl | rfl | rfl | rfl | rfl | rfl | rfl | rfl | rfl <;>
    simp only [Int.reduceToNat, Int.reduceAdd, Int.reduceSub, dbm0, dbm1, dbm2, dbm3, dbm4, dbm5, dbm6, dbm7, dbm8, dbm9, dbm10, dbm11,
      ml0, ml1, ml2, ml3, ml4, ml5, ml6, ml7, ml8, ml9, ml10, ml11] at e h3 h3' <;> omega

/-- **the day number determines the civil date** -/
theorem dfc_inj (y m d y' m' d' : Int) (h : validDate y m d) (h' : validDate y' m' d')
    (e : daysFromCivil y m d = daysFromCivil y' m' d') : y = y' ∧ m = m' ∧ d = d' := by
  have b := dfc_bounds y m d h
  have b' := dfc_bounds y' m' d' h'
  have hy : y = y' := by
    rcases Int.lt_trichotomy y y' with hlt | heq | hgt
    · have := daysBeforeYear_mono (y + 1) y' (by omega); omega
    · exact heq
    · have := daysBeforeYear_mono (y' + 1) y (by omega); omega
  subst hy
  exact ⟨rfl, dfc_inj_year y m d m' d' h h' e⟩

/-! ### the code -/

/-- day number of March 1 of year `Y` -/
def marchEpoch (Y : Int) : Int := 365 * (Y - 2000) + (leapsThrough Y - leapsThrough 2000) + 11017

theorem marchEpoch_this (Y : Int) : daysBeforeYear Y + 59 + (if isLeap Y then 1 else 0) = marchEpoch Y := by
  have := leapsThrough_succ Y
  unfold daysBeforeYear marchEpoch
  have e1 : leapsThrough 2000 = 485 := by decide
  have e2 : leapsThrough 1969 = 477 := by decide
  omega

theorem marchEpoch_next (Y : Int) : daysBeforeYear (Y + 1) = marchEpoch Y + 306 := by
  unfold daysBeforeYear marchEpoch
  have e1 : leapsThrough 2000 = 485 := by decide
  have e2 : leapsThrough 1969 = 477 := by decide
  rw [show Y + 1 - 1 = Y by omega]
  omega

/-- the year arithmetic of the code: era / century / 4-year cycle / year -/
theorem marchEpoch_split (e c q yy : Int) (hc0 : 0 ≤ c) (hc : c ≤ 3) (hq0 : 0 ≤ q) (hq : q ≤ 24) (hy0 : 0 ≤ yy) (hy : yy ≤ 3) :
    marchEpoch (2000 + 400 * e + 100 * c + 4 * q + yy) = 11017 + 146097 * e + 36524 * c + 1461 * q + 365 * yy := by
  unfold marchEpoch leapsThrough
  omega

/-- March-based day of year → month and day: the `(10 d + 5) / 306` trick -/
theorem month_split (Y r m dd : Int) (hr0 : 0 ≤ r) (hr : r ≤ 365)
    (hleap : r = 365 → isLeap (Y + 1) = true)
    (hm : m = (10 * r + 5) / 306) (hdd : dd = (10 * r + 5 - 306 * m) / 10) :
    (m < 10 → validDate Y (m + 2) (dd + 1) ∧ daysFromCivil Y (m + 2) (dd + 1) = marchEpoch Y + r) ∧
    (m ≥ 10 → validDate (Y + 1) (m - 10) (dd + 1) ∧ daysFromCivil (Y + 1) (m - 10) (dd + 1) = marchEpoch Y + r) ∧
    0 ≤ m ∧ m ≤ 11 := by
  have hm0 : 0 ≤ m := by omega
  have hm11 : m ≤ 11 := by omega
  refine ⟨?_, ?_, hm0, hm11⟩
  · intro hlt
    have hL := leapI01 Y
    have E := marchEpoch_this Y
    rw [show (if isLeap Y = true then (1:Int) else 0) = leapI Y from rfl] at E
    unfold validDate daysFromCivil
    have hc : m = 0 ∨ m = 1 ∨ m = 2 ∨ m = 3 ∨ m = 4 ∨ m = 5 ∨ m = 6 ∨ m = 7 ∨ m = 8 ∨ m = 9 := by omega
    rcases hc with rfl | rfl | rfl | rfl | rfl | rfl | rfl | rfl | rfl | rfl <;>
      simp only [Int.reduceToNat, Int.reduceAdd, Int.reduceSub, dbm0, dbm1, dbm2, dbm3, dbm4, dbm5, dbm6, dbm7, dbm8, dbm9, dbm10, dbm11,
      ml0, ml1, ml2, ml3, ml4, ml5, ml6, ml7, ml8, ml9, ml10, ml11] <;> omega
  · intro hge
    have hL := leapI01 (Y + 1)
    have E := marchEpoch_next Y
    have hL1 : r = 365 → leapI (Y + 1) = 1 := fun h => isLeap_leapI _ (hleap h)
    unfold validDate daysFromCivil
    have hc : m = 10 ∨ m = 11 := by omega
    rcases hc with rfl | rfl <;>
      simp only [Int.reduceToNat, Int.reduceAdd, Int.reduceSub, dbm0, dbm1, dbm2, dbm3, dbm4, dbm5, dbm6, dbm7, dbm8, dbm9, dbm10, dbm11,
      ml0, ml1, ml2, ml3, ml4, ml5, ml6, ml7, ml8, ml9, ml10, ml11] <;> omega

/-! ### datetime_tai, statement by statement -/

/-- time of day and day number: C's truncating `%`,`/` followed by the `if (tod < 0)` repair is floor division -/
theorem vars_day (t : Int) : (vars t).day = t / 86400 ∧ (vars t).tod = t % 86400 := by
  have e1 : (vars t).day = if t.tmod 86400 < 0 then t.tdiv 86400 - 1 else t.tdiv 86400 := rfl
  have e2 : (vars t).tod = if t.tmod 86400 < 0 then t.tmod 86400 + 86400 else t.tmod 86400 := rfl
  have h := tdivmod t 86400 (by decide)
  rw [e1, e2]
  split <;> omega

theorem vars_time (t : Int) :
    (vars t).hour = t % 86400 / 3600 ∧ (vars t).min = t % 86400 % 3600 / 60 ∧ (vars t).sec = t % 86400 % 60 := by
  have e1 : (vars t).hour = (vars t).tod.tdiv 3600 := rfl
  have e2 : (vars t).min = ((vars t).tod.tmod 3600).tdiv 60 := rfl
  have e3 : (vars t).sec = ((vars t).tod.tmod 3600).tmod 60 := rfl
  have h0 := (vars_day t).2
  have h1 := tdivmod (vars t).tod 3600 (by decide)
  have h2 := tdivmod ((vars t).tod.tmod 3600) 60 (by decide)
  rw [e1, e2, e3]
  omega

theorem vars_wday (t : Int) : (vars t).wday = (t / 86400 + 4) % 7 := by
  have e1 : (vars t).wday = if ((vars t).day + 4).tmod 7 < 0 then ((vars t).day + 4).tmod 7 + 7 else ((vars t).day + 4).tmod 7 := rfl
  have h0 := (vars_day t).1
  have h1 := tdivmod ((vars t).day + 4) 7 (by decide)
  rw [e1]
  split <;> omega

/-- the year arithmetic, stage by stage: era `e` (400 years), century `c`, 4-year cycle `q`, year `yy` -/
theorem vars_year_full (t : Int) : ∃ e c q yy : Int,
    (vars t).d1 = t / 86400 - 11017 ∧
    (vars t).y1 = 5 + e ∧ (vars t).d1 = 146097 * e + (vars t).d3 ∧ 0 ≤ (vars t).d3 ∧ (vars t).d3 < 146097 ∧
    (vars t).y3 = (vars t).y1 * 4 + c ∧ (vars t).d3 = 36524 * c + (vars t).d4 ∧ 0 ≤ c ∧ c ≤ 3 ∧
      0 ≤ (vars t).d4 ∧ (vars t).d4 ≤ 36524 ∧ ((vars t).d4 = 36524 → c = 3) ∧
    (vars t).y4 = (vars t).y3 * 25 + q ∧ (vars t).d4 = 1461 * q + (vars t).d5 ∧ 0 ≤ q ∧ q ≤ 24 ∧
      0 ≤ (vars t).d5 ∧ (vars t).d5 ≤ 1460 ∧
    (vars t).y6 = (vars t).y4 * 4 + yy ∧ (vars t).d5 = 365 * yy + (vars t).d6 ∧ 0 ≤ yy ∧ yy ≤ 3 ∧
      0 ≤ (vars t).d6 ∧ (vars t).d6 ≤ 365 ∧ ((vars t).d6 = 365 → yy = 3) := by
  have hday := (vars_day t).1
  have e_d1 : (vars t).d1 = (vars t).day - 11017 := rfl
  have e_y1 : (vars t).y1 = if (vars t).d1.tmod 146097 < 0 then 5 + (vars t).d1.tdiv 146097 - 1 else 5 + (vars t).d1.tdiv 146097 := rfl
  have e_d3 : (vars t).d3 = if (vars t).d1.tmod 146097 < 0 then (vars t).d1.tmod 146097 + 146097 else (vars t).d1.tmod 146097 := rfl
  have e_y3 : (vars t).y3 = if (vars t).d3 = 146096 then (vars t).y1 * 4 + 3 else (vars t).y1 * 4 + (vars t).d3.tdiv 36524 := rfl
  have e_d4 : (vars t).d4 = if (vars t).d3 = 146096 then 36524 else (vars t).d3.tmod 36524 := rfl
  have e_y4 : (vars t).y4 = (vars t).y3 * 25 + (vars t).d4.tdiv 1461 := rfl
  have e_d5 : (vars t).d5 = (vars t).d4.tmod 1461 := rfl
  have e_y6 : (vars t).y6 = if (vars t).d5 = 1460 then (vars t).y4 * 4 + 3 else (vars t).y4 * 4 + (vars t).d5.tdiv 365 := rfl
  have e_d6 : (vars t).d6 = if (vars t).d5 = 1460 then 365 else (vars t).d5.tmod 365 := rfl
  -- era
  have h1 := tdivmod (vars t).d1 146097 (by decide)
  have era : ∃ e : Int, (vars t).y1 = 5 + e ∧ (vars t).d1 = 146097 * e + (vars t).d3 ∧ 0 ≤ (vars t).d3 ∧ (vars t).d3 < 146097 := by
    by_cases hc : (vars t).d1.tmod 146097 < 0
    · rw [if_pos hc] at e_y1 e_d3; refine ⟨(vars t).y1 - 5, ?_, ?_, ?_, ?_⟩ <;> omega
    · rw [if_neg hc] at e_y1 e_d3; refine ⟨(vars t).y1 - 5, ?_, ?_, ?_, ?_⟩ <;> omega
  obtain ⟨e, hy1, hd1, hd3a, hd3b⟩ := era
  -- century
  have h2 := tdivmod (vars t).d3 36524 (by decide)
  have cent : ∃ c : Int, (vars t).y3 = (vars t).y1 * 4 + c ∧ (vars t).d3 = 36524 * c + (vars t).d4 ∧ 0 ≤ c ∧ c ≤ 3 ∧
      0 ≤ (vars t).d4 ∧ (vars t).d4 ≤ 36524 ∧ ((vars t).d4 = 36524 → c = 3) := by
    by_cases hc : (vars t).d3 = 146096
    · rw [if_pos hc] at e_y3 e_d4; refine ⟨(vars t).y3 - (vars t).y1 * 4, ?_, ?_, ?_, ?_, ?_, ?_, ?_⟩ <;> omega
    · rw [if_neg hc] at e_y3 e_d4; refine ⟨(vars t).y3 - (vars t).y1 * 4, ?_, ?_, ?_, ?_, ?_, ?_, ?_⟩ <;> omega
  obtain ⟨c, hy3, hd3, hc0, hc3, hd4a, hd4b, hd4c⟩ := cent
  -- 4-year cycle
  have h3 := tdivmod (vars t).d4 1461 (by decide)
  have cyc : ∃ q : Int, (vars t).y4 = (vars t).y3 * 25 + q ∧ (vars t).d4 = 1461 * q + (vars t).d5 ∧ 0 ≤ q ∧ q ≤ 24 ∧
      0 ≤ (vars t).d5 ∧ (vars t).d5 ≤ 1460 := by
    refine ⟨(vars t).d4.tdiv 1461, e_y4, ?_, ?_, ?_, ?_, ?_⟩ <;> omega
  obtain ⟨q, hy4, hd4, hq0, hq24, hd5a, hd5b⟩ := cyc
  -- year
  have h4 := tdivmod (vars t).d5 365 (by decide)
  have yr : ∃ yy : Int, (vars t).y6 = (vars t).y4 * 4 + yy ∧ (vars t).d5 = 365 * yy + (vars t).d6 ∧ 0 ≤ yy ∧ yy ≤ 3 ∧
      0 ≤ (vars t).d6 ∧ (vars t).d6 ≤ 365 ∧ ((vars t).d6 = 365 → yy = 3) := by
    by_cases hc : (vars t).d5 = 1460
    · rw [if_pos hc] at e_y6 e_d6; refine ⟨(vars t).y6 - (vars t).y4 * 4, ?_, ?_, ?_, ?_, ?_, ?_, ?_⟩ <;> omega
    · rw [if_neg hc] at e_y6 e_d6; refine ⟨(vars t).y6 - (vars t).y4 * 4, ?_, ?_, ?_, ?_, ?_, ?_, ?_⟩ <;> omega
  obtain ⟨yy, hy6, hd5, hyy0, hyy3, hd6a, hd6b, hd6c⟩ := yr
  exact ⟨e, c, q, yy, by omega, hy1, hd1, hd3a, hd3b, hy3, hd3, hc0, hc3, hd4a, hd4b, hd4c, hy4, hd4, hq0, hq24, hd5a, hd5b,
    hy6, hd5, hyy0, hyy3, hd6a, hd6b, hd6c⟩

/-- `year` before the month correction is the March-based year `Y`, `d6` the day of that year -/
theorem vars_year (t : Int) :
    t / 86400 = marchEpoch (vars t).y6 + (vars t).d6 ∧ 0 ≤ (vars t).d6 ∧ (vars t).d6 ≤ 365 ∧
    ((vars t).d6 = 365 → isLeap ((vars t).y6 + 1) = true) := by
  obtain ⟨e, c, q, yy, hd1', hy1, hd1, hd3a, hd3b, hy3, hd3, hc0, hc3, hd4a, hd4b, hd4c, hy4, hd4, hq0, hq24, hd5a, hd5b,
    hy6, hd5, hyy0, hyy3, hd6a, hd6b, hd6c⟩ := vars_year_full t
  have hY : (vars t).y6 = 2000 + 400 * e + 100 * c + 4 * q + yy := by omega
  have hM := marchEpoch_split e c q yy hc0 hc3 hq0 hq24 hyy0 hyy3
  refine ⟨?_, hd6a, hd6b, ?_⟩
  · rw [hY, hM]; omega
  · intro h365
    rw [isLeap_iff, hY]
    have : yy = 3 := hd6c h365
    omega

/-- month and day of month -/
theorem vars_month (t : Int) :
    (vars t).mon0 = (10 * (vars t).d6 + 5) / 306 ∧ (vars t).d8 = (10 * (vars t).d6 + 5 - 306 * (vars t).mon0) / 10 := by
  have e1 : (vars t).mon0 = ((vars t).d6 * 10 + 5).tdiv 306 := rfl
  have e2 : (vars t).d8 = ((vars t).d6 * 10 + 5 - 306 * (vars t).mon0).tdiv 10 := rfl
  have hy := vars_year t
  have h1 := tdivmod ((vars t).d6 * 10 + 5) 306 (by decide)
  have h2 := tdivmod ((vars t).d6 * 10 + 5 - 306 * (vars t).mon0) 10 (by decide)
  constructor
  · rw [e1]; omega
  · rw [e2]
    have : 0 ≤ (vars t).d6 * 10 + 5 - 306 * (vars t).mon0 := by rw [e1]; omega
    omega

/-- **`datetime_tai(t)` is the proleptic Gregorian UTC date and time of `t` seconds after 1970-01-01 00:00:00**, for
every `t ∈ ℤ` (of the model on unbounded integers; `tai_no_overflow` gives the range where the `int`s of the C code
coincide with it): the result is a valid civil date whose day number is ⌊t/86400⌋, hour:min:sec is `t mod 86400`
written in base 60, and the weekday is right. -/
theorem tai_civil (t : Int) :
    validDate (tai t).year (tai t).mon (tai t).mday ∧
    daysFromCivil (tai t).year (tai t).mon (tai t).mday = t / 86400 ∧
    (0 ≤ (tai t).hour ∧ (tai t).hour < 24 ∧ 0 ≤ (tai t).min ∧ (tai t).min < 60 ∧ 0 ≤ (tai t).sec ∧ (tai t).sec < 60) ∧
    (tai t).hour * 3600 + (tai t).min * 60 + (tai t).sec = t % 86400 ∧
    (tai t).wday = (t / 86400 + 4) % 7 := by
  have e_year : (tai t).year = if (vars t).mon0 ≥ 10 then (vars t).y6 + 1 else (vars t).y6 := rfl
  have e_mon : (tai t).mon = if (vars t).mon0 ≥ 10 then (vars t).mon0 - 10 else (vars t).mon0 + 2 := rfl
  have e_mday : (tai t).mday = (vars t).d8 + 1 := rfl
  have e_hour : (tai t).hour = (vars t).hour := rfl
  have e_min : (tai t).min = (vars t).min := rfl
  have e_sec : (tai t).sec = (vars t).sec := rfl
  have e_wday : (tai t).wday = (vars t).wday := rfl
  obtain ⟨hD, hr0, hr1, hleap⟩ := vars_year t
  obtain ⟨hm, hdd⟩ := vars_month t
  obtain ⟨hlt, hge, _, _⟩ := month_split (vars t).y6 (vars t).d6 (vars t).mon0 (vars t).d8 hr0 hr1 hleap hm hdd
  obtain ⟨hh, hmi, hs⟩ := vars_time t
  rw [e_year, e_mon, e_mday, e_hour, e_min, e_sec, e_wday, vars_wday, hh, hmi, hs]
  refine ⟨?_, ?_, by omega, by omega, rfl⟩
  · split
    · exact (hge (by assumption)).1
    · exact (hlt (by omega)).1
  · split
    · rw [(hge (by assumption)).2]; omega
    · rw [(hlt (by omega)).2]; omega

/-- the compiled predicate of the drivers is exactly that statement -/
theorem civilOk_tai (t : Int) : civilOk t (tai t) = true := by
  obtain ⟨h1, h2, h3, h4, h5⟩ := tai_civil t
  simp [civilOk, h1, h2, h3, h4, h5]

/-- and it characterises the result: whatever valid civil date has day number ⌊t/86400⌋ is the one `datetime_tai` returns -/
theorem tai_unique (t y m d : Int) (hv : validDate y m d) (hd : daysFromCivil y m d = t / 86400) :
    (tai t).year = y ∧ (tai t).mon = m ∧ (tai t).mday = d := by
  obtain ⟨h1, h2, _⟩ := tai_civil t
  exact dfc_inj _ _ _ _ _ _ h1 hv (by rw [h2, hd])

/-! ### the range: where the C `int`s hold exactly these values -/

theorem supported_iff (t : Int) : supported t = true ↔ INT_MIN + 11017 ≤ t / 86400 ∧ t / 86400 ≤ INT_MAX - 4 := by
  have e1 : tLo = -185541635318400 := by decide
  have e2 : tHi = 185542586841599 := by decide
  simp only [supported, e1, e2, INT_MIN, INT_MAX, Bool.and_eq_true, decide_eq_true_eq]
  constructor <;> intro h <;> omega

theorem bounds_time (t : Int) (h : -2147483648 + 11017 ≤ t / 86400 ∧ t / 86400 ≤ 2147483647 - 4) :
    (-86400 < (vars t).tod0 ∧ (vars t).tod0 < 86400) ∧ (-2147483648 ≤ (vars t).day0 ∧ (vars t).day0 ≤ 2147483647) ∧
    (0 ≤ (vars t).tod ∧ (vars t).tod < 86400) ∧ (-2147483648 + 11017 ≤ (vars t).day ∧ (vars t).day ≤ 2147483647 - 4) ∧
    (0 ≤ (vars t).hour ∧ (vars t).hour < 24) ∧ (0 ≤ (vars t).tod2 ∧ (vars t).tod2 < 3600) ∧
    (0 ≤ (vars t).min ∧ (vars t).min < 60) ∧ (0 ≤ (vars t).sec ∧ (vars t).sec < 60) ∧
    (-7 < (vars t).w0 ∧ (vars t).w0 < 7) ∧ (0 ≤ (vars t).wday ∧ (vars t).wday < 7) ∧ (vars t).dplus4 = (vars t).day + 4 := by
  obtain ⟨hday, htod⟩ := vars_day t
  obtain ⟨hh, hmi, hs⟩ := vars_time t
  have hw := vars_wday t
  have e_tod0 : (vars t).tod0 = t.tmod 86400 := rfl
  have e_day0 : (vars t).day0 = t.tdiv 86400 := rfl
  have e_tod2 : (vars t).tod2 = (vars t).tod.tmod 3600 := rfl
  have e_w0 : (vars t).w0 = ((vars t).day + 4).tmod 7 := rfl
  have t1 := tdivmod t 86400 (by decide)
  have t2 := tdivmod (vars t).tod 3600 (by decide)
  have t3 := tdivmod ((vars t).day + 4) 7 (by decide)
  refine ⟨by omega, by omega, by omega, by omega, by omega, by omega, by omega, by omega, by omega, by omega, rfl⟩

theorem bounds_year (t : Int) (h : -2147483648 + 11017 ≤ t / 86400 ∧ t / 86400 ≤ 2147483647 - 4) :
    (-2147483648 ≤ (vars t).d1 ∧ (vars t).d1 ≤ 2147483647) ∧ (-14700 ≤ (vars t).y0 ∧ (vars t).y0 ≤ 14710) ∧
    (-146097 < (vars t).d2 ∧ (vars t).d2 < 146097) ∧ (-14700 ≤ (vars t).y1 ∧ (vars t).y1 ≤ 14710) ∧
    (0 ≤ (vars t).d3 ∧ (vars t).d3 < 146097) ∧ (vars t).y2 = (vars t).y1 * 4 ∧
    (-60000 ≤ (vars t).y3 ∧ (vars t).y3 ≤ 60000) ∧ (0 ≤ (vars t).d4 ∧ (vars t).d4 ≤ 36524) ∧ (vars t).y3b = (vars t).y3 * 25 ∧
    (-1600000 ≤ (vars t).y4 ∧ (vars t).y4 ≤ 1600000) ∧ (0 ≤ (vars t).d5 ∧ (vars t).d5 ≤ 1460) ∧ (vars t).y5 = (vars t).y4 * 4 ∧
    (-6400000 ≤ (vars t).y6 ∧ (vars t).y6 ≤ 6400004) ∧ (0 ≤ (vars t).d6 ∧ (vars t).d6 ≤ 365) := by
  obtain ⟨e, c, q, yy, hd1', hy1, hd1, hd3a, hd3b, hy3, hd3, hc0, hc3, hd4a, hd4b, hd4c, hy4, hd4, hq0, hq24, hd5a, hd5b,
    hy6, hd5, hyy0, hyy3, hd6a, hd6b, hd6c⟩ := vars_year_full t
  have e_y0 : (vars t).y0 = 5 + (vars t).d1.tdiv 146097 := rfl
  have e_d2 : (vars t).d2 = (vars t).d1.tmod 146097 := rfl
  have t4 := tdivmod (vars t).d1 146097 (by decide)
  have b_e : -14700 ≤ e ∧ e ≤ 14700 := by omega
  refine ⟨by omega, by omega, by omega, by omega, ⟨hd3a, hd3b⟩, rfl, by omega, ⟨hd4a, hd4b⟩, rfl, by omega, ⟨hd5a, hd5b⟩, rfl,
    by omega, ⟨hd6a, hd6b⟩⟩

theorem bounds_month (t : Int) :
    (0 ≤ (vars t).yd0 ∧ (vars t).yd0 ≤ 1) ∧ (vars t).yd1 = (vars t).yd0 + (vars t).d6 ∧ (vars t).d7 = (vars t).d6 * 10 ∧
    (0 ≤ (vars t).mon0 ∧ (vars t).mon0 ≤ 11) ∧ (0 ≤ (vars t).d8a ∧ (vars t).d8a ≤ 305) ∧ (0 ≤ (vars t).d8 ∧ (vars t).d8 ≤ 30) ∧
    (-400 ≤ (vars t).yday ∧ (vars t).yday ≤ 500) ∧ (0 ≤ (vars t).mon ∧ (vars t).mon ≤ 11) ∧
    ((vars t).y6 ≤ (vars t).year ∧ (vars t).year ≤ (vars t).y6 + 1) := by
  obtain ⟨_, hd6a, hd6b, _⟩ := vars_year t
  obtain ⟨hm, hdd⟩ := vars_month t
  have e_yd0 : (vars t).yd0 = if (vars t).d5 < 306 then 1 else 0 := rfl
  have e_yd1 : (vars t).yd1 = (vars t).yd0 + (vars t).d6 := rfl
  have e_d7 : (vars t).d7 = (vars t).d6 * 10 := rfl
  have e_d8a : (vars t).d8a = (vars t).d7 + 5 - 306 * (vars t).mon0 := rfl
  have e_yday : (vars t).yday = if (vars t).mon0 ≥ 10 then (vars t).yd1 - 306 else (vars t).yd1 + 59 := rfl
  have e_year : (vars t).year = if (vars t).mon0 ≥ 10 then (vars t).y6 + 1 else (vars t).y6 := rfl
  have e_mon : (vars t).mon = if (vars t).mon0 ≥ 10 then (vars t).mon0 - 10 else (vars t).mon0 + 2 := rfl
  have b_yd0 : 0 ≤ (vars t).yd0 ∧ (vars t).yd0 ≤ 1 := by rw [e_yd0]; split <;> omega
  have b_mon0 : 0 ≤ (vars t).mon0 ∧ (vars t).mon0 ≤ 11 := by omega
  refine ⟨b_yd0, rfl, rfl, b_mon0, by omega, by omega, ?_, ?_, ?_⟩
  · rw [e_yday]; split <;> omega
  · rw [e_mon]; split <;> omega
  · rw [e_year]; split <;> omega

/-- **no signed overflow, no narrowing**: for every supported `t`, every value `datetime_tai` computes in an `int`
fits in 32 bits, so the C code (two's complement `int`, truncating division) computes exactly `vars t` -/
theorem tai_no_overflow (t : Int) (h : supported t = true) : ∀ x ∈ (vars t).ints, INT_MIN ≤ x ∧ x ≤ INT_MAX := by
  rw [supported_iff] at h
  simp only [INT_MIN, INT_MAX] at h ⊢
  have B1 := bounds_time t h
  have B2 := bounds_year t h
  have B3 := bounds_month t
  clear h
  intro x hx
  simp only [Vars.ints, List.mem_cons, List.not_mem_nil, or_false] at hx
  rcases hx with rfl | rfl | rfl | rfl | rfl | rfl | rfl | rfl | rfl | rfl | rfl | rfl | rfl | rfl | rfl | rfl | rfl | rfl | rfl |
    rfl | rfl | rfl | rfl | rfl | rfl | rfl | rfl | rfl | rfl | rfl | rfl | rfl | rfl | rfl | rfl | rfl | rfl | rfl <;> omega

/-- … and the range is exact: outside it `day -= 11017` (below) resp. `day + 4` or the narrowing of `t / 86400` (above)
leaves the `int` range — undefined / implementation-defined behaviour in C -/
theorem tai_overflow_outside (t : Int) (h : supported t = false) : ∃ x ∈ (vars t).ints, x < INT_MIN ∨ INT_MAX < x := by
  have h' : ¬ (INT_MIN + 11017 ≤ t / 86400 ∧ t / 86400 ≤ INT_MAX - 4) := by
    rw [← supported_iff, h]; simp
  obtain ⟨hday, _⟩ := vars_day t
  have e_dplus4 : (vars t).dplus4 = (vars t).day + 4 := rfl
  have e_d1 : (vars t).d1 = (vars t).day - 11017 := rfl
  simp only [INT_MIN, INT_MAX] at h' ⊢
  by_cases hlo : -2147483648 + 11017 ≤ t / 86400
  · refine ⟨(vars t).dplus4, by simp [Vars.ints], ?_⟩; omega
  · refine ⟨(vars t).d1, by simp [Vars.ints], ?_⟩; omega

/-! ### yday (read nowhere in the package): right except from March on in the century years that are not leap years -/

theorem tai_yday (t : Int) : (tai t).yday = ydayCode (tai t).year (tai t).mon (tai t).mday := by
  have e_year : (tai t).year = if (vars t).mon0 ≥ 10 then (vars t).y6 + 1 else (vars t).y6 := rfl
  have e_mon : (tai t).mon = if (vars t).mon0 ≥ 10 then (vars t).mon0 - 10 else (vars t).mon0 + 2 := rfl
  have e_mday : (tai t).mday = (vars t).d8 + 1 := rfl
  have e_yday : (tai t).yday = if (vars t).mon0 ≥ 10 then (vars t).yd0 + (vars t).d6 - 306 else (vars t).yd0 + (vars t).d6 + 59 := rfl
  have e_yd0 : (vars t).yd0 = if (vars t).d5 < 306 then 1 else 0 := rfl
  obtain ⟨e, c, q, yy, hd1', hy1, hd1, hd3a, hd3b, hy3, hd3, hc0, hc3, hd4a, hd4b, hd4c, hy4, hd4, hq0, hq24, hd5a, hd5b,
    hy6, hd5, hyy0, hyy3, hd6a, hd6b, hd6c⟩ := vars_year_full t
  obtain ⟨hD, hr0, hr1, hleap⟩ := vars_year t
  obtain ⟨hm, hdd⟩ := vars_month t
  obtain ⟨hlt, hge, hm0, hm11⟩ := month_split (vars t).y6 (vars t).d6 (vars t).mon0 (vars t).d8 hr0 hr1 hleap hm hdd
  have hY : (vars t).y6 = 2000 + 400 * e + 100 * c + 4 * q + yy := by omega
  unfold ydayCode ydaySpec
  rw [e_year, e_mon, e_mday, e_yday]
  by_cases hc : (vars t).mon0 ≥ 10
  · simp only [if_pos hc]
    have h2 := (hge hc).2
    unfold daysFromCivil at h2
    have E := marchEpoch_next (vars t).y6
    have hyd0 : (vars t).yd0 = 0 := by rw [e_yd0]; split <;> omega
    rw [if_neg (by omega)]
    omega
  · simp only [if_neg hc]
    have h2 := (hlt (by omega)).2
    unfold daysFromCivil at h2
    have E := marchEpoch_this (vars t).y6
    have hL : (if isLeap (vars t).y6 = true then (1:Int) else 0) = if (yy = 0 ∧ (q ≠ 0 ∨ c = 0)) then 1 else 0 := by
      by_cases hl : isLeap (vars t).y6 = true
      · rw [if_pos hl]; rw [isLeap_iff, hY] at hl; rw [if_pos (by omega)]
      · rw [if_neg hl]; rw [isLeap_iff, hY] at hl; rw [if_neg (by omega)]
    rw [hL] at E
    have hyd0 : (vars t).yd0 = if yy = 0 then 1 else 0 := by
      rw [e_yd0]; split <;> split <;> omega
    rw [hyd0]
    by_cases h1 : yy = 0 <;> by_cases h2' : (q ≠ 0 ∨ c = 0)
    · rw [if_pos ⟨h1, h2'⟩] at E; rw [if_pos h1, if_neg (by omega)]; omega
    · rw [if_neg (by omega)] at E; rw [if_pos h1, if_pos (by omega)]; omega
    · rw [if_neg (by omega)] at E; rw [if_neg h1, if_neg (by omega)]; omega
    · rw [if_neg (by omega)] at E; rw [if_neg h1, if_neg (by omega)]; omega

end Nq.Lemmas.Datetime
