import Nq.Lemmas.Pop3Walk2
namespace Nq.Lemmas.Pop3
open Nq Nq.Pop3 Nq.Pop3Ref Nq.Lemmas.Pop3Fmt

/-! ### LIST / UIDL without argument -/

theorem fmtNat_head (n : Nat) : ∃ c t, fmtNat n = c :: t ∧ isDigit c = true := by
  cases h : fmtNat n with
  | nil => exact absurd h (fmtNat_ne_nil n)
  | cons c t => exact ⟨c, t, rfl, fmtNat_digits n c (by rw [h]; simp)⟩

theorem uid_noLF (fn : Bytes) (h : LF ∉ fn) : LF ∉ uidOf fn := by
  intro hh
  unfold uidOf at hh
  exact h ((List.drop_sublist 4 fn).subset ((List.takeWhile_sublist _).subset hh))

/-- the text after the message number in a listing line -/
def listText : Bool → RMsg → Bytes
  | true => fun r => uidOfPath r.path
  | false => sizeText

theorem listLine_eq (i : Nat) (m : Msg) (r : RMsg) (uidl : Bool) (hp : r.path = m.fn) (hs : m.size = r.data.length) :
    listLine i m uidl = (fmtNat (i + 1) ++ [SP] ++ listText uidl r) ++ [CR, LF] := by
  cases uidl
  · simp [listLine, listText, sizeText, hs]
  · simp only [listLine, listText, uidOfPath, uidOf, hp]
    rfl

theorem listText_noLF (uidl : Bool) (r : RMsg) (h : LF ∉ r.path) : LF ∉ listText uidl r := by
  cases uidl
  · exact fmtNat_noLF _
  · exact uid_noLF r.path h

theorem listline_noLF (i : Nat) (uidl : Bool) (r : RMsg) (h : LF ∉ r.path) : LF ∉ fmtNat (i + 1) ++ [SP] ++ listText uidl r :=
  mem_app_noLF _ _ (mem_app_noLF _ _ (fmtNat_noLF _) (by decide)) (listText_noLF uidl r h)

theorem listing_decode (marked : List Nat) (uidl : Bool) (w : Bytes) : ∀ (ms : List Msg) (k : Nat) (rms : List RMsg),
    Rel marked k ms rms → (∀ r ∈ rms, LF ∉ r.path) →
    decGo [] (listAll uidl k ms ++ [DOT, CR, LF] ++ w) =
      some (((rms.zipIdx k).filter (fun (x : RMsg × Nat) => !marked.contains x.2)).map
              (fun (x : RMsg × Nat) => fmtNat (x.2 + 1) ++ [SP] ++ listText uidl x.1), w) := by
  intro ms
  induction ms with
  | nil =>
    intro k rms h _
    cases rms with
    | nil => simp [listAll, decGo, CR, LF, DOT]
    | cons _ _ => exact absurd h (by simp [Rel])
  | cons m ms ih =>
    intro k rms h hn
    cases rms with
    | nil => exact absurd h (by simp [Rel])
    | cons r rms =>
      simp only [Rel] at h
      obtain ⟨hp, hs, hd, hrest⟩ := h
      have ih' := ih (k + 1) rms hrest (fun x hx => hn x (by simp [hx]))
      rw [List.zipIdx_cons, List.filter_cons]
      by_cases hdel : m.del = true
      · have hc : marked.contains k = true := by simpa using hd.mp hdel
        simp only [listAll, hdel, if_true, List.nil_append]
        simp only [hc, Bool.not_true, Bool.false_eq_true, if_false]
        exact ih'
      · have hk : k ∉ marked := fun hh => hdel (hd.mpr hh)
        have hc : marked.contains k = false := by simpa using hk
        simp only [listAll, hdel]
        simp only [hc, Bool.not_false, if_true, List.map_cons]
        rw [listLine_eq k m r uidl hp hs]
        have hl := listline_noLF k uidl r (hn r (by simp))
        have e : (if false = true then [] else fmtNat (k + 1) ++ [SP] ++ listText uidl r ++ [CR, LF]) ++ listAll uidl (k + 1) ms ++ [DOT, CR, LF] ++ w
            = (fmtNat (k + 1) ++ [SP] ++ listText uidl r) ++ CR :: LF :: (listAll uidl (k + 1) ms ++ [DOT, CR, LF] ++ w) := by simp
        rw [e, decGo_line _ [] _ hl]
        obtain ⟨c, t, hc, hcd⟩ := fmtNat_head (k + 1)
        have hne : c ≠ DOT := digit_ne c DOT hcd (by decide)
        have hnd : fmtNat (k + 1) ++ [SP] ++ listText uidl r ≠ [DOT] := by
          rw [hc]; simp [hne]
        have hun : unstuff (fmtNat (k + 1) ++ [SP] ++ listText uidl r) = fmtNat (k + 1) ++ [SP] ++ listText uidl r := by
          rw [hc]; simp [unstuff, hne]
        simp only [lineDone, List.reverse_nil, List.nil_append, hnd, if_false]
        have ih'' : decGo [] (listAll uidl (k + 1) ms ++ [DOT, CR, LF] ++ w) = _ := ih'
        rw [ih'', hun]

/-! ### STAT -/

theorem stat_ref (marked : List Nat) : ∀ (ms : List Msg) (k : Nat) (rms : List RMsg) (t : Nat), Rel marked k ms rms →
    ((rms.zipIdx k).filter (fun (x : RMsg × Nat) => !marked.contains x.2)).foldl (fun t (x : RMsg × Nat) => t + x.1.data.length) t
      = t + liveTotal ms := by
  intro ms
  induction ms with
  | nil => intro k rms t h; cases rms with
    | nil => simp [liveTotal]
    | cons _ _ => exact absurd h (by simp [Rel])
  | cons m ms ih =>
    intro k rms t h
    cases rms with
    | nil => exact absurd h (by simp [Rel])
    | cons r rms =>
      simp only [Rel] at h
      obtain ⟨hp, hs, hd, hrest⟩ := h
      rw [List.zipIdx_cons, List.filter_cons]
      by_cases hdel : m.del = true
      · have hc : marked.contains k = true := by simpa using hd.mp hdel
        have e : liveTotal (m :: ms) = liveTotal ms := by simp [liveTotal, hdel]
        simp only [hc, Bool.not_true, Bool.false_eq_true, if_false, e]
        exact ih (k + 1) rms t hrest
      · have hk : k ∉ marked := fun hh => hdel (hd.mpr hh)
        have hdel' : m.del = false := by simpa using hdel
        have e : liveTotal (m :: ms) = m.size + liveTotal ms := by simp [liveTotal, hdel']
        have hc : marked.contains k = false := by simpa using hk
        simp only [hc, Bool.not_false, if_true, List.foldl_cons, e]
        rw [ih (k + 1) rms _ hrest, hs]; omega

theorem liveTotal_le (marked : List Nat) : ∀ (ms : List Msg) (k : Nat) (rms : List RMsg), Rel marked k ms rms →
    liveTotal ms ≤ (rms.map (fun r => r.data.length)).sum := by
  intro ms
  induction ms with
  | nil => intro k rms h; simp [liveTotal]
  | cons m ms ih =>
    intro k rms h
    cases rms with
    | nil => exact absurd h (by simp [Rel])
    | cons r rms =>
      simp only [Rel] at h
      obtain ⟨hp, hs, hd, hrest⟩ := h
      have := ih (k + 1) rms hrest
      by_cases hdel : m.del = true
      · have e : liveTotal (m :: ms) = liveTotal ms := by simp [liveTotal, hdel]
        rw [e]; simp; omega
      · have hdel' : m.del = false := by simpa using hdel
        have e : liveTotal (m :: ms) = m.size + liveTotal ms := by simp [liveTotal, hdel']
        rw [e, hs]; simp; omega

theorem mem_le_sum (rms : List RMsg) (r : RMsg) (h : r ∈ rms) : r.data.length ≤ (rms.map (fun r => r.data.length)).sum := by
  induction rms with
  | nil => simp at h
  | cons x rms ih =>
    rcases List.mem_cons.mp h with e | e
    · subst e; simp
    · have := ih e; simp; omega

/-! ### LAST -/

theorem foldl_max_ge (l : List Nat) : ∀ a : Nat, a ≤ l.foldl (fun a i => max a (i + 1)) a ∧
    ∀ i ∈ l, i + 1 ≤ l.foldl (fun a i => max a (i + 1)) a := by
  induction l with
  | nil => intro a; simp
  | cons x l ih =>
    intro a
    obtain ⟨h1, h2⟩ := ih (max a (x + 1))
    simp only [List.foldl_cons]
    refine ⟨by omega, ?_⟩
    intro i hi
    rcases List.mem_cons.mp hi with e | e
    · subst e; omega
    · exact h2 i e

theorem foldl_max_attained (l : List Nat) : ∀ a : Nat, l.foldl (fun a i => max a (i + 1)) a = a ∨
    ∃ i ∈ l, l.foldl (fun a i => max a (i + 1)) a = i + 1 := by
  induction l with
  | nil => intro a; left; rfl
  | cons x l ih =>
    intro a
    simp only [List.foldl_cons]
    rcases ih (max a (x + 1)) with h | ⟨i, hi, h⟩
    · rw [h]
      by_cases hc : a ≤ x + 1
      · right; exact ⟨x, by simp, by omega⟩
      · left; omega
    · right; exact ⟨i, by simp [hi], h⟩

theorem last_ref (s : Sess) (rs : RSt) (h : Sim s rs) : rs.marked.foldl (fun a i => max a (i + 1)) 0 = s.last := by
  rw [h.last]
  apply Nat.le_antisymm
  · rcases foldl_max_attained rs.marked 0 with e | ⟨i, hi, e⟩
    · rw [e]; omega
    · rw [e]
      have hlt := h.inrange i hi
      cases hm : s.msgs[i]? with
      | none => rw [List.getElem?_eq_none_iff] at hm; omega
      | some m =>
        obtain ⟨r, _, _, _, hd⟩ := h.rel.get i m hm
        simp only [Nat.zero_add] at hd
        have := highMark_ge s.msgs 0 i m hm (hd.mpr hi)
        omega
  · rcases highMark_attained s.msgs 0 with e | ⟨i, m, hm, hd, e⟩
    · rw [e]; omega
    · rw [e]
      obtain ⟨r, _, _, _, hd'⟩ := h.rel.get i m hm
      simp only [Nat.zero_add] at hd'
      have := (foldl_max_ge rs.marked 0).2 i (hd'.mp hd)
      omega

end Nq.Lemmas.Pop3
