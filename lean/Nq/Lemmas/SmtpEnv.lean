/-
  Lemmas about the envelope commands of qmail-remote (`Nq.SmtpEnv`): which bytes of an address reach the command line.
-/
import Nq.SmtpEnv

namespace Nq.Lemmas
open Nq Nq.SmtpEnv

theorem lastAt_some {a b h : Bytes} (e : lastAt a = some (b, h)) : a = b ++ AT :: h ∧ AT ∉ h := by
  induction a generalizing b h with
  | nil => simp [lastAt] at e
  | cons c s ih =>
    simp only [lastAt] at e
    cases hs : lastAt s with
    | some p =>
      obtain ⟨b', h'⟩ := p
      rw [hs] at e
      simp only [Option.some.injEq, Prod.mk.injEq] at e
      obtain ⟨rfl, rfl⟩ := e
      obtain ⟨h1, h2⟩ := ih hs
      exact ⟨by rw [h1]; simp, h2⟩
    | none =>
      rw [hs] at e
      by_cases hc : c = AT
      · simp only [hc, if_true, Option.some.injEq, Prod.mk.injEq] at e
        obtain ⟨rfl, rfl⟩ := e
        refine ⟨by simp [hc], ?_⟩
        clear ih
        induction s with
        | nil => simp
        | cons d t iht =>
          simp only [lastAt] at hs
          cases ht : lastAt t with
          | some p => rw [ht] at hs; simp at hs
          | none =>
            rw [ht] at hs
            by_cases hd : d = AT
            · simp [hd] at hs
            · simp only [List.mem_cons, not_or]
              exact ⟨fun x => hd x.symm, iht ht⟩
      · simp [hc] at e

theorem lastAt_none {a : Bytes} (e : lastAt a = none) : AT ∉ a := by
  induction a with
  | nil => simp
  | cons c s ih =>
    simp only [lastAt] at e
    cases hs : lastAt s with
    | some p => rw [hs] at e; simp at e
    | none =>
      rw [hs] at e
      by_cases hc : c = AT
      · simp [hc] at e
      · simp only [List.mem_cons, not_or]
        exact ⟨fun x => hc x.symm, ih hs⟩

theorem lastAt_of_not_mem {a : Bytes} (h : AT ∉ a) : lastAt a = none := by
  cases e : lastAt a with
  | none => rfl
  | some p =>
    obtain ⟨b, t⟩ := p
    have := (lastAt_some e).1
    rw [this] at h
    simp at h

theorem lastAt_append (b t : Bytes) (h : AT ∉ t) : lastAt (b ++ AT :: t) = some (b, t) := by
  induction b with
  | nil => simp [lastAt, lastAt_of_not_mem h]
  | cons c b ih => simp [lastAt, ih]

theorem mem_escape (x : Byte) (hx : x ≠ BSL) (m : Bytes) : x ∈ escape m ↔ x ∈ m := by
  induction m with
  | nil => simp [escape]
  | cons c m ih =>
    simp only [escape, List.mem_append, ih, List.mem_cons]
    by_cases hc : c = CR ∨ c = LF ∨ c = DQ ∨ c = BSL
    · simp [hc, hx]
    · simp [hc]

theorem mem_quote (x : Byte) (h1 : x ≠ BSL) (h2 : x ≠ DQ) (b : Bytes) : x ∈ quote b ↔ x ∈ b := by
  unfold quote
  by_cases hq : quoteNeed b = true
  · simp [hq, mem_escape x h1, h2]
  · simp [hq]

/-- **every byte other than `"` and `\` is in the mangled address iff it is in the address** -/
theorem mem_mangle (x : Byte) (h1 : x ≠ BSL) (h2 : x ≠ DQ) (a : Bytes) : x ∈ mangle a ↔ x ∈ a := by
  unfold mangle
  cases e : lastAt a with
  | none => simp
  | some p =>
    obtain ⟨b, h⟩ := p
    have := (lastAt_some e).1
    simp only
    rw [this]
    simp [mem_quote x h1 h2]

theorem isOneLine_iff (body : Bytes) :
    isOneLine (body ++ [CR, LF]) = true ↔ (CR ∉ body ∧ LF ∉ body) := by
  simp [isOneLine, List.reverse_append]

end Nq.Lemmas
