/-
  C17 lemmas: qmail-smtpd's addrparse run on what qmail-remote's addrmangle writes (SMTP side),
  and the command line in between.
-/
import Nq.Lemmas.C17Quote

namespace Nq.Lemmas.C17
open Nq Nq.Quote Nq.Token822 Nq.SmtpAddr Nq.Spec.Addr

/-- inside a quoted string written by `doit()` the copy loop of addrparse recovers the box -/
theorem copy_quoted (term : Byte) (box tail : Bytes) :
    copyAddr term false true (escape box ++ Quote.DQ :: tail) = box ++ copyAddr term false false tail := by
  induction box with
  | nil => simp [escape, copyAddr, Quote.DQ, Quote.BSL]
  | cons c box ih =>
    rcases escByte_cases c with ⟨he, _⟩ | ⟨he, _, _, h3, h4⟩
    · simp only [escape, he, List.cons_append, List.nil_append]
      simp [copyAddr, ih]
    · simp only [escape, he, List.cons_append, List.nil_append]
      simp [copyAddr, h3, h4, ih]

/-- bytes the copy loop passes through unchanged outside quotes -/
def smtpPlain (c : Byte) : Bool := c != 62 && c != 92 && c != 34

theorem copy_plain (s tail : Bytes) (h : s.all smtpPlain = true) :
    copyAddr 62 false false (s ++ tail) = s ++ copyAddr 62 false false tail := by
  induction s with
  | nil => simp
  | cons c s ih =>
    simp only [List.all_cons, Bool.and_eq_true, smtpPlain, bne_iff_ne, ne_eq] at h
    obtain ⟨⟨⟨h1, h2⟩, h3⟩, hs⟩ := h
    have h2' : c ≠ Quote.BSL := h2
    have h3' : c ≠ Quote.DQ := h3
    simp [copyAddr, h1, h2', h3', ih (by simpa [smtpPlain] using hs)]

theorem ok_smtpPlain (c : Byte) (h : okChar c = true) : smtpPlain c = true := by
  by_cases hd : c = DOT
  · subst hd; decide
  · have := plain_facts (c := c) (by simp [plainByte, h, hd])
    obtain ⟨_, _, _, _, _, h6, _, h8, _, _, h11, _, _⟩ := this
    have h6' : c ≠ 34 := h6
    have h8' : c ≠ 92 := h8
    simp [smtpPlain, h6', h8', h11]

theorem afterFirst_skip (c : Byte) (pre r : Bytes) (h : c ∉ pre) : afterFirst c (pre ++ c :: r) = some r := by
  induction pre with
  | nil => simp [afterFirst]
  | cons x pre ih =>
    have hx : x ≠ c := fun e => h (by simp [e])
    simp [afterFirst, hx, ih (fun e => h (by simp [e]))]

/-- the mangled address never begins with '@', so no "source route" is stripped -/
theorem stripRoute_quote (box tail : Bytes) : stripRoute (quote box ++ AT :: tail) = quote box ++ AT :: tail := by
  unfold quote
  by_cases hn : quoteNeed box = true
  · simp [hn, doit, stripRoute, Quote.DQ, AT]
  · have hn' : quoteNeed box = false := by simpa using hn
    obtain ⟨hg, hok⟩ := goodDots_of_noNeed box hn'
    simp only [hn', Bool.false_eq_true, if_false]
    cases box with
    | nil => simp [goodDots] at hg
    | cons x xs =>
      have hx : okChar x = true := by simp at hok; exact hok.1
      have : x ≠ AT := by
        intro e; subst e
        simp [dot_at_facts.2.2.2.2.1] at hx
      simp [stripRoute, this]

/-- the copy loop applied to a mangled address followed by the closing '>' -/
theorem copy_mangled (box host : Bytes) (hh : smtpDomain host = true) :
    copyAddr 62 false false (quote box ++ AT :: host ++ [62]) = box ++ AT :: host := by
  have hhost : host.all smtpPlain = true := by
    simp only [smtpDomain, List.all_eq_true] at hh ⊢
    intro c hc
    have := hh c hc
    simp only [Bool.and_eq_true, bne_iff_ne, ne_eq] at this
    simp [smtpPlain, this.1.1.1.1, this.1.1.1.2, this.1.1.2]
  have htail : copyAddr 62 false false (AT :: host ++ [62]) = AT :: host := by
    have := copy_plain (AT :: host) [62] (by simp [hhost]; decide)
    simpa [copyAddr] using this
  unfold quote
  by_cases hn : quoteNeed box = true
  · simp only [hn, if_true, doit]
    have e : Quote.DQ :: (escape box ++ [Quote.DQ]) ++ AT :: host ++ [62]
        = Quote.DQ :: (escape box ++ Quote.DQ :: (AT :: host ++ [62])) := by simp
    rw [e]
    have : copyAddr 62 false false (Quote.DQ :: (escape box ++ Quote.DQ :: (AT :: host ++ [62])))
        = copyAddr 62 false true (escape box ++ Quote.DQ :: (AT :: host ++ [62])) := by
      simp [copyAddr, Quote.DQ, Quote.BSL]
    rw [this, copy_quoted, htail]
  · have hn' : quoteNeed box = false := by simpa using hn
    obtain ⟨_, hok⟩ := goodDots_of_noNeed box hn'
    simp only [hn', Bool.false_eq_true, if_false]
    have hb : box.all smtpPlain = true := by
      rw [List.all_eq_true] at hok ⊢
      exact fun c hc => ok_smtpPlain c (hok c hc)
    have e : box ++ AT :: host ++ [62] = box ++ (AT :: host ++ [62]) := by simp
    rw [e, copy_plain box _ hb, htail]

theorem addrmangle_split (box host : Bytes) (h : AT ∉ host) :
    addrmangle (box ++ AT :: host) = quote box ++ AT :: host := by
  simp [addrmangle, splitLast_append AT box host h]

theorem at_not_in_smtpDomain (host : Bytes) (hh : smtpDomain host = true) : AT ∉ host := by
  intro hmem
  have := List.all_eq_true.mp hh AT hmem
  simp [AT] at this

theorem localIp_id (cfg : Cfg) (box host : Bytes) (hat : AT ∉ host) (hl : isLocalLiteral cfg host = false) :
    localIp cfg (box ++ AT :: host) = box ++ AT :: host := by
  unfold localIp
  cases hlh : cfg.liphost with
  | none => rfl
  | some lh =>
    simp only [splitLast_append AT box host hat, List.drop_succ_cons, List.drop_zero]
    simp only [isLocalLiteral, hlh, Option.isSome_some, Bool.true_and] at hl
    cases hip : ipBracketAll host with
    | none => rfl
    | some ip =>
      simp only [hip] at hl
      have : ip ∉ cfg.ipme := by simpa using hl
      simp [this]


theorem lf_not_in_escape (box : Bytes) (h : LF ∉ box) : LF ∉ escape box := by
  induction box with
  | nil => simp [escape]
  | cons c box ih =>
    have hc : c ≠ LF := fun e => h (by simp [e])
    have hb : LF ∉ box := fun e => h (by simp [e])
    have hc' : ¬ (LF = c) := fun e => hc e.symm
    rcases escByte_cases c with ⟨he, _⟩ | ⟨he, _⟩
    · simp [escape, he, ih hb, hc', LF, Quote.BSL]
    · simp [escape, he, ih hb, hc']

theorem lf_not_in_quote (box : Bytes) (h : LF ∉ box) : LF ∉ quote box := by
  unfold quote
  split
  · simp [doit, lf_not_in_escape box h, LF, Quote.DQ]
  · exact h

theorem readLine_split (l rest : Bytes) (h : LF ∉ l) : readLine (l ++ LF :: rest) = some (l, rest) := by
  induction l with
  | nil => simp [readLine]
  | cons c l ih =>
    have hc : c ≠ LF := fun e => h (by simp [e])
    simp [readLine, hc, ih (fun e => h (by simp [e]))]

end Nq.Lemmas.C17
