/-
  Helper lemmas for C09: the shape of qmail-remote's output (NUL-free reports, first letters) and
  the composition with the spawner's `report()`.
-/
import Nq.Lemmas.RemoteSmtp
import Nq.Lemmas.RspawnReport

namespace Nq.Lemmas.RemoteSmtp
open Nq Nq.SmtpOut Nq.RemoteSmtp Nq.RspawnReport Nq.Spec.RemoteVerdict

theorem firstKZD_cons' (r : Bytes) (rs : List Bytes) :
    firstKZD (r :: rs) = if isKZD (headB r) then some (headB r) else firstKZD rs := by
  unfold firstKZD
  by_cases h : isKZD (headB r) = true
  · simp [List.find?, h]
  · simp [List.find?, h]

/-! ### shape of qmail-remote's output: NUL-free reports with the right first letters -/

def RcptOK (r : Bytes) : Prop := NUL ∉ r ∧ (headB r = lR ∨ headB r = lH ∨ headB r = lS)
def MsgOK (m : Bytes) : Prop := NUL ∉ m ∧ isKZD (headB m) = true
def ResOK (r : Res) : Prop := (∀ x ∈ r.rcpt, RcptOK x) ∧ MsgOK r.msg

theorem said_nulfree (t : Bytes) : NUL ∉ said t := by
  unfold said
  by_cases h : t = []
  · simp [h]
  · simp only [h, if_false, List.mem_append, not_or]
    refine ⟨by decide, ?_⟩
    intro hm
    obtain ⟨c, _, hc⟩ := List.mem_map.mp hm
    by_cases h0 : c = NUL
    · simp [h0, QM, NUL] at hc
    · simp [h0] at hc

theorem lost_ok (a : Args) (rs : List Bytes) (w : Bytes) (c wo : Bool) (hh : NUL ∉ a.host)
    (hrs : ∀ x ∈ rs, RcptOK x) : ResOK (lost a rs w c wo) := by
  refine ⟨hrs, ?_, ?_⟩
  · simp only [lost, droppedRep, List.mem_append, not_or]
    refine ⟨⟨⟨by decide, hh⟩, by decide⟩, ?_, by decide⟩
    cases c <;> simp <;> decide
  · simp only [lost, droppedRep, List.append_assoc]
    rw [headB_append _ _ (by decide)]; decide

theorem quit_ok (a : Args) (wf : Option WPoint) (rs : List Bytes) (w pre app txt : Bytes) (hh : NUL ∉ a.host)
    (hrs : ∀ x ∈ rs, RcptOK x) (hp : NUL ∉ pre) (hne : pre ≠ []) (hk : isKZD (headB pre) = true) (ha : NUL ∉ app) :
    ResOK (quitWith a wf rs w pre app txt) := by
  unfold quitWith
  refine ⟨hrs, ?_, ?_⟩
  · simp only [List.mem_append, not_or]
    exact ⟨⟨⟨⟨hp, hh⟩, ha⟩, by decide⟩, said_nulfree txt⟩
  · simp only [List.append_assoc]; rw [headB_append _ _ hne]; exact hk

theorem rcptRep_ok (a : Args) (c : Byte) (hc : c = lH ∨ c = lS) (txt : Bytes) (hh : NUL ∉ a.host) :
    RcptOK ([c] ++ a.host ++ notLike ++ said txt) := by
  refine ⟨?_, ?_⟩
  · simp only [List.mem_append, not_or]
    refine ⟨⟨⟨?_, hh⟩, by decide⟩, said_nulfree txt⟩
    rcases hc with h | h <;> subst h <;> decide
  · simp only [List.append_assoc, List.singleton_append, headB, List.headD_cons]
    rcases hc with h | h
    · exact Or.inr (Or.inl h)
    · exact Or.inr (Or.inr h)

theorem msg_ok (rs : List Bytes) (m w : Bytes) (wo : Bool) (hrs : ∀ x ∈ rs, RcptOK x) (h1 : NUL ∉ m)
    (h2 : isKZD (headB m) = true) : ResOK { rcpt := rs, msg := m, wire := w, wireOpen := wo } := ⟨hrs, h1, h2⟩

theorem data_ok (a : Args) (wf : Option WPoint) (hh : NUL ∉ a.host) (rs : List Bytes) (w : Bytes) (bother : Bool)
    (txt : Bytes) (fs : List Bytes) (hrs : ∀ x ∈ rs, RcptOK x) : ResOK (dataPhase a wf rs w bother txt fs) := by
  have Q : ∀ w pre app txt, NUL ∉ pre → pre ≠ [] → isKZD (headB pre) = true → NUL ∉ app →
      ResOK (quitWith a wf rs w pre app txt) := fun w pre app txt h1 h2 h3 h4 => quit_ok a wf rs w pre app txt hh hrs h1 h2 h3 h4
  have L : ∀ w c wo, ResOK (lost a rs w c wo) := fun w c wo => lost_ok a rs w c wo hh hrs
  unfold dataPhase
  by_cases hb : bother = false
  · simp only [hb, if_true]; exact Q _ _ _ _ (by decide) (by decide) (by decide) (by decide)
  · simp only [hb, if_false]
    by_cases hw : wf = some .data
    · simp only [hw, if_true]; exact L _ _ _
    · simp only [hw, if_false]
      cases fs with
      | nil => exact L _ _ _
      | cons d fs =>
        simp only
        by_cases h5 : codeNat d ≥ 500
        · simp only [h5, if_true]; exact Q _ _ _ _ (by decide) (by decide) (by decide) (by decide)
        · simp only [h5, if_false]
          by_cases h4 : codeNat d ≥ 400
          · simp only [h4, if_true]; exact Q _ _ _ _ (by decide) (by decide) (by decide) (by decide)
          · simp only [h4, if_false]
            by_cases hwb : wf = some .body
            · simp only [hwb, if_true]; exact L _ _ _
            · simp only [hwb, if_false]
              by_cases hme : a.msgErr = true
              · simp only [hme, if_true]; exact msg_ok rs _ _ _ hrs (by decide) (by decide)
              · simp only [hme, if_false]
                cases hbl : rblast a.msg with
                | none => exact msg_ok rs _ _ _ hrs (by decide) (by decide)
                | some enc =>
                  simp only
                  by_cases hwf : wf = some .final
                  · simp only [hwf, if_true]; exact L _ _ _
                  · simp only [hwf, if_false]
                    cases fs with
                    | nil => exact L _ _ _
                    | cons f fs =>
                      simp only
                      by_cases g5 : codeNat f ≥ 500
                      · simp only [g5, if_true]; exact Q _ _ _ _ (by decide) (by decide) (by decide) (by decide)
                      · simp only [g5, if_false]
                        by_cases g4 : codeNat f ≥ 400
                        · simp only [g4, if_true]; exact Q _ _ _ _ (by decide) (by decide) (by decide) (by decide)
                        · simp only [g4, if_false]; exact Q _ _ _ _ (by decide) (by decide) (by decide) (by decide)

theorem rcpt_ok (a : Args) (wf : Option WPoint) (hh : NUL ∉ a.host) (more : List Bytes) :
    ∀ (i : Nat) (rs : List Bytes) (w : Bytes) (bother : Bool) (txt : Bytes) (fs : List Bytes),
    (∀ x ∈ rs, RcptOK x) → ResOK (rcptLoop a wf i more rs w bother txt fs) := by
  induction more with
  | nil => intro i rs w bother txt fs hrs; simp only [rcptLoop]; exact data_ok a wf hh rs w bother txt fs hrs
  | cons r more ih =>
    intro i rs w bother txt fs hrs
    simp only [rcptLoop]
    by_cases hw : wf = some (.rcpt i)
    · simp only [hw, if_true]; exact lost_ok a rs w false false hh hrs
    · simp only [hw, if_false]
      cases fs with
      | nil => exact lost_ok a rs _ false false hh hrs
      | cons p fs =>
        simp only
        have ext : ∀ x, RcptOK x → ∀ y ∈ rs ++ [x], RcptOK y := by
          intro x hx y hy
          rcases List.mem_append.mp hy with h | h
          · exact hrs y h
          · simp at h; rw [h]; exact hx
        by_cases h5 : codeNat p ≥ 500
        · simp only [h5, if_true]
          exact ih _ _ _ _ _ _ (ext _ (rcptRep_ok a 104 (Or.inl rfl) _ hh))
        · simp only [h5, if_false]
          by_cases h4 : codeNat p ≥ 400
          · simp only [h4, if_true]
            exact ih _ _ _ _ _ _ (ext _ (rcptRep_ok a 115 (Or.inr rfl) _ hh))
          · simp only [h4, if_false]
            exact ih _ _ _ _ _ _ (ext _ ⟨by decide, Or.inl rfl⟩)

/-- every report qmail-remote prints is NUL-free; recipient reports start with r/h/s, the last with K/Z/D -/
theorem run_ok (a : Args) (wf : Option WPoint) (hh : NUL ∉ a.host) (fs : List Bytes) : ResOK (run a wf fs) := by
  have nil_ok : ∀ x ∈ ([] : List Bytes), RcptOK x := by intro x hx; simp at hx
  have Q : ∀ w pre app txt, NUL ∉ pre → pre ≠ [] → isKZD (headB pre) = true → NUL ∉ app →
      ResOK (quitWith a wf [] w pre app txt) := fun w pre app txt h1 h2 h3 h4 => quit_ok a wf [] w pre app txt hh nil_ok h1 h2 h3 h4
  have L : ∀ w c wo, ResOK (lost a [] w c wo) := fun w c wo => lost_ok a [] w c wo hh nil_ok
  unfold run
  cases fs with
  | nil => exact L _ _ _
  | cons g fs =>
    simp only
    by_cases hg : codeNat g ≠ 220
    · simp only [hg, if_true, ne_eq, not_false_eq_true]; exact Q _ _ _ _ (by decide) (by decide) (by decide) (by decide)
    · simp only [hg, if_false, ne_eq]
      by_cases hw : wf = some .helo
      · simp only [hw, if_true]; exact L _ _ _
      · simp only [hw, if_false]
        cases fs with
        | nil => exact L _ _ _
        | cons h fs =>
          simp only
          by_cases hh2 : codeNat h ≠ 250
          · simp only [hh2, if_true, ne_eq, not_false_eq_true]; exact Q _ _ _ _ (by decide) (by decide) (by decide) (by decide)
          · simp only [hh2, if_false, ne_eq]
            by_cases hwm : wf = some .mail
            · simp only [hwm, if_true]; exact L _ _ _
            · simp only [hwm, if_false]
              cases fs with
              | nil => exact L _ _ _
              | cons m fs =>
                simp only
                by_cases h5 : codeNat m ≥ 500
                · simp only [h5, if_true]; exact Q _ _ _ _ (by decide) (by decide) (by decide) (by decide)
                · simp only [h5, if_false]
                  by_cases h4 : codeNat m ≥ 400
                  · simp only [h4, if_true]; exact Q _ _ _ _ (by decide) (by decide) (by decide) (by decide)
                  · simp only [h4, if_false]
                    exact rcpt_ok a wf hh a.rcpts 0 [] _ false _ fs nil_ok

/-! ### from qmail-remote's output to the spawner's verdict -/

theorem records_one (r : Bytes) : ∀ (cur rest : Bytes), NUL ∉ r →
    records cur (r ++ NUL :: rest) = (cur.reverse ++ r) :: records [] rest := by
  induction r with
  | nil => intro cur rest _; simp [records]
  | cons c r ih =>
    intro cur rest h
    have hc : c ≠ NUL := fun e => h (by simp [e])
    have hr : NUL ∉ r := fun e => h (by simp [e])
    simp [records, hc, ih _ _ hr]

/-- NUL-free reports survive the NUL framing: the spawner sees exactly the reports that were printed -/
theorem records_render (rs : List Bytes) (h : ∀ x ∈ rs, NUL ∉ x) : records [] (rs.flatMap (· ++ [NUL])) = rs := by
  induction rs with
  | nil => simp [records]
  | cons r rs ih =>
    have hr : NUL ∉ r := h r (by simp)
    have := records_one r [] (rs.flatMap (· ++ [NUL])) hr
    simp only [List.flatMap_cons, List.append_assoc, List.singleton_append]
    rw [this, ih (fun x hx => h x (by simp [hx]))]; simp

theorem firstKZD_rcpts (rs : List Bytes) (m : Bytes) (hrs : ∀ x ∈ rs, RcptOK x) (hm : isKZD (headB m) = true) :
    firstKZD (rs ++ [m]) = some (headB m) := by
  induction rs with
  | nil => simp [firstKZD_cons', hm]
  | cons r rs ih =>
    have hr := (hrs r (by simp)).2
    have : isKZD (headB r) = false := by
      rcases hr with h | h | h <;> rw [h] <;> decide
    rw [List.cons_append, firstKZD_cons', this]
    simpa using ih (fun x hx => hrs x (by simp [hx]))

/-- **from the server's replies to the queue manager**: if the spawner relays `K` for qmail-remote's
output, the class rules say `K` and the first recipient was accepted -/
theorem end_to_end (a : Args) (sc : Script) (hh : NUL ∉ a.host)
    (hK : headB (rreport 0 (render (smtpRun a sc))) = cK) :
    (expect (abstr a sc)).v = .K ∧ (expect (abstr a sc)).rl.head? = some lR := by
  have hok : ResOK (smtpRun a sc) := run_ok a sc.wfail hh _
  have good : Good (expect (abstr a sc)) (smtpRun a sc) := run_good a sc.wfail _
  generalize smtpRun a sc = res at hok good hK
  have hs := Nq.Lemmas.Rspawn.rspawnSound_rreport 0 (render res)
  unfold rspawnSound at hs
  simp only [hK, bne_self_eq_false, Bool.false_or, Bool.and_eq_true, bne_iff_ne, ne_eq, beq_iff_eq] at hs
  obtain ⟨⟨⟨_, hnH⟩, hnS⟩, hf⟩ := hs
  have hnul : ∀ x ∈ res.rcpt ++ [res.msg], NUL ∉ x := by
    intro x hx
    rcases List.mem_append.mp hx with h | h
    · exact (hok.1 x h).1
    · simp at h; rw [h]; exact hok.2.1
  have hrec : records [] (render res) = res.rcpt ++ [res.msg] := records_render _ hnul
  rw [hrec, firstKZD_rcpts _ _ hok.1 hok.2.2] at hf
  have hml : (obsOf res).ml = cK := by simpa [obsOf] using hf
  have hv : (expect (abstr a sc)).v = .K := by
    have h1 : verdictOK (expect (abstr a sc)).v (obsOf res) = true := good.1
    cases hv : (expect (abstr a sc)).v with
    | K => rfl
    | Z => rw [hv] at h1; simp [verdictOK, hml, cK, cZ, cD] at h1
    | D => rw [hv] at h1; simp [verdictOK, hml, cK, cZ, cD] at h1
    | lost c => rw [hv] at h1; simp [verdictOK, hml, cK, cZ, cD] at h1
  refine ⟨hv, ?_⟩
  obtain ⟨_, _, _, _, a5, ⟨c, hc, _⟩, _⟩ := expect_K _ hv
  have hrl : (obsOf res).rl = (expect (abstr a sc)).rl := good.2.1
  rw [← hrl]
  have hne : (obsOf res).rl ≠ [] := by
    rw [hrl, a5]; intro e; rw [List.map_eq_nil_iff.mp e] at hc; simp at hc
  cases hr : res.rcpt with
  | nil => simp [obsOf, hr] at hne
  | cons r0 rest =>
    have h0 := hok.1 r0 (by simp [hr])
    have hr0 : r0 ≠ [] := by
      intro e; rcases h0.2 with h | h | h <;> simp [e, headB, lR, lH, lS] at h
    have hhead : headB (render res) = headB r0 := by
      simp only [render, hr, List.cons_append, List.flatMap_cons, List.append_assoc]
      exact headB_append _ _ hr0
    rw [hhead] at hnH hnS
    simp only [obsOf, hr, List.map_cons, List.head?_cons, Option.some.injEq]
    rcases h0.2 with h | h | h
    · exact h
    · exact absurd h hnH
    · exact absurd h hnS

/-! ### the class of the relayed line as a function of the server's replies (all three letters) -/

theorem orrOf_head (s : Bytes) (v : Int) (h : s ≠ []) :
    orrOf s v = if headB s = lS then 0 else if headB s = lH then -1 else v := by
  cases s with
  | nil => exact absurd rfl h
  | cons c t => simp [orrOf, headB]

theorem verdict_letter (v : Verdict) (o : Obs) (h : verdictOK v o = true) : o.ml = vLetter v := by
  cases v with
  | K => simpa [verdictOK, vLetter] using h
  | Z => simpa [verdictOK, vLetter] using h
  | D => simpa [verdictOK, vLetter] using h
  | lost c =>
    simp only [verdictOK, Bool.and_eq_true, beq_iff_eq] at h
    simpa [vLetter] using h.1

theorem letter_result (v : Verdict) : Nq.Lemmas.Rspawn.letterB (Nq.Lemmas.Rspawn.resultOf (some (vLetter v))) = vLetter v := by
  cases v <;> simp [vLetter, Nq.Lemmas.Rspawn.resultOf, Nq.Lemmas.Rspawn.letterB, cK, cZ, cD]

theorem vLetter_not_hs (v : Verdict) : vLetter v ≠ lS ∧ vLetter v ≠ lH := by
  cases v <;> simp [vLetter, cK, cZ, cD, lS, lH]

/-- **the fold of the recipient letter with the message verdict, end to end**: whatever the server
sends, the line `report()` relays for qmail-remote's output starts with the class `relayClass` gives for the
rules' reading of the server's replies — first recipient refused 4xx → Z, refused 5xx → D, otherwise
the message verdict's class (a lost connection → Z) -/
theorem relay_class (a : Args) (sc : Script) (hh : NUL ∉ a.host) :
    headB (rreport 0 (render (smtpRun a sc))) = relayClass (expect (abstr a sc)) := by
  have hok : ResOK (smtpRun a sc) := run_ok a sc.wfail hh _
  have good : Good (expect (abstr a sc)) (smtpRun a sc) := run_good a sc.wfail _
  generalize smtpRun a sc = res at hok good
  generalize expect (abstr a sc) = e at good
  have hnul : ∀ x ∈ res.rcpt ++ [res.msg], NUL ∉ x := by
    intro x hx
    rcases List.mem_append.mp hx with h | h
    · exact (hok.1 x h).1
    · simp at h; rw [h]; exact hok.2.1
  have hrec : records [] (render res) = res.rcpt ++ [res.msg] := records_render _ hnul
  have hml : headB res.msg = vLetter e.v := verdict_letter e.v (obsOf res) good.1
  have hrl : res.rcpt.map headB = e.rl := good.2.1
  have hmne : res.msg ≠ [] := by
    intro e0
    have := hok.2.2
    rw [e0] at this
    simp [headB, isKZD, cK, cZ, cD] at this
  have hne : render res ≠ [] := by
    unfold render
    cases hr : res.rcpt with
    | nil =>
      cases hm : res.msg with
      | nil => exact absurd hm hmne
      | cons c t => simp
    | cons r0 rest =>
      cases h0 : r0 with
      | nil =>
        have h1 := (hok.1 r0 (by simp [hr])).2
        rw [h0] at h1
        rcases h1 with h | h | h <;> simp [headB, lR, lH, lS] at h
      | cons c t => simp
  rw [Nq.Lemmas.Rspawn.headB_rreport_normal 0 (render res) rfl rfl hne, hrec,
      firstKZD_rcpts _ _ hok.1 hok.2.2, hml, orrOf_head _ _ hne]
  cases hr : res.rcpt with
  | nil =>
    have hhead : headB (render res) = vLetter e.v := by
      simp only [render, hr, List.nil_append, List.flatMap_cons, List.flatMap_nil, List.append_nil]
      rw [headB_append _ _ hmne]; exact hml
    have hel : e.rl = [] := by rw [← hrl, hr]; rfl
    rw [hhead]
    simp only [(vLetter_not_hs e.v).1, (vLetter_not_hs e.v).2, if_false, relayClass, hel, List.head?_nil]
    exact letter_result e.v
  | cons r0 rest =>
    have h0 := hok.1 r0 (by simp [hr])
    have hr0 : r0 ≠ [] := by
      intro e0; rcases h0.2 with h | h | h <;> simp [e0, headB, lR, lH, lS] at h
    have hhead : headB (render res) = headB r0 := by
      simp only [render, hr, List.cons_append, List.flatMap_cons, List.append_assoc]
      exact headB_append _ _ hr0
    have hel : e.rl.head? = some (headB r0) := by rw [← hrl, hr]; rfl
    rw [hhead]
    simp only [relayClass, hel]
    by_cases hS : headB r0 = lS
    · simp [hS, Nq.Lemmas.Rspawn.letterB]
    · by_cases hH : headB r0 = lH
      · simp [hH, Nq.Lemmas.Rspawn.letterB, lH, lS]
      · simp only [hS, hH, if_false]
        exact letter_result e.v

end Nq.Lemmas.RemoteSmtp
