/-
  Lemmas for C14, part 3: `stripvdomprepend()` (`Nq.Bounce.stripvdom`) against C10's model of
  `rewrite()` (`Nq.Rewrite.rewrite`; used through `rewrite_eq_G` / `specTail` of
  `Nq.Lemmas.RewriteSpec`, which is imported read-only).  No Mathlib.

  `rewrite c r` is `⟨channel, tag, addr⟩`: `addr` is the recipient after the default host and the
  percent hack, `tag` the virtualdomains prepend (empty = none); the channel file gets
  `recipOf = addr` or `tag-addr`.  The lemmas say when `stripvdom` applied to that string gives
  `addr` back.
-/
import Nq.Lemmas.Bounce
import Nq.Lemmas.RewriteSpec

namespace Nq.Lemmas.BounceRewrite
open Nq Nq.Bounce Nq.BounceSpec Nq.Lemmas.Bounce
open Nq.Lemmas.RewriteSpec (firstHitF)

/-- the tables `stripvdomprepend` sees under C10's configuration (the same control files) -/
def tablesOf (c : Rewrite.Cfg) : Tables :=
  { locals := c.locals.map (·.key), vdoms := c.vdoms.map (fun e => (e.key, e.val)) }

/-- the recipient `rewrite()` writes into the channel file (`Routed.line` without `T` and NUL) -/
def recipOf (r : Rewrite.Routed) : Bytes := if r.tag = [] then r.addr else r.tag ++ 45 :: r.addr

theorem line_recipOf (r : Rewrite.Routed) : r.line = Rewrite.TEE :: (recipOf r ++ [NUL]) := by
  unfold Rewrite.Routed.line recipOf
  split <;> rfl

/-! ### the two constmap models agree -/

theorem cmLookupRev_map (l : List Rewrite.Ent) (k : Bytes) :
    cmLookupRev (l.map (fun e => (e.key, e.val))) k = Rewrite.mapLookupRev k l := by
  induction l with
  | nil => rfl
  | cons e r ih => simp only [List.map_cons, cmLookupRev, Rewrite.mapLookupRev, Rewrite.keyEq, ih]; rfl

theorem cmLookup_tablesOf (c : Rewrite.Cfg) (k : Bytes) :
    cmLookup (tablesOf c).vdoms k = Rewrite.mapLookup c.vdoms k := by
  unfold cmLookup Rewrite.mapLookup tablesOf
  rw [← List.map_reverse]
  exact cmLookupRev_map _ _

theorem entryFor_tablesOf (c : Rewrite.Cfg) (k : Bytes) :
    entryFor (tablesOf c).vdoms k = Rewrite.mapLookup c.vdoms k := by
  rw [entryFor_eq_cmLookup, cmLookup_tablesOf]

theorem cmMember_map (l : List Rewrite.Ent) (d : Bytes) :
    cmMember (l.map (·.key)) d = Route.listed l d := by
  unfold Route.listed
  induction l with
  | nil => rfl
  | cons e r ih => simp only [List.map_cons, cmMember, List.any_cons, ih]

theorem cmMember_tablesOf (c : Rewrite.Cfg) (d : Bytes) :
    cmMember (tablesOf c).locals d = Route.listed c.locals d := cmMember_map _ _

/-! ### domain part -/

theorem domainOf_none (d : Bytes) (h : AT ∉ d) : domainOf d = none := by
  induction d with
  | nil => rfl
  | cons c r ih =>
    have hc : c ≠ AT := fun e => h (by simp [e])
    have hr : AT ∉ r := fun e => h (by simp [e])
    simp [domainOf, ih hr, hc]

theorem domainOf_at (a d : Bytes) (h : AT ∉ d) : domainOf (a ++ AT :: d) = some d := by
  apply domainOf_append
  simp [domainOf, domainOf_none d h]

/-! ### the domain loop looks at the keys `rewrite()` looks at after the whole address -/

theorem dotSuffixes_route (r : Bytes) : Bounce.dotSuffixes r = Route.dotSuffixes r ++ [[]] := by
  induction r with
  | nil => rfl
  | cons c t ih =>
    by_cases hc : c = DOT
    · simp [Bounce.dotSuffixes, Route.dotSuffixes, hc, ih]
    · simp [Bounce.dotSuffixes, Route.dotSuffixes, hc, ih]

theorem firstHit_F (es : List (Bytes × Bytes)) (vd : Bytes → Option Bytes) (h : ∀ k, cmLookup es k = vd k)
    (ks : List Bytes) : Bounce.firstHit es ks = firstHitF vd ks := by
  induction ks with
  | nil => rfl
  | cons k r ih => simp only [Bounce.firstHit, firstHitF, h, ih]; rfl

theorem firstHitF_cons (vd : Bytes → Option Bytes) (k : Bytes) (ks : List Bytes) :
    firstHitF vd (k :: ks) = match vd k with
      | some t => some t
      | none => firstHitF vd ks := rfl

theorem firstHitF_dup (vd : Bytes → Option Bytes) (k : Bytes) (l : List Bytes) :
    firstHitF vd (k :: k :: l) = firstHitF vd (k :: l) := by
  simp only [firstHitF]
  cases vd k <;> rfl

theorem domainKeys_route (vd : Bytes → Option Bytes) (dom : Bytes) :
    firstHitF vd (dom :: (Route.dotSuffixes dom ++ [[]])) = firstHitF vd (suffixKeys dom) := by
  cases dom with
  | nil => exact firstHitF_dup vd [] []
  | cons c r =>
    simp only [suffixKeys, dotSuffixes_route, Route.dotSuffixes]
    by_cases hc : c = DOT
    · simp only [hc, if_true, List.cons_append]
      exact firstHitF_dup vd _ _
    · simp only [hc, if_false]

/-- the governing domain entry, in the vocabulary of both properties -/
theorem governing_route (c : Rewrite.Cfg) (dom : Bytes) :
    governing (tablesOf c).vdoms dom
      = firstHitF (Rewrite.mapLookup c.vdoms) (dom :: (Route.dotSuffixes dom ++ [[]])) := by
  rw [← firstHit_eq_governing, domainKeys_route]
  exact firstHit_F _ _ (cmLookup_tablesOf c) _

/-! ### what `rewrite()` returns -/

theorem rewrite_shape (c : Rewrite.Cfg) (r : Bytes) : ∃ a dom, AT ∉ dom ∧ Rewrite.rewrite c r =
    (if Route.listed c.locals dom then ⟨.loc, [], a ++ AT :: dom⟩
     else match firstHitF (Rewrite.mapLookup c.vdoms) ((a ++ AT :: dom) :: dom :: (Route.dotSuffixes dom ++ [[]])) with
       | some t => if t = [] then ⟨.rem, [], a ++ AT :: dom⟩ else ⟨.loc, t, a ++ AT :: dom⟩
       | none => ⟨.rem, [], a ++ AT :: dom⟩) := by
  rw [RewriteSpec.rewrite_eq_G, RewriteSpec.routeSpecG_eq]
  obtain ⟨a, dom, h1, h2, _, h4⟩ := RewriteSpec.addr_decomp _ (RewriteSpec.spec_addr_shape c r)
  refine ⟨a, dom, h2, ?_⟩
  unfold RewriteSpec.specTail Route.candidates
  rw [h4, h1]
  rfl

/-- the three outcomes of `rewrite()` -/
theorem rewrite_cases (c : Rewrite.Cfg) (r : Bytes) : ∃ a dom, AT ∉ dom ∧
    ((Route.listed c.locals dom = true ∧ Rewrite.rewrite c r = ⟨.loc, [], a ++ AT :: dom⟩) ∨
     (Route.listed c.locals dom = false ∧ Rewrite.rewrite c r = ⟨.rem, [], a ++ AT :: dom⟩ ∧
        (Rewrite.mapLookup c.vdoms (a ++ AT :: dom) = some [] ∨
         (Rewrite.mapLookup c.vdoms (a ++ AT :: dom) = none ∧
           (governing (tablesOf c).vdoms dom = some [] ∨ governing (tablesOf c).vdoms dom = none)))) ∨
     (Route.listed c.locals dom = false ∧ ∃ t, t ≠ [] ∧ Rewrite.rewrite c r = ⟨.loc, t, a ++ AT :: dom⟩ ∧
        (Rewrite.mapLookup c.vdoms (a ++ AT :: dom) = some t ∨
         (Rewrite.mapLookup c.vdoms (a ++ AT :: dom) = none ∧ governing (tablesOf c).vdoms dom = some t)))) := by
  obtain ⟨a, dom, hd, h⟩ := rewrite_shape c r
  refine ⟨a, dom, hd, ?_⟩
  rw [h, governing_route]
  by_cases hl : Route.listed c.locals dom = true
  · left; exact ⟨hl, by simp [hl]⟩
  · have hl' : Route.listed c.locals dom = false := by simpa using hl
    right
    rw [firstHitF_cons]
    simp only [hl', Bool.false_eq_true, if_false]
    cases hw : Rewrite.mapLookup c.vdoms (a ++ AT :: dom) with
    | some t =>
      by_cases ht : t = []
      · left; subst ht; exact ⟨trivial, by simp, Or.inl rfl⟩
      · right; exact ⟨trivial, t, ht, by simp [ht], Or.inl rfl⟩
    | none =>
      simp only
      generalize firstHitF (Rewrite.mapLookup c.vdoms) (dom :: (Route.dotSuffixes dom ++ [[]])) = G
      cases G with
      | some t =>
        by_cases ht : t = []
        · left; subst ht; exact ⟨trivial, by simp, Or.inr ⟨trivial, Or.inl rfl⟩⟩
        · right; exact ⟨trivial, t, ht, by simp [ht], Or.inr ⟨trivial, rfl⟩⟩
      | none => left; exact ⟨trivial, by simp, Or.inr ⟨trivial, Or.inr rfl⟩⟩

/-! ### the virtual-user loop finds a cut when there is one -/

theorem splits_mem (p rest : Bytes) (c : Byte) : (p, c :: rest) ∈ splits (p ++ c :: rest) := by
  induction p with
  | nil => simp [splits]
  | cons x t ih =>
    simp only [List.cons_append, splits, List.mem_cons, List.mem_map]
    right
    exact ⟨(t, c :: rest), ih, rfl⟩

theorem userSplit_isSome (es : List (Bytes × Bytes)) (p rest : Bytes)
    (he : entryFor es rest = some p) (hp : p ≠ []) : (userSplit es (p ++ 45 :: rest)).isSome = true := by
  unfold userSplit
  rw [List.findSome?_isSome_iff]
  refine ⟨(p, 45 :: rest), splits_mem p rest 45, ?_⟩
  have hpe : p.isEmpty = false := by simpa using hp
  simp [userCut, he, hpe]

/-- a cut names a proper suffix -/
theorem userSplit_shorter (es : List (Bytes × Bytes)) (recip rest : Bytes)
    (h : userSplit es recip = some rest) : rest.length < recip.length := by
  unfold userSplit at h
  obtain ⟨x, hx, hc⟩ := List.exists_of_findSome?_eq_some h
  have hlen : ∀ (l : Bytes) (y : Bytes × Bytes), y ∈ splits l → y.1.length + y.2.length = l.length := by
    intro l
    induction l with
    | nil => intro y hy; simp [splits] at hy
    | cons c t ih =>
      intro y hy
      simp only [splits, List.mem_cons, List.mem_map] at hy
      rcases hy with rfl | ⟨z, hz, rfl⟩
      · simp
      · have := ih z hz; simp; omega
  have hl := hlen recip x hx
  unfold userCut at hc
  split at hc
  · rename_i r2 heq
    split at hc
    · split at hc
      · cases hc; rw [heq] at hl; simp at hl; omega
      · cases hc
    · cases hc
  · cases hc

/-! ### `stripvdomprepend` applied to what `rewrite()` wrote -/

/-- a recipient kept by `locals` is named as it is -/
theorem strip_local (c : Rewrite.Cfg) (r : Bytes)
    (hc : (Rewrite.rewrite c r).chan = .loc) (ht : (Rewrite.rewrite c r).tag = []) :
    stripvdom (tablesOf c) (Rewrite.rewrite c r).addr = (Rewrite.rewrite c r).addr := by
  obtain ⟨a, dom, hd, h | ⟨_, h, _⟩ | ⟨_, t, htne, h, _⟩⟩ := rewrite_cases c r
  · rw [h.2]
    simp [stripvdom, domainOf_at a dom hd, cmMember_tablesOf, h.1]
  · rw [h] at hc; cases hc
  · rw [h] at ht; exact absurd ht htne

/-- `rewrite()` prepends only on the local channel -/
theorem remote_untagged (c : Rewrite.Cfg) (r : Bytes) (hc : (Rewrite.rewrite c r).chan = .rem) :
    (Rewrite.rewrite c r).tag = [] := by
  obtain ⟨a, dom, hd, h | ⟨_, h, _⟩ | ⟨_, t, htne, h, _⟩⟩ := rewrite_cases c r
  · rw [h.2]
  · rw [h]
  · rw [h] at hc; cases hc

theorem tagged_local (c : Rewrite.Cfg) (r : Bytes) (ht : (Rewrite.rewrite c r).tag ≠ []) :
    (Rewrite.rewrite c r).chan = .loc := by
  cases hc : (Rewrite.rewrite c r).chan with
  | loc => rfl
  | rem => exact absurd (remote_untagged c r hc) ht

/-- a recipient that got a prefix: the prefix is removed, provided the only virtual-user reading of
the prefixed string (if any) is the right one -/
theorem strip_prefixed (c : Rewrite.Cfg) (r : Bytes)
    (ht : (Rewrite.rewrite c r).tag ≠ [])
    (hu : ∀ rest, userSplit (tablesOf c).vdoms
            ((Rewrite.rewrite c r).tag ++ 45 :: (Rewrite.rewrite c r).addr) = some rest →
            rest = (Rewrite.rewrite c r).addr) :
    stripvdom (tablesOf c) ((Rewrite.rewrite c r).tag ++ 45 :: (Rewrite.rewrite c r).addr)
      = (Rewrite.rewrite c r).addr := by
  obtain ⟨a, dom, hd, h | ⟨_, h, _⟩ | ⟨hl, t, htne, h, hv⟩⟩ := rewrite_cases c r
  · rw [h.2] at ht; exact absurd rfl ht
  · rw [h] at ht; exact absurd rfl ht
  · rw [h] at hu ⊢
    simp only at hu ⊢
    have hdom : domainOf (t ++ 45 :: (a ++ AT :: dom)) = some dom := by
      have := domainOf_append (t ++ [45]) (a ++ AT :: dom) dom (domainOf_at a dom hd)
      simpa using this
    unfold stripvdom
    rw [hdom]
    simp only [cmMember_tablesOf, hl, Bool.false_eq_true, if_false, userStripGo_eq_userSplit,
      firstHit_eq_governing]
    cases hus : userSplit (tablesOf c).vdoms (t ++ 45 :: (a ++ AT :: dom)) with
    | some rest => exact hu rest hus
    | none =>
      rcases hv with hv | ⟨_, hg⟩
      · exfalso
        have := userSplit_isSome (tablesOf c).vdoms t (a ++ AT :: dom) (by rw [entryFor_tablesOf]; exact hv) htne
        rw [hus] at this; cases this
      · have hpe : t.isEmpty = false := by simpa using htne
        have hpre : (t ++ [DASH]).isPrefixOf (t ++ 45 :: (a ++ AT :: dom)) = true := by
          rw [List.isPrefixOf_iff_prefix]; exact ⟨a ++ AT :: dom, by simp [DASH]⟩
        simp only [hg, hpe, hpre, Bool.not_false, Bool.and_self, if_true]
        simp

/-- **end to end on the name**: what `addbounce` (flag = "local channel", as `del_dochan` passes it)
names for the channel-file recipient `rewrite()` wrote is the routed address -/
theorem nameOf_rewrite (c : Rewrite.Cfg) (r : Bytes)
    (hu : (Rewrite.rewrite c r).tag ≠ [] → ∀ rest, userSplit (tablesOf c).vdoms (recipOf (Rewrite.rewrite c r)) = some rest →
            rest = (Rewrite.rewrite c r).addr) :
    nameOf (tablesOf c) ((Rewrite.rewrite c r).chan == .loc) (recipOf (Rewrite.rewrite c r)) = (Rewrite.rewrite c r).addr := by
  have e1 : (Rewrite.Chan.rem == Rewrite.Chan.loc) = false := by decide
  have e2 : (Rewrite.Chan.loc == Rewrite.Chan.loc) = true := by decide
  cases hc : (Rewrite.rewrite c r).chan with
  | rem =>
    have ht := remote_untagged c r hc
    simp [nameOf, recipOf, ht, e1]
  | loc =>
    by_cases ht : (Rewrite.rewrite c r).tag = []
    · have := strip_local c r hc ht
      simp only [recipOf, ht, if_true, nameOf, e2]
      exact this
    · have h2 := hu ht
      simp only [recipOf, ht, if_false] at h2 ⊢
      have := strip_prefixed c r ht h2
      simp only [nameOf, e2, if_true]
      exact this

/-! ### which address that is: the recipient after `rewrite()`'s own normalisation -/

theorem specTail_addr (vd : Bytes → Option Bytes) (c : Rewrite.Cfg) (addr : Bytes) :
    (RewriteSpec.specTail vd c addr).addr = addr := by
  unfold RewriteSpec.specTail
  split
  · rfl
  · split
    · split <;> rfl
    · rfl

/-- `(rewrite c r).addr` is the recipient with the default host appended if it has no '@' and the
percent hack applied (C10's `pctFix`), whatever the routing decision -/
theorem rewrite_addr_spec (c : Rewrite.Cfg) (r : Bytes) :
    (Rewrite.rewrite c r).addr = (match Route.splitLast AT r with
      | some p => Route.pctFix c.ph (p.1.length + 1) p.1 p.2
      | none => Route.pctFix c.ph (r.length + 1) r c.env) := by
  rw [RewriteSpec.rewrite_eq_G, RewriteSpec.routeSpecG_eq]
  exact specTail_addr _ c _

/-- a recipient with an '@' whose domain is not subject to the percent hack is the routed address itself -/
theorem rewrite_addr_plain (c : Rewrite.Cfg) (r l d : Bytes) (h : Route.splitLast AT r = some (l, d))
    (hp : Route.listed c.ph d = false) : (Rewrite.rewrite c r).addr = r := by
  rw [rewrite_addr_spec, h]
  simp only [Route.pctFix, hp, Bool.false_eq_true, if_false]
  exact (RewriteSpec.splitLast_some h).1.symm

/-- a recipient without '@' gets `@envnoathost` -/
theorem rewrite_addr_noat (c : Rewrite.Cfg) (r : Bytes) (h : Route.splitLast AT r = none)
    (hp : Route.listed c.ph c.env = false) : (Rewrite.rewrite c r).addr = r ++ AT :: c.env := by
  rw [rewrite_addr_spec, h]
  simp only [Route.pctFix, hp, Bool.false_eq_true, if_false]

/-- sufficient for the unambiguity hypothesis of `strip_prefixed`: the prefix is the prepend of the
address's own (virtual-user) entry and contains no dash — the first dash of the string is then the
right cut -/
theorem unambiguous_of_dashfree (es : List (Bytes × Bytes)) (t addr : Bytes)
    (he : entryFor es addr = some t) (hp : t ≠ []) (hdash : (45 : Byte) ∉ t) :
    ∀ rest, userSplit es (t ++ 45 :: addr) = some rest → rest = addr := by
  intro rest h
  rw [← userStripGo_eq_userSplit, userStripGo_skip _ _ _ _ hdash] at h
  have hpe : t.isEmpty = false := by simpa using hp
  rw [entryFor_eq_cmLookup] at he
  simp [userStripGo, DASH, he, hpe] at h
  exact h.symm

end Nq.Lemmas.BounceRewrite
