/-
  C17 lemmas: the right-to-left address-list parser on comma-separated plain mailboxes, and the
  rewriting functions on `local@host` token lists.
-/
import Nq.Lemmas.C17Quote
import Nq.Inject

namespace Nq.Lemmas.C17
open Nq Nq.Token822 Nq.Inject

def isWordTok : Tok → Bool
  | .atom _ | .quote _ | .literal _ => true
  | _ => false

def isSepTok : Tok → Bool
  | .at | .dot => true
  | _ => false

/-- tokens of ONE plain mailbox, in the order the parser meets them (right to left): words and
`@`/`.` only, and no two words adjacent (`w` = a word may come next) -/
def sepOk : Bool → List Tok → Bool
  | _, [] => true
  | w, t :: r => if isWordTok t then w && sepOk false r else isSepTok t && sepOk true r

/-- the parser state between two addresses -/
def Idle (a : ASt) : Prop :=
  a.mode = .normal ∧ a.failed = false ∧ a.ingroup = false

theorem fold_mailbox (cb : List Tok → List Tok) (r : List Tok) :
    ∀ (w : Bool) (a : ASt), Idle a → a.wordok = w → sepOk w r = true →
      ∃ w', r.foldl (astep cb) a = { a with addr := a.addr ++ r, wordok := w' } := by
  induction r with
  | nil => intro w a _ hw _; exact ⟨w, by simp [← hw]⟩
  | cons t r ih =>
    intro w a hI hw hs
    obtain ⟨hm, hf, hg⟩ := hI
    simp only [List.foldl_cons]
    by_cases ht : isWordTok t = true
    · simp only [sepOk, ht, if_true, Bool.and_eq_true] at hs
      obtain ⟨hw1, hs'⟩ := hs
      have hwok : a.wordok = true := by rw [hw, hw1]
      have hstep : astep cb a t = { a with addr := a.addr ++ [t], wordok := false } := by
        cases t <;> simp [isWordTok] at ht <;>
          simp [astep, hf, hm, astepNormal, hwok, addrLeft]
      rw [hstep]
      obtain ⟨w', h⟩ := ih false { a with addr := a.addr ++ [t], wordok := false } ⟨hm, hf, hg⟩ rfl hs'
      exact ⟨w', by rw [h]; simp⟩
    · have ht' : isWordTok t = false := by simpa using ht
      simp only [sepOk, ht', Bool.false_eq_true, if_false, Bool.and_eq_true] at hs
      obtain ⟨hsep, hs'⟩ := hs
      have hstep : astep cb a t = { a with addr := a.addr ++ [t], wordok := true } := by
        cases t <;> simp [isSepTok] at hsep <;>
          simp [astep, hf, hm, astepNormal, addrLeft]
      rw [hstep]
      obtain ⟨w', h⟩ := ih true { a with addr := a.addr ++ [t], wordok := true } ⟨hm, hf, hg⟩ rfl hs'
      exact ⟨w', by rw [h]; simp⟩

/-- the reversed body of a field whose mailboxes are listed right to left -/
def bodyRev : List (List Tok) → List Tok
  | [] => []
  | [m] => m
  | m :: m' :: rest => m ++ .comma :: bodyRev (m' :: rest)

/-- **the address-list parser on comma-separated plain mailboxes**: starting between two addresses, each
mailbox (non-empty, `sepOk`) is handed to the callback exactly once, whole, in order; nothing fails -/
theorem fold_list (cb : List Tok → List Tok) (rs : List (List Tok)) :
    ∀ (a : ASt), Idle a → a.addr = [] → a.wordok = true →
      (∀ m ∈ rs, m ≠ [] ∧ sepOk true m = true) →
      let z := afinish cb ((bodyRev rs).foldl (astep cb) a)
      z.failed = false ∧ z.got = a.got ++ rs.map cb := by
  induction rs with
  | nil =>
    intro a hI ha _ _
    obtain ⟨hm, hf, hg⟩ := hI
    simp [bodyRev, afinish, hf, hm, flush, ha]
  | cons m rest ih =>
    intro a hI ha hw hall
    obtain ⟨hm, hf, hg⟩ := hI
    obtain ⟨hne, hsep⟩ := hall m (by simp)
    obtain ⟨w', hfold⟩ := fold_mailbox cb m true a ⟨hm, hf, hg⟩ hw hsep
    have hne' : (a.addr ++ m).isEmpty = false := by cases m <;> simp_all
    cases rest with
    | nil =>
      simp only [bodyRev, hfold, List.map_cons, List.map_nil]
      simp [afinish, hf, hm, flush, hne', hne, gotaddr, ha]
    | cons m' rest' =>
      simp only [bodyRev, List.foldl_append, List.foldl_cons, hfold]
      have hstep : astep cb { a with addr := a.addr ++ m, wordok := w' } .comma =
          { a with addr := [], wordok := true, out := Tok.comma :: ((cb m).reverse ++ a.out), got := a.got ++ [cb m] } := by
        simp [astep, hf, hm, astepNormal, flush, hne', hne, gotaddr, outLeft, ha]
      rw [hstep]
      have := ih { a with addr := [], wordok := true, out := Tok.comma :: ((cb m).reverse ++ a.out), got := a.got ++ [cb m] }
        ⟨hm, hf, hg⟩ rfl rfl (fun x hx => hall x (by simp [hx]))
      simpa using this


/-! ### items with comments and angle addresses -/

def notComment : Tok → Bool
  | .comment _ => false
  | _ => true

/-- like `sepOk`, with comments allowed anywhere between the tokens -/
def sepOkC : Bool → List Tok → Bool
  | _, [] => true
  | w, t :: r =>
    if notComment t then (if isWordTok t then w && sepOkC false r else isSepTok t && sepOkC true r)
    else sepOkC w r

/-- plain mailbox with comments, outside `<…>` -/
theorem fold_mailboxC (cb : List Tok → List Tok) (r : List Tok) :
    ∀ (w : Bool) (a : ASt), Idle a → a.wordok = w → sepOkC w r = true →
      Idle (r.foldl (astep cb) a) ∧ (r.foldl (astep cb) a).addr = a.addr ++ r.filter notComment ∧
      (r.foldl (astep cb) a).got = a.got := by
  induction r with
  | nil => intro w a hI _ _; simp [hI]
  | cons t r ih =>
    intro w a hI hw hs
    obtain ⟨hm, hf, hg⟩ := hI
    simp only [List.foldl_cons]
    by_cases hc : notComment t = true
    · simp only [sepOkC, hc, if_true] at hs
      by_cases ht : isWordTok t = true
      · simp only [ht, if_true, Bool.and_eq_true] at hs
        obtain ⟨hw1, hs'⟩ := hs
        have hwok : a.wordok = true := by rw [hw, hw1]
        have hstep : astep cb a t = { a with addr := a.addr ++ [t], wordok := false } := by
          cases t <;> simp [isWordTok] at ht <;>
            simp [astep, hf, hm, astepNormal, hwok, addrLeft]
        rw [hstep]
        obtain ⟨h1, h2, h3⟩ := ih false { a with addr := a.addr ++ [t], wordok := false } ⟨hm, hf, hg⟩ rfl hs'
        exact ⟨h1, by rw [h2]; simp [hc], h3⟩
      · have ht' : isWordTok t = false := by simpa using ht
        simp only [ht', Bool.false_eq_true, if_false, Bool.and_eq_true] at hs
        obtain ⟨hsep, hs'⟩ := hs
        have hstep : astep cb a t = { a with addr := a.addr ++ [t], wordok := true } := by
          cases t <;> simp [isSepTok] at hsep <;>
            simp [astep, hf, hm, astepNormal, addrLeft]
        rw [hstep]
        obtain ⟨h1, h2, h3⟩ := ih true { a with addr := a.addr ++ [t], wordok := true } ⟨hm, hf, hg⟩ rfl hs'
        exact ⟨h1, by rw [h2]; simp [hc], h3⟩
    · have hc' : notComment t = false := by simpa using hc
      simp only [sepOkC, hc', Bool.false_eq_true, if_false] at hs
      have hstep : astep cb a t = { a with out := t :: a.out } := by
        cases t <;> simp [notComment] at hc' <;> simp [astep, hf, hm, astepNormal, outLeft]
      rw [hstep]
      obtain ⟨h1, h2, h3⟩ := ih w { a with out := t :: a.out } ⟨hm, hf, hg⟩ hw hs
      exact ⟨h1, by rw [h2]; simp [hc'], h3⟩

/-- between `>` and `<`: everything but comments goes to the address (after a66f18c) -/
theorem fold_angle (cb : List Tok → List Tok) (inner : List Tok) :
    ∀ (a : ASt), a.mode = .angle → a.failed = false → Tok.left ∉ inner →
      let z := inner.foldl (astep cb) a
      z.mode = .angle ∧ z.failed = false ∧ z.ingroup = a.ingroup ∧ z.got = a.got ∧
      z.addr = a.addr ++ inner.filter notComment := by
  induction inner with
  | nil => intro a hm hf _; simp [hm, hf]
  | cons t r ih =>
    intro a hm hf hl
    have ht : t ≠ .left := fun e => hl (by simp [e])
    have hr : Tok.left ∉ r := fun e => hl (by simp [e])
    simp only [List.foldl_cons]
    by_cases hc : notComment t = true
    · have hstep : astep cb a t = { a with addr := a.addr ++ [t] } := by
        cases t <;> simp [notComment] at hc <;> simp_all [astep, addrLeft]
      rw [hstep]
      obtain ⟨h1, h2, h3, h4, h5⟩ := ih { a with addr := a.addr ++ [t] } hm hf hr
      exact ⟨h1, h2, h3, h4, by rw [h5]; simp [hc]⟩
    · have hc' : notComment t = false := by simpa using hc
      have hstep : astep cb a t = { a with out := t :: a.out } := by
        cases t <;> simp [notComment] at hc' <;> simp [astep, hf, hm, outLeft]
      rw [hstep]
      obtain ⟨h1, h2, h3, h4, h5⟩ := ih { a with out := t :: a.out } hm hf hr
      exact ⟨h1, h2, h3, h4, by rw [h5]; simp [hc']⟩

/-- the display name to the left of `<`: copied, never part of an address -/
theorem fold_phrase (cb : List Tok → List Tok) (ph : List Tok) :
    ∀ (a : ASt), a.mode = .phrase → a.failed = false → ph.all isPhraseTok = true →
      let z := ph.foldl (astep cb) a
      z.mode = .phrase ∧ z.failed = false ∧ z.ingroup = a.ingroup ∧ z.got = a.got ∧ z.addr = a.addr := by
  induction ph with
  | nil => intro a hm hf _; simp [hm, hf]
  | cons t r ih =>
    intro a hm hf hp
    simp only [List.all_cons, Bool.and_eq_true] at hp
    have hstep : astep cb a t = { a with out := t :: a.out } := by
      simp [astep, hf, hm, hp.1, outLeft]
    simp only [List.foldl_cons, hstep]
    exact ih { a with out := t :: a.out } hm hf hp.2

/-- one item of an address list, tokens in the order the parser meets them (right to left) -/
inductive Item
  | plain (m : List Tok)                      -- addr-spec, comments allowed
  | angle (inner : List Tok) (phrase : List Tok)   -- `phrase <inner>`: `>` inner `<` phrase

def Item.toks : Item → List Tok
  | .plain m => m
  | .angle inner ph => .right :: inner ++ .left :: ph

/-- the address the callback must be given -/
def Item.addr : Item → List Tok
  | .plain m => m.filter notComment
  | .angle inner _ => inner.filter notComment

def Item.ok : Item → Prop
  | .plain m => m.filter notComment ≠ [] ∧ sepOkC true m = true
  | .angle inner ph => Tok.left ∉ inner ∧ ph.all isPhraseTok = true

/-- the parser state right after an item: between addresses, possibly still copying a display name -/
def Rest (a : ASt) : Prop := (a.mode = .normal ∨ (a.mode = .phrase ∧ a.addr = [])) ∧ a.failed = false ∧ a.ingroup = false

theorem fold_item (cb : List Tok → List Tok) (it : Item) (a : ASt)
    (hI : Idle a) (ha : a.addr = []) (hw : a.wordok = true) (hok : it.ok) :
    let z := it.toks.foldl (astep cb) a
    Rest z ∧ ((z.addr = it.addr ∧ z.got = a.got ∧ z.addr ≠ []) ∨ (z.addr = [] ∧ z.got = a.got ++ [cb it.addr])) := by
  obtain ⟨hm, hf, hg⟩ := hI
  cases it with
  | plain m =>
    obtain ⟨hne, hs⟩ := hok
    obtain ⟨⟨h1, h2, h3⟩, h4, h5⟩ := fold_mailboxC cb m true a ⟨hm, hf, hg⟩ hw hs
    simp only [Item.toks, Item.addr]
    refine ⟨⟨Or.inl h1, h2, h3⟩, Or.inl ⟨by rw [h4, ha]; simp, h5, by rw [h4, ha]; simpa using hne⟩⟩
  | angle inner ph =>
    obtain ⟨hl, hp⟩ := hok
    simp only [Item.toks, Item.addr, List.foldl_cons, List.foldl_append]
    have h0 : astep cb a .right = { a with out := Tok.right :: a.out, mode := .angle } := by
      simp [astep, hf, hm, astepNormal, flushComma, ha, outLeft]
    rw [h0]
    obtain ⟨a1, a2, a3, a4, a5⟩ := fold_angle cb inner { a with out := Tok.right :: a.out, mode := .angle } rfl hf hl
    generalize List.foldl (astep cb) { a with out := Tok.right :: a.out, mode := .angle } inner = b at a1 a2 a3 a4 a5
    have h1 : astep cb b .left = { (gotaddr cb b) with mode := .phrase, out := Tok.left :: (gotaddr cb b).out } := by
      simp [astep, a2, a1, outLeft]
    rw [h1]
    obtain ⟨p1, p2, p3, p4, p5⟩ := fold_phrase cb ph
      { (gotaddr cb b) with mode := .phrase, out := Tok.left :: (gotaddr cb b).out } rfl (by simp [gotaddr, a2]) hp
    refine ⟨⟨Or.inr ⟨p1, by rw [p5]; simp [gotaddr]⟩, p2, by rw [p3]; simp [gotaddr, a3, hg]⟩, Or.inr ⟨by rw [p5]; simp [gotaddr], ?_⟩⟩
    rw [p4]
    simp [gotaddr, a4, a5, ha]

/-- a comma after an item: the pending address (if any) is flushed, the parser is idle again -/
theorem step_comma_rest (cb : List Tok → List Tok) (z : ASt) (hR : Rest z) :
    let y := astep cb z .comma
    Idle y ∧ y.addr = [] ∧ y.wordok = true ∧ y.got = (if z.addr.isEmpty then z.got else z.got ++ [cb z.addr]) := by
  obtain ⟨hm, hf, hg⟩ := hR
  rcases hm with hm | ⟨hm, hza⟩
  · by_cases he : z.addr.isEmpty = true
    · have : z.addr = [] := by simpa using he
      simp [astep, hf, hm, astepNormal, flush, he, outLeft, Idle, hg, this]
    · have he' : z.addr.isEmpty = false := by simpa using he
      simp [astep, hf, hm, astepNormal, flush, he', gotaddr, outLeft, Idle, hg]
  · simp [astep, hf, hm, isPhraseTok, astepNormal, flush, hza, outLeft, Idle, hg]

theorem finish_rest (cb : List Tok → List Tok) (z : ASt) (hR : Rest z) :
    (afinish cb z).failed = false ∧
    (afinish cb z).got = (if z.addr.isEmpty then z.got else z.got ++ [cb z.addr]) := by
  obtain ⟨hm, hf, hg⟩ := hR
  rcases hm with hm | ⟨hm, hza⟩
  · by_cases he : z.addr.isEmpty = true
    · simp [afinish, hf, hm, flush, he]
    · have he' : z.addr.isEmpty = false := by simpa using he
      simp [afinish, hf, hm, flush, he', gotaddr]
  · simp [afinish, hf, hm, flush, hza]

def bodyRevI : List Item → List Tok
  | [] => []
  | [it] => it.toks
  | it :: it' :: rest => it.toks ++ .comma :: bodyRevI (it' :: rest)

/-- **the address-list parser on comma-separated items** (plain mailboxes with comments, `phrase <…>` with
anything but `<` inside, e.g. routes and comments): each item's address — comments removed — is handed
to the callback exactly once, in order; nothing fails -/
theorem fold_items (cb : List Tok → List Tok) (its : List Item) :
    ∀ (a : ASt), Idle a → a.addr = [] → a.wordok = true → (∀ it ∈ its, it.ok) →
      let z := afinish cb ((bodyRevI its).foldl (astep cb) a)
      z.failed = false ∧ z.got = a.got ++ its.map (fun it => cb it.addr) := by
  induction its with
  | nil =>
    intro a hI ha _ _
    obtain ⟨hm, hf, hg⟩ := hI
    simp [bodyRevI, afinish, hf, hm, flush, ha]
  | cons it rest ih =>
    intro a hI ha hw hall
    obtain ⟨hR, hcase⟩ := fold_item cb it a hI ha hw (hall it (by simp))
    cases rest with
    | nil =>
      simp only [bodyRevI, List.map_cons, List.map_nil]
      obtain ⟨f1, f2⟩ := finish_rest cb _ hR
      refine ⟨f1, ?_⟩
      rw [f2]
      rcases hcase with ⟨c1, c2, c3⟩ | ⟨c1, c2⟩
      · have hne : it.addr ≠ [] := by rw [← c1]; exact c3
        simp [c1, c2, hne]
      · simp [c1, c2]
    | cons it' rest' =>
      simp only [bodyRevI, List.foldl_append, List.foldl_cons]
      obtain ⟨s1, s2, s3, s4⟩ := step_comma_rest cb _ hR
      have := ih _ s1 s2 s3 (fun x hx => hall x (by simp [hx]))
      simp only [] at this
      refine ⟨this.1, ?_⟩
      rw [this.2, s4]
      rcases hcase with ⟨c1, c2, c3⟩ | ⟨c1, c2⟩
      · have hne : it.addr ≠ [] := by rw [← c1]; exact c3
        simp [c1, c2, hne]
      · simp [c1, c2]

/-! ### rwgeneric on `local@host` (reversed token lists) -/

theorem beforeAt_prefix (p : Tok → Bool) (x : List Tok) (d : Tok) (y : List Tok)
    (hx : ∀ t ∈ x, t ≠ Tok.at) (hd : p d = true) : beforeAt p (x ++ d :: y) = true := by
  induction x with
  | nil => simp [beforeAt, hd]
  | cons t x ih =>
    have ht : t ≠ .at := hx t (by simp)
    have := ih (fun t' h' => hx t' (by simp [h']))
    simp only [List.cons_append, beforeAt, this, ht]
    split <;> simp

/-- the first five steps of `rwgeneric` leave `host@local` alone when the rightmost token is an atom,
there is an '@', and the address does not begin with '@' (no source route) -/
theorem rwgeneric_atomHost (c : RwCfg) (s : Bytes) (r : List Tok)
    (hat : (Tok.atom s :: r).contains .at = true) (hlast : (Tok.atom s :: r).getLast? ≠ some .at) :
    rwgeneric c (.atom s :: r) = rwnodot c (rwplus c (.atom s :: r)) := by
  have hmem : Tok.at ∈ r := by simpa using hat
  simp [rwgeneric, rwroute, hlast, rwextradot, rwextraat, rwnoat, hmem]

end Nq.Lemmas.C17
