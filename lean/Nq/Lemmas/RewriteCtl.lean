/-
  Lemmas for C10, part 6: the control-file readers of control.c (`readline`, `readfile`) followed by
  `constmap_init`'s entry splitting produce exactly the documented entries (one per line, trailing
  blanks stripped, `#` comments and empty lines ignored), for files without NUL bytes.
-/
import Nq.Lemmas.RewriteTodo

namespace Nq.Lemmas.RewriteCtl
open Nq Nq.Rewrite Nq.Route Nq.Lemmas.RewriteTodo

theorem linesOf_cons (c : Byte) (s : Bytes) :
    linesOf (c :: s) = if c = LF then [] :: linesOf s else
      match linesOf s with
      | l :: r => (c :: l) :: r
      | [] => [[c]] := rfl

theorem linesOf_ne_nil (s : Bytes) : ∃ l r, linesOf s = l :: r := by
  induction s with
  | nil => exact ⟨[], [], rfl⟩
  | cons c s ih =>
    obtain ⟨l, r, h⟩ := ih
    rw [linesOf_cons, h]
    by_cases hc : c = LF
    · exact ⟨[], l :: r, by simp [hc]⟩
    · exact ⟨c :: l, r, by simp [hc]⟩

theorem splitLinesGo_eq (s acc l : Bytes) (r : List Bytes) (h : linesOf s = l :: r) :
    splitLinesGo s acc = (acc.reverse ++ l) :: r := by
  induction s generalizing acc l r with
  | nil =>
    simp only [linesOf, List.foldr_nil, List.cons.injEq] at h
    obtain ⟨rfl, rfl⟩ := h
    simp [splitLinesGo]
  | cons c s ih =>
    obtain ⟨l', r', h'⟩ := linesOf_ne_nil s
    rw [linesOf_cons, h'] at h
    by_cases hc : c = LF
    · simp only [hc, if_true, List.cons.injEq] at h
      obtain ⟨rfl, rfl⟩ := h
      simp only [splitLinesGo, hc, if_true, List.append_nil]
      rw [ih [] l' r' h']
      simp
    · simp only [hc, if_false, List.cons.injEq] at h
      obtain ⟨rfl, rfl⟩ := h
      simp only [splitLinesGo, hc, if_false]
      rw [ih (c :: acc) l' r' h']
      simp

theorem splitLines_eq (s : Bytes) : splitLines s = linesOf s := by
  obtain ⟨l, r, h⟩ := linesOf_ne_nil s
  unfold splitLines
  rw [splitLinesGo_eq s [] l r h, h]; simp

theorem linesOf_mem (s : Bytes) : ∀ l ∈ linesOf s, LF ∉ l ∧ ∀ x ∈ l, x ∈ s := by
  induction s with
  | nil => intro l hl; simp [linesOf] at hl; subst hl; simp
  | cons c s ih =>
    obtain ⟨l', r', h'⟩ := linesOf_ne_nil s
    intro l hl
    rw [linesOf_cons, h'] at hl
    by_cases hc : c = LF
    · simp only [hc, if_true, List.mem_cons] at hl
      rcases hl with rfl | hl
      · simp
      · have := ih l (by rw [h']; simpa using hl)
        exact ⟨this.1, fun x hx => List.mem_cons_of_mem _ (this.2 x hx)⟩
    · simp only [hc, if_false, List.mem_cons] at hl
      rcases hl with rfl | hl
      · have := ih l' (by rw [h']; simp)
        refine ⟨?_, ?_⟩
        · simp only [List.mem_cons, not_or]; exact ⟨fun e => hc e.symm, this.1⟩
        · intro x hx
          rcases List.mem_cons.1 hx with rfl | hx
          · simp
          · exact List.mem_cons_of_mem _ (this.2 x hx)
      · have := ih l (by rw [h']; simp [hl])
        exact ⟨this.1, fun x hx => List.mem_cons_of_mem _ (this.2 x hx)⟩

theorem dropWhile_congr' (p q : Byte → Bool) (l : Bytes) (h : ∀ x ∈ l, p x = q x) :
    l.dropWhile p = l.dropWhile q := by
  induction l with
  | nil => rfl
  | cons x r ih =>
    simp only [List.dropWhile_cons, h x (by simp)]
    split
    · exact ih (fun y hy => h y (by simp [hy]))
    · rfl

theorem stripWs_eq_rstrip (l : Bytes) (h : LF ∉ l) : stripWs l = rstrip l := by
  unfold stripWs rstrip
  congr 1
  apply dropWhile_congr'
  intro x hx
  have hx' : x ∈ l := by simpa using hx
  have : ¬ x = LF := fun e => h (e ▸ hx')
  have hb : (x == LF) = false := beq_eq_false_iff_ne.2 this
  unfold isWs
  rw [hb]; simp

theorem mem_rstrip (l : Bytes) (x : Byte) (h : x ∈ rstrip l) : x ∈ l := by
  unfold rstrip at h
  rw [List.mem_reverse] at h
  have := (List.dropWhile_suffix (fun c => c == SP || c == TAB) (l := l.reverse)).subset h
  simpa using this

theorem fileLine_eq (l : Bytes) (hlf : LF ∉ l) (hn : NUL ∉ l) :
    fileLine l = if isEntryLine (rstrip l) then rstrip l ++ [NUL] else [] := by
  unfold fileLine
  rw [stripWs_eq_rstrip l hlf]
  cases hr : rstrip l with
  | nil => simp [isEntryLine]
  | cons c r =>
    have hc : ¬ c = NUL := by
      intro e
      exact hn (mem_rstrip l NUL (by rw [hr, e]; simp))
    simp only [isEntryLine]
    by_cases hh : c = HASHC
    · simp [hh]
    · simp [hh, hc]

theorem readfileBody_eq (s : Bytes) (hn : NUL ∉ s) : readfileBody s = encode (specLines s) := by
  unfold readfileBody specLines encode
  rw [splitLines_eq]
  have hm := linesOf_mem s
  generalize linesOf s = ls at hm
  induction ls with
  | nil => rfl
  | cons l r ih =>
    have hl := hm l (by simp)
    have hnl : NUL ∉ l := fun h => hn (hl.2 NUL h)
    simp only [List.flatMap_cons, List.map_cons, List.filter_cons]
    rw [fileLine_eq l hl.1 hnl, ih (fun x hx => hm x (by simp [hx]))]
    by_cases hk : isEntryLine (rstrip l) = true
    · simp [hk]
    · simp [hk]

theorem specLines_nulfree (s : Bytes) (hn : NUL ∉ s) : ∀ l ∈ specLines s, NUL ∉ l := by
  intro l hl
  unfold specLines at hl
  obtain ⟨hl1, _⟩ := List.mem_filter.1 hl
  obtain ⟨x, hx, rfl⟩ := List.mem_map.1 hl1
  intro h
  exact hn ((linesOf_mem s x hx).2 NUL (mem_rstrip x NUL h))

/-- `control_readfile` then the NUL-splitting of `constmap_init` gives back the documented lines -/
theorem chunks_readfileBody (s : Bytes) (hn : NUL ∉ s) : chunks (readfileBody s) = specLines s := by
  rw [readfileBody_eq s hn]
  have := chunks_encode (specLines s) [] (specLines_nulfree s hn) (by simp)
  simpa using this

theorem parse_plain (s : Bytes) (hn : NUL ∉ s) :
    parseEntries (readfileBody s) false = (specLines s).map specPlain := by
  unfold parseEntries
  rw [chunks_readfileBody s hn]
  induction specLines s with
  | nil => rfl
  | cons l r ih => simp [List.filterMap_cons, entOf, specPlain, ih]

theorem splitColon_eq (l : Bytes) : entOf true l = specVdom l := by
  unfold entOf specVdom
  simp only [if_true]
  induction l with
  | nil => simp [splitColon]
  | cons c r ih =>
    simp only [splitColon]
    by_cases hc : c = COLON
    · subst hc; simp [List.dropWhile_cons, List.takeWhile_cons]
    · have hne : (c != COLON) = true := by simp [hc]
      rw [if_neg hc, List.dropWhile_cons, List.takeWhile_cons]
      simp only [hne, if_true]
      revert ih
      cases splitColon r with
      | none =>
        intro ih
        cases hsp : r.dropWhile (· != COLON) with
        | nil => rfl
        | cons _ _ => rw [hsp] at ih; simp at ih
      | some p =>
        intro ih
        cases hsp : r.dropWhile (· != COLON) with
        | nil => rw [hsp] at ih; simp at ih
        | cons x v' =>
          rw [hsp] at ih
          simp only [Option.some.injEq, Ent.mk.injEq] at ih
          simp [ih.1, ih.2]

theorem parse_vdoms (s : Bytes) (hn : NUL ∉ s) :
    parseEntries (readfileBody s) true = (specLines s).filterMap specVdom := by
  unfold parseEntries
  rw [chunks_readfileBody s hn]
  congr 1
  funext l; exact splitColon_eq l

theorem linesOf_head (s : Bytes) : ∃ r, linesOf s = s.takeWhile (· != LF) :: r := by
  induction s with
  | nil => exact ⟨[], rfl⟩
  | cons c s ih =>
    obtain ⟨r, h⟩ := ih
    by_cases hc : c = LF
    · refine ⟨linesOf s, ?_⟩
      rw [linesOf_cons, if_pos hc, List.takeWhile_cons]
      simp [hc]
    · refine ⟨r, ?_⟩
      rw [linesOf_cons, if_neg hc, h, List.takeWhile_cons]
      simp [hc]

theorem readline_eq (s : Bytes) : stripWs (s.takeWhile (· != LF)) = specFirstLine s := by
  obtain ⟨r, h⟩ := linesOf_head s
  unfold specFirstLine
  rw [h]
  apply stripWs_eq_rstrip
  have := linesOf_mem s (s.takeWhile (· != LF)) (by rw [h]; simp)
  exact this.1

theorem specFirstLine_nulfree (m : Bytes) (h : NUL ∉ m) : NUL ∉ specFirstLine m := by
  obtain ⟨r, hr⟩ := linesOf_head m
  unfold specFirstLine
  rw [hr]
  intro hm
  have := mem_rstrip _ _ hm
  exact h ((linesOf_mem m _ (by rw [hr]; simp)).2 NUL this)

theorem parse_me (m : Bytes) (h : NUL ∉ m) : parseEntries (m ++ [NUL]) false = [specPlain m] := by
  unfold parseEntries
  have := chunks_encode [m] [] (by simpa using h) (by simp)
  simp only [encode, List.flatMap_cons, List.flatMap_nil, List.append_nil] at this
  rw [this]
  simp [entOf, specPlain]

/-- NUL-free control directory -/
def nulFreeFiles (f : Files) : Prop :=
  (∀ s, f.me = some s → NUL ∉ s) ∧ (∀ s, f.env = some s → NUL ∉ s) ∧ (∀ s, f.locals = some s → NUL ∉ s) ∧
  (∀ s, f.ph = some s → NUL ∉ s) ∧ (∀ s, f.vdoms = some s → NUL ∉ s)

theorem parseEntries_nil (fc : Bool) : parseEntries [] fc = [] := rfl

/-- `getcontrols()` + `constmap_init`'s entry splitting = the documented reading of the control files -/
theorem getcontrols_eq_spec (f : Files) (h : nulFreeFiles f) : (getcontrols f).map RawCfg.cfg = specCfg f := by
  obtain ⟨hme, henv, hloc, hph, hvd⟩ := h
  obtain ⟨me, env, locals, ph, vdoms⟩ := f
  simp only at hme henv hloc hph hvd
  cases me <;> cases env <;> cases locals <;> cases ph <;> cases vdoms <;>
    (try simp only [Option.some.injEq, forall_eq', reduceCtorEq, false_implies, implies_true] at hme henv hloc hph hvd) <;>
    simp [getcontrols, specCfg, specLocals, specVdoms, readfile, readline, readline_eq, RawCfg.cfg, parseEntries_nil,
      parse_plain, parse_vdoms, parse_me, specFirstLine_nulfree, *]

/-- `regetcontrols()` = "reread locals and virtualdomains" on the documented reading of the files -/
theorem reget_eq_spec (f0 f : Files) (old : RawCfg) (h0 : ∀ s, f0.me = some s → NUL ∉ s) (h : nulFreeFiles f) :
    (reget (readline f0.me) old f).cfg = specHup old.cfg f0 f := by
  obtain ⟨_, _, hloc, _, hvd⟩ := h
  obtain ⟨me0, env0, locals0, ph0, vdoms0⟩ := f0
  obtain ⟨me, env, locals, ph, vdoms⟩ := f
  simp only at h0 hloc hvd
  cases me0 <;> cases locals <;> cases vdoms <;>
    (try simp only [Option.some.injEq, forall_eq', reduceCtorEq, false_implies, implies_true] at h0 hloc hvd) <;>
    simp [reget, specHup, specLocals, specVdoms, readfile, readline, readline_eq, RawCfg.cfg, parseEntries_nil,
      parse_plain, parse_vdoms, parse_me, specFirstLine_nulfree, *]

end Nq.Lemmas.RewriteCtl
