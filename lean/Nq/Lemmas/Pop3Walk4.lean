import Nq.Lemmas.Pop3Walk3
namespace Nq.Lemmas.Pop3
open Nq Nq.Pop3 Nq.Pop3Ref Nq.Lemmas.Pop3Fmt

/-! ### one command: the model's reply is what the reference expects, and the states stay related -/

/-- the conclusion of the step simulation for one command that is not QUIT -/
structure StepOk (s : Sess) (rs : RSt) (verb arg : Bytes) : Prop where
  reply : ∀ w, matchReply (refStep rs (lower verb) arg).2 ((exec s verb arg).2.1 ++ w) = some w
  next : Sim (exec s verb arg).1 (refStep rs (lower verb) arg).1
  goes_on : (exec s verb arg).2.2 = none
  not_quit : (refStep rs (lower verb) arg).2 ≠ .quit

theorem errLine_eq (t : String) : errLine t = errSp ++ str t ++ [CR, LF] := rfl

theorem setDel_length (ms : List Msg) (i : Nat) : (setDel ms i).length = ms.length := by
  have := congrArg List.length (setDel_ident ms i)
  simpa using this

theorem sim_same (s : Sess) (rs : RSt) (h : Sim s rs) : Sim s rs := h

theorem step_noop (s : Sess) (rs : RSt) (h : Sim s rs) (verb arg : Bytes) (hL : lower verb = vNoop) :
    StepOk s rs verb arg := by
  have e1 : exec s verb arg = (s, okLine, none) := by
    simp [exec, verbIs, hL, vQuit, vStat, vList, vUidl, vDele, vRetr, vTop, vRset, vLast, vNoop]
  have e2 : refStep rs (lower verb) arg = (rs, .ok) := by
    rw [hL]; simp [refStep, vNoop]
  exact ⟨fun w => by rw [e1, e2]; exact match_ok w, by rw [e1, e2]; exact h, by rw [e1], fun hh => by rw [e2] at hh; cases hh⟩

theorem step_unknown (s : Sess) (rs : RSt) (h : Sim s rs) (verb arg : Bytes)
    (h1 : lower verb ≠ vQuit) (h2 : lower verb ≠ vStat) (h3 : lower verb ≠ vList) (h4 : lower verb ≠ vUidl)
    (h5 : lower verb ≠ vDele) (h6 : lower verb ≠ vRetr) (h7 : lower verb ≠ vTop) (h8 : lower verb ≠ vRset)
    (h9 : lower verb ≠ vLast) (h10 : lower verb ≠ vNoop) :
    StepOk s rs verb arg := by
  have e1 : exec s verb arg = (s, errLine "unimplemented", none) := by
    simp [exec, verbIs, h1, h2, h3, h4, h5, h6, h7, h8, h9, h10]
  have e2 : refStep rs (lower verb) arg = (rs, .err) := by
    simp only [vQuit, vStat, vList, vUidl, vDele, vRetr, vTop, vRset, vLast, vNoop] at h1 h2 h3 h4 h5 h6 h7 h8 h9 h10
    simp [refStep, h1, h2, h3, h4, h5, h6, h7, h8, h9, h10]
  exact ⟨fun w => by rw [e1, e2, errLine_eq]; exact match_err _ w noLF_unimpl, by rw [e1, e2]; exact h, by rw [e1],
    fun hh => by rw [e2] at hh; cases hh⟩

theorem step_rset (s : Sess) (rs : RSt) (h : Sim s rs) (verb arg : Bytes) (hL : lower verb = vRset) :
    StepOk s rs verb arg := by
  have e1 : exec s verb arg = ({ s with msgs := s.msgs.map (fun m => { m with del := false }), last := 0 }, okLine, none) := by
    simp [exec, verbIs, hL, vQuit, vStat, vList, vUidl, vDele, vRetr, vTop, vRset, vLast, vNoop]
  have e2 : refStep rs (lower verb) arg = ({ rs with marked := [] }, .ok) := by
    rw [hL]; simp [refStep, vRset]
  have hl := exec_lastInv s verb arg h.last
  rw [e1] at hl
  refine ⟨fun w => by rw [e1, e2]; exact match_ok w, ?_, by rw [e1], fun hh => by rw [e2] at hh; cases hh⟩
  rw [e1, e2]
  exact { rel := h.rel.unmark, modz := h.modz, last := hl, small := by simpa using h.small,
          inrange := by intro i hi; simp at hi, noLF := h.noLF, total := h.total, file := h.file }

theorem step_dele (s : Sess) (rs : RSt) (h : Sim s rs) (verb arg : Bytes) (hL : lower verb = vDele) :
    StepOk s rs verb arg := by
  have hv := valid_msgno s rs h arg
  cases hm : msgno s arg with
  | err e =>
    rw [hm] at hv
    obtain ⟨hval, t, he, ht⟩ := hv
    have e1 : exec s verb arg = (s, e, none) := by
      simp [exec, verbIs, hL, hm, vQuit, vStat, vList, vUidl, vDele, vRetr, vTop, vRset, vLast, vNoop]
    have e2 : refStep rs (lower verb) arg = (rs, .err) := by
      rw [hL]; simp [refStep, vDele, hval]
    exact ⟨fun w => by rw [e1, e2, he]; exact match_err t w ht, by rw [e1, e2]; exact h, by rw [e1],
      fun hh => by rw [e2] at hh; cases hh⟩
  | ok i =>
    rw [hm] at hv
    obtain ⟨hval, m, r, hmi, hri, hd, hp, hs⟩ := hv
    have e1 : exec s verb arg = ({ s with msgs := setDel s.msgs i, last := if i + 1 > s.last then i + 1 else s.last }, okLine, none) := by
      simp [exec, verbIs, hL, hm, vQuit, vStat, vList, vUidl, vDele, vRetr, vTop, vRset, vLast, vNoop]
    have e2 : refStep rs (lower verb) arg = ({ rs with marked := i :: rs.marked }, .ok) := by
      rw [hL]; simp [refStep, vDele, hval]
    have hl := exec_lastInv s verb arg h.last
    rw [e1] at hl
    have hi : i < s.msgs.length := by
      rcases Nat.lt_or_ge i s.msgs.length with hh | hh
      · exact hh
      · rw [List.getElem?_eq_none hh] at hmi; cases hmi
    refine ⟨fun w => by rw [e1, e2]; exact match_ok w, ?_, by rw [e1], fun hh => by rw [e2] at hh; cases hh⟩
    rw [e1, e2]
    have hrel := h.rel.setDel i hi
    simp only [Nat.zero_add] at hrel
    exact { rel := hrel, modz := h.modz, last := hl, small := by simpa [setDel_length] using h.small,
            inrange := by
              intro j hj
              simp only [setDel_length]
              rcases List.mem_cons.mp hj with e | e
              · rw [e]; exact hi
              · exact h.inrange j e,
            noLF := h.noLF, total := h.total, file := h.file }

theorem step_stat (s : Sess) (rs : RSt) (h : Sim s rs) (verb arg : Bytes) (hL : lower verb = vStat) :
    StepOk s rs verb arg := by
  have hlt : liveTotal s.msgs < U64 := by
    have := liveTotal_le rs.marked s.msgs 0 rs.msgs h.rel
    have := h.total
    omega
  have e1 : exec s verb arg = (s, okSp ++ fmtNat (s.msgs.length % U32) ++ [SP] ++ fmtNat (liveTotal s.msgs) ++ [CR, LF], none) := by
    simp only [exec, verbIs, hL, stat_total, Nat.mod_eq_of_lt hlt]
    simp [vQuit, vStat]
  have e2 : refStep rs (lower verb) arg = (rs, .okStat (liveTotal s.msgs)) := by
    have := stat_ref rs.marked s.msgs 0 rs.msgs 0 h.rel
    simp only [Nat.zero_add] at this
    rw [hL]; simp only [refStep, vStat]
    simp [← this]
  exact ⟨fun w => by rw [e1, e2]; exact match_okStat _ _ w, by rw [e1, e2]; exact h, by rw [e1],
    fun hh => by rw [e2] at hh; cases hh⟩

theorem step_last (s : Sess) (rs : RSt) (h : Sim s rs) (verb arg : Bytes) (hL : lower verb = vLast) :
    StepOk s rs verb arg := by
  have e1 : exec s verb arg = (s, okSp ++ fmtNat s.last ++ [CR, LF], none) := by
    simp [exec, verbIs, hL, vQuit, vStat, vList, vUidl, vDele, vRetr, vTop, vRset, vLast]
  have e2 : refStep rs (lower verb) arg = (rs, .okNum s.last) := by
    rw [hL]; simp only [refStep, vLast]
    simp [last_ref s rs h]
  exact ⟨fun w => by rw [e1, e2]; exact match_okNum _ w, by rw [e1, e2]; exact h, by rw [e1],
    fun hh => by rw [e2] at hh; cases hh⟩

end Nq.Lemmas.Pop3
