/-
  Lemmas about the composed SMTP connection `Nq.SmtpC07.run` (C08's command loop + C07's smtp_data):
  the event list is a `SmtpSession.trace`; every step is `sstep` applied in a state that satisfies C08's
  transaction invariant `Inv` with respect to the events before it; a step whose outcome halts is the last one.
-/
import Nq.SmtpC07
import Nq.Lemmas.SmtpSession
import Nq.Lemmas.C07Daemons

namespace Nq.SmtpC07
open Nq Nq.SmtpSession Nq.SmtpPolicy Nq.Lemmas.Smtp

/-! ### the event list is a command-level trace of C08's model -/

theorem runFuel_is_trace (cfg : Cfg) : ∀ (n : Nat) (s : Sess) (helo : Option Bytes) (w : Option Nat) (ends : List QmailC.QEnd)
    (pids : List Nat) (inp : Bytes),
    (runFuel cfg n s helo w ends pids inp).map (·.ev) =
      trace cfg.pol s ((runFuel cfg n s helo w ends pids inp).map (·.ev.1))
  | 0, _, _, _, _, _, _ => by simp [runFuel, trace]
  | n + 1, s, helo, w, ends, pids, inp => by
    unfold runFuel
    cases h : readLine inp with
    | none => simp [trace]
    | some lr =>
      obtain ⟨l, rest⟩ := lr
      simp only
      split
      · simp only [List.map_cons, trace]
        split
        · simp
        · congr 1
          exact runFuel_is_trace cfg n _ _ _ _ _ _
      · simp only [List.map_cons, trace]
        split
        · simp
        · congr 1
          exact runFuel_is_trace cfg n _ _ _ _ _ _

/-! ### what a step is -/

/-- the step `st` was taken in command-loop state `s` -/
def StepAt (cfg : Cfg) (P : QmailC.QEnd → Prop) (s : Sess) (st : Step) : Prop :=
  match st.txn with
  | none => ∃ v arg, ¬ (v = Verb.data ∧ dataGate s = true) ∧ st.ev = (plainCmd v arg, (sstep cfg.pol s (plainCmd v arg)).2)
  | some t => P t.e ∧ dataGate s = true ∧ t.mailfrom = s.mailfrom ∧ t.rcpts = s.rcptto ∧
      st.ev = (t.cmd cfg, (sstep cfg.pol s (t.cmd cfg)).2)

theorem P_nextEnds {P : QmailC.QEnd → Prop} {ends : List QmailC.QEnd} (h : ∀ e ∈ ends, P e) : ∀ e ∈ nextEnds ends, P e := by
  intro e he
  unfold nextEnds at he
  split at he
  · exact h e (List.mem_of_mem_tail he)
  · exact h e he

theorem P_headD {P : QmailC.QEnd → Prop} {ends : List QmailC.QEnd} (h0 : P {}) (h : ∀ e ∈ ends, P e) : P (ends.headD {}) := by
  cases ends with
  | nil => exact h0
  | cons e es => exact h e (by simp)

/-- every step of the connection is `sstep` in a state satisfying C08's invariant w.r.t. the events before it -/
theorem runFuel_split (cfg : Cfg) (P : QmailC.QEnd → Prop) (h0 : P {}) :
    ∀ (pre : List Step) (n : Nat) (s : Sess) (hist : List Ev) (helo : Option Bytes) (w : Option Nat) (ends : List QmailC.QEnd)
      (pids : List Nat) (inp : Bytes) (st : Step) (post : List Step),
      (∀ e ∈ ends, P e) → Inv cfg.pol hist s → runFuel cfg n s helo w ends pids inp = pre ++ st :: post →
      ∃ s', Inv cfg.pol (hist ++ pre.map (·.ev)) s' ∧ StepAt cfg P s' st
  | [], n, s, hist, helo, w, ends, pids, inp, st, post, hP, hi, hr => by
    cases n with
    | zero => simp [runFuel] at hr
    | succ n =>
      unfold runFuel at hr
      cases h : readLine inp with
      | none => simp [h] at hr
      | some lr =>
        obtain ⟨l, rest⟩ := lr
        simp only [h] at hr
        refine ⟨s, by simpa using hi, ?_⟩
        split at hr
        · rename_i hg
          simp only [List.nil_append, List.cons.injEq] at hr
          rw [← hr.1]
          exact ⟨P_headD h0 hP, hg.2, rfl, rfl, rfl⟩
        · rename_i hg
          simp only [List.nil_append, List.cons.injEq] at hr
          rw [← hr.1]
          exact ⟨_, _, hg, rfl⟩
  | p :: pre, n, s, hist, helo, w, ends, pids, inp, st, post, hP, hi, hr => by
    cases n with
    | zero => simp [runFuel] at hr
    | succ n =>
      unfold runFuel at hr
      cases h : readLine inp with
      | none => simp [h] at hr
      | some lr =>
        obtain ⟨l, rest⟩ := lr
        simp only [h] at hr
        split at hr
        · simp only [List.cons_append, List.cons.injEq] at hr
          obtain ⟨hp, hrest⟩ := hr
          split at hrest
          · exact absurd hrest (by simp)
          · have := runFuel_split cfg P h0 pre n _ (hist ++ [p.ev]) _ _ _ _ _ st post (P_nextEnds hP)
              (by rw [← hp]; exact inv_step cfg.pol hist s _ hi) hrest
            simpa [List.append_assoc] using this
        · simp only [List.cons_append, List.cons.injEq] at hr
          obtain ⟨hp, hrest⟩ := hr
          split at hrest
          · exact absurd hrest (by simp)
          · have := runFuel_split cfg P h0 pre n _ (hist ++ [p.ev]) _ _ _ _ _ st post hP
              (by rw [← hp]; exact inv_step cfg.pol hist s _ hi) hrest
            simpa [List.append_assoc] using this

/-- a step whose outcome ends the process is the last one -/
theorem runFuel_halt_last (cfg : Cfg) :
    ∀ (pre : List Step) (n : Nat) (s : Sess) (helo : Option Bytes) (w : Option Nat) (ends : List QmailC.QEnd)
      (pids : List Nat) (inp : Bytes) (st : Step) (post : List Step),
      runFuel cfg n s helo w ends pids inp = pre ++ st :: post → st.ev.2.halt = true → post = []
  | [], n, s, helo, w, ends, pids, inp, st, post, hr, hh => by
    cases n with
    | zero => simp [runFuel] at hr
    | succ n =>
      unfold runFuel at hr
      cases h : readLine inp with
      | none => simp [h] at hr
      | some lr =>
        obtain ⟨l, rest⟩ := lr
        simp only [h] at hr
        split at hr
        · simp only [List.nil_append, List.cons.injEq] at hr
          obtain ⟨hp, hrest⟩ := hr
          rw [← hp] at hh
          simp only at hh
          rw [if_pos hh] at hrest
          exact hrest.symm
        · simp only [List.nil_append, List.cons.injEq] at hr
          obtain ⟨hp, hrest⟩ := hr
          rw [← hp] at hh
          simp only at hh
          rw [if_pos hh] at hrest
          exact hrest.symm
  | p :: pre, n, s, helo, w, ends, pids, inp, st, post, hr, hh => by
    cases n with
    | zero => simp [runFuel] at hr
    | succ n =>
      unfold runFuel at hr
      cases h : readLine inp with
      | none => simp [h] at hr
      | some lr =>
        obtain ⟨l, rest⟩ := lr
        simp only [h] at hr
        split at hr
        · simp only [List.cons_append, List.cons.injEq] at hr
          obtain ⟨_, hrest⟩ := hr
          split at hrest
          · exact absurd hrest (by simp)
          · exact runFuel_halt_last cfg pre n _ _ _ _ _ _ st post hrest hh
        · simp only [List.cons_append, List.cons.injEq] at hr
          obtain ⟨_, hrest⟩ := hr
          split at hrest
          · exact absurd hrest (by simp)
          · exact runFuel_halt_last cfg pre n _ _ _ _ _ _ st post hrest hh

/-! ### one step -/

/-- a line that is not a DATA passing its gates hands nothing to the queue and is never answered with the acknowledgement -/
theorem plain_step (pol : SmtpSession.Cfg) (s : Sess) (v : Verb) (arg : Bytes) (h : ¬ (v = Verb.data ∧ dataGate s = true)) :
    (sstep pol s (plainCmd v arg)).2.submit = none ∧ Reply.accepted ∉ (sstep pol s (plainCmd v arg)).2.replies := by
  cases v with
  | data =>
    have hg : dataGate s = false := by simpa using h
    unfold dataGate at hg
    by_cases h1 : s.seenmail = true
    · have he : s.rcptto.isEmpty = true := by simpa [h1] using hg
      simp [plainCmd, sstep, h1, he]
    · simp [plainCmd, sstep, h1]
  | mail => cases ha : addrparse pol arg <;> simp [plainCmd, sstep, ha]
  | rcpt =>
    by_cases h1 : s.seenmail = true
    · cases ha : addrparse pol arg with
      | none => simp [plainCmd, sstep, h1, ha]
      | some a =>
        by_cases hb : s.flagbarf = true
        · simp [plainCmd, sstep, h1, ha, hb]
        · cases hr : pol.relay with
          | some rc => simp [plainCmd, sstep, h1, ha, hb, hr]
          | none => by_cases hm : rcpthostsMatch pol a = true <;> simp [plainCmd, sstep, h1, ha, hb, hr, hm]
    · simp [plainCmd, sstep, h1]
  | _ => simp [plainCmd, sstep]

/-- the DATA of a transaction whose message was terminated: `354`, then the reply chosen by `qmail_close`'s answer; the
    envelope handed over is the state's `mailfrom` / `rcptto`; the loop goes on -/
theorem txn_step_done (cfg : Cfg) (s : Sess) (t : Txn) (hg : dataGate s = true) (hs : (t.d cfg).stop = none) :
    (sstep cfg.pol s (t.cmd cfg)).2 =
      { replies := [.go, closeReply (t.qqx cfg)], submit := some ⟨s.mailfrom, s.rcptto, t.qqx cfg⟩, halt := false } := by
  unfold dataGate at hg
  have h1 : s.seenmail = true := by
    cases hh : s.seenmail <;> simp [hh] at hg ⊢
  have he : s.rcptto.isEmpty = false := by simpa [h1] using hg
  simp [Txn.cmd, Txn.blast, hs, sstep, h1, he]

/-- … and of one whose DATA was cut or broken: no submit, no acknowledgement, the process ends -/
theorem txn_step_stopped (cfg : Cfg) (s : Sess) (t : Txn) (hg : dataGate s = true) (hs : (t.d cfg).stop ≠ none) :
    (sstep cfg.pol s (t.cmd cfg)).2.submit = none ∧ (sstep cfg.pol s (t.cmd cfg)).2.halt = true ∧
    Reply.accepted ∉ (sstep cfg.pol s (t.cmd cfg)).2.replies := by
  unfold dataGate at hg
  have h1 : s.seenmail = true := by
    cases hh : s.seenmail <;> simp [hh] at hg ⊢
  have he : s.rcptto.isEmpty = false := by simpa [h1] using hg
  cases hst : (t.d cfg).stop with
  | none => exact absurd hst hs
  | some ex =>
    by_cases hy : (t.d cfg).stray = true
    · simp [Txn.cmd, Txn.blast, hst, hy, sstep, h1, he]
    · simp [Txn.cmd, Txn.blast, hst, hy, sstep, h1, he]

/-- with the gates open, C08's invariant names the open transaction -/
theorem inv_open (pol : SmtpSession.Cfg) (hist : List Ev) (s : Sess) (hi : Inv pol hist s) (hg : dataGate s = true) :
    ∃ mid, OpenTxn pol hist s.mailfrom mid ∧ s.rcptto = mid.filterMap (acceptedRcpt pol) ∧ s.rcptto ≠ [] := by
  unfold dataGate at hg
  have h1 : s.seenmail = true := by
    cases hh : s.seenmail <;> simp [hh] at hg ⊢
  have he : s.rcptto ≠ [] := by
    intro h; simp [h1, h] at hg
  unfold Lemmas.Smtp.Inv at hi
  cases ho : openTxnB pol hist with
  | none => simp [ho, h1] at hi
  | some sm =>
    obtain ⟨snd, mid⟩ := sm
    simp only [ho] at hi
    refine ⟨mid, ?_, hi.2.2.1, he⟩
    rw [hi.2.1]
    exact (openTxnB_iff pol hist snd mid).1 ho

section suffix
open Nq.Netstring Nq.SmtpIn

/-! ### the queue run works on bytes the client sent -/

theorem readLine_suffix : ∀ (inp l r : Bytes), readLine inp = some (l, r) → r <:+ inp
  | [], _, _, h => by simp [readLine] at h
  | c :: t, l, r, h => by
    unfold readLine at h
    by_cases hc : c = LF
    · simp [hc] at h
      rw [← h.2]
      exact List.suffix_cons _ _
    · simp only [if_neg hc] at h
      cases h2 : readLine t with
      | none => simp [h2] at h
      | some x =>
        obtain ⟨l', r'⟩ := x
        simp [h2] at h
        rw [← h.2]
        exact (readLine_suffix t l' r' h2).trans (List.suffix_cons _ _)

theorem blast_rest_suffix : ∀ (inp : Bytes) (s : DSt) (bto : Nat) (rest : Bytes),
    (Smtp.blast s bto inp).fin = .done rest → rest <:+ inp
  | [], _, _, _, h => by simp [Smtp.blast] at h
  | c :: inp, s, bto, rest, h => by
    unfold Smtp.blast at h
    split at h
    · rename_i bs hd
      exact (blast_rest_suffix inp _ _ rest (by simpa using h)).trans (List.suffix_cons _ _)
    · simp at h
      rw [← h]
      exact List.suffix_cons _ _
    · simp at h

theorem data_rest_suffix (cfg : Smtp.Cfg) (helo : Option Bytes) (mf rt inp : Bytes) :
    (Smtp.data cfg helo mf rt inp).rest <:+ inp := by
  unfold Smtp.data
  simp only
  split
  · exact List.nil_suffix
  · exact List.nil_suffix
  · rename_i rest hfin
    exact blast_rest_suffix _ _ _ _ hfin

theorem runFuel_stream_suffix (cfg : Cfg) : ∀ (n : Nat) (s : Sess) (helo : Option Bytes) (w : Option Nat) (ends : List QmailC.QEnd)
    (pids : List Nat) (inp : Bytes), ∀ st ∈ runFuel cfg n s helo w ends pids inp, ∀ t, st.txn = some t → t.stream <:+ inp
  | 0, _, _, _, _, _, _, st, hst, _, _ => by simp [runFuel] at hst
  | n + 1, s, helo, w, ends, pids, inp, st, hst, t, ht => by
    unfold runFuel at hst
    cases h : readLine inp with
    | none => simp [h] at hst
    | some lr =>
      obtain ⟨l, rest⟩ := lr
      have hsuf := readLine_suffix inp l rest h
      simp only [h] at hst
      split at hst
      · rcases List.mem_cons.mp hst with hst | hst
        · subst hst
          simp only [Option.some.injEq] at ht
          rw [← ht]
          exact hsuf
        · split at hst
          · simp at hst
          · have := runFuel_stream_suffix cfg n _ _ _ _ _ _ st hst t ht
            exact (this.trans (data_rest_suffix _ _ _ _ _)).trans hsuf
      · rcases List.mem_cons.mp hst with hst | hst
        · subst hst
          simp at ht
        · split at hst
          · simp at hst
          · exact (runFuel_stream_suffix cfg n _ _ _ _ _ _ st hst t ht).trans hsuf

/-- the decoder of C05 accepts exactly when `blast()` returns -/
theorem drun_blast : ∀ (inp : Bytes) (s : DSt) (bto : Nat) (b rest : Bytes),
    drun s inp = .accepted b rest → (Smtp.blast s bto inp).fin = .done rest
  | [], _, _, _, _, h => by simp [drun] at h
  | c :: inp, s, bto, b, rest, h => by
    unfold drun at h
    unfold Smtp.blast
    split
    · rename_i bs hd
      simp only [hd] at h
      cases h2 : drun (dstep s c).1 inp with
      | accepted b' r' =>
        rw [h2] at h
        simp [emit] at h
        have := drun_blast inp (dstep s c).1 (Smtp.decN bto bs.length) b' r' h2
        simp [this, h.2]
      | stray => rw [h2] at h; simp [emit] at h
      | incomplete => rw [h2] at h; simp [emit] at h
    · rename_i hd
      simp only [hd] at h
      simp at h
      simp [h.2]
    · rename_i hd
      simp only [hd] at h
      simp at h

theorem data_stop_iff (cfg : Smtp.Cfg) (helo : Option Bytes) (mf rt inp : Bytes) :
    (Smtp.data cfg helo mf rt inp).stop = none ↔ ∃ b r, dblast inp = .accepted b r := by
  constructor
  · intro h
    obtain ⟨_, _, _, _, h5⟩ := Smtp.data_shape cfg helo mf rt inp h
    exact ⟨_, _, h5⟩
  · rintro ⟨b, r, h⟩
    exact (Smtp.data_fin cfg helo mf rt inp).1.mpr ⟨r, drun_blast inp .s1 _ b r h⟩

end suffix

end Nq.SmtpC07
