/-
  Lemmas for C10, part 3: `senderadd` against the documented VERP rule.
-/
import Nq.Lemmas.RewriteSpec

namespace Nq.Lemmas.RewriteVerp
open Nq Nq.Rewrite Nq.Route Nq.Lemmas.RewriteSpec

theorem senderadd_eq_verpSpec (s r : Bytes) : senderadd s r = verpSpec s r := by
  unfold senderadd verpSpec
  by_cases hsuf : s.length ≥ 4 ∧ s.drop (s.length - 4) = VERPSUFFIX
  · simp only [hsuf, and_self, if_true]
    have hbl : (s.take (s.length - 4)).length = s.length - 4 := by rw [List.length_take]; omega
    rw [splitLast_eq_rchr AT (s.take (s.length - 4)), splitLast_eq_rchr AT r, hbl]
    by_cases hk : rchr AT r < r.length
    · by_cases hj : rchr AT (s.take (s.length - 4)) < s.length - 4
      · have hc : rchr AT r < r.length ∧ rchr AT (s.take (s.length - 4)) + 5 ≤ s.length := ⟨hk, by omega⟩
        simp only [hc, hk, hj, and_self, if_true]
        have h1 : (s.take (s.length - 4)).take (rchr AT (s.take (s.length - 4))) =
            s.take (rchr AT (s.take (s.length - 4))) := by
          rw [List.take_take]; congr 1; omega
        have h2 : (s.take (s.length - 4)).drop (rchr AT (s.take (s.length - 4)) + 1) =
            (s.drop (rchr AT (s.take (s.length - 4)) + 1)).take (s.length - 5 - rchr AT (s.take (s.length - 4))) := by
          rw [List.drop_take]; congr 1; omega
        rw [h1, h2]
      · have hc : ¬ (rchr AT r < r.length ∧ rchr AT (s.take (s.length - 4)) + 5 ≤ s.length) := by
          intro h; omega
        simp only [hc, hj, if_false]
    · have hc : ¬ (rchr AT r < r.length ∧ rchr AT (s.take (s.length - 4)) + 5 ≤ s.length) := by
        intro h; exact hk h.1
      rw [if_neg hc, if_neg hk]
      split
      · rename_i h1 h2; simp at h2
      · rfl
  · simp only [hsuf, if_false]

/-- the documented form: `pre@host-@[]` with recipient `box@dom` -/
theorem verpSpec_expand (pre host box dom : Bytes) (hh : AT ∉ host) (hd : AT ∉ dom) :
    verpSpec (pre ++ AT :: host ++ VERPSUFFIX) (box ++ AT :: dom) = pre ++ box ++ EQS :: dom ++ AT :: host := by
  unfold verpSpec
  have hlen : (pre ++ AT :: host ++ VERPSUFFIX).length - 4 = (pre ++ AT :: host).length := by
    simp [VERPSUFFIX]; omega
  have hc : (pre ++ AT :: host ++ VERPSUFFIX).length ≥ 4 ∧
      (pre ++ AT :: host ++ VERPSUFFIX).drop ((pre ++ AT :: host ++ VERPSUFFIX).length - 4) = VERPSUFFIX := by
    rw [hlen]
    constructor
    · simp [VERPSUFFIX]; omega
    · rw [List.drop_append]; simp
  rw [if_pos hc, hlen, List.take_append]
  simp only [Nat.sub_self, List.take_zero, List.append_nil, List.take_length]
  rw [splitLast_append AT pre host hh, splitLast_append AT box dom hd]

/-- no `-@[]` suffix: the sender is used as it is -/
theorem verpSpec_plain (s r : Bytes) (h : ¬ (s.length ≥ 4 ∧ s.drop (s.length - 4) = VERPSUFFIX)) : verpSpec s r = s := by
  unfold verpSpec; rw [if_neg h]

/-- recipient without '@' (cannot happen after `rewrite()`): the sender is used as it is -/
theorem verpSpec_noat (s r : Bytes) (h : AT ∉ r) : verpSpec s r = s := by
  unfold verpSpec
  split
  · rw [splitLast_none_of_not_mem h]
    split
    · rename_i heq; simp at heq
    · rfl
  · rfl

/-- `-@[]` suffix but no '@' before it: the sender is used as it is -/
theorem verpSpec_nohost (b r : Bytes) (h : AT ∉ b) : verpSpec (b ++ VERPSUFFIX) r = b ++ VERPSUFFIX := by
  unfold verpSpec
  split
  · have hlen : (b ++ VERPSUFFIX).length - 4 = b.length := by simp [VERPSUFFIX]
    rw [hlen, List.take_append]
    simp only [Nat.sub_self, List.take_zero, List.append_nil, List.take_length]
    rw [splitLast_none_of_not_mem h]
  · rfl

end Nq.Lemmas.RewriteVerp
