/-
  C17 lemmas: `token822_addrlist` with qmail-inject's rewriting callback keeps a token list CLEAN (every atom a
  legal non-empty atom), so that `token822_unparse` → `token822_parse` gives the tokens back — provided no atom
  of the field is the single byte `+` (from which `rwplus` makes an EMPTY atom).
-/
import Nq.Lemmas.C17Rewrite
namespace Nq.Lemmas.C17
open Nq Nq.Token822 Nq.Inject Nq.Spec.Addr Nq.Spec.Lex822

/-- a token that stays clean under qmail-inject's rewriting: clean, and not the atom `+` alone (from which
`rwplus` would make an EMPTY atom) -/
def goodTok (t : Tok) : Bool := cleanTok t && t != Tok.atom [43]

theorem goodTok_clean {t : Tok} (h : goodTok t = true) : cleanTok t = true := by
  simp only [goodTok, Bool.and_eq_true] at h; exact h.1

theorem all_good_clean {l : List Tok} (h : l.all goodTok = true) : l.all cleanTok = true := by
  rw [List.all_eq_true] at h ⊢
  intro t ht; exact goodTok_clean (h t ht)

structure CleanSt (a : ASt) : Prop where
  out : a.out.all cleanTok = true
  addr : a.addr.all goodTok = true

theorem gotaddr_clean (cb : List Tok → List Tok) (hcb : ∀ x, x.all goodTok = true → (cb x).all cleanTok = true)
    (a : ASt) (h : CleanSt a) : CleanSt (gotaddr cb a) := by
  obtain ⟨h1, h2⟩ := h
  constructor
  · simp [gotaddr, List.all_append, h1, List.all_reverse, hcb a.addr h2]
  · simp [gotaddr]

theorem flush_clean (cb : List Tok → List Tok) (hcb : ∀ x, x.all goodTok = true → (cb x).all cleanTok = true)
    (a : ASt) (h : CleanSt a) : CleanSt (flush cb a) := by
  unfold flush; split
  · exact h
  · exact gotaddr_clean cb hcb a h

theorem flushComma_clean (cb : List Tok → List Tok) (hcb : ∀ x, x.all goodTok = true → (cb x).all cleanTok = true)
    (a : ASt) (h : CleanSt a) : CleanSt (flushComma cb a) := by
  unfold flushComma; split
  · exact h
  · obtain ⟨h1, h2⟩ := gotaddr_clean cb hcb a h
    exact ⟨by simp [h1, cleanTok], by simpa using h2⟩

theorem outLeft_clean (t : Tok) (a : ASt) (h : CleanSt a) (ht : cleanTok t = true) : CleanSt (outLeft t a) :=
  ⟨by simp [outLeft, ht, h.out], by simpa [outLeft] using h.addr⟩

theorem addrLeft_clean (t : Tok) (a : ASt) (h : CleanSt a) (ht : goodTok t = true) : CleanSt (addrLeft t a) :=
  ⟨by simpa [addrLeft] using h.out, by simp [addrLeft, List.all_append, ht, h.addr]⟩

theorem CleanSt.upd {a b : ASt} (h : CleanSt a) (ho : b.out = a.out) (ha : b.addr = a.addr) : CleanSt b :=
  ⟨by rw [ho]; exact h.out, by rw [ha]; exact h.addr⟩

theorem astepNormal_clean (cb : List Tok → List Tok) (hcb : ∀ x, x.all goodTok = true → (cb x).all cleanTok = true)
    (a : ASt) (t : Tok) (h : CleanSt a) (ht : goodTok t = true) : CleanSt (astepNormal cb a t) := by
  have htc := goodTok_clean ht
  have hfc := flushComma_clean cb hcb a h
  have hf := flush_clean cb hcb a h
  unfold astepNormal
  cases t with
  | semi =>
    simp only []
    split
    · exact hfc.upd rfl rfl
    · exact outLeft_clean _ _ (hfc.upd rfl rfl) htc
  | colon =>
    simp only []
    split
    · exact hf.upd rfl rfl
    · exact outLeft_clean _ _ (hf.upd rfl rfl) htc
  | right => exact outLeft_clean _ _ (hfc.upd rfl rfl) htc
  | atom s =>
    simp only []
    refine addrLeft_clean _ _ (CleanSt.upd (a := if !a.wordok then flushComma cb a else a) ?_ rfl rfl) ht
    split
    · exact hfc
    · exact h
  | quote s =>
    simp only []
    refine addrLeft_clean _ _ (CleanSt.upd (a := if !a.wordok then flushComma cb a else a) ?_ rfl rfl) ht
    split
    · exact hfc
    · exact h
  | literal s =>
    simp only []
    refine addrLeft_clean _ _ (CleanSt.upd (a := if !a.wordok then flushComma cb a else a) ?_ rfl rfl) ht
    split
    · exact hfc
    · exact h
  | comment s => exact outLeft_clean _ _ h htc
  | comma => exact outLeft_clean _ _ (hf.upd rfl rfl) htc
  | left => exact addrLeft_clean _ _ (h.upd rfl rfl) ht
  | «at» => exact addrLeft_clean _ _ (h.upd rfl rfl) ht
  | dot => exact addrLeft_clean _ _ (h.upd rfl rfl) ht

theorem astep_clean (cb : List Tok → List Tok) (hcb : ∀ x, x.all goodTok = true → (cb x).all cleanTok = true)
    (a : ASt) (t : Tok) (h : CleanSt a) (ht : goodTok t = true) : CleanSt (astep cb a t) := by
  have htc := goodTok_clean ht
  unfold astep
  split
  · exact h
  · split
    · exact astepNormal_clean cb hcb a t h ht
    · split
      · exact outLeft_clean _ _ (h.upd rfl rfl) htc
      · exact outLeft_clean _ _ h htc
    · split
      · exact outLeft_clean _ _ ((gotaddr_clean cb hcb a h).upd rfl rfl) htc
      · split
        · exact outLeft_clean _ _ h htc
        · exact addrLeft_clean _ _ h ht
    · split
      · exact outLeft_clean _ _ h htc
      · exact astepNormal_clean cb hcb _ t (h.upd rfl rfl) ht

theorem afinish_clean (cb : List Tok → List Tok) (hcb : ∀ x, x.all goodTok = true → (cb x).all cleanTok = true)
    (a : ASt) (h : CleanSt a) : CleanSt (afinish cb a) := by
  unfold afinish
  split
  · exact h
  · split
    · exact (gotaddr_clean cb hcb a h).upd rfl rfl
    · exact flush_clean cb hcb a h

theorem foldl_clean (cb : List Tok → List Tok) (hcb : ∀ x, x.all goodTok = true → (cb x).all cleanTok = true)
    (ts : List Tok) : ∀ (a : ASt), CleanSt a → ts.all goodTok = true → CleanSt (ts.foldl (astep cb) a) := by
  induction ts with
  | nil => intro a h _; exact h
  | cons t ts ih =>
    intro a h hts
    simp only [List.all_cons, Bool.and_eq_true] at hts
    exact ih _ (astep_clean cb hcb a t h hts.1) hts.2

/-- **`token822_addrlist` keeps token lists clean**: if the field's tokens are good and the callback turns
good addresses into clean ones, `taout` is clean -/
theorem addrlist_clean (cb : List Tok → List Tok) (hcb : ∀ x, x.all goodTok = true → (cb x).all cleanTok = true)
    (ts : List Tok) (hts : ts.all goodTok = true) : (addrlist cb ts).out.all cleanTok = true := by
  have h1 : (ts.take 2).all cleanTok = true := by
    apply all_good_clean
    rw [List.all_eq_true] at hts ⊢
    intro t ht; exact hts t (List.mem_of_mem_take ht)
  have h2 : (ts.drop 2).reverse.all goodTok = true := by
    rw [List.all_eq_true] at hts ⊢
    intro t ht; exact hts t (List.mem_of_mem_drop (by simpa using ht))
  have := afinish_clean cb hcb _ (foldl_clean cb hcb _ {} ⟨rfl, rfl⟩ h2)
  unfold addrlist
  simp only [List.all_append, Bool.and_eq_true]
  exact ⟨h1, this.out⟩

/-! ### `rwgeneric` keeps addresses clean -/

structure CleanCfg (c : RwCfg) : Prop where
  dh : c.defaulthost.all goodTok = true
  dd : c.defaultdomain.all cleanTok = true
  pd : c.plusdomain.all cleanTok = true

theorem dropThroughColon_all (p : Tok → Bool) (l : List Tok) (h : l.all p = true) : (dropThroughColon l).all p = true := by
  induction l with
  | nil => simp [dropThroughColon]
  | cons t r ih =>
    simp only [List.all_cons, Bool.and_eq_true] at h
    unfold dropThroughColon
    split
    · exact h.2
    · exact ih h.2

theorem rwroute_good (a : List Tok) (h : a.all goodTok = true) : (rwroute a).all goodTok = true := by
  unfold rwroute
  split
  · rw [List.all_reverse]
    exact dropThroughColon_all _ _ (by rw [List.all_reverse]; exact h)
  · exact h

theorem rwextradot_good (a : List Tok) (h : a.all goodTok = true) : (rwextradot a).all goodTok = true := by
  unfold rwextradot
  split
  · simp only [List.all_cons, Bool.and_eq_true] at h; exact h.2
  · exact h

theorem rwextraat_good (a : List Tok) (h : a.all goodTok = true) : (rwextraat a).all goodTok = true := by
  unfold rwextraat
  split
  · simp only [List.all_cons, Bool.and_eq_true] at h; exact h.2
  · exact h

theorem rwnoat_good (c : RwCfg) (hc : CleanCfg c) (a : List Tok) (h : a.all goodTok = true) : (rwnoat c a).all goodTok = true := by
  unfold rwnoat
  split
  · exact h
  · simp [List.all_append, List.all_reverse, hc.dh, h]

theorem dropLast_atom_clean (s : Bytes) (h : goodTok (.atom s) = true) (hp : s.getLast? = some 43) :
    cleanTok (.atom s.dropLast) = true := by
  simp only [goodTok, cleanTok, Bool.and_eq_true, Bool.not_eq_true', List.isEmpty_eq_false_iff, bne_iff_ne, ne_eq,
    Tok.atom.injEq] at h
  obtain ⟨⟨hne, hall⟩, hnp⟩ := h
  have hs : s = s.dropLast ++ [43] := by
    have h2 := List.dropLast_concat_getLast hne
    rw [List.getLast?_eq_some_getLast hne] at hp
    simp only [Option.some.injEq] at hp
    rw [hp] at h2
    exact h2.symm
  have hd : s.dropLast ≠ [] := by
    intro e; rw [e] at hs; exact hnp (by simpa using hs)
  simp only [cleanTok, Bool.and_eq_true, Bool.not_eq_true', List.isEmpty_eq_false_iff]
  refine ⟨hd, ?_⟩
  rw [List.all_eq_true] at hall ⊢
  intro x hx
  exact hall x ((List.dropLast_sublist s).subset hx)

theorem rwplus_clean (c : RwCfg) (hc : CleanCfg c) (a : List Tok) (h : a.all goodTok = true) : (rwplus c a).all cleanTok = true := by
  unfold rwplus
  split
  · rename_i s r
    simp only [List.all_cons, Bool.and_eq_true] at h
    split
    · rename_i hp
      simp [List.all_append, List.all_reverse, hc.pd, dropLast_atom_clean s h.1 hp, all_good_clean h.2]
    · simp [goodTok_clean h.1, all_good_clean h.2]
  · exact all_good_clean h

theorem rwnodot_clean (c : RwCfg) (hc : CleanCfg c) (a : List Tok) (h : a.all cleanTok = true) : (rwnodot c a).all cleanTok = true := by
  unfold rwnodot
  split
  · exact h
  · split
    · exact h
    · simp [List.all_append, List.all_reverse, hc.dd, h]

/-- **`rwgeneric` on a good address gives a clean address** -/
theorem rwgeneric_clean (c : RwCfg) (hc : CleanCfg c) (a : List Tok) (h : a.all goodTok = true) :
    (rwgeneric c a).all cleanTok = true := by
  have h1 := rwroute_good a h
  have h2 := rwextradot_good _ h1
  have h3 := rwextraat_good _ h2
  have h4 := rwnoat_good c hc _ h3
  have h5 := rwnodot_clean c hc _ (rwplus_clean c hc _ h4)
  unfold rwgeneric
  split
  · rfl
  · exact all_good_clean h
  · simp only []
    split
    · exact all_good_clean h1
    · split
      · exact all_good_clean h2
      · split
        · exact all_good_clean h3
        · exact h5

end Nq.Lemmas.C17
