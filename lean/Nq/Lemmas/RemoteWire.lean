/-
  Helper lemmas for C09: the bytes the server receives (`Res.wire`) are, apart from a final QUIT, a
  prefix of HELO, MAIL, the RCPT commands in argument order, DATA and the encoded message.
-/
import Nq.Lemmas.RemoteEndToEnd

namespace Nq.Lemmas.RemoteSmtp
open Nq Nq.SmtpOut Nq.RemoteSmtp Nq.RspawnReport Nq.Spec.RemoteVerdict

/-! ### the commands the server receives -/

/-- `w` (before a possible final QUIT, `q`) is a prefix of the full command sequence `F`; each recipient
report was preceded by its RCPT command; `K` only with everything sent, QUIT included unless the QUIT
write is the one that fails -/
def WireOK (a : Args) (wf : Option WPoint) (F : Bytes) (r : Res) : Prop :=
  ∃ w q, r.wire = w ++ (if q = true then quitCmd else []) ∧ w <+: F ∧
    (r.rcpt = [] ∨ cmdsUpTo a r.rcpt.length <+: w) ∧ (headB r.msg = cK → (q = true ∨ wf = some .quit) ∧ w = F)

theorem wire_lost (a : Args) {wf : Option WPoint} (F : Bytes) (rs : List Bytes) (w : Bytes) (c wo : Bool) (h1 : w <+: F)
    (h2 : rs = [] ∨ cmdsUpTo a rs.length <+: w) : WireOK a wf F (lost a rs w c wo) :=
  ⟨w, false, by simp [lost], h1, h2, by
    intro hk; simp only [lost, headB_dropped] at hk; exact absurd hk (by decide)⟩

theorem wire_msg (a : Args) {wf : Option WPoint} (F : Bytes) (rs : List Bytes) (m w : Bytes) (wo : Bool) (h1 : w <+: F)
    (h2 : rs = [] ∨ cmdsUpTo a rs.length <+: w) (hm : headB m ≠ cK) :
    WireOK a wf F { rcpt := rs, msg := m, wire := w, wireOpen := wo } :=
  ⟨w, false, by simp, h1, h2, fun hk => absurd hk hm⟩

theorem wire_quit (a : Args) (F : Bytes) (wf : Option WPoint) (rs : List Bytes) (w pre app txt : Bytes) (h1 : w <+: F)
    (h2 : rs = [] ∨ cmdsUpTo a rs.length <+: w) (hne : pre ≠ []) (hK : headB pre = cK → w = F) :
    WireOK a wf F (quitWith a wf rs w pre app txt) := by
  unfold quitWith
  have hK' : headB (pre ++ a.host ++ app ++ lit ".\n" ++ said txt) = cK → w = F := by
    intro hk
    simp only [List.append_assoc] at hk
    rw [headB_append _ _ hne] at hk
    exact hK hk
  by_cases h : wf = some .quit
  · exact ⟨w, false, by simp [h], h1, h2, fun hk => ⟨Or.inr h, hK' hk⟩⟩
  · exact ⟨w, true, by simp [h, quitCmd], h1, h2, fun hk => ⟨Or.inl rfl, hK' hk⟩⟩

theorem cmdsUpTo_succ (a : Args) (done more : List Bytes) (r : Bytes) (h : a.rcpts = done ++ r :: more) :
    cmdsUpTo a (done.length + 1) = cmdsUpTo a done.length ++ (lit "RCPT TO:<" ++ r ++ lit ">\r\n") := by
  unfold cmdsUpTo
  have t1 : a.rcpts.take (done.length + 1) = done ++ [r] := by
    rw [h]; simp [List.take_append, List.take_of_length_le]
  have t0 : a.rcpts.take done.length = done := by rw [h]; simp
  rw [t1, t0]; simp [List.flatMap_append]

theorem cmdsUpTo_all (a : Args) : cmdsUpTo a a.rcpts.length ++ lit "DATA\r\n" = fullCmds a := by
  unfold cmdsUpTo fullCmds; simp

theorem cmdsUpTo_prefix_full (a : Args) (enc : Bytes) (j : Nat) : cmdsUpTo a j <+: fullCmds a ++ enc := by
  unfold cmdsUpTo fullCmds
  have : a.rcpts = a.rcpts.take j ++ a.rcpts.drop j := (List.take_append_drop j a.rcpts).symm
  conv => rhs; rw [this]
  simp only [List.flatMap_append, List.append_assoc]
  repeat apply (List.prefix_append_right_inj _).mpr
  exact List.prefix_append _ _

theorem data_wire (a : Args) (wf : Option WPoint) (enc : Bytes) (henc : ∀ e, rblast a.msg = some e → e = enc)
    (rs : List Bytes) (w : Bytes) (bother : Bool) (txt : Bytes) (fs : List Bytes)
    (hw : w = cmdsUpTo a a.rcpts.length) (hr : rs = [] ∨ cmdsUpTo a rs.length <+: w) :
    WireOK a wf (fullCmds a ++ enc) (dataPhase a wf rs w bother txt fs) := by
  have hw1 : w ++ lit "DATA\r\n" = fullCmds a := by rw [hw]; exact cmdsUpTo_all a
  have p0 : w <+: fullCmds a ++ enc := by rw [hw]; exact cmdsUpTo_prefix_full a enc _
  have q1 : w ++ lit "DATA\r\n" <+: fullCmds a ++ enc := by rw [hw1]; exact List.prefix_append _ _
  have r1 : rs = [] ∨ cmdsUpTo a rs.length <+: w ++ lit "DATA\r\n" :=
    hr.imp id (fun h => h.trans (List.prefix_append _ _))
  have e2 : w ++ lit "DATA\r\n" ++ enc = fullCmds a ++ enc := by rw [hw1]
  have r2 : rs = [] ∨ cmdsUpTo a rs.length <+: w ++ lit "DATA\r\n" ++ enc :=
    r1.imp id (fun h => h.trans (List.prefix_append _ _))
  have nk : ∀ {x : Bytes} {y : Prop}, x ≠ [] → headB x ≠ cK → (headB x = cK → y) := fun _ h1 h2 => absurd h2 h1
  unfold dataPhase
  by_cases hb : bother = false
  · simp only [hb, if_true]
    exact wire_quit a _ wf rs w _ _ _ p0 hr (by decide) (fun h => absurd h (by decide))
  · simp only [hb, if_false]
    by_cases hwd : wf = some .data
    · simp only [hwd, if_true]; exact wire_lost a _ rs w _ _ p0 hr
    · simp only [hwd, if_false]
      cases fs with
      | nil => exact wire_lost a _ rs _ _ _ q1 r1
      | cons d fs =>
        simp only
        by_cases h5 : codeNat d ≥ 500
        · simp only [h5, if_true]
          exact wire_quit a _ wf rs _ _ _ _ q1 r1 (by decide) (fun h => absurd h (by decide))
        · simp only [h5, if_false]
          by_cases h4 : codeNat d ≥ 400
          · simp only [h4, if_true]
            exact wire_quit a _ wf rs _ _ _ _ q1 r1 (by decide) (fun h => absurd h (by decide))
          · simp only [h4, if_false]
            by_cases hwb : wf = some .body
            · simp only [hwb, if_true]; exact wire_lost a _ rs _ _ _ q1 r1
            · simp only [hwb, if_false]
              by_cases hme : a.msgErr = true
              · simp only [hme, if_true]; exact wire_msg a _ rs _ _ _ q1 r1 (by decide)
              · simp only [hme, if_false]
                cases hbl : rblast a.msg with
                | none => exact wire_msg a _ rs _ _ _ q1 r1 (by decide)
                | some enc' =>
                  have he : enc' = enc := henc enc' hbl
                  subst he
                  simp only
                  by_cases hwf : wf = some .final
                  · simp only [hwf, if_true]; exact wire_lost a _ rs _ _ _ q1 r1
                  · simp only [hwf, if_false]
                    cases fs with
                    | nil => exact wire_lost a _ rs _ _ _ (by rw [e2]; exact List.prefix_refl _) r2
                    | cons f fs =>
                      simp only
                      by_cases g5 : codeNat f ≥ 500
                      · simp only [g5, if_true]
                        exact wire_quit a _ wf rs _ _ _ _ (by rw [e2]; exact List.prefix_refl _) r2 (by decide) (fun h => absurd h (by decide))
                      · simp only [g5, if_false]
                        by_cases g4 : codeNat f ≥ 400
                        · simp only [g4, if_true]
                          exact wire_quit a _ wf rs _ _ _ _ (by rw [e2]; exact List.prefix_refl _) r2 (by decide) (fun h => absurd h (by decide))
                        · simp only [g4, if_false]
                          exact wire_quit a _ wf rs _ _ _ _ (by rw [e2]; exact List.prefix_refl _) r2 (by decide) (fun _ => e2)

theorem rcpt_wire (a : Args) (wf : Option WPoint) (enc : Bytes) (henc : ∀ e, rblast a.msg = some e → e = enc)
    (more : List Bytes) :
    ∀ (done : List Bytes) (rs : List Bytes) (w : Bytes) (bother : Bool) (txt : Bytes) (fs : List Bytes),
    a.rcpts = done ++ more → rs.length = done.length → w = cmdsUpTo a done.length →
    WireOK a wf (fullCmds a ++ enc) (rcptLoop a wf done.length more rs w bother txt fs) := by
  induction more with
  | nil =>
    intro done rs w bother txt fs hsplit hlen hw
    simp only [rcptLoop]
    have hd : done.length = a.rcpts.length := by rw [hsplit]; simp
    exact data_wire a wf enc henc rs w bother txt fs (by rw [hw, hd]) (Or.inr (by rw [hlen, hw]; exact List.prefix_refl _))
  | cons r more ih =>
    intro done rs w bother txt fs hsplit hlen hw
    simp only [rcptLoop]
    have p0 : w <+: fullCmds a ++ enc := by rw [hw]; exact cmdsUpTo_prefix_full a enc _
    have hr : rs = [] ∨ cmdsUpTo a rs.length <+: w := Or.inr (by rw [hlen, hw]; exact List.prefix_refl _)
    have hw1 : w ++ (lit "RCPT TO:<" ++ r ++ lit ">\r\n") = cmdsUpTo a (done.length + 1) := by
      rw [hw]; exact (cmdsUpTo_succ a done more r hsplit).symm
    have q1 : w ++ (lit "RCPT TO:<" ++ r ++ lit ">\r\n") <+: fullCmds a ++ enc := by
      rw [hw1]; exact cmdsUpTo_prefix_full a enc _
    have r1 : rs = [] ∨ cmdsUpTo a rs.length <+: w ++ (lit "RCPT TO:<" ++ r ++ lit ">\r\n") :=
      hr.imp id (fun h => h.trans (List.prefix_append _ _))
    have hsplit' : a.rcpts = (done ++ [r]) ++ more := by rw [hsplit]; simp
    have hdl : (done ++ [r]).length = done.length + 1 := by simp
    by_cases hwr : wf = some (.rcpt done.length)
    · simp only [hwr, if_true]; exact wire_lost a _ rs w _ _ p0 hr
    · simp only [hwr, if_false]
      cases fs with
      | nil => exact wire_lost a _ rs _ _ _ q1 r1
      | cons p fs =>
        simp only
        by_cases h5 : codeNat p ≥ 500
        · simp only [h5, if_true]
          have := ih (done ++ [r]) (rs ++ [[104] ++ a.host ++ notLike ++ said (textOf p)]) (w ++ (lit "RCPT TO:<" ++ r ++ lit ">\r\n")) bother [] fs hsplit' (by simp [hlen]) (by rw [hdl]; exact hw1)
          rw [hdl] at this; exact this
        · simp only [h5, if_false]
          by_cases h4 : codeNat p ≥ 400
          · simp only [h4, if_true]
            have := ih (done ++ [r]) (rs ++ [[115] ++ a.host ++ notLike ++ said (textOf p)]) (w ++ (lit "RCPT TO:<" ++ r ++ lit ">\r\n")) bother [] fs hsplit' (by simp [hlen]) (by rw [hdl]; exact hw1)
            rw [hdl] at this; exact this
          · simp only [h4, if_false]
            have := ih (done ++ [r]) (rs ++ [[114]]) (w ++ (lit "RCPT TO:<" ++ r ++ lit ">\r\n")) true (textOf p) fs hsplit' (by simp [hlen]) (by rw [hdl]; exact hw1)
            rw [hdl] at this; exact this

theorem run_wire (a : Args) (wf : Option WPoint) (enc : Bytes) (henc : ∀ e, rblast a.msg = some e → e = enc)
    (fs : List Bytes) : WireOK a wf (fullCmds a ++ enc) (run a wf fs) := by
  have w0 : ([] : Bytes) <+: fullCmds a ++ enc := List.nil_prefix
  have hc0 : cmdsUpTo a 0 = lit "HELO " ++ a.helo ++ lit "\r\n" ++ (lit "MAIL FROM:<" ++ a.sender ++ lit ">\r\n") := by
    simp [cmdsUpTo]
  have w2 : lit "HELO " ++ a.helo ++ lit "\r\n" ++ (lit "MAIL FROM:<" ++ a.sender ++ lit ">\r\n") <+: fullCmds a ++ enc := by
    rw [← hc0]; exact cmdsUpTo_prefix_full a enc 0
  have w1 : lit "HELO " ++ a.helo ++ lit "\r\n" <+: fullCmds a ++ enc := (List.prefix_append _ _).trans w2
  unfold run
  cases fs with
  | nil => exact wire_lost a _ [] _ _ _ w0 (Or.inl rfl)
  | cons g fs =>
    simp only
    by_cases hg : codeNat g ≠ 220
    · simp only [hg, if_true, ne_eq, not_false_eq_true]
      exact wire_quit a _ wf [] _ _ _ _ w0 (Or.inl rfl) (by decide) (fun h => absurd h (by decide))
    · simp only [hg, if_false, ne_eq]
      by_cases hw : wf = some .helo
      · simp only [hw, if_true]; exact wire_lost a _ [] _ _ _ w0 (Or.inl rfl)
      · simp only [hw, if_false]
        cases fs with
        | nil => exact wire_lost a _ [] _ _ _ w1 (Or.inl rfl)
        | cons h fs =>
          simp only
          by_cases hh2 : codeNat h ≠ 250
          · simp only [hh2, if_true, ne_eq, not_false_eq_true]
            exact wire_quit a _ wf [] _ _ _ _ w1 (Or.inl rfl) (by decide) (fun h => absurd h (by decide))
          · simp only [hh2, if_false, ne_eq]
            by_cases hwm : wf = some .mail
            · simp only [hwm, if_true]; exact wire_lost a _ [] _ _ _ w1 (Or.inl rfl)
            · simp only [hwm, if_false]
              cases fs with
              | nil => exact wire_lost a _ [] _ _ _ w2 (Or.inl rfl)
              | cons m fs =>
                simp only
                by_cases h5 : codeNat m ≥ 500
                · simp only [h5, if_true]
                  exact wire_quit a _ wf [] _ _ _ _ w2 (Or.inl rfl) (by decide) (fun h => absurd h (by decide))
                · simp only [h5, if_false]
                  by_cases h4 : codeNat m ≥ 400
                  · simp only [h4, if_true]
                    exact wire_quit a _ wf [] _ _ _ _ w2 (Or.inl rfl) (by decide) (fun h => absurd h (by decide))
                  · simp only [h4, if_false]
                    exact rcpt_wire a wf enc henc a.rcpts [] [] _ false _ fs (by simp) rfl hc0.symm

/-- the Boolean predicate of the driver follows -/
theorem wireOrderQ_of_WireOK (a : Args) (wf : Option WPoint) (enc : Bytes) (r : Res) (h : WireOK a wf (fullCmds a ++ enc) r) :
    wireOrderQ a enc r.wire (obsOf r) (wf == some .quit) = true := by
  obtain ⟨w, q, h1, h2, h3, h4⟩ := h
  have hp : w.isPrefixOf (fullCmds a ++ enc) = true := List.isPrefixOf_iff_prefix.mpr h2
  have hr : ((obsOf r).rl.isEmpty || (cmdsUpTo a (obsOf r).rl.length).isPrefixOf w) = true := by
    rcases h3 with h3 | h3
    · simp [obsOf, h3]
    · have : (cmdsUpTo a (obsOf r).rl.length).isPrefixOf w = true := by
        simp only [obsOf, List.length_map]; exact List.isPrefixOf_iff_prefix.mpr h3
      simp [this]
  unfold wireOrderQ wireOrder
  cases q with
  | false =>
    have hw : r.wire = w := by simpa using h1
    by_cases hk : (obsOf r).ml = cK
    · obtain ⟨hq, hF⟩ := h4 hk
      have hq' : wf = some .quit := by
        rcases hq with hq | hq
        · simp at hq
        · exact hq
      have h3' : wireOrderW a enc r.wire (obsOf r) true = true := by
        have he : (w == fullCmds a ++ enc) = true := by simp [hF]
        rw [hw]; unfold wireOrderW; rw [hp, hr, he]; simp
      have hqb : (wf == some WPoint.quit) = true := by simp [hq']
      rw [h3', hqb]; simp
    · have hk' : ((obsOf r).ml != cK) = true := by simpa using hk
      simp [wireOrderW, hw, hp, hr, hk']
  | true =>
    have hw : r.wire = w ++ quitCmd := by simpa using h1
    have hs : quitCmd.isSuffixOf r.wire = true := by rw [hw]; exact List.isSuffixOf_iff_suffix.mpr (List.suffix_append _ _)
    have ht : r.wire.take (r.wire.length - quitCmd.length) = w := by rw [hw]; simp
    have hk : ((obsOf r).ml != cK || w == fullCmds a ++ enc) = true := by
      by_cases hk : (obsOf r).ml = cK
      · have := (h4 hk).2; simp [this]
      · simp [hk]
    rw [hs, ht]
    simp only [wireOrderW, hp, hr, Bool.true_and, hk, Bool.or_true, Bool.true_or]

end Nq.Lemmas.RemoteSmtp
