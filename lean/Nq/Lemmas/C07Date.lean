/-
  date822fmt / fmt_uint / fmt_uint0 and the non-negative restriction `Nq.Received.datetimeTai` of `Nq.Datetime.tai`.
  Core Lean + omega only.
-/
import Nq.Received
import Nq.Lemmas.Datetime

set_option linter.unusedSimpArgs false

namespace Nq.Lemmas.C07Date
open Nq Nq.Received Nq.Datetime Nq.Lemmas.Datetime

/-! ### fmt_uint -/

theorem digitsAux_acc : ∀ (fuel n : Nat) (acc : Bytes), digitsAux fuel n acc = digitsAux fuel n [] ++ acc
  | 0, _, acc => by simp [digitsAux]
  | fuel + 1, n, acc => by
    unfold digitsAux
    split
    · simp
    · rw [digitsAux_acc fuel (n / 10) (_ :: acc), digitsAux_acc fuel (n / 10) [_]]
      simp

theorem decVal_snoc (xs : Bytes) (d : Byte) : decVal (xs ++ [d]) = decVal xs * 10 + (d.toNat - 48) := by
  simp [decVal, List.foldl_append]

theorem digit_toNat (k : Nat) (h : k < 10) : (UInt8.ofNat (48 + k)).toNat = 48 + k := by
  simp [UInt8.toNat_ofNat']; omega

theorem digit_isDigit (k : Nat) (h : k < 10) : isDigit (UInt8.ofNat (48 + k)) = true := by
  have h2 : ∀ k, k < 10 → isDigit (UInt8.ofNat (48 + k)) = true := by decide
  exact h2 k h

theorem digit_zero (k : Nat) (h : k < 10) : UInt8.ofNat (48 + k) = 48 ↔ k = 0 := by
  have h2 : ∀ k, k < 10 → (UInt8.ofNat (48 + k) = 48 ↔ k = 0) := by decide
  exact h2 k h

/-- with enough fuel `digitsAux` writes the decimal numeral -/
theorem digitsAux_decimal : ∀ (fuel n : Nat), n < fuel → isDecimal n (digitsAux fuel n []) ∧
    ((digitsAux fuel n []).head? = some 48 → n = 0)
  | 0, _, h => by omega
  | fuel + 1, n, h => by
    have hm : n % 10 < 10 := Nat.mod_lt _ (by decide)
    unfold digitsAux
    split
    · rename_i h10
      have e : n % 10 = n := Nat.mod_eq_of_lt h10
      rw [e]
      refine ⟨⟨by simp, ?_, ?_, ?_⟩, ?_⟩
      · intro b hb; rw [List.mem_singleton] at hb; subst hb; exact digit_isDigit n h10
      · show 0 * 10 + ((UInt8.ofNat (48 + n)).toNat - 48) = n
        rw [digit_toNat n h10]; omega
      · intro hh; simp only [List.head?_cons, Option.some.injEq] at hh; rw [hh]
      · intro hh; simp only [List.head?_cons, Option.some.injEq] at hh; exact (digit_zero n h10).mp hh
    · rename_i h10
      have hlt : n / 10 < fuel := by omega
      obtain ⟨⟨i1, i2, i3, i4⟩, i5⟩ := digitsAux_decimal fuel (n / 10) hlt
      rw [digitsAux_acc]
      have hne : n / 10 ≠ 0 := by omega
      have hhead : (digitsAux fuel (n / 10) [] ++ [UInt8.ofNat (48 + n % 10)]).head? = (digitsAux fuel (n / 10) []).head? := by
        cases hx : digitsAux fuel (n / 10) [] with
        | nil => exact absurd hx i1
        | cons a as => simp
      refine ⟨⟨by simp, ?_, ?_, ?_⟩, ?_⟩
      · intro b hb
        rcases List.mem_append.mp hb with hb | hb
        · exact i2 b hb
        · rw [List.mem_singleton] at hb; subst hb; exact digit_isDigit _ hm
      · rw [decVal_snoc, i3, digit_toNat _ hm]; omega
      · rw [hhead]; intro hh; exact absurd (i5 hh) hne
      · rw [hhead]; intro hh; exact absurd (i5 hh) hne

/-- **fmt_uint / fmt_ulong write the decimal numeral** -/
theorem fmtU_decimal (n : Nat) : isDecimal n (fmtU n) := (digitsAux_decimal (n + 1) n (by omega)).1

/-- **fmt_uint0(s,u,2) writes two digits** for `u < 100` -/
theorem fmtU0_two (u : Nat) (h : u < 100) : fmtU0 u 2 = two u := by
  have h2 : ∀ u, u < 100 → fmtU0 u 2 = two u := by decide
  exact h2 u h

/-! ### datetimeTai (t ≥ 0) -/

/-- for `t ≥ 0` every field `date822fmt` reads is non-negative (so `fmt_uint`'s conversion to `unsigned` is the identity),
and the year is at least 1970 -/
theorem datetimeTai_fields (t : Nat) :
    ((datetimeTai t).hour : Int) = (tai t).hour ∧ ((datetimeTai t).min : Int) = (tai t).min ∧
    ((datetimeTai t).sec : Int) = (tai t).sec ∧ ((datetimeTai t).mday : Int) = (tai t).mday ∧
    ((datetimeTai t).mon : Int) = (tai t).mon ∧ ((datetimeTai t).year : Int) = (tai t).year ∧ 1970 ≤ (tai t).year := by
  obtain ⟨hv, hd, ⟨a1, a2, a3, a4, a5, a6⟩, _, _⟩ := tai_civil (t : Int)
  obtain ⟨v1, v2, v3, v4⟩ := hv
  have hy : 1970 ≤ (tai t).year := by
    have b := (dfc_bounds _ _ _ ⟨v1, v2, v3, v4⟩).2
    rw [hd] at b
    have h0 : (0 : Int) ≤ (t : Int) / 86400 := by omega
    have := daysBeforeYear_1970
    by_cases hlt : (tai t).year < 1970
    · have := daysBeforeYear_mono ((tai t).year + 1) 1970 (by omega); omega
    · omega
  have e1 : (datetimeTai t).hour = (tai t).hour.toNat := rfl
  have e2 : (datetimeTai t).min = (tai t).min.toNat := rfl
  have e3 : (datetimeTai t).sec = (tai t).sec.toNat := rfl
  have e4 : (datetimeTai t).mday = (tai t).mday.toNat := rfl
  have e5 : (datetimeTai t).mon = (tai t).mon.toNat := rfl
  have e6 : (datetimeTai t).year = (tai t).year.toNat := rfl
  rw [e1, e2, e3, e4, e5, e6]
  refine ⟨?_, ?_, ?_, ?_, ?_, ?_, hy⟩ <;> omega

/-- the calendar statement for the fields of the Received date -/
theorem datetimeTai_civil (t : Nat) :
    validDate (datetimeTai t).year (datetimeTai t).mon (datetimeTai t).mday ∧
    daysFromCivil (datetimeTai t).year (datetimeTai t).mon (datetimeTai t).mday = ((t / 86400 : Nat) : Int) ∧
    (datetimeTai t).hour < 24 ∧ (datetimeTai t).min < 60 ∧ (datetimeTai t).sec < 60 ∧
    (datetimeTai t).hour * 3600 + (datetimeTai t).min * 60 + (datetimeTai t).sec = t % 86400 ∧
    1970 ≤ (datetimeTai t).year ∧ (datetimeTai t).mon < 12 := by
  obtain ⟨f1, f2, f3, f4, f5, f6, f7⟩ := datetimeTai_fields t
  obtain ⟨hv, hd, ⟨a1, a2, a3, a4, a5, a6⟩, hs, _⟩ := tai_civil (t : Int)
  rw [f4, f5, f6]
  have hv' := hv
  obtain ⟨v1, v2, v3, v4⟩ := hv'
  refine ⟨hv, ?_, ?_, ?_, ?_, ?_, ?_, ?_⟩
  · rw [hd]; omega
  all_goals omega

/-! ### date822fmt -/

theorem months_len (m : Nat) (h : m < 12) : (months.getD m []).length = 3 := by
  have h2 : ∀ m, m < 12 → (months.getD m []).length = 3 := by decide
  exact h2 m h

/-- **date822fmt writes "D Mon YYYY HH:MM:SS -0000\n"** -/
theorem date822_format (dt : Received.DT) (hh : dt.hour < 24) (hm : dt.min < 60) (hs : dt.sec < 60) :
    ∃ D Y : Bytes, isDecimal dt.mday D ∧ isDecimal dt.year Y ∧
      date822 dt = D ++ [SP] ++ months.getD dt.mon [] ++ [SP] ++ Y ++ [SP] ++
        two dt.hour ++ [58] ++ two dt.min ++ [58] ++ two dt.sec ++ [SP, 45, 48, 48, 48, 48, LF] := by
  refine ⟨fmtU dt.mday, fmtU dt.year, fmtU_decimal _, fmtU_decimal _, ?_⟩
  unfold date822
  rw [fmtU0_two _ (by omega), fmtU0_two _ (by omega), fmtU0_two _ (by omega)]
  rfl

end Nq.Lemmas.C07Date
