/-
  The byte-level session `SmtpSession.run` is laid out over its input as `CmdLineSpec.Framed` says: command
  lines read by the independent splitter, message bodies delimited by the reference decoder.  Core Lean only.
-/
import Nq.Lemmas.SmtpCmdSpec
import Nq.Lemmas.SmtpDecode
import Nq.Lemmas.SmtpFraming
import Nq.Lemmas.SmtpIO

namespace Nq.Lemmas.SmtpCmd
open Nq Nq.Substdio Nq.SmtpIn Nq.SmtpIO Nq.SmtpSession Nq.SmtpCmdIO Nq.CmdLineSpec Nq.Lemmas.SmtpIO

theorem nextCmd_none (qq : QQ) (s : Sess) (inp : Bytes) (h : readLine inp = none) : nextCmd qq s inp = none := by
  simp only [nextCmd, h]

/-- a line that is not a DATA reaching `blast()` -/
theorem nextCmd_plain (qq : QQ) (s : Sess) (inp l rest : Bytes) (h : readLine inp = some (l, rest))
    (hd : ¬ ((parseLine l).1 = .data ∧ (dataGate s && !qq.openFails) = true)) :
    nextCmd qq s inp = some (lineCmd qq (parseLine l).1 (parseLine l).2, rest) := by
  simp only [nextCmd, h]
  cases hv : (parseLine l).1 <;> simp only [lineCmd]
  have : ¬ ((dataGate s && !qq.openFails) = true) := fun e => hd ⟨hv, e⟩
  rw [if_neg this]

theorem nextCmd_data (qq : QQ) (s : Sess) (inp l rest : Bytes) (h : readLine inp = some (l, rest))
    (hv : (parseLine l).1 = .data) (hg : (dataGate s && !qq.openFails) = true) :
    nextCmd qq s inp =
      match dblast rest with
      | .accepted _ r => some (.data { blast := .ok, close := qq.close }, r)
      | .stray => some (.data { blast := .stray, close := qq.close }, [])
      | .incomplete => some (.data { blast := .eof, close := qq.close }, []) := by
  simp only [nextCmd, h, hv, hg, if_true]
  rfl

theorem lineIs_lineCmd (qq : QQ) (l : Bytes) : LineIs l (lineCmd qq (parseLine l).1 (parseLine l).2) := by
  unfold LineIs
  rw [specParse_eq]
  cases hv : (parseLine l).1 <;> simp [lineCmd, verbOfCmd, argOfCmd]

theorem lineIs_data (l : Bytes) (env : DataEnv) (hv : (parseLine l).1 = .data) : LineIs l (.data env) := by
  unfold LineIs
  rw [specParse_eq, hv]
  simp [verbOfCmd, argOfCmd]

/-- only a DATA that passes both gates with the queue open is answered 354 -/
theorem go_only_data (cfg : Cfg) (s : Sess) (c : Cmd) (h : (sstep cfg s c).2.replies.head? = some .go) :
    ∃ env, c = .data env ∧ dataGate s = true ∧ env.openFails = false := by
  cases c with
  | data env =>
    refine ⟨env, rfl, ?_⟩
    unfold dataGate
    by_cases h1 : s.seenmail = true
    · by_cases he : s.rcptto.isEmpty = true
      · simp [sstep, h1, he] at h
      · by_cases ho : env.openFails = true
        · simp [sstep, h1, he, ho] at h
        · simp [h1, he, ho]
    · simp [sstep, h1] at h
  | mail arg => cases ha : addrparse cfg arg <;> simp [sstep, ha] at h
  | rcpt arg =>
    by_cases h1 : s.seenmail = true
    · cases ha : addrparse cfg arg with
      | none => simp [sstep, h1, ha] at h
      | some a =>
        by_cases hb : s.flagbarf = true
        · simp [sstep, h1, ha, hb] at h
        · cases hr : cfg.relay with
          | some rc => simp [sstep, h1, ha, hb, hr] at h
          | none => by_cases hm : rcpthostsMatch cfg a = true <;> simp [sstep, h1, ha, hb, hr, hm] at h
    · simp [sstep, h1] at h
  | _ => simp [sstep] at h

/-- a DATA that passes the gates and whose message is complete: 354, not the end of the session -/
theorem data_ok_step (cfg : Cfg) (s : Sess) (env : DataEnv) (hg : dataGate s = true) (ho : env.openFails = false)
    (hb : env.blast = .ok) :
    (sstep cfg s (.data env)).2.halt = false ∧ (sstep cfg s (.data env)).2.replies.head? = some .go := by
  unfold dataGate at hg
  simp only [Bool.and_eq_true, Bool.not_eq_true'] at hg
  obtain ⟨h1, h2⟩ := hg
  simp [sstep, h1, h2, ho, hb]

theorem rfcDecode_rest_len (inp body rest : Bytes) (h : rfcDecode inp = .accepted body rest) : rest.length ≤ inp.length := by
  obtain ⟨ls, e, _, _⟩ := Nq.Lemmas.rfcDecode_framing_mp inp body rest h
  rw [e]; simp only [List.length_append, List.length_cons, List.length_nil]; omega

theorem runFuel_framed (cfg : Cfg) (qq : QQ) : ∀ (n : Nat) (s : Sess) (inp : Bytes), inp.length < n →
    Framed inp (runFuel cfg qq n s inp)
  | 0, _, _, h => by omega
  | n + 1, s, inp, h => by
    simp only [runFuel]
    cases hr : readLine inp with
    | none =>
      rw [nextCmd_none qq s inp hr]
      exact Framed.eof inp ((readLine_none_iff inp).1 hr)
    | some x =>
      obtain ⟨l, rest⟩ := x
      obtain ⟨e, hnl⟩ := readLine_some inp l rest hr
      have hlen : rest.length < n := by rw [e] at h; simp at h; omega
      by_cases hd : (parseLine l).1 = .data ∧ (dataGate s && !qq.openFails) = true
      · obtain ⟨hv, hg⟩ := hd
        have hg' : dataGate s = true ∧ qq.openFails = false := by simpa using hg
        rw [nextCmd_data qq s inp l rest hr hv hg]
        cases hb : dblast rest with
        | accepted b r =>
          simp only
          obtain ⟨k1, k2⟩ := data_ok_step cfg s { blast := .ok, close := qq.close } hg'.1 rfl rfl
          rw [k1]
          simp only [Bool.false_eq_true, if_false]
          have hdec : rfcDecode rest = .accepted b r := by rw [← Nq.Lemmas.dblast_eq_rfcDecode]; exact hb
          have hrl := rfcDecode_rest_len rest b r hdec
          rw [e]
          exact Framed.data l rest b r _ _ _ hnl (lineIs_data l _ hv) k1 k2 hdec
            (runFuel_framed cfg qq n _ r (by omega))
        | stray =>
          simp only
          rw [data_bad_halts cfg s { blast := .stray, close := qq.close } hg'.1 rfl (by simp)]
          simp only [if_true]
          rw [e]
          exact Framed.last l rest _ _ hnl (lineIs_data l _ hv) (data_bad_halts cfg s _ hg'.1 rfl (by simp))
        | incomplete =>
          simp only
          rw [data_bad_halts cfg s { blast := .eof, close := qq.close } hg'.1 rfl (by simp)]
          simp only [if_true]
          rw [e]
          exact Framed.last l rest _ _ hnl (lineIs_data l _ hv) (data_bad_halts cfg s _ hg'.1 rfl (by simp))
      · rw [nextCmd_plain qq s inp l rest hr hd]
        simp only
        generalize hc : lineCmd qq (parseLine l).1 (parseLine l).2 = c
        have hli : LineIs l c := by rw [← hc]; exact lineIs_lineCmd qq l
        by_cases hh : (sstep cfg s c).2.halt = true
        · rw [if_pos hh, e]
          exact Framed.last l rest c _ hnl hli hh
        · rw [if_neg hh, e]
          have hh' : (sstep cfg s c).2.halt = false := by simpa using hh
          refine Framed.cmd l rest c _ _ hnl hli hh' ?_ (runFuel_framed cfg qq n _ rest hlen)
          intro hgo
          obtain ⟨env, ce, g1, g2⟩ := go_only_data cfg s c hgo
          apply hd
          have hv : (parseLine l).1 = .data := by
            cases hv : (parseLine l).1 <;> rw [hv] at hc <;> simp only [lineCmd] at hc <;> rw [← hc] at ce <;>
              first | rfl | cases ce
          rw [hv] at hc
          simp only [lineCmd] at hc
          rw [← hc] at ce
          simp only [Cmd.data.injEq] at ce
          refine ⟨hv, ?_⟩
          rw [← ce] at g2
          simp only at g2
          simp [g1, g2]

/-- every session is laid out over its input stream as the spec says -/
theorem run_framed (cfg : Cfg) (qq : QQ) (inp : Bytes) : Framed inp (run cfg qq inp) :=
  runFuel_framed cfg qq _ {} inp (by omega)

/-! ### read scripts with failing reads: the session is the session on the bytes delivered before the failure -/

/-- what `blast()` accepts depends only on the bytes it consumed -/
theorem dblast_accept_rest (inp body rest rest' : Bytes) (h : dblast inp = .accepted body rest) :
    ∃ m, inp = m ++ rest ∧ dblast (m ++ rest') = .accepted body rest' := by
  rw [Nq.Lemmas.dblast_eq_rfcDecode] at h
  obtain ⟨ls, e, hb, hbody⟩ := Nq.Lemmas.rfcDecode_framing_mp inp body rest h
  refine ⟨SmtpRef.joinWith [CR, LF] ls ++ [DOT, CR, LF], e, ?_⟩
  rw [Nq.Lemmas.dblast_eq_rfcDecode, Nq.Lemmas.rfcDecode_framing_mpr ls rest' hb, hbody]

theorem nextCmd_shorter (qq : QQ) (s : Sess) (inp : Bytes) (c : Cmd) (r : Bytes) (h : nextCmd qq s inp = some (c, r)) :
    r.length < inp.length := by
  cases hr : readLine inp with
  | none => rw [nextCmd_none qq s inp hr] at h; simp at h
  | some x =>
    obtain ⟨l, rest⟩ := x
    obtain ⟨e, _⟩ := readLine_some inp l rest hr
    have hlen : rest.length < inp.length := by rw [e]; simp; omega
    by_cases hd : (parseLine l).1 = .data ∧ (dataGate s && !qq.openFails) = true
    · rw [nextCmd_data qq s inp l rest hr hd.1 hd.2] at h
      cases hb : dblast rest with
      | accepted b r' =>
        rw [hb] at h
        simp only [Option.some.injEq, Prod.mk.injEq] at h
        rw [← h.2]
        have := rfcDecode_rest_len rest b r' (by rw [← Nq.Lemmas.dblast_eq_rfcDecode]; exact hb)
        omega
      | stray => rw [hb] at h; simp only [Option.some.injEq, Prod.mk.injEq] at h; rw [← h.2]; simp; omega
      | incomplete => rw [hb] at h; simp only [Option.some.injEq, Prod.mk.injEq] at h; rw [← h.2]; simp; omega
    · rw [nextCmd_plain qq s inp l rest hr hd] at h
      simp only [Option.some.injEq, Prod.mk.injEq] at h
      rw [← h.2]; exact hlen

theorem runFuel_fuel (cfg : Cfg) (qq : QQ) : ∀ (n m : Nat) (s : Sess) (inp : Bytes), inp.length < n → inp.length < m →
    runFuel cfg qq n s inp = runFuel cfg qq m s inp
  | 0, _, _, _, h, _ => by omega
  | _, 0, _, _, _, h => by omega
  | n + 1, m + 1, s, inp, hn, hm => by
    simp only [runFuel]
    cases hx : nextCmd qq s inp with
    | none => rfl
    | some x =>
      obtain ⟨c, r⟩ := x
      have := nextCmd_shorter qq s inp c r hx
      simp only
      rw [runFuel_fuel cfg qq n m _ r (by omega) (by omega)]

theorem runFuel_eq_run (cfg : Cfg) (qq : QQ) (n : Nat) (inp : Bytes) (h : inp.length < n) : runFuel cfg qq n {} inp = run cfg qq inp :=
  runFuel_fuel cfg qq n _ {} inp h (by omega)

theorem semit_died_inv (bs : Bytes) (r : SRes) (h : semit bs r = .died) : r = .died := by
  cases r <;> simp_all [semit]

theorem emit_incomplete (bs : Bytes) : emit bs .incomplete = .incomplete := rfl

/-- `blast()` dying (end of file or failing read): the bytes it had consumed are an incomplete message -/
theorem sloop_died (fuel : Nat) (s : ISt) (st : DSt) (h : IWF s) (hf : (pending s).length < fuel)
    (hr : sloop fuel s st = .died) : ∃ pre, pre <+: pending s ∧ drun st pre = .incomplete := by
  induction fuel generalizing s st with
  | zero => omega
  | succ fuel ih =>
    simp only [sloop] at hr
    obtain ⟨g1, _, _, _, g5⟩ := get1_spec s h
    generalize get1 s = gr at g1 g5 hr
    obtain ⟨s1, r⟩ := gr
    cases r with
    | byte c =>
      simp only at g1 g5 hr
      have hp : pending s = c :: pending s1 := g5.symm
      cases hd : (dstep st c).2 with
      | data bs =>
        rw [hd] at hr
        simp only at hr
        have hlen : (pending s1).length < fuel := by rw [hp] at hf; simp at hf; omega
        obtain ⟨pre, p1, p2⟩ := ih s1 _ g1 hlen (semit_died_inv _ _ hr)
        refine ⟨c :: pre, ?_, ?_⟩
        · rw [hp]; obtain ⟨t, ht⟩ := p1; exact ⟨t, by rw [← ht]; rfl⟩
        · simp only [drun, hd, p2]; rfl
      | done => rw [hd] at hr; simp at hr
      | stray => rw [hd] at hr; simp at hr
    | eof => exact ⟨[], List.nil_prefix, rfl⟩
    | err => exact ⟨[], List.nil_prefix, rfl⟩

theorem runIOFuel_any (cfg : Cfg) (qq : QQ) : ∀ (n : Nat) (s : Sess) (i : ISt), IWF i → (pending i).length < n →
    ∃ pre, pre <+: pending i ∧ runIOFuel cfg qq n s i = runFuel cfg qq n s pre
  | 0, _, _, _, h => by omega
  | n + 1, s, i, h, hf => by
    simp only [runIOFuel, nextCmdIO]
    have hl := readLineIO_spec i h
    generalize readLineIO i = lr at hl
    cases lr with
    | eof i' =>
      simp only [LAgree] at hl
      exact ⟨pending i, List.prefix_refl _, by simp only [runFuel, nextCmd_none qq s _ hl]⟩
    | err i' =>
      obtain ⟨_, pre, a2, a3⟩ := hl
      exact ⟨pre, a2, by simp only [runFuel, nextCmd_none qq s _ a3]⟩
    | line l i' =>
      obtain ⟨a1, a2, a3, _⟩ := hl
      obtain ⟨e, hnl⟩ := readLine_some _ l _ a1
      have hlen : (pending i').length < n := by rw [e] at hf; simp at hf; omega
      simp only
      by_cases hd : (parseLine l).1 = .data ∧ (dataGate s && !qq.openFails) = true
      · rw [if_pos hd]
        obtain ⟨hv, hg⟩ := hd
        have hg' : dataGate s = true ∧ qq.openFails = false := by simpa using hg
        have hb := sblast_spec i' a2
        cases hsb : sblast i' with
        | accepted b i'' =>
          rw [hsb] at hb
          rcases hb with ⟨e1, _⟩ | hb
          · exact absurd e1 (by simp)
          · cases hdb : dblast (i'.data ++ i'.src) with
            | accepted b' r =>
              rw [hdb] at hb
              obtain ⟨b1, b2, _, b4⟩ := hb
              subst b1
              have hdb' : dblast (pending i') = .accepted b (pending i'') := by unfold pending; rw [hdb, b4]
              have hrl := rfcDecode_rest_len _ b _ (by rw [← Nq.Lemmas.dblast_eq_rfcDecode]; exact hdb')
              obtain ⟨k1, _⟩ := data_ok_step cfg s { blast := .ok, close := qq.close } hg'.1 rfl rfl
              obtain ⟨pre'', q1, q2⟩ := runIOFuel_any cfg qq n (sstep cfg s (.data { blast := .ok, close := qq.close })).1 i'' b2 (by omega)
              obtain ⟨m, m1, m2⟩ := dblast_accept_rest _ b _ pre'' hdb'
              refine ⟨l ++ LF :: (m ++ pre''), ?_, ?_⟩
              · rw [e, m1]; obtain ⟨t, ht⟩ := q1; exact ⟨t, by rw [← ht]; simp⟩
              · simp only [runFuel]
                rw [nextCmd_data qq s _ l (m ++ pre'') (readLine_append l _ hnl) hv hg, m2]
                simp only [k1, Bool.false_eq_true, if_false, q2]
            | incomplete => rw [hdb] at hb; exact absurd hb (by simp [SAgree])
            | stray => rw [hdb] at hb; exact absurd hb (by simp [SAgree])
        | stray =>
          rw [hsb] at hb
          rcases hb with ⟨e1, _⟩ | hb
          · exact absurd e1 (by simp)
          · cases hdb : dblast (i'.data ++ i'.src) with
            | stray =>
              refine ⟨pending i, List.prefix_refl _, ?_⟩
              simp only [runFuel]
              rw [nextCmd_data qq s _ l _ a1 hv hg]
              unfold pending; rw [hdb]
              simp only [data_bad_halts cfg s { blast := .stray, close := qq.close } hg'.1 rfl (by simp), if_true]
            | incomplete => rw [hdb] at hb; exact absurd hb (by simp [SAgree])
            | accepted b r => rw [hdb] at hb; exact absurd hb (by simp [SAgree])
        | died =>
          obtain ⟨pre', p1, p2⟩ := sloop_died _ i' .s1 a2 (by show (i'.data ++ i'.src).length < _; omega) hsb
          refine ⟨l ++ LF :: pre', ?_, ?_⟩
          · rw [e]; obtain ⟨t, ht⟩ := p1; exact ⟨t, by rw [← ht]; simp⟩
          · simp only [runFuel]
            rw [nextCmd_data qq s _ l pre' (readLine_append l _ hnl) hv hg]
            have : dblast pre' = .incomplete := p2
            rw [this]
            simp only [data_bad_halts cfg s { blast := .eof, close := qq.close } hg'.1 rfl (by simp), if_true]
      · rw [if_neg hd]
        simp only
        generalize hc : lineCmd qq (parseLine l).1 (parseLine l).2 = c
        by_cases hh : (sstep cfg s c).2.halt = true
        · refine ⟨pending i, List.prefix_refl _, ?_⟩
          simp only [runFuel]
          rw [nextCmd_plain qq s _ l _ a1 hd, hc]
          simp only [hh, if_true]
        · obtain ⟨pre', q1, q2⟩ := runIOFuel_any cfg qq n (sstep cfg s c).1 i' a2 hlen
          refine ⟨l ++ LF :: pre', ?_, ?_⟩
          · rw [e]; obtain ⟨t, ht⟩ := q1; exact ⟨t, by rw [← ht]; simp⟩
          · simp only [runFuel]
            rw [nextCmd_plain qq s _ l pre' (readLine_append l _ hnl) hd, hc]
            simp only [hh, q2]

/-- any buffer state, any read script: the session is the session on a prefix of the bytes that were to come —
what the descriptor delivered before its first failing read -/
theorem runIO_any (cfg : Cfg) (qq : QQ) (i : ISt) (h : IWF i) : ∃ pre, pre <+: pending i ∧ runIO cfg qq i = run cfg qq pre := by
  obtain ⟨pre, p1, p2⟩ := runIOFuel_any cfg qq _ {} i h (Nat.lt_succ_self _)
  refine ⟨pre, p1, ?_⟩
  unfold runIO
  rw [p2]
  have : pre.length ≤ (pending i).length := by obtain ⟨t, ht⟩ := p1; rw [← ht]; simp
  exact runFuel_eq_run cfg qq _ pre (by omega)

end Nq.Lemmas.SmtpCmd
