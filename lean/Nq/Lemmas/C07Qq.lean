/-
  Lemmas about `struct qmail` (Nq/QmailC.lean): the flagerr discipline.
  `HasNN` (two consecutive NULs) is what a complete envelope must contain and what the bytes
  `F sender NUL (T recipient NUL)*` never contain.
-/
import Nq.QmailC
import Nq.Lemmas.C07Sub

namespace Nq.QmailC
open Nq

/-- two consecutive NUL bytes somewhere -/
def HasNN : Bytes → Bool
  | a :: b :: r => (a == 0 && b == 0) || HasNN (b :: r)
  | _ => false

theorem HasNN_append_left : ∀ (p t : Bytes), HasNN t = true → HasNN (p ++ t) = true
  | [], t, h => h
  | [a], t, h => by
    cases t with
    | nil => simp [HasNN] at h
    | cons b r => simp [HasNN, h]
  | a :: b :: p, t, h => by
    have := HasNN_append_left (b :: p) t h
    simp only [List.cons_append] at this ⊢
    simp [HasNN, this]

theorem HasNN_append_right : ∀ (p t : Bytes), HasNN p = true → HasNN (p ++ t) = true
  | [], _, h => by simp [HasNN] at h
  | [a], _, h => by simp [HasNN] at h
  | a :: b :: p, t, h => by
    simp only [HasNN, Bool.or_eq_true] at h
    simp only [List.cons_append, HasNN, Bool.or_eq_true]
    cases h with
    | inl h => exact Or.inl h
    | inr h => exact Or.inr (by simpa using HasNN_append_right (b :: p) t h)

theorem HasNN_prefix {p e : Bytes} (h : p <+: e) (hp : HasNN p = true) : HasNN e = true := by
  obtain ⟨t, rfl⟩ := h; exact HasNN_append_right p t hp

theorem HasNN_cons_ne (c : Byte) (z : Bytes) (hc : c ≠ 0) : HasNN (c :: z) = HasNN z := by
  cases z with
  | nil => simp [HasNN]
  | cons b r => simp [HasNN, hc]

/-- a block that starts with a non-NUL byte does not create a NUL pair with what is in front of it -/
theorem HasNN_append_block : ∀ (x : Bytes) (c : Byte) (y : Bytes), c ≠ 0 →
    HasNN (x ++ c :: y) = (HasNN x || HasNN (c :: y))
  | [], c, y, _ => by simp [HasNN]
  | [a], c, y, hc => by
    simp only [List.cons_append, List.nil_append]
    rw [show HasNN [a] = false from rfl]
    simp [HasNN, hc]
  | a :: b :: x, c, y, hc => by
    have ih := HasNN_append_block (b :: x) c y hc
    simp only [List.cons_append] at ih ⊢
    simp only [HasNN, ih, Bool.or_assoc]

theorem cstr_noNN : ∀ (r : Bytes), HasNN (cstr r ++ [0]) = false
  | [] => by simp [cstr, HasNN]
  | c :: r => by
    unfold cstr
    split
    · simp [HasNN]
    · rename_i hc
      simp only [List.cons_append]
      rw [HasNN_cons_ne c _ hc]
      exact cstr_noNN r

/-- one `T`/`F` entry -/
def entry (tag : Byte) (a : Bytes) : Bytes := tag :: (cstr a ++ [0])

theorem entry_noNN (tag : Byte) (a : Bytes) (ht : tag ≠ 0) : HasNN (entry tag a) = false := by
  unfold entry; rw [HasNN_cons_ne _ _ ht]; exact cstr_noNN a

theorem good_append_entry (x : Bytes) (tag : Byte) (a : Bytes) (ht : tag ≠ 0) (hx : HasNN x = false) :
    HasNN (x ++ entry tag a) = false := by
  unfold entry
  rw [HasNN_append_block x tag _ ht, hx]
  simpa [entry] using entry_noNN tag a ht

def entries (rs : List Bytes) : Bytes := (rs.map (entry 84)).flatten

theorem good_append_entries : ∀ (rs : List Bytes) (x : Bytes), HasNN x = false → HasNN (x ++ entries rs) = false
  | [], x, hx => by simpa [entries] using hx
  | r :: rs, x, hx => by
    have h1 := good_append_entry x 84 r (by decide) hx
    have := good_append_entries rs (x ++ entry 84 r) h1
    simpa [entries, List.append_assoc] using this

/-! ### the envelope scanner needs a NUL pair -/

theorem takeZ_eq : ∀ (r a rest : Bytes), takeZ r = some (a, rest) → r = a ++ 0 :: rest
  | [], _, _, h => by simp [takeZ] at h
  | c :: r, a, rest, h => by
    unfold takeZ at h
    split at h
    · rename_i hc; simp at h; obtain ⟨rfl, rfl⟩ := h; simp [hc]
    · cases h2 : takeZ r with
      | none => simp [h2] at h
      | some p =>
        obtain ⟨a', rest'⟩ := p
        simp [h2] at h
        obtain ⟨rfl, rfl⟩ := h
        have := takeZ_eq r a' rest' h2
        simp [this]

theorem envRcpts_NN : ∀ (fuel : Nat) (rest : Bytes) (rs : List Bytes),
    envRcpts fuel rest = some rs → HasNN (0 :: rest) = true
  | 0, _, _, h => by simp [envRcpts] at h
  | _ + 1, [], _, h => by simp [envRcpts] at h
  | fuel + 1, c :: r, rs, h => by
    unfold envRcpts at h
    split at h
    · rename_i hc; simp [HasNN, hc]
    · split at h
      · cases h2 : takeZ r with
        | none => simp [h2] at h
        | some p =>
          obtain ⟨a, rest'⟩ := p
          simp only [h2] at h
          cases h3 : envRcpts fuel rest' with
          | none => simp [h3] at h
          | some rs' =>
            have ih := envRcpts_NN fuel rest' rs' h3
            have he := takeZ_eq r a rest' h2
            rw [he]
            have := HasNN_append_left (0 :: c :: a) (0 :: rest') ih
            simpa using this
      · simp at h

theorem envComplete_NN (e : Bytes) (h : envComplete e = true) : HasNN e = true := by
  unfold envComplete envParse at h
  cases e with
  | nil => simp at h
  | cons c r =>
    simp only at h
    split at h
    · cases h2 : takeZ r with
      | none => simp [h2] at h
      | some p =>
        obtain ⟨s, rest⟩ := p
        simp only [h2] at h
        cases h3 : envRcpts (rest.length + 1) rest with
        | none => simp [h3] at h
        | some rs =>
          have := envRcpts_NN _ rest rs h3
          rw [takeZ_eq r s rest h2]
          have := HasNN_append_left (c :: s) (0 :: rest) this
          simpa using this
    · simp at h

/-! ### qmail_put and friends -/

theorem QQ.put_flagerr (q : QQ) (bs : Bytes) (h : q.flagerr = true) : q.put bs = q := by
  unfold QQ.put; simp [h]

/-- qmail_put: either everything is still there, or the failure flag is set and only a prefix is -/
theorem QQ.put_spec (q : QQ) (bs : Bytes) :
    ((q.put bs).flagerr = false ∧ (q.put bs).ss.all = q.ss.all ++ bs) ∨
    ((q.put bs).flagerr = true ∧ (q.put bs).ss.all <+: q.ss.all ++ bs) := by
  unfold QQ.put
  cases hf : q.flagerr
  · simp only [Bool.false_eq_true, ↓reduceIte]
    cases hk : (q.ss.put bs).2
    · right; exact ⟨by simp, (Sub.put_fail _ _ hk).1⟩
    · left; exact ⟨by simp, Sub.put_ok _ _ hk⟩
  · right; simp [hf]

theorem QQ.put_inEnv (q : QQ) (bs : Bytes) : (q.put bs).inEnv = q.inEnv := by
  unfold QQ.put; split <;> rfl
theorem QQ.put_msgDone (q : QQ) (bs : Bytes) : (q.put bs).msgDone = q.msgDone := by
  unfold QQ.put; split <;> rfl

theorem QQ.put_mono (q : QQ) (bs : Bytes) (h : q.flagerr = true) : (q.put bs).flagerr = true := by
  rw [QQ.put_flagerr q bs h]; exact h

def QQ.puts (q : QQ) (l : List Bytes) : QQ := l.foldl QQ.put q

theorem QQ.puts_spec : ∀ (l : List Bytes) (q : QQ),
    ((q.puts l).flagerr = false ∧ (q.puts l).ss.all = q.ss.all ++ l.flatten) ∨
    ((q.puts l).flagerr = true ∧ (q.puts l).ss.all <+: q.ss.all ++ l.flatten)
  | [], q => by
    cases h : q.flagerr
    · left; simp [QQ.puts, h]
    · right; simp [QQ.puts, h]
  | b :: l, q => by
    have ih := QQ.puts_spec l (q.put b)
    have hs := QQ.put_spec q b
    simp only [QQ.puts, List.foldl_cons, List.flatten_cons] at ih ⊢
    rcases hs with ⟨hf, ha⟩ | ⟨hf, ha⟩
    · rw [ha] at ih; simpa [List.append_assoc, QQ.puts] using ih
    · -- already failed: nothing more happens
      have hfix : ∀ (l : List Bytes) (q' : QQ), q'.flagerr = true → List.foldl QQ.put q' l = q' := by
        intro l; induction l with
        | nil => intro _ _; rfl
        | cons c l ih2 => intro q' h'; simp only [List.foldl_cons]; rw [QQ.put_flagerr q' c h']; exact ih2 q' h'
      rw [hfix l _ hf]
      right
      refine ⟨hf, ?_⟩
      obtain ⟨t, ht⟩ := ha
      exact ⟨t ++ l.flatten, by rw [← List.append_assoc, ht, List.append_assoc]⟩

theorem QQ.puts_inEnv (l : List Bytes) (q : QQ) : (q.puts l).inEnv = q.inEnv := by
  induction l generalizing q with
  | nil => rfl
  | cons b l ih => simp only [QQ.puts, List.foldl_cons] at ih ⊢; rw [ih, QQ.put_inEnv]

theorem QQ.puts_msgDone (l : List Bytes) (q : QQ) : (q.puts l).msgDone = q.msgDone := by
  induction l generalizing q with
  | nil => rfl
  | cons b l ih => simp only [QQ.puts, List.foldl_cons] at ih ⊢; rw [ih, QQ.put_msgDone]

theorem QQ.to_eq (q : QQ) (r : Bytes) : q.to r = q.puts [[84], cstr r, [0]] := rfl

/-- the state `qmail_from` switches to before it writes `F` -/
def QQ.switch (q : QQ) : QQ :=
  { q with flagerr := q.flagerr || !(q.ss.flush).2, inEnv := true, msgDone := (q.ss.flush).1.out,
           ss := { (q.ss.flush).1 with buf := [], out := [] } }

theorem QQ.from_eq (q : QQ) (s : Bytes) : q.from_ s = q.switch.puts [[70], cstr s, [0]] := rfl

theorem QQ.switch_all (q : QQ) : q.switch.ss.all = [] := rfl
theorem QQ.switch_inEnv (q : QQ) : q.switch.inEnv = true := rfl

/-- invariant of the envelope phase: on the envelope pipe side (written ++ buffered) there is no NUL pair -/
def QQ.EnvGood (q : QQ) : Prop := q.inEnv = true ∧ HasNN q.ss.all = false

theorem QQ.puts_good (q : QQ) (l : List Bytes) (hq : q.inEnv = true) (hg : HasNN (q.ss.all ++ l.flatten) = false) :
    (q.puts l).EnvGood := by
  refine ⟨by rw [QQ.puts_inEnv]; exact hq, ?_⟩
  rcases QQ.puts_spec l q with ⟨_, ha⟩ | ⟨_, ha⟩
  · rw [ha]; exact hg
  · cases h : HasNN (q.puts l).ss.all
    · rfl
    · rw [HasNN_prefix ha h] at hg; exact absurd hg (by simp)

theorem QQ.from_good (q : QQ) (s : Bytes) : (q.from_ s).EnvGood := by
  rw [QQ.from_eq]
  apply QQ.puts_good _ _ (QQ.switch_inEnv q)
  rw [QQ.switch_all]
  simpa [entry] using entry_noNN 70 s (by decide)

theorem QQ.to_good (q : QQ) (r : Bytes) (h : q.EnvGood) : (q.to r).EnvGood := by
  rw [QQ.to_eq]
  apply QQ.puts_good _ _ h.1
  simpa [entry] using good_append_entry q.ss.all 84 r (by decide) h.2

theorem QQ.fail_good (q : QQ) (h : q.EnvGood) : q.fail.EnvGood := h

theorem QQ.putEntries_good (q : QQ) (rs : List Bytes) (h : q.EnvGood) : (q.put (entries rs)).EnvGood := by
  have := QQ.puts_good q [entries rs] h.1 (by simpa using good_append_entries rs q.ss.all h.2)
  simpa [QQ.puts] using this

/-- the calls a daemon makes between `qmail_from` and `qmail_close` -/
inductive EnvOp : QOp → Prop
  | to (r : Bytes) : EnvOp (.to r)
  | fail : EnvOp .fail
  | rcptto (rs : List Bytes) : EnvOp (.put (entries rs))     -- qmail-smtpd: the whole `rcptto` stralloc at once

theorem QQ.run_good : ∀ (ops : List QOp) (q : QQ), q.EnvGood → (∀ op ∈ ops, EnvOp op) → (q.run ops).EnvGood
  | [], _, h, _ => h
  | op :: ops, q, h, hall => by
    have hop := hall op (by simp)
    have hrest : ∀ o ∈ ops, EnvOp o := fun o ho => hall o (by simp [ho])
    simp only [QQ.run, List.foldl_cons]
    apply QQ.run_good ops _ _ hrest
    cases hop with
    | to r => exact QQ.to_good q r h
    | fail => exact QQ.fail_good q h
    | rcptto rs => exact QQ.putEntries_good q rs h

theorem prefix_of_snoc {p x : Bytes} {b : Byte} (h : p <+: x ++ [b]) (hl : p.length ≤ x.length) : p <+: x := by
  have h2 : x <+: x ++ [b] := List.prefix_append x [b]
  exact (List.prefix_of_prefix_length_le h h2 hl)

theorem envPipe_good (q : QQ) (h : q.EnvGood) : envComplete q.envPipe = false := by
  cases hc : envComplete q.envPipe
  · rfl
  · have hnn := envComplete_NN _ hc
    unfold QQ.envPipe at hnn
    rw [h.1] at hnn
    simp only [↓reduceIte] at hnn
    have : HasNN q.ss.all = true := HasNN_prefix (List.prefix_append q.ss.out q.ss.buf) hnn
    rw [h.2] at this; exact absurd this (by simp)

/-- qmail_close with a failure flagged: what reached the envelope pipe is a prefix of what was there before -/
theorem QQ.close_fail (q : QQ) (h : q.close.flagerr = true) : q.close.ss.out <+: q.ss.all ∧ q.close.inEnv = q.inEnv := by
  unfold QQ.close at h ⊢
  cases hf : q.flagerr
  · -- the terminator is attempted
    have hput : q.put [0] = { q with ss := (q.ss.put [0]).1, flagerr := !(q.ss.put [0]).2 } := by
      unfold QQ.put; simp [hf]
    cases hk : (q.ss.put [0]).2
    · have h1 : (q.put [0]).flagerr = true := by rw [hput]; simp [hk]
      simp only [h1, ↓reduceIte] at h ⊢
      have hp := Sub.put_fail q.ss [0] hk
      have hss : (q.put [0]).ss = (q.ss.put [0]).1 := by rw [hput]
      have hie : (q.put [0]).inEnv = q.inEnv := QQ.put_inEnv q [0]
      refine ⟨?_, hie⟩
      rw [hss]
      have hpre : (q.ss.put [0]).1.all <+: q.ss.all := prefix_of_snoc hp.1 (by have := hp.2; simp at this; omega)
      exact List.IsPrefix.trans (List.prefix_append _ _) hpre
    · have h1 : (q.put [0]).flagerr = false := by rw [hput]; simp [hk]
      simp only [h1, Bool.false_eq_true, ↓reduceIte] at h ⊢
      have hss : (q.put [0]).ss = (q.ss.put [0]).1 := by rw [hput]
      have hie : (q.put [0]).inEnv = q.inEnv := QQ.put_inEnv q [0]
      refine ⟨?_, hie⟩
      have hall := Sub.put_ok q.ss [0] hk
      cases hfl : ((q.put [0]).ss.flush).2
      · have hff := Sub.flush_fail _ hfl
        have hfp := Sub.flush_prefix (q.put [0]).ss
        unfold Sub.all at hfp
        rw [hff.2] at hfp
        simp only [List.append_nil] at hfp
        rw [hss] at hfp hff
        rw [hss]
        have hall' : (q.ss.put [0]).1.out ++ (q.ss.put [0]).1.buf = q.ss.all ++ [0] := hall
        rw [hall'] at hfp
        apply prefix_of_snoc hfp
        have := hff.1
        unfold Sub.all at this
        rw [hall'] at this
        simp at this; omega
      · simp [hfl] at h
  · have h1 : (q.put [0]) = q := QQ.put_flagerr q [0] hf
    simp only [h1, hf, ↓reduceIte]
    exact ⟨List.prefix_append _ _, trivial⟩

theorem QQ.close_fail_good (q : QQ) (hg : q.EnvGood) (h : q.close.flagerr = true) : envComplete q.close.envPipe = false := by
  have hc := QQ.close_fail q h
  cases he : envComplete q.close.envPipe
  · rfl
  · have hnn := envComplete_NN _ he
    unfold QQ.envPipe at hnn
    rw [hc.2, hg.1] at hnn
    simp only [↓reduceIte] at hnn
    have := HasNN_prefix hc.1 hnn
    rw [hg.2] at this; exact absurd this (by simp)

/-! ### monotonicity of flagerr -/

theorem QQ.puts_mono (l : List Bytes) (q : QQ) (h : q.flagerr = true) : (q.puts l).flagerr = true := by
  induction l generalizing q with
  | nil => exact h
  | cons b l ih => simp only [QQ.puts, List.foldl_cons] at ih ⊢; exact ih _ (QQ.put_mono q b h)

theorem QQ.apply_mono (q : QQ) (op : QOp) (h : q.flagerr = true) : (q.apply op).flagerr = true := by
  cases op with
  | put bs => exact QQ.put_mono q bs h
  | fail => rfl
  | from_ s =>
    show (q.from_ s).flagerr = true
    rw [QQ.from_eq]; apply QQ.puts_mono; simp [QQ.switch, h]
  | to r => show (q.to r).flagerr = true; rw [QQ.to_eq]; exact QQ.puts_mono _ q h
  | close =>
    show q.close.flagerr = true
    unfold QQ.close
    rw [QQ.put_flagerr q [0] h]; simp [h]

theorem QQ.run_mono : ∀ (ops : List QOp) (q : QQ), q.flagerr = true → (q.run ops).flagerr = true
  | [], _, h => h
  | op :: ops, q, h => by
    simp only [QQ.run, List.foldl_cons]
    exact QQ.run_mono ops _ (QQ.apply_mono q op h)

end Nq.QmailC

namespace Nq.QmailC
open Nq

/-! ### nothing is lost while `flagerr` stays clear (towards C07_content) -/

/-- `put` / `to` / `fail`: the calls that do not switch pipes -/
def QOp.plain : QOp → Bool
  | .put _ => true
  | .to _ => true
  | .fail => true
  | _ => false

/-- the bytes a plain call sequence means to send -/
def stream : List QOp → Bytes
  | [] => []
  | .put bs :: r => bs ++ stream r
  | .to a :: r => entry 84 a ++ stream r
  | _ :: r => stream r

theorem stream_append (a b : List QOp) : stream (a ++ b) = stream a ++ stream b := by
  induction a with
  | nil => rfl
  | cons op a ih => cases op <;> simp [stream, ih, List.append_assoc]

theorem QQ.run_append (q : QQ) (a b : List QOp) : q.run (a ++ b) = (q.run a).run b := by
  simp [QQ.run, List.foldl_append]

theorem QQ.puts_spec' (l : List Bytes) (q : QQ) :
    ((q.puts l).flagerr = false ∧ (q.puts l).ss.all = q.ss.all ++ l.flatten ∧ (q.puts l).inEnv = q.inEnv ∧
      (q.puts l).msgDone = q.msgDone) ∨ (q.puts l).flagerr = true := by
  rcases QQ.puts_spec l q with ⟨h1, h2⟩ | ⟨h1, _⟩
  · exact Or.inl ⟨h1, h2, QQ.puts_inEnv l q, QQ.puts_msgDone l q⟩
  · exact Or.inr h1

/-- a plain call sequence: either a failure is flagged, or everything put is there (written ++ buffered) -/
theorem QQ.run_stream : ∀ (ops : List QOp) (q : QQ), (∀ op ∈ ops, op.plain = true) →
    ((q.run ops).flagerr = false ∧ (q.run ops).ss.all = q.ss.all ++ stream ops ∧ (q.run ops).inEnv = q.inEnv ∧
      (q.run ops).msgDone = q.msgDone) ∨ (q.run ops).flagerr = true
  | [], q, _ => by
    cases h : q.flagerr
    · left; simp [QQ.run, stream, h]
    · right; simpa [QQ.run] using h
  | op :: ops, q, hall => by
    have hrest : ∀ o ∈ ops, o.plain = true := fun o ho => hall o (by simp [ho])
    have hop := hall op (by simp)
    have step : ((q.apply op).flagerr = false ∧ (q.apply op).ss.all = q.ss.all ++ stream [op] ∧
        (q.apply op).inEnv = q.inEnv ∧ (q.apply op).msgDone = q.msgDone) ∨ (q.apply op).flagerr = true := by
      cases op with
      | put bs => simpa [QQ.puts, stream, QQ.apply] using QQ.puts_spec' [bs] q
      | to a => simpa [stream, QQ.apply, QQ.to_eq, entry] using QQ.puts_spec' [[84], cstr a, [0]] q
      | fail => right; rfl
      | from_ s => simp [QOp.plain] at hop
      | close => simp [QOp.plain] at hop
    have hrun : q.run (op :: ops) = (q.apply op).run ops := by simp [QQ.run]
    rw [hrun]
    rcases step with ⟨s1, s2, s3, s4⟩ | hf
    · rcases QQ.run_stream ops (q.apply op) hrest with ⟨r1, r2, r3, r4⟩ | hf
      · left
        refine ⟨r1, ?_, by rw [r3, s3], by rw [r4, s4]⟩
        rw [r2, s2]
        have : stream (op :: ops) = stream [op] ++ stream ops := stream_append [op] ops
        rw [this, List.append_assoc]
      · exact Or.inr hf
    · exact Or.inr (QQ.run_mono ops _ hf)

/-- `qmail_from` without a flagged failure: the message pipe got everything, the envelope starts with `F` sender NUL -/
theorem QQ.from_ok (q : QQ) (s : Bytes) (h : (q.from_ s).flagerr = false) :
    (q.from_ s).msgDone = q.ss.all ∧ (q.from_ s).ss.all = entry 70 s ∧ (q.from_ s).inEnv = true ∧ q.flagerr = false := by
  rw [QQ.from_eq] at h ⊢
  have hsw : q.switch.flagerr = false := by
    cases hs : q.switch.flagerr
    · rfl
    · rw [QQ.puts_mono _ _ hs] at h; exact absurd h (by simp)
  have hsw' : (q.flagerr || !(q.ss.flush).2) = false := hsw
  have hq : q.flagerr = false := by cases hh : q.flagerr <;> simp [hh] at hsw' ⊢
  have hfl : (q.ss.flush).2 = true := by cases hh : (q.ss.flush).2 <;> simp [hh, hq] at hsw' ⊢
  rcases QQ.puts_spec' [[70], cstr s, [0]] q.switch with ⟨_, h2, h3, h4⟩ | hf
  · refine ⟨?_, ?_, ?_, hq⟩
    · rw [h4]; exact (Sub.flush_ok q.ss hfl).1
    · rw [h2, QQ.switch_all]; simp [entry]
    · rw [h3]; rfl
  · rw [hf] at h; exact absurd h (by simp)

/-- `qmail_close` without a flagged failure: the terminator is appended and everything is written -/
theorem QQ.close_ok (q : QQ) (h : q.close.flagerr = false) :
    q.close.ss.out = q.ss.all ++ [0] ∧ q.close.inEnv = q.inEnv ∧ q.close.msgDone = q.msgDone := by
  unfold QQ.close at h ⊢
  cases hp : (q.put [0]).flagerr
  · simp only [hp, Bool.false_eq_true, ↓reduceIte] at h ⊢
    have hfl : ((q.put [0]).ss.flush).2 = true := by
      cases hh : ((q.put [0]).ss.flush).2 <;> simp [hh] at h ⊢
    rcases QQ.puts_spec' [[0]] q with ⟨_, h2, h3, h4⟩ | hf
    · simp only [QQ.puts, List.foldl_cons, List.foldl_nil, List.flatten_cons, List.flatten_nil, List.append_nil] at h2 h3 h4
      refine ⟨?_, h3, h4⟩
      rw [(Sub.flush_ok _ hfl).1, h2]
    · simp only [QQ.puts, List.foldl_cons, List.foldl_nil] at hf
      rw [hf] at hp; exact absurd hp (by simp)
  · simp [hp] at h

/-- **content, at the level of qmail.c.**  A daemon copies the message with any plain calls, calls `qmail_from`, any
    plain calls, `qmail_close`.  If no failure is flagged at the end, the queue program has received exactly the bytes
    put on descriptor 0 and exactly `F sender NUL <recipient entries> NUL` on descriptor 1. -/
theorem QQ.content (q0 : QQ) (mops eops : List QOp) (s : Bytes)
    (h0 : q0.ss.all = []) (hin : q0.inEnv = false)
    (hm : ∀ op ∈ mops, op.plain = true) (he : ∀ op ∈ eops, op.plain = true)
    (hf : (q0.run (mops ++ [.from_ s] ++ eops ++ [.close])).flagerr = false) :
    (q0.run (mops ++ [.from_ s] ++ eops ++ [.close])).msgPipe = stream mops ∧
    (q0.run (mops ++ [.from_ s] ++ eops ++ [.close])).envPipe = entry 70 s ++ stream eops ++ [0] := by
  have hrun : q0.run (mops ++ [.from_ s] ++ eops ++ [.close]) = ((((q0.run mops).from_ s).run eops).close) := by
    simp [QQ.run_append, QQ.run, QQ.apply]
  rw [hrun] at hf ⊢
  -- walk backwards: no failure at the end means no failure anywhere
  have hc := QQ.close_ok _ hf
  have h3 : (((q0.run mops).from_ s).run eops).flagerr = false := by
    cases hh : (((q0.run mops).from_ s).run eops).flagerr
    · rfl
    · have := QQ.apply_mono _ .close hh
      simp only [QQ.apply] at this; rw [this] at hf; exact absurd hf (by simp)
  rcases QQ.run_stream eops ((q0.run mops).from_ s) he with ⟨_, e2, e3, e4⟩ | hbad
  · have h2 : ((q0.run mops).from_ s).flagerr = false := by
      cases hh : ((q0.run mops).from_ s).flagerr
      · rfl
      · rw [QQ.run_mono eops _ hh] at h3; exact absurd h3 (by simp)
    have hfr := QQ.from_ok (q0.run mops) s h2
    rcases QQ.run_stream mops q0 hm with ⟨_, m2, _, _⟩ | hbad
    · unfold QQ.msgPipe QQ.envPipe
      rw [hc.2.1, e3, hfr.2.2.1]
      simp only [↓reduceIte]
      refine ⟨?_, ?_⟩
      · rw [hc.2.2, e4, hfr.1, m2, h0]; rfl
      · rw [hc.1, e2, hfr.2.1]
    · rw [hbad] at hfr; exact absurd hfr.2.2.2 (by simp)
  · rw [hbad] at h3; exact absurd h3 (by simp)

end Nq.QmailC

namespace Nq.QmailC
open Nq

/-! ### call sequences without `qmail_close` (towards C07_cut) -/

/-- a daemon's calls before `qmail_close`: `put`/`fail` while the message is copied, then `from`, then `to`/`fail` -/
def okOps : Bool → List QOp → Bool
  | _, [] => true
  | false, .put _ :: r => okOps false r
  | false, .fail :: r => okOps false r
  | false, .from_ _ :: r => okOps true r
  | true, .to _ :: r => okOps true r
  | true, .fail :: r => okOps true r
  | _, _ => false

theorem QQ.put_inEnv' (q : QQ) (bs : Bytes) : (q.put bs).inEnv = q.inEnv := QQ.put_inEnv q bs

/-- before `qmail_close` the envelope pipe never holds a complete envelope -/
theorem QQ.run_okOps : ∀ (ops : List QOp) (q : QQ),
    okOps q.inEnv ops = true → (q.inEnv = false ∨ q.EnvGood) →
    ((q.run ops).inEnv = false ∨ (q.run ops).EnvGood)
  | [], _, _, h => h
  | op :: ops, q, hok, h => by
    have hrun : q.run (op :: ops) = (q.apply op).run ops := by simp [QQ.run]
    rw [hrun]
    cases hi : q.inEnv
    · rw [hi] at hok
      cases op with
      | put bs =>
        apply QQ.run_okOps ops
        · show okOps (q.put bs).inEnv ops = true
          rw [QQ.put_inEnv, hi]; simpa [okOps] using hok
        · left; show (q.put bs).inEnv = false; rw [QQ.put_inEnv, hi]
      | fail =>
        apply QQ.run_okOps ops
        · show okOps q.fail.inEnv ops = true
          have : q.fail.inEnv = q.inEnv := rfl
          rw [this, hi]; simpa [okOps] using hok
        · left; show q.fail.inEnv = false; exact hi
      | from_ s =>
        have hg := QQ.from_good q s
        apply QQ.run_okOps ops
        · show okOps (q.from_ s).inEnv ops = true
          rw [hg.1]; simpa [okOps] using hok
        · right; exact hg
      | to r => simp [okOps] at hok
      | close => simp [okOps] at hok
    · rw [hi] at hok
      have hg : q.EnvGood := by
        rcases h with h | h
        · rw [hi] at h; exact absurd h (by simp)
        · exact h
      cases op with
      | to r =>
        have hg' := QQ.to_good q r hg
        apply QQ.run_okOps ops
        · show okOps (q.to r).inEnv ops = true
          rw [hg'.1]; simpa [okOps] using hok
        · right; exact hg'
      | fail =>
        apply QQ.run_okOps ops
        · show okOps q.fail.inEnv ops = true
          have : q.fail.inEnv = q.inEnv := rfl
          rw [this, hi]; simpa [okOps] using hok
        · right; exact QQ.fail_good q hg
      | put bs => simp [okOps] at hok
      | from_ s => simp [okOps] at hok
      | close => simp [okOps] at hok

theorem QQ.no_close_no_envelope (w : Option Nat) (ops : List QOp) (h : okOps false ops = true) :
    envComplete ((QQ.opened w).run ops).envPipe = false := by
  rcases QQ.run_okOps ops (QQ.opened w) h (Or.inl rfl) with hi | hg
  · simp [QQ.envPipe, hi, envComplete, envParse]
  · exact envPipe_good _ hg

theorem okOps_pf_append : ∀ (a b : List QOp), (∀ op ∈ a, (match op with | .put _ => true | .fail => true | _ => false) = true) →
    okOps false (a ++ b) = okOps false b
  | [], _, _ => rfl
  | op :: a, b, h => by
    have ih := okOps_pf_append a b (fun o ho => h o (by simp [ho]))
    have hop := h op (by simp)
    cases op <;> simp_all [okOps]

theorem okOps_env_append : ∀ (a b : List QOp), (∀ op ∈ a, (match op with | .to _ => true | .fail => true | _ => false) = true) →
    okOps true (a ++ b) = okOps true b
  | [], _, _ => rfl
  | op :: a, b, h => by
    have ih := okOps_env_append a b (fun o ho => h o (by simp [ho]))
    have hop := h op (by simp)
    cases op <;> simp_all [okOps]

end Nq.QmailC
