/-
  Lemmas for C10, part 7: the record loop of `todo_do` on **every** byte string (`todoDo = specTodo`),
  NUL-freeness of what `rewrite()` produces, and the daemon acceptor: which events can change the
  configuration, and the simulation between the acceptor's state and the documented state `SpecD`.
-/
import Nq.Lemmas.RewriteCtl

namespace Nq.Lemmas.RewriteDaemon
open Nq Nq.Rewrite Nq.Route Nq.Lemmas.RewriteMap Nq.Lemmas.RewriteSpec Nq.Lemmas.RewriteTodo Nq.Lemmas.RewriteCtl

/-! ### the hash tables are the parsed files -/

theorem ht_eq (raw : RawCfg) : raw.htLookups = raw.cfg.lookups := by
  unfold RawCfg.htLookups RawCfg.cfg Cfg.lookups
  simp only [lookup_cmInit]
  congr 1
  funext k; exact lookup_cmInit raw.vdoms true k

/-! ### the record loop on arbitrary input -/

theorem chanFile_cons (ch : Chan) (x : Routed) (xs : List Routed) :
    chanFile ch (x :: xs) = (if x.chan == ch then x.line else []) ++ chanFile ch xs := by
  unfold chanFile chanRecs
  rw [List.filter_cons]
  split <;> simp

theorem chanFile_nil (ch : Chan) : chanFile ch [] = [] := rfl

theorem specInfo_eq_infoOf (recs : List Bytes) : specInfo recs = infoOf recs := rfl

theorem specInfo_cons (r : Bytes) (rs : List Bytes) :
    specInfo (r :: rs) = (if r.head? == some 70 then r ++ [NUL] else []) ++ specInfo rs := by
  unfold specInfo
  rw [List.filter_cons]
  split <;> simp

/-- the right-hand side of `todoFold_all` -/
def foldSpec (L : Lookups) (env : Bytes) (recs : List Bytes) (o : TodoOut) : Option TodoOut :=
  if recs.all recOk then
    some ⟨o.info ++ specInfo recs,
          o.loc ++ chanFile .loc ((recs.filterMap recipOf).map (rewriteWith L env)),
          o.rem ++ chanFile .rem ((recs.filterMap recipOf).map (rewriteWith L env))⟩
  else none

theorem foldSpec_skip (L : Lookups) (env : Bytes) (r : Bytes) (rs : List Bytes) (o : TodoOut)
    (hok : recOk r = true) (hrc : recipOf r = none) (hF : (r.head? == some 70) = false) :
    foldSpec L env (r :: rs) o = foldSpec L env rs o := by
  unfold foldSpec
  rw [List.all_cons, hok, Bool.true_and, List.filterMap_cons, hrc, specInfo_cons, hF]
  simp

theorem foldSpec_F (L : Lookups) (env : Bytes) (r : Bytes) (rs : List Bytes) (o : TodoOut)
    (hok : recOk r = true) (hrc : recipOf r = none) (hF : (r.head? == some 70) = true) :
    foldSpec L env (r :: rs) o = foldSpec L env rs { o with info := o.info ++ r ++ [NUL] } := by
  unfold foldSpec
  rw [List.all_cons, hok, Bool.true_and, List.filterMap_cons, hrc, specInfo_cons, hF]
  simp [List.append_assoc]

theorem foldSpec_T (L : Lookups) (env : Bytes) (r b : Bytes) (rs : List Bytes) (o : TodoOut)
    (hok : recOk r = true) (hrc : recipOf r = some b) (hF : (r.head? == some 70) = false) :
    foldSpec L env (r :: rs) o = foldSpec L env rs
      { o with loc := o.loc ++ (if (rewriteWith L env b).chan == .loc then (rewriteWith L env b).line else []),
               rem := o.rem ++ (if (rewriteWith L env b).chan == .rem then (rewriteWith L env b).line else []) } := by
  unfold foldSpec
  rw [List.all_cons, hok, Bool.true_and, List.filterMap_cons, hrc, specInfo_cons, hF]
  simp only [List.map_cons, chanFile_cons]
  simp [List.append_assoc]

theorem foldSpec_bad (L : Lookups) (env : Bytes) (r : Bytes) (rs : List Bytes) (o : TodoOut)
    (hok : recOk r = false) : foldSpec L env (r :: rs) o = none := by
  unfold foldSpec
  rw [List.all_cons, hok, Bool.false_and]
  simp

/-- `todo_do`'s record loop on any list of records: it fails iff some record is empty or of an unknown
type; otherwise it appends the `F` records to `info` and each routed `T` record to its channel -/
theorem todoFold_all (L : Lookups) (env : Bytes) (recs : List Bytes) (o : TodoOut) :
    todoFold L env recs o = foldSpec L env recs o := by
  induction recs generalizing o with
  | nil => simp [todoFold, foldSpec, specInfo, chanFile_nil]
  | cons r rs ih =>
    cases r with
    | nil => rw [foldSpec_bad _ _ _ _ _ (by rfl)]; simp [todoFold, todoStep]
    | cons t b =>
      simp only [todoFold, todoStep]
      by_cases h1 : t = 117 ∨ t = 112
      · rw [if_pos h1]
        simp only
        rw [ih, foldSpec_skip]
        · rcases h1 with h | h <;> (subst h; rfl)
        · rcases h1 with h | h <;> (subst h; rfl)
        · rcases h1 with h | h <;> (subst h; rfl)
      · rw [if_neg h1]
        by_cases h2 : t = 70
        · rw [if_pos h2]
          simp only
          subst h2
          rw [ih, foldSpec_F _ _ _ _ _ rfl rfl rfl]
        · rw [if_neg h2]
          by_cases h3 : t = TEE
          · rw [if_pos h3]
            subst h3
            rw [foldSpec_T L env _ b _ _ rfl rfl rfl]
            cases hc : (rewriteWith L env b).chan with
            | loc =>
              simp only
              rw [ih]
              simp [(by decide : (Chan.loc == Chan.loc) = true), (by decide : (Chan.loc == Chan.rem) = false)]
            | rem =>
              simp only
              rw [ih]
              simp [(by decide : (Chan.rem == Chan.rem) = true), (by decide : (Chan.rem == Chan.loc) = false)]
          · rw [if_neg h3]
            have hok : recOk (t :: b) = false := by
              simp only [recOk, Bool.or_eq_false_iff, beq_eq_false_iff_ne, ne_eq]
              exact ⟨⟨⟨h3, fun e => h1 (Or.inl e)⟩, fun e => h1 (Or.inr e)⟩, h2⟩
            rw [foldSpec_bad _ _ _ _ _ hok]

/-- the S-oracle's channel predicate is the right-hand side of `C10_partition` -/
theorem specChan_eq_of (c : Cfg) (hs : ∀ r, rewrite c r = routeSpec c r) (ch : Chan) (rs : List Bytes) :
    specChan c ch rs = chanFile ch (routeAll c rs) := by
  unfold specChan routeAll
  have : routeSpec c = rewrite c := funext (fun r => (hs r).symm)
  rw [this]
  induction rs with
  | nil => rfl
  | cons r rs ih =>
    rw [List.map_cons, List.flatMap_cons, chanFile_cons, ih]

/-- `todo_do` = the documented preprocessing, for every byte string, given `rewrite = routeSpec` -/
theorem todoDo_eq_specTodo_of (c : Cfg) (hs : ∀ r, rewrite c r = routeSpec c r) (todo : Bytes) :
    todoDo c.lookups c.env todo = specTodo c todo := by
  unfold todoDo specTodo
  rw [todoFold_all]
  unfold foldSpec
  simp only [List.nil_append]
  rw [specChan_eq_of c hs, specChan_eq_of c hs]
  rfl

/-! ### NUL-freeness -/

theorem mem_take {α : Type} {x : α} {l : List α} {n : Nat} (h : x ∈ l.take n) : x ∈ l :=
  (List.take_sublist n l).subset h

theorem mem_set_elim {x c : Byte} {l : Bytes} {n : Nat} (h : x ∈ l.set n c) : x = c ∨ x ∈ l := by
  induction l generalizing n with
  | nil => simp at h
  | cons y r ih =>
    cases n with
    | zero =>
      simp only [List.set_cons_zero, List.mem_cons] at h
      rcases h with h | h
      · exact Or.inl h
      · exact Or.inr (List.mem_cons_of_mem _ h)
    | succ n =>
      simp only [List.set_cons_succ, List.mem_cons] at h
      rcases h with h | h
      · exact Or.inr (by simp [h])
      · rcases ih h with h | h
        · exact Or.inl h
        · exact Or.inr (List.mem_cons_of_mem _ h)

/-- the percent-hack loop only truncates and writes `@` -/
theorem phLoop_mem (ph : Bytes → Bool) (fuel : Nat) (addr : Bytes) (i : Nat) (x : Byte)
    (h : x ∈ phLoop ph fuel addr i) : x = AT ∨ x ∈ addr := by
  induction fuel generalizing addr i with
  | zero => exact Or.inr h
  | succ n ih =>
    simp only [phLoop] at h
    split at h
    · split at h
      · exact Or.inr h
      · rcases ih _ _ h with h | h
        · exact Or.inl h
        · rcases mem_set_elim h with h | h
          · exact Or.inl h
          · exact Or.inr (mem_take h)
    · exact Or.inr h

theorem vscan_val (vd : Bytes → Option Bytes) (addr : Bytes) (at_ : Nat) (n i : Nat) (x : Bytes)
    (h : vscan vd addr at_ n i = some x) : ∃ k, vd k = some x := by
  induction n generalizing i with
  | zero => simp [vscan] at h
  | succ n ih =>
    simp only [vscan] at h
    split at h
    · cases hv : vd (addr.drop i) with
      | some y => rw [hv] at h; simp only [Option.some.injEq] at h; exact ⟨_, h ▸ hv⟩
      | none => rw [hv] at h; exact ih _ h
    · exact ih _ h

theorem mapLookupRev_val (k : Bytes) (es : List Ent) (v : Bytes) (h : mapLookupRev k es = some v) :
    ∃ e ∈ es, e.val = v := by
  induction es with
  | nil => simp [mapLookupRev] at h
  | cons e r ih =>
    simp only [mapLookupRev] at h
    split at h
    · simp only [Option.some.injEq] at h; exact ⟨e, by simp, h⟩
    · obtain ⟨e', he', hv⟩ := ih h; exact ⟨e', List.mem_cons_of_mem _ he', hv⟩

theorem mapLookup_val (es : List Ent) (k v : Bytes) (h : mapLookup es k = some v) : ∃ e ∈ es, e.val = v := by
  obtain ⟨e, he, hv⟩ := mapLookupRev_val k es.reverse v h
  exact ⟨e, by simpa using he, hv⟩

theorem tailPart_nulfree (c : Cfg) (addr : Bytes) (ha : NUL ∉ addr) (hv : ∀ e ∈ c.vdoms, NUL ∉ e.val) :
    NUL ∉ (tailPart c.lookups addr).tag ∧ NUL ∉ (tailPart c.lookups addr).addr := by
  unfold tailPart
  split
  · exact ⟨by simp, ha⟩
  · split
    · rename_i x hx
      split
      · exact ⟨by simp, ha⟩
      · refine ⟨?_, ha⟩
        obtain ⟨k, hk⟩ := vscan_val _ _ _ _ _ _ hx
        obtain ⟨e, hem, hev⟩ := mapLookup_val c.vdoms k x hk
        exact hev ▸ hv e hem
    · exact ⟨by simp, ha⟩

/-- **`rewrite()` introduces no NUL**: recipient, `envnoathost` and the virtualdomains prepends NUL-free
⇒ tag and address NUL-free -/
theorem rewrite_nulfree (c : Cfg) (r : Bytes) (hr : NUL ∉ r) (he : NUL ∉ c.env)
    (hv : ∀ e ∈ c.vdoms, NUL ∉ e.val) : NUL ∉ (rewrite c r).tag ∧ NUL ∉ (rewrite c r).addr := by
  have haddr0 : NUL ∉ (if rchr AT r = r.length then r ++ AT :: c.env else r) := by
    split
    · simp only [List.mem_append, List.mem_cons, not_or]
      exact ⟨hr, by decide, he⟩
    · exact hr
  have haddr : NUL ∉ phLoop c.lookups.ph ((if rchr AT r = r.length then r ++ AT :: c.env else r).length + 1)
      (if rchr AT r = r.length then r ++ AT :: c.env else r) (rchr AT r) := by
    intro hm
    rcases phLoop_mem _ _ _ _ _ hm with h | h
    · exact absurd h (by decide)
    · exact haddr0 h
  unfold rewrite
  rw [rewriteWith_eq]
  exact tailPart_nulfree c _ haddr hv

theorem chunksGo_nulfree (s acc : Bytes) (ha : NUL ∉ acc) : ∀ r ∈ chunksGo s acc, NUL ∉ r := by
  induction s generalizing acc with
  | nil => intro r hr; simp [chunksGo] at hr
  | cons c t ih =>
    intro r hr
    simp only [chunksGo] at hr
    split at hr
    · rcases List.mem_cons.1 hr with rfl | hr
      · simpa using ha
      · exact ih [] (by simp) r hr
    · rename_i hc
      exact ih (c :: acc) (by simp only [List.mem_cons, not_or]; exact ⟨fun e => hc e.symm, ha⟩) r hr

/-- the records `constmap_init` and `todo_do` see never contain a NUL -/
theorem chunks_nulfree (s : Bytes) : ∀ r ∈ chunks s, NUL ∉ r := chunksGo_nulfree s [] (by simp)

theorem splitColon_mem (l a b : Bytes) (h : splitColon l = some (a, b)) : ∀ x ∈ b, x ∈ l := by
  induction l generalizing a b with
  | nil => simp [splitColon] at h
  | cons c r ih =>
    simp only [splitColon] at h
    split at h
    · simp only [Option.some.injEq, Prod.mk.injEq] at h
      intro x hx; exact List.mem_cons_of_mem _ (h.2 ▸ hx)
    · cases hs : splitColon r with
      | none => rw [hs] at h; simp at h
      | some p =>
        rw [hs] at h
        simp only [Option.some.injEq, Prod.mk.injEq] at h
        intro x hx
        exact List.mem_cons_of_mem _ (ih p.1 p.2 (by rw [hs]) x (h.2 ▸ hx))

/-- every prepend `constmap_init` extracts from a buffer is NUL-free (whatever the buffer) -/
theorem parseEntries_val_nulfree (s : Bytes) (fc : Bool) : ∀ e ∈ parseEntries s fc, NUL ∉ e.val := by
  intro e he
  unfold parseEntries at he
  obtain ⟨ch, hch, hent⟩ := List.mem_filterMap.1 he
  have hnf := chunks_nulfree s ch hch
  unfold entOf at hent
  split at hent
  · cases hs : splitColon ch with
    | none => rw [hs] at hent; simp at hent
    | some p =>
      rw [hs] at hent
      simp only [Option.some.injEq] at hent
      subst hent
      intro hm
      exact hnf (splitColon_mem ch p.1 p.2 (by rw [hs]) NUL hm)
  · simp only [Option.some.injEq] at hent
    subst hent; simp

theorem stripWs_mem (l : Bytes) (x : Byte) (h : x ∈ stripWs l) : x ∈ l := by
  unfold stripWs at h
  rw [List.mem_reverse] at h
  have := (List.dropWhile_suffix isWs (l := l.reverse)).subset h
  simpa using this

theorem readline_nulfree (o : Option Bytes) (h : ∀ s, o = some s → NUL ∉ s) : ∀ l, readline o = some l → NUL ∉ l := by
  intro l hl
  cases o with
  | none => simp [readline] at hl
  | some s =>
    simp only [readline, Option.some.injEq] at hl
    subst hl
    intro hm
    have h1 := stripWs_mem _ _ hm
    have h2 : NUL ∈ s := (List.takeWhile_sublist _).subset h1
    exact h s rfl h2

/-- `envnoathost` as `getcontrols()` leaves it is NUL-free when `control/envnoathost` and
`control/me` are -/
theorem getcontrols_env_nulfree (f : Files) (raw : RawCfg) (hme : ∀ s, f.me = some s → NUL ∉ s)
    (henv : ∀ s, f.env = some s → NUL ∉ s) (hg : getcontrols f = some raw) : NUL ∉ raw.env := by
  unfold getcontrols at hg
  simp only at hg
  split at hg
  · simp at hg
  · simp only [Option.some.injEq] at hg
    subst hg
    simp only
    cases he : readline f.env with
    | some e => exact readline_nulfree f.env henv e he
    | none =>
      simp only
      cases hm : readline f.me with
      | some m => exact readline_nulfree f.me hme m hm
      | none => simp only [ENVDEFAULT]; decide

/-! ### the acceptor: what can change the configuration -/

theorem top_idle (d : Daemon) (h : d.flagread = false) : d.top = d := by simp [Daemon.top, h]

theorem top_flag (d : Daemon) : d.top.flagread = false := by
  unfold Daemon.top; split <;> simp_all

theorem top_top (d : Daemon) : d.top.top = d.top := top_idle _ (top_flag d)

theorem reget_env (me : Option Bytes) (old : RawCfg) (f : Files) : (reget me old f).env = old.env := by
  simp only [reget]; split <;> rfl

theorem reget_ph (me : Option Bytes) (old : RawCfg) (f : Files) : (reget me old f).ph = old.ph := by
  simp only [reget]; split <;> rfl

/-- `me`, `envnoathost` and `percenthack` are never touched after start-up, whatever happens -/
theorem accept_fixed (d d' : Daemon) (e : Ev) (h : accept d e = some d') :
    d'.me = d.me ∧ d'.cfg.env = d.cfg.env ∧ d'.cfg.ph = d.cfg.ph := by
  cases e with
  | edit f => simp only [accept, Option.some.injEq] at h; subst h; exact ⟨rfl, rfl, rfl⟩
  | hup => simp only [accept, Option.some.injEq] at h; subst h; exact ⟨rfl, rfl, rfl⟩
  | top =>
    simp only [accept, Option.some.injEq] at h; subst h
    unfold Daemon.top
    split
    · exact ⟨rfl, reget_env _ _ _, reget_ph _ _ _⟩
    · exact ⟨rfl, rfl, rfl⟩
  | msg todo out =>
    simp only [accept] at h
    split at h
    · simp only [Option.some.injEq] at h; subst h; exact ⟨rfl, rfl, rfl⟩
    · simp at h

theorem acceptAll_fixed (es : List Ev) : ∀ (d dn : Daemon), acceptAll d es = some dn →
    dn.me = d.me ∧ dn.cfg.env = d.cfg.env ∧ dn.cfg.ph = d.cfg.ph := by
  induction es with
  | nil => intro d dn h; simp only [acceptAll, Option.some.injEq] at h; subst h; exact ⟨rfl, rfl, rfl⟩
  | cons e es ih =>
    intro d dn h
    simp only [acceptAll] at h
    cases ha : accept d e with
    | none => rw [ha] at h; simp at h
    | some d' =>
      rw [ha] at h
      obtain ⟨a1, a2, a3⟩ := accept_fixed d d' e ha
      obtain ⟨b1, b2, b3⟩ := ih d' dn h
      exact ⟨b1.trans a1, b2.trans a2, b3.trans a3⟩

def isHup : Ev → Bool
  | .hup => true
  | _ => false

/-- with no reread pending and no SIGHUP in the trace, nothing — no edit of the files, no number of
loop rounds — changes the configuration, and every message is preprocessed under it -/
theorem acceptAll_stable (es : List Ev) : ∀ (d dn : Daemon), d.flagread = false → es.all (fun e => !isHup e) = true →
    acceptAll d es = some dn →
    dn.cfg = d.cfg ∧ dn.flagread = false ∧
      ∀ todo out, Ev.msg todo out ∈ es → out = todoDo d.cfg.htLookups d.cfg.env todo := by
  induction es with
  | nil =>
    intro d dn hf _ h
    simp only [acceptAll, Option.some.injEq] at h; subst h
    exact ⟨rfl, hf, fun _ _ hm => by cases hm⟩
  | cons e es ih =>
    intro d dn hf hall h
    simp only [List.all_cons, Bool.and_eq_true] at hall
    simp only [acceptAll] at h
    cases ha : accept d e with
    | none => rw [ha] at h; simp at h
    | some d' =>
      rw [ha] at h
      have key : d'.cfg = d.cfg ∧ d'.flagread = false ∧
          ∀ todo out, e = Ev.msg todo out → out = todoDo d.cfg.htLookups d.cfg.env todo := by
        cases e with
        | edit f => simp only [accept, Option.some.injEq] at ha; subst ha; exact ⟨rfl, hf, fun _ _ he => by cases he⟩
        | hup => simp [isHup] at hall
        | top =>
          simp only [accept, Option.some.injEq] at ha; subst ha
          rw [top_idle d hf]; exact ⟨rfl, hf, fun _ _ he => by cases he⟩
        | msg todo out =>
          simp only [accept] at ha
          split at ha
          · rename_i hq
            simp only [Option.some.injEq] at ha; subst ha
            refine ⟨rfl, hf, fun t o he => ?_⟩
            cases he; exact hq.symm
          · simp at ha
      obtain ⟨k1, k2, k3⟩ := key
      obtain ⟨i1, i2, i3⟩ := ih d' dn k2 hall.2 h
      refine ⟨i1.trans k1, i2, fun todo out hm => ?_⟩
      rcases List.mem_cons.1 hm with hm | hm
      · exact k3 todo out hm.symm
      · rw [← k1]; exact i3 todo out hm

/-! ### simulation: acceptor state vs documented state -/

theorem nulFreeB_iff (f : Files) : nulFreeB f = true ↔ nulFreeFiles f := by
  obtain ⟨me, env, locals, ph, vdoms⟩ := f
  unfold nulFreeB nulFreeFiles
  cases me <;> cases env <;> cases locals <;> cases ph <;> cases vdoms <;> simp

/-- the acceptor's state `d` and the documented state `s` describe the same daemon -/
structure Sim (f0 : Files) (d : Daemon) (s : SpecD) : Prop where
  me : d.me = readline f0.me
  me0 : ∀ m, f0.me = some m → NUL ∉ m
  cfg : d.cfg.cfg = s.cfg
  files : d.files = s.files
  flag : d.flagread = s.pending

theorem sim_start (f0 : Files) (d0 : Daemon) (s0 : SpecD) (hd : start f0 = some d0) (hs : specStart f0 = some s0) :
    Sim f0 d0 s0 := by
  unfold specStart at hs
  split at hs
  · rename_i hnf
    have hnf' := (nulFreeB_iff f0).1 hnf
    have hc := getcontrols_eq_spec f0 hnf'
    unfold start at hd
    cases hg : getcontrols f0 with
    | none => rw [hg] at hd; simp at hd
    | some raw =>
      rw [hg] at hd hc
      simp only [Option.some.injEq] at hd
      subst hd
      simp only [Option.map_some] at hc
      rw [← hc] at hs
      simp only [Option.some.injEq] at hs
      subst hs
      exact ⟨rfl, hnf'.1, rfl, rfl, rfl⟩
  · simp at hs

/-- the daemon starts exactly when the documents say it does (NUL-free control directory) -/
theorem start_iff_spec (f0 : Files) (h : nulFreeB f0 = true) : (start f0).isSome = (specStart f0).isSome := by
  have hc := getcontrols_eq_spec f0 ((nulFreeB_iff f0).1 h)
  unfold start specStart
  rw [if_pos h, ← hc]
  cases getcontrols f0 <;> rfl

/-- one event: the judgement holds and the simulation is preserved. `hroute` = "the model's
`rewrite` is the documented rule under this configuration" (supplied by `C10_spec`). -/
theorem sim_step (f0 : Files) (d d' : Daemon) (s : SpecD) (e : Ev) (hsim : Sim f0 d s)
    (hroute : noDupKeys s.cfg.vdoms = true → ∀ r, rewrite s.cfg r = routeSpec s.cfg r)
    (ha : accept d e = some d') :
    specJudge s e = true ∧ ∀ s', specStep f0 s e = some s' → Sim f0 d' s' := by
  obtain ⟨hme, hme0, hcfg, hfiles, hflag⟩ := hsim
  cases e with
  | edit f =>
    simp only [accept, Option.some.injEq] at ha; subst ha
    refine ⟨rfl, fun s' hs' => ?_⟩
    simp only [specStep, Option.some.injEq] at hs'; subst hs'
    exact ⟨hme, hme0, hcfg, rfl, hflag⟩
  | hup =>
    simp only [accept, Option.some.injEq] at ha; subst ha
    refine ⟨rfl, fun s' hs' => ?_⟩
    simp only [specStep, Option.some.injEq] at hs'; subst hs'
    exact ⟨hme, hme0, hcfg, hfiles, rfl⟩
  | top =>
    simp only [accept, Option.some.injEq] at ha; subst ha
    refine ⟨rfl, fun s' hs' => ?_⟩
    simp only [specStep] at hs'
    by_cases hp : s.pending = true
    · rw [if_pos hp] at hs'
      split at hs'
      · rename_i hnf
        simp only [Option.some.injEq] at hs'; subst hs'
        have hfl : d.flagread = true := hflag.trans hp
        have hnf' : nulFreeFiles d.files := by rw [hfiles]; exact (nulFreeB_iff _).1 hnf
        refine ⟨?_, hme0, ?_, ?_, ?_⟩
        · simp [Daemon.top, hfl, hme]
        · simp only [Daemon.top, hfl, if_true]
          rw [hme, reget_eq_spec f0 d.files d.cfg hme0 hnf', hcfg, hfiles]
        · simp [Daemon.top, hfl, hfiles]
        · simp [Daemon.top, hfl]
      · simp at hs'
    · rw [if_neg hp] at hs'
      simp only [Option.some.injEq] at hs'; subst hs'
      have hfl : d.flagread = false := by rw [hflag]; simpa using hp
      rw [top_idle d hfl]
      exact ⟨hme, hme0, hcfg, hfiles, hflag⟩
  | msg todo out =>
    simp only [accept] at ha
    split at ha
    · rename_i hq
      simp only [Option.some.injEq] at ha; subst ha
      refine ⟨?_, fun s' hs' => ?_⟩
      · simp only [specJudge, Bool.or_eq_true, Bool.not_eq_true', decide_eq_true_eq]
        by_cases hnd : noDupKeys s.cfg.vdoms = true
        · right
          rw [← hq, ht_eq, ← todoDo_eq_specTodo_of s.cfg (hroute hnd) todo, ← hcfg]
          rfl
        · left; simpa using hnd
      · simp only [specStep, Option.some.injEq] at hs'; subst hs'
        exact ⟨hme, hme0, hcfg, hfiles, hflag⟩
    · simp at ha

theorem sim_trace (f0 : Files)
    (hroute : ∀ c : Cfg, noDupKeys c.vdoms = true → ∀ r, rewrite c r = routeSpec c r)
    (es : List Ev) : ∀ (d dn : Daemon) (s : SpecD), Sim f0 d s → acceptAll d es = some dn →
      specTrace f0 (some s) es = true := by
  induction es with
  | nil => intro d dn s _ _; rfl
  | cons e es ih =>
    intro d dn s hsim h
    simp only [acceptAll] at h
    cases ha : accept d e with
    | none => rw [ha] at h; simp at h
    | some d' =>
      rw [ha] at h
      obtain ⟨hj, hn⟩ := sim_step f0 d d' s e hsim (hroute s.cfg) ha
      simp only [specTrace, hj, Bool.true_and]
      cases hs : specStep f0 s e with
      | none => simp [specTrace]
      | some s' => exact ih d' dn s' (hn s' hs) h

end Nq.Lemmas.RewriteDaemon
