/- The linear-probing round trip on the structured cdb tables: looking a key up in the tables that
   cdbmake builds (`findStruct`) returns the data of the first pair with that key (`assocFind`). -/
import Nq.Users

namespace Nq.Lemmas.Users
open Nq Nq.Users

abbrev Tbl := List (Option Ent)

/-- pointwise: every occupied slot of `a` is unchanged in `b` -/
def Ext : Tbl → Tbl → Prop
  | [], [] => True
  | x :: a, y :: b => (x ≠ none → y = x) ∧ Ext a b
  | _, _ => False

theorem ext_refl : ∀ a : Tbl, Ext a a
  | [] => trivial
  | _ :: a => ⟨fun _ => rfl, ext_refl a⟩

theorem ext_length : ∀ {a b : Tbl}, Ext a b → a.length = b.length
  | [], [], _ => rfl
  | _ :: a, _ :: b, h => by simp [ext_length h.2]
  | [], _ :: _, h => by simp [Ext] at h
  | _ :: _, [], h => by simp [Ext] at h

theorem ext_append : ∀ {a b c d : Tbl}, Ext a b → Ext c d → Ext (a ++ c) (b ++ d)
  | [], [], _, _, _, h2 => by simpa using h2
  | x :: a, y :: b, _, _, h1, h2 => ⟨h1.1, ext_append h1.2 h2⟩
  | [], _ :: _, _, _, h, _ => by simp [Ext] at h
  | _ :: _, [], _, _, h, _ => by simp [Ext] at h

theorem ext_drop : ∀ (n : Nat) {a b : Tbl}, Ext a b → Ext (a.drop n) (b.drop n)
  | 0, _, _, h => by simpa using h
  | _ + 1, [], [], _ => by simp [Ext]
  | n + 1, _ :: a, _ :: b, h => by simpa using ext_drop n h.2
  | _ + 1, [], _ :: _, h => by simp [Ext] at h
  | _ + 1, _ :: _, [], h => by simp [Ext] at h

theorem ext_take : ∀ (n : Nat) {a b : Tbl}, Ext a b → Ext (a.take n) (b.take n)
  | 0, _, _, _ => by simp [Ext]
  | _ + 1, [], [], _ => by simp [Ext]
  | n + 1, _ :: a, _ :: b, h => by
    simp only [List.take_succ_cons]; exact ⟨h.1, ext_take n h.2⟩
  | _ + 1, [], _ :: _, h => by simp [Ext] at h
  | _ + 1, _ :: _, [], h => by simp [Ext] at h

theorem ext_fillFirst (e : Ent) : ∀ r : Tbl, Ext r (fillFirst r e)
  | [] => trivial
  | none :: r => ⟨fun h => absurd rfl h, ext_refl r⟩
  | some _ :: r => ⟨fun _ => rfl, ext_fillFirst e r⟩

theorem ext_rot (s : Nat) {a b : Tbl} (h : Ext a b) : Ext (rot a s) (rot b s) :=
  ext_append (ext_drop s h) (ext_take s h)

theorem ext_unrot (s : Nat) {a b : Tbl} (h : Ext a b) : Ext (unrot a s) (unrot b s) := by
  unfold unrot
  rw [← ext_length h]
  exact ext_append (ext_drop _ h) (ext_take _ h)

theorem length_rot {α} (t : List α) (s : Nat) : (rot t s).length = t.length := by
  simp [rot] <;> omega

theorem length_unrot {α} (t : List α) (s : Nat) : (unrot t s).length = t.length := by
  simp [unrot] <;> omega

theorem length_fillFirst (e : Ent) : ∀ r : Tbl, (fillFirst r e).length = r.length
  | [] => rfl
  | none :: r => by simp [fillFirst]
  | some _ :: r => by simp [fillFirst, length_fillFirst e r]

theorem unrot_rot {α} (t : List α) (s : Nat) (h : s ≤ t.length) : unrot (rot t s) s = t := by
  unfold unrot
  rw [length_rot]
  have hl : t.length - s = (t.drop s).length := by simp
  unfold rot
  rw [hl, List.drop_left, List.take_left, List.take_append_drop]

theorem rot_unrot {α} (r : List α) (s : Nat) (h : s ≤ r.length) : rot (unrot r s) s = r := by
  unfold rot unrot
  have hr : r.take (r.length - s) ++ r.drop (r.length - s) = r := List.take_append_drop _ _
  have hlen : (r.drop (r.length - s)).length = s := by simp; omega
  generalize r.drop (r.length - s) = A at hr hlen ⊢
  generalize r.take (r.length - s) = B at hr ⊢
  rw [← hlen, List.drop_left, List.take_left, hr]

theorem mem_rot {α} {y : α} {t : List α} {s : Nat} (h : y ∈ rot t s) : y ∈ t := by
  rcases List.mem_append.mp h with h | h
  · exact List.mem_of_mem_drop h
  · exact List.mem_of_mem_take h

theorem mem_rot' {α} {y : α} {t : List α} (s : Nat) (h : y ∈ t) : y ∈ rot t s := by
  rw [← List.take_append_drop s t] at h
  rcases List.mem_append.mp h with h | h
  · exact List.mem_append.mpr (Or.inr h)
  · exact List.mem_append.mpr (Or.inl h)

theorem mem_unrot {α} {y : α} {t : List α} {s : Nat} (h : y ∈ unrot t s) : y ∈ t := by
  rcases List.mem_append.mp h with h | h
  · exact List.mem_of_mem_drop h
  · exact List.mem_of_mem_take h

theorem mem_fillFirst (e : Ent) {y : Option Ent} : ∀ {r : Tbl}, y ∈ fillFirst r e → y = some e ∨ y ∈ r
  | [], h => by simp [fillFirst] at h
  | none :: r, h => by
    simp only [fillFirst, List.mem_cons] at h
    rcases h with h | h
    · exact Or.inl h
    · exact Or.inr (by simp [h])
  | some x :: r, h => by
    simp only [fillFirst, List.mem_cons] at h
    rcases h with h | h
    · exact Or.inr (by simp [h])
    · rcases mem_fillFirst e h with h | h
      · exact Or.inl h
      · exact Or.inr (by simp [h])

/-- number of free slots -/
def free : Tbl → Nat
  | [] => 0
  | none :: r => free r + 1
  | some _ :: r => free r

theorem free_append : ∀ (a b : Tbl), free (a ++ b) = free a + free b
  | [], b => by simp [free]
  | none :: a, b => by simp [free, free_append a b]; omega
  | some _ :: a, b => by simp [free, free_append a b]

theorem free_replicate : ∀ n : Nat, free (List.replicate n none) = n
  | 0 => rfl
  | n + 1 => by simp [List.replicate_succ, free, free_replicate n]

theorem free_pos_mem : ∀ {t : Tbl}, 0 < free t → none ∈ t
  | [], h => by simp [free] at h
  | none :: _, _ => by simp
  | some _ :: r, h => by
    have : none ∈ r := free_pos_mem (by simpa [free] using h)
    simp [this]

theorem count_rot (t : Tbl) (s : Nat) : free (rot t s) = free t := by
  have := congrArg free (List.take_append_drop s t)
  simp only [free_append] at this
  simp only [rot, free_append]; omega

theorem count_unrot (t : Tbl) (s : Nat) : free (unrot t s) = free t := by
  have := congrArg free (List.take_append_drop (t.length - s) t)
  simp only [free_append] at this
  simp only [unrot, free_append]; omega

theorem count_fillFirst (e : Ent) : ∀ r : Tbl, free r ≤ free (fillFirst r e) + 1
  | [] => by simp [fillFirst, free]
  | none :: r => by simp [fillFirst, free]
  | some x :: r => by
    have := count_fillFirst e r
    simp [fillFirst, free]; omega

/-! insertion -/

theorem home_lt (h : UInt32) {len : Nat} (hl : 0 < len) : home h len < len := Nat.mod_lt _ hl

theorem insert_length (t : Tbl) (e : Ent) : (insertEnt t e).length = t.length := by
  simp [insertEnt, length_unrot, length_fillFirst, length_rot]

theorem insert_ext (t : Tbl) (e : Ent) (hl : 0 < t.length) : Ext t (insertEnt t e) := by
  have hs := Nat.le_of_lt (home_lt e.h hl)
  have := ext_unrot (home e.h t.length) (ext_fillFirst e (rot t (home e.h t.length)))
  rw [unrot_rot t _ hs] at this
  exact this

theorem insert_rot (t : Tbl) (e : Ent) (hl : 0 < t.length) :
    rot (insertEnt t e) (home e.h t.length) = fillFirst (rot t (home e.h t.length)) e := by
  unfold insertEnt
  apply rot_unrot
  rw [length_fillFirst, length_rot]
  exact Nat.le_of_lt (home_lt e.h hl)

theorem insert_mem (t : Tbl) (e : Ent) {x : Ent} (h : some x ∈ insertEnt t e) : x = e ∨ some x ∈ t := by
  rcases mem_fillFirst e (mem_unrot h) with h | h
  · exact Or.inl (by simpa using h)
  · exact Or.inr (mem_rot h)

theorem insert_count (t : Tbl) (e : Ent) : free t ≤ free (insertEnt t e) + 1 := by
  unfold insertEnt
  rw [count_unrot]
  have := count_fillFirst e (rot t (home e.h t.length))
  rw [count_rot] at this
  exact this

/-! scanning -/

theorem scan_ext (k : Bytes) (h : UInt32) (d : Bytes) : ∀ {r r' : Tbl}, Ext r r' → scan k h r = some d → scan k h r' = some d
  | [], [], _, hs => hs
  | none :: _, _ :: _, _, hs => by simp [scan] at hs
  | some x :: r, y :: r', he, hs => by
    have hy : y = some x := he.1 (by simp)
    subst hy
    simp only [scan] at hs ⊢
    split
    · rename_i hc; simpa [hc] using hs
    · rename_i hc; simp only [hc, if_false] at hs; exact scan_ext k h d he.2 hs
  | [], _ :: _, he, _ => by simp [Ext] at he
  | _ :: _, [], he, _ => by simp [Ext] at he

theorem scan_none_of_no_key (k : Bytes) (h : UInt32) : ∀ (r : Tbl), (∀ x, some x ∈ r → x.key ≠ k) → scan k h r = none
  | [], _ => rfl
  | none :: _, _ => rfl
  | some x :: r, hr => by
    have hx : x.key ≠ k := hr x (by simp)
    simp only [scan, hx, and_false, if_false]
    exact scan_none_of_no_key k h r (fun y hy => hr y (by simp [hy]))

theorem scan_fill (k : Bytes) (h : UInt32) (e : Ent) (he : e.h = h) (hk : e.key = k) :
    ∀ (r : Tbl), (∀ x, some x ∈ r → x.key ≠ k) → none ∈ r → scan k h (fillFirst r e) = some e.data
  | [], _, hn => by simp at hn
  | none :: _, _, _ => by simp [fillFirst, scan, he, hk]
  | some x :: r, hr, hn => by
    have hx : x.key ≠ k := hr x (by simp)
    simp only [fillFirst, scan, hx, and_false, if_false]
    refine scan_fill k h e he hk r (fun y hy => hr y (by simp [hy])) ?_
    simpa using hn

/-! the invariant of cdbmake_throw's insertion loop, for a fixed key `k` -/

structure Inv (k : Bytes) (len : Nat) (done : List Ent) (T : Tbl) : Prop where
  hlen : T.length = len
  hmem : ∀ x, some x ∈ T → x ∈ done
  hcnt : len ≤ free T + done.length
  hscn : scan k (hashKey k) (rot T (home (hashKey k) len)) = (done.find? (fun e => e.key == k)).map (·.data)

theorem inv_init (k : Bytes) (len : Nat) : Inv k len [] (List.replicate len none) where
  hlen := by simp
  hmem := by intro x hx; simp [List.mem_replicate] at hx
  hcnt := by simp [free_replicate]
  hscn := by
    simp only [List.find?_nil, Option.map_none]
    apply scan_none_of_no_key
    intro x hx
    have := mem_rot hx
    simp [List.mem_replicate] at this

theorem inv_step (k : Bytes) (len : Nat) (done : List Ent) (T : Tbl) (e : Ent)
    (hI : Inv k len done T) (hroom : done.length < len) (heh : e.h = hashKey e.key) :
    Inv k len (done ++ [e]) (insertEnt T e) := by
  have hpos : 0 < T.length := by rw [hI.hlen]; omega
  refine ⟨by rw [insert_length, hI.hlen], ?_, ?_, ?_⟩
  · intro x hx
    rcases insert_mem T e hx with rfl | hx
    · simp
    · simp [hI.hmem x hx]
  · have := insert_count T e
    have := hI.hcnt
    simp only [List.length_append, List.length_cons, List.length_nil]
    omega
  · rw [List.find?_append]
    have hext : Ext (rot T (home (hashKey k) len)) (rot (insertEnt T e) (home (hashKey k) len)) :=
      ext_rot _ (insert_ext T e hpos)
    cases hf : done.find? (fun e => e.key == k) with
    | some x =>
      have := hI.hscn
      rw [hf] at this
      simpa using scan_ext k _ _ hext this
    | none =>
      have hdone : ∀ x ∈ done, x.key ≠ k := by
        intro x hx hk
        have := List.find?_eq_none.mp hf x hx
        simp [hk] at this
      by_cases hk : e.key = k
      · have hh : e.h = hashKey k := by rw [heh, hk]
        have hrot := insert_rot T e hpos
        rw [hI.hlen, hh] at hrot
        rw [hrot]
        have hnone : none ∈ T := by
          have := hI.hcnt
          have hc : 0 < free T := by omega
          exact free_pos_mem hc
        have := scan_fill k (hashKey k) e hh hk (rot T (home (hashKey k) len))
          (fun x hx => hdone x (hI.hmem x (mem_rot hx))) (mem_rot' _ hnone)
        simp [this, hk]
      · have : scan k (hashKey k) (rot (insertEnt T e) (home (hashKey k) len)) = none := by
          apply scan_none_of_no_key
          intro x hx
          rcases insert_mem T e (mem_rot hx) with rfl | hx
          · exact hk
          · exact hdone x (hI.hmem x hx)
        simp [this, hk]

theorem inv_foldl (k : Bytes) (len : Nat) : ∀ (l done : List Ent) (T : Tbl),
    Inv k len done T → done.length + l.length < len + 1 → (∀ e ∈ l, e.h = hashKey e.key) →
    Inv k len (done ++ l) (l.foldl insertEnt T)
  | [], done, T, hI, _, _ => by simpa using hI
  | e :: l, done, T, hI, hroom, hh => by
    have h1 := inv_step k len done T e hI (by simp at hroom; omega) (hh e (by simp))
    have := inv_foldl k len l (done ++ [e]) (insertEnt T e) h1 (by simp at hroom ⊢; omega)
      (fun x hx => hh x (by simp [hx]))
    simpa using this

/-- one table: scanning the table built from `l` finds the first entry of `l` with key `k` -/
theorem buildTable_scan (k : Bytes) (l : List Ent) (hh : ∀ e ∈ l, e.h = hashKey e.key) :
    (buildTable l).length = 2 * l.length ∧
    scan k (hashKey k) (rot (buildTable l) (home (hashKey k) (2 * l.length))) =
      (l.find? (fun e => e.key == k)).map (·.data) := by
  have := inv_foldl k (2 * l.length) l [] _ (inv_init k (2 * l.length)) (by simp; omega) hh
  simp only [List.nil_append] at this
  exact ⟨this.hlen, this.hscn⟩

/-! from the records to the source list -/

theorem mkEnts_hash : ∀ (es : List (Bytes × Bytes)) (pos : Nat), ∀ e ∈ mkEnts es pos, e.h = hashKey e.key
  | [], _, e, he => by simp [mkEnts] at he
  | (k, d) :: r, pos, e, he => by
    simp only [mkEnts, List.mem_cons] at he
    rcases he with rfl | he
    · rfl
    · exact mkEnts_hash r _ e he

theorem mkEnts_find (k : Bytes) : ∀ (es : List (Bytes × Bytes)) (pos : Nat),
    ((mkEnts es pos).find? (fun e => e.key == k)).map (·.data) = assocFind es k
  | [], _ => by simp [mkEnts, assocFind]
  | (k', d) :: r, pos => by
    simp only [mkEnts, List.find?_cons, assocFind]
    by_cases hk : k' = k
    · simp [hk]
    · have : (k' == k) = false := by simpa using hk
      simp only [this, hk, if_false]
      exact mkEnts_find k r _

theorem find?_filter_of_imp {α} (p q : α → Bool) : ∀ (l : List α), (∀ x ∈ l, q x = true → p x = true) →
    (l.filter p).find? q = l.find? q
  | [], _ => rfl
  | x :: l, h => by
    have ih := find?_filter_of_imp p q l (fun y hy => h y (by simp [hy]))
    by_cases hq : q x = true
    · have hp := h x (by simp) hq
      simp [List.filter_cons, hp, List.find?_cons, hq]
    · have hq' : q x = false := by simpa using hq
      by_cases hp : p x = true
      · simp [List.filter_cons, hp, List.find?_cons, hq', ih]
      · have hp' : p x = false := by simpa using hp
        simp [List.filter_cons, hp', List.find?_cons, hq', ih]

/-- the structured lookup returns what the source list says, for every list and every key -/
theorem findStruct_eq_assocFind (es : List (Bytes × Bytes)) (k : Bytes) : findStruct es k = assocFind es k := by
  unfold findStruct findEnts tableOf
  have hh := mkEnts_hash es 2048
  let l := (mkEnts es 2048).filter (fun e => bucket e.h == bucket (hashKey k))
  have hl : ∀ e ∈ l, e.h = hashKey e.key := fun e he => hh e (List.mem_filter.mp he).1
  obtain ⟨hlen, hscan⟩ := buildTable_scan k l hl
  have hfind : (l.find? (fun e => e.key == k)) = (mkEnts es 2048).find? (fun e => e.key == k) := by
    apply find?_filter_of_imp
    intro x hx hq
    have : x.key = k := by simpa using hq
    simp [hh x hx, this]
  show (if (buildTable l).length = 0 then none
        else scan k (hashKey k) (rot (buildTable l) (home (hashKey k) (buildTable l).length))) = assocFind es k
  rw [hlen]
  by_cases h0 : 2 * l.length = 0
  · have : l = [] := by cases hl' : l with
      | nil => rfl
      | cons a b => rw [hl'] at h0; simp at h0
    rw [if_pos h0, ← mkEnts_find k es 2048, ← hfind, this]; rfl
  · rw [if_neg h0, hscan, hfind, mkEnts_find]

end Nq.Lemmas.Users
