/-
  Nq.Lemmas.RemoteSrc.Main — the whole body EXTRACTED from qmail-remote.c blast(), fed any message and then the end of
  the input, does what the hand-written automaton does: `feed = mrun`, and `mrun` is `rrun`/`rpart` with the position of
  `flagcritical = 1` and of the final flush made explicit.
-/
import Nq.Lemmas.RemoteSrc.Tab

namespace Nq.RemoteSrc
open Nq Nq.CFlow Nq.SmtpOut Nq.Gen.RemoteBlast

def Stop.pre (evs : List Ev) : Stop → Stop
  | .atGet k e => .atGet k (evs ++ e)
  | .finished e => .finished (evs ++ e)
  | .exited f e => .exited f (evs ++ e)
  | .fuel => .fuel

/-- the extracted program from control point `k`: the bytes of the message arrive one by one, then every further read
reports the end of the input (at most two such reads happen) -/
def feed : K → List Nat → Stop
  | k, [] =>
      match resume FUEL k 0 0 with
      | .atGet k' evs => Stop.pre evs (match resume FUEL k' 0 0 with
                                       | .atGet _ _ => .fuel
                                       | s => s)
      | s => s
  | k, c :: rest =>
      match resume FUEL k c 1 with
      | .atGet k' evs => Stop.pre evs (feed k' rest)
      | s => s

/-- the same in terms of the hand-written automaton -/
def mrun : RSt → Bytes → Stop
  | .top, [] => .finished [.crit, .put 46, .put 13, .put 10, .flush]
  | .cr, [] => .finished [.put 13, .put 10, .crit, .put 46, .put 13, .put 10, .flush]
  | .mid, [] => .exited 1 []
  | s, c :: m => Stop.pre (putEvs (rstep s c).2) (mrun (rstep s c).1 m)

theorem sOf_lt (s : RSt) : ∃ n, n < 3 ∧ sOf n = s := by
  cases s
  · exact ⟨0, by decide, rfl⟩
  · exact ⟨1, by decide, rfl⟩
  · exact ⟨2, by decide, rfl⟩

theorem tab (s : RSt) (c : Nat) (hc : c < 256) :
    resume FUEL (kOf s) c 1 = .atGet (kOf (rstep s (UInt8.ofNat c)).1) (putEvs (rstep s (UInt8.ofNat c)).2) ∧
    resume FUEL (kOf s) c 0 = eofExpect s ∧ resume FUEL (kOf s) c 2 = .exited 0 [] := by
  have h := allTab_true
  obtain ⟨n, hn, rfl⟩ := sOf_lt s
  simp only [allTab, Bool.and_eq_true, List.all_eq_true, List.mem_range, decide_eq_true_eq] at h
  have := h.2 n hn c hc
  simp only [okByte, okEof, okErr, decide_eq_true_eq] at this
  exact ⟨this.1.1, this.1.2, this.2⟩

theorem start_eq : start = .atGet kTop [] := by
  have h := allTab_true
  simp only [allTab, Bool.and_eq_true, decide_eq_true_eq] at h
  exact h.1

/-- THE RUN of the extracted source from any control point over any message = the automaton's run -/
theorem feed_eq : ∀ (m : Bytes) (s : RSt), feed (kOf s) (m.map (fun b => b.toNat)) = mrun s m
  | [], s => by
      have h := (tab s 0 (by decide)).2.1
      simp only [List.map_nil, feed, h]
      cases s
      · simp [eofExpect, mrun]
      · simp [eofExpect, mrun]
      · have h2 := (tab .top 0 (by decide)).2.1
        simp only [eofExpect, kOf] at h2 ⊢
        simp [h2, Stop.pre, mrun]
  | c :: m, s => by
      have h := (tab s c.toNat c.toNat_lt).1
      simp only [UInt8.ofNat_toNat] at h
      simp only [List.map_cons, feed, h, mrun, feed_eq m (rstep s c).1]

def putsOf : List Ev → Bytes
  | [] => []
  | .put b :: l => UInt8.ofNat b :: putsOf l
  | _ :: l => putsOf l

theorem putsOf_append (a b : List Ev) : putsOf (a ++ b) = putsOf a ++ putsOf b := by
  induction a with
  | nil => rfl
  | cons e a ih => cases e <;> simp [putsOf, ih]

theorem putsOf_putEvs (bs : Bytes) : putsOf (putEvs bs) = bs := by
  induction bs with
  | nil => rfl
  | cons b bs ih => simp [putEvs, putsOf] at ih ⊢; exact ih

/-- what a stop means for the session: accepted message with the bytes written, or refusal with the bytes written so far -/
def view : Stop → Option (Option Bytes × Bytes)
  | .finished evs => some (some (putsOf evs), putsOf evs)
  | .exited 1 evs => some (none, putsOf evs)
  | _ => none

theorem view_pre (evs : List Ev) (s : Stop) :
    view (Stop.pre evs s) = (view s).map (fun p => (p.1.map (fun e => putsOf evs ++ e), putsOf evs ++ p.2)) := by
  cases s with
  | atGet k e => simp [Stop.pre, view]
  | finished e => simp [Stop.pre, view, putsOf_append]
  | exited f e =>
      simp only [Stop.pre]
      match f with
      | 0 => simp [view]
      | 1 => simp [view, putsOf_append]
      | n + 2 => simp [view]
  | fuel => simp [Stop.pre, view]

/-- `mrun` is the encoder `rrun` (verdict and bytes) together with `rpart` (the bytes written before a refusal) -/
theorem mrun_view : ∀ (m : Bytes) (s : RSt),
    view (mrun s m) = some (rrun s m, match rrun s m with | some e => e | none => rpart s m)
  | [], .top => by simp [mrun, view, putsOf, rrun, rfinish, DOT, CR, LF]
  | [], .mid => by simp [mrun, view, putsOf, rrun, rfinish, rpart]
  | [], .cr => by simp [mrun, view, putsOf, rrun, rfinish, DOT, CR, LF]
  | c :: m, s => by
      have ih := mrun_view m (rstep s c).1
      simp only [mrun, view_pre, ih, putsOf_putEvs, rrun, rpart]
      cases h : rrun (rstep s c).1 m <;> simp [h]

/-- where `flagcritical = 1` sits when the function returns: immediately before the final ". CR LF", which is immediately
before the only flush the function itself issues - nothing of the message is put after it -/
theorem mrun_crit : ∀ (m : Bytes) (s : RSt) (evs : List Ev), mrun s m = .finished evs →
    ∃ pre, evs = pre ++ [.crit, .put 46, .put 13, .put 10, .flush] ∧ Ev.crit ∉ pre ∧ Ev.flush ∉ pre
  | [], .top, evs, h => by
      simp only [mrun, Stop.finished.injEq] at h
      exact ⟨[], by simp [← h], by simp, by simp⟩
  | [], .cr, evs, h => by
      simp only [mrun, Stop.finished.injEq] at h
      exact ⟨[.put 13, .put 10], by simp [← h], by simp, by simp⟩
  | [], .mid, evs, h => by simp [mrun] at h
  | c :: m, s, evs, h => by
      simp only [mrun] at h
      cases hr : mrun (rstep s c).1 m with
      | finished e =>
          rw [hr] at h
          simp only [Stop.pre, Stop.finished.injEq] at h
          obtain ⟨pre, h1, h2, h3⟩ := mrun_crit m (rstep s c).1 e hr
          refine ⟨putEvs (rstep s c).2 ++ pre, by simp [← h, h1], ?_, ?_⟩
          · simp [putEvs, h2]
          · simp [putEvs, h3]
      | atGet k e => rw [hr] at h; simp [Stop.pre] at h
      | exited f e => rw [hr] at h; simp [Stop.pre] at h
      | fuel => rw [hr] at h; simp [Stop.pre] at h

end Nq.RemoteSrc
