/-
  Nq.Lemmas.RemoteSrc.Defs — the control points of the body EXTRACTED from qmail-remote.c blast()
  (Nq.Gen.RemoteBlast.prog, meaning: Nq.CFlow.advance) and the executable checks that compare
  "resume at a control point with a read result, run to the next read point" with one step of the
  hand-written automaton `Nq.SmtpOut.rstep` / `rfinish`.  Evaluated exhaustively by the kernel in `Tab`.
-/
import Nq.CFlow
import Nq.Gen.RemoteBlast
import Nq.SmtpOut

namespace Nq.RemoteSrc
open Nq Nq.CFlow Nq.SmtpOut Nq.Gen.RemoteBlast

/-- more steps than any path between two read points of the program needs (a table entry that ran out of fuel fails its check) -/
def FUEL : Nat := 200

/-- from the start of the function to the first read point -/
def start : Stop := advance FUEL prog .done 0 0 []

def kOfStop : Stop → K
  | .atGet k _ => k
  | _ => .done

/-- the three control points, found by running the extracted program: the first read; the read after an ordinary byte; the read after a CR -/
def kTop : K := kOfStop start
def kMid : K := kOfStop (resume FUEL kTop 97 1)
def kCr : K := kOfStop (resume FUEL kTop 13 1)

def kOf : RSt → K | .top => kTop | .mid => kMid | .cr => kCr
def sOf : Nat → RSt | 0 => .top | 1 => .mid | _ => .cr

def putEvs (bs : Bytes) : List Ev := bs.map (fun b => Ev.put b.toNat)

/-- a byte arrives at control point `s` -/
def okByte (s c : Nat) : Bool :=
  let st := sOf s
  let e := rstep st (UInt8.ofNat c)
  decide (resume FUEL (kOf st) c 1 = .atGet (kOf e.1) (putEvs e.2))

/-- what the end of the input does at each control point (`c` = the stale byte left in `ch`) -/
def eofExpect : RSt → Stop
  | .top => .finished [.crit, .put 46, .put 13, .put 10, .flush]
  | .mid => .exited 1 []                                  -- perm_partialline()
  | .cr => .atGet kTop [.put 13, .put 10]                 -- completes the line, then reads again at the top

def okEof (s c : Nat) : Bool := decide (resume FUEL (kOf (sOf s)) c 0 = eofExpect (sOf s))

/-- a read error: temp_read() at every read point -/
def okErr (s c : Nat) : Bool := decide (resume FUEL (kOf (sOf s)) c 2 = .exited 0 [])

def allTab : Bool :=
  decide (start = .atGet kTop []) &&
  (List.range 3).all fun s => (List.range 256).all fun c => okByte s c && okEof s c && okErr s c

end Nq.RemoteSrc
