import Nq.Lemmas.RemoteSrc.Defs
namespace Nq.RemoteSrc
set_option maxRecDepth 1000000 in
/-- exhaustive kernel evaluation: every control point x every byte / end of input / read error -/
theorem allTab_true : allTab = true := by decide +kernel
end Nq.RemoteSrc
