/-
  Slot bookkeeping of the qmail-send monitor: which events change the set of in-flight deliveries.
-/
import Nq.Daemon

namespace Nq.Lemmas.DS
open Nq Nq.Daemon

theorem handleReport_slots (cfg : Cfg) (s : St) (c : Ch) (rep : Bytes) :
    (handleReport cfg s c rep).slots.Sublist s.slots := by
  simp only [handleReport]
  repeat' split
  all_goals first
    | exact List.Sublist.refl _
    | exact List.filter_sublist

theorem setDline_slots (s : St) (c : Ch) (v : Bytes × Nat) : (s.setDline c v).slots = s.slots := by
  cases c <;> rfl

theorem feedReports_slots (cfg : Cfg) (c : Ch) : ∀ (bs : Bytes) (s : St), (feedReports cfg s c bs).slots.Sublist s.slots
  | [], s => by simp [feedReports]
  | b :: bs, s => by
    simp only [feedReports]
    split
    · rename_i rep _
      refine (feedReports_slots cfg c bs _).trans ?_
      refine (handleReport_slots cfg _ c rep).trans ?_
      rw [setDline_slots]; exact List.Sublist.refl _
    · refine (feedReports_slots cfg c bs _).trans ?_
      rw [setDline_slots]; exact List.Sublist.refl _

theorem slots_unchanged_core (cfg : Cfg) (s s' : St) (e : Ev) (h : acceptCore cfg s e = some s')
    (h1 : ∀ c d m p r, e ≠ .cmd c d m p r) (h2 : ∀ c bs, e ≠ .rbytes c bs) (h3 : e ≠ .restart) : s'.slots = s.slots := by
  cases e with
  | cmd c d m p r => exact absurd rfl (h1 c d m p r)
  | rbytes c bs => exact absurd rfl (h2 c bs)
  | restart => exact absurd rfl h3
  | _ =>
    simp only [acceptCore] at h
    repeat' split at h
    all_goals first
      | (cases h; rfl)
      | cases h

/-- every event other than a delivery command, a read from a spawner and a restart leaves the
delivery slots alone -/
theorem slots_unchanged (cfg : Cfg) (s s' : St) (e : Ev) (h : accept cfg s e = some s')
    (h1 : ∀ c d m p r, e ≠ .cmd c d m p r) (h2 : ∀ c bs, e ≠ .rbytes c bs) (h3 : e ≠ .restart) : s'.slots = s.slots := by
  rw [slots_unchanged_core cfg (s.before e) s' e h h1 h2 h3, St.before_slots]

/-! ### the crash mode flag -/

theorem handleReport_crashed (cfg : Cfg) (s : St) (c : Ch) (rep : Bytes) :
    (handleReport cfg s c rep).crashed = s.crashed ∧ (handleReport cfg s c rep).cut = s.cut := by
  simp only [handleReport]
  repeat' split
  all_goals exact ⟨rfl, rfl⟩

theorem setDline_crashed (s : St) (c : Ch) (v : Bytes × Nat) : (s.setDline c v).crashed = s.crashed ∧ (s.setDline c v).cut = s.cut := by
  cases c <;> exact ⟨rfl, rfl⟩

theorem feedReports_crashed (cfg : Cfg) (c : Ch) : ∀ (bs : Bytes) (s : St),
    (feedReports cfg s c bs).crashed = s.crashed ∧ (feedReports cfg s c bs).cut = s.cut
  | [], s => ⟨rfl, rfl⟩
  | b :: bs, s => by
    simp only [feedReports]
    split
    · rename_i rep _
      have h1 := feedReports_crashed cfg c bs (handleReport cfg (s.setDline c (reportByte (s.dline c).1 (s.dline c).2 b).1) c rep)
      have h2 := handleReport_crashed cfg (s.setDline c (reportByte (s.dline c).1 (s.dline c).2 b).1) c rep
      have h3 := setDline_crashed s c (reportByte (s.dline c).1 (s.dline c).2 b).1
      exact ⟨by rw [h1.1, h2.1, h3.1], by rw [h1.2, h2.2, h3.2]⟩
    · have h1 := feedReports_crashed cfg c bs (s.setDline c (reportByte (s.dline c).1 (s.dline c).2 b).1)
      have h3 := setDline_crashed s c (reportByte (s.dline c).1 (s.dline c).2 b).1
      exact ⟨by rw [h1.1, h3.1], by rw [h1.2, h3.2]⟩

/-- only `.restart` changes the mode flag and `cut` inside `acceptCore` -/
theorem crashed_core (cfg : Cfg) (s s' : St) (e : Ev) (h : acceptCore cfg s e = some s') (h3 : e ≠ .restart) :
    s'.crashed = s.crashed ∧ s'.cut = s.cut := by
  cases e with
  | restart => exact absurd rfl h3
  | rbytes c bs =>
    simp only [acceptCore] at h
    split at h
    · cases h
    · cases h; exact feedReports_crashed cfg c bs _
  | _ =>
    simp only [acceptCore] at h
    repeat' split at h
    all_goals first
      | (cases h; exact ⟨rfl, rfl⟩)
      | cases h

/-- **The crash window closes with the first event that is not a crash event or an arrival**: after an accepted event the mode
flag is set only if the event was the crash itself, or the flag was set before and the event is one of the window events
(damage found in the dump, arrival of a message). -/
theorem crashed_step (cfg : Cfg) (s s' : St) (e : Ev) (h : accept cfg s e = some s') (hc : s'.crashed = true) :
    e = .restart ∨ (e.inCrashWindow = true ∧ s.crashed = true) := by
  by_cases h3 : e = .restart
  · exact Or.inl h3
  · right
    have := (crashed_core cfg (s.before e) s' e h h3).1
    rw [hc] at this
    cases hw : e.inCrashWindow with
    | true => simp only [St.before, hw, if_true] at this; exact ⟨rfl, this.symm⟩
    | false => simp [St.before, hw, St.calm] at this

/-- outside the crash window `cut` is empty -/
theorem cut_step (cfg : Cfg) (s s' : St) (e : Ev) (h : accept cfg s e = some s') (hc : s'.crashed = false) (h0 : s.crashed = false → s.cut = []) :
    s'.cut = [] := by
  by_cases h3 : e = .restart
  · subst h3; simp only [accept, St.before, Ev.inCrashWindow, if_true, acceptCore] at h; cases h; cases hc
  · have := crashed_core cfg (s.before e) s' e h h3
    rw [this.2]
    cases hw : e.inCrashWindow with
    | true =>
      simp only [St.before, hw, if_true] at this ⊢
      exact h0 (by rw [← this.1]; exact hc)
    | false => simp [St.before, hw, St.calm]

/-- a crash-damage event is accepted only while the mode flag is set -/
theorem damage_needs_crashed (cfg : Cfg) (s s' : St) (e : Ev) (h : accept cfg s e = some s') (hd : e.isDamage = true) :
    s.crashed = true := by
  cases e
  case crashMarks m c marks =>
    simp only [accept, St.before, Ev.inCrashWindow, if_true, acceptCore] at h
    split at h
    · cases h
    · split at h
      · rename_i hg; exact hg.1
      · cases h
  case crashBounce m content =>
    simp only [accept, St.before, Ev.inCrashWindow, if_true, acceptCore] at h
    split at h
    · rename_i hg; exact hg.1
    · cases h
  case crashTodoFiles m =>
    simp only [accept, St.before, Ev.inCrashWindow, if_true, acceptCore] at h
    split at h
    · rename_i hg; exact hg.1
    · cases h
  all_goals simp [Ev.isDamage] at hd

theorem acceptAll_snoc (cfg : Cfg) : ∀ (evs : List Ev) (s0 s : St) (e : Ev), acceptAll cfg s0 (evs ++ [e]) = some s →
    ∃ s1, acceptAll cfg s0 evs = some s1 ∧ accept cfg s1 e = some s
  | [], s0, s, e, h => by
    simp only [List.nil_append, acceptAll] at h
    cases h1 : accept cfg s0 e with
    | none => simp [h1] at h
    | some s2 => simp only [h1] at h; cases h; exact ⟨s0, rfl, h1⟩
  | e0 :: es, s0, s, e, h => by
    simp only [List.cons_append, acceptAll] at h ⊢
    cases h1 : accept cfg s0 e0 with
    | none => simp [h1] at h
    | some s2 => simp only [h1] at h ⊢; exact acceptAll_snoc cfg es s2 s e h

/-- if the mode flag is set at the end of an accepted sequence, the sequence ends with a crash followed by window events only
(or the flag was set at the start and there were window events only) -/
theorem window_trace (cfg : Cfg) : ∀ (evs : List Ev) (s0 s : St), acceptAll cfg s0 evs = some s → s.crashed = true →
    (s0.crashed = true ∧ evs.all Ev.inCrashWindow = true) ∨
    ∃ pre post, evs = pre ++ Ev.restart :: post ∧ post.all Ev.inCrashWindow = true
  | [], s0, s, h, hc => by
    simp only [acceptAll] at h; cases h; exact Or.inl ⟨hc, rfl⟩
  | e :: es, s0, s, h, hc => by
    simp only [acceptAll] at h
    cases h1 : accept cfg s0 e with
    | none => simp [h1] at h
    | some s1 =>
      simp only [h1] at h
      rcases window_trace cfg es s1 s h hc with ⟨hc1, hall⟩ | ⟨pre, post, he, hall⟩
      · rcases crashed_step cfg s0 s1 e h1 hc1 with rfl | ⟨hw, hc0⟩
        · exact Or.inr ⟨[], es, rfl, hall⟩
        · exact Or.inl ⟨hc0, by simp [hw, hall]⟩
      · exact Or.inr ⟨e :: pre, post, by simp [he], hall⟩

end Nq.Lemmas.DS
