/-
  Slot bookkeeping of the qmail-send monitor: which events change the set of in-flight deliveries.
-/
import Nq.Daemon

namespace Nq.Lemmas.DS
open Nq Nq.Daemon

theorem handleReport_slots (cfg : Cfg) (s : St) (c : Ch) (rep : Bytes) :
    (handleReport cfg s c rep).slots.Sublist s.slots := by
  simp only [handleReport]
  repeat' split
  all_goals first
    | exact List.Sublist.refl _
    | exact List.filter_sublist

theorem setDline_slots (s : St) (c : Ch) (v : Bytes × Nat) : (s.setDline c v).slots = s.slots := by
  cases c <;> rfl

theorem feedReports_slots (cfg : Cfg) (c : Ch) : ∀ (bs : Bytes) (s : St), (feedReports cfg s c bs).slots.Sublist s.slots
  | [], s => by simp [feedReports]
  | b :: bs, s => by
    simp only [feedReports]
    split
    · rename_i rep _
      refine (feedReports_slots cfg c bs _).trans ?_
      refine (handleReport_slots cfg _ c rep).trans ?_
      rw [setDline_slots]; exact List.Sublist.refl _
    · refine (feedReports_slots cfg c bs _).trans ?_
      rw [setDline_slots]; exact List.Sublist.refl _

/-- every event other than a delivery command, a read from a spawner and a restart leaves the
delivery slots alone -/
theorem slots_unchanged (cfg : Cfg) (s s' : St) (e : Ev) (h : accept cfg s e = some s')
    (h1 : ∀ c d m p r, e ≠ .cmd c d m p r) (h2 : ∀ c bs, e ≠ .rbytes c bs) (h3 : e ≠ .restart) : s'.slots = s.slots := by
  cases e with
  | cmd c d m p r => exact absurd rfl (h1 c d m p r)
  | rbytes c bs => exact absurd rfl (h2 c bs)
  | restart => exact absurd rfl h3
  | _ =>
    simp only [accept] at h
    repeat' split at h
    all_goals first
      | (cases h; rfl)
      | cases h

end Nq.Lemmas.DS
