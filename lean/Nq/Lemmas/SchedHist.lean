/-
  Lemmas for the history-level theorems of C15: invariants of `Nq.SchedHist.step`.  Core Lean only.
-/
import Nq.Lemmas.SchedDaemon
import Nq.Spec.SchedHist

namespace Nq.Lemmas.SchedHist
open Nq Nq.Sched Nq.SchedHist Nq.Spec.SchedHist Nq.Lemmas.Sched

/-! ### find / update -/

theorem find_some {s : HSt} {i : Nat} {m : Msg} (h : s.find i = some m) : m ∈ s.msgs ∧ m.id = i := by
  unfold HSt.find at h
  have h1 := List.mem_of_find?_eq_some h
  have h2 := List.find?_some h
  exact ⟨h1, by simpa using h2⟩

theorem findL_update_self (l : List Msg) (m m0 : Msg) (h : l.find? (·.id == m.id) = some m0) :
    (l.map fun x => if x.id == m.id then m else x).find? (·.id == m.id) = some m := by
  induction l with
  | nil => simp at h
  | cons x r ih =>
    simp only [List.map_cons, List.find?_cons] at h ⊢
    by_cases hx : (x.id == m.id) = true
    · simp [hx]
    · simp only [hx] at h ⊢
      simp only [Bool.false_eq_true, if_false]
      simp only [hx]
      exact ih h

theorem findL_update_other (l : List Msg) (m : Msg) (i : Nat) (hi : i ≠ m.id) :
    (l.map fun x => if x.id == m.id then m else x).find? (·.id == i) = l.find? (·.id == i) := by
  induction l with
  | nil => rfl
  | cons x r ih =>
    simp only [List.map_cons, List.find?_cons]
    by_cases hx : (x.id == m.id) = true
    · have hxm : x.id = m.id := by simpa using hx
      have h1 : (m.id == i) = false := by simp; exact fun h => hi h.symm
      have h2 : (x.id == i) = false := by rw [hxm]; exact h1
      simp only [hx, if_true, h1, h2]; exact ih
    · simp only [hx]; simp only [Bool.false_eq_true, if_false]
      rw [ih]

theorem find_update_self (s : HSt) (m m0 : Msg) (h : s.find m.id = some m0) : (s.update m).find m.id = some m := by
  unfold HSt.find HSt.update; exact findL_update_self s.msgs m m0 h

theorem find_update_other (s : HSt) (m : Msg) (i : Nat) (hi : i ≠ m.id) : (s.update m).find i = s.find i := by
  unfold HSt.find HSt.update; exact findL_update_other s.msgs m i hi

theorem update_ids (s : HSt) (m : Msg) : (s.update m).msgs.map (·.id) = s.msgs.map (·.id) := by
  unfold HSt.update
  simp only [List.map_map]
  apply List.map_congr_left
  intro x _
  simp only [Function.comp]
  by_cases hx : (x.id == m.id) = true
  · simp only [hx, if_true]; exact (by simpa using hx : x.id = m.id).symm
  · simp only [hx]; simp

theorem find_of_mem {s : HSt} (hn : (s.msgs.map (·.id)).Nodup) {m : Msg} (hm : m ∈ s.msgs) : s.find m.id = some m := by
  unfold HSt.find
  generalize s.msgs = l at hn hm
  induction l with
  | nil => cases hm
  | cons x r ih =>
    simp only [List.map_cons, List.nodup_cons] at hn
    simp only [List.find?_cons]
    rcases List.mem_cons.mp hm with h | h
    · subst h; simp
    · have : (x.id == m.id) = false := by
        simp; intro he; exact hn.1 (by rw [he]; exact List.mem_map_of_mem h)
      simp only [this]; exact ih hn.2 h

@[simp] theorem update_q (s : HSt) (m : Msg) (c : Chan) : (s.update m).q c = s.q c := by
  cases c <;> rfl
@[simp] theorem update_done (s : HSt) (m : Msg) : (s.update m).done = s.done := rfl
@[simp] theorem update_clock (s : HSt) (m : Msg) : (s.update m).clock = s.clock := rfl
@[simp] theorem update_lifetime (s : HSt) (m : Msg) : (s.update m).lifetime = s.lifetime := rfl
@[simp] theorem setQ_q_same (s : HSt) (c : Chan) (q : PQ) : (s.setQ c q).q c = q := by cases c <;> rfl
theorem setQ_q_other (s : HSt) (c c' : Chan) (q : PQ) (h : c' ≠ c) : (s.setQ c q).q c' = s.q c' := by
  cases c <;> cases c' <;> first | rfl | exact absurd rfl h
@[simp] theorem setQ_done (s : HSt) (c : Chan) (q : PQ) : (s.setQ c q).done = s.done := by cases c <;> rfl
@[simp] theorem setQ_msgs (s : HSt) (c : Chan) (q : PQ) : (s.setQ c q).msgs = s.msgs := by cases c <;> rfl
@[simp] theorem setQ_clock (s : HSt) (c : Chan) (q : PQ) : (s.setQ c q).clock = s.clock := by cases c <;> rfl
@[simp] theorem setQ_lifetime (s : HSt) (c : Chan) (q : PQ) : (s.setQ c q).lifetime = s.lifetime := by cases c <;> rfl
@[simp] theorem setQ_find (s : HSt) (c : Chan) (q : PQ) (i : Nat) : (s.setQ c q).find i = s.find i := by cases c <;> rfl

@[simp] theorem setRecs_same (m : Msg) (c : Chan) (r : Option (List Bool)) : (m.setRecs c r).recs c = r := by cases c <;> rfl
theorem setRecs_other (m : Msg) (c c' : Chan) (r : Option (List Bool)) (h : c' ≠ c) : (m.setRecs c r).recs c' = m.recs c' := by
  cases c <;> cases c' <;> first | rfl | exact absurd rfl h
@[simp] theorem setRecs_id (m : Msg) (c : Chan) (r : Option (List Bool)) : (m.setRecs c r).id = m.id := by cases c <;> rfl
@[simp] theorem setRecs_birth (m : Msg) (c : Chan) (r : Option (List Bool)) : (m.setRecs c r).birth = m.birth := by cases c <;> rfl
@[simp] theorem setRecs_mt (m : Msg) (c c' : Chan) (r : Option (List Bool)) : (m.setRecs c r).mt c' = m.mt c' := by
  cases c <;> cases c' <;> rfl
@[simp] theorem setMt_recs (m : Msg) (c c' : Chan) (t : Int) : (m.setMt c t).recs c' = m.recs c' := by
  cases c <;> cases c' <;> rfl
@[simp] theorem setMt_id (m : Msg) (c : Chan) (t : Int) : (m.setMt c t).id = m.id := by cases c <;> rfl
@[simp] theorem setMt_birth (m : Msg) (c : Chan) (t : Int) : (m.setMt c t).birth = m.birth := by cases c <;> rfl
@[simp] theorem setMt_same (m : Msg) (c : Chan) (t : Int) : (m.setMt c t).mt c = t := by cases c <;> rfl
theorem setMt_other (m : Msg) (c c' : Chan) (t : Int) (h : c' ≠ c) : (m.setMt c t).mt c' = m.mt c' := by
  cases c <;> cases c' <;> first | rfl | exact absurd rfl h

theorem other_ne (c : Chan) : other c ≠ c := by cases c <;> simp [other]
theorem eq_other_of_ne {c c' : Chan} (h : c' ≠ c) : c' = other c := by
  cases c <;> cases c' <;> first | rfl | exact absurd rfl h

/-! ### the shape of a state change: channel heap `c` and pqdone replaced, then one message record updated -/

def mkSt (s : HSt) (c : Chan) (qn dn : PQ) : HSt := { (s.setQ c qn) with done := dn }

@[simp] theorem mkSt_q_same (s : HSt) (c : Chan) (qn dn : PQ) : (mkSt s c qn dn).q c = qn := by cases c <;> rfl
theorem mkSt_q_other (s : HSt) (c c' : Chan) (qn dn : PQ) (h : c' ≠ c) : (mkSt s c qn dn).q c' = s.q c' := by
  cases c <;> cases c' <;> first | rfl | exact absurd rfl h
@[simp] theorem mkSt_done (s : HSt) (c : Chan) (qn dn : PQ) : (mkSt s c qn dn).done = dn := by cases c <;> rfl
@[simp] theorem mkSt_msgs (s : HSt) (c : Chan) (qn dn : PQ) : (mkSt s c qn dn).msgs = s.msgs := by cases c <;> rfl
@[simp] theorem mkSt_clock (s : HSt) (c : Chan) (qn dn : PQ) : (mkSt s c qn dn).clock = s.clock := by cases c <;> rfl
@[simp] theorem mkSt_lifetime (s : HSt) (c : Chan) (qn dn : PQ) : (mkSt s c qn dn).lifetime = s.lifetime := by cases c <;> rfl
@[simp] theorem mkSt_find (s : HSt) (c : Chan) (qn dn : PQ) (i : Nat) : (mkSt s c qn dn).find i = s.find i := by cases c <;> rfl
theorem setQ_eq_mkSt (s : HSt) (c : Chan) (qn : PQ) : s.setQ c qn = mkSt s c qn s.done := by cases c <;> rfl

theorem wf_mkSt {s : HSt} (hwf : WF s) (c : Chan) (qn dn : PQ) (hh : Heap qn) (hd : Heap dn)
    (hn : (ids qn).Nodup)
    (hf : ∀ e ∈ qn.toList, ∃ m, s.find e.id = some m ∧ (m.recs c).isSome = true) : WF (mkSt s c qn dn) := by
  refine ⟨?_, by simpa using hd, by simpa using hwf.nodupMsgs, ?_, ?_⟩
  · intro c'
    by_cases h : c' = c
    · subst h; simpa using hh
    · rw [mkSt_q_other _ _ _ _ _ h]; exact hwf.heap c'
  · intro c'
    by_cases h : c' = c
    · subst h; simpa using hn
    · rw [mkSt_q_other _ _ _ _ _ h]; exact hwf.nodupQ c'
  · intro c'
    by_cases h : c' = c
    · subst h; simpa using hf
    · rw [mkSt_q_other _ _ _ _ _ h]; simpa using hwf.hasFile c'

theorem wf_update {s : HSt} (hwf : WF s) (m m' : Msg) (hm : s.find m'.id = some m)
    (hrec : ∀ c, m'.id ∈ ids (s.q c) → (m'.recs c).isSome = true) : WF (s.update m') := by
  refine ⟨by simpa using hwf.heap, by simpa using hwf.heapDone, by rw [update_ids]; exact hwf.nodupMsgs,
    by simpa using hwf.nodupQ, ?_⟩
  intro c e he
  rw [update_q] at he
  by_cases hid : e.id = m'.id
  · refine ⟨m', by rw [hid]; exact find_update_self s m' m hm, hrec c ?_⟩
    rw [← hid]; exact List.mem_map_of_mem he
  · rw [find_update_other s m' e.id hid]; exact hwf.hasFile c e he

/-! ### what a pass does -/

theorem closeF_cases (job : Job) (id : Nat) (numtodo : Nat) (unlinkOk : Bool) (st : StatRes) (now : Int) (q done : PQ) :
    ((jobCloseF job id true numtodo unlinkOk st now q done).removed = false ∧
      (jobCloseF job id true numtodo unlinkOk st now q done).done = done ∧
      ((numtodo ≠ 0 ∧ (jobCloseF job id true numtodo unlinkOk st now q done).chan = q.insert { dt := job.retry, id := id }) ∨
       (numtodo = 0 ∧ unlinkOk = false ∧
        (jobCloseF job id true numtodo unlinkOk st now q done).chan = q.insert { dt := now + SLEEP_SYSFAIL, id := id }))) ∨
    (numtodo = 0 ∧ unlinkOk = true ∧ (jobCloseF job id true numtodo unlinkOk st now q done).removed = true ∧
      (jobCloseF job id true numtodo unlinkOk st now q done).chan = q ∧
      (((∃ t, st = .found t) ∧ (jobCloseF job id true numtodo unlinkOk st now q done).done = done) ∨
       ((∀ t, st ≠ .found t) ∧ (jobCloseF job id true numtodo unlinkOk st now q done).done = done.insert { dt := now, id := id }))) := by
  unfold jobCloseF
  by_cases hn : numtodo = 0
  · subst hn
    cases unlinkOk with
    | false => left; simp
    | true =>
      right
      cases st with
      | found t => simp
      | noent => simp
      | err => simp
  · left
    have : (numtodo == 0) = false := by simpa using hn
    simp [this, hn]

/-- the facts about the message a pass starts, under `WF` -/
theorem start_facts {s : HSt} (hwf : WF s) {c : Chan} {pe : Elt} {q' : PQ}
    (hp : passStart s.clock true (s.q c) = some (pe, q')) :
    pe.dt ≤ s.clock ∧ (∀ e ∈ (s.q c).toList, pe.dt ≤ e.dt) ∧ (s.q c).toList.Perm (pe :: q'.toList) ∧ Heap q' ∧
    pe ∈ (s.q c).toList ∧ pe.id ∉ ids q' ∧ (ids q').Nodup ∧
    ∃ m recs, s.find pe.id = some m ∧ m.recs c = some recs := by
  obtain ⟨_, h1, h2, h3, h4⟩ := passStart_spec s.clock true (s.q c) q' pe (hwf.heap c) hp
  have hmem : pe ∈ (s.q c).toList := (h3.mem_iff).mpr (List.mem_cons_self ..)
  have hnd : (pe.id :: ids q').Nodup := by
    have h5 : (ids (s.q c)).Perm (pe.id :: ids q') := by
      have := h3.map (fun e : Elt => e.id)
      simpa [ids] using this
    exact h5.nodup_iff.mp (hwf.nodupQ c)
  obtain ⟨m, hm, hr⟩ := hwf.hasFile c pe hmem
  refine ⟨h1, h2, h3, h4, hmem, (List.nodup_cons.mp hnd).1, (List.nodup_cons.mp hnd).2, m, ?_⟩
  cases hrc : m.recs c with
  | none => rw [hrc] at hr; cases hr
  | some recs => exact ⟨recs, hm, rfl⟩

theorem passSt_none {s : HSt} {c : Chan} (letters : List Byte) (f : Fault)
    (hp : passStart s.clock true (s.q c) = none) : passSt s c letters f = s := by
  unfold passSt; rw [hp]

theorem passSt_trouble {s : HSt} {c : Chan} {pe : Elt} {q' : PQ} (letters : List Byte) {f : Fault}
    (hp : passStart s.clock true (s.q c) = some (pe, q')) (hf : f.trouble = true) :
    passSt s c letters f = mkSt s c (q'.insert { dt := s.clock + SLEEP_SYSFAIL, id := pe.id }) s.done := by
  unfold passSt; rw [hp]; simp only [hf, if_true]; rw [setQ_eq_mkSt]; rfl

theorem passSt_run {s : HSt} {c : Chan} {pe : Elt} {q' : PQ} (letters : List Byte) {f : Fault} {m : Msg} {recs : List Bool}
    (hp : passStart s.clock true (s.q c) = some (pe, q')) (hf : f.trouble = false)
    (hm : s.find pe.id = some m) (hr : m.recs c = some recs) :
    passSt s c letters f =
      (mkSt s c (passOut s c letters f pe q' m recs).close.chan (passOut s c letters f pe q' m recs).close.done).update
        (passMsg m c (passOut s c letters f pe q' m recs)) := by
  unfold passSt; rw [hp]; simp only [hf, Bool.false_eq_true, if_false, hm, hr]; rfl

theorem ids_insert (q : PQ) (e : Elt) (h : Heap q) : (ids (q.insert e)).Perm (e.id :: ids q) := by
  have := (insert_spec q e h).2.map (·.id)
  simpa [ids] using this

theorem mem_insert (q : PQ) (e x : Elt) (h : Heap q) : x ∈ (q.insert e).toList ↔ x = e ∨ x ∈ q.toList := by
  rw [(insert_spec q e h).2.mem_iff]; simp

theorem passMsg_id (m : Msg) (c : Chan) (o : PassOut) : (passMsg m c o).id = m.id := by
  unfold passMsg; simp
theorem passMsg_birth (m : Msg) (c : Chan) (o : PassOut) : (passMsg m c o).birth = m.birth := by
  unfold passMsg; simp
theorem passMsg_recs_same (m : Msg) (c : Chan) (o : PassOut) :
    (passMsg m c o).recs c = if o.close.removed then none else some o.recs' := by
  unfold passMsg; simp
theorem passMsg_recs_other (m : Msg) (c c' : Chan) (o : PassOut) (h : c' ≠ c) : (passMsg m c o).recs c' = m.recs c' := by
  unfold passMsg; rw [setRecs_other _ _ _ _ h]; cases c' <;> rfl
theorem passMsg_mt (m : Msg) (c c' : Chan) (o : PassOut) : (passMsg m c o).mt c' = m.mt c' := by
  unfold passMsg; rw [setRecs_mt]; cases c' <;> rfl

/-- the channel heap after a pass: either the rest, or the rest plus the same message at a later time -/
theorem passOut_chan (s : HSt) (c : Chan) (letters : List Byte) (f : Fault) (pe : Elt) (q' : PQ) (m : Msg) (recs : List Bool)
    (o : PassOut) (ho : o = passOut s c letters f pe q' m recs) :
    (o.close.removed = true ∧ o.close.chan = q') ∨
    (o.close.removed = false ∧ ∃ x, o.close.chan = q'.insert { dt := x, id := pe.id } ∧
      (x = nextretry s.clock m.birth c ∨ x = s.clock + SLEEP_SYSFAIL)) := by
  subst ho
  generalize hoo : passOut s c letters f pe q' m recs = o
  have hcl : o.close = jobCloseF o.job pe.id true ((o.recs'.filter id).length) (decide (f ≠ .unlink))
      (if f = .stat then .err else statOf m (other c)) s.clock q' s.done := by rw [← hoo]; rfl
  have hjob : o.job.retry = nextretry s.clock m.birth c := by rw [← hoo]; rfl
  rw [hcl]
  rcases closeF_cases o.job pe.id ((o.recs'.filter id).length) (decide (f ≠ .unlink))
      (if f = .stat then .err else statOf m (other c)) s.clock q' s.done with h | h
  · right
    obtain ⟨h1, _, h3⟩ := h
    refine ⟨h1, ?_⟩
    rcases h3 with ⟨_, h3⟩ | ⟨_, _, h3⟩
    · exact ⟨_, h3, Or.inl hjob⟩
    · exact ⟨_, h3, Or.inr rfl⟩
  · left; exact ⟨h.2.2.1, h.2.2.2.1⟩

theorem passOut_done (s : HSt) (c : Chan) (letters : List Byte) (f : Fault) (pe : Elt) (q' : PQ) (m : Msg) (recs : List Bool)
    (o : PassOut) (ho : o = passOut s c letters f pe q' m recs) :
    o.close.done = s.done ∨ o.close.done = s.done.insert { dt := s.clock, id := pe.id } := by
  subst ho
  generalize hoo : passOut s c letters f pe q' m recs = o
  have hcl : o.close = jobCloseF o.job pe.id true ((o.recs'.filter id).length) (decide (f ≠ .unlink))
      (if f = .stat then .err else statOf m (other c)) s.clock q' s.done := by rw [← hoo]; rfl
  have hjob : o.job.retry = nextretry s.clock m.birth c := by rw [← hoo]; rfl
  rw [hcl]
  rcases closeF_cases o.job pe.id ((o.recs'.filter id).length) (decide (f ≠ .unlink))
      (if f = .stat then .err else statOf m (other c)) s.clock q' s.done with h | h
  · left; exact h.2.1
  · rcases h.2.2.2.2 with ⟨_, h⟩ | ⟨_, h⟩
    · left; exact h
    · right; exact h

theorem wf_passSt {s : HSt} (hwf : WF s) (c : Chan) (letters : List Byte) (f : Fault) : WF (passSt s c letters f) := by
  cases hp : passStart s.clock true (s.q c) with
  | none => rw [passSt_none letters f hp]; exact hwf
  | some r =>
    obtain ⟨pe, q'⟩ := r
    obtain ⟨hdue, hmin, hperm, hh', hmem, hnot, hnd, m, recs, hm, hr⟩ := start_facts hwf hp
    have hfile' : ∀ e ∈ q'.toList, ∃ m, s.find e.id = some m ∧ (m.recs c).isSome = true := fun e he =>
      hwf.hasFile c e ((hperm.mem_iff).mpr (List.mem_cons_of_mem _ he))
    have hins : ∀ x, Heap (q'.insert { dt := x, id := pe.id }) ∧ (ids (q'.insert { dt := x, id := pe.id })).Nodup ∧
        ∀ e ∈ (q'.insert { dt := x, id := pe.id }).toList, ∃ m, s.find e.id = some m ∧ (m.recs c).isSome = true := by
      intro x
      refine ⟨(insert_spec q' _ hh').1, ((ids_insert q' _ hh').nodup_iff).mpr (List.nodup_cons.mpr ⟨hnot, hnd⟩), ?_⟩
      intro e he
      rcases (mem_insert q' _ e hh').mp he with he | he
      · subst he; exact ⟨m, hm, by rw [hr]; rfl⟩
      · exact hfile' e he
    by_cases hf : f.trouble = true
    · rw [passSt_trouble letters hp hf]
      obtain ⟨a, b, d⟩ := hins (s.clock + SLEEP_SYSFAIL)
      exact wf_mkSt hwf c _ _ a hwf.heapDone b d
    · have hf : f.trouble = false := by simpa using hf
      rw [passSt_run letters hp hf hm hr]
      have hmid : m.id = pe.id := (find_some hm).2
      have hchan := passOut_chan s c letters f pe q' m recs _ rfl
      have hdone := passOut_done s c letters f pe q' m recs _ rfl
      generalize passOut s c letters f pe q' m recs = o at hchan hdone ⊢
      have hd : Heap o.close.done := by
        rcases hdone with h | h
        · rw [h]; exact hwf.heapDone
        · rw [h]; exact (insert_spec _ _ hwf.heapDone).1
      rcases hchan with ⟨hrm, hc⟩ | ⟨hrm, x, hc, _⟩
      · have hwf1 := wf_mkSt hwf c o.close.chan o.close.done (by rw [hc]; exact hh') hd
          (by rw [hc]; exact hnd) (by rw [hc]; exact hfile')
        refine wf_update hwf1 m _ (by rw [passMsg_id, mkSt_find, hmid]; exact hm) ?_
        intro c' hin
        rw [passMsg_id, hmid] at hin
        by_cases hcc : c' = c
        · subst hcc; rw [mkSt_q_same, hc] at hin; exact absurd hin hnot
        · rw [mkSt_q_other _ _ _ _ _ hcc] at hin
          rw [passMsg_recs_other _ _ _ _ hcc]
          obtain ⟨e, he, hid⟩ := List.mem_map.mp hin
          obtain ⟨m2, hm2, hr2⟩ := hwf.hasFile c' e he
          rw [hid, hm] at hm2; cases hm2; exact hr2
      · obtain ⟨a, b, d⟩ := hins x
        have hwf1 := wf_mkSt hwf c o.close.chan o.close.done (by rw [hc]; exact a) hd
          (by rw [hc]; exact b) (by rw [hc]; exact d)
        refine wf_update hwf1 m _ (by rw [passMsg_id, mkSt_find, hmid]; exact hm) ?_
        intro c' hin
        rw [passMsg_id, hmid] at hin
        by_cases hcc : c' = c
        · subst hcc; rw [passMsg_recs_same, hrm]; rfl
        · rw [mkSt_q_other _ _ _ _ _ hcc] at hin
          rw [passMsg_recs_other _ _ _ _ hcc]
          obtain ⟨e, he, hid⟩ := List.mem_map.mp hin
          obtain ⟨m2, hm2, hr2⟩ := hwf.hasFile c' e he
          rw [hid, hm] at hm2; cases hm2; exact hr2

/-! ### the back-off invariant -/

theorem eq_of_nodup_map {α β} (f : α → β) : ∀ (l : List α), (l.map f).Nodup → ∀ a ∈ l, ∀ b ∈ l, f a = f b → a = b := by
  intro l
  induction l with
  | nil => intro _ a ha; cases ha
  | cons x r ih =>
    intro hn a ha b hb hab
    simp only [List.map_cons, List.nodup_cons] at hn
    rcases List.mem_cons.mp ha with ha' | ha' <;> rcases List.mem_cons.mp hb with hb' | hb'
    · rw [ha', hb']
    · rw [ha'] at hab; exact absurd (hab ▸ List.mem_map_of_mem hb') hn.1
    · rw [hb'] at hab; exact absurd (hab ▸ List.mem_map_of_mem ha') hn.1
    · exact ih hn.2 a ha' b hb' hab

/-- message `i` (born at `b`), while it still has its channel-`c` file, is scheduled on `c` no earlier than `r` -/
def Owed (i : Nat) (c : Chan) (b r : Int) (s : HSt) : Prop :=
  ∀ m, s.find i = some m → m.birth = b ∧
    ((m.recs c).isSome = true → ∃ e ∈ (s.q c).toList, e.id = i ∧ r ≤ e.dt)

theorem owed_passSt {s : HSt} (hwf : WF s) {i : Nat} {c0 : Chan} {b r : Int} (ho : Owed i c0 b r s)
    (hmono : ∀ t', r ≤ t' → r ≤ nextretry t' b c0) (hsf : 0 ≤ SLEEP_SYSFAIL)
    (c : Chan) (letters : List Byte) (f : Fault) : Owed i c0 b r (passSt s c letters f) := by
  cases hp : passStart s.clock true (s.q c) with
  | none => rw [passSt_none letters f hp]; exact ho
  | some rr =>
    obtain ⟨pe, q'⟩ := rr
    obtain ⟨hdue, hmin, hperm, hh', hmem, hnot, hnd, m, recs, hm, hr⟩ := start_facts hwf hp
    have hmid : m.id = pe.id := (find_some hm).2
    -- the entry of `i` on channel `c`, if it is not the started one, survives in q'
    have hsurv : ∀ e ∈ (s.q c).toList, e.id ≠ pe.id → e ∈ q'.toList := by
      intro e he hne
      rcases List.mem_cons.mp ((hperm.mem_iff).mp he) with h | h
      · subst h; exact absurd rfl hne
      · exact h
    -- if the started message is `i` on channel c0, it was due no earlier than r
    have hstart : pe.id = i → c = c0 → r ≤ s.clock := by
      intro hi hc; subst hc
      obtain ⟨_, h2⟩ := ho m (hi ▸ hm)
      obtain ⟨e, he, hei, hre⟩ := h2 (by rw [hr]; rfl)
      have : e = pe := by
        have hnd' := hwf.nodupQ c
        unfold ids at hnd'
        exact eq_of_nodup_map (·.id) _ hnd' e he pe hmem (by rw [hei, hi])
      subst this; omega
    by_cases hf : f.trouble = true
    · rw [passSt_trouble letters hp hf]
      intro m1 hm1
      rw [mkSt_find] at hm1
      obtain ⟨hb, h2⟩ := ho m1 hm1
      refine ⟨hb, fun hfile => ?_⟩
      obtain ⟨e, he, hei, hre⟩ := h2 hfile
      by_cases hc : c0 = c
      · subst hc
        rw [mkSt_q_same]
        by_cases hpi : pe.id = i
        · refine ⟨_, (mem_insert q' _ _ hh').mpr (Or.inl rfl), hpi, ?_⟩
          have := hstart hpi rfl
          show r ≤ s.clock + SLEEP_SYSFAIL
          omega
        · exact ⟨e, (mem_insert q' _ _ hh').mpr (Or.inr (hsurv e he (by rw [hei]; exact fun h => hpi h.symm))), hei, hre⟩
      · rw [mkSt_q_other _ _ _ _ _ hc]; exact ⟨e, he, hei, hre⟩
    · have hf : f.trouble = false := by simpa using hf
      rw [passSt_run letters hp hf hm hr]
      have hchan := passOut_chan s c letters f pe q' m recs _ rfl
      generalize passOut s c letters f pe q' m recs = o at hchan ⊢
      intro m1 hm1
      by_cases hpi : pe.id = i
      · -- the started message is `i`
        have hm1' : m1 = passMsg m c o := by
          have := find_update_self (mkSt s c o.close.chan o.close.done) (passMsg m c o) m
            (by rw [passMsg_id, mkSt_find, hmid]; exact hm)
          rw [passMsg_id, hmid, hpi] at this
          rw [this] at hm1; exact (Option.some.inj hm1).symm
        obtain ⟨hb, h2⟩ := ho m (hpi ▸ hm)
        subst hm1'
        refine ⟨by rw [passMsg_birth]; exact hb, fun hfile => ?_⟩
        rw [update_q]
        by_cases hc : c0 = c
        · subst hc
          rw [mkSt_q_same]
          rcases hchan with ⟨hrm, _⟩ | ⟨_, x, hcx, hx⟩
          · rw [passMsg_recs_same, hrm] at hfile; cases hfile
          · rw [hcx]
            refine ⟨_, (mem_insert q' _ _ hh').mpr (Or.inl rfl), hpi, ?_⟩
            have hcl := hstart hpi rfl
            show r ≤ x
            rcases hx with hx | hx
            · rw [hx, hb]; exact hmono _ hcl
            · rw [hx]; omega
        · rw [mkSt_q_other _ _ _ _ _ hc]
          rw [passMsg_recs_other _ _ _ _ hc] at hfile
          exact h2 hfile
      · -- another message was started
        rw [find_update_other _ _ _ (by rw [passMsg_id, hmid]; exact fun h => hpi h.symm), mkSt_find] at hm1
        obtain ⟨hb, h2⟩ := ho m1 hm1
        refine ⟨hb, fun hfile => ?_⟩
        obtain ⟨e, he, hei, hre⟩ := h2 hfile
        rw [update_q]
        by_cases hc : c0 = c
        · subst hc
          rw [mkSt_q_same]
          have he' := hsurv e he (by rw [hei]; exact fun h => hpi h.symm)
          rcases hchan with ⟨_, hcx⟩ | ⟨_, x, hcx, _⟩
          · rw [hcx]; exact ⟨e, he', hei, hre⟩
          · rw [hcx]; exact ⟨e, (mem_insert q' _ _ hh').mpr (Or.inr he'), hei, hre⟩
        · rw [mkSt_q_other _ _ _ _ _ hc]; exact ⟨e, he, hei, hre⟩

/-! ### pqfinish (TERM) at history level -/

/-- what the utimes calls `l` on channel `c` do to the record of message `i` -/
def mtAfter (c : Chan) (l : List Elt) (i : Nat) (m : Msg) : Msg :=
  l.foldl (fun m e => if i = e.id then m.setMt c e.dt else m) m

theorem finWrite1_find (c : Chan) (s : HSt) (e : Elt) (i : Nat) :
    (finWrite1 c s e).find i = (s.find i).map (fun m => if i = e.id then m.setMt c e.dt else m) := by
  unfold finWrite1
  cases hm : s.find e.id with
  | none =>
    simp only
    by_cases hi : i = e.id
    · rw [hi, hm]; rfl
    · simp only [hi, if_false]; cases s.find i <;> rfl
  | some m0 =>
    simp only
    have hid : (m0.setMt c e.dt).id = e.id := by rw [setMt_id]; exact (find_some hm).2
    by_cases hi : i = e.id
    · rw [hi, hm]
      have := find_update_self s (m0.setMt c e.dt) m0 (by rw [hid]; exact hm)
      rw [hid] at this; rw [this]; simp
    · rw [find_update_other s _ i (by rw [hid]; exact hi)]
      simp only [hi, if_false]; cases s.find i <;> rfl

theorem finWrite_find (c : Chan) : ∀ (l : List Elt) (s : HSt) (i : Nat),
    (finWrite c s l).find i = (s.find i).map (mtAfter c l i) := by
  intro l
  induction l with
  | nil =>
    intro s i
    show s.find i = (s.find i).map (fun m => m)
    cases s.find i <;> rfl
  | cons e r ih =>
    intro s i
    show (finWrite c (finWrite1 c s e) r).find i = _
    rw [ih, finWrite1_find]
    cases s.find i <;> rfl

theorem finWrite1_frame (c : Chan) (s : HSt) (e : Elt) :
    (finWrite1 c s e).q0 = s.q0 ∧ (finWrite1 c s e).q1 = s.q1 ∧ (finWrite1 c s e).done = s.done ∧
    (finWrite1 c s e).clock = s.clock ∧ (finWrite1 c s e).lifetime = s.lifetime ∧
    (finWrite1 c s e).msgs.map (·.id) = s.msgs.map (·.id) := by
  unfold finWrite1
  cases s.find e.id with
  | none => exact ⟨rfl, rfl, rfl, rfl, rfl, rfl⟩
  | some m => exact ⟨rfl, rfl, rfl, rfl, rfl, update_ids s _⟩

theorem finWrite_frame (c : Chan) : ∀ (l : List Elt) (s : HSt),
    (finWrite c s l).q0 = s.q0 ∧ (finWrite c s l).q1 = s.q1 ∧ (finWrite c s l).done = s.done ∧
    (finWrite c s l).clock = s.clock ∧ (finWrite c s l).lifetime = s.lifetime ∧
    (finWrite c s l).msgs.map (·.id) = s.msgs.map (·.id) := by
  intro l
  induction l with
  | nil => intro s; exact ⟨rfl, rfl, rfl, rfl, rfl, rfl⟩
  | cons e r ih =>
    intro s
    show (finWrite c (finWrite1 c s e) r).q0 = _ ∧ _
    obtain ⟨a1, a2, a3, a4, a5, a6⟩ := ih (finWrite1 c s e)
    obtain ⟨b1, b2, b3, b4, b5, b6⟩ := finWrite1_frame c s e
    exact ⟨a1.trans b1, a2.trans b2, a3.trans b3, a4.trans b4, a5.trans b5, a6.trans b6⟩

theorem mtAfter_cons (c : Chan) (e : Elt) (r : List Elt) (i : Nat) (m : Msg) :
    mtAfter c (e :: r) i m = mtAfter c r i (if i = e.id then m.setMt c e.dt else m) := rfl

theorem mtAfter_frame (c : Chan) (i : Nat) : ∀ (l : List Elt) (m : Msg),
    (mtAfter c l i m).id = m.id ∧ (mtAfter c l i m).birth = m.birth ∧ (∀ c', (mtAfter c l i m).recs c' = m.recs c') ∧
    (∀ c', c' ≠ c → (mtAfter c l i m).mt c' = m.mt c') := by
  intro l
  induction l with
  | nil => intro m; exact ⟨rfl, rfl, fun _ => rfl, fun _ _ => rfl⟩
  | cons e r ih =>
    intro m
    rw [mtAfter_cons]
    obtain ⟨a1, a2, a3, a4⟩ := ih (if i = e.id then m.setMt c e.dt else m)
    by_cases hi : i = e.id
    · simp only [hi, if_true] at a1 a2 a3 a4 ⊢
      exact ⟨by rw [a1, setMt_id], by rw [a2, setMt_birth], fun c' => by rw [a3, setMt_recs],
        fun c' h => by rw [a4 c' h, setMt_other _ _ _ _ h]⟩
    · simp only [hi, if_false] at a1 a2 a3 a4 ⊢
      exact ⟨a1, a2, a3, a4⟩

theorem mtAfter_notin (c : Chan) (i : Nat) : ∀ (l : List Elt) (m : Msg), i ∉ l.map (·.id) → mtAfter c l i m = m := by
  intro l
  induction l with
  | nil => intro m _; rfl
  | cons e r ih =>
    intro m hni
    simp only [List.map_cons, List.mem_cons, not_or] at hni
    show mtAfter c r i (if i = e.id then m.setMt c e.dt else m) = m
    simp only [hni.1, if_false]
    exact ih m hni.2

theorem mtAfter_get (c : Chan) (i : Nat) : ∀ (l : List Elt) (m : Msg), (l.map (·.id)).Nodup →
    ∀ e ∈ l, e.id = i → (mtAfter c l i m).mt c = e.dt := by
  intro l
  induction l with
  | nil => intro m _ e he; cases he
  | cons x r ih =>
    intro m hn e he hei
    simp only [List.map_cons, List.nodup_cons] at hn
    show (mtAfter c r i (if i = x.id then m.setMt c x.dt else m)).mt c = e.dt
    rcases List.mem_cons.mp he with h | h
    · subst h
      rw [mtAfter_notin c i r _ (by rw [← hei]; exact hn.1)]
      simp [hei]
    · exact ih _ hn.2 e h hei

/-- the state after `pqfinish()`: heaps empty; every record keeps id, birth and records; the mtime of a
scheduled channel file is its due time, the others are untouched -/
theorem finSt_spec {s : HSt} (hwf : WF s) :
    (finSt s).q0 = #[] ∧ (finSt s).q1 = #[] ∧ (finSt s).done = s.done ∧ (finSt s).clock = s.clock ∧
    (finSt s).lifetime = s.lifetime ∧
    (finSt s).msgs.map (·.id) = s.msgs.map (·.id) ∧
    ∀ i, ∃ g : Msg → Msg, (finSt s).find i = (s.find i).map g ∧
      ∀ m, (g m).id = m.id ∧ (g m).birth = m.birth ∧ (∀ c, (g m).recs c = m.recs c) ∧
        (∀ c, (∀ e ∈ (s.q c).toList, e.id = i → (g m).mt c = e.dt) ∧ (i ∉ ids (s.q c) → (g m).mt c = m.mt c)) := by
  have hf0 := finWrite_frame .loc (pqfinish (s.q .loc).size (s.q .loc)) s
  generalize hs1 : finWrite .loc s (pqfinish (s.q .loc).size (s.q .loc)) = s1 at hf0
  have hq1 : s1.q .rem = s.q .rem := hf0.2.1
  have hf1 := finWrite_frame .rem (pqfinish (s1.q .rem).size (s1.q .rem)) s1
  have hdef : finSt s = { (finWrite .rem s1 (pqfinish (s1.q .rem).size (s1.q .rem))) with q0 := #[], q1 := #[] } := by
    unfold finSt; rw [hs1]
  generalize hs2 : finWrite .rem s1 (pqfinish (s1.q .rem).size (s1.q .rem)) = s2 at hf1 hdef
  rw [hdef]
  refine ⟨rfl, rfl, hf1.2.2.1.trans hf0.2.2.1, hf1.2.2.2.1.trans hf0.2.2.2.1,
    hf1.2.2.2.2.1.trans hf0.2.2.2.2.1, hf1.2.2.2.2.2.trans hf0.2.2.2.2.2, ?_⟩
  intro i
  have hp0 := pqfinish_perm (s.q .loc).size (s.q .loc) (hwf.heap .loc) (Nat.le_refl _)
  have hp1 := pqfinish_perm (s.q .rem).size (s.q .rem) (hwf.heap .rem) (Nat.le_refl _)
  have hn0 : ((pqfinish (s.q .loc).size (s.q .loc)).map (·.id)).Nodup :=
    ((hp0.map (fun e : Elt => e.id)).nodup_iff).mpr (hwf.nodupQ .loc)
  have hn1 : ((pqfinish (s.q .rem).size (s.q .rem)).map (·.id)).Nodup :=
    ((hp1.map (fun e : Elt => e.id)).nodup_iff).mpr (hwf.nodupQ .rem)
  refine ⟨fun m => mtAfter .rem (pqfinish (s.q .rem).size (s.q .rem)) i (mtAfter .loc (pqfinish (s.q .loc).size (s.q .loc)) i m), ?_, ?_⟩
  · show s2.find i = _
    rw [← hs2, finWrite_find, ← hs1, finWrite_find, hs1, hq1]
    cases s.find i <;> rfl
  · intro m
    show (mtAfter .rem _ i (mtAfter .loc _ i m)).id = m.id ∧ (mtAfter .rem _ i (mtAfter .loc _ i m)).birth = m.birth ∧
      (∀ c, (mtAfter .rem _ i (mtAfter .loc _ i m)).recs c = m.recs c) ∧
      (∀ c, (∀ e ∈ (s.q c).toList, e.id = i → (mtAfter .rem _ i (mtAfter .loc _ i m)).mt c = e.dt) ∧
        (i ∉ ids (s.q c) → (mtAfter .rem _ i (mtAfter .loc _ i m)).mt c = m.mt c))
    obtain ⟨a1, a2, a3, a4⟩ := mtAfter_frame .loc i (pqfinish (s.q .loc).size (s.q .loc)) m
    obtain ⟨b1, b2, b3, b4⟩ := mtAfter_frame .rem i (pqfinish (s.q .rem).size (s.q .rem))
      (mtAfter .loc (pqfinish (s.q .loc).size (s.q .loc)) i m)
    refine ⟨b1.trans a1, b2.trans a2, fun c => (b3 c).trans (a3 c), ?_⟩
    intro c
    cases c with
    | loc =>
      refine ⟨fun e he hei => ?_, fun hni => ?_⟩
      · rw [b4 .loc (by decide)]
        exact mtAfter_get .loc i _ m hn0 e ((hp0.mem_iff).mpr he) hei
      · rw [b4 .loc (by decide), mtAfter_notin .loc i _ m]
        intro h; exact hni (((hp0.map (fun e : Elt => e.id)).mem_iff).mp h)
    | rem =>
      refine ⟨fun e he hei => ?_, fun hni => ?_⟩
      · exact mtAfter_get .rem i _ _ hn1 e ((hp1.mem_iff).mpr he) hei
      · rw [mtAfter_notin .rem i _ _ (fun h => hni (((hp1.map (fun e : Elt => e.id)).mem_iff).mp h))]
        exact a4 .rem (by decide)

/-! ### pqstart (fresh process) at history level -/

theorem foldl_insert : ∀ (l : List Elt) (q0 : PQ), Heap q0 →
    Heap (l.foldl PQ.insert q0) ∧ (l.foldl PQ.insert q0).toList.Perm (l ++ q0.toList) := by
  intro l
  induction l with
  | nil => intro q0 h; exact ⟨h, by simp⟩
  | cons x r ih =>
    intro q0 h
    have hi := insert_spec q0 x h
    obtain ⟨i1, i2⟩ := ih (q0.insert x) hi.1
    refine ⟨i1, i2.trans ?_⟩
    refine (List.Perm.append_left _ hi.2).trans ?_
    simp

theorem loadSt_q (s : HSt) (c : Chan) : (loadSt s).q c = (mtList s c).foldl PQ.insert #[] := by
  cases c <;> rfl

theorem loadSt_find (s : HSt) (i : Nat) : (loadSt s).find i = s.find i := rfl

theorem mem_mtList (s : HSt) (c : Chan) (e : Elt) :
    e ∈ mtList s c ↔ ∃ m ∈ s.msgs, (m.recs c).isSome = true ∧ e = { dt := m.mt c, id := m.id } := by
  unfold mtList
  rw [List.mem_filterMap]
  constructor
  · rintro ⟨m, hm, he⟩
    cases hr : m.recs c with
    | none => rw [hr] at he; cases he
    | some x => rw [hr] at he; exact ⟨m, hm, by rw [hr]; rfl, (Option.some.inj he).symm⟩
  · rintro ⟨m, hm, hr, he⟩
    refine ⟨m, hm, ?_⟩
    cases hrc : m.recs c with
    | none => rw [hrc] at hr; cases hr
    | some x => rw [he]; rfl

theorem mem_loadSt_q (s : HSt) (c : Chan) (e : Elt) :
    e ∈ ((loadSt s).q c).toList ↔ ∃ m ∈ s.msgs, (m.recs c).isSome = true ∧ e = { dt := m.mt c, id := m.id } := by
  rw [loadSt_q, ((foldl_insert (mtList s c) #[] heap_empty).2).mem_iff]
  simp only [List.append_nil]
  exact mem_mtList s c e

theorem filterMap_ids_sublist (f : Msg → Option Elt) (hf : ∀ m e, f m = some e → e.id = m.id) :
    ∀ l : List Msg, ((l.filterMap f).map (·.id)).Sublist (l.map (·.id)) := by
  intro l
  induction l with
  | nil => exact List.Sublist.refl _
  | cons x r ih =>
    rw [List.filterMap_cons]
    cases hx : f x with
    | none => simp only [List.map_cons]; exact List.Sublist.cons _ ih
    | some e =>
      simp only [List.map_cons]
      rw [hf x e hx]
      exact List.Sublist.cons_cons _ ih

theorem wf_loadSt {s : HSt} (hn : (s.msgs.map (·.id)).Nodup) : WF (loadSt s) := by
  refine ⟨?_, ?_, hn, ?_, ?_⟩
  · intro c; rw [loadSt_q]; exact (foldl_insert _ #[] heap_empty).1
  · exact (foldl_insert _ #[] heap_empty).1
  · intro c
    have hp := (foldl_insert (mtList s c) #[] heap_empty).2
    simp only [List.append_nil] at hp
    unfold ids
    rw [loadSt_q]
    refine ((hp.map (fun e : Elt => e.id)).nodup_iff).mpr ?_
    refine List.Sublist.nodup (filterMap_ids_sublist _ ?_ s.msgs) hn
    intro m e he
    cases hr : m.recs c with
    | none => rw [hr] at he; cases he
    | some x => rw [hr] at he; rw [← Option.some.inj he]
  · intro c e he
    obtain ⟨m, hm, hr, hee⟩ := (mem_loadSt_q s c e).mp he
    refine ⟨m, ?_, hr⟩
    rw [loadSt_find, hee]
    exact find_of_mem hn hm

theorem tracked_loadSt (s : HSt) : Tracked (loadSt s) := by
  intro m hm
  have hm' : m ∈ s.msgs := hm
  refine ⟨fun c hr => ?_, fun h0 h1 => ?_⟩
  · unfold ids
    exact List.mem_map.mpr ⟨{ dt := m.mt c, id := m.id }, (mem_loadSt_q s c _).mpr ⟨m, hm', hr, rfl⟩, rfl⟩
  · unfold ids
    have hp := (foldl_insert (expectedLoad s).2.2 #[] heap_empty).2
    simp only [List.append_nil] at hp
    refine List.mem_map.mpr ⟨{ dt := s.clock, id := m.id }, ?_, rfl⟩
    show _ ∈ ((expectedLoad s).2.2.foldl PQ.insert #[]).toList
    rw [hp.mem_iff]
    unfold expectedLoad
    simp only
    rw [List.mem_filterMap]
    exact ⟨m, hm', by simp [h0, h1]⟩

theorem owed_restart {s : HSt} (hwf : WF s) {i : Nat} {c : Chan} {b r : Int} (ho : Owed i c b r s) :
    Owed i c b r (loadSt (finSt s)) := by
  intro m' hm'
  rw [loadSt_find] at hm'
  obtain ⟨_, _, _, _, _, _, hfind⟩ := finSt_spec hwf
  obtain ⟨g, hg, hgp⟩ := hfind i
  rw [hg] at hm'
  cases hm : s.find i with
  | none => rw [hm] at hm'; cases hm'
  | some m =>
    rw [hm] at hm'
    have hmm : m' = g m := (Option.some.inj hm').symm
    obtain ⟨g1, g2, g3, g4⟩ := hgp m
    obtain ⟨hb, h2⟩ := ho m hm
    subst hmm
    refine ⟨g2.trans hb, fun hfile => ?_⟩
    rw [g3 c] at hfile
    obtain ⟨e, he, hei, hre⟩ := h2 hfile
    have hmt := (g4 c).1 e he hei
    have hmem : g m ∈ (finSt s).msgs := (find_some (by rw [hg, hm]; rfl : (finSt s).find i = some (g m))).1
    refine ⟨{ dt := (g m).mt c, id := (g m).id }, (mem_loadSt_q _ c _).mpr ⟨g m, hmem, by rw [g3 c]; exact hfile, rfl⟩, ?_, ?_⟩
    · show (g m).id = i
      rw [g1]; exact (find_some hm).2
    · show r ≤ (g m).mt c
      rw [hmt]; exact hre

/-! ### quiet histories -/

theorem wf_finSt {s : HSt} (hwf : WF s) : WF (finSt s) := by
  obtain ⟨h0, h1, hd, _, _, hids, _⟩ := finSt_spec hwf
  have hq : ∀ c, (finSt s).q c = #[] := by intro c; cases c; exact h0; exact h1
  refine ⟨fun c => by rw [hq c]; exact heap_empty, by rw [hd]; exact hwf.heapDone, by rw [hids]; exact hwf.nodupMsgs,
    fun c => by rw [hq c]; exact List.nodup_nil, fun c e he => ?_⟩
  rw [hq c] at he; cases he

def qstepSt (s : HSt) : QStep → HSt
  | .clock t => { s with clock := t }
  | .wake => s
  | .pass c l f => passSt s c l f
  | .restart => loadSt (finSt s)

theorem run_steps (s : HSt) (x : QStep) : run s x.steps = qstepSt s x := by cases x <;> rfl

theorem wf_clock {s : HSt} (hwf : WF s) (t : Int) : WF { s with clock := t } :=
  ⟨fun c => by cases c; exact hwf.heap .loc; exact hwf.heap .rem, hwf.heapDone, hwf.nodupMsgs,
   fun c => by cases c; exact hwf.nodupQ .loc; exact hwf.nodupQ .rem,
   fun c => by cases c; exact hwf.hasFile .loc; exact hwf.hasFile .rem⟩

theorem wf_qstep {s : HSt} (hwf : WF s) (x : QStep) : WF (qstepSt s x) := by
  cases x with
  | clock t => exact wf_clock hwf t
  | wake => exact hwf
  | pass c l f => exact wf_passSt hwf c l f
  | restart => exact wf_loadSt (wf_finSt hwf).nodupMsgs

theorem owed_qstep {s : HSt} (hwf : WF s) {i : Nat} {c0 : Chan} {b r : Int} (ho : Owed i c0 b r s)
    (hmono : ∀ t', r ≤ t' → r ≤ nextretry t' b c0) (hsf : 0 ≤ SLEEP_SYSFAIL) (x : QStep) :
    Owed i c0 b r (qstepSt s x) := by
  cases x with
  | clock t => intro m hm; cases c0; exact ho m hm; exact ho m hm
  | wake => exact ho
  | pass c l f => exact owed_passSt hwf ho hmono hsf c l f
  | restart => exact owed_restart hwf ho

theorem owed_runQ {i : Nat} {c0 : Chan} {b r : Int}
    (hmono : ∀ t', r ≤ t' → r ≤ nextretry t' b c0) (hsf : 0 ≤ SLEEP_SYSFAIL) :
    ∀ (l : List QStep) (s : HSt), WF s → Owed i c0 b r s → WF (runQ s l) ∧ Owed i c0 b r (runQ s l) := by
  intro l
  induction l with
  | nil => intro s hwf ho; exact ⟨hwf, ho⟩
  | cons x r' ih =>
    intro s hwf ho
    show WF (runQ (run s x.steps) r') ∧ Owed i c0 b r (runQ (run s x.steps) r')
    rw [run_steps]
    exact ih _ (wf_qstep hwf x) (owed_qstep hwf ho hmono hsf x)

theorem filter_id_ne_nil (l : List Bool) (h : true ∈ l) : (l.filter id).length ≠ 0 := by
  intro h0
  have : true ∈ l.filter id := List.mem_filter.mpr ⟨h, rfl⟩
  rw [List.eq_nil_of_length_eq_zero h0] at this; cases this

/-- after a pass (no open failure) that leaves a recipient to do, the message is owed its back-off time -/
theorem owed_init {s : HSt} (hwf : WF s) {c : Chan} {pe : Elt} {q' : PQ} {m : Msg} (letters : List Byte) {f : Fault}
    (hp : passStart s.clock true (s.q c) = some (pe, q')) (hm : s.find pe.id = some m) (hf : f.trouble = false)
    (hleft : ∀ m2, (passSt s c letters f).find pe.id = some m2 → ∀ recs2, m2.recs c = some recs2 → true ∈ recs2) :
    Owed pe.id c m.birth (nextretry s.clock m.birth c) (passSt s c letters f) := by
  obtain ⟨hdue, hmin, hperm, hh', hmem, hnot, hnd, m0, recs, hm0, hr⟩ := start_facts hwf hp
  rw [hm] at hm0; cases hm0
  have hmid : m.id = pe.id := (find_some hm).2
  have hrun := passSt_run letters hp hf hm hr
  rw [hrun] at hleft ⊢
  have hcl : (passOut s c letters f pe q' m recs).close =
      jobCloseF (passOut s c letters f pe q' m recs).job pe.id true (((passOut s c letters f pe q' m recs).recs'.filter id).length)
        (decide (f ≠ .unlink)) (if f = .stat then .err else statOf m (other c)) s.clock q' s.done := rfl
  have hjob : (passOut s c letters f pe q' m recs).job.retry = nextretry s.clock m.birth c := rfl
  generalize passOut s c letters f pe q' m recs = o at hleft hcl hjob ⊢
  have hfind : ((mkSt s c o.close.chan o.close.done).update (passMsg m c o)).find pe.id = some (passMsg m c o) := by
    have := find_update_self (mkSt s c o.close.chan o.close.done) (passMsg m c o) m
      (by rw [passMsg_id, mkSt_find, hmid]; exact hm)
    rw [passMsg_id, hmid] at this; exact this
  intro m1 hm1
  rw [hfind] at hm1; cases hm1
  refine ⟨passMsg_birth m c o, fun hfile => ?_⟩
  rw [update_q, mkSt_q_same]
  rw [passMsg_recs_same] at hfile
  cases hrm : o.close.removed with
  | true => rw [hrm] at hfile; cases hfile
  | false =>
    have hl := hleft _ hfind o.recs' (by rw [passMsg_recs_same, hrm]; rfl)
    have hnt := filter_id_ne_nil _ hl
    rcases closeF_cases o.job pe.id ((o.recs'.filter id).length) (decide (f ≠ .unlink))
        (if f = .stat then .err else statOf m (other c)) s.clock q' s.done with h | h
    · rcases h.2.2 with ⟨_, h3⟩ | ⟨h0, _⟩
      · rw [hcl, h3]
        exact ⟨_, (mem_insert q' _ _ hh').mpr (Or.inl rfl), rfl, by rw [hjob]; exact Int.le_refl _⟩
      · exact absurd h0 hnt
    · exact absurd h.1 hnt

/-! ### promptness: the rank of a due message strictly decreases with every pass on its channel -/

theorem passSt_q_cases {s : HSt} (hwf : WF s) {c : Chan} {pe : Elt} {q' : PQ} {m : Msg} (letters : List Byte) (f : Fault)
    (hp : passStart s.clock true (s.q c) = some (pe, q')) (hm : s.find pe.id = some m) :
    (passSt s c letters f).q c = q' ∨
    ∃ x, (passSt s c letters f).q c = q'.insert { dt := x, id := pe.id } ∧
      (x = nextretry s.clock m.birth c ∨ x = s.clock + SLEEP_SYSFAIL) := by
  obtain ⟨_, _, _, _, _, _, _, m0, recs, hm0, hr⟩ := start_facts hwf hp
  rw [hm] at hm0; cases hm0
  by_cases hf : f.trouble = true
  · right; rw [passSt_trouble letters hp hf, mkSt_q_same]; exact ⟨_, rfl, Or.inr rfl⟩
  · have hf : f.trouble = false := by simpa using hf
    rw [passSt_run letters hp hf hm hr, update_q, mkSt_q_same]
    rcases passOut_chan s c letters f pe q' m recs _ rfl with ⟨_, h⟩ | ⟨_, x, h, hx⟩
    · left; exact h
    · right; exact ⟨x, h, hx⟩

theorem update_msgs_mem (s : HSt) (m' x : Msg) (h : x ∈ (s.update m').msgs) : x = m' ∨ x ∈ s.msgs := by
  unfold HSt.update at h
  obtain ⟨y, hy, hxy⟩ := List.mem_map.mp h
  by_cases hc : (y.id == m'.id) = true
  · simp only [hc, if_true] at hxy; left; exact hxy.symm
  · simp only [hc] at hxy; right; simp at hxy; rw [← hxy]; exact hy

/-- a pass changes neither the clock nor the lifetime nor any birth time -/
theorem passSt_frame {s : HSt} (hwf : WF s) (c : Chan) (letters : List Byte) (f : Fault) :
    (passSt s c letters f).clock = s.clock ∧ (passSt s c letters f).lifetime = s.lifetime ∧
    (∀ x ∈ (passSt s c letters f).msgs, ∃ y ∈ s.msgs, x.birth = y.birth) ∧
    (∀ i m, s.find i = some m → ∃ m', (passSt s c letters f).find i = some m' ∧ m'.birth = m.birth) := by
  cases hp : passStart s.clock true (s.q c) with
  | none => rw [passSt_none letters f hp]; exact ⟨rfl, rfl, fun x hx => ⟨x, hx, rfl⟩, fun i m hm => ⟨m, hm, rfl⟩⟩
  | some r =>
    obtain ⟨pe, q'⟩ := r
    obtain ⟨_, _, _, _, _, _, _, m, recs, hm, hr⟩ := start_facts hwf hp
    by_cases hf : f.trouble = true
    · rw [passSt_trouble letters hp hf]
      exact ⟨by simp, by simp, fun x hx => ⟨x, by simpa using hx, rfl⟩, fun i m hm => ⟨m, by simpa using hm, rfl⟩⟩
    · have hf : f.trouble = false := by simpa using hf
      rw [passSt_run letters hp hf hm hr]
      generalize passOut s c letters f pe q' m recs = o
      have hmid : m.id = pe.id := (find_some hm).2
      refine ⟨by simp, by simp, ?_, ?_⟩
      · intro x hx
        rcases update_msgs_mem _ _ _ hx with h | h
        · exact ⟨m, (find_some hm).1, by rw [h, passMsg_birth]⟩
        · exact ⟨x, by simpa using h, rfl⟩
      · intro i m1 hm1
        by_cases hi : i = pe.id
        · subst hi
          rw [hm] at hm1; cases hm1
          refine ⟨passMsg m c o, ?_, passMsg_birth m c o⟩
          have := find_update_self (mkSt s c o.close.chan o.close.done) (passMsg m c o) m
            (by rw [passMsg_id, mkSt_find, hmid]; exact hm)
          rw [passMsg_id, hmid] at this; exact this
        · refine ⟨m1, ?_, rfl⟩
          rw [find_update_other _ _ _ (by rw [passMsg_id, hmid]; exact hi), mkSt_find]; exact hm1

theorem rank_passSt {s : HSt} (hwf : WF s) {c : Chan} {e : Elt} (he : e ∈ (s.q c).toList) (hdue : e.dt ≤ s.clock)
    (hfut : ∀ m ∈ s.msgs, s.clock < nextretry s.clock m.birth c) (hsf : 0 < SLEEP_SYSFAIL)
    (letters : List Byte) (f : Fault) :
    ∃ pe, started s c = some pe ∧ pe.dt ≤ e.dt ∧
      (pe = e ∨ (e ∈ ((passSt s c letters f).q c).toList ∧ rank (passSt s c letters f) c e.dt + 1 = rank s c e.dt)) := by
  have hsome := passStart_prompt s.clock (s.q c) (hwf.heap c) e he hdue
  cases hp : passStart s.clock true (s.q c) with
  | none => rw [hp] at hsome; cases hsome
  | some r =>
    obtain ⟨pe, q'⟩ := r
    obtain ⟨hpdue, hmin, hperm, hh', hmem, hnot, hnd, m, recs, hm, hr⟩ := start_facts hwf hp
    refine ⟨pe, by unfold started; rw [hp]; rfl, hmin e he, ?_⟩
    by_cases hpe : pe = e
    · left; exact hpe
    · right
      have he' : e ∈ q'.toList := by
        rcases List.mem_cons.mp ((hperm.mem_iff).mp he) with h | h
        · exact absurd h.symm hpe
        · exact h
      have hold : rank s c e.dt = 1 + q'.toList.countP (fun x => decide (x.dt ≤ e.dt)) := by
        unfold rank
        rw [hperm.countP_eq, List.countP_cons]
        have : decide (pe.dt ≤ e.dt) = true := by simpa using hmin e he
        rw [this]; simp; omega
      rcases passSt_q_cases hwf letters f hp hm with h | ⟨x, h, hx⟩
      · refine ⟨by rw [h]; exact he', ?_⟩
        unfold rank at hold ⊢; rw [h, hold]; omega
      · refine ⟨by rw [h]; exact (mem_insert q' _ _ hh').mpr (Or.inr he'), ?_⟩
        have hxl : e.dt < x := by
          rcases hx with hx | hx
          · have := hfut m (find_some hm).1; omega
          · omega
        unfold rank at hold ⊢
        rw [h, hold, (insert_spec q' _ hh').2.countP_eq, List.countP_cons]
        have : decide (x ≤ e.dt) = false := by simpa using hxl
        simp only [this]; simp; omega

theorem passes_shift (s : HSt) (c : Chan) (ls : Nat → List Byte) : ∀ n,
    passes s c ls (n + 1) = passes (passSt s c (ls 0) .none) c (fun k => ls (k + 1)) n := by
  intro n
  induction n with
  | zero => rfl
  | succ n ih =>
    show passSt (passes s c ls (n + 1)) c (ls (n + 1)) .none = passSt (passes (passSt s c (ls 0) .none) c (fun k => ls (k + 1)) n) c (ls (n + 1)) .none
    rw [ih]

theorem rank_pos {s : HSt} {c : Chan} {e : Elt} (he : e ∈ (s.q c).toList) : 0 < rank s c e.dt := by
  unfold rank
  exact List.countP_pos_iff.mpr ⟨e, he, by simp⟩

theorem no_starvation (c : Chan) (e : Elt) (hsf : 0 < SLEEP_SYSFAIL) : ∀ (n : Nat) (s : HSt) (ls : Nat → List Byte),
    WF s → e ∈ (s.q c).toList → e.dt ≤ s.clock →
    (∀ m ∈ s.msgs, s.clock < nextretry s.clock m.birth c) → rank s c e.dt ≤ n →
    ∃ j, j < n ∧ started (passes s c ls j) c = some e ∧ WF (passes s c ls j) ∧
      (passes s c ls j).clock = s.clock ∧ (passes s c ls j).lifetime = s.lifetime ∧
      ∀ i m, s.find i = some m → ∃ m', (passes s c ls j).find i = some m' ∧ m'.birth = m.birth := by
  intro n
  induction n with
  | zero => intro s ls _ he _ _ hr; have := rank_pos he; omega
  | succ n ih =>
    intro s ls hwf he hdue hfut hr
    obtain ⟨pe, hst, _, hcase⟩ := rank_passSt hwf he hdue hfut hsf (ls 0) .none
    rcases hcase with hpe | ⟨he', hrank⟩
    · subst hpe
      exact ⟨0, by omega, hst, hwf, rfl, rfl, fun i m hm => ⟨m, hm, rfl⟩⟩
    · obtain ⟨fc, fl, fm, ff⟩ := passSt_frame hwf c (ls 0) .none
      have hwf' := wf_passSt hwf c (ls 0) .none
      have hfut' : ∀ m ∈ (passSt s c (ls 0) .none).msgs,
          (passSt s c (ls 0) .none).clock < nextretry (passSt s c (ls 0) .none).clock m.birth c := by
        intro m hm
        obtain ⟨y, hy, hb⟩ := fm m hm
        rw [fc, hb]; exact hfut y hy
      obtain ⟨j, hj, h1, h2, h3, h4, h5⟩ := ih (passSt s c (ls 0) .none) (fun k => ls (k + 1)) hwf' he' (by rw [fc]; exact hdue) hfut' (by omega)
      refine ⟨j + 1, by omega, ?_⟩
      rw [passes_shift]
      refine ⟨h1, h2, h3.trans fc, h4.trans fl, ?_⟩
      intro i m hm
      obtain ⟨m1, hm1, hb1⟩ := ff i m hm
      obtain ⟨m2, hm2, hb2⟩ := h5 i m1 hm1
      exact ⟨m2, hm2, hb2.trans hb1⟩

/-! ### the expiring pass -/

theorem getD_kzd (letters : List Byte) (hl : lettersKZD letters) (i : Nat) :
    letters.getD i 90 = 75 ∨ letters.getD i 90 = 90 ∨ letters.getD i 90 = 68 := by
  rw [List.getD_eq_getElem?_getD]
  cases h : letters[i]? with
  | none => right; left; rfl
  | some x => exact hl x (List.mem_of_getElem? h)

theorem answer_dying (letters : List Byte) (hl : lettersKZD letters) :
    ∀ recs k, ∀ b ∈ (answer true letters recs k).1, b = false := by
  intro recs
  induction recs with
  | nil => intro k b hb; simp [answer] at hb
  | cons x r ih =>
    intro k b hb
    cases x with
    | false =>
      simp only [answer] at hb
      rcases List.mem_cons.mp hb with h | h
      · exact h
      · exact ih k b h
    | true =>
      simp only [answer] at hb
      rcases List.mem_cons.mp hb with h | h
      · rw [h]
        rcases getD_kzd letters hl (k % letters.length) with h1 | h1 | h1 <;> rw [h1] <;> decide
      · exact ih (k + 1) b h

theorem filter_id_nil (l : List Bool) (h : ∀ b ∈ l, b = false) : (l.filter id).length = 0 := by
  have : l.filter id = [] := by
    apply List.filter_eq_nil_iff.mpr
    intro a ha; rw [h a ha]; simp
  rw [this]; rfl

theorem expire_passSt {s : HSt} (hwf : WF s) {c : Chan} {pe : Elt} {q' : PQ} {m : Msg} (letters : List Byte) (f : Fault)
    (hp : passStart s.clock true (s.q c) = some (pe, q')) (hm : s.find pe.id = some m)
    (hold : s.clock > m.birth + s.lifetime) (hl : lettersKZD letters) (hf : f = .none ∨ f = .stat) :
    ∃ m2, (passSt s c letters f).find pe.id = some m2 ∧ m2.recs c = none ∧ m2.recs (other c) = m.recs (other c) ∧
      m2.birth = m.birth ∧ (passSt s c letters f).q c = q' ∧ pe.id ∉ ids q' ∧
      (m.recs (other c) = none → pe.id ∈ ids (passSt s c letters f).done) := by
  obtain ⟨_, _, _, _, _, hnot, _, m0, recs, hm0, hr⟩ := start_facts hwf hp
  rw [hm] at hm0; cases hm0
  have hmid : m.id = pe.id := (find_some hm).2
  have hft : f.trouble = false := by rcases hf with h | h <;> rw [h] <;> rfl
  have hul : decide (f ≠ Fault.unlink) = true := by rcases hf with h | h <;> rw [h] <;> decide
  rw [passSt_run letters hp hft hm hr]
  have hdy : (jobOpen s.clock s.lifetime m.birth c).dying = true := by simp [jobOpen]; omega
  have hrecs : (passOut s c letters f pe q' m recs).recs' = (answer true letters recs 0).1 := by
    show (answer (jobOpen s.clock s.lifetime m.birth c).dying letters recs 0).1 = _
    rw [hdy]
  have hnum : ((passOut s c letters f pe q' m recs).recs'.filter id).length = 0 := by
    rw [hrecs]; exact filter_id_nil _ (answer_dying letters hl recs 0)
  have hcl : (passOut s c letters f pe q' m recs).close =
      jobCloseF (passOut s c letters f pe q' m recs).job pe.id true (((passOut s c letters f pe q' m recs).recs'.filter id).length)
        (decide (f ≠ .unlink)) (if f = .stat then .err else statOf m (other c)) s.clock q' s.done := rfl
  generalize passOut s c letters f pe q' m recs = o at hnum hcl ⊢
  have hfind : ((mkSt s c o.close.chan o.close.done).update (passMsg m c o)).find pe.id = some (passMsg m c o) := by
    have := find_update_self (mkSt s c o.close.chan o.close.done) (passMsg m c o) m
      (by rw [passMsg_id, mkSt_find, hmid]; exact hm)
    rw [passMsg_id, hmid] at this; exact this
  rcases closeF_cases o.job pe.id ((o.recs'.filter id).length) (decide (f ≠ .unlink))
      (if f = .stat then .err else statOf m (other c)) s.clock q' s.done with h | h
  · rcases h.2.2 with ⟨h0, _⟩ | ⟨_, h0, _⟩
    · exact absurd hnum h0
    · rw [hul] at h0; cases h0
  · obtain ⟨_, _, hrm, hch, hdn⟩ := h
    rw [← hcl] at hrm hch hdn
    refine ⟨passMsg m c o, hfind, by rw [passMsg_recs_same, hrm]; rfl, passMsg_recs_other _ _ _ _ (other_ne c),
      passMsg_birth _ _ _, by rw [update_q, mkSt_q_same]; exact hch, hnot, ?_⟩
    intro hoth
    rw [update_done, mkSt_done]
    rcases hdn with ⟨⟨t, ht⟩, _⟩ | ⟨_, hd⟩
    · exfalso
      rcases hf with h | h
      · rw [h] at ht; simp [statOf, hoth] at ht
      · rw [h] at ht; simp at ht
    · rw [hd]
      exact ((ids_insert _ _ hwf.heapDone).mem_iff).mpr (List.mem_cons_self ..)

/-! ### nothing is lost -/

theorem update_msgs_mem' (s : HSt) (m' x : Msg) (h : x ∈ (s.update m').msgs) : x = m' ∨ (x ∈ s.msgs ∧ x.id ≠ m'.id) := by
  unfold HSt.update at h
  obtain ⟨y, hy, hxy⟩ := List.mem_map.mp h
  by_cases hc : (y.id == m'.id) = true
  · simp only [hc, if_true] at hxy; left; exact hxy.symm
  · simp only [hc] at hxy; right; simp at hxy; rw [← hxy]; exact ⟨hy, by simpa using hc⟩

theorem passOut_removed (s : HSt) (c : Chan) (letters : List Byte) (f : Fault) (pe : Elt) (q' : PQ) (m : Msg) (recs : List Bool)
    (o : PassOut) (ho : o = passOut s c letters f pe q' m recs) (hrm : o.close.removed = true) :
    (∃ t, statOf m (other c) = .found t) ∨ o.close.done = s.done.insert { dt := s.clock, id := pe.id } := by
  subst ho
  generalize hoo : passOut s c letters f pe q' m recs = o at hrm ⊢
  have hcl : o.close = jobCloseF o.job pe.id true ((o.recs'.filter id).length) (decide (f ≠ .unlink))
      (if f = .stat then .err else statOf m (other c)) s.clock q' s.done := by rw [← hoo]; rfl
  rw [hcl] at hrm ⊢
  rcases closeF_cases o.job pe.id ((o.recs'.filter id).length) (decide (f ≠ .unlink))
      (if f = .stat then .err else statOf m (other c)) s.clock q' s.done with h | h
  · rw [h.1] at hrm; cases hrm
  · rcases h.2.2.2.2 with ⟨⟨t, ht⟩, _⟩ | ⟨_, hd⟩
    · left
      by_cases hf : f = .stat
      · simp [hf] at ht
      · simp only [hf, if_false] at ht; exact ⟨t, ht⟩
    · right; exact hd

theorem isNone_of_two (m : Msg) (c : Chan) (h0 : m.recs0 = none) (h1 : m.recs1 = none) : m.recs c = none ∧ m.recs (other c) = none := by
  cases c
  · exact ⟨h0, h1⟩
  · exact ⟨h1, h0⟩

theorem two_of_none (m : Msg) (c : Chan) (h0 : m.recs c = none) (h1 : m.recs (other c) = none) : m.recs0 = none ∧ m.recs1 = none := by
  cases c
  · exact ⟨h0, h1⟩
  · exact ⟨h1, h0⟩

theorem tracked_passSt {s : HSt} (hwf : WF s) (ht : Tracked s) (c : Chan) (letters : List Byte) (f : Fault) :
    Tracked (passSt s c letters f) := by
  cases hp : passStart s.clock true (s.q c) with
  | none => rw [passSt_none letters f hp]; exact ht
  | some r =>
    obtain ⟨pe, q'⟩ := r
    obtain ⟨_, _, hperm, hh', hmem, hnot, hnd, m, recs, hm, hr⟩ := start_facts hwf hp
    have hmid : m.id = pe.id := (find_some hm).2
    have hidsperm : (ids (s.q c)).Perm (pe.id :: ids q') := by
      have := hperm.map (fun e : Elt => e.id)
      simpa [ids] using this
    have hins : ∀ x i, i ∈ ids (s.q c) → i ∈ ids (q'.insert { dt := x, id := pe.id }) := by
      intro x i hi
      exact ((ids_insert q' _ hh').mem_iff).mpr ((hidsperm.mem_iff).mp hi)
    by_cases hf : f.trouble = true
    · rw [passSt_trouble letters hp hf]
      intro x hx
      rw [mkSt_msgs] at hx
      obtain ⟨t1, t2⟩ := ht x hx
      refine ⟨fun c' hr' => ?_, by rw [mkSt_done]; exact t2⟩
      by_cases hc : c' = c
      · subst hc; rw [mkSt_q_same]; exact hins _ _ (t1 c' hr')
      · rw [mkSt_q_other _ _ _ _ _ hc]; exact t1 c' hr'
    · have hf : f.trouble = false := by simpa using hf
      rw [passSt_run letters hp hf hm hr]
      have hchan := passOut_chan s c letters f pe q' m recs _ rfl
      have hdone := passOut_done s c letters f pe q' m recs _ rfl
      have hrem := passOut_removed s c letters f pe q' m recs _ rfl
      generalize passOut s c letters f pe q' m recs = o at hchan hdone hrem ⊢
      have hdsub : ∀ i, i ∈ ids s.done → i ∈ ids o.close.done := by
        intro i hi
        rcases hdone with h | h
        · rw [h]; exact hi
        · rw [h]; exact ((ids_insert _ _ hwf.heapDone).mem_iff).mpr (List.mem_cons_of_mem _ hi)
      intro x hx
      rcases update_msgs_mem' _ _ _ hx with hx | ⟨hx, hne⟩
      · subst hx
        rw [passMsg_id, hmid]
        obtain ⟨t1, t2⟩ := ht m (find_some hm).1
        refine ⟨fun c' hr' => ?_, fun h0 h1 => ?_⟩
        · rw [update_q]
          by_cases hc : c' = c
          · subst hc
            rw [mkSt_q_same]
            rcases hchan with ⟨hrm, _⟩ | ⟨_, x, hcx, _⟩
            · rw [passMsg_recs_same, hrm] at hr'; cases hr'
            · rw [hcx]; exact ((ids_insert q' _ hh').mem_iff).mpr (List.mem_cons_self ..)
          · rw [mkSt_q_other _ _ _ _ _ hc]
            rw [passMsg_recs_other _ _ _ _ hc] at hr'
            rw [← hmid]; exact t1 c' hr'
        · rw [update_done, mkSt_done]
          obtain ⟨n0, n1⟩ := isNone_of_two _ c h0 h1
          rw [passMsg_recs_other _ _ _ _ (other_ne c)] at n1
          rw [passMsg_recs_same] at n0
          have hrm : o.close.removed = true := by
            cases h : o.close.removed with
            | true => rfl
            | false => rw [h] at n0; cases n0
          rcases hrem hrm with ⟨t, hst⟩ | hd
          · simp [statOf, n1] at hst
          · rw [hd]; exact ((ids_insert _ _ hwf.heapDone).mem_iff).mpr (List.mem_cons_self ..)
      · rw [mkSt_msgs] at hx
        rw [passMsg_id, hmid] at hne
        obtain ⟨t1, t2⟩ := ht x hx
        refine ⟨fun c' hr' => ?_, fun h0 h1 => by rw [update_done, mkSt_done]; exact hdsub _ (t2 h0 h1)⟩
        rw [update_q]
        by_cases hc : c' = c
        · subst hc
          rw [mkSt_q_same]
          have hin : x.id ∈ ids q' := by
            rcases List.mem_cons.mp ((hidsperm.mem_iff).mp (t1 c' hr')) with h | h
            · exact absurd h hne
            · exact h
          rcases hchan with ⟨_, hcx⟩ | ⟨_, y, hcx, _⟩
          · rw [hcx]; exact hin
          · rw [hcx]; exact ((ids_insert q' _ hh').mem_iff).mpr (List.mem_cons_of_mem _ hin)
        · rw [mkSt_q_other _ _ _ _ _ hc]; exact t1 c' hr'

/-! ### ALRM and file creation -/

def alrmSt (s : HSt) : HSt := { s with q0 := pqrun s.clock s.q0, q1 := pqrun s.clock s.q1 }

theorem alrmSt_q (s : HSt) (c : Chan) : (alrmSt s).q c = pqrun s.clock (s.q c) := by cases c <;> rfl

theorem ids_pqrun (t : Int) (q : PQ) : ids (pqrun t q) = ids q := by
  unfold ids; rw [pqrun_toList, List.map_map]; rfl

theorem wf_alrmSt {s : HSt} (hwf : WF s) : WF (alrmSt s) := by
  refine ⟨fun c => by rw [alrmSt_q]; exact pqrun_heap _ _, hwf.heapDone, hwf.nodupMsgs,
    fun c => by rw [alrmSt_q, ids_pqrun]; exact hwf.nodupQ c, fun c e he => ?_⟩
  rw [alrmSt_q, pqrun_toList] at he
  obtain ⟨x, hx, hxe⟩ := List.mem_map.mp he
  have : e.id = x.id := by rw [← hxe]
  rw [this]
  exact hwf.hasFile c x hx

theorem tracked_alrmSt {s : HSt} (ht : Tracked s) : Tracked (alrmSt s) := by
  intro m hm
  obtain ⟨t1, t2⟩ := ht m hm
  exact ⟨fun c hr => by rw [alrmSt_q, ids_pqrun]; exact t1 c hr, t2⟩

theorem find_none_notin {s : HSt} {i : Nat} (h : s.find i = none) : i ∉ s.msgs.map (·.id) := by
  intro hin
  obtain ⟨m, hm, hid⟩ := List.mem_map.mp hin
  unfold HSt.find at h
  have := List.find?_eq_none.mp h m hm
  simp [hid] at this

theorem mk_some {s : HSt} {id : Nat} {m : Msg} (c : Chan) (birth due : Int) (nrec : Nat) (h : s.find id = some m) :
    (step s (.mk id c birth due nrec)).1 = s.update ((m.setRecs c (some (List.replicate nrec true))).setMt c due) := by
  simp only [step, h]

theorem mk_none {s : HSt} {id : Nat} (c : Chan) (birth due : Int) (nrec : Nat) (h : s.find id = none) :
    (step s (.mk id c birth due nrec)).1 = { s with msgs := s.msgs ++
      [(({ id := id, birth := birth } : Msg).setRecs c (some (List.replicate nrec true))).setMt c due] } := by
  simp only [step, h]

theorem wf_mk {s : HSt} (hwf : WF s) (id : Nat) (c : Chan) (birth due : Int) (nrec : Nat) :
    WF (step s (.mk id c birth due nrec)).1 := by
  cases hm : s.find id with
  | some m =>
    rw [mk_some c birth due nrec hm]
    have hid : ((m.setRecs c (some (List.replicate nrec true))).setMt c due).id = id := by
      rw [setMt_id, setRecs_id]; exact (find_some hm).2
    refine wf_update hwf m _ (by rw [hid]; exact hm) ?_
    intro c' hin
    rw [hid] at hin
    rw [setMt_recs]
    by_cases hc : c' = c
    · subst hc; rw [setRecs_same]; rfl
    · rw [setRecs_other _ _ _ _ hc]
      obtain ⟨e, he, hei⟩ := List.mem_map.mp hin
      obtain ⟨m2, hm2, hr2⟩ := hwf.hasFile c' e he
      rw [hei, hm] at hm2; cases hm2; exact hr2
  | none =>
    rw [mk_none c birth due nrec hm]
    have hni := find_none_notin hm
    refine ⟨fun c' => by cases c'; exact hwf.heap .loc; exact hwf.heap .rem, hwf.heapDone, ?_,
      fun c' => by cases c'; exact hwf.nodupQ .loc; exact hwf.nodupQ .rem, ?_⟩
    · simp only [List.map_append, List.map_cons, List.map_nil]
      rw [List.nodup_append]
      refine ⟨hwf.nodupMsgs, by simp, ?_⟩
      intro a ha b hb
      simp at hb
      rw [hb]
      intro h; exact hni (h ▸ ha)
    · intro c' e he
      have he' : e ∈ (s.q c').toList := by cases c'; exact he; exact he
      obtain ⟨m2, hm2, hr2⟩ := hwf.hasFile c' e he'
      refine ⟨m2, ?_, hr2⟩
      unfold HSt.find at hm2 ⊢
      simp only [List.find?_append, hm2, Option.some_or]

/-! ### bounded time to expiry -/

theorem passSt_find_back {s : HSt} (hwf : WF s) (c : Chan) (letters : List Byte) (f : Fault) (i : Nat) (m' : Msg)
    (h : (passSt s c letters f).find i = some m') : ∃ m, s.find i = some m ∧ m'.birth = m.birth := by
  cases hs : s.find i with
  | some m =>
    obtain ⟨m2, hm2, hb⟩ := (passSt_frame hwf c letters f).2.2.2 i m hs
    rw [hm2] at h; cases h
    exact ⟨m, rfl, hb⟩
  | none =>
    exfalso
    have hmem := (find_some h)
    -- ids are preserved by a pass
    cases hp : passStart s.clock true (s.q c) with
    | none => rw [passSt_none letters f hp] at h; rw [hs] at h; cases h
    | some r =>
      obtain ⟨pe, q'⟩ := r
      obtain ⟨_, _, _, _, _, _, _, m, recs, hm, hr⟩ := start_facts hwf hp
      by_cases hf : f.trouble = true
      · rw [passSt_trouble letters hp hf, mkSt_find, hs] at h; cases h
      · have hf : f.trouble = false := by simpa using hf
        rw [passSt_run letters hp hf hm hr] at h
        by_cases hi : i = pe.id
        · rw [hi, hm] at hs; cases hs
        · rw [find_update_other _ _ _ (by rw [passMsg_id, (find_some hm).2]; exact hi), mkSt_find, hs] at h; cases h

theorem passSt_q_none {s : HSt} (hwf : WF s) {c : Chan} {pe : Elt} {q' : PQ} {m : Msg} (letters : List Byte)
    (hp : passStart s.clock true (s.q c) = some (pe, q')) (hm : s.find pe.id = some m) :
    (passSt s c letters .none).q c = q' ∨
    (passSt s c letters .none).q c = q'.insert { dt := nextretry s.clock m.birth c, id := pe.id } := by
  obtain ⟨_, _, _, _, _, _, _, m0, recs, hm0, hr⟩ := start_facts hwf hp
  rw [hm] at hm0; cases hm0
  rw [passSt_run letters hp rfl hm hr, update_q, mkSt_q_same]
  have hcl : (passOut s c letters .none pe q' m recs).close =
      jobCloseF (passOut s c letters .none pe q' m recs).job pe.id true (((passOut s c letters .none pe q' m recs).recs'.filter id).length)
        true (statOf m (other c)) s.clock q' s.done := rfl
  have hjob : (passOut s c letters .none pe q' m recs).job.retry = nextretry s.clock m.birth c := rfl
  generalize passOut s c letters .none pe q' m recs = o at hcl hjob ⊢
  rw [hcl]
  rcases closeF_cases o.job pe.id ((o.recs'.filter id).length) true (statOf m (other c)) s.clock q' s.done with h | h
  · rcases h.2.2 with ⟨_, h3⟩ | ⟨_, h0, _⟩
    · right; rw [h3, hjob]
    · cases h0
  · left; exact h.2.2.2.1

theorem dueby_passSt {s : HSt} (hwf : WF s) {L : Int} (hd : DueBy L s)
    (hb : ∀ t b c, t ≤ b + s.lifetime → nextretry t b c ≤ expiryBound L b c)
    (c : Chan) (letters : List Byte) (hl : lettersKZD letters) : DueBy L (passSt s c letters .none) := by
  cases hp : passStart s.clock true (s.q c) with
  | none => rw [passSt_none letters .none hp]; exact hd
  | some r =>
    obtain ⟨pe, q'⟩ := r
    obtain ⟨_, _, hperm, hh', hmem, hnot, hnd, m, recs, hm, hr⟩ := start_facts hwf hp
    have hclock := (passSt_frame hwf c letters .none).1
    intro c' e he m' hm'
    rw [hclock]
    obtain ⟨m0, hm0, hb0⟩ := passSt_find_back hwf c letters .none e.id m' hm'
    rw [hb0]
    by_cases hc : c' = c
    · subst hc
      have hq : (passSt s c' letters .none).q c' = q' ∨
          ((passSt s c' letters .none).q c' = q'.insert { dt := nextretry s.clock m.birth c', id := pe.id } ∧
            s.clock ≤ m.birth + s.lifetime) := by
        by_cases hdy : s.clock > m.birth + s.lifetime
        · left; exact (expire_passSt hwf letters .none hp hm hdy hl (Or.inl rfl)).choose_spec.2.2.2.2.1
        · rcases passSt_q_none hwf letters hp hm with h | h
          · left; exact h
          · right; exact ⟨h, by omega⟩
      have hold : e ∈ q'.toList → e.dt ≤ expiryBound L m0.birth c' ∨ e.dt ≤ s.clock := by
        intro heq
        exact hd c' e ((hperm.mem_iff).mpr (List.mem_cons_of_mem _ heq)) m0 hm0
      rcases hq with h | ⟨h, hnd'⟩
      · rw [h] at he; exact hold he
      · rw [h] at he
        rcases (mem_insert q' _ e hh').mp he with he | he
        · left
          have hid : e.id = pe.id := by rw [he]
          rw [hid, hm] at hm0; cases hm0
          rw [he]; exact hb _ _ _ hnd'
        · exact hold he
    · have hq : (passSt s c letters .none).q c' = s.q c' := by
        rw [passSt_run letters hp rfl hm hr, update_q, mkSt_q_other _ _ _ _ _ hc]
      rw [hq] at he
      exact hd c' e he m0 hm0

theorem dueby_restart {s : HSt} (hwf : WF s) (ht : Tracked s) {L : Int} (hd : DueBy L s) : DueBy L (loadSt (finSt s)) := by
  obtain ⟨_, _, _, hclk, _, _, hfind⟩ := finSt_spec hwf
  have hwf' := wf_finSt hwf
  intro c e he m1 hm1
  obtain ⟨m', hm'mem, hfile, hee⟩ := (mem_loadSt_q _ c e).mp he
  rw [loadSt_find] at hm1
  have hfm : (finSt s).find m'.id = some m' := find_of_mem hwf'.nodupMsgs hm'mem
  have hid : e.id = m'.id := by rw [hee]
  rw [hid, hfm] at hm1
  have h1 : m' = m1 := Option.some.inj hm1
  subst h1
  obtain ⟨g, hg, hgp⟩ := hfind m'.id
  rw [hg] at hfm
  cases hs : s.find m'.id with
  | none => rw [hs] at hfm; cases hfm
  | some m =>
    rw [hs] at hfm
    have hmm : m' = g m := (Option.some.inj hfm).symm
    obtain ⟨g1, g2, g3, g4⟩ := hgp m
    have hmid : m.id = m'.id := (find_some hs).2
    have hfile' : (m.recs c).isSome = true := by rw [← g3 c, ← hmm]; exact hfile
    have hin := (ht m (find_some hs).1).1 c hfile'
    obtain ⟨e0, he0, he0id⟩ := List.mem_map.mp hin
    have hmt := (g4 c).1 e0 he0 (by rw [he0id]; exact hmid)
    have := hd c e0 he0 m (by rw [he0id, hmid]; exact hs)
    show e.dt ≤ expiryBound L m'.birth c ∨ e.dt ≤ (finSt s).clock
    rw [hclk, hee]
    show m'.mt c ≤ _ ∨ m'.mt c ≤ _
    rw [hmm, hmt, g2]; exact this

theorem dueby_tick {s : HSt} {L : Int} (hd : DueBy L s) (d : Nat) : DueBy L { s with clock := s.clock + d } := by
  intro c e he m hm
  have he' : e ∈ (s.q c).toList := by cases c; exact he; exact he
  rcases hd c e he' m hm with h | h
  · left; exact h
  · right; show e.dt ≤ s.clock + d; omega

theorem dueby_alrm {s : HSt} {L : Int} : DueBy L (alrmSt s) := by
  intro c e he m _
  right
  rw [alrmSt_q, pqrun_toList] at he
  obtain ⟨x, _, hxe⟩ := List.mem_map.mp he
  rw [← hxe]; exact Int.le_refl _


/-! ### arrivals (todo_do) -/

theorem find_append_old (s : HSt) (m : Msg) (i : Nat) (m2 : Msg) (h : s.find i = some m2) :
    ({ s with msgs := s.msgs ++ [m] } : HSt).find i = some m2 := by
  unfold HSt.find at h ⊢
  simp only [List.find?_append, h, Option.some_or]

theorem find_append_new (s : HSt) (m : Msg) (h : s.find m.id = none) :
    ({ s with msgs := s.msgs ++ [m] } : HSt).find m.id = some m := by
  unfold HSt.find at h ⊢
  simp only [List.find?_append, h, Option.none_or, List.find?_cons, beq_self_eq_true]

theorem find_append_cases (s : HSt) (m : Msg) (i : Nat) (m2 : Msg)
    (h : ({ s with msgs := s.msgs ++ [m] } : HSt).find i = some m2) : s.find i = some m2 ∨ (s.find i = none ∧ m2 = m ∧ i = m.id) := by
  unfold HSt.find at h ⊢
  rw [List.find?_append] at h
  cases hs : s.msgs.find? (·.id == i) with
  | some x => rw [hs] at h; left; simpa using h
  | none =>
    rw [hs] at h
    right
    simp only [Option.none_or, List.find?_cons] at h
    by_cases hid : (m.id == i) = true
    · simp only [hid] at h
      exact ⟨rfl, (Option.some.inj h).symm, by simpa using Eq.symm (by simpa using hid)⟩
    · have : (m.id == i) = false := by simpa using hid
      simp [this] at h

/-- the new message record of `arriveSt` -/
def arriveMsg (s : HSt) (id n0 n1 : Nat) : Msg :=
  { id := id, birth := s.clock, mt0 := s.clock, mt1 := s.clock,
    recs0 := if n0 = 0 then none else some (List.replicate n0 true),
    recs1 := if n1 = 0 then none else some (List.replicate n1 true) }

/-- the number of recipients on channel `c` -/
def nOf : Chan → Nat → Nat → Nat
  | .loc, a, _ => a
  | .rem, _, b => b

theorem arriveMsg_recs (s : HSt) (id n0 n1 : Nat) (c : Chan) :
    ((arriveMsg s id n0 n1).recs c).isSome = true ↔ nOf c n0 n1 ≠ 0 := by
  cases c
  · show ((if n0 = 0 then none else some (List.replicate n0 true)) : Option (List Bool)).isSome = true ↔ n0 ≠ 0
    by_cases h : n0 = 0 <;> simp [h]
  · show ((if n1 = 0 then none else some (List.replicate n1 true)) : Option (List Bool)).isSome = true ↔ n1 ≠ 0
    by_cases h : n1 = 0 <;> simp [h]

/-- the state after an arrival, spelled out per heap -/
theorem arriveSt_spec (s : HSt) (id n0 n1 : Nat) (h : s.find id = none) :
    (arriveSt s id n0 n1).msgs = s.msgs ++ [arriveMsg s id n0 n1] ∧
    (arriveSt s id n0 n1).clock = s.clock ∧ (arriveSt s id n0 n1).lifetime = s.lifetime ∧
    (arriveSt s id n0 n1).q0 = (if n0 = 0 then s.q0 else s.q0.insert { dt := s.clock, id := id }) ∧
    (arriveSt s id n0 n1).q1 = (if n1 = 0 then s.q1 else s.q1.insert { dt := s.clock, id := id }) ∧
    (arriveSt s id n0 n1).done = (if n0 = 0 ∧ n1 = 0 then s.done.insert { dt := s.clock, id := id } else s.done) := by
  unfold arriveSt
  simp only [h]
  by_cases h0 : n0 = 0 <;> by_cases h1 : n1 = 0 <;> simp [h0, h1, arriveMsg, HSt.setQ, HSt.q]

theorem arriveSt_q0 (s : HSt) (id n0 n1 : Nat) (h : s.find id = none) (c : Chan) (hn : nOf c n0 n1 = 0) :
    (arriveSt s id n0 n1).q c = s.q c := by
  obtain ⟨_, _, _, a0, a1, _⟩ := arriveSt_spec s id n0 n1 h
  cases c
  · show (arriveSt s id n0 n1).q0 = s.q0; rw [a0, if_pos (show n0 = 0 from hn)]
  · show (arriveSt s id n0 n1).q1 = s.q1; rw [a1, if_pos (show n1 = 0 from hn)]

theorem arriveSt_q1 (s : HSt) (id n0 n1 : Nat) (h : s.find id = none) (c : Chan) (hn : nOf c n0 n1 ≠ 0) :
    (arriveSt s id n0 n1).q c = (s.q c).insert { dt := s.clock, id := id } := by
  obtain ⟨_, _, _, a0, a1, _⟩ := arriveSt_spec s id n0 n1 h
  cases c
  · show (arriveSt s id n0 n1).q0 = s.q0.insert _; rw [a0, if_neg (show ¬ n0 = 0 from hn)]
  · show (arriveSt s id n0 n1).q1 = s.q1.insert _; rw [a1, if_neg (show ¬ n1 = 0 from hn)]

theorem wf_arriveSt {s : HSt} (hwf : WF s) (id n0 n1 : Nat) : WF (arriveSt s id n0 n1) := by
  cases hm : s.find id with
  | some m => unfold arriveSt; simp only [hm]; exact hwf
  | none =>
    obtain ⟨am, _, _, _, _, ad⟩ := arriveSt_spec s id n0 n1 hm
    have hni := find_none_notin hm
    have hnq : ∀ c, id ∉ ids (s.q c) := by
      intro c hin
      obtain ⟨e, he, hei⟩ := List.mem_map.mp hin
      obtain ⟨m2, hm2, _⟩ := hwf.hasFile c e he
      rw [hei, hm] at hm2; cases hm2
    have hfind_old : ∀ i m2, s.find i = some m2 → (arriveSt s id n0 n1).find i = some m2 := by
      intro i m2 h
      have := find_append_old s (arriveMsg s id n0 n1) i m2 h
      unfold HSt.find at this ⊢; rw [am]; exact this
    have hfind_new : (arriveSt s id n0 n1).find id = some (arriveMsg s id n0 n1) := by
      have := find_append_new s (arriveMsg s id n0 n1) (by exact hm)
      unfold HSt.find at this ⊢; rw [am]; exact this
    refine ⟨?_, ?_, ?_, ?_, ?_⟩
    · intro c
      by_cases hn : nOf c n0 n1 = 0
      · rw [arriveSt_q0 s id n0 n1 hm c hn]; exact hwf.heap c
      · rw [arriveSt_q1 s id n0 n1 hm c hn]; exact (insert_spec _ _ (hwf.heap c)).1
    · rw [ad]
      by_cases hz : n0 = 0 ∧ n1 = 0
      · rw [if_pos hz]; exact (insert_spec _ _ hwf.heapDone).1
      · rw [if_neg hz]; exact hwf.heapDone
    · rw [am]
      simp only [List.map_append, List.map_cons, List.map_nil]
      rw [List.nodup_append]
      refine ⟨hwf.nodupMsgs, by simp, ?_⟩
      intro a ha b hb
      simp at hb
      rw [hb]
      intro h
      have h' : a = id := h
      subst h'; exact hni ha
    · intro c
      by_cases hn : nOf c n0 n1 = 0
      · rw [arriveSt_q0 s id n0 n1 hm c hn]; exact hwf.nodupQ c
      · rw [arriveSt_q1 s id n0 n1 hm c hn]
        exact (ids_insert _ _ (hwf.heap c)).nodup_iff.mpr (List.nodup_cons.mpr ⟨hnq c, hwf.nodupQ c⟩)
    · intro c e he
      by_cases hn : nOf c n0 n1 = 0
      · rw [arriveSt_q0 s id n0 n1 hm c hn] at he
        obtain ⟨m2, hm2, hr2⟩ := hwf.hasFile c e he
        exact ⟨m2, hfind_old _ _ hm2, hr2⟩
      · rw [arriveSt_q1 s id n0 n1 hm c hn] at he
        rcases (mem_insert _ _ _ (hwf.heap c)).mp he with h | h
        · subst h
          exact ⟨_, hfind_new, (arriveMsg_recs s id n0 n1 c).mpr hn⟩
        · obtain ⟨m2, hm2, hr2⟩ := hwf.hasFile c e h
          exact ⟨m2, hfind_old _ _ hm2, hr2⟩

theorem tracked_arriveSt {s : HSt} (hwf : WF s) (ht : Tracked s) (id n0 n1 : Nat) : Tracked (arriveSt s id n0 n1) := by
  cases hm : s.find id with
  | some m => unfold arriveSt; simp only [hm]; exact ht
  | none =>
    obtain ⟨am, _, _, _, _, ad⟩ := arriveSt_spec s id n0 n1 hm
    intro m hmem
    rw [am] at hmem
    have hsubq : ∀ c i, i ∈ ids (s.q c) → i ∈ ids ((arriveSt s id n0 n1).q c) := by
      intro c i hi
      by_cases hn : nOf c n0 n1 = 0
      · rw [arriveSt_q0 s id n0 n1 hm c hn]; exact hi
      · rw [arriveSt_q1 s id n0 n1 hm c hn]
        exact (ids_insert _ _ (hwf.heap c)).mem_iff.mpr (List.mem_cons_of_mem _ hi)
    rcases List.mem_append.mp hmem with hold | hnew
    · obtain ⟨t1, t2⟩ := ht m hold
      refine ⟨fun c hr => hsubq c _ (t1 c hr), fun h0 h1 => ?_⟩
      have := t2 h0 h1
      rw [ad]
      by_cases hz : n0 = 0 ∧ n1 = 0
      · rw [if_pos hz]; exact (ids_insert _ _ hwf.heapDone).mem_iff.mpr (List.mem_cons_of_mem _ this)
      · rw [if_neg hz]; exact this
    · simp only [List.mem_singleton] at hnew
      subst hnew
      refine ⟨fun c hr => ?_, fun h0 h1 => ?_⟩
      · have hn := (arriveMsg_recs s id n0 n1 c).mp hr
        rw [arriveSt_q1 s id n0 n1 hm c hn]
        exact (ids_insert _ _ (hwf.heap c)).mem_iff.mpr (List.mem_cons_self ..)
      · have z0 : n0 = 0 := by
          by_cases h : n0 = 0
          · exact h
          · exfalso
            have := (arriveMsg_recs s id n0 n1 .loc).mpr h
            rw [show (arriveMsg s id n0 n1).recs .loc = (arriveMsg s id n0 n1).recs0 from rfl, h0] at this; cases this
        have z1 : n1 = 0 := by
          by_cases h : n1 = 0
          · exact h
          · exfalso
            have := (arriveMsg_recs s id n0 n1 .rem).mpr h
            rw [show (arriveMsg s id n0 n1).recs .rem = (arriveMsg s id n0 n1).recs1 from rfl, h1] at this; cases this
        rw [ad, if_pos ⟨z0, z1⟩]
        exact (ids_insert _ _ hwf.heapDone).mem_iff.mpr (List.mem_cons_self ..)

theorem dueby_arriveSt {s : HSt} (hwf : WF s) {L : Int} (hd : DueBy L s) (id n0 n1 : Nat) : DueBy L (arriveSt s id n0 n1) := by
  cases hm : s.find id with
  | some m => unfold arriveSt; simp only [hm]; exact hd
  | none =>
    obtain ⟨am, ac, _, _, _, _⟩ := arriveSt_spec s id n0 n1 hm
    intro c e he m2 hm2
    rw [ac]
    have hold : e ∈ (s.q c).toList → e.dt ≤ expiryBound L m2.birth c ∨ e.dt ≤ s.clock := by
      intro he'
      obtain ⟨m3, hm3, _⟩ := hwf.hasFile c e he'
      have h4 : (arriveSt s id n0 n1).find e.id = some m3 := by
        have := find_append_old s (arriveMsg s id n0 n1) e.id m3 hm3
        unfold HSt.find at this ⊢; rw [am]; exact this
      rw [h4] at hm2
      have h5 : m3 = m2 := Option.some.inj hm2
      subst h5
      exact hd c e he' m3 hm3
    by_cases hn : nOf c n0 n1 = 0
    · rw [arriveSt_q0 s id n0 n1 hm c hn] at he; exact hold he
    · rw [arriveSt_q1 s id n0 n1 hm c hn] at he
      rcases (mem_insert _ _ _ (hwf.heap c)).mp he with h | h
      · subst h; right; exact Int.le_refl _
      · exact hold h

/-- what `pqstart()` needs for `DueBy` -/
theorem dueby_loadSt {s : HSt} (hn : (s.msgs.map (·.id)).Nodup) {L : Int} (hmt : MtimesDueBy L s) : DueBy L (loadSt s) := by
  intro c e he m hm
  obtain ⟨m0, hm0, hr0, hem⟩ := (mem_loadSt_q s c e).mp he
  rw [loadSt_find] at hm
  have hf := find_of_mem hn hm0
  have : m = m0 := by
    rw [hem] at hm
    rw [show ({ dt := m0.mt c, id := m0.id } : Elt).id = m0.id from rfl, hf] at hm
    exact (Option.some.inj hm).symm
  subst this
  rw [hem]
  exact hmt m hm0 c hr0

def bstepSt (s : HSt) : BStep → HSt
  | .tick d => { s with clock := s.clock + d }
  | .wake => s
  | .alrm => alrmSt s
  | .pass c l => passSt s c l .none
  | .restart => loadSt (finSt s)
  | .arrive id n0 n1 => arriveSt s id n0 n1

theorem run_bsteps (s : HSt) (x : BStep) : run s (x.steps s) = bstepSt s x := by cases x <;> rfl

theorem tracked_tick {s : HSt} (ht : Tracked s) (t : Int) : Tracked { s with clock := t } := by
  intro m hm
  obtain ⟨t1, t2⟩ := ht m hm
  exact ⟨fun c hr => by cases c; exact t1 .loc hr; exact t1 .rem hr, t2⟩

theorem bstep_lifetime {s : HSt} (hwf : WF s) (x : BStep) : (bstepSt s x).lifetime = s.lifetime := by
  cases x with
  | tick d => rfl
  | wake => rfl
  | alrm => rfl
  | pass c l => exact (passSt_frame hwf c l .none).2.1
  | restart => exact (finSt_spec hwf).2.2.2.2.1
  | arrive id n0 n1 =>
    show (arriveSt s id n0 n1).lifetime = s.lifetime
    cases hm : s.find id with
    | some m => unfold arriveSt; simp only [hm]
    | none => exact (arriveSt_spec s id n0 n1 hm).2.2.1

theorem inv_bstep {s : HSt} {L : Int} (h : DInv L s)
    (hb : ∀ t b c, t ≤ b + s.lifetime → nextretry t b c ≤ expiryBound L b c)
    (x : BStep) (hx : ∀ c letters, x = .pass c letters → lettersKZD letters) : DInv L (bstepSt s x) := by
  obtain ⟨hwf, ht, hd⟩ := h
  cases x with
  | tick d => exact ⟨wf_clock hwf _, tracked_tick ht _, dueby_tick hd d⟩
  | wake => exact ⟨hwf, ht, hd⟩
  | alrm => exact ⟨wf_alrmSt hwf, tracked_alrmSt ht, dueby_alrm⟩
  | pass c l => exact ⟨wf_passSt hwf c l .none, tracked_passSt hwf ht c l .none, dueby_passSt hwf hd hb c l (hx c l rfl)⟩
  | restart => exact ⟨wf_loadSt (wf_finSt hwf).nodupMsgs, tracked_loadSt _, dueby_restart hwf ht hd⟩
  | arrive id n0 n1 => exact ⟨wf_arriveSt hwf id n0 n1, tracked_arriveSt hwf ht id n0 n1, dueby_arriveSt hwf hd id n0 n1⟩

theorem inv_runB {L : Int} : ∀ (l : List BStep) (s : HSt), DInv L s →
    (∀ t b c, t ≤ b + s.lifetime → nextretry t b c ≤ expiryBound L b c) → allKZD l →
    DInv L (runB s l) ∧ (runB s l).lifetime = s.lifetime := by
  intro l
  induction l with
  | nil => intro s h _ _; exact ⟨h, rfl⟩
  | cons x r ih =>
    intro s h hb hk
    show DInv L (runB (run s (x.steps s)) r) ∧ (runB (run s (x.steps s)) r).lifetime = s.lifetime
    rw [run_bsteps]
    have hl := bstep_lifetime h.1 x
    have := ih (bstepSt s x) (inv_bstep h hb x (fun c letters hx => hk x (List.mem_cons_self ..) c letters hx))
      (by rw [hl]; exact hb) (fun y hy => hk y (List.mem_cons_of_mem _ hy))
    exact ⟨this.1, this.2.trans hl⟩

/-! ### clean restart preserves the schedule -/

theorem restart_mem {s : HSt} (hwf : WF s) (ht : Tracked s) (c : Chan) (e : Elt) :
    e ∈ ((loadSt (finSt s)).q c).toList ↔ e ∈ (s.q c).toList := by
  obtain ⟨_, _, _, _, _, _, hfind⟩ := finSt_spec hwf
  have hwf' := wf_finSt hwf
  constructor
  · intro he
    obtain ⟨m', hm'mem, hfile, hee⟩ := (mem_loadSt_q _ c e).mp he
    have hfm : (finSt s).find m'.id = some m' := find_of_mem hwf'.nodupMsgs hm'mem
    obtain ⟨g, hg, hgp⟩ := hfind m'.id
    rw [hg] at hfm
    cases hs : s.find m'.id with
    | none => rw [hs] at hfm; cases hfm
    | some m =>
      rw [hs] at hfm
      have hmm : m' = g m := (Option.some.inj hfm).symm
      obtain ⟨g1, g2, g3, g4⟩ := hgp m
      have hmid : m.id = m'.id := (find_some hs).2
      have hfile' : (m.recs c).isSome = true := by rw [← g3 c, ← hmm]; exact hfile
      have hin := (ht m (find_some hs).1).1 c hfile'
      obtain ⟨e0, he0, he0id⟩ := List.mem_map.mp hin
      have hmt := (g4 c).1 e0 he0 (by rw [he0id]; exact hmid)
      have : e = e0 := by
        rw [hee]
        cases e0 with
        | mk dt0 id0 =>
          simp only at he0id hmt
          rw [hmm] at *
          simp only [Elt.mk.injEq]
          exact ⟨hmt, by rw [he0id, g1]⟩
      rw [this]; exact he0
  · intro he
    obtain ⟨m, hm, hfile⟩ := hwf.hasFile c e he
    obtain ⟨g, hg, hgp⟩ := hfind e.id
    obtain ⟨g1, g2, g3, g4⟩ := hgp m
    have hfm : (finSt s).find e.id = some (g m) := by rw [hg, hm]; rfl
    have hmt := (g4 c).1 e he rfl
    refine (mem_loadSt_q _ c e).mpr ⟨g m, (find_some hfm).1, by rw [g3 c]; exact hfile, ?_⟩
    cases e with
    | mk dt0 id0 =>
      simp only at hmt
      simp only [Elt.mk.injEq]
      exact ⟨hmt.symm, by rw [g1]; exact ((find_some hm).2).symm⟩

theorem started_some {s : HSt} {c : Chan} {pe : Elt} (h : started s c = some pe) :
    ∃ q', passStart s.clock true (s.q c) = some (pe, q') := by
  unfold started at h
  cases hp : passStart s.clock true (s.q c) with
  | none => rw [hp] at h; cases h
  | some r => rw [hp] at h; exact ⟨r.2, by cases h; rfl⟩


end Nq.Lemmas.SchedHist
