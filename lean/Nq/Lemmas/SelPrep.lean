/-
  Lemmas about `Nq.SelPrep` (property C16): the wake-up time computed by the chain
  pass_selprep → todo_selprep → cleanup_selprep is, when no `*wakeup = 0` fires, the minimum of
  `recent + SLEEP_FOREVER` and the list `dueTimes`.
-/
import Nq.SelPrep
import Nq.Sched

namespace Nq.SelPrep

/-- iterated `if (*wakeup > t) *wakeup = t;` -/
def lowerL (w : Int) (l : List Int) : Int := l.foldl (fun w t => if w > t then t else w) w

@[simp] theorem lowerL_nil (w : Int) : lowerL w [] = w := rfl
@[simp] theorem lowerL_cons (w t : Int) (l : List Int) : lowerL w (t :: l) = lowerL (if w > t then t else w) l := rfl
theorem lowerL_append (w : Int) (a b : List Int) : lowerL w (a ++ b) = lowerL (lowerL w a) b := by
  simp [lowerL, List.foldl_append]

theorem lower_eq_lowerL (w : Int) (o : Option Int) : lower w o = lowerL w o.toList := by
  cases o <;> simp [lower]

theorem passChans_eq (w : Int) (cs : List Chan) :
    passChans w cs = lowerL w (cs.filterMap fun c => if c.passOpen then none else c.pqMin) := by
  induction cs generalizing w with
  | nil => rfl
  | cons c cs ih =>
    simp only [passChans, ih]
    cases hp : c.passOpen
    · cases hq : c.pqMin <;> simp [hp, hq, lower]
    · simp [hp]

/-- the result is below a bound iff the start value or some element is -/
theorem lowerL_le_iff (w r : Int) (l : List Int) : lowerL w l ≤ r ↔ w ≤ r ∨ ∃ t, t ∈ l ∧ t ≤ r := by
  induction l generalizing w with
  | nil => simp
  | cons a l ih =>
    rw [lowerL_cons, ih]
    constructor
    · rintro (h | ⟨t, ht, hle⟩)
      · by_cases hwa : w > a
        · rw [if_pos hwa] at h; exact Or.inr ⟨a, List.mem_cons_self, h⟩
        · rw [if_neg hwa] at h; exact Or.inl h
      · exact Or.inr ⟨t, List.mem_cons_of_mem _ ht, hle⟩
    · rintro (h | ⟨t, ht, hle⟩)
      · left; by_cases hwa : w > a
        · rw [if_pos hwa]; omega
        · rw [if_neg hwa]; exact h
      · rcases List.mem_cons.1 ht with rfl | ht'
        · left; by_cases hwa : w > t
          · rw [if_pos hwa]; exact hle
          · rw [if_neg hwa]; omega
        · exact Or.inr ⟨t, ht', hle⟩

theorem lowerL_le_init (w : Int) (l : List Int) : lowerL w l ≤ w :=
  (lowerL_le_iff w w l).2 (Or.inl (Int.le_refl _))

theorem lowerL_le_mem (w t : Int) (l : List Int) (h : t ∈ l) : lowerL w l ≤ t :=
  (lowerL_le_iff w t l).2 (Or.inr ⟨t, h, Int.le_refl _⟩)

/-- the result is the start value or an element: together with the two bounds, it is the minimum -/
theorem lowerL_mem (w : Int) (l : List Int) : lowerL w l = w ∨ lowerL w l ∈ l := by
  induction l generalizing w with
  | nil => simp
  | cons a l ih =>
    rw [lowerL_cons]
    by_cases hwa : w > a
    · rw [if_pos hwa]
      rcases ih a with h | h
      · right; rw [h]; exact List.mem_cons_self
      · exact Or.inr (List.mem_cons_of_mem _ h)
    · rw [if_neg hwa]
      rcases ih w with h | h
      · exact Or.inl h
      · exact Or.inr (List.mem_cons_of_mem _ h)

theorem lower_le (w : Int) (o : Option Int) : lower w o ≤ w := by
  rw [lower_eq_lowerL]; exact lowerL_le_init _ _

theorem fuzz_nonneg : 0 ≤ SLEEP_FUZZ := by simp [SLEEP_FUZZ]
theorem forever_pos : 0 < SLEEP_FOREVER := by decide

/-! ### the chain without a `*wakeup = 0` -/

theorem wakeup_of_not_immediate (s : Snap) (h : immediate s = false) :
    wakeup s = lowerL (s.recent + SLEEP_FOREVER) (dueTimes s) := by
  simp only [immediate, Bool.or_eq_false_iff, Bool.and_eq_false_iff, Bool.not_eq_false'] at h
  obtain ⟨⟨hp, ht⟩, hc⟩ := h
  unfold wakeup cleanupSelprep todoSelprep passSelprep dueTimes
  rw [hc]
  cases he : s.exitasap
  · have hp' : (s.chans.any fun c => c.passOpen && delAvail c) = false := by
      rcases hp with hp | hp
      · rw [he] at hp; cases hp
      · exact hp
    have ht' : s.tododir = false := by
      rcases ht with ht | ht
      · rw [he] at ht; cases ht
      · exact ht
    simp only [hp', ht', Bool.false_eq_true, if_false, lower_eq_lowerL, passChans_eq, Option.toList_some]
    cases hj : jobAvail s <;> simp [lowerL_append]
  · simp only [if_true, Bool.false_eq_true, if_false, lower_eq_lowerL, Option.toList_some, List.nil_append]

/-! ### the chain with a `*wakeup = 0` -/

theorem todoSelprep_nonpos (s : Snap) (w : Int) (h : w ≤ 0) : todoSelprep s w ≤ 0 := by
  unfold todoSelprep
  split
  · exact h
  · split
    · exact lower_le _ _
    · exact Int.le_trans (lower_le _ _) h

theorem cleanupSelprep_nonpos (s : Snap) (w : Int) (h : w ≤ 0) : cleanupSelprep s w ≤ 0 := by
  unfold cleanupSelprep
  split
  · exact lower_le _ _
  · exact Int.le_trans (lower_le _ _) h

theorem wakeup_of_immediate (s : Snap) (h : immediate s = true) : wakeup s ≤ 0 := by
  simp only [immediate, Bool.or_eq_true, Bool.and_eq_true, Bool.not_eq_true'] at h
  unfold wakeup
  rcases h with (⟨he, hp⟩ | ⟨he, ht⟩) | hc
  · apply cleanupSelprep_nonpos; apply todoSelprep_nonpos
    simp [passSelprep, he, hp]
  · apply cleanupSelprep_nonpos
    simp only [todoSelprep, he, ht, Bool.false_eq_true, if_false, if_true]
    exact lower_le _ _
  · simp only [cleanupSelprep, hc, if_true]
    exact lower_le _ _

/-- when a `*wakeup = 0` fired and no due time is negative, `wakeup` is exactly the literal 0 -/
theorem wakeup_immediate_eq_zero (s : Snap) (h : immediate s = true) (hd : ∀ t, t ∈ dueTimes s → 0 ≤ t)
    (hr : 0 ≤ s.recent + SLEEP_FOREVER) : wakeup s = 0 := by
  have hle := wakeup_of_immediate s h
  suffices hge : 0 ≤ wakeup s by omega
  have hct : 0 ≤ s.cleanuptime := hd _ (by simp [dueTimes])
  -- every value flowing through the chain stays ≥ 0
  have lower_nonneg : ∀ (w : Int) (o : Option Int), 0 ≤ w → (∀ t, o = some t → 0 ≤ t) → 0 ≤ lower w o := by
    intro w o hw ho
    cases o with
    | none => exact hw
    | some t => have := ho t rfl; simp only [lower]; split <;> omega
  have hclean : ∀ w, 0 ≤ w → 0 ≤ cleanupSelprep s w := by
    intro w hw; unfold cleanupSelprep
    apply lower_nonneg
    · split <;> omega
    · intro t ht; cases ht; exact hct
  unfold wakeup
  apply hclean
  cases he : s.exitasap
  · have hnt : 0 ≤ s.nexttodorun := hd _ (by simp [dueTimes, he])
    have htodo : ∀ w, 0 ≤ w → 0 ≤ todoSelprep s w := by
      intro w hw; simp only [todoSelprep, he, Bool.false_eq_true, if_false]
      apply lower_nonneg
      · split <;> omega
      · intro t ht; cases ht; exact hnt
    apply htodo
    simp only [passSelprep, he, Bool.false_eq_true, if_false]
    split
    · exact Int.le_refl _
    · apply lower_nonneg
      · apply lower_nonneg
        · split
          · rename_i hj
            rw [passChans_eq]
            have : ∀ t, t ∈ (s.chans.filterMap fun c => if c.passOpen then none else c.pqMin) → 0 ≤ t := by
              intro t ht; apply hd; simp only [dueTimes, he, Bool.false_eq_true, if_false, hj, if_true]
              simp only [List.mem_append]; exact Or.inl (Or.inl (Or.inl (Or.inl ht)))
            rcases lowerL_mem (s.recent + SLEEP_FOREVER) _ with h1 | h1
            · rw [h1]; exact hr
            · exact this _ h1
          · exact hr
        · intro t ht; apply hd; simp [dueTimes, he, ht]
      · intro t ht; apply hd; simp [dueTimes, he, ht]
  · simp only [todoSelprep, passSelprep, he, if_true]; exact hr

/-! ### descriptors and guards -/

theorem commDoActs_of_mem (ready : Fd → Bool) (f : Fd) (hr : ready f = true) :
    ∀ (i : Nat) (cs : List Chan), f ∈ commSelprep i cs → commDoActs ready i cs = true := by
  intro i cs
  induction cs generalizing i with
  | nil => intro h; simp [commSelprep] at h
  | cons c cs ih =>
    intro h
    simp only [commSelprep, List.mem_append] at h
    simp only [commDoActs, Bool.or_eq_true]
    rcases h with h | h
    · left
      split at h
      · rename_i hc; simp only [List.mem_singleton] at h; subst h; simp [hc, hr]
      · simp at h
    · exact Or.inr (ih _ h)

theorem delDoActs_of_mem (ready : Fd → Bool) (f : Fd) (hr : ready f = true) :
    ∀ (i : Nat) (cs : List Chan), f ∈ delSelprep i cs → delDoActs ready i cs = true := by
  intro i cs
  induction cs generalizing i with
  | nil => intro h; simp [delSelprep] at h
  | cons c cs ih =>
    intro h
    simp only [delSelprep, List.mem_append] at h
    simp only [delDoActs, Bool.or_eq_true]
    rcases h with h | h
    · left
      split at h
      · rename_i hc; simp only [List.mem_singleton] at h; subst h; simp [hc, hr]
      · simp at h
    · exact Or.inr (ih _ h)

theorem commDoActs_none (i : Nat) (cs : List Chan) : commDoActs (fun _ => false) i cs = false := by
  induction cs generalizing i with
  | nil => rfl
  | cons c cs ih => simp [commDoActs, ih]

theorem delDoActs_none (i : Nat) (cs : List Chan) : delDoActs (fun _ => false) i cs = false := by
  induction cs generalizing i with
  | nil => rfl
  | cons c cs ih => simp [delDoActs, ih]

theorem due_iff (r : Int) (o : Option Int) : due r o = true ↔ ∃ t, o = some t ∧ t ≤ r := by
  cases o <;> simp [due]

theorem mem_optList (t : Int) (o : Option Int) : t ∈ o.toList ↔ o = some t := by
  cases o with
  | none => simp
  | some x => simp only [Option.toList_some, List.mem_singleton, Option.some.injEq]; exact eq_comm

theorem mem_chanTimes (t : Int) (cs : List Chan) :
    t ∈ cs.filterMap (fun c => if c.passOpen then none else c.pqMin) ↔
      ∃ c, c ∈ cs ∧ c.passOpen = false ∧ c.pqMin = some t := by
  simp only [List.mem_filterMap]
  constructor
  · rintro ⟨c, hc, hq⟩
    refine ⟨c, hc, ?_⟩
    cases hp : c.passOpen
    · rw [hp] at hq; exact ⟨rfl, by simpa using hq⟩
    · rw [hp] at hq; simp at hq
  · rintro ⟨c, hc, hp, hq⟩
    exact ⟨c, hc, by rw [hp]; simpa using hq⟩

/-- membership in `dueTimes`, spelled out -/
theorem mem_dueTimes (s : Snap) (t : Int) :
    t ∈ dueTimes s ↔
      (s.exitasap = false ∧ jobAvail s = true ∧ ∃ c, c ∈ s.chans ∧ c.passOpen = false ∧ c.pqMin = some t)
      ∨ (s.exitasap = false ∧ s.pqfailMin = some t) ∨ (s.exitasap = false ∧ s.pqdoneMin = some t)
      ∨ (s.exitasap = false ∧ t = s.nexttodorun) ∨ t = s.cleanuptime := by
  unfold dueTimes
  cases he : s.exitasap
  · cases hj : jobAvail s
    · simp only [Bool.false_eq_true, if_false, List.nil_append, List.mem_append, List.mem_singleton, mem_optList,
        true_and, false_and, false_or]
      constructor
      · rintro (((h | h) | h) | h)
        · exact Or.inl h
        · exact Or.inr (Or.inl h)
        · exact Or.inr (Or.inr (Or.inl h))
        · exact Or.inr (Or.inr (Or.inr h))
      · rintro (h | h | h | h)
        · exact Or.inl (Or.inl (Or.inl h))
        · exact Or.inl (Or.inl (Or.inr h))
        · exact Or.inl (Or.inr h)
        · exact Or.inr h
    · simp only [Bool.false_eq_true, if_false, if_true, List.mem_append, List.mem_singleton, mem_optList, mem_chanTimes,
        true_and]
      constructor
      · rintro ((((h | h) | h) | h) | h)
        · exact Or.inl h
        · exact Or.inr (Or.inl h)
        · exact Or.inr (Or.inr (Or.inl h))
        · exact Or.inr (Or.inr (Or.inr (Or.inl h)))
        · exact Or.inr (Or.inr (Or.inr (Or.inr h)))
      · rintro (h | h | h | h | h)
        · exact Or.inl (Or.inl (Or.inl (Or.inl h)))
        · exact Or.inl (Or.inl (Or.inl (Or.inr h)))
        · exact Or.inl (Or.inl (Or.inr h))
        · exact Or.inl (Or.inr h)
        · exact Or.inr h
  · simp

/-- the per-heap step of C15's model of pass_selprep is the same function -/
theorem lower_matches_sched (w : Int) (q : Nq.Sched.PQ) :
    Nq.Sched.wakeupChan w q = lower w (q.min.map (·.dt)) := by
  unfold Nq.Sched.wakeupChan
  cases q.min <;> simp [lower]

end Nq.SelPrep
