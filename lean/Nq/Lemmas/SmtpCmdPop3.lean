/-
  Cross-check, not imported by `Props/C08.lean` (so that C08 does not depend on C19's files): the C19 model of
  commands.c's verb / argument split, `Nq.Pop3.parseLine`, is the same function as `Nq.SmtpCmdIO.splitCmd`, hence
  equal to the independent splitter `CmdLineSpec.specSplit` and characterised by `CmdLineSpec.IsSplit`.
  C19 may import this file to inherit the framing spec for qmail-pop3d / qmail-popup.  Core Lean only.
-/
import Nq.Pop3
import Nq.Lemmas.SmtpCmdSpec

namespace Nq.Lemmas.SmtpCmd
open Nq Nq.SmtpSession Nq.SmtpCmdIO Nq.CmdLineSpec

theorem pop3_parseLine_eq (l : Bytes) : Nq.Pop3.parseLine l = splitCmd l := by
  unfold Nq.Pop3.parseLine splitCmd stripCR
  have hb : ∀ (c d : Byte), decide (c = d) = (c == d) := by
    intro c d; by_cases h : c = d <;> simp [h]
  have e1 : ∀ (x : Bytes), x.takeWhile (fun c => decide (c ≠ NUL)) = x.takeWhile (· != NUL) := by
    intro x; congr 1; funext c; simp [bne, hb]
  have e2 : ∀ (x : Bytes), x.takeWhile (fun c => decide (c ≠ SP)) = x.takeWhile (· != SP) := by
    intro x; congr 1; funext c; simp [bne, hb]
  have e3 : ∀ (x : Bytes), x.dropWhile (fun c => decide (c ≠ SP)) = x.dropWhile (· != SP) := by
    intro x; congr 1; funext c; simp [bne, hb]
  have e4 : ∀ (x : Bytes), x.dropWhile (fun c => decide (c = SP)) = x.dropWhile (· == SP) := by
    intro x; congr 1
  simp only [e1, e2, e3, e4]

theorem pop3_parseLine_spec (l : Bytes) : Nq.Pop3.parseLine l = specSplit l := by
  rw [pop3_parseLine_eq, specSplit_eq]

theorem pop3_parseLine_isSplit (l v a : Bytes) : Nq.Pop3.parseLine l = (v, a) ↔ IsSplit l v a := by
  rw [pop3_parseLine_spec]
  constructor
  · intro h
    have := isSplit_spec l
    rw [h] at this; exact this
  · exact isSplit_unique l v a

end Nq.Lemmas.SmtpCmd
