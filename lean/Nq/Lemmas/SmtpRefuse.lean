/-
  The exact refusal criterion of qmail-remote.c `blast()` (`perm_partialline()`), in terms of `canon m` and in terms
  of the raw last bytes of the message (the run of CRs at its end).  Helper lemmas for `C06_refused_*`.
-/
import Nq.SmtpOut

namespace Nq.Lemmas
open Nq Nq.SmtpOut

/-- state of the `canon` automaton after `m` -/
def cstate : CSt → Bytes → CSt
  | s, [] => s
  | s, x :: m => cstate (cstep s x).1 m

/-- what `canon` has emitted while consuming `m` (before the end of input is seen) -/
def cpart : CSt → Bytes → Bytes
  | _, [] => []
  | s, x :: m => (cstep s x).2 ++ cpart (cstep s x).1 m

/-- `.cr` is the only encoder state in which `canon` has a CR pending -/
def cstOf : RSt → CSt
  | .cr => .c
  | _ => .n

theorem rstate_append (s : RSt) (a b : Bytes) : rstate s (a ++ b) = rstate (rstate s a) b := by
  induction a generalizing s with
  | nil => rfl
  | cons x a ih => simp [rstate, ih]

theorem crun_append (s : CSt) (a b : Bytes) : crun s (a ++ b) = cpart s a ++ crun (cstate s a) b := by
  induction a generalizing s with
  | nil => rfl
  | cons x a ih => simp [crun, cpart, cstate, ih]

theorem cstate_rstate (s : RSt) (m : Bytes) : cstate (cstOf s) m = cstOf (rstate s m) := by
  induction m generalizing s with
  | nil => rfl
  | cons x m ih =>
    simp only [cstate, rstate]
    rw [← ih]
    congr 1
    cases s <;> by_cases h1 : x = LF <;> by_cases h2 : x = CR <;> by_cases h3 : x = DOT <;>
      simp_all [rstep, cstep, cstOf, CR, LF, DOT]

theorem rblast_none_iff_mid (m : Bytes) : rblast m = none ↔ rstate .top m = .mid := by
  unfold rblast
  generalize RSt.top = s
  induction m generalizing s with
  | nil => cases s <;> simp [rrun, rfinish, rstate]
  | cons x m ih =>
    simp only [rrun, rstate]
    rw [← ih]
    cases rrun (rstep s x).1 m <;> simp

/-- the last byte of `canon (m ++ [x])` and the encoder state after `m ++ [x]`, together -/
theorem snoc_mid_iff (m : Bytes) (x : Byte) :
    rstate .top (m ++ [x]) = .mid ↔ (canon (m ++ [x])).getLast? ≠ some LF := by
  have hc := cstate_rstate .top m
  simp only [cstOf] at hc
  rw [rstate_append]
  unfold canon
  rw [crun_append, hc]
  cases hs : rstate .top m <;> by_cases h1 : x = LF <;> by_cases h2 : x = CR <;>
    simp_all [rstate, rstep, crun, cstep, cfinish, List.getLast?_append, CR, LF, DOT] <;>
    (try (by_cases h3 : x = DOT <;> simp_all [DOT]))

theorem canon_eq_nil_iff (m : Bytes) : canon m = [] ↔ m = [] := by
  constructor
  · intro h
    cases m with
    | nil => rfl
    | cons x m =>
      exfalso
      unfold canon at h
      cases m with
      | nil => by_cases h2 : x = CR <;> simp_all [crun, cstep, cfinish]
      | cons y m => by_cases h2 : x = CR <;> by_cases h3 : y = LF <;> simp_all [crun, cstep]
  · intro h; subst h; rfl

/-! ### the run of CRs at the end of the message -/

theorem rstate_crs (k : Nat) :
    (∀ s, s ≠ RSt.cr → 0 < k → rstate s (List.replicate k CR) = if k % 2 = 1 then .cr else .mid) ∧
    (rstate .cr (List.replicate k CR) = if k = 0 then .cr else if k % 2 = 1 then .mid else .cr) := by
  induction k with
  | zero => simp [rstate]
  | succ k ih =>
    constructor
    · intro s hs _
      have h1 : (rstep s CR).1 = .cr := by cases s <;> simp_all [rstep, CR, LF]
      simp only [List.replicate_succ, rstate, h1, ih.2]
      by_cases hk : k = 0
      · subst hk; simp
      · simp only [hk, if_false]
        have : (k + 1) % 2 = 1 ↔ ¬ (k % 2 = 1) := by omega
        by_cases hp : k % 2 = 1 <;> simp [hp, this]
    · have h1 : (rstep .cr CR).1 = .mid := by simp [rstep, CR, LF, DOT]
      simp only [List.replicate_succ, rstate, h1]
      by_cases hk : k = 0
      · subst hk; simp [rstate]
      · rw [ih.1 .mid (by simp) (by omega)]
        have : (k + 1) % 2 = 1 ↔ ¬ (k % 2 = 1) := by omega
        by_cases hp : k % 2 = 1 <;> simp [hp, this]

/-- state after a message that does not end in CR -/
theorem rstate_nocr_end (p : Bytes) (h : p.getLast? ≠ some CR) :
    rstate .top p = if p = [] then .top else if p.getLast? = some LF then .top else .mid := by
  rcases List.eq_nil_or_concat p with rfl | ⟨q, x, rfl⟩
  · simp [rstate]
  · have hx : x ≠ CR := by simpa using h
    rw [List.concat_eq_append] at *
    rw [rstate_append]
    by_cases h1 : x = LF
    · subst h1; cases rstate .top q <;> simp [rstate, rstep, CR, LF]
    · by_cases h3 : x = DOT <;> cases rstate .top q <;> simp_all [rstate, rstep, CR, LF, DOT]

/-- every message is, in exactly one way, a part not ending in CR followed by a run of CRs -/
theorem trailing_crs (m : Bytes) : ∃ p k, m = p ++ List.replicate k CR ∧ p.getLast? ≠ some CR := by
  suffices h : ∀ n (m : Bytes), m.length = n → ∃ p k, m = p ++ List.replicate k CR ∧ p.getLast? ≠ some CR from
    h _ m rfl
  intro n
  induction n with
  | zero =>
    intro m hm
    have : m = [] := List.length_eq_zero_iff.mp hm
    subst this
    exact ⟨[], 0, by simp, by simp⟩
  | succ n ih =>
    intro m hm
    rcases List.eq_nil_or_concat m with rfl | ⟨q, x, rfl⟩
    · simp at hm
    · rw [List.concat_eq_append] at *
      by_cases hx : x = CR
      · obtain ⟨p, k, h1, h2⟩ := ih q (by simpa using hm)
        refine ⟨p, k + 1, ?_, h2⟩
        rw [h1, hx, List.replicate_succ', List.append_assoc]
      · exact ⟨q ++ [x], 0, by simp, by simpa using hx⟩

end Nq.Lemmas
