/-
  Lemmas for the chunked-I/O versions of the two `blast()` loops (`Nq.SmtpIO`): the Mealy machines
  composed with the substdio stream laws of `Nq.Lemmas.C20Substdio`.  Core Lean only.
-/
import Nq.SmtpIO
import Nq.Lemmas.C20Substdio
import Nq.Lemmas.SmtpSim
import Nq.Lemmas.SmtpPrefix

namespace Nq.Lemmas.SmtpIO
open Nq Nq.Substdio Nq.SmtpIn Nq.SmtpOut Nq.SmtpIO Nq.Lemmas.C20

/-! ## scripts without failing calls: the operations succeed -/

theorem oneread_noerr (src : Bytes) (rs : List Nat) (len : Nat) (h : 0 ∉ rs) :
    (oneread src rs len).1 ≠ .err ∧ 0 ∉ (oneread src rs len).2.2 := by
  unfold oneread
  cases rs with
  | nil => simp only; split <;> simp
  | cons w rs =>
    have hw : w ≠ 0 := fun e => h (by simp [e])
    have hrs : 0 ∉ rs := fun e => h (by simp [e])
    cases w with
    | zero => exact absurd rfl hw
    | succ k => simp only; split <;> exact ⟨by simp, hrs⟩

theorem feed_noerr (s : ISt) (h : 0 ∉ s.rs) : (feed s).2 ≠ .err ∧ 0 ∉ (feed s).1.rs := by
  unfold feed
  by_cases hp : s.p ≠ 0
  · rw [if_pos hp]; exact ⟨by simp, h⟩
  · rw [if_neg hp]
    have := oneread_noerr s.src s.rs s.n h
    generalize oneread s.src s.rs s.n = r at this
    obtain ⟨rr, src', rs'⟩ := r
    cases rr with
    | err => exact absurd rfl this.1
    | eof => exact ⟨by simp, this.2⟩
    | got b => exact ⟨by simp, this.2⟩

theorem getthis_rs (s : ISt) (len : Nat) : (getthis s len).1.rs = s.rs := by
  unfold getthis; rfl

theorem get_noerr (s : ISt) (len : Nat) (h : 0 ∉ s.rs) :
    (Substdio.get s len).2 ≠ .err ∧ 0 ∉ (Substdio.get s len).1.rs := by
  unfold Substdio.get
  by_cases hp : s.p > 0
  · rw [if_pos hp]; exact ⟨by simp, by simp only [getthis_rs]; exact h⟩
  · rw [if_neg hp]
    by_cases hn : s.n ≤ len
    · rw [if_pos hn]
      have := oneread_noerr s.src s.rs len h
      generalize oneread s.src s.rs len = r at this
      obtain ⟨rr, src', rs'⟩ := r
      exact this
    · rw [if_neg hn]
      have := feed_noerr s h
      generalize feed s = fr at this
      obtain ⟨s', rr⟩ := fr
      cases rr with
      | err => exact absurd rfl this.1
      | eof => exact ⟨by simp, this.2⟩
      | got b => exact ⟨by simp, by simp only [getthis_rs]; exact this.2⟩

theorem allwrite_nofail (ws : List Nat) (b : Bytes) (h : 0 ∉ ws) :
    (allwrite ws b).2.2 = true ∧ 0 ∉ (allwrite ws b).1 := by
  induction ws generalizing b with
  | nil => cases b <;> simp [allwrite]
  | cons w ws ih =>
    have hw : w ≠ 0 := fun e => h (by simp [e])
    have hws : 0 ∉ ws := fun e => h (by simp [e])
    cases b with
    | nil => exact ⟨by simp [allwrite], by simpa [allwrite] using h⟩
    | cons c b =>
      cases w with
      | zero => exact absurd rfl hw
      | succ k =>
        simp only [allwrite]
        by_cases hl : (c :: b).length ≤ k + 1
        · rw [if_pos hl]; exact ⟨rfl, hws⟩
        · rw [if_neg hl]; exact ih _ hws

theorem flush_nofail (s : OSt) (h : 0 ∉ s.ws) : (flush s).2 = true ∧ 0 ∉ (flush s).1.ws := by
  unfold flush
  by_cases hp : s.p = 0
  · rw [if_pos hp]; exact ⟨rfl, h⟩
  · rw [if_neg hp]; exact allwrite_nofail s.ws s.buf h

theorem putLoop_nofail (fuel n : Nat) (s : OSt) (d : Bytes) (h : 0 ∉ s.ws) (hn : 0 < n) (hsn : 0 < s.n)
    (hf : d.length < fuel) :
    (putLoop fuel n s d).2.2 = true ∧ 0 ∉ (putLoop fuel n s d).1.ws := by
  induction fuel generalizing n s d with
  | zero => omega
  | succ fuel ih =>
    simp only [putLoop]
    by_cases hl : d.length > s.n
    · rw [if_pos hl]
      generalize hn' : (if n > d.length then d.length else n) = n'
      have hn'0 : 0 < n' ∧ n' ≤ d.length := by
        by_cases c : n > d.length
        · rw [if_pos c] at hn'; omega
        · rw [if_neg c] at hn'; omega
      obtain ⟨a1, a2⟩ := allwrite_nofail s.ws (d.take n') h
      rw [if_pos a1]
      exact ih n' _ (d.drop n') a2 hn'0.1 hsn (by simp only [List.length_drop]; omega)
    · rw [if_neg hl]; exact ⟨rfl, h⟩

theorem copyIn_ws (s : OSt) (d : Bytes) : (copyIn s d).ws = s.ws := rfl

theorem flush_n (s : OSt) : (flush s).1.n = s.n := by
  unfold flush
  by_cases hp : s.p = 0
  · rw [if_pos hp]
  · rw [if_neg hp]

theorem put_nofail (s : OSt) (d : Bytes) (hwf : OWF s) (h : 0 ∉ s.ws) :
    (put s d).2 = true ∧ 0 ∉ (put s d).1.ws := by
  unfold put
  by_cases hl : d.length > usub32 s.n s.p
  · rw [if_pos hl]
    obtain ⟨f1, f2⟩ := flush_nofail s h
    rw [if_pos f1]
    have hn0 : 0 < (if s.n < OUTSIZE then OUTSIZE else s.n) := by
      by_cases c : s.n < OUTSIZE
      · rw [if_pos c]; decide
      · rw [if_neg c]; exact hwf.2.2.1
    obtain ⟨p1, p2⟩ := putLoop_nofail (d.length + 1) _ (flush s).1 d f2 hn0
      (by rw [flush_n]; exact hwf.2.2.1) (by omega)
    rw [if_pos p1]
    exact ⟨rfl, by rw [copyIn_ws]; exact p2⟩
  · rw [if_neg hl]; exact ⟨rfl, h⟩

/-! ## one byte from `ssin` -/

theorem get1_spec (s : ISt) (h : IWF s) :
    IWF (get1 s).1 ∧ (get1 s).1.size = s.size ∧ (icpIn s → icpIn (get1 s).1) ∧
    (0 ∉ s.rs → 0 ∉ (get1 s).1.rs ∧ (get1 s).2 ≠ .err) ∧
    (match (get1 s).2 with
     | .byte c => c :: ((get1 s).1.data ++ (get1 s).1.src) = s.data ++ s.src
     | .eof => s.data ++ s.src = [] ∧ (get1 s).1.data ++ (get1 s).1.src = []
     | .err => (get1 s).1.data ++ (get1 s).1.src = s.data ++ s.src) := by
  obtain ⟨⟨g1, g2, g3⟩, g4⟩ := get_spec s 1 h
  have gn := get_noerr s 1
  unfold get1
  generalize Substdio.get s 1 = gr at g1 g2 g3 g4 gn
  obtain ⟨s', rr⟩ := gr
  cases rr with
  | err =>
    simp only at g1 g2 g3 g4 gn ⊢
    exact ⟨g1, g2, g3, fun hn => absurd rfl (gn hn).1, g4⟩
  | eof =>
    simp only at g1 g2 g3 g4 gn ⊢
    have hd : s'.data = [] := List.eq_nil_of_length_eq_zero (by have := g1.2; omega)
    have hs : s'.src = [] := g4.2.2 (by decide)
    have e : s'.data ++ s'.src = [] := by rw [hd, hs]; rfl
    exact ⟨g1, g2, g3, fun hn => ⟨(gn hn).2, by simp⟩, by rw [← g4.1]; exact e, e⟩
  | got b =>
    simp only at g1 g2 g3 g4 gn
    cases b with
    | nil => exact absurd rfl (g4.2.2 (by decide))
    | cons c t =>
      have ht : t = [] := List.eq_nil_of_length_eq_zero (by have := g4.1; simp only [List.length_cons] at this; omega)
      subst ht
      simp only
      exact ⟨g1, g2, g3, fun hn => ⟨(gn hn).2, by simp⟩, by simpa using g4.2.1⟩

/-! ## qmail-smtpd blast() over any read chunking -/

/-- what the chunked loop computed, compared with the pure automaton on the whole stream -/
def SAgree (size : Nat) : SRes → DRes → Prop
  | .accepted b s', .accepted b' rest => b = b' ∧ IWF s' ∧ s'.size = size ∧ s'.data ++ s'.src = rest
  | .stray, .stray => True
  | .died, .incomplete => True
  | _, _ => False

theorem SAgree_semit (size : Nat) (bs : Bytes) (r : SRes) (d : DRes) (h : SAgree size r d) :
    SAgree size (semit bs r) (emit bs d) := by
  cases r <;> cases d <;> simp_all [SAgree, semit, emit]

theorem semit_died (bs : Bytes) (r : SRes) (h : r = .died) : semit bs r = .died := by
  subst h; rfl

theorem sloop_spec (fuel : Nat) (s : ISt) (st : DSt) (h : IWF s) (hf : (s.data ++ s.src).length < fuel) :
    (sloop fuel s st = .died ∧ 0 ∈ s.rs) ∨ SAgree s.size (sloop fuel s st) (drun st (s.data ++ s.src)) := by
  induction fuel generalizing s st with
  | zero => omega
  | succ fuel ih =>
    simp only [sloop]
    obtain ⟨g1, g2, _, g4, g5⟩ := get1_spec s h
    generalize get1 s = gr at g1 g2 g4 g5
    obtain ⟨s', r⟩ := gr
    cases r with
    | byte c =>
      simp only at g1 g2 g4 g5 ⊢
      rw [← g5] at hf ⊢
      simp only [drun]
      cases hd : (dstep st c).2 with
      | data bs =>
        simp only
        rcases ih s' (dstep st c).1 g1 (by simp at hf ⊢; omega) with ⟨e1, e2⟩ | e
        · left
          refine ⟨semit_died _ _ e1, ?_⟩
          apply Classical.byContradiction
          intro hn
          exact (g4 hn).1 e2
        · right; rw [← g2]; exact SAgree_semit _ _ _ _ e
      | done => right; simp only; exact ⟨rfl, g1, g2, rfl⟩
      | stray => right; simp only; trivial
    | eof =>
      simp only at g5 ⊢
      right; rw [g5.1]; simp only [drun]; trivial
    | err =>
      simp only at g4 ⊢
      left
      refine ⟨trivial, ?_⟩
      apply Classical.byContradiction
      intro hn
      exact (g4 hn).2 rfl

theorem view_of_agree (size : Nat) (r : SRes) (d : DRes) (h : SAgree size r d) : r.view = d := by
  cases r <;> cases d <;> simp_all [SAgree, SRes.view]

theorem sblast_spec (s : ISt) (h : IWF s) :
    (sblast s = .died ∧ 0 ∈ s.rs) ∨ SAgree s.size (sblast s) (dblast (s.data ++ s.src)) :=
  sloop_spec _ s .s1 h (by omega)

/-! ## qmail-remote blast() over any read chunking and any write chunking -/

theorem putAll_spec (o : OSt) (ds : List Bytes) (h : OWF o) (hc : cpIn o) :
    OWF (putAll o ds).1 ∧ cpIn (putAll o ds).1 ∧ (putAll o ds).1.n = o.n ∧
    ((putAll o ds).2 = true → (putAll o ds).1.out ++ (putAll o ds).1.buf = o.out ++ o.buf ++ ds.flatten) ∧
    (0 ∉ o.ws → (putAll o ds).2 = true ∧ 0 ∉ (putAll o ds).1.ws) := by
  induction ds generalizing o with
  | nil => exact ⟨h, hc, rfl, fun _ => by simp [putAll], fun hn => ⟨rfl, hn⟩⟩
  | cons d ds ih =>
    simp only [putAll]
    obtain ⟨p1, p2, p3, p4⟩ := put_spec o d h hc
    by_cases hr : (put o d).2 = true
    · rw [if_pos hr]
      obtain ⟨i1, i2, i3, i4, i5⟩ := ih (put o d).1 p1 p2
      refine ⟨i1, i2, by rw [i3, p3], ?_, ?_⟩
      · intro hs; rw [i4 hs, p4 hr]; simp
      · intro hn; exact i5 (put_nofail o d h hn).2
    · rw [if_neg hr]
      refine ⟨p1, p2, p3, fun hc => by simp at hc, ?_⟩
      intro hn; exact absurd (put_nofail o d h hn).1 hr

theorem rputs_flatten (st : RSt) (c : Byte) : (rputs st c).flatten = (rstep st c).2 := by
  cases st <;> simp only [rputs, rstep] <;> split <;> (try split) <;> (try split) <;> simp

/-! ### whatever happens, what has left the program is a prefix of what was handed to `substdio_put` -/

theorem flush_prefix (s : OSt) (h : OWF s) :
    ∃ t, (flush s).1.out ++ (flush s).1.buf ++ t = s.out ++ s.buf := by
  unfold flush
  by_cases hp : s.p = 0
  · rw [if_pos hp]; exact ⟨[], by simp⟩
  · rw [if_neg hp]
    obtain ⟨⟨t, ht⟩, _⟩ := allwrite_spec s.ws s.buf
    refine ⟨t, ?_⟩
    simp only [List.append_nil, List.append_assoc]
    rw [← ht]

theorem putLoop_buf (fuel n : Nat) (s : OSt) (d : Bytes) : (putLoop fuel n s d).1.buf = s.buf := by
  induction fuel generalizing n s d with
  | zero => rfl
  | succ fuel ih =>
    simp only [putLoop]
    by_cases hl : d.length > s.n
    · rw [if_pos hl]
      generalize (if n > d.length then d.length else n) = n'
      by_cases hr : (allwrite s.ws (d.take n')).2.2 = true
      · rw [if_pos hr, ih]
      · rw [if_neg hr]
    · rw [if_neg hl]

theorem putLoop_prefix (fuel n : Nat) (s : OSt) (d : Bytes) :
    ∃ t, (putLoop fuel n s d).1.out ++ t = s.out ++ d := by
  induction fuel generalizing n s d with
  | zero => exact ⟨d, rfl⟩
  | succ fuel ih =>
    simp only [putLoop]
    by_cases hl : d.length > s.n
    · rw [if_pos hl]
      generalize (if n > d.length then d.length else n) = n'
      obtain ⟨⟨t, ht⟩, a2⟩ := allwrite_spec s.ws (d.take n')
      by_cases hr : (allwrite s.ws (d.take n')).2.2 = true
      · rw [if_pos hr]
        obtain ⟨t', ht'⟩ := ih n' { s with out := s.out ++ (allwrite s.ws (d.take n')).2.1, ws := (allwrite s.ws (d.take n')).1 } (d.drop n')
        refine ⟨t', ?_⟩
        rw [ht']
        simp only [List.append_assoc]
        rw [a2 hr, List.take_append_drop]
      · rw [if_neg hr]
        refine ⟨t ++ d.drop n', ?_⟩
        simp only [List.append_assoc]
        rw [← List.append_assoc _ t, ← ht, List.take_append_drop]
    · rw [if_neg hl]; exact ⟨d, rfl⟩

theorem put_prefix (s : OSt) (d : Bytes) (h : OWF s) (hc : cpIn s) :
    ∃ t, (put s d).1.out ++ (put s d).1.buf ++ t = s.out ++ s.buf ++ d := by
  by_cases hok : (put s d).2 = true
  · exact ⟨[], by rw [List.append_nil]; exact (put_spec s d h hc).2.2.2 hok⟩
  · revert hok
    unfold put
    by_cases hl : d.length > usub32 s.n s.p
    · rw [if_pos hl]
      obtain ⟨f1, _, _, f4⟩ := flush_spec s h
      have fp := flush_p s
      have fb : (flush s).1.buf = [] := by
        have := f1.2.1; rw [fp] at this; exact List.eq_nil_of_length_eq_zero this
      by_cases hr : (flush s).2 = true
      · rw [if_pos hr]
        generalize (if s.n < OUTSIZE then OUTSIZE else s.n) = n0
        by_cases hr2 : (putLoop (d.length + 1) n0 (flush s).1 d).2.2 = true
        · rw [if_pos hr2]; intro hok; exact absurd rfl hok
        · rw [if_neg hr2]
          intro _
          obtain ⟨t, ht⟩ := putLoop_prefix (d.length + 1) n0 (flush s).1 d
          refine ⟨t, ?_⟩
          rw [putLoop_buf, fb, List.append_nil, ht]
          have := f4 hr
          rw [fb, List.append_nil] at this
          rw [this]
      · rw [if_neg hr]
        intro _
        obtain ⟨t, ht⟩ := flush_prefix s h
        exact ⟨t ++ d, by rw [← List.append_assoc, ht]⟩
    · rw [if_neg hl]; intro hok; exact absurd rfl hok

theorem putAll_prefix (o : OSt) (ds : List Bytes) (h : OWF o) (hc : cpIn o) :
    ∃ t, (putAll o ds).1.out ++ (putAll o ds).1.buf ++ t = o.out ++ o.buf ++ ds.flatten := by
  induction ds generalizing o with
  | nil => exact ⟨[], by simp [putAll]⟩
  | cons d ds ih =>
    simp only [putAll]
    obtain ⟨p1, p2, _, p4⟩ := put_spec o d h hc
    by_cases hr : (put o d).2 = true
    · rw [if_pos hr]
      obtain ⟨t, ht⟩ := ih (put o d).1 p1 p2
      exact ⟨t, by rw [ht, p4 hr]; simp⟩
    · rw [if_neg hr]
      obtain ⟨t, ht⟩ := put_prefix o d h hc
      exact ⟨t ++ ds.flatten, by rw [← List.append_assoc, ht]; simp⟩

theorem rfull_cons (st : RSt) (c : Byte) (m : Bytes) :
    rfull st (c :: m) = (rstep st c).2 ++ rfull (rstep st c).1 m := by
  simp [rfull, rpart, rstate]

/-- what the chunked encoder loop did, against the pure encoder on the whole message `m`;
`pre` = what was on the wire or in the output buffer before, `rerr`/`werr` = "the script contains a
failing call".  First clause (every outcome): what has been written or is still buffered is a prefix of
`pre ++ rfull st m`. -/
def OAgree (m pre : Bytes) (n : Nat) (rerr werr : Prop) (st : RSt) (R : ORes) : Prop :=
  (∃ t, R.ost.out ++ R.ost.buf ++ t = pre ++ rfull st m) ∧
  match R with
  | .sent o' => ∃ e, rrun st m = some e ∧ o'.out = pre ++ e ∧ o'.buf = [] ∧ OWF o' ∧ cpIn o' ∧ o'.n = n
  | .partialLine o' => rrun st m = none ∧ o'.out ++ o'.buf = pre ++ rpart st m
  | .tempRead _ => rerr
  | .dropped _ => werr

theorem OAgree_step (m' pre : Bytes) (n : Nat) (rerr rerr' werr werr' : Prop) (st : RSt) (c : Byte) (R : ORes)
    (hr : rerr' → rerr) (hw : werr' → werr)
    (h : OAgree m' (pre ++ (rstep st c).2) n rerr' werr' (rstep st c).1 R) :
    OAgree (c :: m') pre n rerr werr st R := by
  obtain ⟨⟨t, ht⟩, h⟩ := h
  refine ⟨⟨t, by rw [ht, rfull_cons]; simp⟩, ?_⟩
  cases R with
  | sent o' =>
    obtain ⟨e, h1, h2, h3⟩ := h
    exact ⟨(rstep st c).2 ++ e, by simp [rrun, h1], by rw [h2]; simp, h3⟩
  | partialLine o' =>
    simp only at h ⊢
    exact ⟨by simp [rrun, h.1], by rw [h.2]; simp [rpart]⟩
  | tempRead o' => exact hr h
  | dropped o' => exact hw h

theorem oloop_spec (fuel : Nat) (i : ISt) (o : OSt) (st : RSt) (hi : IWF i) (ho : OWF o) (hc : cpIn o)
    (hf : (i.data ++ i.src).length + 2 ≤ fuel ∨ (i.data ++ i.src = [] ∧ st = .top ∧ 1 ≤ fuel)) :
    OAgree (i.data ++ i.src) (o.out ++ o.buf) o.n (0 ∈ i.rs) (0 ∈ o.ws) st (oloop fuel i o st) := by
  induction fuel generalizing i o st with
  | zero => omega
  | succ fuel ih =>
    simp only [oloop]
    obtain ⟨g1, _, _, g4, g5⟩ := get1_spec i hi
    generalize get1 i = gr at g1 g4 g5
    obtain ⟨i', r⟩ := gr
    have hrs : 0 ∈ i'.rs → 0 ∈ i.rs := by
      intro h'
      apply Classical.byContradiction
      intro hn
      exact (g4 hn).1 h'
    cases r with
    | err =>
      simp only at g4 ⊢
      refine ⟨⟨rfull st (i.data ++ i.src), rfl⟩, ?_⟩
      show 0 ∈ i.rs
      apply Classical.byContradiction
      intro hn
      exact (g4 hn).2 rfl
    | byte c =>
      simp only at g1 g5 ⊢
      obtain ⟨p1, p2, p3, p4, p5⟩ := putAll_spec o (rputs st c) ho hc
      by_cases hr : (putAll o (rputs st c)).2 = true
      · rw [if_pos hr]
        have hlen : (i'.data ++ i'.src).length + 2 ≤ fuel := by
          rcases hf with hf | hf
          · rw [← g5] at hf; simp at hf ⊢; omega
          · rw [← g5] at hf; simp at hf
        have := ih i' (putAll o (rputs st c)).1 (rstep st c).1 g1 p1 p2 (Or.inl hlen)
        rw [p4 hr, rputs_flatten, p3] at this
        rw [← g5]
        refine OAgree_step _ _ _ _ _ _ _ _ _ _ hrs ?_ this
        intro h'
        apply Classical.byContradiction
        intro hn
        exact (p5 hn).2 h'
      · rw [if_neg hr]
        obtain ⟨t, ht⟩ := putAll_prefix o (rputs st c) ho hc
        rw [rputs_flatten] at ht
        refine ⟨⟨t ++ rfull (rstep st c).1 (i'.data ++ i'.src), ?_⟩, ?_⟩
        · rw [← g5, rfull_cons]
          show (putAll o (rputs st c)).1.out ++ (putAll o (rputs st c)).1.buf ++ _ = _
          rw [← List.append_assoc, ht]; simp
        · show 0 ∈ o.ws
          apply Classical.byContradiction
          intro hn
          exact hr (p5 hn).1
    | eof =>
      simp only at g1 g5 ⊢
      rw [g5.1]
      cases st with
      | mid =>
        refine ⟨⟨[], by simp [ORes.ost, rfull, rpart, rstate, rfinish]⟩, ?_⟩
        simp [rrun, rfinish, rpart]
      | top =>
        simp only
        obtain ⟨p1, p2, p3, p4, p5⟩ := putAll_spec o [[DOT, CR, LF]] ho hc
        have hfull : rfull .top [] = [DOT, CR, LF] := by simp [rfull, rpart, rstate, rfinish]
        by_cases hr : (putAll o [[DOT, CR, LF]]).2 = true
        · rw [if_pos hr]
          obtain ⟨f1, f2, f3, f4⟩ := flush_spec _ p1
          have fp := flush_p (putAll o [[DOT, CR, LF]]).1
          have fb : (flush (putAll o [[DOT, CR, LF]]).1).1.buf = [] := by
            have := f1.2.1; rw [fp] at this; exact List.eq_nil_of_length_eq_zero this
          have p4' := p4 hr
          simp only [List.flatten_cons, List.flatten_nil, List.append_nil] at p4'
          by_cases hfl : (flush (putAll o [[DOT, CR, LF]]).1).2 = true
          · rw [if_pos hfl]
            have hout : (flush (putAll o [[DOT, CR, LF]]).1).1.out = o.out ++ o.buf ++ [DOT, CR, LF] := by
              have := f4 hfl
              rw [fb, List.append_nil, p4'] at this
              exact this
            refine ⟨⟨[], ?_⟩, [DOT, CR, LF], by simp [rrun, rfinish], hout, fb, f1, ?_, by rw [f3, p3]⟩
            · show (flush _).1.out ++ (flush _).1.buf ++ [] = _
              rw [fb, hout, hfull]; simp
            · intro c hcm; rw [f2] at hcm; rw [f3]; exact p2 c hcm
          · rw [if_neg hfl]
            obtain ⟨t, ht⟩ := flush_prefix _ p1
            refine ⟨⟨t, ?_⟩, ?_⟩
            · show (flush _).1.out ++ (flush _).1.buf ++ t = _
              rw [ht, p4', hfull]
            · show 0 ∈ o.ws
              apply Classical.byContradiction
              intro hn
              exact hfl (flush_nofail _ (p5 hn).2).1
        · rw [if_neg hr]
          obtain ⟨t, ht⟩ := putAll_prefix o [[DOT, CR, LF]] ho hc
          simp only [List.flatten_cons, List.flatten_nil, List.append_nil] at ht
          refine ⟨⟨t, ?_⟩, ?_⟩
          · show (putAll o [[DOT, CR, LF]]).1.out ++ (putAll o [[DOT, CR, LF]]).1.buf ++ t = _
            rw [ht, hfull]
          · show 0 ∈ o.ws
            apply Classical.byContradiction
            intro hn
            exact hr (p5 hn).1
      | cr =>
        simp only
        obtain ⟨p1, p2, p3, p4, p5⟩ := putAll_spec o [[CR, LF]] ho hc
        have hfull : rfull .cr [] = [CR, LF, DOT, CR, LF] := by simp [rfull, rpart, rstate, rfinish]
        have hfull' : rfull .top [] = [DOT, CR, LF] := by simp [rfull, rpart, rstate, rfinish]
        by_cases hr : (putAll o [[CR, LF]]).2 = true
        · rw [if_pos hr]
          have hfuel : 1 ≤ fuel := by
            rcases hf with hf | hf
            · omega
            · exact absurd hf.2.1 (by simp)
          have p4' := p4 hr
          simp only [List.flatten_cons, List.flatten_nil, List.append_nil] at p4'
          have := ih i' (putAll o [[CR, LF]]).1 .top g1 p1 p2 (Or.inr ⟨g5.2, rfl, hfuel⟩)
          rw [p4', g5.2, p3] at this
          generalize oloop fuel i' (putAll o [[CR, LF]]).1 .top = R at this
          obtain ⟨⟨t, ht⟩, this⟩ := this
          refine ⟨⟨t, by rw [ht, hfull, hfull']; simp⟩, ?_⟩
          cases R with
          | sent o' =>
            obtain ⟨e, h1, h2, h3⟩ := this
            simp [rrun, rfinish] at h1
            subst h1
            exact ⟨[CR, LF, DOT, CR, LF], by simp [rrun, rfinish], by rw [h2]; simp, h3⟩
          | partialLine o' => simp [rrun, rfinish] at this
          | tempRead o' => exact hrs this
          | dropped o' =>
            show 0 ∈ o.ws
            apply Classical.byContradiction
            intro hn
            exact (p5 hn).2 this
        · rw [if_neg hr]
          obtain ⟨t, ht⟩ := putAll_prefix o [[CR, LF]] ho hc
          simp only [List.flatten_cons, List.flatten_nil, List.append_nil] at ht
          refine ⟨⟨t ++ [DOT, CR, LF], ?_⟩, ?_⟩
          · show (putAll o [[CR, LF]]).1.out ++ (putAll o [[CR, LF]]).1.buf ++ _ = _
            rw [← List.append_assoc, ht, hfull]; simp
          · show 0 ∈ o.ws
            apply Classical.byContradiction
            intro hn
            exact hr (p5 hn).1

theorem oblast_spec (i : ISt) (o : OSt) (hi : IWF i) (ho : OWF o) (hc : cpIn o) :
    OAgree (i.data ++ i.src) (o.out ++ o.buf) o.n (0 ∈ i.rs) (0 ∈ o.ws) .top (oblast i o) :=
  oloop_spec _ i o .top hi ho hc (Or.inl (Nat.le_refl _))

end Nq.Lemmas.SmtpIO
