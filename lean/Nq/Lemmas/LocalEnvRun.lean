/-
  Lemmas for C13 (extension round 4): what `Nq.Local.run` leaves in `sel`, `dfltEnv` ($DEFAULT) and `ueo` ($NEWSENDER).
-/
import Nq.LocalEnv
import Nq.Lemmas.Local

namespace Nq.Lemmas.LocalEnvRun
open Nq Nq.Local Nq.Gen.LocalExit Nq.Lemmas.Local

theorem deliver_keeps (a : Args) (w : World) (cmds : Bytes) (fo : Bool) (r : Result) :
    (deliver a w cmds fo r).ueo = r.ueo ∧ (deliver a w cmds fo r).dfltEnv = r.dfltEnv ∧ (deliver a w cmds fo r).sel = r.sel := by
  unfold deliver
  dsimp only
  split
  · exact ⟨rfl, rfl, rfl⟩
  · split
    · split <;> exact ⟨rfl, rfl, rfl⟩
    · exact ⟨rfl, rfl, rfl⟩

/-- the three fields of a result that end up in the environment -/
def EnvFacts (a : Args) (w : World) (r : Result) : Prop :=
  (match r.sel with
   | some c => c ∈ qmeCandidates a.dash (safeext a.ext) ∧ r.dfltEnv = c.dflt.map (fun i => a.ext.drop i)
   | none => r.dfltEnv = none) ∧
  (match r.ueo with
   | none => r.effects = []
   | some u => ueoOf a.loc a.dash (safeext a.ext) a.host a.sender w.ex = .ok u)

theorem envFacts_deliver (a : Args) (w : World) (cmds : Bytes) (fo : Bool) (r : Result) (u : Bytes)
    (h1 : match r.sel with
      | some c => c ∈ qmeCandidates a.dash (safeext a.ext) ∧ r.dfltEnv = c.dflt.map (fun i => a.ext.drop i)
      | none => r.dfltEnv = none)
    (h2 : r.ueo = some u) (h3 : ueoOf a.loc a.dash (safeext a.ext) a.host a.sender w.ex = .ok u) :
    EnvFacts a w (deliver a w cmds fo r) := by
  obtain ⟨k1, k2, k3⟩ := deliver_keeps a w cmds fo r
  unfold EnvFacts
  rw [k1, k2, k3, h2]
  exact ⟨h1, h3⟩

theorem run_envFacts (a : Args) (w : World) : EnvFacts a w (run a w) := by
  unfold run
  rcases hc : checkhome a.doit w.home with ⟨_ | y, warn⟩
  · simp only
    split
    · exact ⟨rfl, rfl⟩
    · cases hs : qmeSelect w.fs (qmeCandidates a.dash (safeext a.ext)) with
      | temp n => exact ⟨rfl, rfl⟩
      | writable n => exact ⟨rfl, rfl⟩
      | nofile =>
        simp only
        split
        · exact ⟨rfl, rfl⟩
        · split
          · exact ⟨rfl, rfl⟩
          · rename_i u hu
            exact envFacts_deliver a w _ _ _ u rfl rfl hu
      | found c mode content =>
        have hmem : c ∈ qmeCandidates a.dash (safeext a.ext) := by
          obtain ⟨pre, post, he, _⟩ := (qmeSelect_found_iff w.fs c mode content _).1 hs
          rw [he]; simp
        simp only
        split
        · exact ⟨⟨hmem, rfl⟩, rfl⟩
        · rename_i u hu
          split
          · exact envFacts_deliver a w _ _ _ u ⟨hmem, rfl⟩ rfl hu
          · exact envFacts_deliver a w _ _ _ u ⟨hmem, rfl⟩ rfl hu
  · exact ⟨rfl, rfl⟩

end Nq.Lemmas.LocalEnvRun
