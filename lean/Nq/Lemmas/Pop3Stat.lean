/-
  Lemmas about the session machine of `Nq.Pop3` that the first round left to correspondence:
  STAT's total, the value LAST reports, the grammar of command lines (commands.c), the byte loop
  as "one handler per LF-terminated line", and the start-up state.  Core Lean only.
-/
import Nq.Pop3
import Nq.Lemmas.Pop3Sess
import Nq.Lemmas.Pop3Heap

namespace Nq.Lemmas.Pop3
open Nq Nq.Pop3 Nq.Lemmas.Pop3Heap

/-! ### STAT -/

/-- the sum of the announced sizes of the messages that are not marked -/
def liveTotal (msgs : List Msg) : Nat := ((msgs.filter (fun m => !m.del)).map (·.size)).sum

theorem stat_fold (msgs : List Msg) : ∀ t : Nat,
    msgs.foldl (fun t m => if m.del then t else (t + m.size) % U64) (t % U64) = (t + liveTotal msgs) % U64 := by
  induction msgs with
  | nil => intro t; simp [liveTotal]
  | cons m rest ih =>
    intro t
    rw [List.foldl_cons]
    by_cases hd : m.del = true
    · have : liveTotal (m :: rest) = liveTotal rest := by simp [liveTotal, hd]
      simp only [hd, if_true, this]
      exact ih t
    · have hd' : m.del = false := by simpa using hd
      have : liveTotal (m :: rest) = m.size + liveTotal rest := by simp [liveTotal, hd']
      simp only [hd', this]
      have e : (t % U64 + m.size) % U64 = (t + m.size) % U64 := by
        rw [Nat.add_mod, Nat.mod_mod, ← Nat.add_mod]
      rw [show (if false = true then t % U64 else (t % U64 + m.size) % U64) = (t + m.size) % U64 from by simp [e]]
      rw [ih (t + m.size), Nat.add_assoc]

theorem stat_total (msgs : List Msg) :
    msgs.foldl (fun t m => if m.del then t else (t + m.size) % U64) 0 = liveTotal msgs % U64 := by
  have := stat_fold msgs 0
  simpa using this

/-! ### LAST -/

/-- the highest message number that is marked (message numbers start at `i + 1`); 0 if none is -/
def highMark : Nat → List Msg → Nat
  | _, [] => 0
  | i, m :: rest => max (if m.del then i + 1 else 0) (highMark (i + 1) rest)

theorem highMark_clear (msgs : List Msg) (h : ∀ m ∈ msgs, m.del = false) : ∀ k, highMark k msgs = 0 := by
  induction msgs with
  | nil => intro k; rfl
  | cons m rest ih =>
    intro k
    have h1 : m.del = false := h m (by simp)
    simp [highMark, h1, ih (fun x hx => h x (by simp [hx]))]

theorem highMark_unmark (msgs : List Msg) (k : Nat) :
    highMark k (msgs.map (fun m => { m with del := false })) = 0 :=
  highMark_clear _ (by intro m hm; simp only [List.mem_map] at hm; obtain ⟨x, _, rfl⟩ := hm; rfl) k

theorem highMark_setDel (msgs : List Msg) : ∀ k i, i < msgs.length →
    highMark k (setDel msgs i) = max (highMark k msgs) (k + i + 1) := by
  induction msgs with
  | nil => intro k i h; simp at h
  | cons m rest ih =>
    intro k i h
    cases i with
    | zero =>
      simp only [setDel, highMark, if_true, Nat.add_zero]
      split <;> omega
    | succ i =>
      simp only [setDel, highMark]
      rw [ih (k + 1) i (by simpa using h)]
      omega

/-- every marked message has a number ≤ highMark, and highMark is the number of a marked message
(or 0): it *is* the highest marked number -/
theorem highMark_ge (msgs : List Msg) : ∀ k i m, msgs[i]? = some m → m.del = true → k + i + 1 ≤ highMark k msgs := by
  induction msgs with
  | nil => intro k i m h; simp at h
  | cons x rest ih =>
    intro k i m h hd
    cases i with
    | zero =>
      simp only [List.getElem?_cons_zero, Option.some.injEq] at h
      subst h
      simp only [highMark, hd, if_true]; omega
    | succ i =>
      simp only [List.getElem?_cons_succ] at h
      have := ih (k + 1) i m h hd
      simp only [highMark]; omega

theorem highMark_attained (msgs : List Msg) : ∀ k, highMark k msgs = 0 ∨
    ∃ i m, msgs[i]? = some m ∧ m.del = true ∧ highMark k msgs = k + i + 1 := by
  induction msgs with
  | nil => intro k; left; rfl
  | cons x rest ih =>
    intro k
    simp only [highMark]
    rcases ih (k + 1) with h | ⟨i, m, h1, h2, h3⟩
    · by_cases hd : x.del = true
      · right; exact ⟨0, x, by simp, hd, by simp [hd, h]⟩
      · left; simp [hd, h]
    · right
      by_cases hd : x.del = true
      · refine ⟨i + 1, m, by simpa using h1, h2, ?_⟩
        simp only [hd, if_true]; omega
      · refine ⟨i + 1, m, by simpa using h1, h2, ?_⟩
        simp only [hd]; simp; omega

theorem msgno_ok (s : Sess) (arg : Bytes) (i : Nat) (h : msgno s arg = .ok i) :
    i < s.msgs.length ∧ ∃ m, s.msgs[i]? = some m ∧ m.del = false := by
  unfold msgno at h
  generalize scanUlong arg = up at h
  obtain ⟨u, pos⟩ := up
  simp only at h
  split at h
  · cases h
  · split at h
    · cases h
    · split at h
      · cases h
      · rename_i h3
        split at h
        · rename_i m hm
          split at h
          · cases h
          · rename_i hd
            cases h
            refine ⟨by omega, m, hm, by simpa using hd⟩
        · cases h

/-- the session keeps `last` = highest marked message number -/
def LastInv (s : Sess) : Prop := s.last = highMark 0 s.msgs

theorem exec_lastInv (s : Sess) (verb arg : Bytes) (h : LastInv s) : LastInv (exec s verb arg).1 := by
  unfold LastInv at h ⊢
  unfold exec
  split
  · exact h
  · split
    · exact h
    · split
      · repeat' split
        all_goals exact h
      · split
        · split
          · exact h
          · rename_i i hn
            obtain ⟨hi, _⟩ := msgno_ok s arg i hn
            simp only
            rw [highMark_setDel _ 0 i hi, ← h]
            split <;> omega
        · split
          · repeat' split
            all_goals exact h
          · split
            · simp only
              rw [highMark_unmark]
            · repeat' split
              all_goals exact h

theorem feedByte_lastInv (r : Run) (c : Byte) (h : LastInv r.s) : LastInv (feedByte r c).s := by
  unfold feedByte
  split
  · exact h
  · split
    · exact exec_lastInv _ _ _ h
    · exact h

theorem feedBytes_lastInv (b : Bytes) : ∀ r : Run, LastInv r.s → LastInv (b.foldl feedByte r).s := by
  induction b with
  | nil => intro r h; exact h
  | cons c b ih => intro r h; rw [List.foldl_cons]; exact ih _ (feedByte_lastInv r c h)

theorem feedEv_lastInv (e : Ev) (r : Run) (h : LastInv r.s) : LastInv (feedEv r e).s := by
  cases e with
  | data b => exact feedBytes_lastInv b r h
  | vanish p => rw [feedEv_vanish]; cases r.exit <;> exact h

theorem feedEvs_lastInv (evs : List Ev) : ∀ r : Run, LastInv r.s → LastInv (evs.foldl feedEv r).s := by
  induction evs with
  | nil => intro r h; exact h
  | cons e evs ih => intro r h; rw [List.foldl_cons]; exact ih _ (feedEv_lastInv e r h)

/-! ### the start-up state -/

/-- the state in which main() enters commands(): tmp/ cleaned, the maildir scanned, greeting sent -/
def start (now : Nat) (fs : FS) : Run :=
  { s := { msgs := getlist now (cleanTmp now fs), last := 0, fs := cleanTmp now fs }, out := okLine }

theorem main_eq_start (uid : Nat) (now : Nat) (fs : FS) (evs : List Ev) (hu : uid ≠ 0) :
    Pop3.main uid true now fs evs =
      { out := (evs.foldl feedEv (start now fs)).out, err := [], code := 0, fs := (evs.foldl feedEv (start now fs)).s.fs } := by
  simp [Pop3.main, hu, start]

theorem getlist_unmarked (now : Nat) (fs : FS) : ∀ m ∈ getlist now fs, m.del = false := by
  intro m hm
  unfold getlist at hm
  simp only [List.mem_map] at hm
  obtain ⟨e, _, rfl⟩ := hm
  rfl

theorem start_lastInv (now : Nat) (fs : FS) : LastInv (start now fs).s := by
  unfold LastInv start
  simp only
  rw [highMark_clear _ (getlist_unmarked now _)]

/-! maildir_clean touches tmp/ only: it changes neither which messages are eligible nor their sizes -/

theorem dir_ne (f : File) (a b : Bytes) (hab : a ≠ b) (h : inDir a f = true) : inDir b f = false := by
  unfold inDir at *
  have : f.path.take 4 = a := by simpa using h
  rw [this]
  simpa using hab

theorem cleanTmp_keeps (now : Nat) (f : File) (h : inDir tmpSl f = false) :
    (!(inDir tmpSl f && (baseName f).head? != some DOT && decide (now > f.atime + Gen.Pop3Tab.tmpMaxAge))) = true := by
  simp [h]

theorem filter_cleanTmp (now : Nat) (fs : FS) (d : Bytes) (hd : d ≠ tmpSl) :
    (cleanTmp now fs).filter (inDir d) = fs.filter (inDir d) := by
  unfold cleanTmp
  rw [List.filter_filter]
  apply List.filter_congr
  intro f _
  by_cases h : inDir d f = true
  · have := cleanTmp_keeps now f (dir_ne f d tmpSl hd h)
    simp only [h, Bool.true_and]
    simpa using this
  · simp [h]

theorem eligible_cleanTmp (now : Nat) (fs : FS) : eligible now (cleanTmp now fs) = eligible now fs := by
  unfold eligible
  rw [filter_cleanTmp now fs newSl (by decide), filter_cleanTmp now fs curSl (by decide)]

theorem find_filter (fs : FS) (q : File → Bool) (p : Bytes) (h : ∀ f ∈ fs, f.path = p → q f = true) :
    fsFind (fs.filter q) p = fsFind fs p := by
  induction fs with
  | nil => rfl
  | cons f rest ih =>
    have ih' := ih (fun x hx => h x (by simp [hx]))
    rw [List.filter_cons]
    by_cases hp : f.path = p
    · rw [h f (by simp) hp]
      simp only [if_true]
      rw [find_cons, find_cons, if_pos hp, if_pos hp]
    · split
      · rw [find_cons, find_cons, if_neg hp, if_neg hp, ih']
      · rw [find_cons, if_neg hp, ih']

theorem sizeAt_cleanTmp (now : Nat) (fs : FS) (p : Bytes) (hp : p.take 4 ≠ tmpSl) :
    sizeAt (cleanTmp now fs) p = sizeAt fs p := by
  unfold sizeAt cleanTmp
  rw [find_filter]
  intro f _ hf
  apply cleanTmp_keeps
  unfold inDir
  rw [hf]
  simpa using hp

theorem eligible_dir (now : Nat) (fs : FS) (f : File) (h : f ∈ eligible now fs) :
    inDir newSl f = true ∨ inDir curSl f = true := by
  unfold eligible at h
  simp only [List.mem_filter, List.mem_append] at h
  rcases h.1.1 with h | h
  · left; exact h.2
  · right; exact h.2

theorem eligible_mem (now : Nat) (fs : FS) (f : File) (h : f ∈ eligible now fs) : f ∈ fs := by
  unfold eligible at h
  simp only [List.mem_filter, List.mem_append] at h
  rcases h.1.1 with h | h <;> exact h.1

/-- with unique names (maildir(5)) the file found under a name is the file itself -/
theorem find_of_nodup (fs : FS) (h : (fs.map (·.path)).Nodup) (f : File) (hf : f ∈ fs) :
    fsFind fs f.path = some f := by
  induction fs with
  | nil => simp at hf
  | cons g rest ih =>
    rw [find_cons]
    simp only [List.map_cons, List.nodup_cons] at h
    rcases List.mem_cons.mp hf with hfg | hfr
    · subst hfg; simp
    · have : g.path ≠ f.path := by
        intro e
        exact h.1 (by rw [e]; exact List.mem_map_of_mem hfr)
      rw [if_neg this]
      exact ih h.2 hfr

/-! ### commands.c: the grammar of a command line -/

theorem takeWhile_all {α} (p : α → Bool) (l : List α) (h : ∀ a ∈ l, p a = true) : l.takeWhile p = l := by
  induction l with
  | nil => rfl
  | cons c l ih =>
    rw [List.takeWhile_cons, h c (by simp)]
    simp only [if_true]
    rw [ih (fun a ha => h a (by simp [ha]))]

theorem takeWhile_app {α} (p : α → Bool) (l r : List α) (h : ∀ a ∈ l, p a = true) :
    (l ++ r).takeWhile p = l ++ r.takeWhile p := by
  induction l with
  | nil => rfl
  | cons c l ih =>
    rw [List.cons_append, List.takeWhile_cons, h c (by simp)]
    simp only [if_true]
    rw [ih (fun a ha => h a (by simp [ha]))]
    rfl

theorem dropWhile_app {α} (p : α → Bool) (l r : List α) (h : ∀ a ∈ l, p a = true) :
    (l ++ r).dropWhile p = r.dropWhile p := by
  induction l with
  | nil => rfl
  | cons c l ih =>
    rw [List.cons_append, List.dropWhile_cons, h c (by simp)]
    simp only [if_true]
    exact ih (fun a ha => h a (by simp [ha]))

/-- the part of parseLine after the CR has been dropped -/
theorem parse_body (verb arg : Bytes) (k : Nat)
    (hv : ∀ c ∈ verb, c ≠ SP ∧ c ≠ NUL) (ha : ∀ c ∈ arg, c ≠ NUL) (hh : arg.head? ≠ some SP)
    (hk : arg ≠ [] → k ≠ 0) :
    let l2 := (verb ++ (List.replicate k SP ++ arg)).takeWhile (· ≠ NUL)
    (l2.takeWhile (· ≠ SP), (l2.dropWhile (· ≠ SP)).dropWhile (· = SP)) = (verb, arg) := by
  intro l2
  have hl2 : l2 = verb ++ (List.replicate k SP ++ arg) := by
    apply takeWhile_all
    intro c hc
    simp only [List.mem_append, List.mem_replicate] at hc
    rcases hc with hc | hc | hc
    · simpa using (hv c hc).2
    · rw [hc.2]; decide
    · simpa using ha c hc
  have hvs : ∀ c ∈ verb, (fun x : Byte => decide (x ≠ SP)) c = true := by
    intro c hc; simpa using (hv c hc).1
  have hsp : ∀ c ∈ List.replicate k SP, (fun x : Byte => decide (x = SP)) c = true := by
    intro c hc; simp only [List.mem_replicate] at hc; simp [hc.2]
  have harg : arg.dropWhile (fun x : Byte => decide (x = SP)) = arg := by
    cases arg with
    | nil => rfl
    | cons c t =>
      have : c ≠ SP := by intro e; apply hh; simp [e]
      simp [this]
  rw [hl2, takeWhile_app _ _ _ hvs, dropWhile_app _ _ _ hvs]
  cases k with
  | zero =>
    have : arg = [] := by
      cases arg with
      | nil => rfl
      | cons c t => exact absurd rfl (hk (by simp))
    subst this
    simp
  | succ k =>
    have e1 : (List.replicate (k + 1) SP ++ arg).takeWhile (fun x : Byte => decide (x ≠ SP)) = [] := by
      simp [List.replicate_succ]
    have e2 : (List.replicate (k + 1) SP ++ arg).dropWhile (fun x : Byte => decide (x ≠ SP))
        = List.replicate (k + 1) SP ++ arg := by
      simp [List.replicate_succ]
    rw [e1, e2, dropWhile_app _ _ _ hsp, harg]
    simp

/-! ### commands(): one handler per LF-terminated line -/

/-- what commands() does with one complete line (without its LF) -/
def stepLine (r : Run) (line : Bytes) : Run :=
  match r.exit with
  | some _ => r
  | none =>
    { s := (exec r.s (parseLine line).1 (parseLine line).2).1, cmd := [],
      out := r.out ++ (exec r.s (parseLine line).1 (parseLine line).2).2.1,
      exit := (exec r.s (parseLine line).1 (parseLine line).2).2.2 }

theorem feed_noLF (line : Bytes) : ∀ r : Run, r.exit = none → LF ∉ line →
    line.foldl feedByte r = { r with cmd := line.reverse ++ r.cmd } := by
  induction line with
  | nil => intro r _ _; rfl
  | cons c line ih =>
    intro r hx hl
    have hc : c ≠ LF := fun e => hl (by simp [e])
    have hl' : LF ∉ line := fun e => hl (by simp [e])
    rw [List.foldl_cons]
    have h1 : feedByte r c = { r with cmd := c :: r.cmd } := by
      unfold feedByte; simp [hx, hc]
    rw [h1, ih _ (by simpa using hx) hl']
    simp

theorem feed_line (r : Run) (line : Bytes) (hc : r.cmd = []) (hl : LF ∉ line) :
    (line ++ [LF]).foldl feedByte r = stepLine r line := by
  cases hx : r.exit with
  | some x =>
    rw [feedBytes_exit_some _ r x hx]
    simp [stepLine, hx]
  | none =>
    rw [List.foldl_append, feed_noLF line r hx hl]
    simp only [List.foldl_cons, List.foldl_nil]
    unfold feedByte
    simp [hx, hc, stepLine]

theorem stepLine_cmd (r : Run) (line : Bytes) (hc : r.cmd = []) : (stepLine r line).cmd = [] := by
  unfold stepLine
  cases r.exit <;> simp [hc]

theorem feed_lines (lines : List Bytes) : ∀ r : Run, r.cmd = [] → (∀ l ∈ lines, LF ∉ l) →
    (lines.flatMap (· ++ [LF])).foldl feedByte r = lines.foldl stepLine r := by
  induction lines with
  | nil => intro r _ _; rfl
  | cons l lines ih =>
    intro r hc hl
    rw [List.flatMap_cons, List.foldl_append, feed_line r l hc (hl l (by simp)), List.foldl_cons]
    exact ih _ (stepLine_cmd r l hc) (fun x hx => hl x (by simp [hx]))

end Nq.Lemmas.Pop3
