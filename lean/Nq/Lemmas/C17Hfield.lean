/-
  C17 lemmas: hfield.c's `hmatch` / `hfield_known` agree with the independent field-name matcher
  `Spec.Addr.fieldName` (bytes before the first colon, trailing blanks removed, lower-cased) plus a table lookup.
-/
import Nq.Inject
import Nq.Lemmas.C17Inject
import Nq.Spec.Addr
import Nq.Spec.Lex822
import Nq.Lemmas.C17Tables
namespace Nq.Lemmas.C17
set_option maxRecDepth 20000
open Nq Nq.Quote Nq.Token822 Nq.Inject Nq.Spec.Addr

/-- a byte of a table name: lower-case letter or '-' -/
def nameCh (c : Byte) : Bool := (decide (97 ≤ c.toNat) && decide (c.toNat ≤ 122)) || c == 45
def nameOk (t : Bytes) : Bool := !t.isEmpty && t.all nameCh

theorem hname_ok : (Gen.hname.drop 1).all nameOk = true := by decide

def isBlank (c : Byte) : Bool := c == SP || c == TAB

def nameF1 (c : Byte) : Bool := !nameCh c || (lowerByte c == c && c != 58 && !isBlank c)
def nameF2 (c : Byte) : Bool := !(nameCh c && c != 45) || (lowerByte (c - 32) == c && c - 32 != 58 && !isBlank (c - 32))
def nameF3 (x : Byte) : Bool := !nameCh (lowerByte x) || (lowerByte x == x || (lowerByte x != 45 && lowerByte x - 32 == x))
theorem nameF1_all : ∀ c, nameF1 c = true := forall_byte nameF1 (by decide)
theorem nameF2_all : ∀ c, nameF2 c = true := forall_byte nameF2 (by decide)
theorem nameF3_all : ∀ c, nameF3 c = true := forall_byte nameF3 (by decide)

/-- one character of `hmatch`: the table byte `ch` matches the text byte `x` -/
theorem match_lower {ch x : Byte} (hc : nameCh ch = true) (hm : ch = x ∨ (ch ≠ 45 ∧ ch - 32 = x)) :
    lowerByte x = ch ∧ x ≠ 58 ∧ isBlank x = false := by
  rcases hm with rfl | ⟨h1, rfl⟩
  · have := nameF1_all ch
    simp only [nameF1, hc, Bool.not_true, Bool.false_or, Bool.and_eq_true, beq_iff_eq, bne_iff_ne, ne_eq,
      Bool.not_eq_true'] at this
    exact ⟨this.1.1, this.1.2, this.2⟩
  · have := nameF2_all ch
    have h1' : (ch != 45) = true := by simpa using h1
    simp only [nameF2, hc, h1', Bool.and_self, Bool.not_true, Bool.false_or, Bool.and_eq_true, beq_iff_eq, bne_iff_ne, ne_eq,
      Bool.not_eq_true'] at this
    exact ⟨this.1.1, this.1.2, this.2⟩

theorem lower_match {ch x : Byte} (hc : nameCh ch = true) (hl : lowerByte x = ch) : ch = x ∨ (ch ≠ 45 ∧ ch - 32 = x) := by
  subst hl
  have := nameF3_all x
  simp only [nameF3, hc, Bool.not_true, Bool.false_or, Bool.or_eq_true, Bool.and_eq_true, beq_iff_eq, bne_iff_ne, ne_eq] at this
  exact this

theorem hmatchName_split (t : Bytes) (ht : t.all nameCh = true) :
    ∀ s rest, hmatchName s t = some rest → ∃ nm, s = nm ++ rest ∧ lower nm = t ∧ (∀ x ∈ nm, x ≠ 58 ∧ isBlank x = false) := by
  induction t with
  | nil => intro s rest h; simp [hmatchName] at h; exact ⟨[], by simp [h], rfl, by simp⟩
  | cons ch t ih =>
    intro s rest h
    simp only [List.all_cons, Bool.and_eq_true] at ht
    cases s with
    | nil => simp [hmatchName] at h
    | cons x s =>
      simp only [hmatchName] at h
      split at h
      · rename_i hm
        obtain ⟨nm, e1, e2, e3⟩ := ih ht.2 s rest h
        obtain ⟨m1, m2, m3⟩ := match_lower ht.1 hm
        refine ⟨x :: nm, by simp [e1], by simp [lower, m1] at e2 ⊢; exact e2, ?_⟩
        intro y hy
        simp only [List.mem_cons] at hy
        rcases hy with rfl | hy
        · exact ⟨m2, m3⟩
        · exact e3 y hy
      · simp at h

theorem hmatchName_of_lower (t : Bytes) (ht : t.all nameCh = true) :
    ∀ nm rest, lower nm = t → hmatchName (nm ++ rest) t = some rest := by
  induction t with
  | nil => intro nm rest h; cases nm <;> simp_all [lower, hmatchName]
  | cons ch t ih =>
    intro nm rest h
    simp only [List.all_cons, Bool.and_eq_true] at ht
    cases nm with
    | nil => simp [lower] at h
    | cons x nm =>
      simp only [lower, List.map_cons, List.cons.injEq] at h
      have hm := lower_match ht.1 h.1
      simp only [List.cons_append, hmatchName, hm, if_true]
      exact ih ht.2 nm rest h.2

theorem hmatchTail_split : ∀ rest, hmatchTail rest = true → ∃ ws r, rest = ws ++ 58 :: r ∧ ws.all isBlank = true := by
  intro rest
  induction rest with
  | nil => intro h; simp [hmatchTail] at h
  | cons c r ih =>
    intro h
    simp only [hmatchTail] at h
    split at h
    · rename_i hc; exact ⟨[], r, by simp [hc], rfl⟩
    · split at h
      · rename_i hb
        obtain ⟨ws, r', e, hw⟩ := ih h
        refine ⟨c :: ws, r', by simp [e], ?_⟩
        simp only [List.all_cons, hw, Bool.and_true, isBlank]
        rcases hb with hb | hb <;> simp [hb]
      · simp at h

theorem hmatchTail_of (ws r : Bytes) (hw : ws.all isBlank = true) : hmatchTail (ws ++ 58 :: r) = true := by
  induction ws with
  | nil => simp [hmatchTail]
  | cons c ws ih =>
    simp only [List.all_cons, Bool.and_eq_true] at hw
    have hb : c = SP ∨ c = TAB := by simpa [isBlank] using hw.1
    have hc : c ≠ 58 := by rcases hb with rfl | rfl <;> decide
    simp only [List.cons_append, hmatchTail, hc, if_false, hb, if_true]
    exact ih hw.2

/-- the name part of a line `nm ws : rest` -/
theorem fieldName_of (nm ws r : Bytes) (hnm : ∀ x ∈ nm, x ≠ 58 ∧ isBlank x = false) (hw : ws.all isBlank = true) :
    fieldName (nm ++ ws ++ 58 :: r) = some (lower nm) := by
  have hws : ∀ x ∈ ws, x ≠ 58 := by
    intro x hx
    have := List.all_eq_true.mp hw x hx
    intro e; subst e; simp [isBlank, SP, TAB] at this
  have hc : (nm ++ ws ++ 58 :: r).contains 58 = true := by simp
  have htw : (nm ++ ws ++ 58 :: r).takeWhile (· != 58) = nm ++ ws := by
    have : ∀ (l : Bytes), (∀ x ∈ l, x ≠ 58) → (l ++ 58 :: r).takeWhile (· != 58) = l := by
      intro l hl
      induction l with
      | nil => simp
      | cons a l ih =>
        have ha : a ≠ 58 := hl a (by simp)
        simp [List.takeWhile_cons, ha, ih (fun x hx => hl x (by simp [hx]))]
    apply this
    intro x hx
    simp only [List.mem_append] at hx
    rcases hx with hx | hx
    · exact (hnm x hx).1
    · exact hws x hx
  have hdw : (nm ++ ws).reverse.dropWhile (fun c => c == SP || c == TAB) = nm.reverse := by
    rw [List.reverse_append]
    have h1 : ∀ (a b : Bytes), a.all isBlank = true → (b = [] ∨ ∃ y ys, b = y :: ys ∧ isBlank y = false) →
        (a ++ b).dropWhile (fun c => c == SP || c == TAB) = b := by
      intro a b ha hb
      induction a with
      | nil =>
        rcases hb with rfl | ⟨y, ys, rfl, hy⟩
        · simp
        · simp only [List.nil_append, List.dropWhile_cons]
          have : (y == SP || y == TAB) = false := hy
          simp [this]
      | cons c a ih =>
        simp only [List.all_cons, Bool.and_eq_true] at ha
        have : (c == SP || c == TAB) = true := ha.1
        simp [List.dropWhile_cons, this, ih ha.2]
    apply h1 ws.reverse nm.reverse (by simpa using hw)
    cases hr : nm.reverse with
    | nil => exact Or.inl rfl
    | cons y ys =>
      refine Or.inr ⟨y, ys, rfl, ?_⟩
      have : y ∈ nm := by
        have : y ∈ nm.reverse := by rw [hr]; simp
        simpa using this
      exact (hnm y this).2
  unfold fieldName
  rw [hc, htw, hdw]
  simp

/-- **`hmatch` is "the line's field name is `t`"** for every name of lower-case letters and dashes -/
theorem hmatch_iff (s t : Bytes) (ht : nameOk t = true) : hmatch s t = true ↔ fieldName s = some t := by
  simp only [nameOk, Bool.and_eq_true, Bool.not_eq_true', List.isEmpty_eq_false_iff] at ht
  obtain ⟨hne, hall⟩ := ht
  constructor
  · intro h
    unfold hmatch at h
    split at h
    · rename_i rest hr
      obtain ⟨nm, e1, e2, e3⟩ := hmatchName_split t hall s rest hr
      obtain ⟨ws, r, e4, hw⟩ := hmatchTail_split rest h
      rw [e1, e4, ← List.append_assoc, fieldName_of nm ws r e3 hw, e2]
    · simp at h
  · intro h
    -- decompose the line at its first colon and at the trailing blanks of the name part
    have hc : s.contains 58 = true := by
      unfold fieldName at h
      split at h
      · assumption
      · simp at h
    unfold fieldName at h
    rw [if_pos hc] at h
    simp only [Option.some.injEq] at h
    have hsplit : s = s.takeWhile (· != 58) ++ s.dropWhile (· != 58) := (List.takeWhile_append_dropWhile).symm
    have hdrop : ∃ r, s.dropWhile (· != 58) = 58 :: r := by
      cases hd : s.dropWhile (· != 58) with
      | nil =>
        have : s.takeWhile (· != 58) = s := by rw [hd, List.append_nil] at hsplit; exact hsplit.symm
        have hm : (58 : Byte) ∈ s := by simpa using hc
        rw [← this] at hm
        have := List.all_eq_true.mp (List.all_takeWhile (p := (· != 58)) (l := s)) 58 hm
        simp at this
      | cons y r =>
        have := List.head?_dropWhile_not (· != 58) s
        rw [hd] at this
        simp only [List.head?_cons] at this
        have hy : y = 58 := by simpa using this
        exact ⟨r, by rw [hy]⟩
    obtain ⟨r, hr⟩ := hdrop
    generalize hpre : s.takeWhile (· != 58) = pre at h hsplit
    have hpre2 : pre.reverse = pre.reverse.takeWhile (fun c => c == SP || c == TAB) ++ pre.reverse.dropWhile (fun c => c == SP || c == TAB) :=
      (List.takeWhile_append_dropWhile).symm
    generalize hnm : (pre.reverse.dropWhile (fun c => c == SP || c == TAB)).reverse = nm at h
    generalize hws : (pre.reverse.takeWhile (fun c => c == SP || c == TAB)).reverse = ws
    have hp : pre = nm ++ ws := by
      have := congrArg List.reverse hpre2
      rw [List.reverse_reverse, List.reverse_append, hnm, hws] at this
      exact this
    have hwsb : ws.all isBlank = true := by
      rw [← hws, List.all_reverse, List.all_eq_true]
      intro x hx
      exact List.all_eq_true.mp (List.all_takeWhile (p := fun c => c == SP || c == TAB) (l := pre.reverse)) x hx
    rw [hsplit, hr, hp]
    unfold hmatch
    rw [List.append_assoc, hmatchName_of_lower t hall nm (ws ++ 58 :: r) h]
    exact hmatchTail_of ws r hwsb

/-- **`hfield_known` = the independent field-name matcher + table lookup** -/
theorem hfieldKnown_spec (s : Bytes) : hfieldKnown s = knownField s := by
  unfold hfieldKnown knownField
  have key : ∀ (tbl : List Bytes) (i : Nat), tbl.all nameOk = true →
      hfieldKnownFrom s i tbl = (match fieldName s with | some n => knownIndexFrom n i tbl | none => 0) := by
    intro tbl
    induction tbl with
    | nil => intro i _; cases fieldName s <;> simp [hfieldKnownFrom, knownIndexFrom]
    | cons t ts ih =>
      intro i hall
      simp only [List.all_cons, Bool.and_eq_true] at hall
      have hiff := hmatch_iff s t hall.1
      unfold hfieldKnownFrom
      by_cases hm : hmatch s t = true
      · rw [if_pos hm, hiff.mp hm]; simp [knownIndexFrom]
      · rw [if_neg hm, ih (i + 1) hall.2]
        cases hf : fieldName s with
        | none => rfl
        | some n =>
          have : n ≠ t := by
            intro e; subst e; exact hm (hiff.mpr hf)
          simp [knownIndexFrom, this]
  exact key _ 1 hname_ok

/-- `atomByte` (token822.c's tables) against the RFC's own definition, all 256 bytes -/
theorem atomByte_rfc822_all : ∀ c, (Nq.Spec.Lex822.atomByte c == Nq.Spec.Lex822.rfc822Atom c) = true :=
  forall_byte (fun c => Nq.Spec.Lex822.atomByte c == Nq.Spec.Lex822.rfc822Atom c) (by decide)

/-! ### header types by NAME -/

/-- a name's table position is in `types` exactly when the name is in `names`, when `types` are the positions of `names` (all found) -/
theorem index_contains (tbl : List Bytes) (names : List Bytes) (n : Bytes) (i : Nat) (hi : 0 < i)
    (hall : ∀ x ∈ names, knownIndexFrom x i tbl ≠ 0) :
    (names.map (fun x => knownIndexFrom x i tbl)).contains (knownIndexFrom n i tbl) = names.contains n := by
  have inj : ∀ (tbl : List Bytes) (i : Nat) (x y : Bytes), 0 < i → knownIndexFrom x i tbl ≠ 0 →
      knownIndexFrom x i tbl = knownIndexFrom y i tbl → x = y := by
    intro tbl
    induction tbl with
    | nil => intro i x y _ h; simp [knownIndexFrom] at h
    | cons t ts ih =>
      intro i x y hi hx hxy
      have ge : ∀ (ts : List Bytes) (j : Nat) (z : Bytes), knownIndexFrom z j ts = 0 ∨ j ≤ knownIndexFrom z j ts := by
        intro ts
        induction ts with
        | nil => intro j z; left; rfl
        | cons u us ih2 =>
          intro j z
          unfold knownIndexFrom
          split
          · right; exact Nat.le_refl _
          · rcases ih2 (j + 1) z with h | h
            · left; exact h
            · right; omega
      unfold knownIndexFrom at hx hxy
      by_cases h1 : x = t
      · by_cases h2 : y = t
        · rw [h1, h2]
        · rw [if_pos h1, if_neg h2] at hxy
          rcases ge ts (i + 1) y with h | h <;> omega
      · by_cases h2 : y = t
        · rw [if_neg h1, if_pos h2] at hxy
          rcases ge ts (i + 1) x with h | h
          · rw [if_neg h1] at hx; exact absurd h hx
          · omega
        · rw [if_neg h1] at hx
          rw [if_neg h1, if_neg h2] at hxy
          exact ih (i + 1) x y (by omega) hx hxy
  induction names with
  | nil => simp
  | cons a r ih =>
    have ha := hall a (by simp)
    have e : (knownIndexFrom n i tbl == knownIndexFrom a i tbl) = (n == a) := by
      by_cases hna : n = a
      · subst hna; simp
      · have : knownIndexFrom n i tbl ≠ knownIndexFrom a i tbl := by
          intro e
          exact hna (inj tbl i a n hi ha e.symm).symm
        rw [beq_eq_false_iff_ne.mpr this, beq_eq_false_iff_ne.mpr hna]
    rw [List.map_cons, List.contains_cons, List.contains_cons, ih (fun x hx => hall x (by simp [hx])), e]

theorem resentTypes_eq : resentFields.map (fun n => knownIndexFrom n 1 (Gen.hname.drop 1)) = resentTypes := by decide

/-- "one of the eight Resent- fields", by NAME -/
theorem isResentField_name (h : Bytes) : isResentField h = nameIn resentFields h := by
  unfold isResentField nameIn
  rw [hfieldKnown_spec, knownField]
  cases hf : fieldName h with
  | none => decide
  | some n =>
    simp only []
    rw [← resentTypes_eq]
    exact index_contains _ _ n 1 (by omega) (by decide)

theorem class1_iff (k : Nat) : (fieldClass k).1 = 1 ↔ [Gen.H_TO, Gen.H_CC, Gen.H_BCC, Gen.H_APPARENTLYTO].contains k = true := by
  unfold fieldClass
  simp only [List.contains_cons, List.contains_nil, Bool.or_false, Bool.or_eq_true, beq_iff_eq]
  split
  · rename_i h; simp [h]
  · rename_i h
    have h' : ¬ (k = Gen.H_TO ∨ k = Gen.H_CC ∨ k = Gen.H_BCC ∨ k = Gen.H_APPARENTLYTO) := h
    (repeat' split) <;> simp [h']

theorem class2_iff (k : Nat) : (fieldClass k).1 = 2 ↔ [Gen.H_R_TO, Gen.H_R_CC, Gen.H_R_BCC].contains k = true := by
  unfold fieldClass
  simp only [List.contains_cons, List.contains_nil, Bool.or_false, Bool.or_eq_true, beq_iff_eq]
  split
  · rename_i h
    constructor
    · intro h2; simp at h2
    · intro h2
      rcases h with h | h | h | h <;> rcases h2 with h2 | h2 | h2 <;> (rw [h] at h2; revert h2; decide)
  · split
    · rename_i h; simp [h]
    · rename_i h
      have h' : ¬ (k = Gen.H_R_TO ∨ k = Gen.H_R_CC ∨ k = Gen.H_R_BCC) := h
      (repeat' split) <;> simp [h']

theorem rcptTypes_eq : rcptFields.map (fun n => knownIndexFrom n 1 (Gen.hname.drop 1)) = [Gen.H_TO, Gen.H_CC, Gen.H_BCC, Gen.H_APPARENTLYTO] := by decide
theorem resentRcptTypes_eq : resentRcptFields.map (fun n => knownIndexFrom n 1 (Gen.hname.drop 1)) = [Gen.H_R_TO, Gen.H_R_CC, Gen.H_R_BCC] := by decide
theorem hiddenTypes_eq : hiddenFields.map (fun n => knownIndexFrom n 1 (Gen.hname.drop 1))
    = [Gen.H_BCC, Gen.H_R_BCC, Gen.H_RETURNPATH, Gen.H_CONTENTLENGTH] := by decide

/-- the model's test on `hfield_known`'s number = the independent matcher's test on the field's own name -/
theorem types_name (names : List Bytes) (types : List Nat)
    (hmap : names.map (fun n => knownIndexFrom n 1 (Gen.hname.drop 1)) = types) (h0 : types.contains 0 = false)
    (hall : ∀ x ∈ names, knownIndexFrom x 1 (Gen.hname.drop 1) ≠ 0) (h : Bytes) :
    types.contains (hfieldKnown h) = nameIn names h := by
  unfold nameIn
  rw [hfieldKnown_spec, knownField]
  cases hf : fieldName h with
  | none => simpa using h0
  | some n =>
    simp only []
    rw [← hmap]
    exact index_contains _ _ n 1 (by omega) hall

theorem rcpt_class_name (h : Bytes) : (fieldClass (hfieldKnown h)).1 = 1 ↔ nameIn rcptFields h = true := by
  rw [class1_iff, types_name rcptFields _ rcptTypes_eq (by decide) (by decide)]

theorem resent_class_name (h : Bytes) : (fieldClass (hfieldKnown h)).1 = 2 ↔ nameIn resentRcptFields h = true := by
  rw [class2_iff, types_name resentRcptFields _ resentRcptTypes_eq (by decide) (by decide)]

theorem dropped_name (h : Bytes) : fieldDropped (hfieldKnown h) = nameIn hiddenFields h := by
  rw [← types_name hiddenFields _ hiddenTypes_eq (by decide) (by decide)]
  simp only [fieldDropped, List.contains_cons, List.contains_nil, Bool.or_false]
  generalize hfieldKnown h = k
  by_cases h1 : k = Gen.H_BCC <;> by_cases h2 : k = Gen.H_R_BCC <;> by_cases h3 : k = Gen.H_RETURNPATH <;>
    by_cases h4 : k = Gen.H_CONTENTLENGTH <;> simp [h1, h2, h3, h4]

end Nq.Lemmas.C17
