/-
  The accounting invariant of the qmail-send monitor (`Nq.Daemon`): every record of every accepted
  message is still queued, or finished — and every finished record was reported delivered or has a
  bounce paragraph whose fate is known.
-/
import Nq.Daemon

namespace Nq.Lemmas.DI
open Nq Nq.Daemon

/-! ### small facts about the state accessors -/

@[simp] theorem chan_setChan (ms : MsgSt) (c c' : Ch) (v : Option (List Rec)) :
    (ms.setChan c v).chan c' = if c' = c then v else ms.chan c' := by
  cases c <;> cases c' <;> simp [MsgSt.setChan, MsgSt.chan]

@[simp] theorem chan_setChanSynced (ms : MsgSt) (c c' : Ch) (v : Bool) :
    (ms.setChanSynced c v).chan c' = ms.chan c' := by
  cases c <;> cases c' <;> simp [MsgSt.setChanSynced, MsgSt.chan]

def MsgSt.placed (ms : MsgSt) : Ch → List Bytes
  | .loc => ms.placedLoc
  | .rem => ms.placedRem

/-- fields other than the channel files are untouched by `setChan` / `setChanSynced` -/
theorem setChan_rest (ms : MsgSt) (c : Ch) (v : Option (List Rec)) :
    (ms.setChan c v).todo = ms.todo ∧ (ms.setChan c v).info = ms.info ∧ (ms.setChan c v).bounce = ms.bounce ∧
    (ms.setChan c v).fin = ms.fin ∧ (ms.setChan c v).delivered = ms.delivered ∧ (ms.setChan c v).noted = ms.noted ∧
    (ms.setChan c v).inFile = ms.inFile ∧ (ms.setChan c v).bounced = ms.bounced ∧ (ms.setChan c v).discarded = ms.discarded ∧
    (ms.setChan c v).lost = ms.lost ∧ (ms.setChan c v).accepted = ms.accepted ∧
    (ms.setChan c v).placedLoc = ms.placedLoc ∧ (ms.setChan c v).placedRem = ms.placedRem := by
  cases c <;> simp [MsgSt.setChan]

/-- … and the per-record exemption lists and the message file flag -/
theorem setChan_rest2 (ms : MsgSt) (c : Ch) (v : Option (List Rec)) :
    (ms.setChan c v).droppedRecs = ms.droppedRecs ∧ (ms.setChan c v).lostRecs = ms.lostRecs ∧ (ms.setChan c v).mess = ms.mess := by
  cases c <;> simp [MsgSt.setChan]

theorem setChanSynced_rest (ms : MsgSt) (c : Ch) (v : Bool) :
    (ms.setChanSynced c v).todo = ms.todo ∧ (ms.setChanSynced c v).info = ms.info ∧ (ms.setChanSynced c v).bounce = ms.bounce ∧
    (ms.setChanSynced c v).fin = ms.fin ∧ (ms.setChanSynced c v).delivered = ms.delivered ∧ (ms.setChanSynced c v).noted = ms.noted ∧
    (ms.setChanSynced c v).inFile = ms.inFile ∧ (ms.setChanSynced c v).bounced = ms.bounced ∧ (ms.setChanSynced c v).discarded = ms.discarded ∧
    (ms.setChanSynced c v).lost = ms.lost ∧ (ms.setChanSynced c v).accepted = ms.accepted ∧
    (ms.setChanSynced c v).placedLoc = ms.placedLoc ∧ (ms.setChanSynced c v).placedRem = ms.placedRem ∧
    (ms.setChanSynced c v).loc = ms.loc ∧ (ms.setChanSynced c v).rem = ms.rem := by
  cases c <;> simp [MsgSt.setChanSynced]

theorem chan_isSome_iff (ms : MsgSt) : (ms.loc.isSome ∨ ms.rem.isSome) ↔ ∃ c, (ms.chan c).isSome := by
  constructor
  · rintro (h | h)
    · exact ⟨.loc, h⟩
    · exact ⟨.rem, h⟩
  · rintro ⟨c, h⟩
    cases c
    · exact Or.inl h
    · exact Or.inr h

theorem addrs_setDone : ∀ (rs : List Rec) (i : Nat), addrs (setDone rs i) = addrs rs
  | [], _ => rfl
  | r :: rs, 0 => by simp [setDone, addrs]
  | r :: rs, i + 1 => by
    have := addrs_setDone rs i
    simp [setDone, addrs] at this ⊢
    exact this

theorem length_setDone : ∀ (rs : List Rec) (i : Nat), (setDone rs i).length = rs.length
  | [], _ => rfl
  | r :: rs, 0 => by simp [setDone]
  | r :: rs, i + 1 => by simp [setDone, length_setDone rs i]

theorem getD_setDone : ∀ (rs : List Rec) (i j : Nat), ((setDone rs i).getD j ⟨false, []⟩).done = true →
    (j = i ∧ j < rs.length) ∨ (rs.getD j ⟨false, []⟩).done = true
  | [], _, _, h => by simp [setDone] at h
  | r :: rs, 0, 0, _ => by simp
  | r :: rs, 0, j + 1, h => by simp [setDone] at h ⊢; exact h
  | r :: rs, i + 1, 0, h => by simp [setDone] at h ⊢; exact h
  | r :: rs, i + 1, j + 1, h => by
    simp [setDone] at h ⊢
    rcases getD_setDone rs i j (by simpa using h) with ⟨h1, h2⟩ | h1
    · exact Or.inl ⟨h1, h2⟩
    · right; simpa using h1

/-! ### the per-message invariant -/

structure MInv (cfg : Cfg) (ms : MsgSt) : Prop where
  /-- while `todo/<m>` exists the envelope in it is the accepted one -/
  a1 : ∀ env, ms.todo = some env → ms.accepted = some env
  /-- after preprocessing, the accepted recipients are exactly the placed records, routed by `rewrite()` -/
  a2 : ms.todo = none → ∀ sd r, ms.accepted = some (sd, r) → routedOk cfg r ms.placedLoc ms.placedRem = true
  /-- a channel file holds exactly the placed records (only marks change) -/
  k1 : ms.todo = none → ∀ c rs, ms.chan c = some rs → addrs rs = MsgSt.placed ms c
  /-- a record marked done on disk is finished -/
  k2 : ms.todo = none → ∀ c rs i, ms.chan c = some rs → (rs.getD i ⟨false, []⟩).done = true → i < rs.length → (c, i) ∈ ms.fin
  /-- finished = reported delivered, or bounce paragraph appended -/
  k3 : ∀ x ∈ ms.fin, x ∈ ms.delivered ∨ x ∈ ms.noted
  /-- fate of a bounce paragraph: still in bounce/<m>, or in a queued bounce, or one of the two documented exemptions —
  *for this very paragraph*: it was in the file of a `#@[]` message when that was discarded, or in the file when a crash damaged it -/
  k4 : ∀ x ∈ ms.noted, x ∈ ms.inFile ∨ x ∈ ms.bounced ∨ x ∈ ms.droppedRecs ∨ x ∈ ms.lostRecs
  k5 : ms.bounce = none → ms.inFile = []
  /-- info/<m> outlives the channel files and the bounce file -/
  k6 : ms.todo = none → (ms.loc.isSome ∨ ms.rem.isSome ∨ ms.bounce.isSome) → ms.info.isSome
  /-- a channel file disappears only when everything in it is finished -/
  k7 : ms.todo = none → ∀ c, ms.chan c = none → ∀ i, i < (MsgSt.placed ms c).length → (c, i) ∈ ms.fin
  /-- after preprocessing `info/<m>` holds exactly the accepted envelope sender (`F` sender NUL) -/
  i1 : ms.todo = none → ∀ sd r i, ms.accepted = some (sd, r) → ms.info = some i → i = 70 :: sd ++ [0]
  /-- the message file `mess/<m>` outlives `todo/<m>` and `info/<m>` -/
  m1 : (ms.todo.isSome ∨ ms.info.isSome) → ms.mess = true
  /-- bounce paragraphs are discarded only for a message whose envelope sender is `#@[]` -/
  d1 : ∀ sd r, ms.accepted = some (sd, r) → ms.droppedRecs ≠ [] → sd = [35, 64, 91, 93]

theorem minv_default (cfg : Cfg) : MInv cfg {} := by
  constructor
  · intro env h; simp at h
  · intro _ sd r h; simp at h
  · intro _ c rs h; cases c <;> simp [MsgSt.chan] at h
  · intro _ c rs i h; cases c <;> simp [MsgSt.chan] at h
  · intro x h; simp at h
  · intro x h; simp at h
  · intro _; rfl
  · intro _ h; simp at h
  · intro _ c _ i h; cases c <;> simp [MsgSt.placed] at h
  · intro _ sd r i h; simp at h
  · intro h; simp at h
  · intro sd r h; simp at h

/-- the facts a pending `todo/<m>` clean request was granted on -/
def TodoReady (cfg : Cfg) (ms : MsgSt) : Prop :=
  ∃ sender rcpts, ms.todo = some (sender, rcpts) ∧ ms.info = some (70 :: sender ++ [0]) ∧
    (∀ c rs, ms.chan c = some rs → allT rs = true) ∧
    routedOk cfg rcpts (optAddrs ms.loc) (optAddrs ms.rem) = true

/-- the global invariant -/
structure Inv (cfg : Cfg) (s : St) : Prop where
  msgs : ∀ k, MInv cfg (s.msg k)
  /-- a record may be marked only if it is finished -/
  may : ∀ m c i, (m, c, i) ∈ s.mayMark → (c, i) ∈ (s.msg m).fin
  /-- a granted `todo/<m>` request refers to a completely preprocessed message -/
  ready : ∀ m, s.clean = some (.todo m) → TodoReady cfg (s.msg m)
  /-- a granted `foop/<m>` request refers to a message without `todo/<m>` and `info/<m>` -/
  foop : ∀ m, s.clean = some (.foop m) → (s.msg m).todo = none ∧ (s.msg m).info = none

theorem inv_init (cfg : Cfg) : Inv cfg {} := by
  refine ⟨fun k => ?_, ?_, ?_, ?_⟩
  · have : (({} : St).msg k) = {} := by simp [St.msg, tabGet]
    rw [this]; exact minv_default cfg
  · intro m c i h; simp at h
  · intro m h; simp at h
  · intro m h; simp at h

/-- updating one message: the others are untouched -/
theorem inv_upd (cfg : Cfg) (s : St) (m : Nat) (f : MsgSt → MsgSt) (s' : St)
    (hmsg : ∀ k, s'.msg k = if k = m then f (s.msg m) else s.msg k)
    (hinv : Inv cfg s) (hm : MInv cfg (f (s.msg m)))
    (hmay : ∀ m' c i, (m', c, i) ∈ s'.mayMark → (c, i) ∈ (s'.msg m').fin)
    (hready : ∀ m', s'.clean = some (.todo m') → TodoReady cfg (s'.msg m'))
    (hfoop : ∀ m', s'.clean = some (.foop m') → (s'.msg m').todo = none ∧ (s'.msg m').info = none) : Inv cfg s' := by
  refine ⟨fun k => ?_, hmay, hready, hfoop⟩
  rw [hmsg k]
  split
  · exact hm
  · exact hinv.msgs k

end Nq.Lemmas.DI
