/-
  qmail-qmqpd: what a completely read request is, in terms of the input bytes.

  `Qmqp.parse` reports `flagok`, `sender`, `rcpts`, `stored` as fields of its own result.  Here they are tied to
  the request bytes through the independent strict grammar of Nq/Spec/C07.lean (`ns?`, `nsList`, `qmqpReq`):

    * `parse_strict` / `parse_qmqpReq`: a request read to the end is one netstring whose content is a list of
      netstrings body :: sender :: recipients; `flagok` is false exactly when the sender or some recipient is
      over-long or contains NUL (`badA`); `sender` / `rcpts` are the acceptable addresses, in order;
    * `parse_flagok_fail` / `parse_fail_flagok`: `flagok = false` iff `qmail_fail` is among the calls on qmail.c;
    * `run_fail_mem`: a `qmail_fail` anywhere leaves `flagerr` set;
    * `qmqp_refused`: a bad address ⇒ `flagerr` at the end, no complete envelope on descriptor 1, the reply is
      the permanent refusal `Qmqp.sCantAccept` ("D… I can't accept addresses like that (#5.1.3)");
    * `qmqp_committed_flagok`: a complete envelope on descriptor 1 ⇒ no failure flagged and `flagok = true`.
-/
import Nq.Netstring
import Nq.Spec.C07
import Nq.Lemmas.C07Daemons

namespace Nq.Lemmas.C07Qmqp2
open Nq Nq.QmailC Nq.Netstring Nq.Spec.C07

/-- an address qmail-qmqpd refuses: `getbuf()` returns 0 for it (too long for the 1000-byte buffer, or a NUL inside) -/
def badA (a : Bytes) : Bool := decide (a.length ≥ Nq.Gen.C07.qmqpAddrMax) || a.contains 0

/-! ### list facts -/

theorem getD_append_cons (bs : Bytes) (c : Byte) (t : Bytes) : (bs ++ c :: t).getD bs.length 0 = c := by simp

theorem take_append_len (bs t : Bytes) : (bs ++ t).take bs.length = bs := by simp

theorem drop_append_cons (bs : Bytes) (c : Byte) (t : Bytes) : (bs ++ c :: t).drop (bs.length + 1) = t := by simp

/-! ### the reading functions consume a prefix that the strict grammar accepts -/

/-- `getlen`: the consumed prefix `p` is a length in the sense of `nsLen`, one byte of `bytesleft` per byte -/
theorem getlen_spec (max : Nat) : ∀ (inp : Bytes) (bl acc n bl' : Nat) (r : Bytes),
    Qmqp.getlen max bl acc inp = .ok (n, bl') r →
    ∃ p, inp = p ++ r ∧ p.length + bl' = bl ∧ ∀ t, nsLen acc (p ++ t) = some (n, t)
  | [], bl, acc, n, bl', r, h => by cases bl <;> simp [Qmqp.getlen] at h
  | c :: rest, 0, acc, n, bl', r, h => by simp [Qmqp.getlen] at h
  | c :: rest, bl + 1, acc, n, bl', r, h => by
    unfold Qmqp.getlen at h
    split at h
    · rename_i hc
      simp only [R.ok.injEq, Prod.mk.injEq] at h
      obtain ⟨⟨rfl, rfl⟩, rfl⟩ := h
      refine ⟨[c], rfl, by simp; omega, fun t => ?_⟩
      have hc' : c = 58 := hc
      simp [nsLen, hc']
    · rename_i hc
      split at h
      · simp at h
      · split at h
        · simp at h
        · rename_i h2 h3
          obtain ⟨p, hp, hl, hns⟩ := getlen_spec max rest bl _ n bl' r h
          refine ⟨c :: p, by simp [hp], by simp; omega, fun t => ?_⟩
          have hc' : ¬ c = 58 := hc
          have hd : 48 ≤ c ∧ c ≤ 57 := by
            constructor
            · exact UInt8.not_lt.mp (fun hlt => h3 (Or.inl hlt))
            · exact UInt8.not_lt.mp (fun hlt => h3 (Or.inr hlt))
          simp only [List.cons_append, nsLen]
          rw [if_neg hc', if_pos hd, Nat.mul_comm]
          exact hns t

theorem getn_spec : ∀ (n bl : Nat) (inp bs : Bytes) (bl' : Nat) (r : Bytes),
    Qmqp.getn n bl inp = .ok (bs, bl') r → inp = bs ++ r ∧ bs.length = n ∧ n + bl' = bl
  | 0, bl, inp, bs, bl', r, h => by
    simp only [Qmqp.getn, R.ok.injEq, Prod.mk.injEq] at h
    obtain ⟨⟨rfl, rfl⟩, rfl⟩ := h
    simp
  | n + 1, 0, inp, bs, bl', r, h => by simp [Qmqp.getn] at h
  | n + 1, bl + 1, [], bs, bl', r, h => by simp [Qmqp.getn] at h
  | n + 1, bl + 1, c :: rest, bs, bl', r, h => by
    unfold Qmqp.getn at h
    cases h2 : Qmqp.getn n bl rest with
    | stop e r' => simp [h2] at h
    | ok v2 r2 =>
      obtain ⟨bs2, bl2⟩ := v2
      simp only [h2, R.ok.injEq, Prod.mk.injEq] at h
      obtain ⟨⟨rfl, rfl⟩, rfl⟩ := h
      obtain ⟨e1, e2, e3⟩ := getn_spec n bl rest bs2 bl2 r2 h2
      refine ⟨by simp [e1], by simp [e2], by omega⟩

theorem getcomma_spec (bl : Nat) (inp : Bytes) (bl' : Nat) (r : Bytes) (h : Qmqp.getcomma bl inp = .ok bl' r) :
    inp = 44 :: r ∧ bl' + 1 = bl := by
  cases bl with
  | zero => simp [Qmqp.getcomma] at h
  | succ bl =>
    cases inp with
    | nil => simp [Qmqp.getcomma] at h
    | cons c p =>
      simp only [Qmqp.getcomma] at h
      split at h
      · rename_i hc
        have hc' : c = 44 := hc
        simp only [R.ok.injEq] at h
        obtain ⟨rfl, rfl⟩ := h
        exact ⟨by rw [hc'], rfl⟩
      · simp at h

/-- a length, that many bytes and a comma are a netstring -/
theorem ns_of_parts (pl bs : Bytes) (n : Nat) (hl : ∀ t, nsLen 0 (pl ++ t) = some (n, t)) (hn : bs.length = n)
    (t : Bytes) : ns? (pl ++ bs ++ [44] ++ t) = some (bs, t) := by
  unfold ns?
  have e : pl ++ bs ++ [44] ++ t = pl ++ (bs ++ 44 :: t) := by simp [List.append_assoc]
  rw [e, hl]
  subst hn
  simp only
  rw [if_neg (by simp), getD_append_cons, if_pos rfl, take_append_len, drop_append_cons]

/-- `getbuf()`: the consumed prefix is a netstring `raw`; the return value is 0 exactly for a `badA` one, and the
    buffer holds `raw` whenever it is 1 -/
theorem getbuf_spec (bl : Nat) (inp a : Bytes) (ok : Bool) (bl' : Nat) (r : Bytes)
    (h : Qmqp.getbuf bl inp = .ok (a, ok, bl') r) :
    ∃ raw p, inp = p ++ r ∧ p.length + bl' = bl ∧ p ≠ [] ∧ (∀ t, ns? (p ++ t) = some (raw, t)) ∧
      ok = !badA raw ∧ (ok = true → a = raw) := by
  unfold Qmqp.getbuf at h
  cases h1 : Qmqp.getlen Nq.Gen.C07.qmqpLenMax bl 0 inp with
  | stop e r' => simp [h1] at h
  | ok v1 r1 =>
    obtain ⟨len, bl1⟩ := v1
    simp only [h1] at h
    cases h2 : Qmqp.getn len bl1 r1 with
    | stop e r' => simp [h2] at h
    | ok v2 r2 =>
      obtain ⟨bs, bl2⟩ := v2
      simp only [h2] at h
      cases h3 : Qmqp.getcomma bl2 r2 with
      | stop e r' => simp [h3] at h
      | ok bl3 r3 =>
        simp only [h3] at h
        obtain ⟨pl, e1, l1, hns⟩ := getlen_spec _ inp bl 0 len bl1 r1 h1
        obtain ⟨e2, l2, l2'⟩ := getn_spec len bl1 r1 bs bl2 r2 h2
        obtain ⟨e3, l3⟩ := getcomma_spec bl2 r2 bl3 r3 h3
        have hshape : ∀ x, r = x → r3 = x := by
          intro x hx; subst hx
          split at h <;> · simp only [R.ok.injEq] at h; exact h.2
        have hbl : bl' = bl3 := by
          split at h <;> · simp only [R.ok.injEq, Prod.mk.injEq] at h; exact h.1.2.2.symm
        have hr : r3 = r := hshape r rfl
        subst hr; subst hbl
        refine ⟨bs, pl ++ bs ++ [44], ?_, ?_, by simp, fun t => ns_of_parts pl bs len hns l2 t, ?_, ?_⟩
        · rw [e1, e2, e3]; simp [List.append_assoc]
        · simp only [List.length_append, List.length_cons, List.length_nil]; omega
        · split at h
          · rename_i hlen
            simp only [R.ok.injEq, Prod.mk.injEq] at h
            rw [← h.1.2.1]; unfold badA; rw [l2]; simp [hlen]
          · rename_i hlen
            simp only [R.ok.injEq, Prod.mk.injEq] at h
            rw [← h.1.2.1]; unfold badA; rw [l2]; simp [hlen]
        · intro hok
          split at h
          · simp only [R.ok.injEq, Prod.mk.injEq] at h
            rw [← h.1.2.1] at hok; exact absurd hok (by simp)
          · simp only [R.ok.injEq, Prod.mk.injEq] at h
            exact h.1.1.symm

/-- the copy loop: exactly `len` bytes, all of them handed to `qmail_put`, nothing else -/
theorem body_spec : ∀ (len bl : Nat) (inp : Bytes) (bl' : Nat) (r : Bytes),
    (Qmqp.body len bl inp).res = .ok bl' r →
    inp = Qmtp.putBytes (Qmqp.body len bl inp).ops ++ r ∧
    (Qmtp.putBytes (Qmqp.body len bl inp).ops).length = len ∧ len + bl' = bl
  | 0, bl, inp, bl', r, h => by
    simp only [Qmqp.body, R.ok.injEq] at h
    obtain ⟨rfl, rfl⟩ := h
    simp [Qmqp.body, Qmtp.putBytes]
  | len + 1, 0, inp, bl', r, h => by simp [Qmqp.body] at h
  | len + 1, bl + 1, [], bl', r, h => by simp [Qmqp.body] at h
  | len + 1, bl + 1, c :: rest, bl', r, h => by
    simp only [Qmqp.body] at h ⊢
    obtain ⟨e1, e2, e3⟩ := body_spec len bl rest bl' r h
    refine ⟨?_, ?_, by omega⟩
    · simp only [Qmtp.putBytes, List.cons_append, List.nil_append]; rw [← e1]
    · simp only [Qmtp.putBytes, List.cons_append, List.nil_append, List.length_cons]; omega

theorem body_no_fail : ∀ (len bl : Nat) (inp : Bytes), QOp.fail ∉ (Qmqp.body len bl inp).ops
  | 0, _, _ => by simp [Qmqp.body]
  | _ + 1, 0, _ => by simp [Qmqp.body]
  | _ + 1, _ + 1, [] => by simp [Qmqp.body]
  | len + 1, bl + 1, c :: rest => by
    simp only [Qmqp.body, List.mem_cons, not_or]
    exact ⟨by simp, body_no_fail len bl rest⟩

theorem recvOps_no_fail (cfg : Qmqp.Cfg) : QOp.fail ∉ Qmqp.recvOps cfg := by
  unfold Qmqp.recvOps
  intro h
  rw [List.mem_map] at h
  obtain ⟨b, _, hb⟩ := h
  exact absurd hb (by simp)

/-! ### a sequence of netstrings -/

theorem ns_nil : ns? [] = none := by simp [ns?, nsLen]

theorem nsAll_step (f : Nat) (inp a r : Bytes) (h : ns? inp = some (a, r)) :
    nsAll (f + 1) inp = (nsAll f r).map (a :: ·) := by
  cases inp with
  | nil => rw [ns_nil] at h; exact absurd h (by simp)
  | cons c p => simp only [nsAll, h]

/-- `p` is a netstring (for every continuation) followed by something `nsAll` accepts -/
theorem nsAll_cons (p q a : Bytes) (l : List Bytes) (hp : p ≠ []) (hns : ∀ t, ns? (p ++ t) = some (a, t))
    (hq : ∀ f, f > q.length → nsAll f q = some l) :
    ∀ f, f > (p ++ q).length → nsAll f (p ++ q) = some (a :: l) := by
  intro f hf
  have hpl : p.length ≥ 1 := by cases p with
    | nil => exact absurd rfl hp
    | cons _ _ => simp
  cases f with
  | zero => omega
  | succ f =>
    rw [nsAll_step f _ a q (hns q), hq f (by simp only [List.length_append] at hf; omega)]
    rfl

/-- the recipient loop read to `bytesleft = 0`: the `bl` bytes it consumed are a sequence of netstrings `rs`;
    `flagok` stays 1 iff none of them is `badA`; `rcpts` are the others, in order; a `qmail_fail` iff `flagok = 0` -/
theorem rcptLoop_spec : ∀ (fuel bl : Nat) (inp : Bytes), (Qmqp.rcptLoop fuel bl inp).stop = none →
    ∃ rs p, inp = p ++ (Qmqp.rcptLoop fuel bl inp).rest ∧ p.length = bl ∧
      (∀ f, f > p.length → nsAll f p = some rs) ∧
      (Qmqp.rcptLoop fuel bl inp).flagok = rs.all (fun a => !badA a) ∧
      (Qmqp.rcptLoop fuel bl inp).rcpts = rs.filter (fun a => !badA a)
  | 0, _, _, h => by simp [Qmqp.rcptLoop] at h
  | fuel + 1, 0, inp, _ => by
    refine ⟨[], [], ?_, rfl, ?_, ?_, ?_⟩
    · simp [Qmqp.rcptLoop]
    · intro f hf
      cases f with
      | zero => simp at hf
      | succ f => simp [nsAll]
    · simp [Qmqp.rcptLoop]
    · simp [Qmqp.rcptLoop]
  | fuel + 1, bl + 1, inp, h => by
    simp only [Qmqp.rcptLoop] at h ⊢
    cases h1 : Qmqp.getbuf (bl + 1) inp with
    | stop e r => simp [h1] at h
    | ok v r1 =>
      obtain ⟨a, ok, bl1⟩ := v
      simp only [h1] at h ⊢
      have hs : (Qmqp.rcptLoop fuel bl1 r1).stop = none := by
        split at h <;> simpa using h
      obtain ⟨rs, p, e1, l1, hall, hfo, hrc⟩ := rcptLoop_spec fuel bl1 r1 hs
      obtain ⟨raw, p1, e2, l2, hne, hns, hok, ha⟩ := getbuf_spec (bl + 1) inp a ok bl1 r1 h1
      cases ok with
      | true =>
        have hb : badA raw = false := by simpa using hok
        have hraw : a = raw := ha rfl
        subst hraw
        refine ⟨a :: rs, p1 ++ p, ?_, ?_, nsAll_cons p1 p a rs hne hns hall, ?_, ?_⟩
        · simp only [↓reduceIte]; rw [e2, List.append_assoc, ← e1]
        · simp only [List.length_append]; omega
        · simp only [↓reduceIte, List.all_cons, hb, Bool.not_false, Bool.true_and]; exact hfo
        · simp only [↓reduceIte, List.filter_cons, hb, Bool.not_false]; rw [hrc]
      | false =>
        have hb : badA raw = true := by simpa using hok
        refine ⟨raw :: rs, p1 ++ p, ?_, ?_, nsAll_cons p1 p raw rs hne hns hall, ?_, ?_⟩
        · simp only [Bool.false_eq_true, ↓reduceIte]; rw [e2, List.append_assoc, ← e1]
        · simp only [List.length_append]; omega
        · simp only [Bool.false_eq_true, ↓reduceIte, List.all_cons, hb, Bool.not_true, Bool.false_and]
        · simp only [Bool.false_eq_true, ↓reduceIte, List.filter_cons, hb, Bool.not_true]; exact hrc

theorem rcptLoop_fail : ∀ (fuel bl : Nat) (inp : Bytes),
    (QOp.fail ∈ (Qmqp.rcptLoop fuel bl inp).ops ↔ (Qmqp.rcptLoop fuel bl inp).flagok = false)
  | 0, _, _ => by simp [Qmqp.rcptLoop]
  | _ + 1, 0, _ => by simp [Qmqp.rcptLoop]
  | fuel + 1, bl + 1, inp => by
    simp only [Qmqp.rcptLoop]
    cases h1 : Qmqp.getbuf (bl + 1) inp with
    | stop e r => simp
    | ok v r1 =>
      obtain ⟨a, ok, bl1⟩ := v
      have ih := rcptLoop_fail fuel bl1 r1
      cases ok with
      | true => simpa using ih
      | false => simp

/-- every call of the recipient loop is `qmail_to` or `qmail_fail` -/
theorem rcptLoop_envOp (fuel bl : Nat) (inp : Bytes) : ∀ op ∈ (Qmqp.rcptLoop fuel bl inp).ops, EnvOp op := by
  intro op hop
  have := Qmqp.rcptLoop_env fuel bl inp op hop
  cases op with
  | to r => exact .to r
  | fail => exact .fail
  | put bs => simp at this
  | from_ s => simp at this
  | close => simp at this

/-! ### (A) a completely read request is a strictly framed request -/

/-- everything the walk through `parse` yields for a request read to the end: the framing facts of (A) and the shape of
    the calls on qmail.c needed for (B), (D), (E) -/
theorem parse_full (cfg : Qmqp.Cfg) (inp : Bytes) (h : (Qmqp.parse cfg inp).stop = none) :
    (∃ content sraw rs, ns? inp = some (content, (Qmqp.parse cfg inp).rest) ∧
      nsList content = some ((Qmqp.parse cfg inp).stored :: sraw :: rs) ∧
      (Qmqp.parse cfg inp).flagok = (!badA sraw && rs.all (fun a => !badA a)) ∧
      (Qmqp.parse cfg inp).sender = (if badA sraw then [] else sraw) ∧
      (Qmqp.parse cfg inp).rcpts = rs.filter (fun a => !badA a)) ∧
    (∃ mops eops, QOp.fail ∉ mops ∧ (∀ op ∈ eops, EnvOp op) ∧
      (Qmqp.parse cfg inp).ops = mops ++ [.from_ (Qmqp.parse cfg inp).sender] ++ eops ++ [.close] ∧
      (QOp.fail ∈ eops ↔ (Qmqp.parse cfg inp).flagok = false)) := by
  unfold Qmqp.parse at h ⊢
  cases h1 : Qmqp.getlen Nq.Gen.C07.qmqpLenMax Nq.Gen.C07.qmqpOuterDigits 0 inp with
  | stop e r => simp [h1] at h
  | ok v1 r0 =>
    obtain ⟨outer, x1⟩ := v1
    simp only [h1] at h ⊢
    cases h2 : Qmqp.getlen Nq.Gen.C07.qmqpLenMax outer 0 r0 with
    | stop e r => simp [h2] at h
    | ok v2 r1 =>
      obtain ⟨len, bl1⟩ := v2
      simp only [h2] at h ⊢
      cases h3 : (Qmqp.body len bl1 r1).res with
      | stop e r => simp [h3] at h
      | ok bl2 r2 =>
        simp only [h3] at h ⊢
        cases h4 : Qmqp.getcomma bl2 r2 with
        | stop e r => simp [h4] at h
        | ok bl3 r3 =>
          simp only [h4] at h ⊢
          cases h5 : Qmqp.getbuf bl3 r3 with
          | stop e r => simp [h5] at h
          | ok v5 r4 =>
            obtain ⟨s, sok, bl4⟩ := v5
            simp only [h5] at h ⊢
            cases h6 : (Qmqp.rcptLoop (r4.length + 1) bl4 r4).stop with
            | some e => simp [h6] at h
            | none =>
              simp only [h6] at h ⊢
              cases h7 : Qmqp.getcomma 1 (Qmqp.rcptLoop (r4.length + 1) bl4 r4).rest with
              | stop e r => simp [h7] at h
              | ok u r9 =>
                simp only []
                -- what each step consumed
                obtain ⟨p0, e0, _, hn0⟩ := getlen_spec _ inp _ 0 outer x1 r0 h1
                obtain ⟨pl, e1, l1, hn1⟩ := getlen_spec _ r0 outer 0 len bl1 r1 h2
                obtain ⟨e2, l2, l2'⟩ := body_spec len bl1 r1 bl2 r2 h3
                obtain ⟨e3, l3⟩ := getcomma_spec bl2 r2 bl3 r3 h4
                obtain ⟨sraw, ps, e4, l4, hne4, hns4, hsok, hs⟩ := getbuf_spec bl3 r3 s sok bl4 r4 h5
                obtain ⟨rs, pr, e5, l5, hall, hfo, hrc⟩ := rcptLoop_spec (r4.length + 1) bl4 r4 h6
                obtain ⟨e6, _⟩ := getcomma_spec 1 _ u r9 h7
                have hfail := rcptLoop_fail (r4.length + 1) bl4 r4
                have henv := rcptLoop_envOp (r4.length + 1) bl4 r4
                generalize Qmqp.rcptLoop (r4.length + 1) bl4 r4 = rl at *
                generalize hst : Qmtp.putBytes (Qmqp.body len bl1 r1).ops = stored at *
                have hnf : QOp.fail ∉ Qmqp.recvOps cfg ++ (Qmqp.body len bl1 r1).ops := by
                  simp only [List.mem_append, not_or]
                  exact ⟨recvOps_no_fail cfg, body_no_fail len bl1 r1⟩
                generalize Qmqp.recvOps cfg ++ (Qmqp.body len bl1 r1).ops = mops at *
                -- the content of the outer netstring
                have hr0 : r0 = (pl ++ stored ++ [44] ++ (ps ++ pr)) ++ 44 :: r9 := by
                  rw [e1, e2, e3, e4, e5, e6]; simp [List.append_assoc]
                have hlen : (pl ++ stored ++ [44] ++ (ps ++ pr)).length = outer := by
                  simp only [List.length_append, List.length_cons, List.length_nil]; omega
                refine ⟨⟨pl ++ stored ++ [44] ++ (ps ++ pr), sraw, rs, ?_, ?_, ?_, ?_, hrc⟩, ?_⟩
                · unfold ns?
                  rw [e0, hn0 r0]
                  simp only
                  rw [hr0, ← hlen,
                    if_neg (by simp only [List.length_append, List.length_cons, List.length_nil]; omega),
                    getD_append_cons, if_pos rfl, take_append_len, drop_append_cons]
                · unfold nsList
                  apply nsAll_cons (pl ++ stored ++ [44]) (ps ++ pr) stored (sraw :: rs) (by simp)
                    (fun t => ns_of_parts pl stored len hn1 l2 t)
                    (nsAll_cons ps pr sraw rs hne4 hns4 hall)
                  omega
                · rw [hsok, hfo]
                · cases sok with
                  | true =>
                    have hb : badA sraw = false := by simpa using hsok
                    rw [hb, hs rfl]; simp
                  | false =>
                    have hb : badA sraw = true := by simpa using hsok
                    rw [hb]; simp
                · refine ⟨mops, (if sok = true then [] else [QOp.fail]) ++ rl.ops, hnf, ?_, ?_, ?_⟩
                  · intro op hop
                    simp only [List.mem_append] at hop
                    rcases hop with hop | hop
                    · split at hop <;> simp at hop
                      subst hop; exact .fail
                    · exact henv op hop
                  · cases sok <;> simp [List.append_assoc]
                  · cases sok with
                    | true => simpa using hfail
                    | false => simp

theorem parse_strict (cfg : Qmqp.Cfg) (inp : Bytes) (h : (Qmqp.parse cfg inp).stop = none) :
    ∃ content sraw rs, Nq.Spec.C07.ns? inp = some (content, (Qmqp.parse cfg inp).rest) ∧
      Nq.Spec.C07.nsList content = some ((Qmqp.parse cfg inp).stored :: sraw :: rs) ∧
      (Qmqp.parse cfg inp).flagok = (!badA sraw && rs.all (fun a => !badA a)) ∧
      (Qmqp.parse cfg inp).sender = (if badA sraw then [] else sraw) ∧
      (Qmqp.parse cfg inp).rcpts = rs.filter (fun a => !badA a) :=
  (parse_full cfg inp h).1

/-- the request is well framed in the sense of the independent grammar, with the body the daemon stored -/
theorem parse_qmqpReq (cfg : Qmqp.Cfg) (inp : Bytes) (h : (Qmqp.parse cfg inp).stop = none) :
    ∃ sraw rs, Nq.Spec.C07.qmqpReq inp = some ⟨(Qmqp.parse cfg inp).stored, sraw, rs⟩ ∧
      (Qmqp.parse cfg inp).flagok = (!badA sraw && rs.all (fun a => !badA a)) ∧
      (Qmqp.parse cfg inp).sender = (if badA sraw then [] else sraw) ∧
      (Qmqp.parse cfg inp).rcpts = rs.filter (fun a => !badA a) := by
  obtain ⟨content, sraw, rs, h1, h2, h3, h4, h5⟩ := parse_strict cfg inp h
  refine ⟨sraw, rs, ?_, h3, h4, h5⟩
  unfold qmqpReq
  simp only [h1, h2]

/-- `flagok` in words: it is cleared exactly when the sender or some recipient of the (strictly parsed) request is
    over-long or contains NUL -/
theorem parse_flagok_iff (cfg : Qmqp.Cfg) (inp : Bytes) (h : (Qmqp.parse cfg inp).stop = none) :
    ∃ body sraw rs, Nq.Spec.C07.qmqpReq inp = some ⟨body, sraw, rs⟩ ∧
      ((Qmqp.parse cfg inp).flagok = false ↔ ∃ a ∈ sraw :: rs, badA a = true) := by
  obtain ⟨sraw, rs, h1, h2, _, _⟩ := parse_qmqpReq cfg inp h
  refine ⟨_, sraw, rs, h1, ?_⟩
  rw [h2]
  cases hb : badA sraw <;> simp [hb]

/-! ### (B) `flagok = 0` iff `qmail_fail` was called -/

theorem parse_fail_iff (cfg : Qmqp.Cfg) (inp : Bytes) (h : (Qmqp.parse cfg inp).stop = none) :
    (QOp.fail ∈ (Qmqp.parse cfg inp).ops ↔ (Qmqp.parse cfg inp).flagok = false) := by
  obtain ⟨mops, eops, hm, _, hops, hiff⟩ := (parse_full cfg inp h).2
  rw [hops, ← hiff]
  simp [hm]

theorem parse_flagok_fail (cfg : Qmqp.Cfg) (inp : Bytes) (h : (Qmqp.parse cfg inp).stop = none)
    (hf : (Qmqp.parse cfg inp).flagok = false) : QOp.fail ∈ (Qmqp.parse cfg inp).ops :=
  (parse_fail_iff cfg inp h).mpr hf

theorem parse_fail_flagok (cfg : Qmqp.Cfg) (inp : Bytes) (h : (Qmqp.parse cfg inp).stop = none)
    (hf : QOp.fail ∈ (Qmqp.parse cfg inp).ops) : (Qmqp.parse cfg inp).flagok = false :=
  (parse_fail_iff cfg inp h).mp hf

/-! ### (C) a `qmail_fail` anywhere in the call sequence leaves `flagerr` set -/

theorem run_fail_mem : ∀ (ops : List QOp) (q : QQ), QOp.fail ∈ ops → (q.run ops).flagerr = true
  | [], _, h => by simp at h
  | op :: ops, q, h => by
    have hrun : q.run (op :: ops) = (q.apply op).run ops := by simp [QQ.run]
    rw [hrun]
    rcases List.mem_cons.mp h with h | h
    · subst h; exact QQ.run_mono ops _ rfl
    · exact run_fail_mem ops _ h

/-! ### (D), (E) refusal and commitment -/

/-- with `flagerr` set after `qmail_close` of a completely read request, descriptor 1 holds no complete envelope -/
theorem parse_flagerr_no_envelope (cfg : Qmqp.Cfg) (inp : Bytes) (w : Option Nat)
    (h : (Qmqp.parse cfg inp).stop = none)
    (hf : ((QQ.opened w).run (Qmqp.parse cfg inp).ops).flagerr = true) :
    envComplete ((QQ.opened w).run (Qmqp.parse cfg inp).ops).envPipe = false := by
  obtain ⟨mops, eops, _, henv, hops, _⟩ := (parse_full cfg inp h).2
  have hrun : (QQ.opened w).run (Qmqp.parse cfg inp).ops =
      ((((QQ.opened w).run mops).from_ (Qmqp.parse cfg inp).sender).run eops).close := by
    rw [hops]
    simp [QQ.run, QQ.apply]
  rw [hrun] at hf ⊢
  exact QQ.close_fail_good _ (QQ.run_good eops _ (QQ.from_good _ _) henv) hf

/-- **refusal.**  A completely read request with a bad address (`flagok = 0`, i.e. by `parse_flagok_iff` an over-long or
    NUL-containing sender or recipient): `qmail_close` ends with `flagerr` set, qmail-queue finds no complete envelope
    on descriptor 1, and the reply is the permanent refusal whatever the queue program reports. -/
theorem qmqp_refused (cfg : Qmqp.Cfg) (inp : Bytes) (w : Option Nat)
    (h : (Qmqp.parse cfg inp).stop = none) (hf : (Qmqp.parse cfg inp).flagok = false) :
    ((QQ.opened w).run (Qmqp.parse cfg inp).ops).flagerr = true ∧
    envComplete ((QQ.opened w).run (Qmqp.parse cfg inp).ops).envPipe = false ∧
    ∀ (now pid : Nat) (v : Bytes), Qmqp.result (Qmqp.parse cfg inp).flagok v now pid = Qmqp.sCantAccept := by
  have hfe := run_fail_mem _ (QQ.opened w) (parse_flagok_fail cfg inp h hf)
  refine ⟨hfe, parse_flagerr_no_envelope cfg inp w h hfe, fun now pid v => ?_⟩
  unfold Qmqp.result
  rw [hf]; rfl

/-- **committed ⇒ acknowledgeable.**  If qmail-queue finds a complete envelope on descriptor 1 after a completely read
    request, then no failure was flagged and no address was refused. -/
theorem qmqp_committed_flagok (cfg : Qmqp.Cfg) (inp : Bytes) (w : Option Nat)
    (h : (Qmqp.parse cfg inp).stop = none)
    (hc : envComplete ((QQ.opened w).run (Qmqp.parse cfg inp).ops).envPipe = true) :
    ((QQ.opened w).run (Qmqp.parse cfg inp).ops).flagerr = false ∧ (Qmqp.parse cfg inp).flagok = true := by
  constructor
  · cases hfe : ((QQ.opened w).run (Qmqp.parse cfg inp).ops).flagerr with
    | false => rfl
    | true =>
      rw [parse_flagerr_no_envelope cfg inp w h hfe] at hc
      exact absurd hc (by simp)
  · cases hfo : (Qmqp.parse cfg inp).flagok with
    | true => rfl
    | false =>
      rw [(qmqp_refused cfg inp w h hfo).2.1] at hc
      exact absurd hc (by simp)

/-- **refusal, in terms of the request bytes.**  The daemon read the request to the end; the strict grammar reads it as
    body / sender / recipients; the sender or one of the recipients is over-long or contains NUL.  Then nothing is
    queued and the client gets the permanent refusal. -/
theorem qmqp_bad_address_refused (cfg : Qmqp.Cfg) (inp : Bytes) (w : Option Nat) (req : Nq.Spec.C07.Req)
    (h : (Qmqp.parse cfg inp).stop = none) (hreq : Nq.Spec.C07.qmqpReq inp = some req)
    (hbad : ∃ a ∈ req.sender :: req.rcpts, badA a = true) :
    ((QQ.opened w).run (Qmqp.parse cfg inp).ops).flagerr = true ∧
    envComplete ((QQ.opened w).run (Qmqp.parse cfg inp).ops).envPipe = false ∧
    ∀ (now pid : Nat) (v : Bytes), Qmqp.result (Qmqp.parse cfg inp).flagok v now pid = Qmqp.sCantAccept := by
  obtain ⟨body, sraw, rs, h1, h2⟩ := parse_flagok_iff cfg inp h
  rw [h1] at hreq
  simp only [Option.some.injEq] at hreq
  subst hreq
  exact qmqp_refused cfg inp w h (h2.mpr hbad)

/-- … and when every address of the request is acceptable, `flagok` stays 1 and the envelope addresses are the
    request's, unchanged -/
theorem qmqp_good_addresses (cfg : Qmqp.Cfg) (inp : Bytes) (req : Nq.Spec.C07.Req)
    (h : (Qmqp.parse cfg inp).stop = none) (hreq : Nq.Spec.C07.qmqpReq inp = some req)
    (hgood : ∀ a ∈ req.sender :: req.rcpts, badA a = false) :
    (Qmqp.parse cfg inp).flagok = true ∧ (Qmqp.parse cfg inp).stored = req.body ∧
    (Qmqp.parse cfg inp).sender = req.sender ∧ (Qmqp.parse cfg inp).rcpts = req.rcpts := by
  obtain ⟨sraw, rs, h1, h2, h3, h4⟩ := parse_qmqpReq cfg inp h
  rw [h1] at hreq
  simp only [Option.some.injEq] at hreq
  subst hreq
  have hs : badA sraw = false := hgood sraw (by simp)
  have hr : ∀ a ∈ rs, (!badA a) = true := fun a ha => by rw [hgood a (by simp [ha])]; rfl
  refine ⟨?_, rfl, ?_, ?_⟩
  · rw [h2, hs, List.all_eq_true.mpr hr]; rfl
  · rw [h3, hs]; rfl
  · rw [h4, List.filter_eq_self.mpr hr]

end Nq.Lemmas.C07Qmqp2
