/-
  Lemmas about spawn.c `getcmd()` with failing allocations (`Nq.SpawnOOM`).
-/
import Nq.Spec.SpawnOOMSpec

namespace Nq.Lemmas.SpawnOOML
open Nq Nq.Spawn Nq.SpawnOOM Nq.Gen.SpawnTexts

/-- one byte of an aborted command that is not the NUL ending the recipient: nothing happens but the stage change -/
theorem cstepA_abort_nz (oom : List Nat) (s : StA) (ch : Byte) (hs : s.st.stage ≠ .delnum) (ha : s.abort = true)
    (hc : ch ≠ 0) : cstepA oom s ch = ({ st := s.st, abort := true, calls := s.calls + 1 }, []) := by
  unfold cstepA
  cases h : s.st.stage <;> simp [h, ha, hc] at hs ⊢

theorem cfeedA_append (oom : List Nat) (s : StA) (a b : Bytes) :
    cfeedA oom s (a ++ b) = ((cfeedA oom (cfeedA oom s a).1 b).1, (cfeedA oom s a).2 ++ (cfeedA oom (cfeedA oom s a).1 b).2) := by
  induction a generalizing s with
  | nil => simp [cfeedA]
  | cons c a ih => simp [cfeedA, ih, List.append_assoc]

/-- NUL-free bytes of an aborted command -/
theorem cfeedA_quiet (oom : List Nat) (s : StA) (bs : Bytes) (hs : s.st.stage ≠ .delnum) (ha : s.abort = true)
    (hb : ∀ c ∈ bs, c ≠ 0) : cfeedA oom s bs = ({ st := s.st, abort := true, calls := s.calls + bs.length }, []) := by
  induction bs generalizing s with
  | nil => cases s; simp [cfeedA] at ha ⊢; exact ha
  | cons c bs ih =>
    have hc : c ≠ 0 := hb c (by simp)
    simp only [cfeedA, cstepA_abort_nz oom s c hs ha hc]
    have := ih { st := s.st, abort := true, calls := s.calls + 1 } hs rfl (fun d hd => hb d (by simp [hd]))
    rw [this]
    simp [Nat.add_assoc, Nat.add_comm 1]

/-- the NUL that ends the recipient of an aborted command -/
theorem cstepA_abort_end (oom : List Nat) (s : StA) (hs : s.st.stage = .recip) (ha : s.abort = true) :
    cstepA oom s 0 = ({ st := { s.st with stage := .delnum }, abort := false, calls := s.calls + 1 },
      [.report s.st.delnum E_NOMEM0]) := by
  unfold cstepA; simp [hs, ha]

theorem cstepA_abort_sender (oom : List Nat) (s : StA) (hs : s.st.stage = .sender) (ha : s.abort = true) :
    cstepA oom s 0 = ({ st := { s.st with stage := .recip }, abort := true, calls := s.calls + 1 }, []) := by
  unfold cstepA; simp [hs, ha]

theorem cstepA_abort_messid (oom : List Nat) (s : StA) (hs : s.st.stage = .messid) (ha : s.abort = true) :
    cstepA oom s 0 = ({ st := { s.st with stage := .sender }, abort := true, calls := s.calls + 1 }, []) := by
  unfold cstepA; simp [hs, ha]

/-- rest of an aborted command from the recipient stage -/
theorem abort_recip (oom : List Nat) (s : StA) (rc : Bytes) (hs : s.st.stage = .recip) (ha : s.abort = true)
    (hr : ∀ c ∈ rc, c ≠ 0) :
    cfeedA oom s (rc ++ [0]) = ({ st := { s.st with stage := .delnum }, abort := false, calls := s.calls + rc.length + 1 },
      [.report s.st.delnum E_NOMEM0]) := by
  rw [cfeedA_append, cfeedA_quiet oom s rc (by simp [hs]) ha hr]
  simp only [cfeedA, List.nil_append, List.append_nil]
  rw [cstepA_abort_end oom _ (show ({ st := s.st, abort := true, calls := s.calls + rc.length } : StA).st.stage = .recip from hs) rfl]

theorem abort_sender (oom : List Nat) (s : StA) (sd rc : Bytes) (hs : s.st.stage = .sender) (ha : s.abort = true)
    (hsd : ∀ c ∈ sd, c ≠ 0) (hr : ∀ c ∈ rc, c ≠ 0) :
    cfeedA oom s (sd ++ 0 :: (rc ++ [0])) =
      ({ st := { s.st with stage := .delnum }, abort := false, calls := s.calls + sd.length + 1 + rc.length + 1 },
       [.report s.st.delnum E_NOMEM0]) := by
  rw [cfeedA_append, cfeedA_quiet oom s sd (by simp [hs]) ha hsd]
  simp only [cfeedA, List.nil_append]
  rw [cstepA_abort_sender oom _ (show ({ st := s.st, abort := true, calls := s.calls + sd.length } : StA).st.stage = .sender from hs) rfl]
  simp only [List.nil_append]
  rw [abort_recip oom _ rc rfl rfl hr]

theorem abort_messid (oom : List Nat) (s : StA) (m sd rc : Bytes) (hs : s.st.stage = .messid) (ha : s.abort = true)
    (hm : ∀ c ∈ m, c ≠ 0) (hsd : ∀ c ∈ sd, c ≠ 0) (hr : ∀ c ∈ rc, c ≠ 0) :
    cfeedA oom s (m ++ 0 :: (sd ++ 0 :: (rc ++ [0]))) =
      ({ st := { s.st with stage := .delnum }, abort := false,
         calls := s.calls + m.length + 1 + sd.length + 1 + rc.length + 1 },
       [.report s.st.delnum E_NOMEM0]) := by
  rw [cfeedA_append, cfeedA_quiet oom s m (by simp [hs]) ha hm]
  simp only [cfeedA, List.nil_append]
  rw [cstepA_abort_messid oom _ (show ({ st := s.st, abort := true, calls := s.calls + m.length } : StA).st.stage = .messid from hs) rfl]
  simp only [List.nil_append]
  rw [abort_sender oom _ sd rc rfl rfl hsd hr]

/-- no failing call: one byte is `Spawn.cstep` -/
theorem cstepA_ok (oom : List Nat) (s : StA) (ch : Byte) (ha : s.abort = false) (hn : oom.contains s.calls = false) :
    (cstepA oom s ch).1.st = (cstep s.st ch).1 ∧ (cstepA oom s ch).2 = (cstep s.st ch).2 ∧
    (cstepA oom s ch).1.abort = false ∧ s.calls ≤ (cstepA oom s ch).1.calls ∧ (cstepA oom s ch).1.calls ≤ s.calls + 1 := by
  have hn' : s.calls ∉ oom := by simpa using hn
  unfold cstepA
  cases h : s.st.stage <;> simp [ha, hn']

theorem cfeedA_ok (oom : List Nat) (bs : Bytes) (s : StA) (ha : s.abort = false)
    (hn : ∀ n, s.calls ≤ n → n < s.calls + bs.length → oom.contains n = false) :
    (cfeedA oom s bs).1.st = (cfeed s.st bs).1 ∧ (cfeedA oom s bs).2 = (cfeed s.st bs).2 ∧ (cfeedA oom s bs).1.abort = false := by
  induction bs generalizing s with
  | nil => simp [cfeedA, cfeed, ha]
  | cons c bs ih =>
    obtain ⟨h1, h2, h3, h4, h5⟩ := cstepA_ok oom s c ha (hn s.calls (Nat.le_refl _) (by simp))
    have := ih (cstepA oom s c).1 h3 (fun n hl hu => hn n (by omega) (by simp only [List.length_cons]; omega))
    simp only [cfeedA, cfeed]
    rw [← h1, ← h2]
    exact ⟨this.1, by rw [this.2.1], this.2.2⟩

end Nq.Lemmas.SpawnOOML
