/-
  The open/spawn discipline over a whole session of the spawn.c model (`Nq.Spawn.run`): the invariant
  of `getcmd()`'s framing automaton (`Rel`: which fields have been collected, message id NUL-free, one
  NUL appended exactly at the stage change), the connection between the model's framing and the
  independent command grammar `parseCmds` of the oracle (`parseCmds_eq`), and the stream theorem
  `run_opensOK` (statement: `Props.C18_spawn_stream`).
-/
import Nq.Lemmas.SpawnL

namespace Nq.Lemmas.SpawnStreamL
open Nq Nq.Spawn Nq.Spec.TB Nq.Gen.SpawnTexts Nq.Lemmas.SpawnL

/-- NUL-free -/
def NF (m : Bytes) : Prop := ∀ c ∈ m, c ≠ 0

theorem NF_nil : NF [] := by intro c hc; cases hc

theorem NF_snoc (m : Bytes) (c : Byte) (h : NF m) (hc : c ≠ 0) : NF (m ++ [c]) := by
  intro x hx
  rcases List.mem_append.mp hx with h1 | h1
  · exact h x h1
  · simp only [List.mem_singleton] at h1; rw [h1]; exact hc

/-! ### the commands a byte string completes, read from a given point of the framing automaton

`cmdsFrom stage d m s rc bytes`: `d m s rc` are the fields collected so far (without their NULs). -/

def cmdsFrom : Stage → Nat → Bytes → Bytes → Bytes → Bytes → List Cmd
  | _, _, _, _, _, [] => []
  | .delnum, _, _, _, _, c :: r => cmdsFrom .messid c.toNat [] [] [] r
  | .messid, d, m, s, rc, c :: r =>
      if c = 0 then cmdsFrom .sender d m [] [] r else cmdsFrom .messid d (m ++ [c]) s rc r
  | .sender, d, m, s, rc, c :: r =>
      if c = 0 then cmdsFrom .recip d m s [] r else cmdsFrom .sender d m (s ++ [c]) rc r
  | .recip, d, m, s, rc, c :: r =>
      if c = 0 then ⟨d, m, s, rc⟩ :: cmdsFrom .delnum 0 [] [] [] r else cmdsFrom .recip d m s (rc ++ [c]) r

theorem cmdsFrom_nil (st : Stage) (d : Nat) (m s rc : Bytes) : cmdsFrom st d m s rc [] = [] := by
  cases st <;> rfl

theorem cf_messid_run (d : Nat) (m s rc x tail : Bytes) (hx : NF x) :
    cmdsFrom .messid d m s rc (x ++ tail) = cmdsFrom .messid d (m ++ x) s rc tail := by
  induction x generalizing m with
  | nil => simp
  | cons c r ih =>
    have hc : c ≠ 0 := hx c (by simp)
    simp only [List.cons_append, cmdsFrom, hc, if_false]
    rw [ih _ (fun y hy => hx y (by simp [hy]))]
    simp

theorem cf_sender_run (d : Nat) (m s rc x tail : Bytes) (hx : NF x) :
    cmdsFrom .sender d m s rc (x ++ tail) = cmdsFrom .sender d m (s ++ x) rc tail := by
  induction x generalizing s with
  | nil => simp
  | cons c r ih =>
    have hc : c ≠ 0 := hx c (by simp)
    simp only [List.cons_append, cmdsFrom, hc, if_false]
    rw [ih _ (fun y hy => hx y (by simp [hy]))]
    simp

theorem cf_recip_run (d : Nat) (m s rc x tail : Bytes) (hx : NF x) :
    cmdsFrom .recip d m s rc (x ++ tail) = cmdsFrom .recip d m s (rc ++ x) tail := by
  induction x generalizing rc with
  | nil => simp
  | cons c r ih =>
    have hc : c ≠ 0 := hx c (by simp)
    simp only [List.cons_append, cmdsFrom, hc, if_false]
    rw [ih _ (fun y hy => hx y (by simp [hy]))]
    simp

/-! ### `parseCmds` (the oracle's grammar) = the framing automaton -/

theorem tw_split (r : Bytes) :
    NF (r.takeWhile (· != 0)) ∧
    ((r.drop (r.takeWhile (· != 0)).length = [] ∧ r.takeWhile (· != 0) = r) ∨
     ∃ t, r.drop (r.takeWhile (· != 0)).length = 0 :: t ∧ r = r.takeWhile (· != 0) ++ 0 :: t) := by
  induction r with
  | nil => exact ⟨NF_nil, Or.inl ⟨rfl, rfl⟩⟩
  | cons c r ih =>
    by_cases hc : c = 0
    · subst hc
      refine ⟨by simp; exact NF_nil, Or.inr ⟨r, by simp, by simp⟩⟩
    · have hb : (c != 0) = true := by simpa using hc
      obtain ⟨i1, i2⟩ := ih
      have e : (c :: r).takeWhile (· != 0) = c :: r.takeWhile (· != 0) := by
        rw [List.takeWhile_cons]; simp only [hb, if_true]
      rw [e]
      refine ⟨?_, ?_⟩
      · intro x hx
        rcases List.mem_cons.mp hx with h | h
        · rw [h]; exact hc
        · exact i1 x h
      · simp only [List.length_cons, List.drop_succ_cons]
        rcases i2 with ⟨a, b⟩ | ⟨t, a, b⟩
        · exact Or.inl ⟨a, by rw [b]⟩
        · exact Or.inr ⟨t, a, by rw [List.cons_append, ← b]⟩

/-- with enough fuel the oracle's command grammar cuts the stream exactly as `getcmd()`'s automaton -/
theorem parseCmds_eq (fuel : Nat) (s : Bytes) (h : s.length < fuel) :
    parseCmds fuel s = cmdsFrom .delnum 0 [] [] [] s := by
  induction fuel generalizing s with
  | zero => omega
  | succ f ih =>
    cases s with
    | nil => rfl
    | cons d r =>
      simp only [parseCmds, cmdsFrom]
      obtain ⟨n1, c1⟩ := tw_split r
      generalize r.takeWhile (· != 0) = m at n1 c1 ⊢
      rcases c1 with ⟨a, b⟩ | ⟨t1, a, b⟩
      · rw [a]; subst b
        have := cf_messid_run d.toNat [] [] [] m [] n1
        rw [List.append_nil] at this
        rw [this, cmdsFrom_nil]
      · rw [a]
        simp only []
        obtain ⟨n2, c2⟩ := tw_split t1
        generalize t1.takeWhile (· != 0) = sd at n2 c2 ⊢
        have e1 : cmdsFrom .messid d.toNat [] [] [] r = cmdsFrom .sender d.toNat m [] [] t1 := by
          rw [b, cf_messid_run d.toNat [] [] [] m (0 :: t1) n1]
          simp [cmdsFrom]
        rw [e1]
        rcases c2 with ⟨a2, b2⟩ | ⟨t2, a2, b2⟩
        · rw [a2]; subst b2
          have := cf_sender_run d.toNat m [] [] sd [] n2
          rw [List.append_nil] at this
          rw [this, cmdsFrom_nil]
        · rw [a2]
          simp only []
          obtain ⟨n3, c3⟩ := tw_split t2
          generalize t2.takeWhile (· != 0) = rc at n3 c3 ⊢
          have e2 : cmdsFrom .sender d.toNat m [] [] t1 = cmdsFrom .recip d.toNat m sd [] t2 := by
            rw [b2, cf_sender_run d.toNat m [] [] sd (0 :: t2) n2]
            simp [cmdsFrom]
          rw [e2]
          rcases c3 with ⟨a3, b3⟩ | ⟨t3, a3, b3⟩
          · rw [a3]; subst b3
            have := cf_recip_run d.toNat m sd [] rc [] n3
            rw [List.append_nil] at this
            rw [this, cmdsFrom_nil]
          · rw [a3]
            simp only []
            have e3 : cmdsFrom .recip d.toNat m sd [] t2 = ⟨d.toNat, m, sd, rc⟩ :: cmdsFrom .delnum 0 [] [] [] t3 := by
              rw [b3, cf_recip_run d.toNat m sd [] rc (0 :: t3) n3]
              simp [cmdsFrom]
            rw [e3, ih t3]
            have l1 : r.length = m.length + 1 + t1.length := by rw [b]; simp; omega
            have l2 : t1.length = sd.length + 1 + t2.length := by rw [b2]; simp; omega
            have l3 : t2.length = rc.length + 1 + t3.length := by rw [b3]; simp; omega
            simp only [List.length_cons] at h
            omega

/-- the result of `parseCmds` does not depend on the fuel once it exceeds the length of the stream -/
theorem parseCmds_fuel (f1 f2 : Nat) (s : Bytes) (h1 : s.length < f1) (h2 : s.length < f2) :
    parseCmds f1 s = parseCmds f2 s := by
  rw [parseCmds_eq f1 s h1, parseCmds_eq f2 s h2]

/-! ### the invariant of `getcmd()` -/

/-- what the state holds at each stage: the fields collected so far; the message id is NUL-free and
gets its single NUL exactly when the stage changes to `sender` -/
def Rel (st : St) (d : Nat) (m s rc : Bytes) : Prop :=
  match st.stage with
  | .delnum => True
  | .messid => st.delnum = d ∧ st.messid = m ∧ NF m
  | .sender => st.delnum = d ∧ st.messid = m ++ [0] ∧ NF m ∧ st.sender = s
  | .recip => st.delnum = d ∧ st.messid = m ++ [0] ∧ NF m ∧ st.sender = s ++ [0] ∧ st.recip = rc

/-- the commands still to be completed by `bytes` from state `st` all belong to `cmds` -/
def Inv (cmds : List Cmd) (st : St) (bytes : Bytes) : Prop :=
  ∃ d m s rc, Rel st d m s rc ∧ ∀ c ∈ cmdsFrom st.stage d m s rc bytes, c ∈ cmds

theorem any_of_mem (cmds : List Cmd) (c : Cmd) (p : Cmd → Bool) (hc : c ∈ cmds) (hp : p c = true) :
    cmds.any p = true := List.any_eq_true.mpr ⟨c, hc, hp⟩

def badPlan (pl : List Nat) : Prop := pl.headD 0 = 3 ∨ pl.headD 0 = 4 ∨ pl.headD 0 = 7 ∨ pl.headD 0 = 8

theorem block_open_report (cmds : List Cmd) (pl : List Nat) (p : Bytes) (d : Nat) (t : Bytes) (rest : List Ev)
    (hok : okPath p = true) (a1 : cmds.any (fun c => c.messid == p) = true)
    (hbad : badPlan pl → t.head? = some 90 ∧ cmds.any (fun c => c.messid == p && c.delnum == d) = true) :
    opensGo cmds none pl (.openRead p :: .report d t :: rest) = opensGo cmds none pl.tail rest := by
  simp only [opensGo, hok, a1, Bool.true_and]
  by_cases hb : badPlan pl
  · obtain ⟨z, a2⟩ := hbad hb
    unfold badPlan at hb
    simp only [hb, decide_true, z, a2, beq_self_eq_true, Bool.and_self, Bool.true_and]
  · unfold badPlan at hb
    simp only [hb, decide_false, Bool.true_and]

theorem block_open_spawn (cmds : List Cmd) (pl : List Nat) (p : Bytes) (d : Nat) (s rc : Bytes) (j : Nat) (rest : List Ev)
    (hok : okPath p = true) (a1 : cmds.any (fun c => c.messid == p) = true) (hb : ¬ badPlan pl)
    (a3 : cmds.any (fun c => c.messid == p && c.delnum == d && c.sender == s && c.recip == rc) = true) :
    opensGo cmds none pl (.openRead p :: .spawnCall d s rc j :: rest) = opensGo cmds none pl.tail rest := by
  unfold badPlan at hb
  simp only [opensGo, hok, a1, a3, hb, decide_false, Bool.true_and]

theorem block_report (cmds : List Cmd) (pl : List Nat) (d : Nat) (t : Bytes) (rest : List Ev) :
    opensGo cmds none pl (.report d t :: rest) = opensGo cmds none pl rest := by
  simp only [opensGo, Bool.true_and]

/-- `docmd` on a command of the session: its events leave the open/spawn monitor in the idle state
and consume one `plan` entry per `open_read` -/
theorem docmd_opens (cmds : List Cmd) (st : St) (m s rc : Bytes) (hm : st.messid = m ++ [0]) (h0 : NF m)
    (hs : st.sender = s ++ [0]) (hr : st.recip = rc ++ [0])
    (hc : (⟨st.delnum, m, s, rc⟩ : Cmd) ∈ cmds) (rest : List Ev) :
    opensGo cmds none st.plan ((docmd st).2 ++ rest) = opensGo cmds none (docmd st).1.plan rest := by
  have hdl : st.messid.dropLast = m := by rw [hm, List.dropLast_concat]
  have hsd : st.sender.dropLast = s := by rw [hs, List.dropLast_concat]
  have hrd : st.recip.dropLast = rc := by rw [hr, List.dropLast_concat]
  have a1 : cmds.any (fun c => c.messid == m) = true := any_of_mem cmds _ _ hc (by simp)
  have a2 : cmds.any (fun c => c.messid == m && c.delnum == st.delnum) = true := any_of_mem cmds _ _ hc (by simp)
  have a3 : cmds.any (fun c => c.messid == m && c.delnum == st.delnum && c.sender == s && c.recip == rc) = true :=
    any_of_mem cmds _ _ hc (by simp)
  rcases docmd_cases st with ⟨t, _, h⟩ | ⟨hck, j, _, h⟩
  · rw [h]; exact block_report cmds _ _ _ rest
  · have hok : okPath m = true := by
      obtain ⟨_, _, c3, c4, c5⟩ := hck
      rw [hm] at c3 c4 c5
      exact okPath_of_checks m h0 c3 c4 c5
    rcases h with ⟨t, h, ht⟩ | ⟨h6, h⟩ | ⟨h08, h⟩
    · rw [h, hdl]
      refine block_open_report cmds st.plan m st.delnum t rest hok a1 ?_
      intro hb
      unfold badPlan at hb
      refine ⟨?_, a2⟩
      rcases ht with ⟨p, e⟩ | ⟨p, e⟩ | ⟨p, e⟩ | ⟨p, e⟩ | ⟨p, e⟩
      · omega
      · omega
      · rw [e]; exact guard_texts_Z.1
      · rw [e]; exact guard_texts_Z.2
      · omega
    · rw [h, hdl, hsd, hrd]
      have hb : ¬ badPlan st.plan := by unfold badPlan; omega
      show opensGo cmds none st.plan (.openRead m :: .spawnCall st.delnum s rc j :: (.report st.delnum E_FORK :: rest)) = _
      rw [block_open_spawn cmds st.plan m st.delnum s rc j _ hok a1 hb a3, block_report]
      rfl
    · rw [h, hdl, hsd, hrd]
      have hb : ¬ badPlan st.plan := by unfold badPlan; omega
      exact block_open_spawn cmds st.plan m st.delnum s rc j rest hok a1 hb a3

theorem cstep_opens (cmds : List Cmd) (st : St) (ch : Byte) (r : Bytes) (hI : Inv cmds st (ch :: r)) :
    Inv cmds (cstep st ch).1 r ∧
    ∀ rest, opensGo cmds none st.plan ((cstep st ch).2 ++ rest) = opensGo cmds none (cstep st ch).1.plan rest := by
  obtain ⟨d, m, s, rc, hR, hS⟩ := hI
  unfold Rel at hR
  cases hst : st.stage with
  | delnum =>
    rw [hst] at hS
    simp only [cmdsFrom] at hS
    refine ⟨⟨ch.toNat, [], [], [], ?_, ?_⟩, ?_⟩
    · simp [Rel, cstep, hst, NF_nil]
    · simp only [cstep, hst]; exact hS
    · intro rest; simp only [cstep, hst, List.nil_append]
  | messid =>
    rw [hst] at hS hR
    simp only [] at hR
    obtain ⟨r1, r2, r3⟩ := hR
    by_cases hc : ch = 0
    · subst hc
      simp only [cmdsFrom, if_true] at hS
      refine ⟨⟨d, m, [], [], ?_, ?_⟩, ?_⟩
      · simp [Rel, cstep, hst, r1, r2, r3]
      · simp only [cstep, hst, if_true]; exact hS
      · intro rest; simp only [cstep, hst, if_true, List.nil_append]
    · simp only [cmdsFrom, hc, if_false] at hS
      refine ⟨⟨d, m ++ [ch], s, rc, ?_, ?_⟩, ?_⟩
      · simp [Rel, cstep, hst, hc, r1, r2, NF_snoc m ch r3 hc]
      · simp only [cstep, hst, hc, if_false]; exact hS
      · intro rest; simp only [cstep, hst, hc, if_false, List.nil_append]
  | sender =>
    rw [hst] at hS hR
    simp only [] at hR
    obtain ⟨r1, r2, r3, r4⟩ := hR
    by_cases hc : ch = 0
    · subst hc
      simp only [cmdsFrom, if_true] at hS
      refine ⟨⟨d, m, s, [], ?_, ?_⟩, ?_⟩
      · simp [Rel, cstep, hst, r1, r2, r3, r4]
      · simp only [cstep, hst, if_true]; exact hS
      · intro rest; simp only [cstep, hst, if_true, List.nil_append]
    · simp only [cmdsFrom, hc, if_false] at hS
      refine ⟨⟨d, m, s ++ [ch], rc, ?_, ?_⟩, ?_⟩
      · simp [Rel, cstep, hst, hc, r1, r2, r3, r4]
      · simp only [cstep, hst, hc, if_false]; exact hS
      · intro rest; simp only [cstep, hst, hc, if_false, List.nil_append]
  | recip =>
    rw [hst] at hS hR
    simp only [] at hR
    obtain ⟨r1, r2, r3, r4, r5⟩ := hR
    by_cases hc : ch = 0
    · subst hc
      simp only [cmdsFrom, if_true] at hS
      have hmem : (⟨d, m, s, rc⟩ : Cmd) ∈ cmds := hS _ (by simp)
      refine ⟨⟨0, [], [], [], ?_, ?_⟩, ?_⟩
      · simp [Rel, cstep, hst]
      · simp only [cstep, hst, if_true]
        intro c hcm; exact hS c (List.mem_cons_of_mem _ hcm)
      · intro rest
        simp only [cstep, hst, if_true]
        exact docmd_opens cmds { st with stage := Stage.recip, recip := st.recip ++ [0] } m s rc r2 r3 r4 (by simp only [r5])
          (by simp only [r1]; exact hmem) rest
    · simp only [cmdsFrom, hc, if_false] at hS
      refine ⟨⟨d, m, s, rc ++ [ch], ?_, ?_⟩, ?_⟩
      · simp [Rel, cstep, hst, hc, r1, r2, r3, r4, r5]
      · simp only [cstep, hst, hc, if_false]; exact hS
      · intro rest; simp only [cstep, hst, hc, if_false, List.nil_append]

theorem cfeed_opens (cmds : List Cmd) (st : St) (bytes tail : Bytes) (hI : Inv cmds st (bytes ++ tail)) :
    Inv cmds (cfeed st bytes).1 tail ∧
    ∀ rest, opensGo cmds none st.plan ((cfeed st bytes).2 ++ rest) = opensGo cmds none (cfeed st bytes).1.plan rest := by
  induction bytes generalizing st with
  | nil => exact ⟨hI, fun rest => rfl⟩
  | cons c r ih =>
    obtain ⟨s1, s2⟩ := cstep_opens cmds st c (r ++ tail) hI
    obtain ⟨i1, i2⟩ := ih (cstep st c).1 s1
    refine ⟨i1, ?_⟩
    intro rest
    simp only [cfeed, List.append_assoc]
    rw [s2, i2]

theorem docmd_reading (st : St) : (docmd st).1.reading = st.reading := by
  rcases docmd_cases st with ⟨t, _, h⟩ | ⟨_, j, _, h⟩
  · rw [h]
  · rcases h with ⟨t, h, _⟩ | ⟨_, h⟩ | ⟨_, h⟩ <;> rw [h] <;> rfl

theorem cstep_reading (st : St) (ch : Byte) : (cstep st ch).1.reading = st.reading := by
  unfold cstep
  cases st.stage with
  | delnum => rfl
  | messid => by_cases hc : ch = 0 <;> simp [hc]
  | sender => by_cases hc : ch = 0 <;> simp [hc]
  | recip =>
    by_cases hc : ch = 0
    · simp only [hc, if_true]; exact docmd_reading _
    · simp [hc]

theorem cfeed_reading (st : St) (bytes : Bytes) : (cfeed st bytes).1.reading = st.reading := by
  induction bytes generalizing st with
  | nil => rfl
  | cons c r ih => simp only [cfeed]; rw [ih, cstep_reading]

/-- a state that differs only in the slot table -/
theorem Inv_slots (cmds : List Cmd) (st : St) (sl : List (Option Bytes)) (bytes : Bytes) (hI : Inv cmds st bytes) :
    Inv cmds { st with slots := sl } bytes := hI

theorem childExit_opens (cmds : List Cmd) (k : Kind) (st : St) (slot wstat : Nat) (bytes : Bytes) (hI : Inv cmds st bytes) :
    Inv cmds (childExit k st slot wstat).1 bytes ∧ (childExit k st slot wstat).1.plan = st.plan ∧
    (childExit k st slot wstat).1.reading = st.reading ∧
    ∀ pl rest, opensGo cmds none pl ((childExit k st slot wstat).2 ++ rest) = opensGo cmds none pl rest := by
  unfold childExit
  cases h : st.slots.getD slot none with
  | none => exact ⟨hI, rfl, rfl, fun pl rest => rfl⟩
  | some out => exact ⟨Inv_slots cmds st _ bytes hI, rfl, rfl, fun pl rest => by simp [opensGo]⟩

/-- events that are all reports do not move the open/spawn monitor -/
theorem opens_reports (cmds : List Cmd) (evs : List Ev) (h : ∀ e ∈ evs, ∃ d b, e = Ev.report d b) (pl : List Nat)
    (rest : List Ev) : opensGo cmds none pl (evs ++ rest) = opensGo cmds none pl rest := by
  induction evs with
  | nil => rfl
  | cons e r ih =>
    obtain ⟨d, b, he⟩ := h e (by simp)
    subst he
    rw [List.cons_append, block_report]
    exact ih (fun x hx => h x (List.mem_cons_of_mem _ hx))

theorem reap_opens (cmds : List Cmd) (st : St) (slot wstat : Nat) (bytes : Bytes) (hI : Inv cmds st bytes) :
    Inv cmds (reap st slot wstat) bytes := by
  unfold reap
  cases st.slots.getD slot none with
  | none => exact hI
  | some out =>
    cases st.dead.getD slot none with
    | none => exact hI
    | some w => exact hI

/-- a child-side event emits reports only, and leaves the plan and the end-of-input flag alone -/
theorem childOp_events (k : Kind) (st : St) (op : Op) (hc : childOp op = true) :
    (ostep k st op).1.plan = st.plan ∧ (ostep k st op).1.reading = st.reading ∧
    ∀ e ∈ (ostep k st op).2, ∃ d b, e = Ev.report d b := by
  cases op with
  | cmd b => simp [childOp] at hc
  | eof => simp [childOp] at hc
  | out slot b =>
    cases h : st.slots.getD slot none with
    | none =>
      have e : ostep k st (.out slot b) = (st, []) := by simp only [ostep, h]
      rw [e]; exact ⟨rfl, rfl, fun e he => by cases he⟩
    | some out =>
      have e : ostep k st (.out slot b) = ({ st with slots := st.slots.set slot (some (accumulate k out b)) }, []) := by
        simp only [ostep, h]
      rw [e]; exact ⟨rfl, rfl, fun e he => by cases he⟩
  | exit slot wstat =>
    by_cases hd : (st.dead.getD slot none).isSome = true
    · have e : ostep k st (.exit slot wstat) = (st, []) := by simp only [ostep, hd, if_true]
      rw [e]; exact ⟨rfl, rfl, fun e he => by cases he⟩
    · have e : ostep k st (.exit slot wstat) = childExit k st slot wstat := by
        simp only [ostep, hd, Bool.false_eq_true, if_false]
      rw [e]
      unfold childExit
      cases h : st.slots.getD slot none with
      | none => exact ⟨rfl, rfl, fun e he => by cases he⟩
      | some out => exact ⟨rfl, rfl, fun e he => by simp only [List.mem_singleton] at he; exact ⟨_, _, he⟩⟩
  | reap slot wstat =>
    obtain ⟨_, _, r3, r4⟩ := reap_facts st slot wstat
    exact ⟨r4, r3, fun e he => by cases he⟩
  | peof slot =>
    rcases pipeEof_cases k st slot with ⟨e, _⟩ | ⟨out, ws, _, _, e⟩
    · simp only [ostep]; rw [e]; exact ⟨rfl, rfl, fun e he => by cases he⟩
    · simp only [ostep]; rw [e]
      exact ⟨rfl, rfl, fun e he => by simp only [List.mem_singleton] at he; exact ⟨_, _, he⟩⟩
  | cclose slot => exact ⟨rfl, rfl, fun e he => by cases he⟩

/-- a child-side event does not touch what the command reader has collected -/
theorem childOp_inv (cmds : List Cmd) (k : Kind) (st : St) (op : Op) (bytes : Bytes) (hc : childOp op = true)
    (hI : Inv cmds st bytes) : Inv cmds (ostep k st op).1 bytes := by
  cases op with
  | cmd b => simp [childOp] at hc
  | eof => simp [childOp] at hc
  | out slot b =>
    cases h : st.slots.getD slot none with
    | none => simp only [ostep, h]; exact hI
    | some out => simp only [ostep, h]; exact Inv_slots cmds st _ bytes hI
  | exit slot wstat =>
    by_cases hd : (st.dead.getD slot none).isSome = true
    · simp only [ostep, hd, if_true]; exact hI
    · simp only [ostep, hd, Bool.false_eq_true, if_false]
      exact (childExit_opens cmds k st slot wstat bytes hI).1
  | reap slot wstat => exact reap_opens cmds st slot wstat bytes hI
  | peof slot =>
    rcases pipeEof_cases k st slot with ⟨e, _⟩ | ⟨out, ws, _, _, e⟩
    · simp only [ostep]; rw [e]; exact hI
    · simp only [ostep]; rw [e]; exact hI
  | cclose slot => exact hI

theorem ostep_opens (cmds : List Cmd) (k : Kind) (st : St) (op : Op) (tail : Bytes) (hr : st.reading = true)
    (hne : op ≠ .eof) (hI : Inv cmds st (inputOf [op] ++ tail)) :
    Inv cmds (ostep k st op).1 tail ∧ (ostep k st op).1.reading = true ∧
    ∀ rest, opensGo cmds none st.plan ((ostep k st op).2 ++ rest) = opensGo cmds none (ostep k st op).1.plan rest := by
  by_cases hc : childOp op = true
  · rw [inputOf_childOp op hc, List.nil_append] at hI
    obtain ⟨c2, c3, c4⟩ := childOp_events k st op hc
    exact ⟨childOp_inv cmds k st op tail hc hI, c3.trans hr, fun rest => by rw [opens_reports cmds _ c4, c2]⟩
  · cases op with
    | cmd bytes =>
      simp only [inputOf, List.append_nil] at hI
      obtain ⟨c1, c2⟩ := cfeed_opens cmds st bytes tail hI
      have hrd := (cfeed_reading st bytes)
      simp only [ostep, hr, if_true]
      exact ⟨c1, hrd.trans hr, c2⟩
    | eof => exact absurd rfl hne
    | out slot bytes => simp [childOp] at hc
    | exit slot wstat => simp [childOp] at hc
    | reap slot wstat => simp [childOp] at hc
    | peof slot => simp [childOp] at hc
    | cclose slot => simp [childOp] at hc

/-- after the end of input nothing is opened any more: every event emits reports only -/
theorem ostep_opens_closed (cmds : List Cmd) (k : Kind) (st : St) (op : Op) (hr : st.reading = false) :
    (ostep k st op).1.reading = false ∧
    ∀ pl rest, opensGo cmds none pl ((ostep k st op).2 ++ rest) = opensGo cmds none pl rest := by
  by_cases hc : childOp op = true
  · obtain ⟨_, c3, c4⟩ := childOp_events k st op hc
    exact ⟨c3.trans hr, fun pl rest => opens_reports cmds _ c4 pl rest⟩
  · cases op with
    | cmd bytes =>
      have e : ostep k st (.cmd bytes) = (st, []) := by simp only [ostep, hr, Bool.false_eq_true, if_false]
      rw [e]; exact ⟨hr, fun pl rest => rfl⟩
    | eof => exact ⟨rfl, fun pl rest => rfl⟩
    | out slot bytes => simp [childOp] at hc
    | exit slot wstat => simp [childOp] at hc
    | reap slot wstat => simp [childOp] at hc
    | peof slot => simp [childOp] at hc
    | cclose slot => simp [childOp] at hc

theorem orun_opens_closed (cmds : List Cmd) (k : Kind) (st : St) (ops : List Op) (hr : st.reading = false)
    (pl : List Nat) (rest : List Ev) :
    opensGo cmds none pl ((orun k st ops).2 ++ rest) = opensGo cmds none pl rest := by
  induction ops generalizing st with
  | nil => rfl
  | cons op r ih =>
    obtain ⟨o1, o2⟩ := ostep_opens_closed cmds k st op hr
    simp only [orun, List.append_assoc]
    rw [o2, ih _ o1]

/-- the plan is only consumed by `open_read`, i.e. while commands are read -/
theorem orun_plan_closed (k : Kind) (st : St) (ops : List Op) (hr : st.reading = false) :
    (orun k st ops).1.plan = st.plan := by
  induction ops generalizing st with
  | nil => rfl
  | cons op r ih =>
    have h1 : (ostep k st op).1.plan = st.plan ∧ (ostep k st op).1.reading = false := by
      by_cases hc : childOp op = true
      · obtain ⟨c2, c3, _⟩ := childOp_events k st op hc
        exact ⟨c2, c3.trans hr⟩
      · cases op with
        | cmd bytes =>
          have e : ostep k st (.cmd bytes) = (st, []) := by simp only [ostep, hr, Bool.false_eq_true, if_false]
          rw [e]; exact ⟨rfl, hr⟩
        | eof => exact ⟨rfl, rfl⟩
        | out slot bytes => simp [childOp] at hc
        | exit slot wstat => simp [childOp] at hc
        | reap slot wstat => simp [childOp] at hc
        | peof slot => simp [childOp] at hc
        | cclose slot => simp [childOp] at hc
    simp only [orun]
    rw [ih _ h1.2, h1.1]

theorem orun_opens (cmds : List Cmd) (k : Kind) (st : St) (ops : List Op) (hr : st.reading = true)
    (hI : Inv cmds st (inputOf ops)) :
    ∀ rest, opensGo cmds none st.plan ((orun k st ops).2 ++ rest) = opensGo cmds none (orun k st ops).1.plan rest := by
  induction ops generalizing st with
  | nil => exact fun rest => rfl
  | cons op r ih =>
    by_cases hne : op = .eof
    · subst hne
      intro rest
      have e : orun k st (.eof :: r) = ((orun k (stopReading st) r).1, (orun k (stopReading st) r).2) := by
        simp only [orun, ostep, List.nil_append]
      rw [e]
      show opensGo cmds none st.plan ((orun k (stopReading st) r).2 ++ rest) = opensGo cmds none (orun k (stopReading st) r).1.plan rest
      rw [orun_opens_closed cmds k (stopReading st) r rfl, orun_plan_closed k (stopReading st) r rfl]
      rfl
    · rw [inputOf_cons op r hne] at hI
      obtain ⟨o1, o2, o3⟩ := ostep_opens cmds k st op (inputOf r) hr hne hI
      have i2 := ih (ostep k st op).1 o2 o1
      intro rest
      simp only [orun, List.append_assoc]
      rw [o3, i2]

theorem finish_events (k : Kind) (st : St) (i : Nat) : ∀ e ∈ (finish k st i).2, ∃ d b, e = Ev.report d b := by
  unfold finish
  cases hd : st.dead.getD i none with
  | none =>
    simp only []
    unfold childExit
    cases h : st.slots.getD i none with
    | none => exact fun e he => by cases he
    | some out => exact fun e he => by simp only [List.mem_singleton] at he; exact ⟨_, _, he⟩
  | some w =>
    simp only []
    rcases pipeEof_cases k st i with ⟨e, _⟩ | ⟨out, ws, _, _, e⟩
    · rw [e]; exact fun e he => by cases he
    · rw [e]; exact fun e he => by simp only [List.mem_singleton] at he; exact ⟨_, _, he⟩

theorem drain_opens (cmds : List Cmd) (k : Kind) (st : St) (fuel i : Nat) (pl : List Nat) (rest : List Ev) :
    opensGo cmds none pl ((drain k st fuel i).2 ++ rest) = opensGo cmds none pl rest := by
  induction fuel generalizing st i with
  | zero => rfl
  | succ f ih =>
    simp only [drain, List.append_assoc]
    rw [opens_reports cmds _ (finish_events k st i), ih]

/-- **the open/spawn discipline over a whole session**, for any command list that contains the
commands the input stream completes -/
theorem runFrom_opens (cmds : List Cmd) (k : Kind) (st0 : St) (script : List Op) (hr : st0.reading = true)
    (hI : Inv cmds st0 (inputOf script)) : opensGo cmds none st0.plan (runFrom k st0 script).2 = true := by
  have o2 := orun_opens cmds k st0 script hr hI
  rw [runFrom_eq]
  simp only [opensGo]
  rw [o2, ← List.append_nil (drain k (stopReading (orun k st0 script).1) Nq.Gen.auto_spawn 0).2, drain_opens]
  rfl

theorem run_opensOK (k : Kind) (plan : List Nat) (script : List Op) (fuel : Nat) (hf : (inputOf script).length < fuel) :
    opensOK (parseCmds fuel (inputOf script)) plan (run k plan script).2 = true := by
  unfold opensOK run
  have hI : Inv (parseCmds fuel (inputOf script)) ({ plan := plan } : St) (inputOf script) := by
    refine ⟨0, [], [], [], ?_, ?_⟩
    · simp only [Rel]
    · intro c hc
      rw [parseCmds_eq fuel _ hf]
      exact hc
  exact runFrom_opens _ k _ script rfl hI

end Nq.Lemmas.SpawnStreamL
