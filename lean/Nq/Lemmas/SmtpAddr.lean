/-
  Lemmas for C08 about address parsing: the localiphost replacement on a well-formed literal, the
  case analysis of `lipSubst`, and the lower-case keys of qmail-newmrh.
-/
import Nq.Spec.SmtpPolicy
import Nq.Lemmas.SmtpPolicy

namespace Nq.Lemmas.Smtp
open Nq Nq.SmtpSession Nq.SmtpPolicy

/-! ### qmail-newmrh keys are lower-case -/

theorem lower_of_prefix (s D : Bytes) (h : s <+: D) (hD : lower D = D) : lower s = s := by
  obtain ⟨t, rfl⟩ := h
  rw [lower_append] at hD
  exact (List.append_inj hD (lower_length s)).1

theorem stripTrail_prefix (l : Bytes) : stripTrail l <+: l := by
  unfold stripTrail
  have h := List.dropWhile_suffix (l := l.reverse) isWs
  have := List.reverse_prefix.2 h
  simpa using this

theorem newmrhKeys_lower (content : Bytes) : ∀ k ∈ newmrhKeys content, lower k = k := by
  intro k hk
  unfold newmrhKeys at hk
  obtain ⟨hk1, _⟩ := List.mem_filter.1 hk
  obtain ⟨l, _, rfl⟩ := List.mem_map.1 hk1
  exact lower_of_prefix _ _ (stripTrail_prefix _) (lower_idem l)

theorem ofFiles_moreLower (me : Bytes) (rh more bmf lip relay : Option Bytes) (ipme : List Ip) (now qp : Nat) :
    MoreLower (Cfg.ofFiles me rh more bmf lip relay ipme now qp) := by
  intro ks h
  cases more with
  | none => simp [Cfg.ofFiles] at h
  | some m =>
    simp [Cfg.ofFiles] at h
    subst h
    exact newmrhKeys_lower m

/-! ### lipSubst -/

theorem lipSubst_cases (cfg : Cfg) (a : Bytes) :
    lipSubst cfg a = a ∨ ∃ h p d ip, cfg.liphost = some h ∧ splitLastAt a = some (p, d) ∧ scanBracket d = some (ip, []) ∧
      cfg.ipme.contains ip = true ∧ lipSubst cfg a = p ++ h := by
  cases hh : cfg.liphost with
  | none => exact Or.inl (by simp [lipSubst, hh])
  | some h =>
    cases hs : splitLastAt a with
    | none => exact Or.inl (by simp [lipSubst, hh, hs])
    | some pd =>
      obtain ⟨p, d⟩ := pd
      cases hb : scanBracket d with
      | none => exact Or.inl (by simp [lipSubst, hh, hs, hb])
      | some r =>
        obtain ⟨ip, rest⟩ := r
        cases rest with
        | cons c t => exact Or.inl (by simp [lipSubst, hh, hs, hb])
        | nil =>
          by_cases hc : cfg.ipme.contains ip = true
          · refine Or.inr ⟨h, p, d, ip, rfl, rfl, hb, hc, ?_⟩
            simp only [lipSubst, hh, hs, hb, hc, if_true]
          · refine Or.inl ?_
            simp only [lipSubst, hh, hs, hb, hc]
            simp

theorem splitLastAt_none : ∀ (d : Bytes), AT ∉ d → splitLastAt d = none
  | [], _ => rfl
  | c :: r, h => by
    have h1 : AT ∉ r := fun hm => h (List.mem_cons_of_mem _ hm)
    have h2 : c ≠ AT := fun e => h (e ▸ List.mem_cons_self ..)
    simp [splitLastAt, splitLastAt_none r h1, h2]

theorem splitLastAt_append (d : Bytes) (hd : AT ∉ d) : ∀ (box : Bytes), splitLastAt (box ++ AT :: d) = some (box ++ [AT], d)
  | [] => by simp [splitLastAt, splitLastAt_none d hd]
  | c :: r => by simp [splitLastAt, splitLastAt_append d hd r]

theorem isDigit_ne (c : Byte) (h : isDigit c = true) : c ≠ AT ∧ c ≠ DOT ∧ c ≠ RBR := by
  unfold isDigit at h
  simp only [Bool.and_eq_true, decide_eq_true_eq] at h
  obtain ⟨h1, h2⟩ := h
  rw [UInt8.le_iff_toNat_le] at h1 h2
  simp at h1 h2
  refine ⟨?_, ?_, ?_⟩ <;> (intro e; subst e; revert h1 h2; decide)

theorem allDigits_spec (d : Bytes) (h : allDigits d = true) : d ≠ [] ∧ ∀ c ∈ d, isDigit c = true := by
  unfold allDigits at h
  simp only [Bool.and_eq_true, Bool.not_eq_true', List.all_eq_true] at h
  exact ⟨by intro e; simp [e] at h, h.2⟩

theorem takeWhile_digits (c : Byte) (r : Bytes) (hc : isDigit c = false) : ∀ (d : Bytes), (∀ x ∈ d, isDigit x = true) →
    (d ++ c :: r).takeWhile isDigit = d ∧ (d ++ c :: r).dropWhile isDigit = c :: r
  | [], _ => by simp [List.takeWhile, List.dropWhile, hc]
  | x :: d, h => by
    have hx : isDigit x = true := h x (List.mem_cons_self ..)
    have := takeWhile_digits c r hc d (fun y hy => h y (List.mem_cons_of_mem _ hy))
    simp [List.takeWhile, List.dropWhile, hx, this]

theorem scanNum_digits (d : Bytes) (c : Byte) (r : Bytes) (hd : allDigits d = true) (hc : isDigit c = false) :
    scanNum (d ++ c :: r) = some (numVal d, c :: r) := by
  obtain ⟨h1, h2⟩ := allDigits_spec d hd
  obtain ⟨h3, h4⟩ := takeWhile_digits c r hc d h2
  unfold scanNum
  simp [h3, h4, h1]

theorem scanBracket_lit (d1 d2 d3 d4 : Bytes) (h1 : allDigits d1 = true) (h2 : allDigits d2 = true)
    (h3 : allDigits d3 = true) (h4 : allDigits d4 = true) :
    scanBracket (ipLit d1 d2 d3 d4) = some ((numVal d1, numVal d2, numVal d3, numVal d4), []) := by
  have hdot : isDigit DOT = false := by decide
  have hrbr : isDigit RBR = false := by decide
  unfold scanBracket ipLit
  simp [expect, scanNum_digits _ _ _ h1 hdot, scanNum_digits _ _ _ h2 hdot, scanNum_digits _ _ _ h3 hdot,
    scanNum_digits _ _ _ h4 hrbr]

theorem ipLit_noAt (d1 d2 d3 d4 : Bytes) (h1 : allDigits d1 = true) (h2 : allDigits d2 = true)
    (h3 : allDigits d3 = true) (h4 : allDigits d4 = true) : AT ∉ ipLit d1 d2 d3 d4 := by
  have g : ∀ d, allDigits d = true → AT ∉ d := by
    intro d hd hm
    exact (isDigit_ne AT ((allDigits_spec d hd).2 AT hm)).1 rfl
  intro hm
  unfold ipLit at hm
  simp only [List.mem_cons, List.mem_append, List.not_mem_nil, or_false] at hm
  rcases hm with h | h | h | h | h | h | h | h | h
  all_goals first
    | exact absurd h (by decide)
    | exact g _ h1 h
    | exact g _ h2 h
    | exact g _ h3 h
    | exact g _ h4 h

theorem lipSubst_literal (cfg : Cfg) (h box d1 d2 d3 d4 : Bytes) (hh : cfg.liphost = some h)
    (h1 : allDigits d1 = true) (h2 : allDigits d2 = true) (h3 : allDigits d3 = true) (h4 : allDigits d4 = true)
    (hip : cfg.ipme.contains (numVal d1, numVal d2, numVal d3, numVal d4) = true) :
    lipSubst cfg (box ++ AT :: ipLit d1 d2 d3 d4) = box ++ AT :: h := by
  unfold lipSubst
  rw [hh]
  simp only [splitLastAt_append _ (ipLit_noAt d1 d2 d3 d4 h1 h2 h3 h4) box, scanBracket_lit d1 d2 d3 d4 h1 h2 h3 h4, hip,
    if_true]
  simp

end Nq.Lemmas.Smtp
