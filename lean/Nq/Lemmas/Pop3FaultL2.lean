/-
  Without faults `Nq.Pop3F` is `Nq.Pop3`; and what every command does to the maildir under faults. Core Lean only.
-/
import Nq.Lemmas.Pop3FaultL

namespace Nq.Lemmas.Pop3F
open Nq Nq.Pop3 Nq.Pop3Ref Nq.Pop3F Nq.Lemmas.Pop3

theorem execF_none (s : Sess) (verb arg : Bytes) : execF {} s false none verb arg = (exec s verb arg, false, none) := by
  unfold execF
  by_cases hq : verbIs vQuit verb = true
  · simp only [hq, if_true, exec, quitLoopF_none]
  · rw [if_neg hq]
    by_cases hr : verbIs vRetr verb = true ∨ verbIs vTop verb = true
    · rw [if_pos hr]
      have hex : exec s verb arg = (match msgno s arg with
          | .err r => (s, r, none)
          | .ok i => match s.msgs[i]? with
            | none => (s, [], none)
            | some m => match fsFind s.fs m.fn with
              | none => (s, errLine "unable to open that message", none)
              | some f => (s, okLine ++ blast (limitFor verb arg) f.data, none)) := by
        rcases hr with h | h
        · have h' : lower verb = vRetr := by simpa [verbIs] using h
          simp [exec, verbIs, h', vQuit, vStat, vList, vUidl, vDele, vRetr]
          rfl
        · have h' : lower verb = vTop := by simpa [verbIs] using h
          simp [exec, verbIs, h', vQuit, vStat, vList, vUidl, vDele, vRetr, vTop]
          rfl
      rw [hex]
      cases msgno s arg with
      | err r => rfl
      | ok i =>
        simp only
        cases s.msgs[i]? with
        | none => rfl
        | some m =>
          simp only [Bool.false_eq_true, if_false]
          cases fsFind s.fs m.fn with
          | none => rfl
          | some f => rfl
    · rw [if_neg hr]

/-- an event of the fault-free model as an event of the model with faults -/
def lift : Ev → EvF
  | .data b => .data b
  | .vanish p => .vanish p

theorem feedByteF_none (r : Run) (c : Byte) :
    feedByteF {} ⟨r, false, none⟩ c = ⟨feedByte r c, false, none⟩ := by
  obtain ⟨s, cmd, out, ex⟩ := r
  unfold feedByteF feedByte
  cases ex with
  | some x => rfl
  | none =>
    simp only
    split
    · simp only [execF_none]
    · rfl

theorem feedBytesF_none (b : Bytes) : ∀ r : Run,
    b.foldl (feedByteF {}) ⟨r, false, none⟩ = ⟨b.foldl feedByte r, false, none⟩ := by
  induction b with
  | nil => intro r; rfl
  | cons c rest ih => intro r; simp only [List.foldl_cons, feedByteF_none, ih]

theorem feedEvF_none (r : Run) (e : Ev) : feedEvF {} ⟨r, false, none⟩ (lift e) = ⟨feedEv r e, false, none⟩ := by
  cases e with
  | data b => simp only [lift, feedEvF, feedEv, feedBytesF_none]
  | vanish p =>
    obtain ⟨s, cmd, out, ex⟩ := r
    simp only [lift, feedEvF, feedEv]
    cases ex <;> rfl

theorem feedEvsF_none (evs : List Ev) : ∀ r : Run,
    (evs.map lift).foldl (feedEvF {}) ⟨r, false, none⟩ = ⟨evs.foldl feedEv r, false, none⟩ := by
  induction evs with
  | nil => intro r; rfl
  | cons e rest ih => intro r; simp only [List.map_cons, List.foldl_cons, feedEvF_none, ih]

theorem mainF_none (uid : Nat) (havedir : Bool) (now : Nat) (fs : FS) (evs : List Ev) :
    mainF {} uid havedir now fs (evs.map lift) = Pop3.main uid havedir now fs evs := by
  unfold mainF Pop3.main
  split
  · rfl
  · split
    · rfl
    · simp only [getlistF_none]
      rw [feedEvsF_none]

theorem nodup_fn_inj : ∀ (msgs : List Msg), (msgs.map (·.fn)).Nodup → ∀ x y, x ∈ msgs → y ∈ msgs → x.fn = y.fn → x = y := by
  intro msgs
  induction msgs with
  | nil => intro _ x y hx; simp at hx
  | cons a rest ih =>
    intro hu x y hx hy he
    simp only [List.map_cons, List.nodup_cons, List.mem_map, not_exists, not_and] at hu
    rcases List.mem_cons.mp hx with rfl | hx' <;> rcases List.mem_cons.mp hy with rfl | hy'
    · rfl
    · exact absurd he.symm (hu.1 y hy')
    · exact absurd he (hu.1 x hx')
    · exact ih hu.2 x y hx' hy' he

/-! ### no command but QUIT touches the maildir, whatever fails -/

theorem execF_fs (F : Faults) (s : Sess) (ao : Bool) (ar : Option Nat) (verb arg : Bytes)
    (hq : verbIs vQuit verb = false) : (execF F s ao ar verb arg).1.1.fs = s.fs := by
  unfold execF
  simp only [hq, Bool.false_eq_true, if_false]
  split
  · cases msgno s arg with
    | err r => rfl
    | ok i =>
      simp only
      cases s.msgs[i]? with
      | none => rfl
      | some m =>
        simp only
        split
        · rfl
        · cases fsFind s.fs m.fn with
          | none => rfl
          | some f => cases ar <;> rfl
  · exact (exec_nonquit s verb arg hq).1

end Nq.Lemmas.Pop3F
