/-
  Lemmas about qmail-clean with read/write faults (`Nq.CleanIO`): shape of `respond`, the trace with
  faults is the fault-free trace cut at the first failing write, the cut oracle.
-/
import Nq.Spec.CleanIOSpec
import Nq.Lemmas.CleanL

namespace Nq.Lemmas.CleanIOL
open Nq Nq.Clean Nq.CleanIO Nq.Spec.TB Nq.Lemmas.CleanL

/-! ### reads -/

theorem arrived_append (r1 r2 : List Rd) :
    arrived (r1 ++ r2) = arrived r1 ∨ arrived (r1 ++ r2) = arrived r1 ++ arrived r2 := by
  induction r1 with
  | nil => right; rfl
  | cons x r ih =>
    cases x with
    | data bs =>
      by_cases hb : bs = []
      · left; simp [arrived, hb]
      · rcases ih with h | h
        · left; simp [arrived, hb, h]
        · right; simp [arrived, hb, h]
    | eintr => simpa [arrived] using ih
    | err => left; simp [arrived]

theorem arrived_err (r1 r2 : List Rd) : arrived (r1 ++ .err :: r2) = arrived r1 := by
  induction r1 with
  | nil => rfl
  | cons x r ih =>
    cases x with
    | data bs => by_cases hb : bs = [] <;> simp [arrived, hb, ih]
    | eintr => simpa [arrived] using ih
    | err => simp [arrived]

theorem arrived_eof (r1 r2 : List Rd) : arrived (r1 ++ .data [] :: r2) = arrived r1 := by
  induction r1 with
  | nil => rfl
  | cons x r ih =>
    cases x with
    | data bs => by_cases hb : bs = [] <;> simp [arrived, hb, ih]
    | eintr => simpa [arrived] using ih
    | err => simp [arrived]

theorem arrived_eintr (r1 r2 : List Rd) : arrived (r1 ++ .eintr :: r2) = arrived (r1 ++ r2) := by
  induction r1 with
  | nil => rfl
  | cons x r ih =>
    cases x with
    | data bs => by_cases hb : bs = [] <;> simp [arrived, hb, ih]
    | eintr => simpa [arrived] using ih
    | err => simp [arrived]

theorem arrived_chunk (r1 r2 : List Rd) (a b : Bytes) (ha : a ≠ []) (hb : b ≠ []) :
    arrived (r1 ++ .data (a ++ b) :: r2) = arrived (r1 ++ .data a :: .data b :: r2) := by
  induction r1 with
  | nil => simp [arrived, ha, hb]
  | cons x r ih =>
    cases x with
    | data bs => by_cases hbs : bs = [] <;> simp [arrived, hbs, ih]
    | eintr => simpa [arrived] using ih
    | err => simp [arrived]

/-- an unterminated tail adds no request -/
theorem splitReqs_tail (cur s tail : Bytes) (h : ∀ c ∈ tail, c ≠ 0) :
    splitReqs cur (s ++ tail) = splitReqs cur s := by
  induction s generalizing cur with
  | nil =>
    induction tail generalizing cur with
    | nil => rfl
    | cons c t ih =>
      have hc : c ≠ 0 := h c (by simp)
      simp only [List.nil_append, splitReqs, hc, if_false] at ih ⊢
      exact ih (fun d hd => h d (by simp [hd])) _
  | cons c s ih =>
    simp only [List.cons_append, splitReqs]
    split
    · rw [ih]
    · rw [ih]

/-! ### `respond` -/

theorem resp_shape (b : Byte) (w : List Nat) :
    ∃ n, (respAlive b w = true ∧ respT b w = List.replicate n (.wintr b) ++ [.ev (.status b)]) ∨
         (respAlive b w = false ∧ respT b w = List.replicate n (.wintr b) ++ [.wfail b]) := by
  induction w with
  | nil => exact ⟨0, .inl ⟨rfl, rfl⟩⟩
  | cons r w ih =>
    by_cases h0 : r = 0
    · exact ⟨0, .inl ⟨by simp [respAlive, h0], by simp [respT, h0]⟩⟩
    · by_cases h1 : r = 1
      · obtain ⟨n, h⟩ := ih
        refine ⟨n + 1, ?_⟩
        rcases h with ⟨a, t⟩ | ⟨a, t⟩
        · left; exact ⟨by simp [respAlive, h1, a], by simp [respT, h1, t, List.replicate_succ]⟩
        · right; exact ⟨by simp [respAlive, h1, a], by simp [respT, h1, t, List.replicate_succ]⟩
      · exact ⟨0, .inr ⟨by simp [respAlive, h0, h1], by simp [respT, h0, h1]⟩⟩

theorem erase_append (a b : List IOEv) : erase (a ++ b) = erase a ++ erase b := by
  induction a with
  | nil => rfl
  | cons x a ih => cases x <;> simp [erase, ih]

theorem erase_wintrs (n : Nat) (b : Byte) : erase (List.replicate n (.wintr b)) = [] := by
  induction n with
  | zero => rfl
  | succ n ih => simp [List.replicate_succ, erase, ih]

theorem attempts_wintrs (n : Nat) (b : Byte) (x : IOEv) (rest : List IOEv) (hx : headAnswers b (x :: rest) = true) :
    attemptsOK (List.replicate n (.wintr b) ++ x :: rest) = attemptsOK (x :: rest) := by
  induction n with
  | zero => rfl
  | succ n ih =>
    rw [List.replicate_succ, List.cons_append, attemptsOK, ih]
    cases n with
    | zero => simp [hx]
    | succ m => simp [List.replicate_succ, headAnswers]

theorem mem_wintrs (n : Nat) (b c : Byte) : IOEv.wfail c ∉ List.replicate n (IOEv.wintr b) := by
  intro h; have := List.eq_of_mem_replicate h; cases this

/-! ### the trace with faults -/

theorem emit_attempts (evs : List Ev) (w : List Nat) : attemptsOK (emitT evs w) = true := by
  induction evs generalizing w with
  | nil => rfl
  | cons e r ih =>
    cases e with
    | unlink p => simpa [emitT, attemptsOK] using ih w
    | cleanup => simpa [emitT, attemptsOK] using ih w
    | cleanupEnd => simpa [emitT, attemptsOK] using ih w
    | status b =>
      obtain ⟨n, ⟨a, t⟩ | ⟨a, t⟩⟩ := resp_shape b w
      · simp only [emitT, a, if_true, t, List.append_assoc, List.singleton_append]
        rw [attempts_wintrs _ _ _ _ (by simp [headAnswers])]
        simpa [attemptsOK] using ih _
      · simp only [emitT, a, t, Bool.false_eq_true, if_false]
        rw [attempts_wintrs _ _ _ _ (by simp [headAnswers])]
        simp [attemptsOK]

theorem emit_alive (evs : List Ev) (w : List Nat) (h : emitAlive evs w = true) :
    erase (emitT evs w) = evs ∧ ∀ c, IOEv.wfail c ∉ emitT evs w := by
  induction evs generalizing w with
  | nil => exact ⟨rfl, by simp [emitT]⟩
  | cons e r ih =>
    cases e with
    | unlink p => simp only [emitAlive] at h; simpa [emitT, erase] using ih w h
    | cleanup => simp only [emitAlive] at h; simpa [emitT, erase] using ih w h
    | cleanupEnd => simp only [emitAlive] at h; simpa [emitT, erase] using ih w h
    | status b =>
      obtain ⟨n, ⟨a, t⟩ | ⟨a, t⟩⟩ := resp_shape b w
      · simp only [emitAlive, a, if_true] at h
        obtain ⟨h1, h2⟩ := ih _ h
        simp only [emitT, a, if_true, t]
        refine ⟨by simp [erase_append, erase_wintrs, erase, h1], ?_⟩
        intro c hc
        simp only [List.mem_append, List.mem_singleton] at hc
        rcases hc with (hc | hc) | hc
        · exact mem_wintrs _ _ _ hc
        · cases hc
        · exact h2 c hc
      · simp [emitAlive, a] at h

theorem emit_dead (evs : List Ev) (w : List Nat) (h : emitAlive evs w = false) :
    ∃ pre b post tr, evs = pre ++ Ev.status b :: post ∧ emitT evs w = tr ++ [IOEv.wfail b] ∧ erase tr = pre := by
  induction evs generalizing w with
  | nil => simp [emitAlive] at h
  | cons e r ih =>
    cases e with
    | unlink p =>
      simp only [emitAlive] at h
      obtain ⟨pre, b, post, tr, h1, h2, h3⟩ := ih w h
      exact ⟨Ev.unlink p :: pre, b, post, IOEv.ev (.unlink p) :: tr, by simp [h1], by simp [emitT, h2], by simp [erase, h3]⟩
    | cleanup =>
      simp only [emitAlive] at h
      obtain ⟨pre, b, post, tr, h1, h2, h3⟩ := ih w h
      exact ⟨Ev.cleanup :: pre, b, post, IOEv.ev .cleanup :: tr, by simp [h1], by simp [emitT, h2], by simp [erase, h3]⟩
    | cleanupEnd =>
      simp only [emitAlive] at h
      obtain ⟨pre, b, post, tr, h1, h2, h3⟩ := ih w h
      exact ⟨Ev.cleanupEnd :: pre, b, post, IOEv.ev .cleanupEnd :: tr, by simp [h1], by simp [emitT, h2], by simp [erase, h3]⟩
    | status b =>
      obtain ⟨n, ⟨a, t⟩ | ⟨a, t⟩⟩ := resp_shape b w
      · simp only [emitAlive, a, if_true] at h
        obtain ⟨pre, c, post, tr, h1, h2, h3⟩ := ih _ h
        refine ⟨Ev.status b :: pre, c, post, List.replicate n (.wintr b) ++ [.ev (.status b)] ++ tr, by simp [h1], ?_, ?_⟩
        · simp [emitT, a, t, h2]
        · simp [erase_append, erase_wintrs, erase, h3]
      · exact ⟨[], b, r, List.replicate n (.wintr b), by simp, by simp [emitT, a, t], erase_wintrs n b⟩

/-! ### the cut oracle -/

theorem statuses_housekeeping (cl : Nat) (scans : List Scan) : statuses (housekeeping cl scans) = [] := by
  unfold housekeeping
  split
  · exact statuses_cleanuppid _
  · rfl

theorem split_first_status (A T pre post : List Ev) (s b : Byte) (hA : statuses A = [])
    (h : A ++ Ev.status s :: T = pre ++ Ev.status b :: post) :
    (pre = A ∧ b = s ∧ post = T) ∨ ∃ pre', pre = A ++ Ev.status s :: pre' ∧ T = pre' ++ Ev.status b :: post := by
  induction A generalizing pre with
  | nil =>
    cases pre with
    | nil =>
      simp only [List.nil_append, List.cons.injEq, Ev.status.injEq] at h
      exact .inl ⟨rfl, h.1.symm, h.2.symm⟩
    | cons x pre' =>
      simp only [List.nil_append, List.cons_append, List.cons.injEq] at h
      exact .inr ⟨pre', by simp [h.1], h.2⟩
  | cons a A ih =>
    cases pre with
    | nil =>
      simp only [List.nil_append, List.cons_append, List.cons.injEq] at h
      rw [h.1] at hA; simp [statuses] at hA
    | cons x pre' =>
      simp only [List.cons_append, List.cons.injEq] at h
      obtain ⟨hax, h⟩ := h
      have hA' : statuses A = [] := by
        cases a <;> simp [statuses] at hA ⊢ <;> exact hA
      rcases ih pre' hA' h with ⟨h1, h2, h3⟩ | ⟨p, h1, h2⟩
      · exact .inl ⟨by rw [h1, hax], h2, h3⟩
      · exact .inr ⟨p, by rw [h1, hax]; rfl, h2⟩

theorem cleanCut_runReqs (reqs : List Bytes) (cl : Nat) (plan : List Nat) (scans : List Scan)
    (pre post : List Ev) (b : Byte) (h : runReqs cl reqs plan scans = pre ++ Ev.status b :: post) :
    cleanCut reqs scans (pre ++ [Ev.status b]) = true := by
  induction reqs generalizing cl plan scans pre with
  | nil =>
    unfold runReqs at h
    have := congrArg statuses h
    rw [statuses_housekeeping, statuses_append] at this
    simp [statuses] at this
  | cons q qs ih =>
    obtain ⟨ps, s, h1, h2, h3, _⟩ := handleReq_shape q plan
    unfold runReqs at h
    rw [h1] at h
    have hA : statuses (housekeeping cl scans ++ ps.map Ev.unlink) = [] := by
      rw [statuses_append, statuses_housekeeping, statuses_unlinks]; rfl
    have h' : (housekeeping cl scans ++ ps.map Ev.unlink) ++
        Ev.status s :: runReqs (nextLoop cl) qs (handleReq q plan).2 (nextScans cl scans) = pre ++ Ev.status b :: post := by
      simpa [List.append_assoc] using h
    have hne : ∀ (X : List Ev) r, ps.map Ev.unlink ++ [Ev.status s] ++ X ≠ Ev.cleanup :: r := by
      intro X r hr; cases ps <;> simp at hr
    have hcond : (ps.all (fun p => (allowed q).contains p) && (s != stX || ps.isEmpty)) = true := by
      simp only [Bool.and_eq_true, List.all_eq_true]
      refine ⟨fun p hp => by simpa using h2 p hp, ?_⟩
      by_cases hs : s = stX
      · simp [h3 hs]
      · simp [hs]
    rcases split_first_status _ _ _ _ _ _ hA h' with ⟨hp, hb, _⟩ | ⟨pre', hp, hT⟩
    · subst hp; subst hb
      have e : (housekeeping cl scans ++ ps.map Ev.unlink) ++ [Ev.status b] =
          housekeeping cl scans ++ (ps.map Ev.unlink ++ [Ev.status b] ++ []) := by simp
      unfold cleanCut
      rw [e, takeScan_housekeeping _ _ _ (hne [])]
      simp only []
      rw [takeGroup_shape]
      simp only [hcond, List.isEmpty_nil, if_true, Bool.and_self]
    · have e : pre ++ [Ev.status b] =
          housekeeping cl scans ++ (ps.map Ev.unlink ++ [Ev.status s] ++ (pre' ++ [Ev.status b])) := by
        rw [hp]; simp
      unfold cleanCut
      rw [e, takeScan_housekeeping _ _ _ (hne _)]
      simp only []
      rw [takeGroup_shape]
      have hne2 : (pre' ++ [Ev.status b]).isEmpty = false := by cases pre' <;> rfl
      simp only [hcond, hne2, Bool.true_and]
      exact ih _ _ _ _ hT

/-- the oracle holds for every run of the model -/
theorem run_cleanIOOK (rds : List Rd) (plan : List Nat) (scans : List Scan) (wplan : List Nat) :
    cleanIOOK (splitReqs [] (arrived rds)) scans (runT rds plan scans wplan) (runCode rds plan scans wplan) = true := by
  unfold cleanIOOK runT runCode
  rw [emit_attempts, Bool.true_and]
  cases ha : emitAlive (Clean.run (arrived rds) plan scans) wplan with
  | true =>
    obtain ⟨h1, h2⟩ := emit_alive _ _ ha
    have hc : cleanOK (splitReqs [] (arrived rds)) scans (Clean.run (arrived rds) plan scans) = true :=
      cleanOK_runReqs _ _ _ _
    cases hl : (emitT (Clean.run (arrived rds) plan scans) wplan).getLast? with
    | none => simp [h1, hc]
    | some x =>
      have hm := List.mem_of_getLast? hl
      cases x with
      | ev e => simp [h1, hc]
      | wintr c => simp [h1, hc]
      | wfail c => exact absurd hm (h2 c)
  | false =>
    obtain ⟨pre, b, post, tr, h1, h2, h3⟩ := emit_dead _ _ ha
    rw [h2]
    simp only [List.getLast?_append, List.getLast?_singleton, Option.some_or, erase_append, erase, List.append_nil, h3]
    simp only [Bool.false_eq_true, if_false, beq_self_eq_true, Bool.true_and]
    exact cleanCut_runReqs _ _ _ _ _ _ _ h1

end Nq.Lemmas.CleanIOL
