/-
  Lemmas about Nq.SchedFail (messdone / pqdone, cut passes, pqfinish with failing utimes): the invariants of
  Nq.Lemmas.SchedHist (WF, Tracked, Owed) over the larger event set.  Core Lean only.
-/
import Nq.SchedFail
import Nq.Lemmas.SchedHist

namespace Nq.Lemmas.SchedFail
open Nq Nq.Sched Nq.SchedHist Nq.SchedFail Nq.Spec.SchedHist Nq.Lemmas.Sched Nq.Lemmas.SchedHist

/-! ### pqdone replaced -/

def setDone (s : HSt) (d : PQ) : HSt := { s with done := d }

@[simp] theorem setDone_q (s : HSt) (d : PQ) (c : Chan) : (setDone s d).q c = s.q c := by cases c <;> rfl
@[simp] theorem setDone_find (s : HSt) (d : PQ) (i : Nat) : (setDone s d).find i = s.find i := rfl
@[simp] theorem setDone_msgs (s : HSt) (d : PQ) : (setDone s d).msgs = s.msgs := rfl
@[simp] theorem setDone_done (s : HSt) (d : PQ) : (setDone s d).done = d := rfl
@[simp] theorem setDone_clock (s : HSt) (d : PQ) : (setDone s d).clock = s.clock := rfl

theorem wf_setDone {s : HSt} (hwf : WF s) {d : PQ} (hd : Heap d) : WF (setDone s d) :=
  ⟨fun c => by rw [setDone_q]; exact hwf.heap c, hd, hwf.nodupMsgs, fun c => by rw [setDone_q]; exact hwf.nodupQ c,
   fun c e he => by rw [setDone_q] at he; exact hwf.hasFile c e he⟩

theorem failDone_eq (s : HSt) (id : Nat) : failDone s id = setDone s (s.done.insert { dt := s.clock + SLEEP_SYSFAIL, id := id }) := rfl

/-! ### a message removed from the disk -/

theorem findL_filter_ne (l : List Msg) (id j : Nat) (h : j ≠ id) :
    (l.filter fun m => m.id != id).find? (·.id == j) = l.find? (·.id == j) := by
  induction l with
  | nil => rfl
  | cons x r ih =>
    by_cases hx : x.id = id
    · have h1 : (x.id != id) = false := by simp [hx]
      have h2 : (x.id == j) = false := by simp [hx]; exact fun h' => h h'.symm
      rw [List.filter_cons_of_neg (by simp [h1]), List.find?_cons, h2]; exact ih
    · have h1 : (x.id != id) = true := by simp [hx]
      rw [List.filter_cons_of_pos (by simp [h1]), List.find?_cons, List.find?_cons, ih]

theorem findL_filter_self (l : List Msg) (id : Nat) : (l.filter fun m => m.id != id).find? (·.id == id) = none := by
  rw [List.find?_eq_none]
  intro x hx
  have := (List.mem_filter.mp hx).2
  simpa using this

theorem find_removeMsg (s : HSt) (id j : Nat) (h : j ≠ id) : (removeMsg s id).find j = s.find j :=
  findL_filter_ne s.msgs id j h

theorem find_removeMsg_self (s : HSt) (id : Nat) : (removeMsg s id).find id = none := findL_filter_self s.msgs id

@[simp] theorem removeMsg_q (s : HSt) (id : Nat) (c : Chan) : (removeMsg s id).q c = s.q c := by cases c <;> rfl
@[simp] theorem removeMsg_done (s : HSt) (id : Nat) : (removeMsg s id).done = s.done := rfl

theorem chanStat_noent {s : HSt} {id : Nat} {c : Chan} (h : chanStat s id c = .noent) {m : Msg} (hm : s.find id = some m) :
    m.recs c = none := by
  unfold chanStat at h; rw [hm] at h; unfold statOf at h
  cases hr : m.recs c with
  | none => rfl
  | some x => simp only [hr] at h; cases h

theorem chanStat_found {s : HSt} {id : Nat} {c : Chan} {t : Int} (h : chanStat s id c = .found t) :
    ∃ m, s.find id = some m ∧ (m.recs c).isSome = true := by
  unfold chanStat at h
  cases hm : s.find id with
  | none => rw [hm] at h; cases h
  | some m =>
    rw [hm] at h; unfold statOf at h
    cases hr : m.recs c with
    | none => simp only [hr] at h; cases h
    | some x => exact ⟨m, rfl, by rw [hr]; rfl⟩

theorem wf_removeMsg {s : HSt} (hwf : WF s) (id : Nat) (h0 : chanStat s id .loc = .noent) (h1 : chanStat s id .rem = .noent) :
    WF (removeMsg s id) := by
  refine ⟨fun c => by rw [removeMsg_q]; exact hwf.heap c, hwf.heapDone, ?_, fun c => by rw [removeMsg_q]; exact hwf.nodupQ c, ?_⟩
  · exact List.Sublist.nodup (List.Sublist.map _ List.filter_sublist) hwf.nodupMsgs
  · intro c e he
    rw [removeMsg_q] at he
    obtain ⟨m, hm, hr⟩ := hwf.hasFile c e he
    have hne : e.id ≠ id := by
      intro h; rw [h] at hm
      have : m.recs c = none := by cases c; exact chanStat_noent h0 hm; exact chanStat_noent h1 hm
      rw [this] at hr; cases hr
    exact ⟨m, by rw [find_removeMsg s id e.id hne]; exact hm, hr⟩

/-! ### messdone -/

theorem messdone_cases (s : HSt) (id : Nat) (f : MdFault) :
    (messdone s id f = s ∧ ((∃ t, chanStat s id .loc = .found t) ∨ (∃ t, chanStat s id .rem = .found t) ∨ s.find id = none)) ∨
    messdone s id f = failDone s id ∨
    (messdone s id f = removeMsg s id ∧ f = .none ∧ chanStat s id .loc = .noent ∧ chanStat s id .rem = .noent ∧
      ∃ m, s.find id = some m) := by
  cases h0 : chanStat s id .loc <;> cases h1 : chanStat s id .rem <;> cases hm : s.find id <;> cases f <;>
    simp [messdone, h0, h1, hm]

theorem wf_messdone {s : HSt} (hwf : WF s) (id : Nat) (f : MdFault) : WF (messdone s id f) := by
  rcases messdone_cases s id f with ⟨h, _⟩ | h | ⟨h, _, h0, h1, _⟩
  · rw [h]; exact hwf
  · rw [h, failDone_eq]; exact wf_setDone hwf (insert_spec _ _ hwf.heapDone).1
  · rw [h]; exact wf_removeMsg hwf id h0 h1

theorem doneSt_none {s : HSt} (f : MdFault) (hp : passStart s.clock true s.done = none) : doneSt s f = s := by
  unfold doneSt; rw [hp]

theorem doneSt_some {s : HSt} (f : MdFault) {pe : Elt} {d' : PQ} (hp : passStart s.clock true s.done = some (pe, d')) :
    doneSt s f = messdone (setDone s d') pe.id f := by
  unfold doneSt; rw [hp]; rfl

theorem wf_doneSt {s : HSt} (hwf : WF s) (f : MdFault) : WF (doneSt s f) := by
  cases hp : passStart s.clock true s.done with
  | none => rw [doneSt_none f hp]; exact hwf
  | some r =>
    obtain ⟨pe, d'⟩ := r
    rw [doneSt_some f hp]
    obtain ⟨_, _, _, _, hh⟩ := passStart_spec s.clock true s.done d' pe hwf.heapDone hp
    exact wf_messdone (wf_setDone hwf hh) pe.id f

/-- `Tracked`, except that message `id` need not be in pqdone (it has just been taken out of it) -/
def TrackedBut (id : Nat) (s : HSt) : Prop :=
  ∀ m ∈ s.msgs, (∀ c, (m.recs c).isSome = true → m.id ∈ ids (s.q c)) ∧
    (m.id ≠ id → m.recs0 = none → m.recs1 = none → m.id ∈ ids s.done)

theorem tracked_messdone {s : HSt} (hwf : WF s) {id : Nat} (ht : TrackedBut id s) (f : MdFault) : Tracked (messdone s id f) := by
  rcases messdone_cases s id f with ⟨h, hwhy⟩ | h | ⟨h, _, h0, h1, _⟩
  · rw [h]
    intro m hm
    obtain ⟨t1, t2⟩ := ht m hm
    refine ⟨t1, fun n0 n1 => ?_⟩
    by_cases hid : m.id = id
    · have hfm : s.find id = some m := hid ▸ find_of_mem hwf.nodupMsgs hm
      exfalso
      rcases hwhy with ⟨t, hs⟩ | ⟨t, hs⟩ | hn
      · obtain ⟨m2, hm2, hr2⟩ := chanStat_found hs
        rw [hfm] at hm2; cases hm2
        have : m.recs .loc = none := n0
        rw [this] at hr2; cases hr2
      · obtain ⟨m2, hm2, hr2⟩ := chanStat_found hs
        rw [hfm] at hm2; cases hm2
        have : m.recs .rem = none := n1
        rw [this] at hr2; cases hr2
      · rw [hfm] at hn; cases hn
    · exact t2 hid n0 n1
  · rw [h, failDone_eq]
    intro m hm
    obtain ⟨t1, t2⟩ := ht m hm
    refine ⟨fun c hr => by rw [setDone_q]; exact t1 c hr, fun n0 n1 => ?_⟩
    rw [setDone_done]
    by_cases hid : m.id = id
    · rw [hid]; exact ((ids_insert _ _ hwf.heapDone).mem_iff).mpr (List.mem_cons_self ..)
    · exact ((ids_insert _ _ hwf.heapDone).mem_iff).mpr (List.mem_cons_of_mem _ (t2 hid n0 n1))
  · rw [h]
    intro m hm
    have hm' : m ∈ s.msgs ∧ m.id ≠ id := by
      have := List.mem_filter.mp hm
      exact ⟨this.1, by simpa using this.2⟩
    obtain ⟨t1, t2⟩ := ht m hm'.1
    exact ⟨fun c hr => by rw [removeMsg_q]; exact t1 c hr, fun n0 n1 => by rw [removeMsg_done]; exact t2 hm'.2 n0 n1⟩

theorem tracked_doneSt {s : HSt} (hwf : WF s) (ht : Tracked s) (f : MdFault) : Tracked (doneSt s f) := by
  cases hp : passStart s.clock true s.done with
  | none => rw [doneSt_none f hp]; exact ht
  | some r =>
    obtain ⟨pe, d'⟩ := r
    rw [doneSt_some f hp]
    obtain ⟨_, _, _, hperm, hh⟩ := passStart_spec s.clock true s.done d' pe hwf.heapDone hp
    refine tracked_messdone (wf_setDone hwf hh) ?_ f
    intro m hm
    obtain ⟨t1, t2⟩ := ht m hm
    refine ⟨fun c hr => by rw [setDone_q]; exact t1 c hr, fun hne n0 n1 => ?_⟩
    rw [setDone_done]
    have hp2 : (ids s.done).Perm (pe.id :: ids d') := by
      have := hperm.map (fun e : Elt => e.id)
      simpa [ids] using this
    rcases List.mem_cons.mp ((hp2.mem_iff).mp (t2 n0 n1)) with h | h
    · exact absurd h hne
    · exact h

theorem owed_messdone {s : HSt} {i : Nat} {c : Chan} {b r : Int} (ho : Owed i c b r s) (id : Nat) (f : MdFault) :
    Owed i c b r (messdone s id f) := by
  rcases messdone_cases s id f with ⟨h, _⟩ | h | ⟨h, _⟩
  · rw [h]; exact ho
  · rw [h, failDone_eq]; intro m hm; rw [setDone_find] at hm; rw [setDone_q]; exact ho m hm
  · rw [h]
    intro m hm
    by_cases hi : i = id
    · rw [hi, find_removeMsg_self] at hm; cases hm
    · rw [find_removeMsg s id i hi] at hm; rw [removeMsg_q]; exact ho m hm

theorem owed_doneSt {s : HSt} {i : Nat} {c : Chan} {b r : Int} (ho : Owed i c b r s) (f : MdFault) :
    Owed i c b r (doneSt s f) := by
  cases hp : passStart s.clock true s.done with
  | none => rw [doneSt_none f hp]; exact ho
  | some rr =>
    obtain ⟨pe, d'⟩ := rr
    rw [doneSt_some f hp]
    refine owed_messdone ?_ pe.id f
    intro m hm; rw [setDone_find] at hm; rw [setDone_q]; exact ho m hm

/-- a message disappears from the disk only through `messdone` without any failure, when it has no channel file left -/
theorem doneSt_gone {s : HSt} (f : MdFault) (m : Msg) (hm : s.find m.id = some m) (hg : (doneSt s f).find m.id = none) :
    f = .none ∧ m.recs0 = none ∧ m.recs1 = none ∧ ∃ e ∈ s.done.toList, e.id = m.id ∧ e.dt ≤ s.clock := by
  cases hp : passStart s.clock true s.done with
  | none => rw [doneSt_none f hp, hm] at hg; cases hg
  | some r =>
    obtain ⟨pe, d'⟩ := r
    rw [doneSt_some f hp] at hg
    rcases messdone_cases (setDone s d') pe.id f with ⟨h, _⟩ | h | ⟨h, hf, h0, h1, _⟩
    · rw [h, setDone_find, hm] at hg; cases hg
    · rw [h, failDone_eq, setDone_find, setDone_find, hm] at hg; cases hg
    · rw [h] at hg
      by_cases hi : m.id = pe.id
      · have hm' : (setDone s d').find pe.id = some m := by rw [setDone_find, ← hi]; exact hm
        refine ⟨hf, chanStat_noent h0 hm', chanStat_noent h1 hm', pe, ?_, hi.symm, ?_⟩
        · unfold passStart at hp
          simp only [Bool.not_true, Bool.false_eq_true, if_false] at hp
          cases hmin : s.done.min with
          | none => rw [hmin] at hp; cases hp
          | some x =>
            rw [hmin] at hp
            by_cases hd : x.dt > s.clock
            · simp [hd] at hp
            · simp only [hd, if_false] at hp
              have : x = pe := by cases hp; rfl
              subst this
              unfold PQ.min at hmin
              exact Array.mem_toList_iff.mpr (Array.mem_of_getElem? hmin)
        · unfold passStart at hp
          simp only [Bool.not_true, Bool.false_eq_true, if_false] at hp
          cases hmin : s.done.min with
          | none => rw [hmin] at hp; cases hp
          | some x =>
            rw [hmin] at hp
            by_cases hd : x.dt > s.clock
            · simp [hd] at hp
            · simp only [hd, if_false] at hp
              have : x = pe := by cases hp; rfl
              subst this; omega
      · rw [find_removeMsg _ _ _ hi, setDone_find, hm] at hg; cases hg

/-! ### a pass that re-inserts the started message: the generic shape -/

section reinsert
variable {s : HSt} {c : Chan} {pe : Elt} {q' : PQ} {m : Msg} {recs : List Bool}

theorem wf_reSt (hwf : WF s) (hp : passStart s.clock true (s.q c) = some (pe, q')) (hm : s.find pe.id = some m)
    (x : Int) (m' : Msg) (hid : m'.id = m.id) (hrc : (m'.recs c).isSome = true) (hro : m'.recs (other c) = m.recs (other c)) :
    WF ((mkSt s c (q'.insert { dt := x, id := pe.id }) s.done).update m') := by
  obtain ⟨_, _, hperm, hh', _, hnot, hnd, m0, recs0, hm0, hr0⟩ := start_facts hwf hp
  rw [hm] at hm0; cases hm0
  have hmid : m.id = pe.id := (find_some hm).2
  have hfile' : ∀ e ∈ q'.toList, ∃ m, s.find e.id = some m ∧ (m.recs c).isSome = true := fun e he =>
    hwf.hasFile c e ((hperm.mem_iff).mpr (List.mem_cons_of_mem _ he))
  have hwf1 : WF (mkSt s c (q'.insert { dt := x, id := pe.id }) s.done) := by
    refine wf_mkSt hwf c _ _ (insert_spec q' _ hh').1 hwf.heapDone
      (((ids_insert q' _ hh').nodup_iff).mpr (List.nodup_cons.mpr ⟨hnot, hnd⟩)) ?_
    intro e he
    rcases (mem_insert q' _ e hh').mp he with he | he
    · subst he; exact ⟨m, hm, by rw [hr0]; rfl⟩
    · exact hfile' e he
  refine wf_update hwf1 m m' (by rw [hid, mkSt_find, hmid]; exact hm) ?_
  intro c' hin
  by_cases hcc : c' = c
  · subst hcc; exact hrc
  · rw [mkSt_q_other _ _ _ _ _ hcc, hid, hmid] at hin
    rw [eq_other_of_ne hcc, hro, ← eq_other_of_ne hcc]
    obtain ⟨e, he, hie⟩ := List.mem_map.mp hin
    obtain ⟨m2, hm2, hr2⟩ := hwf.hasFile c' e he
    rw [hie, hm] at hm2; cases hm2; exact hr2

theorem tracked_reSt (hwf : WF s) (ht : Tracked s) (hp : passStart s.clock true (s.q c) = some (pe, q'))
    (hm : s.find pe.id = some m) (x : Int) (m' : Msg) (hid : m'.id = m.id) (hrc : (m'.recs c).isSome = true)
    (hro : m'.recs (other c) = m.recs (other c)) :
    Tracked ((mkSt s c (q'.insert { dt := x, id := pe.id }) s.done).update m') := by
  obtain ⟨_, _, hperm, hh', _, _, _, _⟩ := start_facts hwf hp
  have hmid : m.id = pe.id := (find_some hm).2
  have hidsperm : (ids (s.q c)).Perm (pe.id :: ids q') := by
    have := hperm.map (fun e : Elt => e.id)
    simpa [ids] using this
  have hins : ∀ i, i ∈ ids (s.q c) → i ∈ ids (q'.insert { dt := x, id := pe.id }) := by
    intro i hi
    exact ((ids_insert q' _ hh').mem_iff).mpr ((hidsperm.mem_iff).mp hi)
  intro y hy
  rcases update_msgs_mem' _ _ _ hy with hy | ⟨hy, _⟩
  · subst hy
    obtain ⟨t1, _⟩ := ht m (find_some hm).1
    refine ⟨fun c' hr' => ?_, fun n0 n1 => ?_⟩
    · rw [update_q]
      by_cases hc : c' = c
      · subst hc; rw [mkSt_q_same, hid, hmid]
        exact ((ids_insert q' _ hh').mem_iff).mpr (List.mem_cons_self ..)
      · rw [mkSt_q_other _ _ _ _ _ hc, hid]
        rw [eq_other_of_ne hc, hro, ← eq_other_of_ne hc] at hr'
        exact t1 c' hr'
    · exfalso
      obtain ⟨k0, _⟩ := isNone_of_two _ c n0 n1
      rw [k0] at hrc; cases hrc
  · rw [mkSt_msgs] at hy
    obtain ⟨t1, t2⟩ := ht y hy
    refine ⟨fun c' hr' => ?_, fun n0 n1 => by rw [update_done, mkSt_done]; exact t2 n0 n1⟩
    rw [update_q]
    by_cases hc : c' = c
    · subst hc; rw [mkSt_q_same]; exact hins _ (t1 c' hr')
    · rw [mkSt_q_other _ _ _ _ _ hc]; exact t1 c' hr'

theorem owed_reSt (hwf : WF s) {i : Nat} {c0 : Chan} {b r : Int} (ho : Owed i c0 b r s)
    (hp : passStart s.clock true (s.q c) = some (pe, q')) (hm : s.find pe.id = some m)
    (x : Int) (hx : pe.id = i → c = c0 → r ≤ s.clock → r ≤ x) (m' : Msg) (hid : m'.id = m.id) (hb : m'.birth = m.birth)
    (hro : m'.recs (other c) = m.recs (other c)) :
    Owed i c0 b r ((mkSt s c (q'.insert { dt := x, id := pe.id }) s.done).update m') := by
  obtain ⟨hdue, _, hperm, hh', hmem, _, _, _⟩ := start_facts hwf hp
  have hmid : m.id = pe.id := (find_some hm).2
  have hsurv : ∀ e ∈ (s.q c).toList, e.id ≠ pe.id → e ∈ q'.toList := by
    intro e he hne
    rcases List.mem_cons.mp ((hperm.mem_iff).mp he) with h | h
    · subst h; exact absurd rfl hne
    · exact h
  intro m1 hm1
  by_cases hpi : pe.id = i
  · have hm1' : m1 = m' := by
      have := find_update_self (mkSt s c (q'.insert { dt := x, id := pe.id }) s.done) m' m
        (by rw [hid, mkSt_find, hmid]; exact hm)
      rw [hid, hmid] at this
      rw [← hpi, this] at hm1; exact (Option.some.inj hm1).symm
    obtain ⟨hb0, h2⟩ := ho m (hpi ▸ hm)
    subst hm1'
    refine ⟨hb.trans hb0, fun hfile => ?_⟩
    rw [update_q]
    by_cases hc : c0 = c
    · subst hc
      rw [mkSt_q_same]
      refine ⟨_, (mem_insert q' _ _ hh').mpr (Or.inl rfl), hpi, ?_⟩
      show r ≤ x
      refine hx hpi rfl ?_
      cases hrm : m.recs c0 with
      | none =>
        obtain ⟨_, _, _, _, _, _, _, m0, recs0, hm0, hr0⟩ := start_facts hwf hp
        rw [hm] at hm0; cases hm0; rw [hrm] at hr0; cases hr0
      | some rr =>
        obtain ⟨e, he, hei, hre⟩ := h2 (by rw [hrm]; rfl)
        have : e = pe := by
          have hnd' := hwf.nodupQ c0
          unfold ids at hnd'
          exact eq_of_nodup_map (·.id) _ hnd' e he pe hmem (by rw [hei, hpi])
        subst this; omega
    · rw [mkSt_q_other _ _ _ _ _ hc]
      rw [eq_other_of_ne hc, hro, ← eq_other_of_ne hc] at hfile
      exact h2 hfile
  · rw [find_update_other _ _ _ (by rw [hid, hmid]; exact fun h => hpi h.symm), mkSt_find] at hm1
    obtain ⟨hb0, h2⟩ := ho m1 hm1
    refine ⟨hb0, fun hfile => ?_⟩
    obtain ⟨e, he, hei, hre⟩ := h2 hfile
    rw [update_q]
    by_cases hc : c0 = c
    · subst hc
      rw [mkSt_q_same]
      exact ⟨e, (mem_insert q' _ _ hh').mpr (Or.inr (hsurv e he (by rw [hei]; exact fun h => hpi h.symm))), hei, hre⟩
    · rw [mkSt_q_other _ _ _ _ _ hc]; exact ⟨e, he, hei, hre⟩

end reinsert

/-! ### the cut pass -/

theorem cutMsg_id (m : Msg) (c : Chan) (recs : List Bool) (k : Nat) (a : List Bool × Nat × Nat × Nat) : (cutMsg m c recs k a).id = m.id := by
  unfold cutMsg; simp
theorem cutMsg_birth (m : Msg) (c : Chan) (recs : List Bool) (k : Nat) (a : List Bool × Nat × Nat × Nat) : (cutMsg m c recs k a).birth = m.birth := by
  unfold cutMsg; simp
theorem cutMsg_recs_same (m : Msg) (c : Chan) (recs : List Bool) (k : Nat) (a : List Bool × Nat × Nat × Nat) :
    (cutMsg m c recs k a).recs c = some (a.1 ++ recs.drop k) := by
  unfold cutMsg; simp
theorem cutMsg_recs_other (m : Msg) (c : Chan) (recs : List Bool) (k : Nat) (a : List Bool × Nat × Nat × Nat) :
    (cutMsg m c recs k a).recs (other c) = m.recs (other c) := by
  unfold cutMsg; rw [setRecs_other _ _ _ _ (other_ne c)]; cases c <;> rfl

/-- the answers of the cut pass -/
def cutAnswer (s : HSt) (c : Chan) (letters : List Byte) (k : Nat) (m : Msg) (recs : List Bool) : List Bool × Nat × Nat × Nat :=
  answer (jobOpen s.clock s.lifetime m.birth c).dying letters (recs.take k) 0

theorem passCutSt_none {s : HSt} {c : Chan} (letters : List Byte) (k : Nat)
    (hp : passStart s.clock true (s.q c) = none) : passCutSt s c letters k = s := by
  unfold passCutSt; rw [hp]

theorem passCutSt_full {s : HSt} {c : Chan} {pe : Elt} {q' : PQ} (letters : List Byte) (k : Nat) {m : Msg} {recs : List Bool}
    (hp : passStart s.clock true (s.q c) = some (pe, q')) (hm : s.find pe.id = some m) (hr : m.recs c = some recs)
    (hk : recs.length ≤ k) : passCutSt s c letters k = passSt s c letters .none := by
  unfold passCutSt; rw [hp]; simp only [hm, hr, hk, if_true]

theorem passCutSt_run {s : HSt} {c : Chan} {pe : Elt} {q' : PQ} (letters : List Byte) (k : Nat) {m : Msg} {recs : List Bool}
    (hp : passStart s.clock true (s.q c) = some (pe, q')) (hm : s.find pe.id = some m) (hr : m.recs c = some recs)
    (hk : k < recs.length) :
    passCutSt s c letters k =
      (mkSt s c (q'.insert { dt := nextretry s.clock m.birth c, id := pe.id }) s.done).update
        (cutMsg m c recs k (cutAnswer s c letters k m recs)) := by
  unfold passCutSt; rw [hp]; simp only [hm, hr, Nat.not_le.mpr hk, if_false]; rfl

theorem wf_passCutSt {s : HSt} (hwf : WF s) (c : Chan) (letters : List Byte) (k : Nat) : WF (passCutSt s c letters k) := by
  cases hp : passStart s.clock true (s.q c) with
  | none => rw [passCutSt_none letters k hp]; exact hwf
  | some r =>
    obtain ⟨pe, q'⟩ := r
    obtain ⟨_, _, _, _, _, _, _, m, recs, hm, hr⟩ := start_facts hwf hp
    by_cases hk : recs.length ≤ k
    · rw [passCutSt_full letters k hp hm hr hk]; exact wf_passSt hwf c letters .none
    · rw [passCutSt_run letters k hp hm hr (Nat.lt_of_not_le hk)]
      exact wf_reSt hwf hp hm _ _ (cutMsg_id ..) (by rw [cutMsg_recs_same]; rfl) (cutMsg_recs_other ..)

theorem tracked_passCutSt {s : HSt} (hwf : WF s) (ht : Tracked s) (c : Chan) (letters : List Byte) (k : Nat) :
    Tracked (passCutSt s c letters k) := by
  cases hp : passStart s.clock true (s.q c) with
  | none => rw [passCutSt_none letters k hp]; exact ht
  | some r =>
    obtain ⟨pe, q'⟩ := r
    obtain ⟨_, _, _, _, _, _, _, m, recs, hm, hr⟩ := start_facts hwf hp
    by_cases hk : recs.length ≤ k
    · rw [passCutSt_full letters k hp hm hr hk]; exact tracked_passSt hwf ht c letters .none
    · rw [passCutSt_run letters k hp hm hr (Nat.lt_of_not_le hk)]
      exact tracked_reSt hwf ht hp hm _ _ (cutMsg_id ..) (by rw [cutMsg_recs_same]; rfl) (cutMsg_recs_other ..)

theorem owed_passCutSt {s : HSt} (hwf : WF s) {i : Nat} {c0 : Chan} {b r : Int} (ho : Owed i c0 b r s)
    (hmono : ∀ t', r ≤ t' → r ≤ nextretry t' b c0) (hsf : 0 ≤ SLEEP_SYSFAIL)
    (c : Chan) (letters : List Byte) (k : Nat) : Owed i c0 b r (passCutSt s c letters k) := by
  cases hp : passStart s.clock true (s.q c) with
  | none => rw [passCutSt_none letters k hp]; exact ho
  | some rr =>
    obtain ⟨pe, q'⟩ := rr
    obtain ⟨_, _, _, _, _, _, _, m, recs, hm, hr⟩ := start_facts hwf hp
    by_cases hk : recs.length ≤ k
    · rw [passCutSt_full letters k hp hm hr hk]; exact owed_passSt hwf ho hmono hsf c letters .none
    · rw [passCutSt_run letters k hp hm hr (Nat.lt_of_not_le hk)]
      refine owed_reSt hwf ho hp hm _ ?_ _ (cutMsg_id ..) (cutMsg_birth ..) (cutMsg_recs_other ..)
      intro hpi hc hcl
      subst hc
      have hb : m.birth = b := (ho m (hpi ▸ hm)).1
      rw [hb]; exact hmono _ hcl

/-- after a cut pass the started message is owed its back-off time, whatever was reported -/
theorem owed_init_cut {s : HSt} (hwf : WF s) {c : Chan} {pe : Elt} {q' : PQ} {m : Msg} {recs : List Bool} (letters : List Byte) (k : Nat)
    (hp : passStart s.clock true (s.q c) = some (pe, q')) (hm : s.find pe.id = some m) (hr : m.recs c = some recs)
    (hk : k < recs.length) :
    Owed pe.id c m.birth (nextretry s.clock m.birth c) (passCutSt s c letters k) := by
  obtain ⟨_, _, _, hh', _, _, _, _⟩ := start_facts hwf hp
  have hmid : m.id = pe.id := (find_some hm).2
  rw [passCutSt_run letters k hp hm hr hk]
  intro m1 hm1
  have := find_update_self (mkSt s c (q'.insert { dt := nextretry s.clock m.birth c, id := pe.id }) s.done)
    (cutMsg m c recs k (cutAnswer s c letters k m recs)) m (by rw [cutMsg_id, mkSt_find, hmid]; exact hm)
  rw [cutMsg_id, hmid] at this
  rw [this] at hm1
  have hm1' := (Option.some.inj hm1).symm
  subst hm1'
  refine ⟨cutMsg_birth .., fun _ => ?_⟩
  rw [update_q, mkSt_q_same]
  exact ⟨_, (mem_insert q' _ _ hh').mpr (Or.inl rfl), rfl, Int.le_refl _⟩

/-! ### pqfinish with failing utimes -/

theorem filter_ids_nodup {l : List Elt} (p : Elt → Bool) (h : (l.map (·.id)).Nodup) : ((l.filter p).map (·.id)).Nodup :=
  List.Sublist.nodup (List.Sublist.map _ List.filter_sublist) h

/-- the state after `pqfinish()` with `utimes` failing on `bad`: heaps empty; every record keeps id, birth and records; the mtime
of a scheduled channel file whose `utimes` succeeded is its due time; all others — not scheduled, or `utimes` failed — keep
the mtime they had -/
theorem finFSt_spec {s : HSt} (hwf : WF s) (bad : List (Chan × Nat)) :
    (finFSt s bad).q0 = #[] ∧ (finFSt s bad).q1 = #[] ∧ (finFSt s bad).done = s.done ∧ (finFSt s bad).clock = s.clock ∧
    (finFSt s bad).lifetime = s.lifetime ∧
    (finFSt s bad).msgs.map (·.id) = s.msgs.map (·.id) ∧
    ∀ i, ∃ g : Msg → Msg, (finFSt s bad).find i = (s.find i).map g ∧
      ∀ m, (g m).id = m.id ∧ (g m).birth = m.birth ∧ (∀ c, (g m).recs c = m.recs c) ∧
        (∀ c, (∀ e ∈ (s.q c).toList, e.id = i → (c, i) ∉ bad → (g m).mt c = e.dt) ∧
              ((i ∉ ids (s.q c) ∨ (c, i) ∈ bad) → (g m).mt c = m.mt c)) := by
  have hf0 := finWrite_frame .loc ((pqfinish (s.q .loc).size (s.q .loc)).filter (utOk bad .loc)) s
  generalize hs1 : finWrite .loc s ((pqfinish (s.q .loc).size (s.q .loc)).filter (utOk bad .loc)) = s1 at hf0
  have hq1 : s1.q .rem = s.q .rem := hf0.2.1
  have hf1 := finWrite_frame .rem ((pqfinish (s1.q .rem).size (s1.q .rem)).filter (utOk bad .rem)) s1
  have hdef : finFSt s bad = { (finWrite .rem s1 ((pqfinish (s1.q .rem).size (s1.q .rem)).filter (utOk bad .rem))) with q0 := #[], q1 := #[] } := by
    unfold finFSt; rw [hs1]
  generalize hs2 : finWrite .rem s1 ((pqfinish (s1.q .rem).size (s1.q .rem)).filter (utOk bad .rem)) = s2 at hf1 hdef
  rw [hdef]
  refine ⟨rfl, rfl, hf1.2.2.1.trans hf0.2.2.1, hf1.2.2.2.1.trans hf0.2.2.2.1,
    hf1.2.2.2.2.1.trans hf0.2.2.2.2.1, hf1.2.2.2.2.2.trans hf0.2.2.2.2.2, ?_⟩
  intro i
  have hp0 := pqfinish_perm (s.q .loc).size (s.q .loc) (hwf.heap .loc) (Nat.le_refl _)
  have hp1 := pqfinish_perm (s.q .rem).size (s.q .rem) (hwf.heap .rem) (Nat.le_refl _)
  have hn0 : (((pqfinish (s.q .loc).size (s.q .loc)).filter (utOk bad .loc)).map (·.id)).Nodup :=
    filter_ids_nodup _ (((hp0.map (fun e : Elt => e.id)).nodup_iff).mpr (hwf.nodupQ .loc))
  have hn1 : (((pqfinish (s.q .rem).size (s.q .rem)).filter (utOk bad .rem)).map (·.id)).Nodup :=
    filter_ids_nodup _ (((hp1.map (fun e : Elt => e.id)).nodup_iff).mpr (hwf.nodupQ .rem))
  refine ⟨fun m => mtAfter .rem ((pqfinish (s.q .rem).size (s.q .rem)).filter (utOk bad .rem)) i
    (mtAfter .loc ((pqfinish (s.q .loc).size (s.q .loc)).filter (utOk bad .loc)) i m), ?_, ?_⟩
  · show s2.find i = _
    rw [← hs2, finWrite_find, ← hs1, finWrite_find, hs1, hq1]
    cases s.find i <;> rfl
  · intro m
    dsimp only
    obtain ⟨a1, a2, a3, a4⟩ := mtAfter_frame .loc i ((pqfinish (s.q .loc).size (s.q .loc)).filter (utOk bad .loc)) m
    obtain ⟨b1, b2, b3, b4⟩ := mtAfter_frame .rem i ((pqfinish (s.q .rem).size (s.q .rem)).filter (utOk bad .rem))
      (mtAfter .loc ((pqfinish (s.q .loc).size (s.q .loc)).filter (utOk bad .loc)) i m)
    refine ⟨b1.trans a1, b2.trans a2, fun c => (b3 c).trans (a3 c), ?_⟩
    have hnot : ∀ (c : Chan) (l : List Elt), l.Perm (s.q c).toList → (i ∉ ids (s.q c) ∨ (c, i) ∈ bad) →
        i ∉ (l.filter (utOk bad c)).map (·.id) := by
      intro c l hpl hor hin
      obtain ⟨x, hx, hxi⟩ := List.mem_map.mp hin
      obtain ⟨hxl, hok⟩ := List.mem_filter.mp hx
      rcases hor with h | h
      · exact h (List.mem_map.mpr ⟨x, (hpl.mem_iff).mp hxl, hxi⟩)
      · unfold utOk at hok; rw [hxi] at hok; exact (of_decide_eq_true hok) h
    have hin : ∀ (c : Chan) (l : List Elt), l.Perm (s.q c).toList → ∀ e ∈ (s.q c).toList, e.id = i → (c, i) ∉ bad →
        e ∈ l.filter (utOk bad c) := by
      intro c l hpl e he hei hnb
      refine List.mem_filter.mpr ⟨(hpl.mem_iff).mpr he, ?_⟩
      unfold utOk; rw [hei]; exact decide_eq_true hnb
    intro c
    cases c with
    | loc =>
      refine ⟨fun e he hei hnb => ?_, fun hor => ?_⟩
      · rw [b4 .loc (by decide)]
        exact mtAfter_get .loc i _ m hn0 e (hin .loc _ hp0 e he hei hnb) hei
      · rw [b4 .loc (by decide), mtAfter_notin .loc i _ m (hnot .loc _ hp0 hor)]
    | rem =>
      refine ⟨fun e he hei hnb => ?_, fun hor => ?_⟩
      · exact mtAfter_get .rem i _ _ hn1 e (hin .rem _ hp1 e he hei hnb) hei
      · rw [mtAfter_notin .rem i _ _ (hnot .rem _ hp1 hor)]
        exact a4 .rem (by decide)

theorem wf_finFSt {s : HSt} (hwf : WF s) (bad : List (Chan × Nat)) : WF (finFSt s bad) := by
  obtain ⟨h0, h1, hd, _, _, hids, _⟩ := finFSt_spec hwf bad
  have hq : ∀ c, (finFSt s bad).q c = #[] := by intro c; cases c; exact h0; exact h1
  refine ⟨fun c => by rw [hq c]; exact heap_empty, by rw [hd]; exact hwf.heapDone, by rw [hids]; exact hwf.nodupMsgs,
    fun c => by rw [hq c]; exact List.nodup_nil, fun c e he => ?_⟩
  rw [hq c] at he; cases he

/-- TERM + restart with failing utimes: the back-off time owed to a message survives if ITS utimes did not fail -/
theorem owed_restartF {s : HSt} (hwf : WF s) {i : Nat} {c : Chan} {b r : Int} (ho : Owed i c b r s)
    (bad : List (Chan × Nat)) (hnb : (c, i) ∉ bad) : Owed i c b r (loadSt (finFSt s bad)) := by
  intro m' hm'
  rw [loadSt_find] at hm'
  obtain ⟨_, _, _, _, _, _, hfind⟩ := finFSt_spec hwf bad
  obtain ⟨g, hg, hgp⟩ := hfind i
  rw [hg] at hm'
  cases hm : s.find i with
  | none => rw [hm] at hm'; cases hm'
  | some m =>
    rw [hm] at hm'
    have hmm : m' = g m := (Option.some.inj hm').symm
    obtain ⟨g1, g2, g3, g4⟩ := hgp m
    obtain ⟨hb, h2⟩ := ho m hm
    subst hmm
    refine ⟨g2.trans hb, fun hfile => ?_⟩
    rw [g3 c] at hfile
    obtain ⟨e, he, hei, hre⟩ := h2 hfile
    have hmt := (g4 c).1 e he hei hnb
    have hmem : g m ∈ (finFSt s bad).msgs := (find_some (by rw [hg, hm]; rfl : (finFSt s bad).find i = some (g m))).1
    refine ⟨{ dt := (g m).mt c, id := (g m).id }, (mem_loadSt_q _ c _).mpr ⟨g m, hmem, by rw [g3 c]; exact hfile, rfl⟩, ?_, ?_⟩
    · show (g m).id = i
      rw [g1]; exact (find_some hm).2
    · show r ≤ (g m).mt c
      rw [hmt]; exact hre

/-- what a new process finds on channel `c` after an exit with failing utimes: exactly one entry per channel file; it carries the
heap's due time where utimes succeeded and the file's OLD mtime where it failed -/
theorem restartF_mem {s : HSt} (hwf : WF s) (ht : Tracked s) (bad : List (Chan × Nat)) (c : Chan) (e : Elt) :
    e ∈ ((loadSt (finFSt s bad)).q c).toList ↔
      ∃ e0 ∈ (s.q c).toList, e0.id = e.id ∧
        (((c, e.id) ∉ bad ∧ e.dt = e0.dt) ∨ ((c, e.id) ∈ bad ∧ ∃ m, s.find e.id = some m ∧ e.dt = m.mt c)) := by
  obtain ⟨_, _, _, _, _, hids, hfind⟩ := finFSt_spec hwf bad
  have hn' : ((finFSt s bad).msgs.map (·.id)).Nodup := by rw [hids]; exact hwf.nodupMsgs
  rw [mem_loadSt_q]
  constructor
  · rintro ⟨m', hm', hr', hee⟩
    have hf' : (finFSt s bad).find m'.id = some m' := find_of_mem hn' hm'
    obtain ⟨g, hg, hgp⟩ := hfind m'.id
    rw [hg] at hf'
    cases hm : s.find m'.id with
    | none => rw [hm] at hf'; cases hf'
    | some m =>
      rw [hm] at hf'
      have hmm : m' = g m := (Option.some.inj hf').symm
      obtain ⟨g1, _, g3, g4⟩ := hgp m
      have hmid : m.id = m'.id := (find_some hm).2
      have hrec : (m.recs c).isSome = true := by rw [← g3 c, ← hmm]; exact hr'
      have hin : m.id ∈ ids (s.q c) := (ht m (find_some hm).1).1 c hrec
      obtain ⟨e0, he0, hie0⟩ := List.mem_map.mp hin
      have heid : e.id = m'.id := by rw [hee]
      refine ⟨e0, he0, by rw [hie0, hmid, heid], ?_⟩
      by_cases hb : (c, e.id) ∈ bad
      · right
        refine ⟨hb, m, by rw [heid]; exact hm, ?_⟩
        rw [hee]; show m'.mt c = m.mt c
        rw [hmm]; exact (g4 c).2 (Or.inr (by rw [← heid]; exact hb))
      · left
        refine ⟨hb, ?_⟩
        rw [hee]; show m'.mt c = e0.dt
        rw [hmm]; exact (g4 c).1 e0 he0 (by rw [hie0, hmid]) (by rw [← heid]; exact hb)
  · rintro ⟨e0, he0, hie0, hcase⟩
    obtain ⟨m, hm, hr⟩ := hwf.hasFile c e0 he0
    rw [hie0] at hm
    obtain ⟨g, hg, hgp⟩ := hfind e.id
    obtain ⟨g1, _, g3, g4⟩ := hgp m
    have hf' : (finFSt s bad).find e.id = some (g m) := by rw [hg, hm]; rfl
    refine ⟨g m, (find_some hf').1, by rw [g3 c]; exact hr, ?_⟩
    have hgid : (g m).id = e.id := by rw [g1]; exact (find_some hm).2
    rcases hcase with ⟨hnb, hdt⟩ | ⟨hb, m2, hm2, hdt⟩
    · have := (g4 c).1 e0 he0 hie0 hnb
      cases e; simp only [Elt.mk.injEq]; exact ⟨by rw [this]; exact hdt, hgid.symm⟩
    · rw [hm] at hm2; cases hm2
      have := (g4 c).2 (Or.inr hb)
      cases e; simp only [Elt.mk.injEq]; exact ⟨by rw [this]; exact hdt, hgid.symm⟩

/-! ### quiet histories over the larger event set -/

/-- the quiet steps of `Nq.Spec.SchedHist.QStep` plus the failure paths: `messdone` runs (with any failure), passes cut short by
"trouble reading" / "unknown record type", and TERM + restart where `utimes` fails on some files -/
inductive QFStep where
  | q (x : QStep)
  | done (f : MdFault)
  | passCut (c : Chan) (letters : List Byte) (k : Nat)
  | restartF (bad : List (Chan × Nat))
  deriving Repr

def QFStep.steps : QFStep → List FStep
  | .q x => x.steps.map .old
  | .done f => [.done f]
  | .passCut c l k => [.passCut c l k]
  | .restartF bad => [.finF bad, .old .load]

def runQF (s : HSt) (l : List QFStep) : HSt := l.foldl (fun s x => frun s x.steps) s

/-- every `utimes` of the exits in the history succeeds on the channel-`c` file of message `i` -/
def utimesKept (c : Chan) (i : Nat) (l : List QFStep) : Prop := ∀ bad, QFStep.restartF bad ∈ l → (c, i) ∉ bad

def qfstepSt (s : HSt) : QFStep → HSt
  | .q x => qstepSt s x
  | .done f => doneSt s f
  | .passCut c l k => passCutSt s c l k
  | .restartF bad => loadSt (finFSt s bad)

theorem frun_steps (s : HSt) (x : QFStep) : frun s x.steps = qfstepSt s x := by
  cases x with
  | q y => cases y <;> rfl
  | done f => rfl
  | passCut c l k => rfl
  | restartF bad => rfl

theorem wf_qfstep {s : HSt} (hwf : WF s) (x : QFStep) : WF (qfstepSt s x) := by
  cases x with
  | q y => exact wf_qstep hwf y
  | done f => exact wf_doneSt hwf f
  | passCut c l k => exact wf_passCutSt hwf c l k
  | restartF bad => exact wf_loadSt (wf_finFSt hwf bad).nodupMsgs

theorem owed_runQF {i : Nat} {c0 : Chan} {b r : Int}
    (hmono : ∀ t', r ≤ t' → r ≤ nextretry t' b c0) (hsf : 0 ≤ SLEEP_SYSFAIL) :
    ∀ (l : List QFStep) (s : HSt), WF s → Owed i c0 b r s → utimesKept c0 i l →
      WF (runQF s l) ∧ Owed i c0 b r (runQF s l) := by
  intro l
  induction l with
  | nil => intro s hwf ho _; exact ⟨hwf, ho⟩
  | cons x r' ih =>
    intro s hwf ho hk
    show WF (runQF (frun s x.steps) r') ∧ Owed i c0 b r (runQF (frun s x.steps) r')
    rw [frun_steps]
    refine ih _ (wf_qfstep hwf x) ?_ (fun bad hb => hk bad (List.mem_cons_of_mem _ hb))
    cases x with
    | q y => exact owed_qstep hwf ho hmono hsf y
    | done f => exact owed_doneSt ho f
    | passCut c l k => exact owed_passCutSt hwf ho hmono hsf c l k
    | restartF bad => exact owed_restartF hwf ho bad (hk bad (List.mem_cons_self ..))

theorem passCutSt_ids {s : HSt} (hwf : WF s) (c : Chan) (letters : List Byte) (k : Nat) (i : Nat) (m : Msg)
    (hm : s.find i = some m) : ∃ m', (passCutSt s c letters k).find i = some m' ∧ m'.birth = m.birth := by
  cases hp : passStart s.clock true (s.q c) with
  | none => rw [passCutSt_none letters k hp]; exact ⟨m, hm, rfl⟩
  | some r =>
    obtain ⟨pe, q'⟩ := r
    obtain ⟨_, _, _, _, _, _, _, m0, recs, hm0, hr⟩ := start_facts hwf hp
    by_cases hk : recs.length ≤ k
    · rw [passCutSt_full letters k hp hm0 hr hk]; exact (passSt_frame hwf c letters .none).2.2.2 i m hm
    · rw [passCutSt_run letters k hp hm0 hr (Nat.lt_of_not_le hk)]
      have hmid : m0.id = pe.id := (find_some hm0).2
      by_cases hi : i = pe.id
      · subst hi
        have hmm : m0 = m := by rw [hm0] at hm; exact Option.some.inj hm
        subst hmm
        refine ⟨cutMsg m0 c recs k (cutAnswer s c letters k m0 recs), ?_, cutMsg_birth m0 c recs k _⟩
        have := find_update_self (mkSt s c (q'.insert { dt := nextretry s.clock m0.birth c, id := pe.id }) s.done)
          (cutMsg m0 c recs k (cutAnswer s c letters k m0 recs)) m0 (by rw [cutMsg_id, mkSt_find, hmid]; exact hm0)
        rw [cutMsg_id, hmid] at this; exact this
      · refine ⟨m, ?_, rfl⟩
        rw [find_update_other _ _ _ (by rw [cutMsg_id, hmid]; exact hi), mkSt_find]; exact hm

end Nq.Lemmas.SchedFail
