/-
  The documented badmailfrom / rcpthosts / RELAYCLIENT rules (`Nq.Spec.SmtpPolicyDoc`) against the model's
  lookups (through the declarative forms `BadSender` / `MatchSpec` already proved equal to the code's loops).
  Core Lean only.
-/
import Nq.Spec.SmtpPolicyDoc
import Nq.Lemmas.SmtpPolicy
import Nq.Lemmas.SmtpAddr
import Nq.Lemmas.SmtpCmdSpec
import Nq.Lemmas.SmtpSession

namespace Nq.Lemmas.SmtpDoc
open Nq Nq.SmtpSession Nq.SmtpPolicy Nq.CmdLineSpec Nq.SmtpPolicyDoc Nq.Lemmas.Smtp Nq.Lemmas.SmtpCmd

/-! ### case-insensitive equality -/

theorem ciEq_cons (x y : Byte) (s t : Bytes) : CiEq (x :: s) (y :: t) ↔ ciByteB x y = true ∧ CiEq s t := by
  unfold CiEq
  constructor
  · rintro ⟨hl, h⟩
    refine ⟨h 0 x y rfl rfl, by simpa using hl, ?_⟩
    intro i a b ha hb
    exact h (i + 1) a b (by simpa using ha) (by simpa using hb)
  · rintro ⟨h0, hl, h⟩
    refine ⟨by simp [hl], ?_⟩
    intro i a b ha hb
    cases i with
    | zero =>
      simp only [List.getElem?_cons_zero, Option.some.injEq] at ha hb
      subst ha; subst hb; exact h0
    | succ i => exact h i a b (by simpa using ha) (by simpa using hb)

theorem ciEq_iff_B : ∀ (s t : Bytes), CiEq s t ↔ ciEqB s t = true
  | [], [] => by simp [CiEq, ciEqB]
  | [], _ :: _ => by simp [CiEq, ciEqB]
  | _ :: _, [] => by simp [CiEq, ciEqB]
  | x :: s, y :: t => by
    rw [ciEq_cons, ciEq_iff_B s t]
    simp only [ciEqB, Bool.and_eq_true]

theorem ciEq_iff_lower (s t : Bytes) : CiEq s t ↔ lower s = lower t := by
  rw [ciEq_iff_B, ciEqB_iff]

/-! ### the host part -/

theorem splitLastAt_some : ∀ (a p d : Bytes), splitLastAt a = some (p, d) → ∃ l, p = l ++ [AT] ∧ a = l ++ AT :: d ∧ AT ∉ d
  | [], p, d, h => by simp [splitLastAt] at h
  | c :: r, p, d, h => by
    simp only [splitLastAt] at h
    cases hs : splitLastAt r with
    | some x =>
      obtain ⟨p', d'⟩ := x
      rw [hs] at h
      simp only [Option.some.injEq, Prod.mk.injEq] at h
      obtain ⟨rfl, rfl⟩ := h
      obtain ⟨l, e1, e2, e3⟩ := splitLastAt_some r p' d' hs
      exact ⟨c :: l, by rw [e1]; rfl, by rw [e2]; rfl, e3⟩
    | none =>
      rw [hs] at h
      simp only at h
      by_cases hc : c = AT
      · rw [if_pos hc] at h
        simp only [Option.some.injEq, Prod.mk.injEq] at h
        obtain ⟨rfl, rfl⟩ := h
        refine ⟨[], by rw [hc]; rfl, by rw [hc]; rfl, ?_⟩
        intro hm
        have := splitLastAt_none_imp r hs
        exact this hm
      · rw [if_neg hc] at h; simp at h
where
  splitLastAt_none_imp : ∀ (r : Bytes), splitLastAt r = none → AT ∉ r
    | [], _ => by simp
    | c :: r, h => by
      simp only [splitLastAt] at h
      cases hs : splitLastAt r with
      | some x => rw [hs] at h; simp at h
      | none =>
        rw [hs] at h
        simp only at h
        by_cases hc : c = AT
        · rw [if_pos hc] at h; simp at h
        · intro hm
          rcases List.mem_cons.1 hm with e | e
          · exact hc e.symm
          · exact splitLastAt_none_imp r hs e

theorem noAt_of_none (a : Bytes) (h : splitLastAt a = none) : AT ∉ a := splitLastAt_some.splitLastAt_none_imp a h

theorem hostOf_iff (a d : Bytes) : HostOf a d ↔ domainOf a = some d := by
  unfold HostOf domainOf
  constructor
  · rintro ⟨l, rfl, hd⟩
    rw [splitLastAt_append d hd l]; rfl
  · intro h
    cases hs : splitLastAt a with
    | none => rw [hs] at h; simp at h
    | some x =>
      obtain ⟨p, d'⟩ := x
      rw [hs] at h
      simp only [Option.map_some, Option.some.injEq] at h
      subst h
      obtain ⟨l, _, e2, e3⟩ := splitLastAt_some a p d' hs
      exact ⟨l, e2, e3⟩

theorem domainOf_none_iff (a : Bytes) : domainOf a = none ↔ AT ∉ a := by
  unfold domainOf
  constructor
  · intro h
    cases hs : splitLastAt a with
    | none => exact noAt_of_none a hs
    | some x => rw [hs] at h; simp at h
  · intro h; rw [splitLastAt_none a h]; rfl

theorem takeWhile_rev_noAt (d : Bytes) (hd : AT ∉ d) (l : Bytes) :
    ((l ++ AT :: d).reverse.takeWhile (· != AT)).reverse = d := by
  have e : (l ++ AT :: d).reverse = d.reverse ++ AT :: l.reverse := by simp
  rw [e]
  have : ∀ (x y : Bytes), AT ∉ x → (x ++ AT :: y).takeWhile (· != AT) = x := by
    intro x y hx
    induction x with
    | nil => simp
    | cons c r ih =>
      have hc : c ≠ AT := fun e => hx (by simp [e])
      have hr : AT ∉ r := fun e => hx (by simp [e])
      simp [hc, ih hr]
  rw [this d.reverse l.reverse (by simpa using hd), List.reverse_reverse]

theorem hostOfB_eq (a : Bytes) : hostOfB a = domainOf a := by
  unfold hostOfB
  by_cases h : AT ∈ a
  · rw [if_pos h]
    cases hd : domainOf a with
    | none => exact absurd h ((domainOf_none_iff a).1 hd)
    | some d =>
      obtain ⟨l, rfl, hn⟩ := (hostOf_iff a d).2 hd
      rw [takeWhile_rev_noAt d hn l]
  · rw [if_neg h, (domainOf_none_iff a).2 h]

/-! ### badmailfrom -/

theorem badSenderDoc_iff (cfg : Cfg) (a : Bytes) : BadSenderDoc cfg a ↔ BadSender cfg a := by
  unfold BadSenderDoc BadSender
  simp only [ciEq_iff_lower, hostOf_iff]

theorem badSenderDocB_iff (cfg : Cfg) (a : Bytes) : badSenderDocB cfg a = true ↔ BadSenderDoc cfg a := by
  rw [badSenderDoc_iff, ← badSenderB_iff]
  unfold badSenderDocB badSenderB
  rw [hostOfB_eq]
  cases cfg.bmf with
  | none => simp
  | some es =>
    simp only [List.any_eq_true, Bool.or_eq_true, beq_iff_eq]
    constructor
    · rintro ⟨e, he, h⟩
      refine ⟨e, he, ?_⟩
      rcases h with h | h
      · exact Or.inl ((ciEqB_iff e a).1 h)
      · right
        cases hd : domainOf a with
        | none => rw [hd] at h; simp at h
        | some d => rw [hd] at h; simp only at h ⊢; simpa using (ciEqB_iff _ _).1 h
    · rintro ⟨e, he, h⟩
      refine ⟨e, he, ?_⟩
      rcases h with h | h
      · exact Or.inl ((ciEqB_iff e a).2 h)
      · right
        cases hd : domainOf a with
        | none => rw [hd] at h; simp at h
        | some d => rw [hd] at h; simp only at h ⊢; exact (ciEqB_iff _ _).2 (by simpa using h)

/-! ### rcpthosts -/

theorem lower_drop (s : Bytes) (n : Nat) : lower (s.drop n) = (lower s).drop n := by simp [lower, List.map_drop]

theorem suffix_iff_split (e d : Bytes) : lower e <:+ lower d ↔ ∃ x d', d = x ++ d' ∧ lower e = lower d' := by
  constructor
  · rintro ⟨y, hy⟩
    refine ⟨d.take y.length, d.drop y.length, (List.take_append_drop _ _).symm, ?_⟩
    rw [lower_drop, ← hy]; simp
  · rintro ⟨x, d', rfl, h⟩
    exact ⟨lower x, by rw [h, lower_append]⟩

theorem listed_iff (e d : Bytes) (hd : d ≠ []) : Listed e d ↔ covers e d := by
  unfold Listed covers
  simp only [ciEq_iff_lower, suffix_iff_split]
  constructor
  · intro h; exact ⟨hd, h⟩
  · intro h; exact h.2

theorem hostLists_eq (cfg : Cfg) : hostLists cfg = hostEntries cfg := rfl

theorem rcptHostOK_iff (cfg : Cfg) (a : Bytes) : RcptHostOK cfg a ↔ MatchSpec cfg a := by
  unfold RcptHostOK MatchSpec
  rw [hostLists_eq]
  constructor
  · rintro (h | h | ⟨d, h1, h2, e, he, h3⟩)
    · exact Or.inl h
    · exact Or.inr (Or.inl ((domainOf_none_iff a).2 h))
    · exact Or.inr (Or.inr ⟨d, (hostOf_iff a d).1 h1, e, he, (listed_iff e d h2).1 h3⟩)
  · rintro (h | h | ⟨d, h1, e, he, h3⟩)
    · exact Or.inl h
    · exact Or.inr (Or.inl ((domainOf_none_iff a).1 h))
    · exact Or.inr (Or.inr ⟨d, (hostOf_iff a d).2 h1, h3.1, e, he, (listed_iff e d h3.1).2 h3⟩)

theorem listedB_iff (e d : Bytes) : listedB e d = true ↔ Listed e d := by
  unfold listedB Listed
  simp only [Bool.or_eq_true, Bool.and_eq_true, beq_iff_eq, decide_eq_true_eq, ← ciEq_iff_B]
  constructor
  · rintro (h | ⟨⟨h1, h2⟩, h3⟩)
    · exact Or.inl h
    · exact Or.inr ⟨h1, d.take (d.length - e.length), d.drop (d.length - e.length), (List.take_append_drop _ _).symm, h3⟩
  · rintro (h | ⟨h1, x, d', rfl, h3⟩)
    · exact Or.inl h
    · right
      have hl : e.length = d'.length := by
        have := congrArg List.length ((ciEq_iff_lower e d').1 h3)
        simpa [lower] using this
      refine ⟨⟨h1, by simp; omega⟩, ?_⟩
      have : (x ++ d').drop ((x ++ d').length - e.length) = d' := by
        rw [List.length_append, hl, Nat.add_sub_cancel, List.drop_left]
      rw [this]; exact h3

theorem rcptHostOKB_iff (cfg : Cfg) (a : Bytes) : rcptHostOKB cfg a = true ↔ RcptHostOK cfg a := by
  unfold rcptHostOKB RcptHostOK
  rw [hostOfB_eq]
  cases hd : domainOf a with
  | none =>
    have := (domainOf_none_iff a).1 hd
    simp [this]
  | some d =>
    have hat : AT ∈ a := by
      apply Classical.byContradiction
      intro hn
      rw [(domainOf_none_iff a).2 hn] at hd; simp at hd
    simp only [Bool.or_eq_true, Option.isNone_iff_eq_none, Bool.and_eq_true, Bool.not_eq_true', List.isEmpty_eq_false_iff,
      List.any_eq_true, listedB_iff]
    constructor
    · rintro (h | ⟨h1, e, he, h2⟩)
      · exact Or.inl h
      · exact Or.inr (Or.inr ⟨d, (hostOf_iff a d).2 hd, h1, e, he, h2⟩)
    · rintro (h | h | ⟨d', h0, h1, e, he, h2⟩)
      · exact Or.inl h
      · exact absurd hat h
      · have : d' = d := by
          have := (hostOf_iff a d').1 h0
          rw [hd] at this; exact (Option.some.inj this).symm
        subst this
        exact Or.inr ⟨h1, e, he, h2⟩

/-! ### the RCPT decision -/

theorem rcptDocB_iff (cfg : Cfg) (a stored : Bytes) : rcptDocB cfg a = some stored ↔ RcptDoc cfg a stored := by
  unfold rcptDocB RcptDoc
  cases cfg.relay with
  | some suffix => simp [eq_comm]
  | none =>
    by_cases h : rcptHostOKB cfg a = true
    · simp [h, (rcptHostOKB_iff cfg a).1 h, eq_comm]
    · have : ¬ RcptHostOK cfg a := fun e => h ((rcptHostOKB_iff cfg a).2 e)
      simp [h, this]

/-- the RCPT step of the model, in an open transaction whose sender is not flagged, on an argument that
parses to `a`: accepted exactly according to the documented rule, and stored as the rule says -/
theorem rcpt_step_doc (cfg : Cfg) (hl : MoreLower cfg) (s : Sess) (arg a : Bytes) (h1 : s.seenmail = true) (h2 : s.flagbarf = false)
    (ha : addrparse cfg arg = some a) :
    ((sstep cfg s (.rcpt arg)).2.replies = [.rcptok] ↔ ∃ stored, RcptDoc cfg a stored) ∧
    (∀ stored, RcptDoc cfg a stored → (sstep cfg s (.rcpt arg)).1 = { s with rcptto := s.rcptto ++ [stored] }) ∧
    ((¬ ∃ stored, RcptDoc cfg a stored) → (sstep cfg s (.rcpt arg)).1 = s) := by
  unfold RcptDoc
  cases hr : cfg.relay with
  | some rc =>
    simp only [sstep, h1, h2, ha, hr]
    refine ⟨by simp, ?_, by simp⟩
    intro stored hs; subst hs; simp
  | none =>
    have hm := (match_iff cfg hl a).trans (rcptHostOK_iff cfg a).symm
    by_cases hx : rcpthostsMatch cfg a = true
    · have hd := hm.1 hx
      simp only [sstep, h1, h2, ha, hr, hx]
      refine ⟨by simp [hd], ?_, by simp [hd]⟩
      intro stored hs; rw [hs.2]; simp
    · have hd : ¬ RcptHostOK cfg a := fun e => hx (hm.2 e)
      simp only [sstep, h1, h2, ha, hr, hx]
      refine ⟨by simp [hd], ?_, by simp⟩
      intro stored hs; exact absurd hs.1 hd

/-! ### whole sessions -/

theorem rcptDoc_exists_iff (cfg : Cfg) (a : Bytes) : (∃ stored, RcptDoc cfg a stored) ↔ (cfg.relay.isSome = true ∨ MatchSpec cfg a) := by
  unfold RcptDoc
  cases hr : cfg.relay with
  | some rc => simp
  | none => simp [rcptHostOK_iff]

theorem gateDoc_iff (cfg : Cfg) (pre : List Ev) (arg : Bytes) : GateDoc cfg pre arg ↔ GateOK cfg pre arg := by
  unfold GateDoc GateOK
  constructor
  · rintro ⟨snd, mid, adr, stored, h1, h2, h3, h4, h5⟩
    exact ⟨snd, mid, adr, h1, fun e => h2 ((badSenderDoc_iff cfg snd).2 e), h3, h4, (rcptDoc_exists_iff cfg adr).1 ⟨stored, h5⟩⟩
  · rintro ⟨snd, mid, adr, h1, h2, h3, h4, h5⟩
    obtain ⟨stored, hs⟩ := (rcptDoc_exists_iff cfg adr).2 h5
    exact ⟨snd, mid, adr, stored, h1, fun e => h2 ((badSenderDoc_iff cfg snd).1 e), h3, h4, hs⟩

theorem bool_eq_of_iff {a b : Bool} (h : a = true ↔ b = true) : a = b := by
  cases a <;> cases b <;> simp_all

theorem gateDocB_eq (cfg : Cfg) (pre : List Ev) (arg : Bytes) : gateDocB cfg pre arg = gateOKB cfg pre arg := by
  unfold gateDocB gateOKB
  cases openTxnB cfg pre with
  | none => rfl
  | some x =>
    obtain ⟨snd, mid⟩ := x
    simp only
    have e1 : badSenderDocB cfg snd = badSenderB cfg snd :=
      bool_eq_of_iff ((badSenderDocB_iff cfg snd).trans ((badSenderDoc_iff cfg snd).trans (badSenderB_iff cfg snd).symm))
    rw [e1]
    cases addrparse cfg arg with
    | none => rfl
    | some adr =>
      simp only
      have e2 : (rcptDocB cfg adr).isSome = (cfg.relay.isSome || matchSpecB cfg adr) := by
        apply bool_eq_of_iff
        rw [Option.isSome_iff_exists]
        simp only [rcptDocB_iff, rcptDoc_exists_iff, Bool.or_eq_true, matchSpecB_iff]
      rw [e2]

theorem gateDocB_iff (cfg : Cfg) (pre : List Ev) (arg : Bytes) : gateDocB cfg pre arg = true ↔ GateDoc cfg pre arg := by
  rw [gateDocB_eq, gateOKB_iff, gateDoc_iff]

end Nq.Lemmas.SmtpDoc
