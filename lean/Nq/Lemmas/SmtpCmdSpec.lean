/-
  The model of commands.c (`SmtpSession.readLine/parseLine/verbOf`, `SmtpCmdIO.cmds/splitCmd/tableIdx`)
  against the independent line / word splitter of `Nq.Spec.CmdLine`.  Core Lean only.
-/
import Nq.Spec.CmdLine
import Nq.Lemmas.SmtpCmdIO

namespace Nq.Lemmas.SmtpCmd
open Nq Nq.SmtpSession Nq.SmtpCmdIO Nq.CmdLineSpec

/-! ### case folding -/

theorem lowerByte_toNat (c : Byte) :
    (lowerByte c).toNat = if 65 ≤ c.toNat ∧ c.toNat ≤ 90 then c.toNat + 32 else c.toNat := by
  unfold lowerByte
  have h1 : (65 ≤ c ∧ c ≤ 90) ↔ (65 ≤ c.toNat ∧ c.toNat ≤ 90) := by
    rw [UInt8.le_iff_toNat_le, UInt8.le_iff_toNat_le]; simp
  by_cases h : 65 ≤ c ∧ c ≤ 90
  · have h' := h1.1 h
    rw [if_pos h, if_pos h', UInt8.toNat_add]
    simp; omega
  · rw [if_neg h, if_neg (fun e => h (h1.2 e))]

theorem ciByteB_iff (x y : Byte) : ciByteB x y = true ↔ lowerByte x = lowerByte y := by
  rw [← UInt8.toNat_inj, lowerByte_toNat, lowerByte_toNat]
  unfold ciByteB isUpperN
  simp only [Bool.or_eq_true, Bool.and_eq_true, beq_iff_eq, decide_eq_true_eq]
  split <;> split <;> omega

theorem ciEqB_iff : ∀ (s t : Bytes), ciEqB s t = true ↔ lower s = lower t
  | [], [] => by simp [ciEqB, lower]
  | [], _ :: _ => by simp [ciEqB, lower]
  | _ :: _, [] => by simp [ciEqB, lower]
  | x :: s, y :: t => by
    have ih := ciEqB_iff s t
    simp only [lower] at ih
    simp only [ciEqB, lower, List.map_cons, Bool.and_eq_true, List.cons.injEq, ciByteB_iff, ih]

theorem specIdx_eq (table : List Bytes) (v : Bytes) : specIdx table v = tableIdx table v := by
  unfold tableIdx
  induction table with
  | nil => rfl
  | cons t ts ih =>
    simp only [specIdx, List.findIdx_cons]
    by_cases h : ciEqB t v = true
    · have h' : (lower t == lower v) = true := by simpa using (ciEqB_iff t v).1 h
      rw [if_pos h, h']; rfl
    · have h' : (lower t == lower v) = false := by
        cases hb : (lower t == lower v) with
        | false => rfl
        | true => exact absurd ((ciEqB_iff t v).2 (by simpa using hb)) h
      rw [if_neg h, h', ih]; rfl

/-! ### verb and argument -/

theorem chopCR_eq (l : Bytes) : chopCR l = stripCR l := by
  unfold chopCR stripCR
  rcases List.eq_nil_or_concat l with rfl | ⟨b, c, rfl⟩
  · rfl
  · by_cases h : c = CR
    · simp [h]
    · simp [h]

theorem cstr_eq : ∀ (l : Bytes), cstr l = l.takeWhile (· != NUL)
  | [] => rfl
  | c :: r => by
    by_cases h : c = NUL
    · simp [cstr, h]
    · simp [cstr, h, cstr_eq r]

theorem word_eq : ∀ (l : Bytes), word l = l.takeWhile (· != SP)
  | [] => rfl
  | c :: r => by
    by_cases h : c = SP
    · simp [word, h]
    · simp [word, h, word_eq r]

theorem afterWord_eq : ∀ (l : Bytes), afterWord l = l.dropWhile (· != SP)
  | [] => rfl
  | c :: r => by
    by_cases h : c = SP
    · simp [afterWord, h]
    · simp [afterWord, h, afterWord_eq r]

theorem skipSp_eq : ∀ (l : Bytes), skipSp l = l.dropWhile (· == SP)
  | [] => rfl
  | c :: r => by
    by_cases h : c = SP
    · simp [skipSp, h, skipSp_eq r]
    · simp [skipSp, h]

theorem specSplit_eq (l : Bytes) : specSplit l = splitCmd l := by
  unfold specSplit splitCmd
  rw [chopCR_eq, cstr_eq, word_eq, afterWord_eq, skipSp_eq]

theorem specVerb_eq (v : Bytes) : specVerb v = verbOf v := by
  rw [verbOf_eq]
  unfold specVerb verbAt smtpTexts
  rw [specIdx_eq]
  rfl

theorem specParse_eq (l : Bytes) : specParse l = parseLine l := by
  unfold specParse
  rw [parseLine_split, specSplit_eq, specVerb_eq]

/-! ### lines -/

theorem pieces_ne_nil : ∀ (inp : Bytes), pieces inp ≠ []
  | [] => by simp [pieces]
  | c :: r => by
    simp only [pieces]
    split
    · simp
    · split <;> simp

theorem pieces_noLF : ∀ (inp : Bytes), LF ∉ inp → pieces inp = [inp]
  | [], _ => rfl
  | c :: r, h => by
    have hc : c ≠ LF := fun e => h (by simp [e])
    have hr : LF ∉ r := fun e => h (by simp [e])
    simp only [pieces, if_neg hc, pieces_noLF r hr]

theorem pieces_line (l r : Bytes) (h : LF ∉ l) : pieces (l ++ LF :: r) = l :: pieces r := by
  induction l with
  | nil => simp [pieces]
  | cons c t ih =>
    have hc : c ≠ LF := fun e => h (by simp [e])
    have ht : LF ∉ t := fun e => h (by simp [e])
    simp only [List.cons_append, pieces, if_neg hc, ih ht]

theorem specLines_noLF (inp : Bytes) (h : LF ∉ inp) : specLines inp = [] := by
  simp [specLines, pieces_noLF inp h]

theorem specLines_line (l r : Bytes) (h : LF ∉ l) : specLines (l ++ LF :: r) = l :: specLines r := by
  unfold specLines
  rw [pieces_line l r h]
  cases hp : pieces r with
  | nil => exact absurd hp (pieces_ne_nil r)
  | cons p ps => rfl

theorem specTail_noLF (inp : Bytes) (h : LF ∉ inp) : specTail inp = inp := by
  simp [specTail, pieces_noLF inp h]

theorem specTail_line (l r : Bytes) (h : LF ∉ l) : specTail (l ++ LF :: r) = specTail r := by
  unfold specTail
  rw [pieces_line l r h]
  cases hp : pieces r with
  | nil => exact absurd hp (pieces_ne_nil r)
  | cons p ps => simp [List.getLast?_cons_cons]

theorem specFirstLine_eq (inp : Bytes) : specFirstLine inp = readLine inp := by
  unfold specFirstLine
  induction inp with
  | nil => simp [readLine]
  | cons c t ih =>
    by_cases hc : c = LF
    · subst hc; simp [readLine_lf]
    · rw [readLine_cons c t hc, ← ih]
      have hc' : ¬ LF = c := fun e => hc e.symm
      by_cases hm : LF ∈ t
      · simp [hm, hc, hc']
      · simp [hm, hc']

/-- the lines the model dispatches are the spec's lines, split as the spec says -/
theorem cmdsFuel_spec (table : List Bytes) : ∀ (n : Nat) (inp : Bytes), inp.length < n → cmdsFuel table n inp = specCalls table inp
  | 0, _, h => by omega
  | n + 1, inp, h => by
    simp only [cmdsFuel]
    cases hr : readLine inp with
    | none =>
      have := (readLine_none_iff inp).1 hr
      simp [specCalls, specLines_noLF inp this]
    | some x =>
      obtain ⟨l, r⟩ := x
      obtain ⟨e, hn⟩ := readLine_some inp l r hr
      have hl : r.length < n := by rw [e] at h; simp at h; omega
      simp only
      rw [cmdsFuel_spec table n r hl, e]
      simp only [specCalls, specLines_line l r hn, List.map_cons, callOf, specSplit_eq, specIdx_eq]

theorem cmds_spec (table : List Bytes) (inp : Bytes) : cmds table inp = specCalls table inp :=
  cmdsFuel_spec table _ inp (by omega)

/-! ### the executable splitter satisfies the relations, and the relations determine it -/

theorem isLines_spec : ∀ (n : Nat) (inp : Bytes), inp.length < n → IsLines inp (specLines inp) (specTail inp)
  | 0, _, h => by omega
  | n + 1, inp, h => by
    by_cases hm : LF ∈ inp
    · cases hr : readLine inp with
      | none => exact absurd hm ((readLine_none_iff inp).1 hr)
      | some x =>
        obtain ⟨l, r⟩ := x
        obtain ⟨e, hn⟩ := readLine_some inp l r hr
        have hl : r.length < n := by rw [e] at h; simp at h; omega
        obtain ⟨i1, i2, i3⟩ := isLines_spec n r hl
        rw [e, specLines_line l r hn, specTail_line l r hn]
        refine ⟨?_, ?_, i3⟩
        · simp only [List.map_cons, List.flatten_cons, List.append_assoc, List.cons_append, List.nil_append]
          rw [← i1]
        · intro l' hl'
          rcases List.mem_cons.1 hl' with rfl | h2
          · exact hn
          · exact i2 l' h2
    · rw [specLines_noLF inp hm, specTail_noLF inp hm]
      exact ⟨by simp, by simp, hm⟩

theorem isLines_unique : ∀ (ls : List Bytes) (inp tail : Bytes), IsLines inp ls tail → ls = specLines inp ∧ tail = specTail inp
  | [], inp, tail, ⟨h1, _, h3⟩ => by
    simp only [List.map_nil, List.flatten_nil, List.nil_append] at h1
    subst h1
    rw [specLines_noLF _ h3, specTail_noLF _ h3]
    exact ⟨rfl, rfl⟩
  | l :: ls, inp, tail, ⟨h1, h2, h3⟩ => by
    have hl : LF ∉ l := h2 l (by simp)
    have e : inp = l ++ LF :: ((ls.map (· ++ [LF])).flatten ++ tail) := by
      rw [h1]; simp
    obtain ⟨r1, r2⟩ := isLines_unique ls _ tail ⟨rfl, fun x hx => h2 x (by simp [hx]), h3⟩
    rw [e, specLines_line l _ hl, specTail_line l _ hl, ← r1, ← r2]
    exact ⟨rfl, rfl⟩

theorem stripCR_snoc (body : Bytes) : stripCR (body ++ [CR]) = body := by
  simp [stripCR]

theorem stripCR_id (l : Bytes) (h : l.getLast? ≠ some CR) : stripCR l = l := by
  simp [stripCR, h]

theorem takeWhile_cstr (t junk : Bytes) (h1 : NUL ∉ t) (h2 : junk = [] ∨ junk.head? = some NUL) :
    (t ++ junk).takeWhile (· != NUL) = t := by
  induction t with
  | nil =>
    rcases h2 with rfl | h2
    · rfl
    · cases junk with
      | nil => rfl
      | cons c r => simp only [List.head?_cons, Option.some.injEq] at h2; subst h2; simp
  | cons c r ih =>
    have hc : c ≠ NUL := fun e => h1 (by simp [e])
    have hr : NUL ∉ r := fun e => h1 (by simp [e])
    simp [hc, ih hr]

theorem takeWhile_word (v rest : Bytes) (h1 : SP ∉ v) (h2 : rest = [] ∨ rest.head? = some SP) :
    (v ++ rest).takeWhile (· != SP) = v ∧ (v ++ rest).dropWhile (· != SP) = rest := by
  induction v with
  | nil =>
    rcases h2 with rfl | h2
    · exact ⟨rfl, rfl⟩
    · cases rest with
      | nil => exact ⟨rfl, rfl⟩
      | cons c r => simp only [List.head?_cons, Option.some.injEq] at h2; subst h2; simp
  | cons c r ih =>
    have hc : c ≠ SP := fun e => h1 (by simp [e])
    have hr : SP ∉ r := fun e => h1 (by simp [e])
    simp [hc, ih hr]

theorem dropWhile_sp (sp a : Bytes) (h1 : ∀ c ∈ sp, c = SP) (h2 : a.head? ≠ some SP) : (sp ++ a).dropWhile (· == SP) = a := by
  induction sp with
  | nil =>
    cases a with
    | nil => rfl
    | cons c r =>
      have : c ≠ SP := fun e => h2 (by simp [e])
      simp [this]
  | cons c r ih =>
    have hc : c = SP := h1 c (by simp)
    simp [hc, ih (fun x hx => h1 x (by simp [hx]))]

/-- the relation determines verb and argument: they are what `specSplit` computes -/
theorem isSplit_unique (l v a : Bytes) (h : IsSplit l v a) : specSplit l = (v, a) := by
  obtain ⟨body, t, junk, sp, h1, h2, h3, h4, h5, h6, h7, h8, h9⟩ := h
  rw [specSplit_eq]
  unfold splitCmd
  have e1 : stripCR l = body := by
    rcases h1 with rfl | ⟨rfl, hc⟩
    · exact stripCR_snoc body
    · exact stripCR_id _ hc
  have e2 : (stripCR l).takeWhile (· != NUL) = t := by rw [e1, h2]; exact takeWhile_cstr t junk h3 h4
  simp only [e2]
  have hrest : sp ++ a = [] ∨ (sp ++ a).head? = some SP := by
    cases sp with
    | nil => left; simp [h9 rfl]
    | cons c r => right; simp [h7 c (by simp)]
  have := takeWhile_word v (sp ++ a) h6 hrest
  rw [h5, List.append_assoc, this.1, this.2, dropWhile_sp sp a h7 h8]

theorem mem_takeWhile_p {α : Type} (p : α → Bool) (x : α) : ∀ (l : List α), x ∈ l.takeWhile p → p x = true
  | [], h => by simp at h
  | c :: r, h => by
    rw [List.takeWhile_cons] at h
    by_cases hc : p c = true
    · rw [if_pos hc] at h
      rcases List.mem_cons.1 h with rfl | h'
      · exact hc
      · exact mem_takeWhile_p p x r h'
    · rw [if_neg hc] at h; simp at h

theorem head_dropWhile_p {α : Type} (p : α → Bool) (c : α) (r : List α) : ∀ (l : List α), l.dropWhile p = c :: r → p c = false
  | [], h => by simp at h
  | d :: t, h => by
    rw [List.dropWhile_cons] at h
    by_cases hd : p d = true
    · rw [if_pos hd] at h; exact head_dropWhile_p p c r t h
    · rw [if_neg hd] at h
      simp only [List.cons.injEq] at h
      rw [← h.1]; simpa using hd

/-- …and `specSplit` satisfies it -/
theorem isSplit_spec (l : Bytes) : IsSplit l (specSplit l).1 (specSplit l).2 := by
  rw [specSplit_eq]
  unfold splitCmd
  simp only
  generalize ht : (stripCR l).takeWhile (· != NUL) = t
  refine ⟨stripCR l, t, (stripCR l).dropWhile (· != NUL), (t.dropWhile (· != SP)).takeWhile (· == SP), ?_, ?_, ?_, ?_, ?_, ?_, ?_, ?_, ?_⟩
  · unfold stripCR
    by_cases h : l.getLast? = some CR
    · left
      rw [if_pos h]
      rcases List.eq_nil_or_concat l with rfl | ⟨b, c, rfl⟩
      · simp at h
      · have hc : c = CR := by simpa using h
        subst hc; simp
    · right; rw [if_neg h]; exact ⟨rfl, h⟩
  · rw [← ht]; exact (List.takeWhile_append_dropWhile (p := (· != NUL)) (l := stripCR l)).symm
  · rw [← ht]
    intro hm
    have := mem_takeWhile_p _ _ _ hm
    simp at this
  · cases hd : (stripCR l).dropWhile (· != NUL) with
    | nil => left; rfl
    | cons c r =>
      right
      have := head_dropWhile_p _ c r _ hd
      simp only [List.head?_cons, Option.some.injEq]
      simpa using this
  · rw [List.append_assoc, List.takeWhile_append_dropWhile, List.takeWhile_append_dropWhile]
  · intro hm
    have := mem_takeWhile_p _ _ _ hm
    simp at this
  · intro c hc
    have := mem_takeWhile_p _ _ _ hc
    simpa using this
  · cases hd : ((t.dropWhile (· != SP)).dropWhile (· == SP)) with
    | nil => simp
    | cons c r =>
      have := head_dropWhile_p _ c r _ hd
      simp only [List.head?_cons, ne_eq, Option.some.injEq]
      simpa using this
  · intro he
    cases hd : t.dropWhile (· != SP) with
    | nil => rfl
    | cons c r =>
      have := head_dropWhile_p _ c r _ hd
      have hc : c = SP := by simpa using this
      rw [hd, hc] at he
      simp at he

end Nq.Lemmas.SmtpCmd
