/-
  Nq.Lemmas.LocalOutcome — second lemma file of C13 (added after the statement audit):

    * the instruction loop stops at the *first* line that does not run through (`dispatch_append`,
      `dispatch_split`), and what a single line can do (`line_die`, `line_stop99`);
    * every instruction acted upon succeeded unless the loop ended in a failure (`dispatch_all_ok`);
    * the exit code after the loop (`deliver_code`), the forwarded copy only after success;
    * `deliver` = `LocalSpec.follow` and `run` = `LocalSpec.outcome` (the documented outcome of a whole delivery);
    * every name opened or given to `stat` during a run is confined to the home directory.
-/
import Nq.Lemmas.Local

set_option linter.unusedSimpArgs false
set_option linter.unusedVariables false

namespace Nq.Lemmas.Local
open Nq Nq.Local Nq.Gen.LocalExit

/-! ### the loop stops at the first line that does not run through -/

/-- the line is `+list` -/
def isListLine (raw : Bytes) : Bool :=
  match classify raw with
  | .list => true
  | _ => false

/-- `flagforwardonly` after the lines `pre` have been read -/
def foAfter (fo : Bool) (pre : List Bytes) : Bool := fo || pre.any isListLine

theorem foAfter_nil (fo : Bool) : foAfter fo [] = fo := by simp [foAfter]

theorem foAfter_cons (fo : Bool) (raw : Bytes) (pre : List Bytes) :
    foAfter fo (raw :: pre) = foAfter (fo || isListLine raw) pre := by
  simp [foAfter, Bool.or_assoc]

/-- one line, then the rest: either the line runs through (`done`) and the loop goes on after it in the state the
line leaves behind, or the loop ends at this line -/
theorem dispatch_cons_eq (px : Bytes → PRes) (dx : Instr → Option Why) (raw : Bytes) (rest : List Bytes) (first fo : Bool) :
    dispatch px dx first fo (raw :: rest) =
      if (dispatch px dx first fo [raw]).fin = .done then
        ⟨(dispatch px dx first fo [raw]).did ++ (dispatch px dx false (fo || isListLine raw) rest).did,
         (dispatch px dx false (fo || isListLine raw) rest).fin⟩
      else dispatch px dx first fo [raw] := by
  cases hc : classify raw with
  | blank => cases first <;> simp [dispatch, hc, Trace.cons, isListLine]
  | comment => simp [dispatch, hc, Trace.cons, isListLine]
  | plusOther => simp [dispatch, hc, Trace.cons, isListLine]
  | list => simp [dispatch, hc, Trace.cons, isListLine]
  | act i =>
    cases i with
    | forward a => simp [dispatch, hc, Trace.cons, isListLine]
    | program c =>
      cases fo with
      | true => simp [dispatch, hc, Trace.cons, isListLine]
      | false =>
        cases hp : px (cstr c) with
        | crashed => simp [dispatch, hc, hp, Trace.cons, isListLine]
        | exited code => cases hk : progClass code <;> simp [dispatch, hc, hp, hk, Trace.cons, isListLine]
    | mbox f =>
      cases fo with
      | true => simp [dispatch, hc, Trace.cons, isListLine]
      | false => cases hk : dx (.mbox f) <;> simp [dispatch, hc, hk, Trace.cons, isListLine]
    | maildir f =>
      cases fo with
      | true => simp [dispatch, hc, Trace.cons, isListLine]
      | false => cases hk : dx (.maildir f) <;> simp [dispatch, hc, hk, Trace.cons, isListLine]

/-- if the loop runs through `pre`, it goes on with `rest` — not at the first line any more unless `pre` is empty,
and forward-only if it was or if `pre` contains `+list` -/
theorem dispatch_append (px : Bytes → PRes) (dx : Instr → Option Why) :
    ∀ (pre rest : List Bytes) (first fo : Bool), (dispatch px dx first fo pre).fin = .done →
      dispatch px dx first fo (pre ++ rest) =
        ⟨instrsOf pre ++ (dispatch px dx (first && pre.isEmpty) (foAfter fo pre) rest).did,
         (dispatch px dx (first && pre.isEmpty) (foAfter fo pre) rest).fin⟩
  | [], rest, first, fo, _ => by simp [foAfter_nil, instrsOf]
  | raw :: pre, rest, first, fo, h => by
    rw [dispatch_cons_eq] at h
    by_cases h1 : (dispatch px dx first fo [raw]).fin = .done
    · simp only [h1, if_true] at h
      have ih := dispatch_append px dx pre rest false (fo || isListLine raw) h
      have hd1 : (dispatch px dx first fo [raw]).did = instrsOf [raw] := dispatch_done px dx [raw] first fo h1
      rw [List.cons_append, dispatch_cons_eq]
      simp only [h1, if_true]
      rw [ih, hd1, foAfter_cons]
      have : instrsOf (raw :: pre) = instrsOf [raw] ++ instrsOf pre := instrsOf_append [raw] pre
      simp [this, List.append_assoc]
    · simp only [h1, if_false] at h

/-- a loop that does not run through ends at its first line that does not: the lines before it ran through, and the
result is what that line does in the state they leave behind -/
theorem dispatch_split (px : Bytes → PRes) (dx : Instr → Option Why) :
    ∀ (lines : List Bytes) (first fo : Bool), (dispatch px dx first fo lines).fin ≠ .done →
      ∃ pre raw post, lines = pre ++ raw :: post ∧ (dispatch px dx first fo pre).fin = .done ∧
        (dispatch px dx (first && pre.isEmpty) (foAfter fo pre) [raw]).fin = (dispatch px dx first fo lines).fin ∧
        (dispatch px dx first fo lines).did =
          instrsOf pre ++ (dispatch px dx (first && pre.isEmpty) (foAfter fo pre) [raw]).did
  | [], _, _, h => by simp [dispatch] at h
  | raw :: rest, first, fo, h => by
    by_cases h1 : (dispatch px dx first fo [raw]).fin = .done
    · have e := dispatch_append px dx [raw] rest first fo h1
      simp only [List.singleton_append, List.isEmpty_cons, Bool.and_false] at e
      have hne : (dispatch px dx false (foAfter fo [raw]) rest).fin ≠ .done := by
        intro hh; apply h; rw [e]; exact hh
      obtain ⟨pre, raw', post, e1, e2, e3, e4⟩ := dispatch_split px dx rest false (foAfter fo [raw]) hne
      have hpre : (dispatch px dx first fo (raw :: pre)).fin = .done := by
        have := dispatch_append px dx [raw] pre first fo h1
        simp only [List.singleton_append, List.isEmpty_cons, Bool.and_false] at this
        rw [this]; exact e2
      have hfo : foAfter fo (raw :: pre) = foAfter (foAfter fo [raw]) pre := by
        rw [foAfter_cons, foAfter_cons, foAfter_nil]
      refine ⟨raw :: pre, raw', post, by simp [e1], hpre, ?_, ?_⟩
      · simp only [List.isEmpty_cons, Bool.and_false, hfo]
        simp only [Bool.false_and] at e3
        rw [e3, e]
      · simp only [List.isEmpty_cons, Bool.and_false, hfo]
        simp only [Bool.false_and] at e4
        rw [e, e4]
        have : instrsOf (raw :: pre) = instrsOf [raw] ++ instrsOf pre := instrsOf_append [raw] pre
        simp [this, List.append_assoc]
    · refine ⟨[], raw, rest, rfl, rfl, ?_, ?_⟩
      · rw [dispatch_cons_eq px dx raw rest]; simp [h1, foAfter_nil]
      · rw [dispatch_cons_eq px dx raw rest]; simp [h1, foAfter_nil, instrsOf]

/-- how a single line can end the loop with the diagnostic `y`, and what has then been acted upon -/
theorem line_die (px : Bytes → PRes) (dx : Instr → Option Why) (raw : Bytes) (first fo : Bool) (y : Why)
    (h : (dispatch px dx first fo [raw]).fin = .die y) :
    (classify raw = .blank ∧ first = true ∧ y = .blankFirst ∧ (dispatch px dx first fo [raw]).did = []) ∨
    (∃ i, classify raw = .act i ∧ isForward i = false ∧ fo = true ∧
        y = (if isProgram i then .xbitProg else .xbitFile) ∧ (dispatch px dx first fo [raw]).did = []) ∨
    (∃ c, classify raw = .act (.program c) ∧ fo = false ∧
        ((px (cstr c) = .crashed ∧ y = .childCrashed) ∨
         (∃ code e, px (cstr c) = .exited code ∧ progClass code = .exit e ∧ y = .progExit e)) ∧
        (dispatch px dx first fo [raw]).did = [.program c]) ∨
    (∃ i, classify raw = .act i ∧ isFile i = true ∧ fo = false ∧ dx i = some y ∧
        (dispatch px dx first fo [raw]).did = [i]) := by
  cases hc : classify raw with
  | blank => cases first <;> simp_all [dispatch, Trace.cons]
  | comment => simp [dispatch, hc, Trace.cons] at h
  | plusOther => simp [dispatch, hc, Trace.cons] at h
  | list => simp [dispatch, hc, Trace.cons] at h
  | act i =>
    cases i with
    | forward a => simp [dispatch, hc, Trace.cons] at h
    | program c =>
      cases fo with
      | true =>
        simp [dispatch, hc] at h
        right; left; exact ⟨.program c, rfl, rfl, rfl, by simp [isProgram, h], by simp [dispatch, hc]⟩
      | false =>
        cases hp : px (cstr c) with
        | crashed =>
          simp [dispatch, hc, hp] at h
          right; right; left
          exact ⟨c, rfl, rfl, Or.inl ⟨hp, h.symm⟩, by simp [dispatch, hc, hp]⟩
        | exited code =>
          cases hk : progClass code with
          | ok => simp [dispatch, hc, hp, hk, Trace.cons] at h
          | stop99 => simp [dispatch, hc, hp, hk, Trace.cons] at h
          | exit e =>
            simp [dispatch, hc, hp, hk] at h
            right; right; left
            exact ⟨c, rfl, rfl, Or.inr ⟨code, e, hp, hk, h.symm⟩, by simp [dispatch, hc, hp, hk]⟩
    | mbox f =>
      cases fo with
      | true =>
        simp [dispatch, hc] at h
        right; left; exact ⟨.mbox f, rfl, rfl, rfl, by simp [isProgram, h], by simp [dispatch, hc]⟩
      | false =>
        cases hk : dx (.mbox f) with
        | none => simp [dispatch, hc, hk, Trace.cons] at h
        | some z =>
          simp [dispatch, hc, hk] at h
          right; right; right
          exact ⟨.mbox f, rfl, rfl, rfl, by rw [hk, h], by simp [dispatch, hc, hk]⟩
    | maildir f =>
      cases fo with
      | true =>
        simp [dispatch, hc] at h
        right; left; exact ⟨.maildir f, rfl, rfl, rfl, by simp [isProgram, h], by simp [dispatch, hc]⟩
      | false =>
        cases hk : dx (.maildir f) with
        | none => simp [dispatch, hc, hk, Trace.cons] at h
        | some z =>
          simp [dispatch, hc, hk] at h
          right; right; right
          exact ⟨.maildir f, rfl, rfl, rfl, by rw [hk, h], by simp [dispatch, hc, hk]⟩

/-- the only line that stops the loop without failing: a command, allowed to run, that exits with a "stop" code -/
theorem line_stop99 (px : Bytes → PRes) (dx : Instr → Option Why) (raw : Bytes) (first fo : Bool)
    (h : (dispatch px dx first fo [raw]).fin = .stop99) :
    ∃ c code, classify raw = .act (.program c) ∧ fo = false ∧ px (cstr c) = .exited code ∧ progClass code = .stop99 ∧
      (dispatch px dx first fo [raw]).did = [.program c] := by
  cases hc : classify raw with
  | blank => cases first <;> simp [dispatch, hc, Trace.cons] at h
  | comment => simp [dispatch, hc, Trace.cons] at h
  | plusOther => simp [dispatch, hc, Trace.cons] at h
  | list => simp [dispatch, hc, Trace.cons] at h
  | act i =>
    cases i with
    | forward a => simp [dispatch, hc, Trace.cons] at h
    | program c =>
      cases fo with
      | true => simp [dispatch, hc] at h
      | false =>
        cases hp : px (cstr c) with
        | crashed => simp [dispatch, hc, hp] at h
        | exited code =>
          cases hk : progClass code with
          | ok => simp [dispatch, hc, hp, hk, Trace.cons] at h
          | exit e => simp [dispatch, hc, hp, hk] at h
          | stop99 => exact ⟨c, code, rfl, rfl, hp, hk, by simp [dispatch, hc, hp, hk]⟩
    | mbox f =>
      cases fo with
      | true => simp [dispatch, hc] at h
      | false => cases hk : dx (.mbox f) <;> simp [dispatch, hc, hk, Trace.cons] at h
    | maildir f =>
      cases fo with
      | true => simp [dispatch, hc] at h
      | false => cases hk : dx (.maildir f) <;> simp [dispatch, hc, hk, Trace.cons] at h

/-! ### every instruction acted upon succeeded, unless the loop ended in a failure -/

/-- what "succeeded" means for an instruction that was acted on: a command ran and exited with a code of the
"continue" or "stop" class; a file delivery reported no failure; a forward line is only collected -/
def Succeeded (px : Bytes → PRes) (dx : Instr → Option Why) : Instr → Prop
  | .program c => ∃ code, px (cstr c) = .exited code ∧ (progClass code = .ok ∨ progClass code = .stop99)
  | .mbox f => dx (.mbox f) = none
  | .maildir f => dx (.maildir f) = none
  | .forward _ => True

theorem dispatch_all_ok (px : Bytes → PRes) (dx : Instr → Option Why) :
    ∀ (lines : List Bytes) (first fo : Bool), (dispatch px dx first fo lines).fin.isDie = false →
      ∀ i ∈ (dispatch px dx first fo lines).did, Succeeded px dx i
  | [], _, _, _, i, hi => by simp [dispatch] at hi
  | raw :: rest, first, fo, h, i, hi => by
    have ih := dispatch_all_ok px dx rest
    cases hcl : classify raw with
    | blank =>
      cases first <;> simp [dispatch, hcl, Fin.isDie] at h hi
      exact ih _ _ h i hi
    | comment => simp [dispatch, hcl] at h hi; exact ih _ _ h i hi
    | plusOther => simp [dispatch, hcl] at h hi; exact ih _ _ h i hi
    | list => simp [dispatch, hcl] at h hi; exact ih _ _ h i hi
    | act j =>
      cases j with
      | forward a =>
        simp [dispatch, hcl, Trace.cons] at h hi
        rcases hi with rfl | hi
        · trivial
        · exact ih _ _ h i hi
      | program c =>
        cases fo with
        | true => simp [dispatch, hcl, Fin.isDie] at h
        | false =>
          cases hp : px (cstr c) with
          | crashed => simp [dispatch, hcl, hp, Fin.isDie] at h
          | exited code =>
            cases hk : progClass code with
            | ok =>
              simp [dispatch, hcl, hp, hk, Trace.cons] at h hi
              rcases hi with rfl | hi
              · exact ⟨code, hp, Or.inl hk⟩
              · exact ih _ _ h i hi
            | stop99 =>
              simp [dispatch, hcl, hp, hk] at h hi
              subst hi; exact ⟨code, hp, Or.inr hk⟩
            | exit e => simp [dispatch, hcl, hp, hk, Fin.isDie] at h
      | mbox f =>
        cases fo with
        | true => simp [dispatch, hcl, Fin.isDie] at h
        | false =>
          cases hk : dx (.mbox f) with
          | some y => simp [dispatch, hcl, hk, Fin.isDie] at h
          | none =>
            simp [dispatch, hcl, hk, Trace.cons] at h hi
            rcases hi with rfl | hi
            · exact hk
            · exact ih _ _ h i hi
      | maildir f =>
        cases fo with
        | true => simp [dispatch, hcl, Fin.isDie] at h
        | false =>
          cases hk : dx (.maildir f) with
          | some y => simp [dispatch, hcl, hk, Fin.isDie] at h
          | none =>
            simp [dispatch, hcl, hk, Trace.cons] at h hi
            rcases hi with rfl | hi
            · exact hk
            · exact ih _ _ h i hi

/-- a failing exit class of a command is never 0 -/
theorem progClass_exit_ne_zero (code e : Nat) (h : progClass code = .exit e) : e = 100 ∨ e = 111 := by
  rw [progClass_spec] at h
  cases hv : LocalSpec.exitVerdict code <;> simp [hv] at h
  · exact Or.inl h.symm
  · exact Or.inr h.symm

/-- the diagnostic of a failed loop has a non-zero exit code (file deliveries: by hypothesis on the oracle) -/
theorem dispatch_die_code (px : Bytes → PRes) (dx : Instr → Option Why) (hnz : ∀ i y, isFile i = true → dx i = some y → y.code ≠ 0)
    (lines : List Bytes) (first fo : Bool) (y : Why) (h : (dispatch px dx first fo lines).fin = .die y) : y.code ≠ 0 := by
  obtain ⟨pre, raw, post, _, _, e3, _⟩ := dispatch_split px dx lines first fo (by rw [h]; simp)
  rw [h] at e3
  rcases line_die px dx raw _ _ y e3 with ⟨_, _, rfl, _⟩ | ⟨i, _, _, _, rfl, _⟩ | ⟨c, _, _, hc, _⟩ | ⟨i, _, hif, _, hd, _⟩
  · simp [Why.code, blankFirstCode]
  · split <;> simp [Why.code, xbitProgCode, xbitFileCode]
  · rcases hc with ⟨_, rfl⟩ | ⟨code, e, _, hk, rfl⟩
    · simp [Why.code, childCrashedCode]
    · rcases progClass_exit_ne_zero code e hk with rfl | rfl <;> simp [Why.code]
  · exact hnz i y hif hd

/-! ### after the loop -/

/-- the exit code of following a control file, in all cases -/
theorem deliver_code (a : Args) (w : World) (cmds : Bytes) (fo : Bool) (r : Result) :
    (deliver a w cmds fo r).code =
      (match (dtrace a w cmds fo).fin with
       | .die y => y.code
       | _ =>
         if a.doit = true ∧ (dtrace a w cmds fo).did.filterMap fwdAddr ≠ [] then
           (match w.qq with
            | [] => r.code
            | c :: _ => if c = 68 then fwdHardCode else fwdSoftCode)
         else r.code) := by
  unfold deliver
  cases hf : (dtrace a w cmds fo).fin with
  | die y => simp [hf]
  | done =>
    by_cases hd : a.doit = true <;> by_cases hr : (dtrace a w cmds fo).did.filterMap fwdAddr = [] <;>
      cases hq : w.qq <;> simp [hf, hd, hr, hq, fwdVerdict, Why.code]
  | stop99 =>
    by_cases hd : a.doit = true <;> by_cases hr : (dtrace a w cmds fo).did.filterMap fwdAddr = [] <;>
      cases hq : w.qq <;> simp [hf, hd, hr, hq, fwdVerdict, Why.code]

theorem deliver_out_n (a : Args) (w : World) (cmds : Bytes) (fo : Bool) (r : Result) (hd : a.doit = false) :
    (deliver a w cmds fo r).out =
      ((dtrace a w cmds fo).did.map say).flatten ++
        (if (dtrace a w cmds fo).fin.isDie then [] else didLine (dtrace a w cmds fo).did) := by
  unfold deliver
  cases hf : (dtrace a w cmds fo).fin <;> simp [hf, hd, Fin.isDie]

theorem deliver_out_doit (a : Args) (w : World) (cmds : Bytes) (fo : Bool) (r : Result) (hd : a.doit = true)
    (hc : (deliver a w cmds fo r).why = none) (hr : r.why = none) :
    ∃ tail, (deliver a w cmds fo r).out = didLine (dtrace a w cmds fo).did ++ tail := by
  revert hc
  unfold deliver
  cases hf : (dtrace a w cmds fo).fin with
  | die y => simp [hf]
  | done =>
    by_cases hrr : (dtrace a w cmds fo).did.filterMap fwdAddr = [] <;> cases hq : fwdVerdict w.qq <;> simp [hf, hd, hrr, hq, hr]
  | stop99 =>
    by_cases hrr : (dtrace a w cmds fo).did.filterMap fwdAddr = [] <;> cases hq : fwdVerdict w.qq <;> simp [hf, hd, hrr, hq, hr]

/-! ### following a control file = the documented `follow` -/

/-- the documented "does this file delivery work" derived from the model's oracle -/
def fileCode (dx : Instr → Option Why) : LocalSpec.SInstr → Nat
  | .mbox f => match dx (.mbox f) with | some y => y.code | none => 0
  | .maildir f => match dx (.maildir f) with | some y => y.code | none => 0
  | _ => 0

theorem fileCode_spec (dx : Instr → Option Why) :
    ∀ i, isFile i = true → fileCode dx (specOfInstr i) = match dx i with | some y => y.code | none => 0
  | .mbox _, _ => rfl
  | .maildir _, _ => rfl
  | .program _, h => by simp [isFile] at h
  | .forward _, h => by simp [isFile] at h

/-- a model effect as a documented effect (`none`: a forward line is never "delivered") -/
def specEff : Effect → Option LocalSpec.Effect
  | .deliver (.mbox f) => some (.mbox f)
  | .deliver (.maildir f) => some (.maildir f)
  | .deliver (.program c) => some (.program c)
  | .deliver (.forward _) => none
  | .queue s rs => some (.queue s rs)

theorem specEff_deliveries : ∀ did : List Instr,
    ((did.filter (fun i => !isForward i)).map (fun i => Effect.deliver (cInstr i))).map specEff = (did.filterMap effOf).map some
  | [] => rfl
  | i :: did => by
    have ih := specEff_deliveries did
    cases i with
    | forward a => rw [List.filter_cons_of_neg (by show ¬ (false = true); decide), ih]; rfl
    | mbox f => rw [List.filter_cons_of_pos (by rfl), List.map_cons, List.map_cons, ih]; rfl
    | maildir f => rw [List.filter_cons_of_pos (by rfl), List.map_cons, List.map_cons, ih]; rfl
    | program c => rw [List.filter_cons_of_pos (by rfl), List.map_cons, List.map_cons, ih]; rfl

theorem specEff_deliveries' (did : List Instr) :
    List.map (specEff ∘ fun i => Effect.deliver (cInstr i)) (did.filter (fun i => !isForward i)) =
      (did.filterMap effOf).map some := by
  rw [← List.map_map]; exact specEff_deliveries did

theorem count_file : ∀ did : List Instr,
    ((did.map specOfInstr).filter (fun i => match i with | .mbox _ => true | .maildir _ => true | _ => false)).length =
      (did.filter isFile).length
  | [] => rfl
  | i :: did => by
    have ih := count_file did
    cases i with
    | mbox f => rw [List.map_cons, List.filter_cons_of_pos (by rfl), List.filter_cons_of_pos (by rfl), List.length_cons, List.length_cons, ih]
    | maildir f => rw [List.map_cons, List.filter_cons_of_pos (by rfl), List.filter_cons_of_pos (by rfl), List.length_cons, List.length_cons, ih]
    | program c => rw [List.map_cons, List.filter_cons_of_neg (by show ¬ (false = true); decide), List.filter_cons_of_neg (by show ¬ (false = true); decide), ih]
    | forward a => rw [List.map_cons, List.filter_cons_of_neg (by show ¬ (false = true); decide), List.filter_cons_of_neg (by show ¬ (false = true); decide), ih]

theorem count_forward : ∀ did : List Instr,
    ((did.map specOfInstr).filter (fun i => match i with | .forward _ => true | _ => false)).length =
      (did.filter isForward).length
  | [] => rfl
  | i :: did => by
    have ih := count_forward did
    cases i with
    | forward f => rw [List.map_cons, List.filter_cons_of_pos (by rfl), List.filter_cons_of_pos (by rfl), List.length_cons, List.length_cons, ih]
    | maildir f => rw [List.map_cons, List.filter_cons_of_neg (by show ¬ (false = true); decide), List.filter_cons_of_neg (by show ¬ (false = true); decide), ih]
    | program c => rw [List.map_cons, List.filter_cons_of_neg (by show ¬ (false = true); decide), List.filter_cons_of_neg (by show ¬ (false = true); decide), ih]
    | mbox a => rw [List.map_cons, List.filter_cons_of_neg (by show ¬ (false = true); decide), List.filter_cons_of_neg (by show ¬ (false = true); decide), ih]

theorem count_program : ∀ did : List Instr,
    ((did.map specOfInstr).filter (fun i => match i with | .program _ => true | _ => false)).length =
      (did.filter isProgram).length
  | [] => rfl
  | i :: did => by
    have ih := count_program did
    cases i with
    | program f => rw [List.map_cons, List.filter_cons_of_pos (by rfl), List.filter_cons_of_pos (by rfl), List.length_cons, List.length_cons, ih]
    | maildir f => rw [List.map_cons, List.filter_cons_of_neg (by show ¬ (false = true); decide), List.filter_cons_of_neg (by show ¬ (false = true); decide), ih]
    | forward c => rw [List.map_cons, List.filter_cons_of_neg (by show ¬ (false = true); decide), List.filter_cons_of_neg (by show ¬ (false = true); decide), ih]
    | mbox a => rw [List.map_cons, List.filter_cons_of_neg (by show ¬ (false = true); decide), List.filter_cons_of_neg (by show ¬ (false = true); decide), ih]

/-- the documented walk over the documented lines of `cmds` and the model's trace of the loop agree -/
theorem walk_dtrace (a : Args) (w : World) (cmds : Bytes) (fo : Bool)
    (hnz : ∀ i y, isFile i = true → w.dx i = some y → y.code ≠ 0) :
    (LocalSpec.walk a.doit fo (fun c => toRan (w.px c)) (fileCode w.dx) (LocalSpec.instrLines cmds)).shown.reverse =
        (dtrace a w cmds fo).did.map specOfInstr ∧
    (LocalSpec.walk a.doit fo (fun c => toRan (w.px c)) (fileCode w.dx) (LocalSpec.instrLines cmds)).effects.reverse =
        (if a.doit then (dtrace a w cmds fo).did.filterMap effOf else []) ∧
    (LocalSpec.walk a.doit fo (fun c => toRan (w.px c)) (fileCode w.dx) (LocalSpec.instrLines cmds)).recips.reverse =
        ((dtrace a w cmds fo).did.filterMap fwdAddr).map cstr ∧
    (LocalSpec.walk a.doit fo (fun c => toRan (w.px c)) (fileCode w.dx) (LocalSpec.instrLines cmds)).status =
        finCode (dtrace a w cmds fo).fin := by
  rw [← splitLines_eq_spec]
  unfold dtrace LocalSpec.walk
  cases hd : a.doit with
  | true =>
    obtain ⟨h1, h2, h3, h4⟩ := walk_eq w.px w.dx (fileCode w.dx) (fileCode_spec w.dx) hnz (splitLines (fixup cmds))
      { forwardOnly := fo } rfl
    simp only [if_true]
    refine ⟨?_, ?_, ?_, h4⟩
    · rw [h1]; simp
    · rw [h2]; simp
    · rw [h3]; simp
  | false =>
    obtain ⟨h1, h2, h3, h4⟩ := walk_eq_n (fun c => toRan (w.px c)) (fileCode w.dx) (splitLines (fixup cmds))
      { forwardOnly := fo } rfl
    simp only [Bool.false_eq_true, if_false]
    refine ⟨?_, ?_, ?_, h4⟩
    · rw [h1]; simp
    · rw [h2]; rfl
    · rw [h3]; simp

theorem fwdCodes : fwdHardCode = 100 ∧ fwdSoftCode = 111 := by decide

/-- the last lines of `LocalSpec.follow`, as a function of what the walk produced -/
def finishSpec (doit : Bool) (snd : Bytes) (qc : Nat) (shown : List LocalSpec.SInstr) (effects : List LocalSpec.Effect)
    (recips : List Bytes) (status : Option Nat) : LocalSpec.Expect :=
  let cnt := (shown.filter (fun i => match i with | .mbox _ => true | .maildir _ => true | _ => false)).length
  let cntF := (shown.filter (fun i => match i with | .forward _ => true | _ => false)).length
  let cntP := (shown.filter (fun i => match i with | .program _ => true | _ => false)).length
  if (match status with | some c => c != 0 | none => false) = true then
    { code := status.getD 111, effects := effects, shown := shown, counts := (cnt, cntF, cntP) }
  else if doit = true ∧ recips ≠ [] then
    { code := qc, effects := effects ++ [.queue snd recips], shown := shown, counts := (cnt, cntF, cntP) }
  else { code := 0, effects := effects, shown := shown, counts := (cnt, cntF, cntP) }

theorem follow_finish (doit fo : Bool) (text snd : Bytes) (run : Bytes → LocalSpec.Ran) (fileOK : LocalSpec.SInstr → Nat)
    (qc : Nat) :
    LocalSpec.follow doit fo text snd run fileOK qc =
      finishSpec doit snd qc (LocalSpec.walk doit fo run fileOK (LocalSpec.instrLines text)).shown.reverse
        (LocalSpec.walk doit fo run fileOK (LocalSpec.instrLines text)).effects.reverse
        (LocalSpec.walk doit fo run fileOK (LocalSpec.instrLines text)).recips.reverse
        (LocalSpec.walk doit fo run fileOK (LocalSpec.instrLines text)).status := by
  unfold LocalSpec.follow finishSpec
  have : ((LocalSpec.walk doit fo run fileOK (LocalSpec.instrLines text)).recips.reverse ≠ []) ↔
      ((LocalSpec.walk doit fo run fileOK (LocalSpec.instrLines text)).recips ≠ []) := by simp
  simp only [this]
  rfl

theorem finishSpec_shown (doit : Bool) (snd : Bytes) (qc : Nat) (shown : List LocalSpec.SInstr)
    (effects : List LocalSpec.Effect) (recips : List Bytes) (status : Option Nat) :
    (finishSpec doit snd qc shown effects recips status).shown = shown := by
  unfold finishSpec; dsimp only
  (repeat' split) <;> rfl

theorem finishSpec_counts (doit : Bool) (snd : Bytes) (qc : Nat) (did : List Instr)
    (effects : List LocalSpec.Effect) (recips : List Bytes) (status : Option Nat) :
    (finishSpec doit snd qc (did.map specOfInstr) effects recips status).counts =
      ((did.filter isFile).length, (did.filter isForward).length, (did.filter isProgram).length) := by
  unfold finishSpec; simp only [count_file, count_forward, count_program]
  (repeat' split) <;> rfl

/-- **`deliver` = `LocalSpec.follow`**, finalisation included: exit code, effects in order (the forwarded copy last),
instructions acted upon, counts -/
theorem deliver_follow (a : Args) (w : World) (cmds : Bytes) (fo : Bool) (r : Result)
    (hnz : ∀ i y, isFile i = true → w.dx i = some y → y.code ≠ 0) (hr : r.code = 0) :
    (deliver a w cmds fo r).code =
      (LocalSpec.follow a.doit fo cmds (r.ueo.getD []) (fun c => toRan (w.px c)) (fileCode w.dx) (LocalSpec.queueVerdict w.qq)).code ∧
    (deliver a w cmds fo r).effects.map specEff =
      (LocalSpec.follow a.doit fo cmds (r.ueo.getD []) (fun c => toRan (w.px c)) (fileCode w.dx) (LocalSpec.queueVerdict w.qq)).effects.map some ∧
    (deliver a w cmds fo r).did.map specOfInstr =
      (LocalSpec.follow a.doit fo cmds (r.ueo.getD []) (fun c => toRan (w.px c)) (fileCode w.dx) (LocalSpec.queueVerdict w.qq)).shown ∧
    (LocalSpec.follow a.doit fo cmds (r.ueo.getD []) (fun c => toRan (w.px c)) (fileCode w.dx) (LocalSpec.queueVerdict w.qq)).counts =
      (((deliver a w cmds fo r).did.filter isFile).length, ((deliver a w cmds fo r).did.filter isForward).length,
       ((deliver a w cmds fo r).did.filter isProgram).length) := by
  obtain ⟨k1, k2, k3, k4⟩ := walk_dtrace a w cmds fo hnz
  rw [follow_finish, k1, k2, k3, k4, deliver_did, finishSpec_shown, finishSpec_counts]
  refine ⟨?_, ?_, rfl, rfl⟩
  · -- exit code
    rw [deliver_code]
    unfold finishSpec
    cases hf : (dtrace a w cmds fo).fin with
    | die y =>
      have hy : y.code ≠ 0 := by
        unfold dtrace at hf
        split at hf
        · exact dispatch_die_code w.px w.dx hnz _ _ _ y hf
        · exact dispatch_die_code _ _ (by intro i y _ h; simp at h) _ _ _ y hf
      simp [finCode, hy]
    | done =>
      by_cases hd : a.doit = true <;> by_cases hrr : (dtrace a w cmds fo).did.filterMap fwdAddr = [] <;>
        cases hq : w.qq <;> simp [finCode, hd, hrr, hr, LocalSpec.queueVerdict, fwdCodes.1, fwdCodes.2]
    | stop99 =>
      by_cases hd : a.doit = true <;> by_cases hrr : (dtrace a w cmds fo).did.filterMap fwdAddr = [] <;>
        cases hq : w.qq <;> simp [finCode, hd, hrr, hr, LocalSpec.queueVerdict, fwdCodes.1, fwdCodes.2]
  · -- effects
    rw [deliver_effects]
    unfold finishSpec
    cases hf : (dtrace a w cmds fo).fin with
    | die y =>
      have hy : y.code ≠ 0 := by
        unfold dtrace at hf
        split at hf
        · exact dispatch_die_code w.px w.dx hnz _ _ _ y hf
        · exact dispatch_die_code _ _ (by intro i y _ h; simp at h) _ _ _ y hf
      cases hd : a.doit <;> simp [finCode, hy, Fin.isDie, specEff_deliveries']
    | done =>
      by_cases hd : a.doit = true <;> by_cases hrr : (dtrace a w cmds fo).did.filterMap fwdAddr = [] <;>
        simp [finCode, hd, hrr, Fin.isDie, specEff_deliveries', specEff]
    | stop99 =>
      by_cases hd : a.doit = true <;> by_cases hrr : (dtrace a w cmds fo).did.filterMap fwdAddr = [] <;>
        simp [finCode, hd, hrr, Fin.isDie, specEff_deliveries', specEff]

/-! ### one whole delivery = the documented outcome -/

/-- the model's result `r` is the documented outcome `e`: exit code, effects in order, instructions acted upon, counts,
and what is printed (with `-n`: everything; when delivering and successful: the counts line first) -/
def Matches (doit : Bool) (r : Result) (e : LocalSpec.Expect) : Prop :=
  r.code = e.code ∧ r.effects.map specEff = e.effects.map some ∧ r.did.map specOfInstr = e.shown ∧
  e.counts = ((r.did.filter isFile).length, (r.did.filter isForward).length, (r.did.filter isProgram).length) ∧
  (doit = false → r.out = LocalSpec.printedN e) ∧
  (doit = true → e.code = 0 → ∃ tail, r.out = LocalSpec.didl e.counts ++ tail)

theorem matches_refuse (doit : Bool) (r : Result) (c : Nat) (hc : r.code = c) (hz : c ≠ 0) (he : r.effects = [])
    (hd : r.did = []) (ho : r.out = []) : Matches doit r (LocalSpec.refuse c) := by
  refine ⟨hc, by simp [he, LocalSpec.refuse], by simp [hd, LocalSpec.refuse], by simp [hd, LocalSpec.refuse], ?_, ?_⟩
  · intro _; simp [ho, LocalSpec.printedN, LocalSpec.refuse, hz]
  · intro _ h; exact absurd h hz

theorem say_describe (i : Instr) : LocalSpec.describe (specOfInstr i) = say i := by cases i <;> rfl

theorem didl_didLine (did : List Instr) :
    LocalSpec.didl ((did.filter isFile).length, (did.filter isForward).length, (did.filter isProgram).length) = didLine did := rfl

theorem matches_deliver (a : Args) (w : World) (cmds : Bytes) (fo : Bool) (r : Result)
    (hnz : ∀ i y, isFile i = true → w.dx i = some y → y.code ≠ 0) (hr : r.code = 0) :
    Matches a.doit (deliver a w cmds fo r)
      (LocalSpec.follow a.doit fo cmds (r.ueo.getD []) (fun c => toRan (w.px c)) (fileCode w.dx) (LocalSpec.queueVerdict w.qq)) := by
  obtain ⟨h1, h2, h3, h4⟩ := deliver_follow a w cmds fo r hnz hr
  have hdie : ∀ y, (dtrace a w cmds fo).fin = .die y → y.code ≠ 0 := by
    intro y hf
    unfold dtrace at hf
    split at hf
    · exact dispatch_die_code w.px w.dx hnz _ _ _ y hf
    · exact dispatch_die_code _ _ (by intro i y _ h; simp at h) _ _ _ y hf
  refine ⟨h1, h2, h3, h4, ?_, ?_⟩
  · intro hd
    unfold LocalSpec.printedN
    rw [← h3, h4, ← h1, didl_didLine, deliver_out_n a w cmds fo r hd, deliver_did, deliver_code]
    have : ((dtrace a w cmds fo).did.map specOfInstr).map LocalSpec.describe = (dtrace a w cmds fo).did.map say := by
      rw [List.map_map]; apply List.map_congr_left; intro i _; exact say_describe i
    rw [this]
    cases hf : (dtrace a w cmds fo).fin with
    | die y => simp [Fin.isDie, hdie y hf]
    | done => simp [Fin.isDie, hd, hr]
    | stop99 => simp [Fin.isDie, hd, hr]
  · intro hd h0
    rw [← h1] at h0
    rw [h4, didl_didLine, deliver_did]
    revert h0
    unfold deliver
    cases hf : (dtrace a w cmds fo).fin with
    | die y => simp only [hf]; intro h0; exact absurd h0 (hdie y hf)
    | done =>
      by_cases hrr : (dtrace a w cmds fo).did.filterMap fwdAddr = [] <;> cases hq : w.qq <;>
        simp [hf, hd, hrr, hq, fwdVerdict, Why.code, fwdCodes.1, fwdCodes.2]
      intro h; split at h <;> simp at h
    | stop99 =>
      by_cases hrr : (dtrace a w cmds fo).did.filterMap fwdAddr = [] <;> cases hq : w.qq <;>
        simp [hf, hd, hrr, hq, fwdVerdict, Why.code, fwdCodes.1, fwdCodes.2]
      intro h; split at h <;> simp at h

/-- the home directory as the documentation sees it -/
def entryOf : FStat → LocalSpec.Entry
  | .absent => .missing
  | .temp => .unreadable
  | .reg m c => .file m c

/-- the documentation's view of an invocation of the model (`hm`: mode of the home directory) -/
def settingOf (a : Args) (w : World) (hm : Nat) : LocalSpec.Setting :=
  { doit := a.doit, homeMode := hm, loc := a.loc, dash := a.dash, ext := a.ext, host := a.host, sender := a.sender,
    dflt := a.aliasempty, msg := a.msg, look := fun n => entryOf (w.fs n), present := w.ex,
    run := fun c => toRan (w.px c), fileOK := fileCode w.dx, queueReply := w.qq }

/-- the plan, as a function of what `qmesearch` found -/
def planOfSel (dash dflt : Bytes) : Sel → Except Nat (Bytes × Bool)
  | .nofile => if dash ≠ [] then .error 100 else .ok (dflt, false)
  | .temp _ => .error 111
  | .writable _ => .error 111
  | .found _ m ct => if ct = [] then .ok (dflt, false) else .ok (ct, m &&& 0o100 != 0)

theorem plan_select (fs : Bytes → FStat) (dash dflt : Bytes) : ∀ cs : List Cand,
    (match LocalSpec.control (fun n => entryOf (fs n)) (cs.map Cand.name) with
     | none => if dash ≠ [] then Except.error 100 else .ok (dflt, false)
     | some (_, .file m content) =>
       if m &&& 2 ≠ 0 then .error 111 else if content = [] then .ok (dflt, false) else .ok (content, m &&& 0o100 != 0)
     | some (_, _) => .error 111) = planOfSel dash dflt (qmeSelect fs cs)
  | [] => rfl
  | c :: rest => by
    have ih := plan_select fs dash dflt rest
    simp only [List.map_cons, LocalSpec.control, qmeSelect]
    cases h : fs c.name with
    | absent => simpa [entryOf] using ih
    | temp => simp [entryOf, planOfSel]
    | reg m ct =>
      by_cases hm : m &&& 2 = 0
      · simp [entryOf, planOfSel, patrn, hm]
      · simp [entryOf, planOfSel, patrn, hm]

theorem plan_eq (a : Args) (w : World) (hm : Nat) :
    LocalSpec.plan (settingOf a w hm) =
      planOfSel a.dash a.aliasempty (qmeSelect w.fs (qmeCandidates a.dash (safeext a.ext))) := by
  unfold LocalSpec.plan
  simp only [settingOf]
  rw [← candidates_eq_spec]
  exact plan_select w.fs a.dash a.aliasempty _

theorem senderFor_eq (a : Args) (w : World) (hm : Nat) :
    LocalSpec.senderFor (settingOf a w hm) =
      (match ueoOf a.loc a.dash (safeext a.ext) a.host a.sender w.ex with
       | .ok u => some u
       | .error _ => none) := by
  unfold LocalSpec.senderFor ueoOf
  simp only [settingOf]
  rw [← safeext_eq_spec]
  by_cases hs : a.sender = [] ∨ a.sender = bounceVerp
  · have hs' : a.sender = [] ∨ a.sender = [35, 64, 91, 93] := by simpa [bounceVerp] using hs
    simp [hs, hs']
  · have hs' : ¬ (a.sender = [] ∨ a.sender = [35, 64, 91, 93]) := by simpa [bounceVerp] using hs
    simp only [hs, hs', if_false]
    show (match w.ex (dotQmail ++ a.dash ++ safeext a.ext ++ ownerB) with
      | none => none
      | some false => some a.sender
      | some true =>
        match w.ex (dotQmail ++ a.dash ++ safeext a.ext ++ ownerDefaultB) with
        | none => none
        | some od => some (LocalSpec.forwardSender a.loc a.host a.sender true od)) = _
    cases h1 : w.ex (dotQmail ++ a.dash ++ safeext a.ext ++ ownerB) with
    | none => rfl
    | some o1 =>
      cases o1 with
      | false => rfl
      | true =>
        cases h2 : w.ex (dotQmail ++ a.dash ++ safeext a.ext ++ ownerDefaultB) with
        | none => rfl
        | some o2 => cases o2 <;> simp [LocalSpec.forwardSender, hs', ownerB, DASH, AT]

theorem ownerNames_eq (a : Args) (w : World) (hm : Nat) :
    LocalSpec.ownerNames (settingOf a w hm) = ueoStats a.dash (safeext a.ext) a.sender w.ex := by
  unfold LocalSpec.ownerNames ueoStats
  simp only [settingOf]
  rw [← safeext_eq_spec]
  by_cases hs : a.sender = [] ∨ a.sender = bounceVerp
  · have hs' : a.sender = [] ∨ a.sender = [35, 64, 91, 93] := by simpa [bounceVerp] using hs
    simp [hs, hs']
  · have hs' : ¬ (a.sender = [] ∨ a.sender = [35, 64, 91, 93]) := by simpa [bounceVerp] using hs
    simp only [hs, hs', if_false]
    rfl

/-- **`run` = `LocalSpec.outcome`**: for every invocation and every state of the world in which the home directory can
be examined, the model of `main()` produces exactly the documented outcome -/
theorem run_outcome (a : Args) (w : World) (hm : Nat) (hh : w.home = some hm)
    (hnz : ∀ i y, isFile i = true → w.dx i = some y → y.code ≠ 0) :
    Matches a.doit (run a w) (LocalSpec.outcome (settingOf a w hm)) := by
  unfold LocalSpec.outcome
  rw [plan_eq, senderFor_eq]
  have hS1 : (settingOf a w hm).homeMode = hm := rfl
  have hS2 : (settingOf a w hm).doit = a.doit := rfl
  have hS3 : LocalSpec.loops (settingOf a w hm).loc (settingOf a w hm).host (settingOf a w hm).msg =
      bouncexf (dtline a.loc a.host) a.msg := (bouncexf_eq_spec a.loc a.host a.msg).symm
  rw [hS1, hS2, hS3]
  unfold run
  rw [hh]
  by_cases hw0 : hm &&& 2 ≠ 0
  · have hp : hm &&& patrn ≠ 0 := by simpa [patrn] using hw0
    have hck : checkhome a.doit (some hm) = (some .homeWritable, false) := by simp [checkhome, hp]
    rw [hck, if_pos (Or.inl hw0)]
    exact matches_refuse _ _ 111 (by simp [Why.code, homeWritableCode]) (by simp) rfl rfl rfl
  have hw : hm &&& 2 = 0 := by simpa using hw0
  have hw' : ¬ (hm &&& patrn ≠ 0) := by simpa [patrn] using hw
  by_cases hst : hm &&& 0o1000 ≠ 0 ∧ a.doit = true
  · have h1 : hm &&& stickyBit ≠ 0 := by simpa [stickyBit] using hst.1
    have hck : checkhome a.doit (some hm) = (some .homeSticky, false) := by simp [checkhome, hw', h1, hst.2]
    rw [hck, if_pos (Or.inr hst)]
    exact matches_refuse _ _ 111 (by simp [Why.code, homeStickyCode]) (by simp) rfl rfl rfl
  have hcond : ¬ (hm &&& 2 ≠ 0 ∨ (hm &&& 0o1000 ≠ 0 ∧ a.doit = true)) := by
    intro h; rcases h with h | h
    · exact h hw
    · exact hst h
  simp only [hcond, if_false]
  -- checkhome lets the run continue (possibly with the sticky warning)
  have hck : ∃ warn, checkhome a.doit (some hm) = (none, warn) := by
    unfold checkhome
    simp only [hw', if_false]
    by_cases h1 : hm &&& stickyBit ≠ 0
    · have hd : a.doit = false := by
        cases hd : a.doit with
        | false => rfl
        | true => exact absurd ⟨by simpa [stickyBit] using h1, hd⟩ hst
      simp [h1, hd]
    · simp [h1]
  obtain ⟨warn, hck⟩ := hck
  rw [hck]
  simp only
  by_cases hl : a.doit = true ∧ bouncexf (dtline a.loc a.host) a.msg = true
  · simp only [hl, and_self, if_true]
    exact matches_refuse _ _ 100 (by simp [Why.code, loopingCode]) (by simp) rfl rfl rfl
  simp only [hl, if_false]
  cases hs : qmeSelect w.fs (qmeCandidates a.dash (safeext a.ext)) with
  | temp n => exact matches_refuse _ _ 111 rfl (by simp) rfl rfl rfl
  | writable n => exact matches_refuse _ _ 111 (by simp [Why.code, qmailWritableCode]) (by simp) rfl rfl rfl
  | nofile =>
    simp only [planOfSel]
    by_cases hd : a.dash = []
    · have hdn : ¬ (a.dash ≠ []) := by simp [hd]
      simp only [hdn, if_false]
      cases hu : ueoOf a.loc a.dash (safeext a.ext) a.host a.sender w.ex with
      | error n => exact matches_refuse _ _ 111 rfl (by simp) rfl rfl rfl
      | ok u => exact matches_deliver a w a.aliasempty false _ hnz rfl
    · simp only [hd, ne_eq, not_false_eq_true, if_true]
      exact matches_refuse _ _ 100 (by simp [Why.code, noMailboxCode]) (by simp) rfl rfl rfl
  | found c mode content =>
    simp only [planOfSel]
    cases hu : ueoOf a.loc a.dash (safeext a.ext) a.host a.sender w.ex with
    | error n =>
      by_cases hc : content = []
      · simp only [hc, if_true]; exact matches_refuse _ _ 111 rfl (by simp) rfl rfl rfl
      · simp only [hc, if_false]; exact matches_refuse _ _ 111 rfl (by simp) rfl rfl rfl
    | ok u =>
      by_cases hc : content = []
      · simp only [hc, if_true]; exact matches_deliver a w a.aliasempty false _ hnz rfl
      · simp only [hc, if_false]
        have hb : (mode &&& 0o100 != 0) = decide (mode &&& xBit ≠ 0) := by
          by_cases hx : mode &&& 0o100 = 0 <;> simp [xBit, hx]
        rw [hb]
        exact matches_deliver a w content _ _ hnz rfl

/-! ### every name opened or examined during a run is confined to the home directory -/

theorem qmeTried_sub (fs : Bytes → FStat) : ∀ (cs : List Cand) (n : Bytes), n ∈ qmeTried fs cs → ∃ c ∈ cs, c.name = n
  | [], n, h => by simp [qmeTried] at h
  | c :: rest, n, h => by
    unfold qmeTried at h
    split at h
    · rcases List.mem_cons.1 h with h | h
      · exact ⟨c, List.mem_cons_self .., h.symm⟩
      · obtain ⟨d, hd, e⟩ := qmeTried_sub fs rest n h
        exact ⟨d, List.mem_cons_of_mem _ hd, e⟩
    · have : n = c.name := by simpa using h
      exact ⟨c, List.mem_cons_self .., this.symm⟩

theorem deliver_tried (a : Args) (w : World) (cmds : Bytes) (fo : Bool) (r : Result) :
    (deliver a w cmds fo r).tried = r.tried ∧ (deliver a w cmds fo r).stats = r.stats := by
  unfold deliver
  simp only
  split
  · exact ⟨rfl, rfl⟩
  · split
    · split <;> exact ⟨rfl, rfl⟩
    · exact ⟨rfl, rfl⟩

/-- the names opened are an initial part of the search, the names given to `stat` are the owner names — or the run
ended before that stage and the list is empty -/
theorem run_tried_stats (a : Args) (w : World) :
    ((run a w).tried = [] ∨ (run a w).tried = qmeTried w.fs (qmeCandidates a.dash (safeext a.ext))) ∧
    ((run a w).stats = [] ∨ (run a w).stats = ueoStats a.dash (safeext a.ext) a.sender w.ex) := by
  unfold run
  split
  · exact ⟨Or.inl rfl, Or.inl rfl⟩
  · split
    · exact ⟨Or.inl rfl, Or.inl rfl⟩
    · simp only
      split
      · exact ⟨Or.inr rfl, Or.inl rfl⟩
      · exact ⟨Or.inr rfl, Or.inl rfl⟩
      · split
        · exact ⟨Or.inr rfl, Or.inl rfl⟩
        · split
          · exact ⟨Or.inr rfl, Or.inr rfl⟩
          · exact ⟨Or.inr (by rw [(deliver_tried ..).1]), Or.inr (by rw [(deliver_tried ..).2])⟩
      · split
        · exact ⟨Or.inr rfl, Or.inr rfl⟩
        · split
          · exact ⟨Or.inr (by rw [(deliver_tried ..).1]), Or.inr (by rw [(deliver_tried ..).2])⟩
          · exact ⟨Or.inr (by rw [(deliver_tried ..).1]), Or.inr (by rw [(deliver_tried ..).2])⟩

theorem ownerB_no_dot : DOT ∉ ownerB := by decide
theorem ownerDefaultB_no_dot : DOT ∉ ownerDefaultB := by decide

theorem ueoStats_confined (dash ext sender : Bytes) (ex : Bytes → Option Bool) (hd : DOT ∉ dash) :
    ∀ n ∈ ueoStats dash (safeext ext) sender ex, LocalSpec.confined n = true := by
  have h1 : LocalSpec.confined (dotQmail ++ dash ++ safeext ext ++ ownerB) = true := by
    rw [List.append_assoc, List.append_assoc]
    apply confined_of_no_dot
    intro h
    rcases List.mem_append.1 h with h | h
    · exact hd h
    · rcases List.mem_append.1 h with h | h
      · exact safeext_no_dot ext h
      · exact ownerB_no_dot h
  have h2 : LocalSpec.confined (dotQmail ++ dash ++ safeext ext ++ ownerDefaultB) = true := by
    rw [List.append_assoc, List.append_assoc]
    apply confined_of_no_dot
    intro h
    rcases List.mem_append.1 h with h | h
    · exact hd h
    · rcases List.mem_append.1 h with h | h
      · exact safeext_no_dot ext h
      · exact ownerDefaultB_no_dot h
  intro n hn
  unfold ueoStats at hn
  split at hn
  · simp at hn
  · simp only at hn
    split at hn
    · rcases List.mem_cons.1 hn with rfl | hn
      · exact h1
      · have : n = dotQmail ++ dash ++ safeext ext ++ ownerDefaultB := by simpa using hn
        rw [this]; exact h2
    · have : n = dotQmail ++ dash ++ safeext ext ++ ownerB := by simpa using hn
      rw [this]; exact h1

/-- the envelope sender depends on the world only through the names in `ueoStats` -/
theorem ueoOf_congr (loc dash sx host sender : Bytes) (ex ex' : Bytes → Option Bool)
    (h : ∀ n ∈ ueoStats dash sx sender ex, ex' n = ex n) :
    ueoOf loc dash sx host sender ex' = ueoOf loc dash sx host sender ex := by
  unfold ueoOf
  unfold ueoStats at h
  by_cases hs : sender = [] ∨ sender = bounceVerp
  · simp [hs]
  · simp only [hs, if_false] at h ⊢
    cases h1 : ex (dotQmail ++ dash ++ sx ++ ownerB) with
    | none => rw [h1] at h; rw [h _ (by simp), h1]
    | some o1 =>
      cases o1 with
      | false => rw [h1] at h; rw [h _ (by simp), h1]
      | true =>
        rw [h1] at h
        rw [h (dotQmail ++ dash ++ sx ++ ownerB) (by simp), h1]
        simp only
        rw [h (dotQmail ++ dash ++ sx ++ ownerDefaultB) (by simp)]

/-! ### loop detection: the converse -/

/-- file deliveries fail with a file-delivery diagnostic and a non-zero exit code -/
def DxSane (dx : Instr → Option Why) : Prop :=
  ∀ i y, isFile i = true → dx i = some y → ∃ c t, y = .fileFail c t ∧ c ≠ 0

theorem DxSane.nz {dx : Instr → Option Why} (h : DxSane dx) : ∀ i y, isFile i = true → dx i = some y → y.code ≠ 0 := by
  intro i y hi hy
  obtain ⟨c, t, rfl, hc⟩ := h i y hi hy
  exact hc

theorem dispatch_die_ne_looping (px : Bytes → PRes) (dx : Instr → Option Why) (hdx : DxSane dx)
    (lines : List Bytes) (first fo : Bool) (y : Why) (h : (dispatch px dx first fo lines).fin = .die y) : y ≠ .looping := by
  obtain ⟨pre, raw, post, _, _, e3, _⟩ := dispatch_split px dx lines first fo (by rw [h]; simp)
  rw [h] at e3
  rcases line_die px dx raw _ _ y e3 with ⟨_, _, rfl, _⟩ | ⟨i, _, _, _, rfl, _⟩ | ⟨c, _, _, hc, _⟩ | ⟨i, _, hif, _, hd, _⟩
  · simp
  · split <;> simp
  · rcases hc with ⟨_, rfl⟩ | ⟨code, e, _, hk, rfl⟩ <;> simp
  · obtain ⟨c, t, rfl, _⟩ := hdx i y hif hd; simp

theorem deliver_why_ne_looping (a : Args) (w : World) (cmds : Bytes) (fo : Bool) (r : Result) (hdx : DxSane w.dx)
    (hr : r.why = none) : (deliver a w cmds fo r).why ≠ some .looping := by
  unfold deliver
  cases hf : (dtrace a w cmds fo).fin with
  | die y =>
    have : y ≠ .looping := by
      unfold dtrace at hf
      split at hf
      · exact dispatch_die_ne_looping _ _ hdx _ _ _ y hf
      · exact dispatch_die_ne_looping _ _ (by intro i y _ h; simp at h) _ _ _ y hf
    simp [hf, this]
  | done =>
    simp only [hf]
    split
    · cases hq : w.qq <;> simp [fwdVerdict, hr]
    · simp [hr]
  | stop99 =>
    simp only [hf]
    split
    · cases hq : w.qq <;> simp [fwdVerdict, hr]
    · simp [hr]

theorem checkhome_some_ne_looping (d : Bool) (home : Option Nat) (y : Why) (warn : Bool)
    (hc : checkhome d home = (some y, warn)) : y ≠ .looping := by
  revert hc
  unfold checkhome
  cases home with
  | none => simp; rintro rfl _; simp
  | some m =>
    simp only
    split
    · simp; rintro rfl _; simp
    · split
      · split
        · simp; rintro rfl _; simp
        · simp
      · simp

/-- the looping diagnostic is given only when delivering a message whose header has this recipient's Delivered-To line -/
theorem run_looping_only (a : Args) (w : World) (hdx : DxSane w.dx) (h : (run a w).why = some .looping) :
    a.doit = true ∧ LocalSpec.loops a.loc a.host a.msg = true := by
  rw [← bouncexf_eq_spec]
  revert h
  unfold run
  rcases hc : checkhome a.doit w.home with ⟨_ | y, warn⟩
  · simp only
    split
    · rename_i hl; intro _; exact hl
    · split
      · simp
      · simp
      · split
        · simp
        · split
          · simp
          · intro h; exact absurd h (deliver_why_ne_looping a w _ _ _ hdx rfl)
      · split
        · simp
        · split
          · intro h; exact absurd h (deliver_why_ne_looping a w _ _ _ hdx rfl)
          · intro h; exact absurd h (deliver_why_ne_looping a w _ _ _ hdx rfl)
  · simp only
    intro h
    have := checkhome_some_ne_looping _ _ _ _ hc
    simp at h
    exact absurd h this

/-! ### the result record handed to the instruction loop is fresh -/

/-- nothing has happened yet: exit code 0, no diagnostic, nothing acted upon, delivered or printed -/
def Fresh (r : Result) : Prop := r.code = 0 ∧ r.why = none ∧ r.did = [] ∧ r.effects = [] ∧ r.out = []

theorem run_nofile_nodash' (a : Args) (w : World) (hh : HomeOK a w) (hn : NoLoop a)
    (hs : qmeSelect w.fs (qmeCandidates a.dash (safeext a.ext)) = .nofile) (hd : a.dash = []) (u : Bytes)
    (hu : ueoOf a.loc a.dash (safeext a.ext) a.host a.sender w.ex = .ok u) :
    ∃ r0, run a w = deliver a w a.aliasempty false r0 ∧ r0.ueo = some u ∧ Fresh r0 := by
  obtain ⟨warn, hh⟩ := hh
  unfold NoLoop at hn; rw [← bouncexf_eq_spec] at hn
  refine ⟨{ stickyWarn := warn, tried := qmeTried w.fs (qmeCandidates a.dash (safeext a.ext)),
            stats := ueoStats a.dash (safeext a.ext) a.sender w.ex, ueo := some u }, ?_, rfl, rfl, rfl, rfl, rfl, rfl⟩
  simp only [run, hh, hn, hs, hu]
  simp [hd]

theorem run_found' (a : Args) (w : World) (hh : HomeOK a w) (hn : NoLoop a) (c : Cand) (mode : Nat) (content u : Bytes)
    (hs : qmeSelect w.fs (qmeCandidates a.dash (safeext a.ext)) = .found c mode content)
    (hu : ueoOf a.loc a.dash (safeext a.ext) a.host a.sender w.ex = .ok u) :
    ∃ r0, r0.ueo = some u ∧ r0.sel = some c ∧ Fresh r0 ∧
      run a w = if content = [] then deliver a w a.aliasempty false r0 else deliver a w content (mode &&& xBit ≠ 0) r0 := by
  obtain ⟨warn, hh⟩ := hh
  unfold NoLoop at hn; rw [← bouncexf_eq_spec] at hn
  refine ⟨{ stickyWarn := warn, tried := qmeTried w.fs (qmeCandidates a.dash (safeext a.ext)),
            stats := ueoStats a.dash (safeext a.ext) a.sender w.ex, sel := some c,
            dfltEnv := c.dflt.map (fun i => a.ext.drop i), ueo := some u }, rfl, rfl, ⟨rfl, rfl, rfl, rfl, rfl⟩, ?_⟩
  simp only [run, hh, hn, hs, hu]
  simp

theorem run_cases' (a : Args) (w : World) :
    (∃ code, code ≠ 0 ∧ Refused (run a w) code) ∨
    (∃ r0, Fresh r0 ∧ run a w = deliver a w a.aliasempty false r0) ∨
    (∃ c mode content r0, qmeSelect w.fs (qmeCandidates a.dash (safeext a.ext)) = .found c mode content ∧ content ≠ [] ∧
        Fresh r0 ∧ run a w = deliver a w content (mode &&& xBit ≠ 0) r0) := by
  unfold run
  rcases hc : checkhome a.doit w.home with ⟨_ | y, warn⟩
  · simp only
    split
    · left; exact ⟨_, by simp [Why.code, loopingCode], rfl, rfl, rfl, rfl⟩
    · cases hs : qmeSelect w.fs (qmeCandidates a.dash (safeext a.ext)) with
      | temp n => left; exact ⟨111, by simp, rfl, rfl, rfl, rfl⟩
      | writable n => left; exact ⟨_, by simp [Why.code, qmailWritableCode], rfl, rfl, rfl, rfl⟩
      | nofile =>
        simp only
        split
        · left; exact ⟨_, by simp [Why.code, noMailboxCode], rfl, rfl, rfl, rfl⟩
        · split
          · left; exact ⟨111, by simp, rfl, rfl, rfl, rfl⟩
          · right; left; exact ⟨_, ⟨rfl, rfl, rfl, rfl, rfl⟩, rfl⟩
      | found c mode content =>
        simp only
        split
        · left; exact ⟨111, by simp, rfl, rfl, rfl, rfl⟩
        · split
          · right; left; exact ⟨_, ⟨rfl, rfl, rfl, rfl, rfl⟩, rfl⟩
          · rename_i hne
            right; right; exact ⟨c, mode, content, _, rfl, hne, ⟨rfl, rfl, rfl, rfl, rfl⟩, rfl⟩
  · left
    exact ⟨y.code, by rw [checkhome_some_code _ _ _ _ hc]; simp, rfl, rfl, rfl, rfl⟩

/-! ### `+list` in the middle of a file; the owner rule without the superfluous hypothesis -/

/-- once forward-only (x bit, or `+list` among the lines read so far), only forward lines are acted upon -/
theorem dispatch_after_list (px : Bytes → PRes) (dx : Instr → Option Why) (pre rest : List Bytes) (first fo : Bool)
    (hpre : (dispatch px dx first fo pre).fin = .done) (hfo : foAfter fo pre = true) :
    ∃ d, (dispatch px dx first fo (pre ++ rest)).did = instrsOf pre ++ d ∧ ∀ i ∈ d, isForward i = true := by
  rw [dispatch_append px dx pre rest first fo hpre, hfo]
  exact ⟨_, rfl, dispatch_forwardonly px dx rest _⟩

/-- …and the first file or program line met in that state ends the run with the x-bit diagnostic, nothing of it
or after it being acted upon -/
theorem dispatch_after_list_refuses (px : Bytes → PRes) (dx : Instr → Option Why) (pre : List Bytes) (raw : Bytes)
    (post : List Bytes) (first fo : Bool) (i : Instr)
    (hpre : (dispatch px dx first fo pre).fin = .done) (hfo : foAfter fo pre = true)
    (hc : classify raw = .act i) (hi : isForward i = false) :
    dispatch px dx first fo (pre ++ raw :: post) = ⟨instrsOf pre, .die (if isProgram i then .xbitProg else .xbitFile)⟩ := by
  rw [dispatch_append px dx pre (raw :: post) first fo hpre, hfo]
  cases i with
  | forward a => simp [isForward] at hi
  | program c => simp [dispatch, hc, isProgram]
  | mbox f => simp [dispatch, hc, isProgram]
  | maildir f => simp [dispatch, hc, isProgram]

/-- the -owner rule; the `-owner-default` name matters (and is examined) only if the `-owner` name exists -/
theorem ueoOf_eq_spec' (loc dash sx host sender : Bytes) (ex : Bytes → Option Bool) (o1 o2 : Bool)
    (h1 : ex (dotQmail ++ dash ++ sx ++ ownerB) = some o1)
    (h2 : o1 = true → ex (dotQmail ++ dash ++ sx ++ ownerDefaultB) = some o2) :
    ueoOf loc dash sx host sender ex = .ok (LocalSpec.forwardSender loc host sender o1 (o1 && o2)) := by
  cases o1 with
  | true => simpa using ueoOf_eq_spec loc dash sx host sender ex true o2 h1 (h2 rfl)
  | false =>
    unfold ueoOf LocalSpec.forwardSender
    by_cases hs : sender = [] ∨ sender = bounceVerp
    · have hs' : sender = [] ∨ sender = [35, 64, 91, 93] := by simpa [bounceVerp] using hs
      simp [hs, hs']
    · have hs' : ¬ (sender = [] ∨ sender = [35, 64, 91, 93]) := by simpa [bounceVerp] using hs
      simp only [hs, hs', if_false, h1]
      simp

theorem uflinePrefix_noLF (sender : Bytes) : LF ∉ uflinePrefix sender := by
  unfold uflinePrefix
  intro h
  rcases List.mem_append.1 h with h | h
  · rcases List.mem_append.1 h with h | h
    · simp [LF] at h
    · split at h
      · simp [LF] at h
      · obtain ⟨c, _, hc⟩ := List.mem_map.1 h
        split at hc
        · simp [LF, DASH] at hc
        · rename_i hn; exact hn (Or.inr (Or.inr hc))
  · simp [LF, SP] at h

end Nq.Lemmas.Local
