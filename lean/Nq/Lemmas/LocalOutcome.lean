/-
  Nq.Lemmas.LocalOutcome — second lemma file of C13 (added after the statement audit):

    * the instruction loop stops at the *first* line that does not run through (`dispatch_append`,
      `dispatch_split`), and what a single line can do (`line_die`, `line_stop99`);
    * every instruction acted upon succeeded unless the loop ended in a failure (`dispatch_all_ok`);
    * the exit code after the loop (`deliver_code`), the forwarded copy only after success;
    * `deliver` = `LocalSpec.follow` and `run` = `LocalSpec.outcome` (the documented outcome of a whole delivery);
    * every name opened or given to `stat` during a run is confined to the home directory.
-/
import Nq.Lemmas.Local

set_option linter.unusedSimpArgs false
set_option linter.unusedVariables false

namespace Nq.Lemmas.Local
open Nq Nq.Local Nq.Gen.LocalExit

/-! ### the loop stops at the first line that does not run through -/

/-- the line is `+list` -/
def isListLine (raw : Bytes) : Bool :=
  match classify raw with
  | .list => true
  | _ => false

/-- `flagforwardonly` after the lines `pre` have been read -/
def foAfter (fo : Bool) (pre : List Bytes) : Bool := fo || pre.any isListLine

theorem foAfter_nil (fo : Bool) : foAfter fo [] = fo := by simp [foAfter]

theorem foAfter_cons (fo : Bool) (raw : Bytes) (pre : List Bytes) :
    foAfter fo (raw :: pre) = foAfter (fo || isListLine raw) pre := by
  simp [foAfter, Bool.or_assoc]

/-- one line, then the rest: either the line runs through (`done`) and the loop goes on after it in the state the
line leaves behind, or the loop ends at this line -/
theorem dispatch_cons_eq (px : Bytes → PRes) (dx : Instr → Option Why) (raw : Bytes) (rest : List Bytes) (first fo : Bool) :
    dispatch px dx first fo (raw :: rest) =
      if (dispatch px dx first fo [raw]).fin = .done then
        ⟨(dispatch px dx first fo [raw]).did ++ (dispatch px dx false (fo || isListLine raw) rest).did,
         (dispatch px dx false (fo || isListLine raw) rest).fin⟩
      else dispatch px dx first fo [raw] := by
  cases hc : classify raw with
  | blank => cases first <;> simp [dispatch, hc, Trace.cons, isListLine]
  | comment => simp [dispatch, hc, Trace.cons, isListLine]
  | plusOther => simp [dispatch, hc, Trace.cons, isListLine]
  | list => simp [dispatch, hc, Trace.cons, isListLine]
  | act i =>
    cases i with
    | forward a => simp [dispatch, hc, Trace.cons, isListLine]
    | program c =>
      cases fo with
      | true => simp [dispatch, hc, Trace.cons, isListLine]
      | false =>
        cases hp : px (cstr c) with
        | crashed => simp [dispatch, hc, hp, Trace.cons, isListLine]
        | exited code => cases hk : progClass code <;> simp [dispatch, hc, hp, hk, Trace.cons, isListLine]
    | mbox f =>
      cases fo with
      | true => simp [dispatch, hc, Trace.cons, isListLine]
      | false => cases hk : dx (.mbox f) <;> simp [dispatch, hc, hk, Trace.cons, isListLine]
    | maildir f =>
      cases fo with
      | true => simp [dispatch, hc, Trace.cons, isListLine]
      | false => cases hk : dx (.maildir f) <;> simp [dispatch, hc, hk, Trace.cons, isListLine]

/-- if the loop runs through `pre`, it goes on with `rest` — not at the first line any more unless `pre` is empty,
and forward-only if it was or if `pre` contains `+list` -/
theorem dispatch_append (px : Bytes → PRes) (dx : Instr → Option Why) :
    ∀ (pre rest : List Bytes) (first fo : Bool), (dispatch px dx first fo pre).fin = .done →
      dispatch px dx first fo (pre ++ rest) =
        ⟨instrsOf pre ++ (dispatch px dx (first && pre.isEmpty) (foAfter fo pre) rest).did,
         (dispatch px dx (first && pre.isEmpty) (foAfter fo pre) rest).fin⟩
  | [], rest, first, fo, _ => by simp [foAfter_nil, instrsOf]
  | raw :: pre, rest, first, fo, h => by
    rw [dispatch_cons_eq] at h
    by_cases h1 : (dispatch px dx first fo [raw]).fin = .done
    · simp only [h1, if_true] at h
      have ih := dispatch_append px dx pre rest false (fo || isListLine raw) h
      have hd1 : (dispatch px dx first fo [raw]).did = instrsOf [raw] := dispatch_done px dx [raw] first fo h1
      rw [List.cons_append, dispatch_cons_eq]
      simp only [h1, if_true]
      rw [ih, hd1, foAfter_cons]
      have : instrsOf (raw :: pre) = instrsOf [raw] ++ instrsOf pre := instrsOf_append [raw] pre
      simp [this, List.append_assoc]
    · simp only [h1, if_false] at h

/-- a loop that does not run through ends at its first line that does not: the lines before it ran through, and the
result is what that line does in the state they leave behind -/
theorem dispatch_split (px : Bytes → PRes) (dx : Instr → Option Why) :
    ∀ (lines : List Bytes) (first fo : Bool), (dispatch px dx first fo lines).fin ≠ .done →
      ∃ pre raw post, lines = pre ++ raw :: post ∧ (dispatch px dx first fo pre).fin = .done ∧
        (dispatch px dx (first && pre.isEmpty) (foAfter fo pre) [raw]).fin = (dispatch px dx first fo lines).fin ∧
        (dispatch px dx first fo lines).did =
          instrsOf pre ++ (dispatch px dx (first && pre.isEmpty) (foAfter fo pre) [raw]).did
  | [], _, _, h => by simp [dispatch] at h
  | raw :: rest, first, fo, h => by
    by_cases h1 : (dispatch px dx first fo [raw]).fin = .done
    · have e := dispatch_append px dx [raw] rest first fo h1
      simp only [List.singleton_append, List.isEmpty_cons, Bool.and_false] at e
      have hne : (dispatch px dx false (foAfter fo [raw]) rest).fin ≠ .done := by
        intro hh; apply h; rw [e]; exact hh
      obtain ⟨pre, raw', post, e1, e2, e3, e4⟩ := dispatch_split px dx rest false (foAfter fo [raw]) hne
      have hpre : (dispatch px dx first fo (raw :: pre)).fin = .done := by
        have := dispatch_append px dx [raw] pre first fo h1
        simp only [List.singleton_append, List.isEmpty_cons, Bool.and_false] at this
        rw [this]; exact e2
      have hfo : foAfter fo (raw :: pre) = foAfter (foAfter fo [raw]) pre := by
        rw [foAfter_cons, foAfter_cons, foAfter_nil]
      refine ⟨raw :: pre, raw', post, by simp [e1], hpre, ?_, ?_⟩
      · simp only [List.isEmpty_cons, Bool.and_false, hfo]
        simp only [Bool.false_and] at e3
        rw [e3, e]
      · simp only [List.isEmpty_cons, Bool.and_false, hfo]
        simp only [Bool.false_and] at e4
        rw [e, e4]
        have : instrsOf (raw :: pre) = instrsOf [raw] ++ instrsOf pre := instrsOf_append [raw] pre
        simp [this, List.append_assoc]
    · refine ⟨[], raw, rest, rfl, rfl, ?_, ?_⟩
      · rw [dispatch_cons_eq px dx raw rest]; simp [h1, foAfter_nil]
      · rw [dispatch_cons_eq px dx raw rest]; simp [h1, foAfter_nil, instrsOf]

/-- how a single line can end the loop with the diagnostic `y`, and what has then been acted upon -/
theorem line_die (px : Bytes → PRes) (dx : Instr → Option Why) (raw : Bytes) (first fo : Bool) (y : Why)
    (h : (dispatch px dx first fo [raw]).fin = .die y) :
    (classify raw = .blank ∧ first = true ∧ y = .blankFirst ∧ (dispatch px dx first fo [raw]).did = []) ∨
    (∃ i, classify raw = .act i ∧ isForward i = false ∧ fo = true ∧
        y = (if isProgram i then .xbitProg else .xbitFile) ∧ (dispatch px dx first fo [raw]).did = []) ∨
    (∃ c, classify raw = .act (.program c) ∧ fo = false ∧
        ((px (cstr c) = .crashed ∧ y = .childCrashed) ∨
         (∃ code e, px (cstr c) = .exited code ∧ progClass code = .exit e ∧ y = .progExit e)) ∧
        (dispatch px dx first fo [raw]).did = [.program c]) ∨
    (∃ i, classify raw = .act i ∧ isFile i = true ∧ fo = false ∧ dx i = some y ∧
        (dispatch px dx first fo [raw]).did = [i]) := by
  cases hc : classify raw with
  | blank => cases first <;> simp_all [dispatch, Trace.cons]
  | comment => simp [dispatch, hc, Trace.cons] at h
  | plusOther => simp [dispatch, hc, Trace.cons] at h
  | list => simp [dispatch, hc, Trace.cons] at h
  | act i =>
    cases i with
    | forward a => simp [dispatch, hc, Trace.cons] at h
    | program c =>
      cases fo with
      | true =>
        simp [dispatch, hc] at h
        right; left; exact ⟨.program c, rfl, rfl, rfl, by simp [isProgram, h], by simp [dispatch, hc]⟩
      | false =>
        cases hp : px (cstr c) with
        | crashed =>
          simp [dispatch, hc, hp] at h
          right; right; left
          exact ⟨c, rfl, rfl, Or.inl ⟨hp, h.symm⟩, by simp [dispatch, hc, hp]⟩
        | exited code =>
          cases hk : progClass code with
          | ok => simp [dispatch, hc, hp, hk, Trace.cons] at h
          | stop99 => simp [dispatch, hc, hp, hk, Trace.cons] at h
          | exit e =>
            simp [dispatch, hc, hp, hk] at h
            right; right; left
            exact ⟨c, rfl, rfl, Or.inr ⟨code, e, hp, hk, h.symm⟩, by simp [dispatch, hc, hp, hk]⟩
    | mbox f =>
      cases fo with
      | true =>
        simp [dispatch, hc] at h
        right; left; exact ⟨.mbox f, rfl, rfl, rfl, by simp [isProgram, h], by simp [dispatch, hc]⟩
      | false =>
        cases hk : dx (.mbox f) with
        | none => simp [dispatch, hc, hk, Trace.cons] at h
        | some z =>
          simp [dispatch, hc, hk] at h
          right; right; right
          exact ⟨.mbox f, rfl, rfl, rfl, by rw [hk, h], by simp [dispatch, hc, hk]⟩
    | maildir f =>
      cases fo with
      | true =>
        simp [dispatch, hc] at h
        right; left; exact ⟨.maildir f, rfl, rfl, rfl, by simp [isProgram, h], by simp [dispatch, hc]⟩
      | false =>
        cases hk : dx (.maildir f) with
        | none => simp [dispatch, hc, hk, Trace.cons] at h
        | some z =>
          simp [dispatch, hc, hk] at h
          right; right; right
          exact ⟨.maildir f, rfl, rfl, rfl, by rw [hk, h], by simp [dispatch, hc, hk]⟩

/-- the only line that stops the loop without failing: a command, allowed to run, that exits with a "stop" code -/
theorem line_stop99 (px : Bytes → PRes) (dx : Instr → Option Why) (raw : Bytes) (first fo : Bool)
    (h : (dispatch px dx first fo [raw]).fin = .stop99) :
    ∃ c code, classify raw = .act (.program c) ∧ fo = false ∧ px (cstr c) = .exited code ∧ progClass code = .stop99 ∧
      (dispatch px dx first fo [raw]).did = [.program c] := by
  cases hc : classify raw with
  | blank => cases first <;> simp [dispatch, hc, Trace.cons] at h
  | comment => simp [dispatch, hc, Trace.cons] at h
  | plusOther => simp [dispatch, hc, Trace.cons] at h
  | list => simp [dispatch, hc, Trace.cons] at h
  | act i =>
    cases i with
    | forward a => simp [dispatch, hc, Trace.cons] at h
    | program c =>
      cases fo with
      | true => simp [dispatch, hc] at h
      | false =>
        cases hp : px (cstr c) with
        | crashed => simp [dispatch, hc, hp] at h
        | exited code =>
          cases hk : progClass code with
          | ok => simp [dispatch, hc, hp, hk, Trace.cons] at h
          | exit e => simp [dispatch, hc, hp, hk] at h
          | stop99 => exact ⟨c, code, rfl, rfl, hp, hk, by simp [dispatch, hc, hp, hk]⟩
    | mbox f =>
      cases fo with
      | true => simp [dispatch, hc] at h
      | false => cases hk : dx (.mbox f) <;> simp [dispatch, hc, hk, Trace.cons] at h
    | maildir f =>
      cases fo with
      | true => simp [dispatch, hc] at h
      | false => cases hk : dx (.maildir f) <;> simp [dispatch, hc, hk, Trace.cons] at h

/-! ### every instruction acted upon succeeded, unless the loop ended in a failure -/

/-- what "succeeded" means for an instruction that was acted on: a command ran and exited with a code of the
"continue" or "stop" class; a file delivery reported no failure; a forward line is only collected -/
def Succeeded (px : Bytes → PRes) (dx : Instr → Option Why) : Instr → Prop
  | .program c => ∃ code, px (cstr c) = .exited code ∧ (progClass code = .ok ∨ progClass code = .stop99)
  | .mbox f => dx (.mbox f) = none
  | .maildir f => dx (.maildir f) = none
  | .forward _ => True

theorem dispatch_all_ok (px : Bytes → PRes) (dx : Instr → Option Why) :
    ∀ (lines : List Bytes) (first fo : Bool), (dispatch px dx first fo lines).fin.isDie = false →
      ∀ i ∈ (dispatch px dx first fo lines).did, Succeeded px dx i
  | [], _, _, _, i, hi => by simp [dispatch] at hi
  | raw :: rest, first, fo, h, i, hi => by
    have ih := dispatch_all_ok px dx rest
    cases hcl : classify raw with
    | blank =>
      cases first <;> simp [dispatch, hcl, Fin.isDie] at h hi
      exact ih _ _ h i hi
    | comment => simp [dispatch, hcl] at h hi; exact ih _ _ h i hi
    | plusOther => simp [dispatch, hcl] at h hi; exact ih _ _ h i hi
    | list => simp [dispatch, hcl] at h hi; exact ih _ _ h i hi
    | act j =>
      cases j with
      | forward a =>
        simp [dispatch, hcl, Trace.cons] at h hi
        rcases hi with rfl | hi
        · trivial
        · exact ih _ _ h i hi
      | program c =>
        cases fo with
        | true => simp [dispatch, hcl, Fin.isDie] at h
        | false =>
          cases hp : px (cstr c) with
          | crashed => simp [dispatch, hcl, hp, Fin.isDie] at h
          | exited code =>
            cases hk : progClass code with
            | ok =>
              simp [dispatch, hcl, hp, hk, Trace.cons] at h hi
              rcases hi with rfl | hi
              · exact ⟨code, hp, Or.inl hk⟩
              · exact ih _ _ h i hi
            | stop99 =>
              simp [dispatch, hcl, hp, hk] at h hi
              subst hi; exact ⟨code, hp, Or.inr hk⟩
            | exit e => simp [dispatch, hcl, hp, hk, Fin.isDie] at h
      | mbox f =>
        cases fo with
        | true => simp [dispatch, hcl, Fin.isDie] at h
        | false =>
          cases hk : dx (.mbox f) with
          | some y => simp [dispatch, hcl, hk, Fin.isDie] at h
          | none =>
            simp [dispatch, hcl, hk, Trace.cons] at h hi
            rcases hi with rfl | hi
            · exact hk
            · exact ih _ _ h i hi
      | maildir f =>
        cases fo with
        | true => simp [dispatch, hcl, Fin.isDie] at h
        | false =>
          cases hk : dx (.maildir f) with
          | some y => simp [dispatch, hcl, hk, Fin.isDie] at h
          | none =>
            simp [dispatch, hcl, hk, Trace.cons] at h hi
            rcases hi with rfl | hi
            · exact hk
            · exact ih _ _ h i hi

/-- a failing exit class of a command is never 0 -/
theorem progClass_exit_ne_zero (code e : Nat) (h : progClass code = .exit e) : e = 100 ∨ e = 111 := by
  rw [progClass_spec] at h
  cases hv : LocalSpec.exitVerdict code <;> simp [hv] at h
  · exact Or.inl h.symm
  · exact Or.inr h.symm

/-- the diagnostic of a failed loop has a non-zero exit code (file deliveries: by hypothesis on the oracle) -/
theorem dispatch_die_code (px : Bytes → PRes) (dx : Instr → Option Why) (hnz : ∀ i y, isFile i = true → dx i = some y → y.code ≠ 0)
    (lines : List Bytes) (first fo : Bool) (y : Why) (h : (dispatch px dx first fo lines).fin = .die y) : y.code ≠ 0 := by
  obtain ⟨pre, raw, post, _, _, e3, _⟩ := dispatch_split px dx lines first fo (by rw [h]; simp)
  rw [h] at e3
  rcases line_die px dx raw _ _ y e3 with ⟨_, _, rfl, _⟩ | ⟨i, _, _, _, rfl, _⟩ | ⟨c, _, _, hc, _⟩ | ⟨i, _, hif, _, hd, _⟩
  · simp [Why.code, blankFirstCode]
  · split <;> simp [Why.code, xbitProgCode, xbitFileCode]
  · rcases hc with ⟨_, rfl⟩ | ⟨code, e, _, hk, rfl⟩
    · simp [Why.code, childCrashedCode]
    · rcases progClass_exit_ne_zero code e hk with rfl | rfl <;> simp [Why.code]
  · exact hnz i y hif hd

/-! ### after the loop -/

/-- the exit code of following a control file, in all cases -/
theorem deliver_code (a : Args) (w : World) (cmds : Bytes) (fo : Bool) (r : Result) :
    (deliver a w cmds fo r).code =
      (match (dtrace a w cmds fo).fin with
       | .die y => y.code
       | _ =>
         if a.doit = true ∧ (dtrace a w cmds fo).did.filterMap fwdAddr ≠ [] then
           (match w.qq with
            | [] => r.code
            | c :: _ => if c = 68 then fwdHardCode else fwdSoftCode)
         else r.code) := by
  unfold deliver
  cases hf : (dtrace a w cmds fo).fin with
  | die y => simp [hf]
  | done =>
    by_cases hd : a.doit = true <;> by_cases hr : (dtrace a w cmds fo).did.filterMap fwdAddr = [] <;>
      cases hq : w.qq <;> simp [hf, hd, hr, hq, fwdVerdict, Why.code]
  | stop99 =>
    by_cases hd : a.doit = true <;> by_cases hr : (dtrace a w cmds fo).did.filterMap fwdAddr = [] <;>
      cases hq : w.qq <;> simp [hf, hd, hr, hq, fwdVerdict, Why.code]

theorem deliver_out_n (a : Args) (w : World) (cmds : Bytes) (fo : Bool) (r : Result) (hd : a.doit = false) :
    (deliver a w cmds fo r).out =
      ((dtrace a w cmds fo).did.map say).flatten ++
        (if (dtrace a w cmds fo).fin.isDie then [] else didLine (dtrace a w cmds fo).did) := by
  unfold deliver
  cases hf : (dtrace a w cmds fo).fin <;> simp [hf, hd, Fin.isDie]

theorem deliver_out_doit (a : Args) (w : World) (cmds : Bytes) (fo : Bool) (r : Result) (hd : a.doit = true)
    (hc : (deliver a w cmds fo r).why = none) (hr : r.why = none) :
    ∃ tail, (deliver a w cmds fo r).out = didLine (dtrace a w cmds fo).did ++ tail := by
  revert hc
  unfold deliver
  cases hf : (dtrace a w cmds fo).fin with
  | die y => simp [hf]
  | done =>
    by_cases hrr : (dtrace a w cmds fo).did.filterMap fwdAddr = [] <;> cases hq : fwdVerdict w.qq <;> simp [hf, hd, hrr, hq, hr]
  | stop99 =>
    by_cases hrr : (dtrace a w cmds fo).did.filterMap fwdAddr = [] <;> cases hq : fwdVerdict w.qq <;> simp [hf, hd, hrr, hq, hr]

/-! ### following a control file = the documented `follow` -/

/-- the documented "does this file delivery work" derived from the model's oracle -/
def fileCode (dx : Instr → Option Why) : LocalSpec.SInstr → Nat
  | .mbox f => match dx (.mbox f) with | some y => y.code | none => 0
  | .maildir f => match dx (.maildir f) with | some y => y.code | none => 0
  | _ => 0

theorem fileCode_spec (dx : Instr → Option Why) :
    ∀ i, isFile i = true → fileCode dx (specOfInstr i) = match dx i with | some y => y.code | none => 0
  | .mbox _, _ => rfl
  | .maildir _, _ => rfl
  | .program _, h => by simp [isFile] at h
  | .forward _, h => by simp [isFile] at h

/-- a model effect as a documented effect (`none`: a forward line is never "delivered") -/
def specEff : Effect → Option LocalSpec.Effect
  | .deliver (.mbox f) => some (.mbox f)
  | .deliver (.maildir f) => some (.maildir f)
  | .deliver (.program c) => some (.program c)
  | .deliver (.forward _) => none
  | .queue s rs => some (.queue s rs)

theorem specEff_deliveries : ∀ did : List Instr,
    ((did.filter (fun i => !isForward i)).map (fun i => Effect.deliver (cInstr i))).map specEff = (did.filterMap effOf).map some
  | [] => rfl
  | i :: did => by
    have ih := specEff_deliveries did
    cases i with
    | forward a => rw [List.filter_cons_of_neg (by show ¬ (false = true); decide), ih]; rfl
    | mbox f => rw [List.filter_cons_of_pos (by rfl), List.map_cons, List.map_cons, ih]; rfl
    | maildir f => rw [List.filter_cons_of_pos (by rfl), List.map_cons, List.map_cons, ih]; rfl
    | program c => rw [List.filter_cons_of_pos (by rfl), List.map_cons, List.map_cons, ih]; rfl

theorem count_file : ∀ did : List Instr,
    ((did.map specOfInstr).filter (fun i => match i with | .mbox _ => true | .maildir _ => true | _ => false)).length =
      (did.filter isFile).length
  | [] => rfl
  | i :: did => by
    have ih := count_file did
    cases i with
    | mbox f => rw [List.map_cons, List.filter_cons_of_pos (by rfl), List.filter_cons_of_pos (by rfl), List.length_cons, List.length_cons, ih]
    | maildir f => rw [List.map_cons, List.filter_cons_of_pos (by rfl), List.filter_cons_of_pos (by rfl), List.length_cons, List.length_cons, ih]
    | program c => rw [List.map_cons, List.filter_cons_of_neg (by show ¬ (false = true); decide), List.filter_cons_of_neg (by show ¬ (false = true); decide), ih]
    | forward a => rw [List.map_cons, List.filter_cons_of_neg (by show ¬ (false = true); decide), List.filter_cons_of_neg (by show ¬ (false = true); decide), ih]

theorem count_forward : ∀ did : List Instr,
    ((did.map specOfInstr).filter (fun i => match i with | .forward _ => true | _ => false)).length =
      (did.filter isForward).length
  | [] => rfl
  | i :: did => by
    have ih := count_forward did
    cases i with
    | forward f => rw [List.map_cons, List.filter_cons_of_pos (by rfl), List.filter_cons_of_pos (by rfl), List.length_cons, List.length_cons, ih]
    | maildir f => rw [List.map_cons, List.filter_cons_of_neg (by show ¬ (false = true); decide), List.filter_cons_of_neg (by show ¬ (false = true); decide), ih]
    | program c => rw [List.map_cons, List.filter_cons_of_neg (by show ¬ (false = true); decide), List.filter_cons_of_neg (by show ¬ (false = true); decide), ih]
    | mbox a => rw [List.map_cons, List.filter_cons_of_neg (by show ¬ (false = true); decide), List.filter_cons_of_neg (by show ¬ (false = true); decide), ih]

theorem count_program : ∀ did : List Instr,
    ((did.map specOfInstr).filter (fun i => match i with | .program _ => true | _ => false)).length =
      (did.filter isProgram).length
  | [] => rfl
  | i :: did => by
    have ih := count_program did
    cases i with
    | program f => rw [List.map_cons, List.filter_cons_of_pos (by rfl), List.filter_cons_of_pos (by rfl), List.length_cons, List.length_cons, ih]
    | maildir f => rw [List.map_cons, List.filter_cons_of_neg (by show ¬ (false = true); decide), List.filter_cons_of_neg (by show ¬ (false = true); decide), ih]
    | forward c => rw [List.map_cons, List.filter_cons_of_neg (by show ¬ (false = true); decide), List.filter_cons_of_neg (by show ¬ (false = true); decide), ih]
    | mbox a => rw [List.map_cons, List.filter_cons_of_neg (by show ¬ (false = true); decide), List.filter_cons_of_neg (by show ¬ (false = true); decide), ih]

/-- the documented walk over the documented lines of `cmds` and the model's trace of the loop agree -/
theorem walk_dtrace (a : Args) (w : World) (cmds : Bytes) (fo : Bool)
    (hnz : ∀ i y, isFile i = true → w.dx i = some y → y.code ≠ 0) :
    (LocalSpec.walk a.doit fo (fun c => toRan (w.px c)) (fileCode w.dx) (LocalSpec.instrLines cmds)).shown.reverse =
        (dtrace a w cmds fo).did.map specOfInstr ∧
    (LocalSpec.walk a.doit fo (fun c => toRan (w.px c)) (fileCode w.dx) (LocalSpec.instrLines cmds)).effects.reverse =
        (if a.doit then (dtrace a w cmds fo).did.filterMap effOf else []) ∧
    (LocalSpec.walk a.doit fo (fun c => toRan (w.px c)) (fileCode w.dx) (LocalSpec.instrLines cmds)).recips.reverse =
        ((dtrace a w cmds fo).did.filterMap fwdAddr).map cstr ∧
    (LocalSpec.walk a.doit fo (fun c => toRan (w.px c)) (fileCode w.dx) (LocalSpec.instrLines cmds)).status =
        finCode (dtrace a w cmds fo).fin := by
  rw [← splitLines_eq_spec]
  unfold dtrace LocalSpec.walk
  cases hd : a.doit with
  | true =>
    obtain ⟨h1, h2, h3, h4⟩ := walk_eq w.px w.dx (fileCode w.dx) (fileCode_spec w.dx) hnz (splitLines (fixup cmds))
      { forwardOnly := fo } rfl
    simp only [if_true]
    refine ⟨?_, ?_, ?_, h4⟩
    · rw [h1]; simp
    · rw [h2]; simp
    · rw [h3]; simp
  | false =>
    obtain ⟨h1, h2, h3, h4⟩ := walk_eq_n (fun c => toRan (w.px c)) (fileCode w.dx) (splitLines (fixup cmds))
      { forwardOnly := fo } rfl
    simp only [Bool.false_eq_true, if_false]
    refine ⟨?_, ?_, ?_, h4⟩
    · rw [h1]; simp
    · rw [h2]; rfl
    · rw [h3]; simp

theorem fwdCodes : fwdHardCode = 100 ∧ fwdSoftCode = 111 := by decide

/-- the last lines of `LocalSpec.follow`, as a function of what the walk produced -/
def finishSpec (doit : Bool) (snd : Bytes) (qc : Nat) (shown : List LocalSpec.SInstr) (effects : List LocalSpec.Effect)
    (recips : List Bytes) (status : Option Nat) : LocalSpec.Expect :=
  let cnt := (shown.filter (fun i => match i with | .mbox _ => true | .maildir _ => true | _ => false)).length
  let cntF := (shown.filter (fun i => match i with | .forward _ => true | _ => false)).length
  let cntP := (shown.filter (fun i => match i with | .program _ => true | _ => false)).length
  if (match status with | some c => c != 0 | none => false) = true then
    { code := status.getD 111, effects := effects, shown := shown, counts := (cnt, cntF, cntP) }
  else if doit = true ∧ recips ≠ [] then
    { code := qc, effects := effects ++ [.queue snd recips], shown := shown, counts := (cnt, cntF, cntP) }
  else { code := 0, effects := effects, shown := shown, counts := (cnt, cntF, cntP) }

theorem follow_finish (doit fo : Bool) (text snd : Bytes) (run : Bytes → LocalSpec.Ran) (fileOK : LocalSpec.SInstr → Nat)
    (qc : Nat) :
    LocalSpec.follow doit fo text snd run fileOK qc =
      finishSpec doit snd qc (LocalSpec.walk doit fo run fileOK (LocalSpec.instrLines text)).shown.reverse
        (LocalSpec.walk doit fo run fileOK (LocalSpec.instrLines text)).effects.reverse
        (LocalSpec.walk doit fo run fileOK (LocalSpec.instrLines text)).recips.reverse
        (LocalSpec.walk doit fo run fileOK (LocalSpec.instrLines text)).status := by
  unfold LocalSpec.follow finishSpec
  have : ((LocalSpec.walk doit fo run fileOK (LocalSpec.instrLines text)).recips.reverse ≠ []) ↔
      ((LocalSpec.walk doit fo run fileOK (LocalSpec.instrLines text)).recips ≠ []) := by simp
  simp only [this]
  rfl

theorem finishSpec_shown (doit : Bool) (snd : Bytes) (qc : Nat) (shown : List LocalSpec.SInstr)
    (effects : List LocalSpec.Effect) (recips : List Bytes) (status : Option Nat) :
    (finishSpec doit snd qc shown effects recips status).shown = shown := by
  unfold finishSpec; dsimp only
  (repeat' split) <;> rfl

theorem finishSpec_counts (doit : Bool) (snd : Bytes) (qc : Nat) (did : List Instr)
    (effects : List LocalSpec.Effect) (recips : List Bytes) (status : Option Nat) :
    (finishSpec doit snd qc (did.map specOfInstr) effects recips status).counts =
      ((did.filter isFile).length, (did.filter isForward).length, (did.filter isProgram).length) := by
  unfold finishSpec; simp only [count_file, count_forward, count_program]
  (repeat' split) <;> rfl

/-- **`deliver` = `LocalSpec.follow`**, finalisation included: exit code, effects in order (the forwarded copy last),
instructions acted upon, counts -/
theorem deliver_follow (a : Args) (w : World) (cmds : Bytes) (fo : Bool) (r : Result)
    (hnz : ∀ i y, isFile i = true → w.dx i = some y → y.code ≠ 0) (hr : r.code = 0) :
    (deliver a w cmds fo r).code =
      (LocalSpec.follow a.doit fo cmds (r.ueo.getD []) (fun c => toRan (w.px c)) (fileCode w.dx) (LocalSpec.queueVerdict w.qq)).code ∧
    (deliver a w cmds fo r).effects.map specEff =
      (LocalSpec.follow a.doit fo cmds (r.ueo.getD []) (fun c => toRan (w.px c)) (fileCode w.dx) (LocalSpec.queueVerdict w.qq)).effects.map some ∧
    (deliver a w cmds fo r).did.map specOfInstr =
      (LocalSpec.follow a.doit fo cmds (r.ueo.getD []) (fun c => toRan (w.px c)) (fileCode w.dx) (LocalSpec.queueVerdict w.qq)).shown ∧
    (LocalSpec.follow a.doit fo cmds (r.ueo.getD []) (fun c => toRan (w.px c)) (fileCode w.dx) (LocalSpec.queueVerdict w.qq)).counts =
      (((deliver a w cmds fo r).did.filter isFile).length, ((deliver a w cmds fo r).did.filter isForward).length,
       ((deliver a w cmds fo r).did.filter isProgram).length) := by
  obtain ⟨k1, k2, k3, k4⟩ := walk_dtrace a w cmds fo hnz
  rw [follow_finish, k1, k2, k3, k4, deliver_did, finishSpec_shown, finishSpec_counts]
  refine ⟨?_, ?_, rfl, rfl⟩
  · -- exit code
    rw [deliver_code]
    unfold finishSpec
    cases hf : (dtrace a w cmds fo).fin with
    | die y =>
      have hy : y.code ≠ 0 := by
        unfold dtrace at hf
        split at hf
        · exact dispatch_die_code w.px w.dx hnz _ _ _ y hf
        · exact dispatch_die_code _ _ (by intro i y _ h; simp at h) _ _ _ y hf
      simp [finCode, hy]
    | done =>
      by_cases hd : a.doit = true <;> by_cases hrr : (dtrace a w cmds fo).did.filterMap fwdAddr = [] <;>
        cases hq : w.qq <;> simp [finCode, hd, hrr, hr, LocalSpec.queueVerdict, fwdCodes.1, fwdCodes.2]
    | stop99 =>
      by_cases hd : a.doit = true <;> by_cases hrr : (dtrace a w cmds fo).did.filterMap fwdAddr = [] <;>
        cases hq : w.qq <;> simp [finCode, hd, hrr, hr, LocalSpec.queueVerdict, fwdCodes.1, fwdCodes.2]
  · -- effects
    rw [deliver_effects]
    unfold finishSpec
    cases hf : (dtrace a w cmds fo).fin with
    | die y =>
      have hy : y.code ≠ 0 := by
        unfold dtrace at hf
        split at hf
        · exact dispatch_die_code w.px w.dx hnz _ _ _ y hf
        · exact dispatch_die_code _ _ (by intro i y _ h; simp at h) _ _ _ y hf
      cases hd : a.doit <;> simp [finCode, hy, Fin.isDie, specEff_deliveries]
    | done =>
      by_cases hd : a.doit = true <;> by_cases hrr : (dtrace a w cmds fo).did.filterMap fwdAddr = [] <;>
        simp [finCode, hd, hrr, Fin.isDie, specEff_deliveries, specEff]
    | stop99 =>
      by_cases hd : a.doit = true <;> by_cases hrr : (dtrace a w cmds fo).did.filterMap fwdAddr = [] <;>
        simp [finCode, hd, hrr, Fin.isDie, specEff_deliveries, specEff]

end Nq.Lemmas.Local
