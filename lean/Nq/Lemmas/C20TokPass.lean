/-
  Lemmas for C20 (token822_parse, pass 1 counts = pass 2 stores): one-step simulation between the counting
  automaton `step1` and the filling automaton `step2` of Nq.TokPass, then induction over the field.
-/
import Nq.TokPass

set_option linter.unusedSimpArgs false

namespace Nq.TokPass
open Nq

theorem special2_eq (c : Byte) : special2 c = special1 c := rfl
theorem ws2_eq (c : Byte) : ws2 c = ws1 c := rfl

theorem mem_atomcheckEv {t cb ts : Nat} {e : Ev} (h : e ∈ atomcheckEv t cb ts) :
    e = .tok t ∨ ∃ j, e = .rd j ∧ j < cb := by
  unfold atomcheckEv at h
  rcases List.mem_append.1 h with h | h
  · obtain ⟨j, hj, rfl⟩ := List.mem_map.1 h
    have := List.mem_range'_1.1 hj
    exact Or.inr ⟨j, rfl, by omega⟩
  · exact Or.inl (by simpa using h)

/-- what one step of the two passes has in common, as long as pass 1 does not `return 0` -/
def StepOk (st : St) (n m : Nat) (o1 : O1) (o2 : O2) : Prop :=
  o2.st = o1.st ∧ o2.t = o1.n ∧ o2.cb = o1.m ∧ n + st.inTok ≤ o1.n + o1.st.inTok ∧ m ≤ o1.m ∧
  ∀ e ∈ o2.ev, e.ok (o1.n + o1.st.inTok) o1.m

theorem top_sim (n m ts : Nat) (c : Byte) (h : (top1 n m c).st ≠ .fail) :
    StepOk .top n m (top1 n m c) (top2 n m ts c) := by
  unfold StepOk
  unfold top1 at h ⊢
  unfold top2
  rw [special2_eq, ws2_eq]
  by_cases h1 : special1 c = true
  · simp [if_pos h1, St.inTok, Ev.ok]
  · by_cases h2 : ws1 c = true
    · simp [if_neg h1, if_pos h2, St.inTok]
    · by_cases h3 : c = RPAR ∨ c = RBRK
      · simp [if_neg h1, if_neg h2, if_pos h3] at h
      · by_cases h4 : c = LPAR
        · simp [if_neg h1, if_neg h2, if_neg h3, if_pos h4, St.inTok, Ev.ok]
        · by_cases h5 : c = DQ
          · simp [if_neg h1, if_neg h2, if_neg h3, if_neg h4, if_pos h5, St.inTok, Ev.ok]
          · by_cases h6 : c = LBRK
            · simp [if_neg h1, if_neg h2, if_neg h3, if_neg h4, if_neg h5, if_pos h6, St.inTok, Ev.ok]
            · by_cases h7 : c = BSL
              · simp [if_neg h1, if_neg h2, if_neg h3, if_neg h4, if_neg h5, if_neg h6, if_pos h7, St.inTok, Ev.ok]
              · simp [if_neg h1, if_neg h2, if_neg h3, if_neg h4, if_neg h5, if_neg h6, if_neg h7, St.inTok, Ev.ok]

theorem step_sim (st : St) (n m ts : Nat) (c : Byte) (h : (step1 st n m c).st ≠ .fail) :
    StepOk st n m (step1 st n m c) (step2 st n m ts c) := by
  cases st with
  | top => exact top_sim n m ts c h
  | fail => simp [step1] at h
  | atm esc =>
    cases esc with
    | true => simp [StepOk, step1, step2, St.inTok, Ev.ok]
    | false =>
      by_cases ha : atomok c = true
      · by_cases hb : c = BSL
        · simp [StepOk, step1, step2, if_pos ha, if_pos hb, St.inTok]
        · simp [StepOk, step1, step2, if_pos ha, if_neg hb, St.inTok, Ev.ok]
      · have h' : (top1 (n + 1) m c).st ≠ .fail := by simpa [step1, if_neg ha] using h
        have := top_sim (n + 1) m ts c h'
        simp only [StepOk, step1, step2, if_neg ha] at this ⊢
        obtain ⟨a1, a2, a3, a4, a5, a6⟩ := this
        refine ⟨a1, a2, a3, ?_, a5, ?_⟩
        · simp [St.inTok] at a4 ⊢; omega
        · intro e he
          rcases List.mem_append.1 he with he | he
          · rcases mem_atomcheckEv he with rfl | ⟨j, rfl, hj⟩
            · simp [Ev.ok, St.inTok] at a4 ⊢; omega
            · simp [Ev.ok]; omega
          · exact a6 e he
  | com lvl esc =>
    cases esc with
    | true => simp [StepOk, step1, step2, St.inTok, Ev.ok]
    | false =>
      by_cases h1 : c = LPAR
      · simp [StepOk, step1, step2, if_pos h1, St.inTok]
      · by_cases h2 : c = RPAR
        · cases lvl <;> simp [StepOk, step1, step2, if_neg h1, if_pos h2, St.inTok]
        · by_cases h3 : c = BSL
          · simp [StepOk, step1, step2, if_neg h1, if_neg h2, if_pos h3, St.inTok]
          · simp [StepOk, step1, step2, if_neg h1, if_neg h2, if_neg h3, St.inTok, Ev.ok]
  | quo esc =>
    cases esc with
    | true => simp [StepOk, step1, step2, St.inTok, Ev.ok]
    | false =>
      by_cases h1 : c = DQ
      · simp [StepOk, step1, step2, if_pos h1, St.inTok]
      · by_cases h3 : c = BSL
        · simp [StepOk, step1, step2, if_neg h1, if_pos h3, St.inTok]
        · simp [StepOk, step1, step2, if_neg h1, if_neg h3, St.inTok, Ev.ok]
  | lit esc =>
    cases esc with
    | true => simp [StepOk, step1, step2, St.inTok, Ev.ok]
    | false =>
      by_cases h1 : c = RBRK
      · simp [StepOk, step1, step2, if_pos h1, St.inTok]
      · by_cases h3 : c = BSL
        · simp [StepOk, step1, step2, if_neg h1, if_pos h3, St.inTok]
        · simp [StepOk, step1, step2, if_neg h1, if_neg h3, St.inTok, Ev.ok]

theorem run1_fail (r : Bytes) (n m : Nat) : run1 .fail n m r = none := by
  induction r generalizing n m with
  | nil => rfl
  | cons c r ih => simp [run1, step1, ih]

theorem Ev.ok_mono {e : Ev} {a b a' b' : Nat} (h : e.ok a b) (ha : a ≤ a') (hb : b ≤ b') : e.ok a' b' := by
  cases e <;> simp [Ev.ok] at h ⊢ <;> omega

/-- the simulation, from any pair of configurations that agree -/
theorem run_sim (r : Bytes) : ∀ (st : St) (n m ts nt nc : Nat), run1 st n m r = some (nt, nc) →
    (run2 st n m ts r).t = nt ∧ (run2 st n m ts r).cb = nc ∧ (run2 st n m ts r).oob = false ∧
    n + st.inTok ≤ nt ∧ m ≤ nc ∧ ∀ e ∈ (run2 st n m ts r).ev, e.ok nt nc := by
  induction r with
  | nil =>
    intro st n m ts nt nc h
    cases st <;> simp [run1, fin1] at h <;> obtain ⟨rfl, rfl⟩ := h
    · simp [run2, fin2, St.inTok]
    · refine ⟨rfl, rfl, rfl, by simp [St.inTok], Nat.le_refl _, ?_⟩
      intro e he
      rcases mem_atomcheckEv (by simpa [run2, fin2] using he) with rfl | ⟨j, rfl, hj⟩
      · simp [Ev.ok]
      · simpa [Ev.ok] using hj
  | cons c r ih =>
    intro st n m ts nt nc h
    rw [run1] at h
    have hne : (step1 st n m c).st ≠ .fail := by
      intro hf; rw [hf, run1_fail] at h; exact absurd h (by simp)
    obtain ⟨s1, s2, s3, s4, s5, s6⟩ := step_sim st n m ts c hne
    have := ih (step1 st n m c).st (step1 st n m c).n (step1 st n m c).m (step2 st n m ts c).ts nt nc h
    obtain ⟨i1, i2, i3, i4, i5, i6⟩ := this
    simp only [run2, s1, s2, s3]
    refine ⟨i1, i2, i3, by omega, by omega, ?_⟩
    intro e he
    rcases List.mem_append.1 he with he | he
    · exact Ev.ok_mono (s6 e he) i4 i5
    · exact i6 e he

/-- the `buf` stores of pass 2 are consecutive: exactly `cb, cb+1, …` up to the final cursor -/
theorem top2_buf (t cb ts : Nat) (c : Byte) :
    bufStores (top2 t cb ts c).ev = List.range' cb ((top2 t cb ts c).cb - cb) := by
  unfold top2 bufStores
  repeat' split
  all_goals simp [List.range']

theorem bufStores_atomcheck (t cb ts : Nat) : bufStores (atomcheckEv t cb ts) = [] := by
  unfold bufStores atomcheckEv
  simp [List.filterMap_append, List.filterMap_map, Function.comp_def]

theorem bufStores_append (a b : List Ev) : bufStores (a ++ b) = bufStores a ++ bufStores b := by
  simp [bufStores, List.filterMap_append]

theorem step2_buf (st : St) (t cb ts : Nat) (c : Byte) :
    bufStores (step2 st t cb ts c).ev = List.range' cb ((step2 st t cb ts c).cb - cb) ∧ cb ≤ (step2 st t cb ts c).cb := by
  have htop : ∀ t, cb ≤ (top2 t cb ts c).cb := by
    intro t; unfold top2; repeat' split
    all_goals simp
  cases st with
  | top => exact ⟨top2_buf t cb ts c, htop t⟩
  | fail => simp [step2, bufStores]
  | atm esc =>
    cases esc with
    | true => simp [step2, bufStores, List.range']
    | false =>
      simp only [step2]
      split
      · split <;> simp [bufStores, List.range']
      · simp only [bufStores_append, bufStores_atomcheck, List.nil_append]
        exact ⟨top2_buf (t + 1) cb ts c, htop _⟩
  | com lvl esc =>
    cases esc with
    | true => simp [step2, bufStores, List.range']
    | false =>
      simp only [step2]
      repeat' split
      all_goals simp [bufStores, List.range']
  | quo esc =>
    cases esc with
    | true => simp [step2, bufStores, List.range']
    | false =>
      simp only [step2]
      repeat' split
      all_goals simp [bufStores, List.range']
  | lit esc =>
    cases esc with
    | true => simp [step2, bufStores, List.range']
    | false =>
      simp only [step2]
      repeat' split
      all_goals simp [bufStores, List.range']

theorem run2_buf (r : Bytes) : ∀ (st : St) (t cb ts : Nat),
    bufStores (run2 st t cb ts r).ev = List.range' cb ((run2 st t cb ts r).cb - cb) ∧ cb ≤ (run2 st t cb ts r).cb := by
  induction r with
  | nil =>
    intro st t cb ts
    cases st <;> simp only [run2, fin2, bufStores_atomcheck] <;> simp [bufStores]
  | cons c r ih =>
    intro st t cb ts
    obtain ⟨a1, a2⟩ := step2_buf st t cb ts c
    obtain ⟨b1, b2⟩ := ih (step2 st t cb ts c).st (step2 st t cb ts c).t (step2 st t cb ts c).cb (step2 st t cb ts c).ts
    simp only [run2, bufStores_append, a1, b1]
    refine ⟨?_, by omega⟩
    generalize (step2 st t cb ts c).cb = x at a2 b2 ⊢
    generalize (run2 _ _ _ _ r).cb = y at b2 ⊢
    have hx : x = cb + (x - cb) := by omega
    have : List.range' x (y - x) = List.range' (cb + (x - cb)) (y - x) := by rw [← hx]
    rw [this, List.range'_append_1]
    congr 1
    omega

theorem cnt2_eq (r : Bytes) : ∀ (st : St) (t cb ts : Nat),
    cnt2 st t cb ts r = ((run2 st t cb ts r).t, (run2 st t cb ts r).cb, (run2 st t cb ts r).oob) := by
  induction r with
  | nil => intro st t cb ts; rfl
  | cons c r ih => intro st t cb ts; simp only [cnt2, run2, ih]

end Nq.TokPass
