/-
  Nq.Lemmas.CMiniIndep — a statement does not depend on, and does not change, a local it never mentions.
-/
import Nq.CMini

namespace Nq.CMini

theorem getD_set_ne' (env : Env) (v w x : Nat) (h : v ≠ w) : (List.set env v x)[w]?.getD 0 = env[w]?.getD 0 := by
  rw [List.getElem?_set_ne h]

theorem getD_set_ne (env : Env) (v w x : Nat) (h : v ≠ w) : (env.set v x).getD w 0 = env.getD w 0 := by
  simp only [List.getD_eq_getElem?_getD]; exact getD_set_ne' env v w x h

theorem eval_set (env : Env) (v x c : Nat) : ∀ (e : Expr), v ∉ e.vars → eval (env.set v x) c e = eval env c e
  | .ch, _ => rfl
  | .lit _, _ => rfl
  | .var w, h => by
      simp [Expr.vars] at h
      simp [eval, getD_set_ne' env v w x h]
  | .strAt s e, h => by simp [Expr.vars] at h; simp [eval, eval_set env v x c e h]
  | .eq a b, h => by simp [Expr.vars] at h; simp [eval, eval_set env v x c a h.1, eval_set env v x c b h.2]
  | .ne a b, h => by simp [Expr.vars] at h; simp [eval, eval_set env v x c a h.1, eval_set env v x c b h.2]
  | .lt a b, h => by simp [Expr.vars] at h; simp [eval, eval_set env v x c a h.1, eval_set env v x c b h.2]
  | .lnot a, h => by simp [Expr.vars] at h; simp [eval, eval_set env v x c a h]
  | .land a b, h => by simp [Expr.vars] at h; simp [eval, eval_set env v x c a h.1, eval_set env v x c b h.2]
  | .lor a b, h => by simp [Expr.vars] at h; simp [eval, eval_set env v x c a h.1, eval_set env v x c b h.2]

def Res.setv (r : Res) (v x : Nat) : Res := ⟨r.env.set v x, r.evs, r.ctl, r.seek⟩

theorem run_set (v x c : Nat) : ∀ (s : Stmt) (sk : Option Nat) (env : Env), v ∉ s.vars →
    run s sk (env.set v x) c = (run s sk env c).setv v x := by
  intro s
  induction s with
  | skip => intro sk env _; cases sk <;> simp [run, Res.setv]
  | assign w e =>
      intro sk env h
      simp [Stmt.vars] at h
      cases sk with
      | some k => simp [run, Res.setv]
      | none =>
        have hne : w ≠ v := fun hh => h.1 hh.symm
        simp [run, Res.setv, eval_set env v x c e h.2, List.set_comm _ _ hne]
  | incr w =>
      intro sk env h
      simp [Stmt.vars] at h
      cases sk with
      | some k => simp [run, Res.setv]
      | none =>
        have hne : w ≠ v := fun hh => h hh.symm
        simp [run, Res.setv, getD_set_ne' env v w x h, List.set_comm _ _ hne]
  | hop => intro sk env _; cases sk <;> simp [run, Res.setv]
  | put e =>
      intro sk env h
      simp [Stmt.vars] at h
      cases sk <;> simp [run, Res.setv, eval_set env v x c e h]
  | noret f => intro sk env _; cases sk <;> simp [run, Res.setv]
  | ite cnd t e iht ihe =>
      intro sk env h
      simp [Stmt.vars] at h
      cases sk with
      | some k => simp [run, Res.setv]
      | none =>
        simp only [run, eval_set env v x c cnd h.1]
        split
        · exact iht none env h.2.1
        · exact ihe none env h.2.2
  | seq a b iha ihb =>
      intro sk env h
      simp [Stmt.vars] at h
      simp only [run, iha sk env h.1]
      cases hc : (run a sk env c).ctl <;> simp [Res.setv, hc]
      have := ihb (run a sk env c).seek (run a sk env c).env h.2
      simp [this, Res.setv]
  | label k => intro sk env _; simp [run, Res.setv]
  | switch e body ih =>
      intro sk env h
      simp [Stmt.vars] at h
      cases sk with
      | some k => simp [run, Res.setv]
      | none =>
        simp only [run, eval_set env v x c e h.1, ih _ env h.2]
        simp [Res.setv]
  | brk => intro sk env _; cases sk <;> simp [run, Res.setv]
  | cont => intro sk env _; cases sk <;> simp [run, Res.setv]
  | ret => intro sk env _; cases sk <;> simp [run, Res.setv]

end Nq.CMini
