/-
  Lemmas about the model of qmail-local (Nq/Local.lean) used by Props/C13.lean.
-/
import Nq.Local
import Nq.Spec.LocalSpec

namespace Nq.Lemmas.Local
open Nq Nq.Local Nq.Gen.LocalExit

/-! ### bytes -/

theorem byte_cases (P : Byte → Prop) (h : ∀ n : Nat, n < 256 → P (UInt8.ofNat n)) (c : Byte) : P c := by
  have := h c.toNat (UInt8.toNat_lt c)
  simpa using this

set_option maxRecDepth 100000 in
theorem safeByte_eq_spec (c : Byte) : safeByte c = LocalSpec.safeChar c := by
  revert c; apply byte_cases; decide

set_option maxRecDepth 100000 in
theorem safeByte_ne_dot (c : Byte) : safeByte c ≠ DOT := by
  revert c; apply byte_cases; decide

set_option maxRecDepth 100000 in
theorem safeByte_not_upper (c : Byte) : ¬ (65 ≤ safeByte c ∧ safeByte c ≤ 90) := by
  revert c; apply byte_cases; decide

theorem safeext_eq_spec (ext : Bytes) : safeext ext = ext.map LocalSpec.safeChar := by
  unfold safeext
  exact List.map_congr_left (fun c _ => safeByte_eq_spec c)

theorem safeext_no_dot (ext : Bytes) : DOT ∉ safeext ext := by
  intro h
  simp only [safeext, List.mem_map] at h
  obtain ⟨c, _, hc⟩ := h
  exact safeByte_ne_dot c hc

theorem safeext_no_upper (ext : Bytes) : ∀ b ∈ safeext ext, ¬ (65 ≤ b ∧ b ≤ 90) := by
  intro b h
  simp only [safeext, List.mem_map] at h
  obtain ⟨c, _, rfl⟩ := h
  exact safeByte_not_upper c

/-! ### search order -/

theorem defIdxFrom_eq (sx : Bytes) : ∀ n : Nat,
    defIdxFrom sx n = (List.range (n + 1)).reverse.filter (LocalSpec.boundary sx)
  | 0 => by simp [defIdxFrom, LocalSpec.boundary]
  | n + 1 => by
    rw [List.range_succ, List.reverse_append, List.reverse_singleton, List.singleton_append, List.filter_cons,
      defIdxFrom, defIdxFrom_eq sx n]
    simp [LocalSpec.boundary, DASH]

theorem candidates_eq_spec (dash ext : Bytes) :
    (qmeCandidates dash (safeext ext)).map Cand.name = LocalSpec.candidates dash ext := by
  simp only [qmeCandidates, LocalSpec.candidates, List.map_cons, List.map_map, defIdx, defIdxFrom_eq,
    ← safeext_eq_spec]
  rfl

theorem mem_defIdxFrom (sx : Bytes) (n i : Nat) :
    i ∈ defIdxFrom sx n ↔ i ≤ n ∧ (i = 0 ∨ sx.getD (i - 1) 0 = DASH) := by
  rw [defIdxFrom_eq]
  simp only [List.mem_filter, List.mem_reverse, List.mem_range, LocalSpec.boundary, Bool.or_eq_true, beq_iff_eq, DASH]
  constructor <;> rintro ⟨h1, h2⟩ <;> exact ⟨by omega, h2⟩

theorem defIdxFrom_sorted (sx : Bytes) : ∀ n : Nat, (defIdxFrom sx n).Pairwise (· > ·)
  | 0 => by simp [defIdxFrom]
  | n + 1 => by
    unfold defIdxFrom
    split
    · refine List.pairwise_cons.2 ⟨?_, defIdxFrom_sorted sx n⟩
      intro j hj
      have := ((mem_defIdxFrom sx n j).1 hj).1
      omega
    · exact defIdxFrom_sorted sx n

theorem qmeSelect_found_iff (fs : Bytes → FStat) (c : Cand) (mode : Nat) (content : Bytes) :
    ∀ cs : List Cand, qmeSelect fs cs = .found c mode content ↔
      ∃ pre post, cs = pre ++ c :: post ∧ (∀ x ∈ pre, fs x.name = .absent) ∧
        fs c.name = .reg mode content ∧ mode &&& patrn = 0
  | [] => by simp [qmeSelect]
  | d :: rest => by
    unfold qmeSelect
    cases hd : fs d.name with
    | absent =>
      simp only
      rw [qmeSelect_found_iff fs c mode content rest]
      constructor
      · rintro ⟨pre, post, rfl, h1, h2, h3⟩
        exact ⟨d :: pre, post, rfl, by intro x hx; rcases List.mem_cons.1 hx with rfl | hx; exact hd; exact h1 x hx, h2, h3⟩
      · rintro ⟨pre, post, e, h1, h2, h3⟩
        cases pre with
        | nil =>
          simp at e; obtain ⟨rfl, rfl⟩ := e
          rw [hd] at h2; cases h2
        | cons p pre =>
          simp at e; obtain ⟨rfl, rfl⟩ := e
          exact ⟨pre, post, rfl, fun x hx => h1 x (List.mem_cons_of_mem _ hx), h2, h3⟩
    | temp =>
      simp only
      constructor
      · intro h; cases h
      · rintro ⟨pre, post, e, h1, h2, h3⟩
        cases pre with
        | nil => simp at e; obtain ⟨rfl, rfl⟩ := e; rw [hd] at h2; cases h2
        | cons p pre =>
          simp at e; obtain ⟨rfl, rfl⟩ := e
          have := h1 d (List.mem_cons_self ..); rw [hd] at this; cases this
    | reg m ct =>
      simp only
      constructor
      · intro h
        split at h
        · cases h
        · rename_i hm
          simp at h; obtain ⟨rfl, rfl, rfl⟩ := h
          exact ⟨[], rest, rfl, by simp, hd, by simpa using hm⟩
      · rintro ⟨pre, post, e, h1, h2, h3⟩
        cases pre with
        | nil =>
          simp at e; obtain ⟨rfl, rfl⟩ := e
          rw [hd] at h2; simp at h2; obtain ⟨rfl, rfl⟩ := h2
          simp [h3]
        | cons p pre =>
          simp at e; obtain ⟨rfl, rfl⟩ := e
          have := h1 d (List.mem_cons_self ..); rw [hd] at this; cases this

theorem qmeSelect_nofile_iff (fs : Bytes → FStat) :
    ∀ cs : List Cand, qmeSelect fs cs = .nofile ↔ ∀ x ∈ cs, fs x.name = .absent
  | [] => by simp [qmeSelect]
  | d :: rest => by
    unfold qmeSelect
    cases hd : fs d.name with
    | absent => simp [qmeSelect_nofile_iff fs rest, hd]
    | temp => simp [hd]
    | reg m ct =>
      simp only [List.mem_cons, forall_eq_or_imp, hd]
      constructor
      · intro h; split at h <;> cases h
      · rintro ⟨h, _⟩; cases h

/-- the names opened are exactly what the documented procedure must open -/
theorem qmeTried_eq_spec (fs : Bytes → FStat) (look : Bytes → LocalSpec.Entry)
    (hl : ∀ n, look n = .missing ↔ fs n = .absent) :
    ∀ cs : List Cand, qmeTried fs cs = LocalSpec.mustOpen look (cs.map Cand.name)
  | [] => rfl
  | d :: rest => by
    simp only [qmeTried, List.map_cons, LocalSpec.mustOpen]
    cases hd : fs d.name with
    | absent => simp [(hl d.name).2 hd, qmeTried_eq_spec fs look hl rest]
    | temp =>
      have : look d.name ≠ .missing := fun h => by have := (hl d.name).1 h; rw [hd] at this; cases this
      simp [this]
    | reg m ct =>
      have : look d.name ≠ .missing := fun h => by have := (hl d.name).1 h; rw [hd] at this; cases this
      simp [this]

/-! ### confinement -/

theorem hasDotDot_false_of_no_dot : ∀ (r : Bytes) (a : Byte), DOT ∉ r → LocalSpec.hasDotDot (a :: r) = false
  | [], _, _ => by simp [LocalSpec.hasDotDot]
  | b :: r, a, h => by
    have hb : b ≠ DOT := fun e => h (by simp [e])
    have hr : DOT ∉ r := fun e => h (List.mem_cons_of_mem _ e)
    simp only [LocalSpec.hasDotDot, Bool.or_eq_false_iff, Bool.and_eq_false_iff]
    refine ⟨Or.inr ?_, hasDotDot_false_of_no_dot r b hr⟩
    simpa [DOT] using hb

theorem confined_of_no_dot (r : Bytes) (h : DOT ∉ r) : LocalSpec.confined (dotQmail ++ r) = true := by
  have h1 : (dotQmail ++ r).take 6 = LocalSpec.dotQmail := by simp [dotQmail, LocalSpec.dotQmail]
  have h2 : LocalSpec.hasDotDot (dotQmail ++ r) = false := by
    simp only [dotQmail, List.cons_append, List.nil_append, LocalSpec.hasDotDot]
    simp [hasDotDot_false_of_no_dot r 108 h]
  simp [LocalSpec.confined, h1, h2]

theorem defaultB_no_dot : DOT ∉ defaultB := by decide
theorem defaultB_no_upper : ∀ b ∈ defaultB, ¬ (65 ≤ b ∧ b ≤ 90) := by decide

/-- every candidate is ".qmail" ++ dash ++ s with s free of dots and upper-case letters -/
theorem candidate_shape (dash ext : Bytes) (c : Cand) (hc : c ∈ qmeCandidates dash (safeext ext)) :
    ∃ s, c.name = dotQmail ++ dash ++ s ∧ DOT ∉ s ∧ ∀ b ∈ s, ¬ (65 ≤ b ∧ b ≤ 90) := by
  simp only [qmeCandidates, List.mem_cons, List.mem_map] at hc
  rcases hc with rfl | ⟨i, _, rfl⟩
  · exact ⟨safeext ext, rfl, safeext_no_dot ext, safeext_no_upper ext⟩
  · refine ⟨(safeext ext).take i ++ defaultB, by simp [List.append_assoc], ?_, ?_⟩
    · intro h
      rcases List.mem_append.1 h with h | h
      · exact safeext_no_dot ext (List.mem_of_mem_take h)
      · exact defaultB_no_dot h
    · intro b h
      rcases List.mem_append.1 h with h | h
      · exact safeext_no_upper ext b (List.mem_of_mem_take h)
      · exact defaultB_no_upper b h

/-! ### the instruction loop -/

@[simp] theorem cons_did (i : Instr) (t : Trace) : (t.cons i).did = i :: t.did := rfl
@[simp] theorem cons_fin (i : Instr) (t : Trace) : (t.cons i).fin = t.fin := rfl

theorem instrsOf_cons_act (raw : Bytes) (rest : List Bytes) (i : Instr) (h : classify raw = .act i) :
    instrsOf (raw :: rest) = i :: instrsOf rest := by
  simp [instrsOf, List.filterMap_cons, instrOf, h]

theorem instrsOf_cons_skip (raw : Bytes) (rest : List Bytes) (h : ∀ i, classify raw ≠ .act i) :
    instrsOf (raw :: rest) = instrsOf rest := by
  cases hc : classify raw with
  | act i => exact absurd hc (h i)
  | _ => simp [instrsOf, List.filterMap_cons, instrOf, hc]

theorem instrsOf_append (a b : List Bytes) : instrsOf (a ++ b) = instrsOf a ++ instrsOf b := by
  simp [instrsOf, List.filterMap_append]

/-- whatever happens, the instructions acted upon are an initial segment of the file's instructions, in file order -/
theorem dispatch_prefix (px : Bytes → PRes) (dx : Instr → Option Why) :
    ∀ (lines : List Bytes) (first fo : Bool), (dispatch px dx first fo lines).did <+: instrsOf lines
  | [], _, _ => by simp [dispatch, instrsOf]
  | raw :: rest, first, fo => by
    unfold dispatch
    cases hc : classify raw with
    | blank =>
      simp only
      rw [instrsOf_cons_skip raw rest (by simp [hc])]
      split
      · exact List.nil_prefix
      · exact dispatch_prefix px dx rest false fo
    | comment => simp only; rw [instrsOf_cons_skip raw rest (by simp [hc])]; exact dispatch_prefix px dx rest false fo
    | plusOther => simp only; rw [instrsOf_cons_skip raw rest (by simp [hc])]; exact dispatch_prefix px dx rest false fo
    | list => simp only; rw [instrsOf_cons_skip raw rest (by simp [hc])]; exact dispatch_prefix px dx rest false true
    | act i =>
      rw [instrsOf_cons_act raw rest i hc]
      have ih := dispatch_prefix px dx rest false fo
      cases i with
      | forward a => simp only [cons_did]; exact (List.prefix_cons_inj _).2 ih
      | program c =>
        simp only
        split
        · exact List.nil_prefix
        · split
          · simp
          · split
            · simp only [cons_did]; exact (List.prefix_cons_inj _).2 ih
            · simp
            · simp
      | mbox f =>
        simp only
        split
        · exact List.nil_prefix
        · split
          · simp only [cons_did]; exact (List.prefix_cons_inj _).2 ih
          · simp
      | maildir f =>
        simp only
        split
        · exact List.nil_prefix
        · split
          · simp only [cons_did]; exact (List.prefix_cons_inj _).2 ih
          · simp

/-- if the loop runs to the end, every instruction of the file was acted upon, in order -/
theorem dispatch_done (px : Bytes → PRes) (dx : Instr → Option Why) :
    ∀ (lines : List Bytes) (first fo : Bool), (dispatch px dx first fo lines).fin = .done →
      (dispatch px dx first fo lines).did = instrsOf lines
  | [], _, _ => by simp [dispatch, instrsOf]
  | raw :: rest, first, fo => by
    unfold dispatch
    cases hc : classify raw with
    | blank =>
      simp only
      rw [instrsOf_cons_skip raw rest (by simp [hc])]
      split
      · intro h; cases h
      · exact dispatch_done px dx rest false fo
    | comment => simp only; rw [instrsOf_cons_skip raw rest (by simp [hc])]; exact dispatch_done px dx rest false fo
    | plusOther => simp only; rw [instrsOf_cons_skip raw rest (by simp [hc])]; exact dispatch_done px dx rest false fo
    | list => simp only; rw [instrsOf_cons_skip raw rest (by simp [hc])]; exact dispatch_done px dx rest false true
    | act i =>
      rw [instrsOf_cons_act raw rest i hc]
      have ih := dispatch_done px dx rest false fo
      cases i with
      | forward a => simp only [cons_did, cons_fin]; intro h; rw [ih h]
      | program c =>
        simp only
        split
        · intro h; cases h
        · split
          · intro h; cases h
          · split
            · simp only [cons_did, cons_fin]; intro h; rw [ih h]
            · intro h; cases h
            · intro h; cases h
      | mbox f =>
        simp only
        split
        · intro h; cases h
        · split
          · simp only [cons_did, cons_fin]; intro h; rw [ih h]
          · intro h; cases h
      | maildir f =>
        simp only
        split
        · intro h; cases h
        · split
          · simp only [cons_did, cons_fin]; intro h; rw [ih h]
          · intro h; cases h

/-- exit code 99: the loop stops right after that command; what was acted upon is exactly the instructions of
the lines before it (so earlier forward lines are kept) followed by the command; nothing of the later lines -/
theorem dispatch_stop99 (px : Bytes → PRes) (dx : Instr → Option Why) :
    ∀ (lines : List Bytes) (first fo : Bool), (dispatch px dx first fo lines).fin = .stop99 →
      ∃ pre raw post c code, lines = pre ++ raw :: post ∧ classify raw = .act (.program c) ∧
        px (cstr c) = .exited code ∧ progClass code = .stop99 ∧
        (dispatch px dx first fo lines).did = instrsOf pre ++ [.program c]
  | [], _, _ => by simp [dispatch]
  | raw :: rest, first, fo => by
    have lift : ∀ (fo' : Bool) (t : Trace) (hd : List Instr), instrsOf [raw] = hd →
        (t.fin = .stop99 → ∃ pre raw' post c code, rest = pre ++ raw' :: post ∧ classify raw' = .act (.program c) ∧
          px (cstr c) = .exited code ∧ progClass code = .stop99 ∧ t.did = instrsOf pre ++ [.program c]) →
        t.fin = .stop99 → ∃ pre raw' post c code, raw :: rest = pre ++ raw' :: post ∧ classify raw' = .act (.program c) ∧
          px (cstr c) = .exited code ∧ progClass code = .stop99 ∧ hd ++ t.did = instrsOf pre ++ [.program c] := by
      intro _ t hd hhd ih h
      obtain ⟨pre, raw', post, c, code, e, h1, h2, h3, h4⟩ := ih h
      refine ⟨raw :: pre, raw', post, c, code, by simp [e], h1, h2, h3, ?_⟩
      have : instrsOf (raw :: pre) = instrsOf [raw] ++ instrsOf pre := instrsOf_append [raw] pre
      rw [this, hhd, h4, List.append_assoc]
    unfold dispatch
    cases hc : classify raw with
    | blank =>
      simp only
      split
      · intro h; cases h
      · have := lift fo _ [] (by rw [instrsOf_cons_skip raw [] (by simp [hc])]; rfl) (dispatch_stop99 px dx rest false fo)
        simpa using this
    | comment =>
      have := lift fo _ [] (by rw [instrsOf_cons_skip raw [] (by simp [hc])]; rfl) (dispatch_stop99 px dx rest false fo)
      simpa using this
    | plusOther =>
      have := lift fo _ [] (by rw [instrsOf_cons_skip raw [] (by simp [hc])]; rfl) (dispatch_stop99 px dx rest false fo)
      simpa using this
    | list =>
      have := lift true _ [] (by rw [instrsOf_cons_skip raw [] (by simp [hc])]; rfl) (dispatch_stop99 px dx rest false true)
      simpa using this
    | act i =>
      have hl := lift fo _ [i] (by rw [instrsOf_cons_act raw [] i hc]; rfl) (dispatch_stop99 px dx rest false fo)
      cases i with
      | forward a => simpa using hl
      | program c =>
        simp only
        split
        · intro h; cases h
        · split
          · intro h; cases h
          · rename_i code hpx
            split
            · simpa using hl
            · rename_i hcl
              intro _
              exact ⟨[], raw, rest, c, code, rfl, hc, hpx, hcl, by simp [instrsOf]⟩
            · intro h; cases h
      | mbox f =>
        simp only
        split
        · intro h; cases h
        · split
          · simpa using hl
          · intro h; cases h
      | maildir f =>
        simp only
        split
        · intro h; cases h
        · split
          · simpa using hl
          · intro h; cases h

/-- once the file is forward-only (x bit, or after "+list") no file or program instruction is acted upon -/
theorem dispatch_forwardonly (px : Bytes → PRes) (dx : Instr → Option Why) :
    ∀ (lines : List Bytes) (first : Bool), ∀ i ∈ (dispatch px dx first true lines).did, isForward i = true
  | [], _ => by simp [dispatch]
  | raw :: rest, first => by
    unfold dispatch
    cases hc : classify raw with
    | blank =>
      simp only
      split
      · simp
      · exact dispatch_forwardonly px dx rest false
    | comment => exact dispatch_forwardonly px dx rest false
    | plusOther => exact dispatch_forwardonly px dx rest false
    | list => exact dispatch_forwardonly px dx rest false
    | act i =>
      cases i with
      | forward a =>
        simp only [cons_did, List.mem_cons]
        rintro i (rfl | h)
        · rfl
        · exact dispatch_forwardonly px dx rest false i h
      | program c => simp
      | mbox f => simp
      | maildir f => simp

/-- …and a file or program line met in that state ends the run with the x-bit diagnostic -/
theorem dispatch_forwardonly_refuses (px : Bytes → PRes) (dx : Instr → Option Why) :
    ∀ (pre : List Bytes) (raw : Bytes) (post : List Bytes) (first : Bool) (i : Instr),
      (∀ l ∈ pre, ∀ j, classify l = .act j → isForward j = true) → (first = true → ∀ l ∈ pre.head?, classify l ≠ .blank) →
      classify raw = .act i → isForward i = false →
      (dispatch px dx first true (pre ++ raw :: post)).fin = .die (if isProgram i then .xbitProg else .xbitFile)
  | [], raw, post, first, i, _, _, hc, hi => by
    simp only [List.nil_append]
    unfold dispatch
    rw [hc]
    cases i <;> simp_all [isForward, isProgram]
  | l :: pre, raw, post, first, i, hpre, hfirst, hc, hi => by
    have ih := dispatch_forwardonly_refuses px dx pre raw post false i
      (fun l' h => hpre l' (List.mem_cons_of_mem _ h)) (by simp) hc hi
    simp only [List.cons_append]
    unfold dispatch
    cases hl : classify l with
    | blank =>
      simp only
      split
      · rename_i hf
        exact absurd hl (hfirst hf l (by simp))
      · exact ih
    | comment => exact ih
    | plusOther => exact ih
    | list => exact ih
    | act j =>
      have := hpre l (List.mem_cons_self ..) j hl
      cases j with
      | forward a => simpa using ih
      | program c => simp [isForward] at this
      | mbox f => simp [isForward] at this
      | maildir f => simp [isForward] at this

/-- a failure ends the loop: nothing of the lines after the failing one is acted upon -/
theorem dispatch_die (px : Bytes → PRes) (dx : Instr → Option Why) :
    ∀ (lines : List Bytes) (first fo : Bool) (y : Why), (dispatch px dx first fo lines).fin = .die y →
      ∃ pre raw post, lines = pre ++ raw :: post ∧
        ((dispatch px dx first fo lines).did = instrsOf pre ∨
          ∃ i, classify raw = .act i ∧ isForward i = false ∧ (dispatch px dx first fo lines).did = instrsOf pre ++ [i])
  | [], _, _, _ => by simp [dispatch]
  | raw :: rest, first, fo, y => by
    have lift : ∀ (t : Trace) (hd : List Instr), instrsOf [raw] = hd →
        (t.fin = .die y → ∃ pre raw' post, rest = pre ++ raw' :: post ∧
          (t.did = instrsOf pre ∨ ∃ i, classify raw' = .act i ∧ isForward i = false ∧ t.did = instrsOf pre ++ [i])) →
        t.fin = .die y → ∃ pre raw' post, raw :: rest = pre ++ raw' :: post ∧
          (hd ++ t.did = instrsOf pre ∨ ∃ i, classify raw' = .act i ∧ isForward i = false ∧ hd ++ t.did = instrsOf pre ++ [i]) := by
      intro t hd hhd ih h
      obtain ⟨pre, raw', post, e, h1⟩ := ih h
      have hap : instrsOf (raw :: pre) = hd ++ instrsOf pre := by rw [← hhd]; exact instrsOf_append [raw] pre
      refine ⟨raw :: pre, raw', post, by simp [e], ?_⟩
      rcases h1 with h1 | ⟨i, h1, h2, h3⟩
      · left; rw [hap, h1]
      · right; exact ⟨i, h1, h2, by rw [hap, h3, List.append_assoc]⟩
    have here0 : ∃ pre raw' post, raw :: rest = pre ++ raw' :: post ∧
          (([] : List Instr) = instrsOf pre ∨ ∃ i, classify raw' = .act i ∧ isForward i = false ∧ [] = instrsOf pre ++ [i]) :=
      ⟨[], raw, rest, rfl, Or.inl (by simp [instrsOf])⟩
    unfold dispatch
    cases hc : classify raw with
    | blank =>
      simp only
      split
      · intro _; exact here0
      · have := lift _ [] (by rw [instrsOf_cons_skip raw [] (by simp [hc])]; rfl) (dispatch_die px dx rest false fo y)
        simpa using this
    | comment =>
      have := lift _ [] (by rw [instrsOf_cons_skip raw [] (by simp [hc])]; rfl) (dispatch_die px dx rest false fo y)
      simpa using this
    | plusOther =>
      have := lift _ [] (by rw [instrsOf_cons_skip raw [] (by simp [hc])]; rfl) (dispatch_die px dx rest false fo y)
      simpa using this
    | list =>
      have := lift _ [] (by rw [instrsOf_cons_skip raw [] (by simp [hc])]; rfl) (dispatch_die px dx rest false true y)
      simpa using this
    | act i =>
      have hl := lift _ [i] (by rw [instrsOf_cons_act raw [] i hc]; rfl) (dispatch_die px dx rest false fo y)
      have here1 : isForward i = false → ∃ pre raw' post, raw :: rest = pre ++ raw' :: post ∧
          ([i] = instrsOf pre ∨ ∃ j, classify raw' = .act j ∧ isForward j = false ∧ [i] = instrsOf pre ++ [j]) :=
        fun hi => ⟨[], raw, rest, rfl, Or.inr ⟨i, hc, hi, by simp [instrsOf]⟩⟩
      cases i with
      | forward a => simpa using hl
      | program c =>
        simp only
        split
        · intro _; exact here0
        · split
          · intro _; exact here1 rfl
          · split
            · simpa using hl
            · intro h; cases h
            · intro _; exact here1 rfl
      | mbox f =>
        simp only
        split
        · intro _; exact here0
        · split
          · simpa using hl
          · intro _; exact here1 rfl
      | maildir f =>
        simp only
        split
        · intro _; exact here0
        · split
          · simpa using hl
          · intro _; exact here1 rfl

/-! ### after the loop: forwarding comes last -/

/-- The effects of a run: the deliveries (file and program instructions acted upon, in order), then — only in
deliver mode, only if the loop did not fail, only if there are forward addresses — one forwarded copy to
exactly the collected addresses. -/
theorem deliver_effects (a : Args) (w : World) (cmds : Bytes) (fo : Bool) (r : Result) :
    (deliver a w cmds fo r).effects =
      (if a.doit then ((dtrace a w cmds fo).did.filter (fun i => !isForward i)).map (fun i => Effect.deliver (cInstr i)) else []) ++
      (if a.doit ∧ (dtrace a w cmds fo).fin.isDie = false ∧ (dtrace a w cmds fo).did.filterMap fwdAddr ≠ []
       then [Effect.queue (r.ueo.getD []) (((dtrace a w cmds fo).did.filterMap fwdAddr).map cstr)] else []) := by
  unfold deliver
  cases hf : (dtrace a w cmds fo).fin with
  | die y => simp [hf, Fin.isDie]
  | done =>
    by_cases hd : a.doit = true <;> by_cases hr : (dtrace a w cmds fo).did.filterMap fwdAddr = [] <;>
      cases hq : fwdVerdict w.qq <;> simp [hf, hd, hr, hq, Fin.isDie]
  | stop99 =>
    by_cases hd : a.doit = true <;> by_cases hr : (dtrace a w cmds fo).did.filterMap fwdAddr = [] <;>
      cases hq : fwdVerdict w.qq <;> simp [hf, hd, hr, hq, Fin.isDie]

theorem deliver_did (a : Args) (w : World) (cmds : Bytes) (fo : Bool) (r : Result) :
    (deliver a w cmds fo r).did = (dtrace a w cmds fo).did := by
  unfold deliver
  cases hf : (dtrace a w cmds fo).fin <;> simp only [hf] <;> (try rfl) <;> split <;> (try split) <;> rfl

theorem deliver_code_die (a : Args) (w : World) (cmds : Bytes) (fo : Bool) (r : Result) (y : Why)
    (h : (dtrace a w cmds fo).fin = .die y) : (deliver a w cmds fo r).code = y.code ∧ (deliver a w cmds fo r).why = some y := by
  unfold deliver
  simp [h]

/-! ### header lines -/

theorem dtline_eq_spec (loc host : Bytes) : dtline loc host = LocalSpec.dtline loc host := by
  have hn : noLF = fun c => if c = 10 then 95 else c := by funext c; simp [noLF, LF, USCORE]
  simp [dtline, LocalSpec.dtline, envrecip, deliveredTo, LocalSpec.deliveredTo, hn, LF, AT]

theorem noLF_ne (c : Byte) : noLF c ≠ LF := by
  unfold noLF; split <;> simp_all [LF, USCORE]

theorem oneLine_map_snoc (l : Bytes) (mid : Bytes) (hm : LF ∉ mid) :
    LocalSpec.oneLine (l.map noLF ++ mid ++ [LF]) = true := by
  have h1 : (l.map noLF ++ mid ++ [LF]).getLast? = some LF := by simp
  have h2 : (l.map noLF ++ mid ++ [LF]).dropLast = l.map noLF ++ mid := by
    rw [List.dropLast_append_of_ne_nil (by simp)]; simp
  have h3 : LF ∉ l.map noLF ++ mid := by
    intro h
    rcases List.mem_append.1 h with h | h
    · obtain ⟨c, _, hc⟩ := List.mem_map.1 h
      exact noLF_ne c hc
    · exact hm h
  simp only [LocalSpec.oneLine, h1, h2]
  simpa [LF] using h3

/-- the Delivered-To line is one line whatever bytes the recipient contains -/
theorem dtline_oneLine (loc host : Bytes) : LocalSpec.oneLine (dtline loc host) = true := by
  have := oneLine_map_snoc (deliveredTo ++ envrecip loc host) [] (by simp)
  simpa [dtline] using this

/-- the Return-Path line is one line whatever bytes the sender contains -/
theorem rpline_oneLine (sender : Bytes) : LocalSpec.oneLine (rpline sender) = true := by
  have := oneLine_map_snoc (returnPath ++ quote2 sender) [62] (by simp [LF])
  simpa [rpline] using this

/-! ### loop detection = the documented rule -/

theorem bxScan_line (dt : Bytes) : ∀ (l racc rest : Bytes), LF ∉ l →
    bxScan dt racc (l ++ LF :: rest) =
      if racc.reverse ++ l = [] then false
      else if racc.reverse ++ l ++ [LF] = dt then true else bxScan dt [] rest
  | [], racc, rest, _ => by
    simp only [List.nil_append, List.append_nil]
    rw [bxScan]
    simp
  | c :: l, racc, rest, h => by
    have hc : c ≠ LF := fun e => h (by simp [e])
    have hl : LF ∉ l := fun e => h (List.mem_cons_of_mem _ e)
    simp only [List.cons_append]
    rw [bxScan]
    simp only [hc, if_false]
    rw [bxScan_line dt l (c :: racc) rest hl]
    simp

theorem bxScan_noLF (dt : Bytes) : ∀ (l racc : Bytes), LF ∉ l → bxScan dt racc l = false
  | [], _, _ => by simp [bxScan]
  | c :: l, racc, h => by
    have hc : c ≠ LF := fun e => h (by simp [e])
    rw [bxScan]; simp only [hc, if_false]
    exact bxScan_noLF dt l _ (fun e => h (List.mem_cons_of_mem _ e))

theorem linesOf_noLF : ∀ l : Bytes, LF ∉ l → LocalSpec.linesOf l = ([], l)
  | [], _ => rfl
  | c :: l, h => by
    have hc : c ≠ 10 := fun e => h (by simp [e, LF])
    simp [LocalSpec.linesOf, hc, linesOf_noLF l (fun e => h (List.mem_cons_of_mem _ e))]

theorem linesOf_line : ∀ (l rest : Bytes), LF ∉ l →
    LocalSpec.linesOf (l ++ LF :: rest) = ((l ++ [LF]) :: (LocalSpec.linesOf rest).1, (LocalSpec.linesOf rest).2)
  | [], rest, _ => by simp [LocalSpec.linesOf, LF]
  | c :: l, rest, h => by
    have hc : c ≠ 10 := fun e => h (by simp [e, LF])
    simp [LocalSpec.linesOf, hc, linesOf_line l rest (fun e => h (List.mem_cons_of_mem _ e))]

theorem split_first_LF : ∀ m : Bytes, LF ∉ m ∨ ∃ l rest, m = l ++ LF :: rest ∧ LF ∉ l
  | [] => Or.inl (by simp)
  | c :: m => by
    by_cases hc : c = LF
    · exact Or.inr ⟨[], m, by simp [hc], by simp⟩
    · rcases split_first_LF m with h | ⟨l, rest, e, h⟩
      · exact Or.inl (by simp [hc, h]; exact fun e => hc e.symm)
      · exact Or.inr ⟨c :: l, rest, by simp [e], by simp [h]; exact fun e => hc e.symm⟩

theorem bxScan_eq_spec (dt : Bytes) : ∀ (n : Nat) (msg : Bytes), msg.length ≤ n →
    bxScan dt [] msg = ((LocalSpec.linesOf msg).1.takeWhile (fun l => l != [10])).contains dt
  | 0, msg, h => by
    have : msg = [] := List.eq_nil_of_length_eq_zero (by omega)
    subst this; simp [bxScan, LocalSpec.linesOf]
  | n + 1, msg, h => by
    rcases split_first_LF msg with hno | ⟨l, rest, rfl, hl⟩
    · rw [bxScan_noLF dt msg [] hno, linesOf_noLF msg hno]; simp
    · rw [bxScan_line dt l [] rest hl, linesOf_line l rest hl]
      have hlen : rest.length ≤ n := by simp at h; omega
      have ih := bxScan_eq_spec dt n rest hlen
      simp only [List.reverse_nil, List.nil_append]
      by_cases he : l = []
      · subst he; simp [List.takeWhile, LF]
      · have hne : (l ++ [LF] != [10]) = true := by
          cases l with
          | nil => exact absurd rfl he
          | cons a t => simp
        simp only [he, if_false, List.takeWhile_cons, hne, if_true, List.contains_cons]
        by_cases hd : l ++ [LF] = dt
        · simp [hd]
        · have : (dt == l ++ [LF]) = false := by simpa using fun e => hd e.symm
          simp [hd, this, ih]

/-- `bouncexf` is the documented rule: some complete line of the header (the lines before the first empty
line) is exactly the Delivered-To line -/
theorem bouncexf_eq_spec (loc host msg : Bytes) : bouncexf (dtline loc host) msg = LocalSpec.loops loc host msg := by
  unfold bouncexf LocalSpec.loops LocalSpec.headerLines
  rw [bxScan_eq_spec _ msg.length msg (Nat.le_refl _), dtline_eq_spec]

end Nq.Lemmas.Local
