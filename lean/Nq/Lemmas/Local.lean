/-
  Lemmas about the model of qmail-local (Nq/Local.lean) used by Props/C13.lean.
-/
import Nq.Local
import Nq.Spec.LocalSpec

namespace Nq.Lemmas.Local
open Nq Nq.Local Nq.Gen.LocalExit

/-! ### bytes -/

theorem byte_cases (P : Byte → Prop) (h : ∀ n : Nat, n < 256 → P (UInt8.ofNat n)) (c : Byte) : P c := by
  have := h c.toNat (UInt8.toNat_lt c)
  simpa using this

set_option maxRecDepth 100000 in
theorem safeByte_eq_spec (c : Byte) : safeByte c = LocalSpec.safeChar c := by
  revert c; apply byte_cases; decide

set_option maxRecDepth 100000 in
theorem safeByte_ne_dot (c : Byte) : safeByte c ≠ DOT := by
  revert c; apply byte_cases; decide

set_option maxRecDepth 100000 in
theorem safeByte_not_upper (c : Byte) : ¬ (65 ≤ safeByte c ∧ safeByte c ≤ 90) := by
  revert c; apply byte_cases; decide

theorem safeext_eq_spec (ext : Bytes) : safeext ext = ext.map LocalSpec.safeChar := by
  unfold safeext
  exact List.map_congr_left (fun c _ => safeByte_eq_spec c)

theorem safeext_no_dot (ext : Bytes) : DOT ∉ safeext ext := by
  intro h
  simp only [safeext, List.mem_map] at h
  obtain ⟨c, _, hc⟩ := h
  exact safeByte_ne_dot c hc

theorem safeext_no_upper (ext : Bytes) : ∀ b ∈ safeext ext, ¬ (65 ≤ b ∧ b ≤ 90) := by
  intro b h
  simp only [safeext, List.mem_map] at h
  obtain ⟨c, _, rfl⟩ := h
  exact safeByte_not_upper c

/-! ### search order -/

theorem defIdxFrom_eq (sx : Bytes) : ∀ n : Nat,
    defIdxFrom sx n = (List.range (n + 1)).reverse.filter (LocalSpec.boundary sx)
  | 0 => by simp [defIdxFrom, LocalSpec.boundary]
  | n + 1 => by
    rw [List.range_succ, List.reverse_append, List.reverse_singleton, List.singleton_append, List.filter_cons,
      defIdxFrom, defIdxFrom_eq sx n]
    simp [LocalSpec.boundary, DASH]

theorem candidates_eq_spec (dash ext : Bytes) :
    (qmeCandidates dash (safeext ext)).map Cand.name = LocalSpec.candidates dash ext := by
  simp only [qmeCandidates, LocalSpec.candidates, List.map_cons, List.map_map, defIdx, defIdxFrom_eq,
    ← safeext_eq_spec]
  rfl

theorem mem_defIdxFrom (sx : Bytes) (n i : Nat) :
    i ∈ defIdxFrom sx n ↔ i ≤ n ∧ (i = 0 ∨ sx.getD (i - 1) 0 = DASH) := by
  rw [defIdxFrom_eq]
  simp only [List.mem_filter, List.mem_reverse, List.mem_range, LocalSpec.boundary, Bool.or_eq_true, beq_iff_eq, DASH]
  constructor <;> rintro ⟨h1, h2⟩ <;> exact ⟨by omega, h2⟩

theorem defIdxFrom_sorted (sx : Bytes) : ∀ n : Nat, (defIdxFrom sx n).Pairwise (· > ·)
  | 0 => by simp [defIdxFrom]
  | n + 1 => by
    unfold defIdxFrom
    split
    · refine List.pairwise_cons.2 ⟨?_, defIdxFrom_sorted sx n⟩
      intro j hj
      have := ((mem_defIdxFrom sx n j).1 hj).1
      omega
    · exact defIdxFrom_sorted sx n

theorem qmeSelect_found_iff (fs : Bytes → FStat) (c : Cand) (mode : Nat) (content : Bytes) :
    ∀ cs : List Cand, qmeSelect fs cs = .found c mode content ↔
      ∃ pre post, cs = pre ++ c :: post ∧ (∀ x ∈ pre, fs x.name = .absent) ∧
        fs c.name = .reg mode content ∧ mode &&& patrn = 0
  | [] => by simp [qmeSelect]
  | d :: rest => by
    unfold qmeSelect
    cases hd : fs d.name with
    | absent =>
      simp only
      rw [qmeSelect_found_iff fs c mode content rest]
      constructor
      · rintro ⟨pre, post, rfl, h1, h2, h3⟩
        exact ⟨d :: pre, post, rfl, by intro x hx; rcases List.mem_cons.1 hx with rfl | hx; exact hd; exact h1 x hx, h2, h3⟩
      · rintro ⟨pre, post, e, h1, h2, h3⟩
        cases pre with
        | nil =>
          simp at e; obtain ⟨rfl, rfl⟩ := e
          rw [hd] at h2; cases h2
        | cons p pre =>
          simp at e; obtain ⟨rfl, rfl⟩ := e
          exact ⟨pre, post, rfl, fun x hx => h1 x (List.mem_cons_of_mem _ hx), h2, h3⟩
    | temp =>
      simp only
      constructor
      · intro h; cases h
      · rintro ⟨pre, post, e, h1, h2, h3⟩
        cases pre with
        | nil => simp at e; obtain ⟨rfl, rfl⟩ := e; rw [hd] at h2; cases h2
        | cons p pre =>
          simp at e; obtain ⟨rfl, rfl⟩ := e
          have := h1 d (List.mem_cons_self ..); rw [hd] at this; cases this
    | reg m ct =>
      simp only
      constructor
      · intro h
        split at h
        · cases h
        · rename_i hm
          simp at h; obtain ⟨rfl, rfl, rfl⟩ := h
          exact ⟨[], rest, rfl, by simp, hd, by simpa using hm⟩
      · rintro ⟨pre, post, e, h1, h2, h3⟩
        cases pre with
        | nil =>
          simp at e; obtain ⟨rfl, rfl⟩ := e
          rw [hd] at h2; simp at h2; obtain ⟨rfl, rfl⟩ := h2
          simp [h3]
        | cons p pre =>
          simp at e; obtain ⟨rfl, rfl⟩ := e
          have := h1 d (List.mem_cons_self ..); rw [hd] at this; cases this

theorem qmeSelect_nofile_iff (fs : Bytes → FStat) :
    ∀ cs : List Cand, qmeSelect fs cs = .nofile ↔ ∀ x ∈ cs, fs x.name = .absent
  | [] => by simp [qmeSelect]
  | d :: rest => by
    unfold qmeSelect
    cases hd : fs d.name with
    | absent => simp [qmeSelect_nofile_iff fs rest, hd]
    | temp => simp [hd]
    | reg m ct =>
      simp only [List.mem_cons, forall_eq_or_imp, hd]
      constructor
      · intro h; split at h <;> cases h
      · rintro ⟨h, _⟩; cases h

/-- the names opened are exactly what the documented procedure must open -/
theorem qmeTried_eq_spec (fs : Bytes → FStat) (look : Bytes → LocalSpec.Entry)
    (hl : ∀ n, look n = .missing ↔ fs n = .absent) :
    ∀ cs : List Cand, qmeTried fs cs = LocalSpec.mustOpen look (cs.map Cand.name)
  | [] => rfl
  | d :: rest => by
    simp only [qmeTried, List.map_cons, LocalSpec.mustOpen]
    cases hd : fs d.name with
    | absent => simp [(hl d.name).2 hd, qmeTried_eq_spec fs look hl rest]
    | temp =>
      have : look d.name ≠ .missing := fun h => by have := (hl d.name).1 h; rw [hd] at this; cases this
      simp [this]
    | reg m ct =>
      have : look d.name ≠ .missing := fun h => by have := (hl d.name).1 h; rw [hd] at this; cases this
      simp [this]

/-! ### confinement -/

theorem hasDotDot_false_of_no_dot : ∀ (r : Bytes) (a : Byte), DOT ∉ r → LocalSpec.hasDotDot (a :: r) = false
  | [], _, _ => by simp [LocalSpec.hasDotDot]
  | b :: r, a, h => by
    have hb : b ≠ DOT := fun e => h (by simp [e])
    have hr : DOT ∉ r := fun e => h (List.mem_cons_of_mem _ e)
    simp only [LocalSpec.hasDotDot, Bool.or_eq_false_iff, Bool.and_eq_false_iff]
    refine ⟨Or.inr ?_, hasDotDot_false_of_no_dot r b hr⟩
    simpa [DOT] using hb

theorem confined_of_no_dot (r : Bytes) (h : DOT ∉ r) : LocalSpec.confined (dotQmail ++ r) = true := by
  have h1 : (dotQmail ++ r).take 6 = LocalSpec.dotQmail := by simp [dotQmail, LocalSpec.dotQmail]
  have h2 : LocalSpec.hasDotDot (dotQmail ++ r) = false := by
    simp only [dotQmail, List.cons_append, List.nil_append, LocalSpec.hasDotDot]
    simp [hasDotDot_false_of_no_dot r 108 h]
  simp [LocalSpec.confined, h1, h2]

theorem defaultB_no_dot : DOT ∉ defaultB := by decide
theorem defaultB_no_upper : ∀ b ∈ defaultB, ¬ (65 ≤ b ∧ b ≤ 90) := by decide

/-- every candidate is ".qmail" ++ dash ++ s with s free of dots and upper-case letters -/
theorem candidate_shape (dash ext : Bytes) (c : Cand) (hc : c ∈ qmeCandidates dash (safeext ext)) :
    ∃ s, c.name = dotQmail ++ dash ++ s ∧ DOT ∉ s ∧ ∀ b ∈ s, ¬ (65 ≤ b ∧ b ≤ 90) := by
  simp only [qmeCandidates, List.mem_cons, List.mem_map] at hc
  rcases hc with rfl | ⟨i, _, rfl⟩
  · exact ⟨safeext ext, rfl, safeext_no_dot ext, safeext_no_upper ext⟩
  · refine ⟨(safeext ext).take i ++ defaultB, by simp [List.append_assoc], ?_, ?_⟩
    · intro h
      rcases List.mem_append.1 h with h | h
      · exact safeext_no_dot ext (List.mem_of_mem_take h)
      · exact defaultB_no_dot h
    · intro b h
      rcases List.mem_append.1 h with h | h
      · exact safeext_no_upper ext b (List.mem_of_mem_take h)
      · exact defaultB_no_upper b h

/-! ### the instruction loop -/

@[simp] theorem cons_did (i : Instr) (t : Trace) : (t.cons i).did = i :: t.did := rfl
@[simp] theorem cons_fin (i : Instr) (t : Trace) : (t.cons i).fin = t.fin := rfl

theorem instrsOf_cons_act (raw : Bytes) (rest : List Bytes) (i : Instr) (h : classify raw = .act i) :
    instrsOf (raw :: rest) = i :: instrsOf rest := by
  simp [instrsOf, List.filterMap_cons, instrOf, h]

theorem instrsOf_cons_skip (raw : Bytes) (rest : List Bytes) (h : ∀ i, classify raw ≠ .act i) :
    instrsOf (raw :: rest) = instrsOf rest := by
  cases hc : classify raw with
  | act i => exact absurd hc (h i)
  | _ => simp [instrsOf, List.filterMap_cons, instrOf, hc]

theorem instrsOf_append (a b : List Bytes) : instrsOf (a ++ b) = instrsOf a ++ instrsOf b := by
  simp [instrsOf, List.filterMap_append]

/-- whatever happens, the instructions acted upon are an initial segment of the file's instructions, in file order -/
theorem dispatch_prefix (px : Bytes → PRes) (dx : Instr → Option Why) :
    ∀ (lines : List Bytes) (first fo : Bool), (dispatch px dx first fo lines).did <+: instrsOf lines
  | [], _, _ => by simp [dispatch, instrsOf]
  | raw :: rest, first, fo => by
    unfold dispatch
    cases hc : classify raw with
    | blank =>
      simp only
      rw [instrsOf_cons_skip raw rest (by simp [hc])]
      split
      · exact List.nil_prefix
      · exact dispatch_prefix px dx rest false fo
    | comment => simp only; rw [instrsOf_cons_skip raw rest (by simp [hc])]; exact dispatch_prefix px dx rest false fo
    | plusOther => simp only; rw [instrsOf_cons_skip raw rest (by simp [hc])]; exact dispatch_prefix px dx rest false fo
    | list => simp only; rw [instrsOf_cons_skip raw rest (by simp [hc])]; exact dispatch_prefix px dx rest false true
    | act i =>
      rw [instrsOf_cons_act raw rest i hc]
      have ih := dispatch_prefix px dx rest false fo
      cases i with
      | forward a => simp only [cons_did]; exact (List.prefix_cons_inj _).2 ih
      | program c =>
        simp only
        split
        · exact List.nil_prefix
        · split
          · simp
          · split
            · simp only [cons_did]; exact (List.prefix_cons_inj _).2 ih
            · simp
            · simp
      | mbox f =>
        simp only
        split
        · exact List.nil_prefix
        · split
          · simp only [cons_did]; exact (List.prefix_cons_inj _).2 ih
          · simp
      | maildir f =>
        simp only
        split
        · exact List.nil_prefix
        · split
          · simp only [cons_did]; exact (List.prefix_cons_inj _).2 ih
          · simp

/-- if the loop runs to the end, every instruction of the file was acted upon, in order -/
theorem dispatch_done (px : Bytes → PRes) (dx : Instr → Option Why) :
    ∀ (lines : List Bytes) (first fo : Bool), (dispatch px dx first fo lines).fin = .done →
      (dispatch px dx first fo lines).did = instrsOf lines
  | [], _, _ => by simp [dispatch, instrsOf]
  | raw :: rest, first, fo => by
    unfold dispatch
    cases hc : classify raw with
    | blank =>
      simp only
      rw [instrsOf_cons_skip raw rest (by simp [hc])]
      split
      · intro h; cases h
      · exact dispatch_done px dx rest false fo
    | comment => simp only; rw [instrsOf_cons_skip raw rest (by simp [hc])]; exact dispatch_done px dx rest false fo
    | plusOther => simp only; rw [instrsOf_cons_skip raw rest (by simp [hc])]; exact dispatch_done px dx rest false fo
    | list => simp only; rw [instrsOf_cons_skip raw rest (by simp [hc])]; exact dispatch_done px dx rest false true
    | act i =>
      rw [instrsOf_cons_act raw rest i hc]
      have ih := dispatch_done px dx rest false fo
      cases i with
      | forward a => simp only [cons_did, cons_fin]; intro h; rw [ih h]
      | program c =>
        simp only
        split
        · intro h; cases h
        · split
          · intro h; cases h
          · split
            · simp only [cons_did, cons_fin]; intro h; rw [ih h]
            · intro h; cases h
            · intro h; cases h
      | mbox f =>
        simp only
        split
        · intro h; cases h
        · split
          · simp only [cons_did, cons_fin]; intro h; rw [ih h]
          · intro h; cases h
      | maildir f =>
        simp only
        split
        · intro h; cases h
        · split
          · simp only [cons_did, cons_fin]; intro h; rw [ih h]
          · intro h; cases h

/-- exit code 99: the loop stops right after that command; what was acted upon is exactly the instructions of
the lines before it (so earlier forward lines are kept) followed by the command; nothing of the later lines -/
theorem dispatch_stop99 (px : Bytes → PRes) (dx : Instr → Option Why) :
    ∀ (lines : List Bytes) (first fo : Bool), (dispatch px dx first fo lines).fin = .stop99 →
      ∃ pre raw post c code, lines = pre ++ raw :: post ∧ classify raw = .act (.program c) ∧
        px (cstr c) = .exited code ∧ progClass code = .stop99 ∧
        (dispatch px dx first fo lines).did = instrsOf pre ++ [.program c]
  | [], _, _ => by simp [dispatch]
  | raw :: rest, first, fo => by
    have lift : ∀ (fo' : Bool) (t : Trace) (hd : List Instr), instrsOf [raw] = hd →
        (t.fin = .stop99 → ∃ pre raw' post c code, rest = pre ++ raw' :: post ∧ classify raw' = .act (.program c) ∧
          px (cstr c) = .exited code ∧ progClass code = .stop99 ∧ t.did = instrsOf pre ++ [.program c]) →
        t.fin = .stop99 → ∃ pre raw' post c code, raw :: rest = pre ++ raw' :: post ∧ classify raw' = .act (.program c) ∧
          px (cstr c) = .exited code ∧ progClass code = .stop99 ∧ hd ++ t.did = instrsOf pre ++ [.program c] := by
      intro _ t hd hhd ih h
      obtain ⟨pre, raw', post, c, code, e, h1, h2, h3, h4⟩ := ih h
      refine ⟨raw :: pre, raw', post, c, code, by simp [e], h1, h2, h3, ?_⟩
      have : instrsOf (raw :: pre) = instrsOf [raw] ++ instrsOf pre := instrsOf_append [raw] pre
      rw [this, hhd, h4, List.append_assoc]
    unfold dispatch
    cases hc : classify raw with
    | blank =>
      simp only
      split
      · intro h; cases h
      · have := lift fo _ [] (by rw [instrsOf_cons_skip raw [] (by simp [hc])]; rfl) (dispatch_stop99 px dx rest false fo)
        simpa using this
    | comment =>
      have := lift fo _ [] (by rw [instrsOf_cons_skip raw [] (by simp [hc])]; rfl) (dispatch_stop99 px dx rest false fo)
      simpa using this
    | plusOther =>
      have := lift fo _ [] (by rw [instrsOf_cons_skip raw [] (by simp [hc])]; rfl) (dispatch_stop99 px dx rest false fo)
      simpa using this
    | list =>
      have := lift true _ [] (by rw [instrsOf_cons_skip raw [] (by simp [hc])]; rfl) (dispatch_stop99 px dx rest false true)
      simpa using this
    | act i =>
      have hl := lift fo _ [i] (by rw [instrsOf_cons_act raw [] i hc]; rfl) (dispatch_stop99 px dx rest false fo)
      cases i with
      | forward a => simpa using hl
      | program c =>
        simp only
        split
        · intro h; cases h
        · split
          · intro h; cases h
          · rename_i code hpx
            split
            · simpa using hl
            · rename_i hcl
              intro _
              exact ⟨[], raw, rest, c, code, rfl, hc, hpx, hcl, by simp [instrsOf]⟩
            · intro h; cases h
      | mbox f =>
        simp only
        split
        · intro h; cases h
        · split
          · simpa using hl
          · intro h; cases h
      | maildir f =>
        simp only
        split
        · intro h; cases h
        · split
          · simpa using hl
          · intro h; cases h

/-- once the file is forward-only (x bit, or after "+list") no file or program instruction is acted upon -/
theorem dispatch_forwardonly (px : Bytes → PRes) (dx : Instr → Option Why) :
    ∀ (lines : List Bytes) (first : Bool), ∀ i ∈ (dispatch px dx first true lines).did, isForward i = true
  | [], _ => by simp [dispatch]
  | raw :: rest, first => by
    unfold dispatch
    cases hc : classify raw with
    | blank =>
      simp only
      split
      · simp
      · exact dispatch_forwardonly px dx rest false
    | comment => exact dispatch_forwardonly px dx rest false
    | plusOther => exact dispatch_forwardonly px dx rest false
    | list => exact dispatch_forwardonly px dx rest false
    | act i =>
      cases i with
      | forward a =>
        simp only [cons_did, List.mem_cons]
        rintro i (rfl | h)
        · rfl
        · exact dispatch_forwardonly px dx rest false i h
      | program c => simp
      | mbox f => simp
      | maildir f => simp

/-- …and a file or program line met in that state ends the run with the x-bit diagnostic -/
theorem dispatch_forwardonly_refuses (px : Bytes → PRes) (dx : Instr → Option Why) :
    ∀ (pre : List Bytes) (raw : Bytes) (post : List Bytes) (first : Bool) (i : Instr),
      (∀ l ∈ pre, ∀ j, classify l = .act j → isForward j = true) → (first = true → ∀ l ∈ pre.head?, classify l ≠ .blank) →
      classify raw = .act i → isForward i = false →
      (dispatch px dx first true (pre ++ raw :: post)).fin = .die (if isProgram i then .xbitProg else .xbitFile)
  | [], raw, post, first, i, _, _, hc, hi => by
    simp only [List.nil_append]
    unfold dispatch
    rw [hc]
    cases i <;> simp_all [isForward, isProgram]
  | l :: pre, raw, post, first, i, hpre, hfirst, hc, hi => by
    have ih := dispatch_forwardonly_refuses px dx pre raw post false i
      (fun l' h => hpre l' (List.mem_cons_of_mem _ h)) (by simp) hc hi
    simp only [List.cons_append]
    unfold dispatch
    cases hl : classify l with
    | blank =>
      simp only
      split
      · rename_i hf
        exact absurd hl (hfirst hf l (by simp))
      · exact ih
    | comment => exact ih
    | plusOther => exact ih
    | list => exact ih
    | act j =>
      have := hpre l (List.mem_cons_self ..) j hl
      cases j with
      | forward a => simpa using ih
      | program c => simp [isForward] at this
      | mbox f => simp [isForward] at this
      | maildir f => simp [isForward] at this

/-- a failure ends the loop: nothing of the lines after the failing one is acted upon -/
theorem dispatch_die (px : Bytes → PRes) (dx : Instr → Option Why) :
    ∀ (lines : List Bytes) (first fo : Bool) (y : Why), (dispatch px dx first fo lines).fin = .die y →
      ∃ pre raw post, lines = pre ++ raw :: post ∧
        ((dispatch px dx first fo lines).did = instrsOf pre ∨
          ∃ i, classify raw = .act i ∧ isForward i = false ∧ (dispatch px dx first fo lines).did = instrsOf pre ++ [i])
  | [], _, _, _ => by simp [dispatch]
  | raw :: rest, first, fo, y => by
    have lift : ∀ (t : Trace) (hd : List Instr), instrsOf [raw] = hd →
        (t.fin = .die y → ∃ pre raw' post, rest = pre ++ raw' :: post ∧
          (t.did = instrsOf pre ∨ ∃ i, classify raw' = .act i ∧ isForward i = false ∧ t.did = instrsOf pre ++ [i])) →
        t.fin = .die y → ∃ pre raw' post, raw :: rest = pre ++ raw' :: post ∧
          (hd ++ t.did = instrsOf pre ∨ ∃ i, classify raw' = .act i ∧ isForward i = false ∧ hd ++ t.did = instrsOf pre ++ [i]) := by
      intro t hd hhd ih h
      obtain ⟨pre, raw', post, e, h1⟩ := ih h
      have hap : instrsOf (raw :: pre) = hd ++ instrsOf pre := by rw [← hhd]; exact instrsOf_append [raw] pre
      refine ⟨raw :: pre, raw', post, by simp [e], ?_⟩
      rcases h1 with h1 | ⟨i, h1, h2, h3⟩
      · left; rw [hap, h1]
      · right; exact ⟨i, h1, h2, by rw [hap, h3, List.append_assoc]⟩
    have here0 : ∃ pre raw' post, raw :: rest = pre ++ raw' :: post ∧
          (([] : List Instr) = instrsOf pre ∨ ∃ i, classify raw' = .act i ∧ isForward i = false ∧ [] = instrsOf pre ++ [i]) :=
      ⟨[], raw, rest, rfl, Or.inl (by simp [instrsOf])⟩
    unfold dispatch
    cases hc : classify raw with
    | blank =>
      simp only
      split
      · intro _; exact here0
      · have := lift _ [] (by rw [instrsOf_cons_skip raw [] (by simp [hc])]; rfl) (dispatch_die px dx rest false fo y)
        simpa using this
    | comment =>
      have := lift _ [] (by rw [instrsOf_cons_skip raw [] (by simp [hc])]; rfl) (dispatch_die px dx rest false fo y)
      simpa using this
    | plusOther =>
      have := lift _ [] (by rw [instrsOf_cons_skip raw [] (by simp [hc])]; rfl) (dispatch_die px dx rest false fo y)
      simpa using this
    | list =>
      have := lift _ [] (by rw [instrsOf_cons_skip raw [] (by simp [hc])]; rfl) (dispatch_die px dx rest false true y)
      simpa using this
    | act i =>
      have hl := lift _ [i] (by rw [instrsOf_cons_act raw [] i hc]; rfl) (dispatch_die px dx rest false fo y)
      have here1 : isForward i = false → ∃ pre raw' post, raw :: rest = pre ++ raw' :: post ∧
          ([i] = instrsOf pre ∨ ∃ j, classify raw' = .act j ∧ isForward j = false ∧ [i] = instrsOf pre ++ [j]) :=
        fun hi => ⟨[], raw, rest, rfl, Or.inr ⟨i, hc, hi, by simp [instrsOf]⟩⟩
      cases i with
      | forward a => simpa using hl
      | program c =>
        simp only
        split
        · intro _; exact here0
        · split
          · intro _; exact here1 rfl
          · split
            · simpa using hl
            · intro h; cases h
            · intro _; exact here1 rfl
      | mbox f =>
        simp only
        split
        · intro _; exact here0
        · split
          · simpa using hl
          · intro _; exact here1 rfl
      | maildir f =>
        simp only
        split
        · intro _; exact here0
        · split
          · simpa using hl
          · intro _; exact here1 rfl

/-! ### after the loop: forwarding comes last -/

/-- The effects of a run: the deliveries (file and program instructions acted upon, in order), then — only in
deliver mode, only if the loop did not fail, only if there are forward addresses — one forwarded copy to
exactly the collected addresses. -/
theorem deliver_effects (a : Args) (w : World) (cmds : Bytes) (fo : Bool) (r : Result) :
    (deliver a w cmds fo r).effects =
      (if a.doit then ((dtrace a w cmds fo).did.filter (fun i => !isForward i)).map (fun i => Effect.deliver (cInstr i)) else []) ++
      (if a.doit ∧ (dtrace a w cmds fo).fin.isDie = false ∧ (dtrace a w cmds fo).did.filterMap fwdAddr ≠ []
       then [Effect.queue (r.ueo.getD []) (((dtrace a w cmds fo).did.filterMap fwdAddr).map cstr)] else []) := by
  unfold deliver
  cases hf : (dtrace a w cmds fo).fin with
  | die y => simp [hf, Fin.isDie]
  | done =>
    by_cases hd : a.doit = true <;> by_cases hr : (dtrace a w cmds fo).did.filterMap fwdAddr = [] <;>
      cases hq : fwdVerdict w.qq <;> simp [hf, hd, hr, hq, Fin.isDie]
  | stop99 =>
    by_cases hd : a.doit = true <;> by_cases hr : (dtrace a w cmds fo).did.filterMap fwdAddr = [] <;>
      cases hq : fwdVerdict w.qq <;> simp [hf, hd, hr, hq, Fin.isDie]

theorem deliver_did (a : Args) (w : World) (cmds : Bytes) (fo : Bool) (r : Result) :
    (deliver a w cmds fo r).did = (dtrace a w cmds fo).did := by
  unfold deliver
  cases hf : (dtrace a w cmds fo).fin <;> simp only [hf] <;> (try rfl) <;> split <;> (try split) <;> rfl

theorem deliver_code_die (a : Args) (w : World) (cmds : Bytes) (fo : Bool) (r : Result) (y : Why)
    (h : (dtrace a w cmds fo).fin = .die y) : (deliver a w cmds fo r).code = y.code ∧ (deliver a w cmds fo r).why = some y := by
  unfold deliver
  simp [h]

/-! ### header lines -/

theorem dtline_eq_spec (loc host : Bytes) : dtline loc host = LocalSpec.dtline loc host := by
  have hn : noLF = fun c => if c = 10 then 95 else c := by funext c; simp [noLF, LF, USCORE]
  simp [dtline, LocalSpec.dtline, envrecip, deliveredTo, LocalSpec.deliveredTo, hn, LF, AT]

theorem noLF_ne (c : Byte) : noLF c ≠ LF := by
  unfold noLF; split <;> simp_all [LF, USCORE]

theorem oneLine_map_snoc (l : Bytes) (mid : Bytes) (hm : LF ∉ mid) :
    LocalSpec.oneLine (l.map noLF ++ mid ++ [LF]) = true := by
  have h1 : (l.map noLF ++ mid ++ [LF]).getLast? = some LF := by simp
  have h2 : (l.map noLF ++ mid ++ [LF]).dropLast = l.map noLF ++ mid := by
    rw [List.dropLast_append_of_ne_nil (by simp)]; simp
  have h3 : LF ∉ l.map noLF ++ mid := by
    intro h
    rcases List.mem_append.1 h with h | h
    · obtain ⟨c, _, hc⟩ := List.mem_map.1 h
      exact noLF_ne c hc
    · exact hm h
  simp only [LocalSpec.oneLine, h1, h2]
  simpa [LF] using h3

/-- the Delivered-To line is one line whatever bytes the recipient contains -/
theorem dtline_oneLine (loc host : Bytes) : LocalSpec.oneLine (dtline loc host) = true := by
  have := oneLine_map_snoc (deliveredTo ++ envrecip loc host) [] (by simp)
  simpa [dtline] using this

/-- the Return-Path line is one line whatever bytes the sender contains -/
theorem rpline_oneLine (sender : Bytes) : LocalSpec.oneLine (rpline sender) = true := by
  have := oneLine_map_snoc (returnPath ++ quote2 sender) [62] (by simp [LF])
  simpa [rpline] using this

/-! ### loop detection = the documented rule -/

theorem bxScan_line (dt : Bytes) : ∀ (l racc rest : Bytes), LF ∉ l →
    bxScan dt racc (l ++ LF :: rest) =
      if racc.reverse ++ l = [] then false
      else if racc.reverse ++ l ++ [LF] = dt then true else bxScan dt [] rest
  | [], racc, rest, _ => by
    simp only [List.nil_append, List.append_nil]
    rw [bxScan]
    simp
  | c :: l, racc, rest, h => by
    have hc : c ≠ LF := fun e => h (by simp [e])
    have hl : LF ∉ l := fun e => h (List.mem_cons_of_mem _ e)
    simp only [List.cons_append]
    rw [bxScan]
    simp only [hc, if_false]
    rw [bxScan_line dt l (c :: racc) rest hl]
    simp

theorem bxScan_noLF (dt : Bytes) : ∀ (l racc : Bytes), LF ∉ l → bxScan dt racc l = false
  | [], _, _ => by simp [bxScan]
  | c :: l, racc, h => by
    have hc : c ≠ LF := fun e => h (by simp [e])
    rw [bxScan]; simp only [hc, if_false]
    exact bxScan_noLF dt l _ (fun e => h (List.mem_cons_of_mem _ e))

theorem linesOf_noLF : ∀ l : Bytes, LF ∉ l → LocalSpec.linesOf l = ([], l)
  | [], _ => rfl
  | c :: l, h => by
    have hc : c ≠ 10 := fun e => h (by simp [e, LF])
    simp [LocalSpec.linesOf, hc, linesOf_noLF l (fun e => h (List.mem_cons_of_mem _ e))]

theorem linesOf_line : ∀ (l rest : Bytes), LF ∉ l →
    LocalSpec.linesOf (l ++ LF :: rest) = ((l ++ [LF]) :: (LocalSpec.linesOf rest).1, (LocalSpec.linesOf rest).2)
  | [], rest, _ => by simp [LocalSpec.linesOf, LF]
  | c :: l, rest, h => by
    have hc : c ≠ 10 := fun e => h (by simp [e, LF])
    simp [LocalSpec.linesOf, hc, linesOf_line l rest (fun e => h (List.mem_cons_of_mem _ e))]

theorem split_first_LF : ∀ m : Bytes, LF ∉ m ∨ ∃ l rest, m = l ++ LF :: rest ∧ LF ∉ l
  | [] => Or.inl (by simp)
  | c :: m => by
    by_cases hc : c = LF
    · exact Or.inr ⟨[], m, by simp [hc], by simp⟩
    · rcases split_first_LF m with h | ⟨l, rest, e, h⟩
      · exact Or.inl (by simp [hc, h]; exact fun e => hc e.symm)
      · exact Or.inr ⟨c :: l, rest, by simp [e], by simp [h]; exact fun e => hc e.symm⟩

theorem bxScan_eq_spec (dt : Bytes) : ∀ (n : Nat) (msg : Bytes), msg.length ≤ n →
    bxScan dt [] msg = ((LocalSpec.linesOf msg).1.takeWhile (fun l => l != [10])).contains dt
  | 0, msg, h => by
    have : msg = [] := List.eq_nil_of_length_eq_zero (by omega)
    subst this; simp [bxScan, LocalSpec.linesOf]
  | n + 1, msg, h => by
    rcases split_first_LF msg with hno | ⟨l, rest, rfl, hl⟩
    · rw [bxScan_noLF dt msg [] hno, linesOf_noLF msg hno]; simp
    · rw [bxScan_line dt l [] rest hl, linesOf_line l rest hl]
      have hlen : rest.length ≤ n := by simp at h; omega
      have ih := bxScan_eq_spec dt n rest hlen
      simp only [List.reverse_nil, List.nil_append]
      by_cases he : l = []
      · subst he; simp [List.takeWhile, LF]
      · have hne : (l ++ [LF] != [10]) = true := by
          cases l with
          | nil => exact absurd rfl he
          | cons a t => simp
        simp only [he, if_false, List.takeWhile_cons, hne, if_true, List.contains_cons]
        by_cases hd : l ++ [LF] = dt
        · simp [hd]
        · have : (dt == l ++ [LF]) = false := by simpa using fun e => hd e.symm
          simp [hd, this, ih]

/-- `bouncexf` is the documented rule: some complete line of the header (the lines before the first empty
line) is exactly the Delivered-To line -/
theorem bouncexf_eq_spec (loc host msg : Bytes) : bouncexf (dtline loc host) msg = LocalSpec.loops loc host msg := by
  unfold bouncexf LocalSpec.loops LocalSpec.headerLines
  rw [bxScan_eq_spec _ msg.length msg (Nat.le_refl _), dtline_eq_spec]

/-! ### `main()` as a whole -/

/-- the first candidate that is not absent decides -/
theorem qmeSelect_decides (fs : Bytes → FStat) (c : Cand) (post : List Cand) :
    ∀ pre : List Cand, (∀ x ∈ pre, fs x.name = .absent) → fs c.name ≠ .absent →
      qmeSelect fs (pre ++ c :: post) =
        (match fs c.name with
         | .temp => .temp c.name
         | .reg m ct => if m &&& patrn ≠ 0 then .writable c.name else .found c m ct
         | .absent => .nofile)
  | [], _, hc => by
    simp only [List.nil_append, qmeSelect]
    cases h : fs c.name <;> simp_all
  | d :: pre, hpre, hc => by
    simp only [List.cons_append, qmeSelect, hpre d (List.mem_cons_self ..)]
    exact qmeSelect_decides fs c post pre (fun x hx => hpre x (List.mem_cons_of_mem _ hx)) hc

/-- nothing was delivered, forwarded or printed -/
def Refused (r : Result) (code : Nat) : Prop := r.code = code ∧ r.effects = [] ∧ r.did = [] ∧ r.out = []

theorem run_home_writable (a : Args) (w : World) (m : Nat) (hm : w.home = some m) (hw : m &&& patrn ≠ 0) :
    Refused (run a w) 111 ∧ (run a w).why = some .homeWritable := by
  simp [run, checkhome, hm, hw, Refused, Why.code, homeWritableCode]

theorem run_home_sticky (a : Args) (w : World) (m : Nat) (hm : w.home = some m) (hs : m &&& stickyBit ≠ 0)
    (hd : a.doit = true) : Refused (run a w) 111 := by
  by_cases hw : m &&& patrn = 0
  · simp [run, checkhome, hm, hw, hs, hd, Refused, Why.code, homeStickyCode]
  · exact (run_home_writable a w m hm hw).1

/-- the home directory passed `checkhome` -/
def HomeOK (a : Args) (w : World) : Prop := ∃ warn, checkhome a.doit w.home = (none, warn)

theorem run_looping (a : Args) (w : World) (hh : HomeOK a w) (hd : a.doit = true)
    (hl : LocalSpec.loops a.loc a.host a.msg = true) : Refused (run a w) 100 ∧ (run a w).why = some .looping := by
  obtain ⟨warn, hh⟩ := hh
  rw [← bouncexf_eq_spec] at hl
  simp only [run, hh]
  simp [hd, hl, Refused, Why.code, loopingCode]

/-- the loop check does not fire (always so with `-n`) -/
def NoLoop (a : Args) : Prop := ¬ (a.doit = true ∧ LocalSpec.loops a.loc a.host a.msg = true)

theorem run_qmail_writable (a : Args) (w : World) (hh : HomeOK a w) (hn : NoLoop a) (n : Bytes)
    (hs : qmeSelect w.fs (qmeCandidates a.dash (safeext a.ext)) = .writable n) :
    Refused (run a w) 111 ∧ (run a w).why = some .qmailWritable := by
  obtain ⟨warn, hh⟩ := hh
  unfold NoLoop at hn; rw [← bouncexf_eq_spec] at hn
  simp [run, hh, hn, hs, Refused, Why.code, qmailWritableCode]

theorem run_qmail_temp (a : Args) (w : World) (hh : HomeOK a w) (hn : NoLoop a) (n : Bytes)
    (hs : qmeSelect w.fs (qmeCandidates a.dash (safeext a.ext)) = .temp n) : Refused (run a w) 111 := by
  obtain ⟨warn, hh⟩ := hh
  unfold NoLoop at hn; rw [← bouncexf_eq_spec] at hn
  simp [run, hh, hn, hs, Refused]

theorem run_nofile_dash (a : Args) (w : World) (hh : HomeOK a w) (hn : NoLoop a)
    (hs : qmeSelect w.fs (qmeCandidates a.dash (safeext a.ext)) = .nofile) (hd : a.dash ≠ []) :
    Refused (run a w) 100 ∧ (run a w).why = some .noMailbox := by
  obtain ⟨warn, hh⟩ := hh
  unfold NoLoop at hn; rw [← bouncexf_eq_spec] at hn
  simp [run, hh, hn, hs, hd, Refused, Why.code, noMailboxCode]

theorem run_nofile_nodash (a : Args) (w : World) (hh : HomeOK a w) (hn : NoLoop a)
    (hs : qmeSelect w.fs (qmeCandidates a.dash (safeext a.ext)) = .nofile) (hd : a.dash = []) (u : Bytes)
    (hu : ueoOf a.loc a.dash (safeext a.ext) a.host a.sender w.ex = .ok u) :
    ∃ r0, run a w = deliver a w a.aliasempty false r0 ∧ r0.ueo = some u := by
  obtain ⟨warn, hh⟩ := hh
  unfold NoLoop at hn; rw [← bouncexf_eq_spec] at hn
  refine ⟨{ stickyWarn := warn, tried := qmeTried w.fs (qmeCandidates a.dash (safeext a.ext)),
            stats := ueoStats a.dash (safeext a.ext) a.sender w.ex, ueo := some u }, ?_, rfl⟩
  simp only [run, hh, hn, hs, hu]
  simp [hd]

theorem run_found (a : Args) (w : World) (hh : HomeOK a w) (hn : NoLoop a) (c : Cand) (mode : Nat) (content u : Bytes)
    (hs : qmeSelect w.fs (qmeCandidates a.dash (safeext a.ext)) = .found c mode content)
    (hu : ueoOf a.loc a.dash (safeext a.ext) a.host a.sender w.ex = .ok u) :
    ∃ r0, r0.ueo = some u ∧ r0.sel = some c ∧
      run a w = if content = [] then deliver a w a.aliasempty false r0 else deliver a w content (mode &&& xBit ≠ 0) r0 := by
  obtain ⟨warn, hh⟩ := hh
  unfold NoLoop at hn; rw [← bouncexf_eq_spec] at hn
  refine ⟨{ stickyWarn := warn, tried := qmeTried w.fs (qmeCandidates a.dash (safeext a.ext)),
            stats := ueoStats a.dash (safeext a.ext) a.sender w.ex, sel := some c,
            dfltEnv := c.dflt.map (fun i => a.ext.drop i), ueo := some u }, rfl, rfl, ?_⟩
  simp only [run, hh, hn, hs, hu]
  simp

/-- every run either stops before the first instruction, or is the instruction loop on some text -/
theorem run_cases (a : Args) (w : World) :
    (∃ code, code ≠ 0 ∧ Refused (run a w) code) ∨
    (∃ r0, run a w = deliver a w a.aliasempty false r0) ∨
    (∃ c mode content r0, qmeSelect w.fs (qmeCandidates a.dash (safeext a.ext)) = .found c mode content ∧ content ≠ [] ∧
        run a w = deliver a w content (mode &&& xBit ≠ 0) r0) := by
  unfold run
  rcases hc : checkhome a.doit w.home with ⟨_ | y, warn⟩
  · simp only
    split
    · left; exact ⟨_, by simp [Why.code, loopingCode], rfl, rfl, rfl, rfl⟩
    · cases hs : qmeSelect w.fs (qmeCandidates a.dash (safeext a.ext)) with
      | temp n => left; exact ⟨111, by simp, rfl, rfl, rfl, rfl⟩
      | writable n => left; exact ⟨_, by simp [Why.code, qmailWritableCode], rfl, rfl, rfl, rfl⟩
      | nofile =>
        simp only
        split
        · left; exact ⟨_, by simp [Why.code, noMailboxCode], rfl, rfl, rfl, rfl⟩
        · split
          · left; exact ⟨111, by simp, rfl, rfl, rfl, rfl⟩
          · right; left; exact ⟨_, rfl⟩
      | found c mode content =>
        simp only
        split
        · left; exact ⟨111, by simp, rfl, rfl, rfl, rfl⟩
        · split
          · right; left; exact ⟨_, rfl⟩
          · rename_i hne
            right; right; exact ⟨c, mode, content, _, rfl, hne, rfl⟩
  · left
    refine ⟨y.code, ?_, rfl, rfl, rfl, rfl⟩
    revert hc
    unfold checkhome
    cases w.home with
    | none => simp; rintro rfl _; simp [Why.code]
    | some m =>
      simp only
      split
      · simp; rintro rfl _; simp [Why.code, homeWritableCode]
      · split
        · split
          · simp; rintro rfl _; simp [Why.code, homeStickyCode]
          · simp
        · simp

theorem checkhome_some_code (d : Bool) (home : Option Nat) (y : Why) (warn : Bool)
    (hc : checkhome d home = (some y, warn)) : y.code = 111 := by
  revert hc
  unfold checkhome
  cases home with
  | none => simp; rintro rfl _; simp [Why.code]
  | some m =>
    simp only
    split
    · simp; rintro rfl _; simp [Why.code, homeWritableCode]
    · split
      · split
        · simp; rintro rfl _; simp [Why.code, homeStickyCode]
        · simp
      · simp

/-- with a non-empty control file selected, a run either stops before the first instruction or follows that file -/
theorem run_found_cases (a : Args) (w : World) (c : Cand) (mode : Nat) (content : Bytes)
    (hs : qmeSelect w.fs (qmeCandidates a.dash (safeext a.ext)) = .found c mode content) (hne : content ≠ []) :
    (∃ code, code ≠ 0 ∧ Refused (run a w) code) ∨ ∃ r0, run a w = deliver a w content (mode &&& xBit ≠ 0) r0 := by
  unfold run
  rcases hc : checkhome a.doit w.home with ⟨_ | y, warn⟩
  · simp only [hs]
    split
    · left; exact ⟨_, by simp [Why.code, loopingCode], rfl, rfl, rfl, rfl⟩
    · split
      · left; exact ⟨111, by simp, rfl, rfl, rfl, rfl⟩
      · right; exact ⟨_, rfl⟩
  · left
    exact ⟨y.code, by rw [checkhome_some_code _ _ _ _ hc]; simp, rfl, rfl, rfl, rfl⟩

/-! ### envelope sender of forwarded copies -/

theorem ueoOf_eq_spec (loc dash sx host sender : Bytes) (ex : Bytes → Option Bool) (o1 o2 : Bool)
    (h1 : ex (dotQmail ++ dash ++ sx ++ ownerB) = some o1)
    (h2 : ex (dotQmail ++ dash ++ sx ++ ownerDefaultB) = some o2) :
    ueoOf loc dash sx host sender ex = .ok (LocalSpec.forwardSender loc host sender o1 o2) := by
  unfold ueoOf LocalSpec.forwardSender
  by_cases hs : sender = [] ∨ sender = bounceVerp
  · have hs' : sender = [] ∨ sender = [35, 64, 91, 93] := by simpa [bounceVerp] using hs
    simp [hs, hs']
  · have hs' : ¬ (sender = [] ∨ sender = [35, 64, 91, 93]) := by simpa [bounceVerp] using hs
    simp only [hs, hs', if_false, h1, h2]
    cases o1 <;> cases o2 <;> simp [ownerB, DASH, AT]

/-! ### one line of the control file = the documented reading -/

theorem dropWhile_append' (p : Byte → Bool) : ∀ (a b : Bytes),
    (a ++ b).dropWhile p = if a.dropWhile p = [] then b.dropWhile p else a.dropWhile p ++ b
  | [], b => by simp
  | x :: a, b => by
    simp only [List.cons_append, List.dropWhile_cons]
    by_cases hx : p x = true
    · simp only [hx, if_true]; exact dropWhile_append' p a b
    · simp [hx]

theorem stripTrail_eq_spec : ∀ l : Bytes, stripTrail l = LocalSpec.trimRight l
  | [] => by simp [stripTrail, LocalSpec.trimRight]
  | c :: r => by
    have ih := stripTrail_eq_spec r
    unfold stripTrail at ih ⊢
    rw [List.reverse_cons, dropWhile_append', LocalSpec.trimRight, ← ih]
    by_cases hr : r.reverse.dropWhile isSpTab = []
    · simp only [hr, if_true, List.reverse_nil]
      by_cases hc : c = 32 ∨ c = 9
      · have : isSpTab c = true := by rcases hc with rfl | rfl <;> decide
        simp [hc, this]
      · have : isSpTab c = false := by
          simp only [isSpTab, SP, TAB, Bool.or_eq_false_iff, beq_eq_false_iff_ne]
          exact ⟨fun e => hc (Or.inl e), fun e => hc (Or.inr e)⟩
        simp [hc, this]
    · simp only [hr, if_false, List.reverse_append, List.reverse_singleton, List.singleton_append]
      cases h : (r.reverse.dropWhile isSpTab).reverse with
      | nil => simp at h; exact absurd h hr
      | cons a t => rfl

theorem cstr_eq_spec : ∀ l : Bytes, cstr l = LocalSpec.upToNul l
  | [] => rfl
  | c :: r => by
    have ih := cstr_eq_spec r
    unfold cstr at ih ⊢
    by_cases hc : c = 0
    · simp [LocalSpec.upToNul, hc, NUL]
    · simp [LocalSpec.upToNul, hc, NUL, ih]

/-- the documented meaning of a classified line -/
def specOfLine : Line → LocalSpec.SInstr
  | .blank => .blank
  | .comment => .nothing
  | .plusOther => .nothing
  | .list => .list
  | .act (.mbox f) => .mbox f
  | .act (.maildir f) => .maildir f
  | .act (.program c) => .program c
  | .act (.forward a) => .forward a

theorem classify_eq_spec (raw : Bytes) : specOfLine (classify raw) = LocalSpec.readLine raw := by
  unfold classify LocalSpec.readLine
  rw [stripTrail_eq_spec]
  cases h : LocalSpec.trimRight raw with
  | nil => simp [specOfLine]
  | cons c rest =>
    simp only [List.head?_cons, List.drop_one, List.tail_cons]
    by_cases h0 : c = 0
    · subst h0; simp [specOfLine, NUL]
    by_cases h1 : c = 35
    · subst h1; simp [specOfLine, NUL, HASH]
    by_cases h2 : c = 124
    · subst h2; simp [specOfLine, NUL, HASH, BAR, DOT, SLASH]
    by_cases h3 : c = 38
    · subst h3; simp [specOfLine, NUL, HASH, BAR, DOT, SLASH, AMP, PLUS]
    by_cases h4 : c = 43
    · subst h4
      simp only [NUL, HASH, BAR, DOT, SLASH, AMP, PLUS, cstr_eq_spec, listB]
      by_cases hl : LocalSpec.upToNul rest = [108, 105, 115, 116] <;> simp [hl, specOfLine]
    · by_cases h5 : c = 46 ∨ c = 47
      · simp only [NUL, HASH, BAR, DOT, SLASH, AMP, PLUS, h0, h1, h2, h3, h4, h5, if_false, if_true]
        split <;> simp_all [specOfLine]
      · simp only [NUL, HASH, BAR, DOT, SLASH, AMP, PLUS, h0, h1, h2, h3, h4, h5, if_false]
        simp [specOfLine]

/-! ### $DEFAULT -/

theorem defaultB_eq : defaultB = LocalSpec.dflt := rfl
theorem dotQmail_eq : dotQmail = LocalSpec.dotQmail := rfl

theorem default_eq_spec (dash ext : Bytes) (c : Cand) (hc : c ∈ qmeCandidates dash (safeext ext)) :
    c.dflt.map (fun i => ext.drop i) = LocalSpec.defaultVar dash ext c.name := by
  have hlen : (safeext ext).length = ext.length := by simp [safeext]
  simp only [qmeCandidates, List.mem_cons, List.mem_map] at hc
  unfold LocalSpec.defaultVar
  simp only [← safeext_eq_spec, ← defaultB_eq, ← dotQmail_eq]
  rcases hc with rfl | ⟨i, hi, rfl⟩
  · simp only [if_true, exactDflt, hlen]
    split <;> simp
  · have hile : i ≤ (safeext ext).length := ((mem_defIdxFrom _ _ i).1 hi).1
    have htl : ((safeext ext).take i).length = i := by simp [List.length_take]; omega
    simp only [Option.map_some]
    split
    · rename_i he
      have he2 : (safeext ext).take i ++ defaultB = safeext ext := by
        have := List.append_cancel_left (by simpa [List.append_assoc] using he :
          (dotQmail ++ dash) ++ ((safeext ext).take i ++ defaultB) = (dotQmail ++ dash) ++ safeext ext)
        exact this
      have hl : (safeext ext).length = i + 7 := by
        have := congrArg List.length he2
        simp [htl, defaultB] at this; omega
      have hi7 : ext.length - 7 = i := by omega
      have hd : (safeext ext).drop ((safeext ext).length - 7) = defaultB := by
        have h7 : (safeext ext).length - 7 = i := by omega
        rw [h7]
        conv => lhs; rw [← he2]
        rw [List.drop_append_of_le_length (by omega)]
        simp [htl]
      have hcnd : 7 ≤ (safeext ext).length ∧ (safeext ext).drop ((safeext ext).length - 7) = defaultB :=
        ⟨by omega, hd⟩
      simp [hcnd, hi7]
    · have : (dotQmail ++ dash ++ List.take i (safeext ext) ++ defaultB).length - (6 + dash.length + 7) = i := by
        simp [htl, dotQmail, defaultB]; omega
      rw [this]

/-! ### the instruction loop = the documented walk -/

set_option maxRecDepth 100000 in
theorem progClass_table : ∀ code, code < 256 →
    progClass code = (match LocalSpec.exitVerdict code with
      | .ok => .ok | .stop => .stop99 | .hard => .exit 100 | .soft => .exit 111) := by
  decide

theorem progClass_spec (code : Nat) :
    progClass code = (match LocalSpec.exitVerdict code with
      | .ok => .ok | .stop => .stop99 | .hard => .exit 100 | .soft => .exit 111) := by
  by_cases h : code < 256
  · exact progClass_table code h
  · have hb : ∀ k, k < 256 → (code == k) = false := by intro k hk; simp; omega
    have hv : LocalSpec.exitVerdict code = .soft := by
      unfold LocalSpec.exitVerdict
      have h0 : code ≠ 0 := by omega
      have h1 : code ≠ 99 := by omega
      have h2 : ¬ (code = 100 ∨ code ∈ [64, 65, 70, 76, 77, 78, 112]) := by simp; omega
      simp [h0, h1]; omega
    have hl : progCases.lookup code = none := by
      simp [progCases, List.lookup, hb]
    simp [progClass, hl, hv, progDefault]

def toRan : PRes → LocalSpec.Ran
  | .exited c => .exited c
  | .crashed => .crashed

def specOfInstr : Instr → LocalSpec.SInstr
  | .mbox f => .mbox f
  | .maildir f => .maildir f
  | .program c => .program c
  | .forward a => .forward a

def effOf : Instr → Option LocalSpec.Effect
  | .mbox f => some (.mbox (cstr f))
  | .maildir f => some (.maildir (cstr f))
  | .program c => some (.program (cstr c))
  | .forward _ => none

def finCode : Fin → Option Nat
  | .done => none
  | .stop99 => some 0
  | .die y => some y.code

theorem step_stopped (doit : Bool) (run : Bytes → LocalSpec.Ran) (fileOK : LocalSpec.SInstr → Nat)
    (w : LocalSpec.Walk) (i : LocalSpec.SInstr) (h : w.status.isSome = true) : LocalSpec.step doit run fileOK w i = w := by
  simp [LocalSpec.step, h]

theorem foldl_stopped (doit : Bool) (run : Bytes → LocalSpec.Ran) (fileOK : LocalSpec.SInstr → Nat) :
    ∀ (l : List LocalSpec.SInstr) (w : LocalSpec.Walk), w.status.isSome = true →
      l.foldl (LocalSpec.step doit run fileOK) w = w
  | [], _, _ => rfl
  | i :: l, w, h => by
    rw [List.foldl_cons, step_stopped doit run fileOK w i h]
    exact foldl_stopped doit run fileOK l w h

/-- the relation between the final state of the documented walk, its start state, and the model's trace -/
def Rel (W w : LocalSpec.Walk) (t : Trace) : Prop :=
  W.shown = (t.did.map specOfInstr).reverse ++ w.shown ∧
  W.effects = (t.did.filterMap effOf).reverse ++ w.effects ∧
  W.recips = ((t.did.filterMap fwdAddr).map cstr).reverse ++ w.recips ∧
  W.status = finCode t.fin

theorem walk_eq (px : Bytes → PRes) (dx : Instr → Option Why) (fileOK : LocalSpec.SInstr → Nat)
    (hfile : ∀ i, isFile i = true → fileOK (specOfInstr i) = match dx i with | some y => y.code | none => 0)
    (hnz : ∀ i y, isFile i = true → dx i = some y → y.code ≠ 0) :
    ∀ (lines : List Bytes) (w : LocalSpec.Walk), w.status = none →
      Rel ((lines.map LocalSpec.readLine).foldl (LocalSpec.step true (fun c => toRan (px c)) fileOK) w) w
        (dispatch px dx w.first w.forwardOnly lines)
  | [], w, hw => by simp [Rel, dispatch, finCode, hw]
  | raw :: rest, w, hw => by
    have ih := walk_eq px dx fileOK hfile hnz rest
    simp only [List.map_cons, List.foldl_cons]
    rw [← classify_eq_spec raw]
    unfold dispatch
    -- the state after a line that has no effect
    have skip : ∀ fo', Rel ((rest.map LocalSpec.readLine).foldl (LocalSpec.step true (fun c => toRan (px c)) fileOK)
          { w with first := false, forwardOnly := fo' }) w (dispatch px dx false fo' rest) := by
      intro fo'
      have := ih { w with first := false, forwardOnly := fo' } hw
      simpa [Rel] using this
    cases hc : classify raw with
    | blank =>
      simp only [specOfLine]
      by_cases hf : w.first = true
      · have hs : LocalSpec.step true (fun c => toRan (px c)) fileOK w .blank = { w with first := false, status := some 111 } := by
          simp [LocalSpec.step, hw, hf]
        rw [hs, foldl_stopped _ _ _ _ _ (by simp)]
        simp [Rel, hf, finCode, Why.code, blankFirstCode]
      · have hs : LocalSpec.step true (fun c => toRan (px c)) fileOK w .blank = { w with first := false } := by
          simp [LocalSpec.step, hw, hf]
        rw [hs]
        simp only [hf]
        have := skip w.forwardOnly
        simpa using this
    | comment =>
      simp only [specOfLine]
      have hs : LocalSpec.step true (fun c => toRan (px c)) fileOK w .nothing = { w with first := false } := by
        simp [LocalSpec.step, hw]
      rw [hs]; simpa using skip w.forwardOnly
    | plusOther =>
      simp only [specOfLine]
      have hs : LocalSpec.step true (fun c => toRan (px c)) fileOK w .nothing = { w with first := false } := by
        simp [LocalSpec.step, hw]
      rw [hs]; simpa using skip w.forwardOnly
    | list =>
      simp only [specOfLine]
      have hs : LocalSpec.step true (fun c => toRan (px c)) fileOK w .list = { w with first := false, forwardOnly := true } := by
        simp [LocalSpec.step, hw]
      rw [hs]; simpa using skip true
    | act i =>
      -- an instruction that is acted upon and after which the walk goes on
      have go : ∀ (w' : LocalSpec.Walk), w'.status = none → w'.first = false → w'.forwardOnly = w.forwardOnly →
          w'.shown = specOfInstr i :: w.shown → w'.effects = (effOf i).toList ++ w.effects →
          w'.recips = ((fwdAddr i).map cstr).toList ++ w.recips →
          Rel ((rest.map LocalSpec.readLine).foldl (LocalSpec.step true (fun c => toRan (px c)) fileOK) w') w
            ((dispatch px dx false w.forwardOnly rest).cons i) := by
        intro w' h1 h2 h3 h4 h5 h6
        have := ih w' h1
        rw [h2, h3] at this
        obtain ⟨a1, a2, a3, a4⟩ := this
        refine ⟨?_, ?_, ?_, ?_⟩
        · rw [a1, h4]; simp
        · rw [a2, h5]; cases hi : effOf i <;> simp [hi]
        · rw [a3, h6]; cases hi : fwdAddr i <;> simp [hi]
        · rw [a4]; rfl
      -- an instruction after which the walk stops
      have stop : ∀ (w' : LocalSpec.Walk) (f : Fin), w'.status = finCode f → w'.status.isSome = true →
          w'.shown = specOfInstr i :: w.shown → w'.effects = (effOf i).toList ++ w.effects → w'.recips = w.recips →
          fwdAddr i = none →
          Rel ((rest.map LocalSpec.readLine).foldl (LocalSpec.step true (fun c => toRan (px c)) fileOK) w') w ⟨[i], f⟩ := by
        intro w' f h1 h2 h4 h5 h6 h7
        rw [foldl_stopped _ _ _ _ _ h2]
        refine ⟨by rw [h4]; simp, ?_, by rw [h6]; simp [h7], h1⟩
        rw [h5]; cases hi : effOf i <;> simp [hi]
      -- a refusal before acting
      have refuse : ∀ (w' : LocalSpec.Walk) (y : Why), w'.status = some y.code →
          w'.shown = w.shown → w'.effects = w.effects → w'.recips = w.recips →
          Rel ((rest.map LocalSpec.readLine).foldl (LocalSpec.step true (fun c => toRan (px c)) fileOK) w') w ⟨[], .die y⟩ := by
        intro w' y h1 h4 h5 h6
        rw [foldl_stopped _ _ _ _ _ (by simp [h1])]
        exact ⟨by rw [h4]; simp, by rw [h5]; simp, by rw [h6]; simp, h1⟩
      cases i with
      | forward a =>
        simp only [specOfLine]
        have hs : LocalSpec.step true (fun c => toRan (px c)) fileOK w (.forward a) =
            { w with first := false, recips := LocalSpec.upToNul a :: w.recips, shown := .forward a :: w.shown } := by
          simp [LocalSpec.step, hw]
        rw [hs]
        exact go _ (by exact hw) rfl rfl rfl rfl (by simp [fwdAddr, cstr_eq_spec])
      | program c =>
        simp only [specOfLine]
        by_cases hfo : w.forwardOnly = true
        · have hs : LocalSpec.step true (fun c => toRan (px c)) fileOK w (.program c) = { w with first := false, status := some 111 } := by
            simp [LocalSpec.step, hw, hfo]
          rw [hs]; simp only [hfo, if_true]
          exact refuse _ .xbitProg (by simp [Why.code, xbitProgCode]) rfl rfl rfl
        · have hfo' : w.forwardOnly = false := by simpa using hfo
          simp only [hfo', Bool.false_eq_true, if_false]
          rw [hfo'] at go
          cases hp : px (cstr c) with
          | crashed =>
            have hs : LocalSpec.step true (fun c => toRan (px c)) fileOK w (.program c) =
                { w with first := false, effects := .program (LocalSpec.upToNul c) :: w.effects,
                         shown := .program c :: w.shown, status := some 111 } := by
              simp [LocalSpec.step, hw, hfo, ← cstr_eq_spec, hp, toRan]
            rw [hs]
            exact stop _ (.die .childCrashed) (by simp [finCode, Why.code, childCrashedCode]) (by simp) rfl
              (by simp [effOf, cstr_eq_spec]) rfl rfl
          | exited code =>
            simp only
            rw [progClass_spec code]
            cases hv : LocalSpec.exitVerdict code with
            | ok =>
              have hs : LocalSpec.step true (fun c => toRan (px c)) fileOK w (.program c) =
                  { w with first := false, effects := .program (LocalSpec.upToNul c) :: w.effects, shown := .program c :: w.shown } := by
                simp [LocalSpec.step, hw, hfo, ← cstr_eq_spec, hp, toRan, hv]
              rw [hs]
              dsimp only
              apply go <;> first | exact hw | rfl | exact hfo' | simp [effOf, fwdAddr, cstr_eq_spec]
            | stop =>
              have hs : LocalSpec.step true (fun c => toRan (px c)) fileOK w (.program c) =
                  { w with first := false, effects := .program (LocalSpec.upToNul c) :: w.effects,
                           shown := .program c :: w.shown, status := some 0 } := by
                simp [LocalSpec.step, hw, hfo, ← cstr_eq_spec, hp, toRan, hv]
              rw [hs]
              exact stop _ .stop99 (by simp [finCode]) (by simp) rfl (by simp [effOf, cstr_eq_spec]) rfl rfl
            | hard =>
              have hs : LocalSpec.step true (fun c => toRan (px c)) fileOK w (.program c) =
                  { w with first := false, effects := .program (LocalSpec.upToNul c) :: w.effects,
                           shown := .program c :: w.shown, status := some 100 } := by
                simp [LocalSpec.step, hw, hfo, ← cstr_eq_spec, hp, toRan, hv]
              rw [hs]
              exact stop _ (.die (.progExit 100)) (by simp [finCode, Why.code]) (by simp) rfl (by simp [effOf, cstr_eq_spec]) rfl rfl
            | soft =>
              have hs : LocalSpec.step true (fun c => toRan (px c)) fileOK w (.program c) =
                  { w with first := false, effects := .program (LocalSpec.upToNul c) :: w.effects,
                           shown := .program c :: w.shown, status := some 111 } := by
                simp [LocalSpec.step, hw, hfo, ← cstr_eq_spec, hp, toRan, hv]
              rw [hs]
              exact stop _ (.die (.progExit 111)) (by simp [finCode, Why.code]) (by simp) rfl (by simp [effOf, cstr_eq_spec]) rfl rfl
      | mbox f =>
        simp only [specOfLine]
        by_cases hfo : w.forwardOnly = true
        · have hs : LocalSpec.step true (fun c => toRan (px c)) fileOK w (.mbox f) = { w with first := false, status := some 111 } := by
            simp [LocalSpec.step, hw, hfo]
          rw [hs]; simp only [hfo, if_true]
          exact refuse _ .xbitFile (by simp [Why.code, xbitFileCode]) rfl rfl rfl
        · have hfo' : w.forwardOnly = false := by simpa using hfo
          simp only [hfo', Bool.false_eq_true, if_false]
          rw [hfo'] at go
          have hf := hfile (.mbox f) rfl
          simp only [specOfInstr] at hf
          cases hd : dx (.mbox f) with
          | none =>
            rw [hd] at hf
            have hs : LocalSpec.step true (fun c => toRan (px c)) fileOK w (.mbox f) =
                { w with first := false, effects := .mbox (LocalSpec.upToNul f) :: w.effects, shown := .mbox f :: w.shown } := by
              simp [LocalSpec.step, hw, hfo, hf]
            rw [hs]
            dsimp only
            apply go <;> first | exact hw | rfl | exact hfo' | simp [effOf, fwdAddr, cstr_eq_spec]
          | some y =>
            rw [hd] at hf
            have hy := hnz _ y rfl hd
            have hs : LocalSpec.step true (fun c => toRan (px c)) fileOK w (.mbox f) =
                { w with first := false, effects := .mbox (LocalSpec.upToNul f) :: w.effects, shown := .mbox f :: w.shown,
                         status := some y.code } := by
              simp [LocalSpec.step, hw, hfo, hf, hy]
            rw [hs]
            exact stop _ (.die y) (by simp [finCode]) (by simp) rfl (by simp [effOf, cstr_eq_spec]) rfl rfl
      | maildir f =>
        simp only [specOfLine]
        by_cases hfo : w.forwardOnly = true
        · have hs : LocalSpec.step true (fun c => toRan (px c)) fileOK w (.maildir f) = { w with first := false, status := some 111 } := by
            simp [LocalSpec.step, hw, hfo]
          rw [hs]; simp only [hfo, if_true]
          exact refuse _ .xbitFile (by simp [Why.code, xbitFileCode]) rfl rfl rfl
        · have hfo' : w.forwardOnly = false := by simpa using hfo
          simp only [hfo', Bool.false_eq_true, if_false]
          rw [hfo'] at go
          have hf := hfile (.maildir f) rfl
          simp only [specOfInstr] at hf
          cases hd : dx (.maildir f) with
          | none =>
            rw [hd] at hf
            have hs : LocalSpec.step true (fun c => toRan (px c)) fileOK w (.maildir f) =
                { w with first := false, effects := .maildir (LocalSpec.upToNul f) :: w.effects, shown := .maildir f :: w.shown } := by
              simp [LocalSpec.step, hw, hfo, hf]
            rw [hs]
            dsimp only
            apply go <;> first | exact hw | rfl | exact hfo' | simp [effOf, fwdAddr, cstr_eq_spec]
          | some y =>
            rw [hd] at hf
            have hy := hnz _ y rfl hd
            have hs : LocalSpec.step true (fun c => toRan (px c)) fileOK w (.maildir f) =
                { w with first := false, effects := .maildir (LocalSpec.upToNul f) :: w.effects, shown := .maildir f :: w.shown,
                         status := some y.code } := by
              simp [LocalSpec.step, hw, hfo, hf, hy]
            rw [hs]
            exact stop _ (.die y) (by simp [finCode]) (by simp) rfl (by simp [effOf, cstr_eq_spec]) rfl rfl


/-- `-n`: nothing is run; the walk only collects what it would do -/
def RelN (W w : LocalSpec.Walk) (t : Trace) : Prop :=
  W.shown = (t.did.map specOfInstr).reverse ++ w.shown ∧
  W.effects = w.effects ∧
  W.recips = ((t.did.filterMap fwdAddr).map cstr).reverse ++ w.recips ∧
  W.status = finCode t.fin

theorem progClass_zero : progClass 0 = .ok := by decide

theorem walk_eq_n (run : Bytes → LocalSpec.Ran) (fileOK : LocalSpec.SInstr → Nat) :
    ∀ (lines : List Bytes) (w : LocalSpec.Walk), w.status = none →
      RelN ((lines.map LocalSpec.readLine).foldl (LocalSpec.step false run fileOK) w) w
        (dispatch (fun _ => .exited 0) (fun _ => none) w.first w.forwardOnly lines)
  | [], w, hw => by simp [RelN, dispatch, finCode, hw]
  | raw :: rest, w, hw => by
    have ih := walk_eq_n run fileOK rest
    simp only [List.map_cons, List.foldl_cons]
    rw [← classify_eq_spec raw]
    unfold dispatch
    have skip : ∀ fo', RelN ((rest.map LocalSpec.readLine).foldl (LocalSpec.step false run fileOK)
          { w with first := false, forwardOnly := fo' }) w (dispatch (fun _ => .exited 0) (fun _ => none) false fo' rest) := by
      intro fo'
      have := ih { w with first := false, forwardOnly := fo' } hw
      simpa [RelN] using this
    cases hc : classify raw with
    | blank =>
      simp only [specOfLine]
      by_cases hf : w.first = true
      · have hs : LocalSpec.step false run fileOK w .blank = { w with first := false, status := some 111 } := by
          simp [LocalSpec.step, hw, hf]
        rw [hs, foldl_stopped _ _ _ _ _ (by simp)]
        simp [RelN, hf, finCode, Why.code, blankFirstCode]
      · have hs : LocalSpec.step false run fileOK w .blank = { w with first := false } := by
          simp [LocalSpec.step, hw, hf]
        rw [hs]
        simp only [hf]
        have := skip w.forwardOnly
        simpa using this
    | comment =>
      simp only [specOfLine]
      have hs : LocalSpec.step false run fileOK w .nothing = { w with first := false } := by
        simp [LocalSpec.step, hw]
      rw [hs]; simpa using skip w.forwardOnly
    | plusOther =>
      simp only [specOfLine]
      have hs : LocalSpec.step false run fileOK w .nothing = { w with first := false } := by
        simp [LocalSpec.step, hw]
      rw [hs]; simpa using skip w.forwardOnly
    | list =>
      simp only [specOfLine]
      have hs : LocalSpec.step false run fileOK w .list = { w with first := false, forwardOnly := true } := by
        simp [LocalSpec.step, hw]
      rw [hs]; simpa using skip true
    | act i =>
      have go : ∀ (w' : LocalSpec.Walk), w'.status = none → w'.first = false → w'.forwardOnly = w.forwardOnly →
          w'.shown = specOfInstr i :: w.shown → w'.effects = w.effects →
          w'.recips = ((fwdAddr i).map cstr).toList ++ w.recips →
          RelN ((rest.map LocalSpec.readLine).foldl (LocalSpec.step false run fileOK) w') w
            ((dispatch (fun _ => .exited 0) (fun _ => none) false w.forwardOnly rest).cons i) := by
        intro w' h1 h2 h3 h4 h5 h6
        have := ih w' h1
        rw [h2, h3] at this
        obtain ⟨a1, a2, a3, a4⟩ := this
        refine ⟨?_, ?_, ?_, ?_⟩
        · rw [a1, h4]; simp
        · rw [a2, h5]
        · rw [a3, h6]; cases hi : fwdAddr i <;> simp [hi]
        · rw [a4]; rfl
      have refuse : ∀ (w' : LocalSpec.Walk) (y : Why), w'.status = some y.code →
          w'.shown = w.shown → w'.effects = w.effects → w'.recips = w.recips →
          RelN ((rest.map LocalSpec.readLine).foldl (LocalSpec.step false run fileOK) w') w ⟨[], .die y⟩ := by
        intro w' y h1 h4 h5 h6
        rw [foldl_stopped _ _ _ _ _ (by simp [h1])]
        exact ⟨by rw [h4]; simp, h5, by rw [h6]; simp, h1⟩
      cases i with
      | forward a =>
        simp only [specOfLine]
        have hs : LocalSpec.step false run fileOK w (.forward a) =
            { w with first := false, recips := LocalSpec.upToNul a :: w.recips, shown := .forward a :: w.shown } := by
          simp [LocalSpec.step, hw]
        rw [hs]
        apply go <;> first | exact hw | rfl | simp [fwdAddr, cstr_eq_spec]
      | program c =>
        simp only [specOfLine]
        by_cases hfo : w.forwardOnly = true
        · have hs : LocalSpec.step false run fileOK w (.program c) = { w with first := false, status := some 111 } := by
            simp [LocalSpec.step, hw, hfo]
          rw [hs]; simp only [hfo, if_true]
          exact refuse _ .xbitProg (by simp [Why.code, xbitProgCode]) rfl rfl rfl
        · have hfo' : w.forwardOnly = false := by simpa using hfo
          simp only [hfo', Bool.false_eq_true, if_false, progClass_zero]
          rw [hfo'] at go
          have hs : LocalSpec.step false run fileOK w (.program c) =
              { w with first := false, shown := .program c :: w.shown } := by
            simp [LocalSpec.step, hw, hfo]
          rw [hs]
          apply go <;> first | exact hw | rfl | exact hfo' | simp [fwdAddr]
      | mbox f =>
        simp only [specOfLine]
        by_cases hfo : w.forwardOnly = true
        · have hs : LocalSpec.step false run fileOK w (.mbox f) = { w with first := false, status := some 111 } := by
            simp [LocalSpec.step, hw, hfo]
          rw [hs]; simp only [hfo, if_true]
          exact refuse _ .xbitFile (by simp [Why.code, xbitFileCode]) rfl rfl rfl
        · have hfo' : w.forwardOnly = false := by simpa using hfo
          simp only [hfo', Bool.false_eq_true, if_false]
          rw [hfo'] at go
          have hs : LocalSpec.step false run fileOK w (.mbox f) =
              { w with first := false, shown := .mbox f :: w.shown } := by
            simp [LocalSpec.step, hw, hfo]
          rw [hs]
          apply go <;> first | exact hw | rfl | exact hfo' | simp [fwdAddr]
      | maildir f =>
        simp only [specOfLine]
        by_cases hfo : w.forwardOnly = true
        · have hs : LocalSpec.step false run fileOK w (.maildir f) = { w with first := false, status := some 111 } := by
            simp [LocalSpec.step, hw, hfo]
          rw [hs]; simp only [hfo, if_true]
          exact refuse _ .xbitFile (by simp [Why.code, xbitFileCode]) rfl rfl rfl
        · have hfo' : w.forwardOnly = false := by simpa using hfo
          simp only [hfo', Bool.false_eq_true, if_false]
          rw [hfo'] at go
          have hs : LocalSpec.step false run fileOK w (.maildir f) =
              { w with first := false, shown := .maildir f :: w.shown } := by
            simp [LocalSpec.step, hw, hfo]
          rw [hs]
          apply go <;> first | exact hw | rfl | exact hfo' | simp [fwdAddr]

/-! ### splitting the control file into lines -/

theorem splitAux_ne_nil : ∀ t : Bytes, splitAux t ≠ []
  | [] => by simp [splitAux]
  | c :: r => by
    unfold splitAux
    split
    · simp
    · split <;> simp

theorem go_eq_splitAux : ∀ (t acc : Bytes),
    LocalSpec.instrLines.go acc t = (match splitAux t with | h :: tl => (acc.reverse ++ h) :: tl | [] => [])
  | [], acc => by simp [LocalSpec.instrLines.go, splitAux]
  | c :: r, acc => by
    have ih := go_eq_splitAux r
    unfold LocalSpec.instrLines.go splitAux
    by_cases hc : c = 10
    · have hc' : c = LF := hc
      simp only [hc, hc', if_true]
      rw [ih []]
      cases h : splitAux r with
      | nil => exact absurd h (splitAux_ne_nil r)
      | cons a b => simp
    · have hc' : ¬ c = LF := hc
      simp only [hc, hc', if_false]
      rw [ih (c :: acc)]
      cases h : splitAux r with
      | nil => exact absurd h (splitAux_ne_nil r)
      | cons a b => simp

theorem splitAux_snoc_LF : ∀ t : Bytes, splitAux (t ++ [LF]) = splitAux t ++ [[]]
  | [] => by simp [splitAux]
  | c :: r => by
    have ih := splitAux_snoc_LF r
    simp only [List.cons_append]
    unfold splitAux
    by_cases hc : c = LF
    · simp only [hc, if_true, ih]; simp
    · simp only [hc, if_false, ih]
      cases h : splitAux r with
      | nil => exact absurd h (splitAux_ne_nil r)
      | cons a b => simp

theorem dropLast_snoc_of_getLast? (l : Bytes) (a : Byte) (h : l.getLast? = some a) : l.dropLast ++ [a] = l := by
  have hne : l ≠ [] := by intro e; simp [e] at h
  have h1 := List.dropLast_concat_getLast hne
  have h2 : l.getLast? = some (l.getLast hne) := List.getLast?_eq_some_getLast hne
  rw [h2] at h
  have h3 : l.getLast hne = a := by simpa using h
  rw [h3] at h1; exact h1

/-- the model's line splitting (`fixup`, then every LF ends a line) is the documented one -/
theorem splitLines_eq_spec (text : Bytes) : splitLines (fixup text) = LocalSpec.instrLines text := by
  unfold LocalSpec.instrLines
  simp only
  rw [go_eq_splitAux]
  have hgo : ∀ t : Bytes, (match splitAux t with | h :: tl => (([] : Bytes).reverse ++ h) :: tl | [] => []) = splitAux t := by
    intro t
    cases h : splitAux t with
    | nil => rfl
    | cons a b => simp
  rw [hgo]
  unfold splitLines fixup
  by_cases hl : text.getLast? = some LF
  · have hl' : text.getLast? = some 10 := hl
    simp only [hl, hl', if_true]
    have := dropLast_snoc_of_getLast? text LF hl
    conv => lhs; rw [← this, splitAux_snoc_LF]
    simp
  · have hl' : ¬ text.getLast? = some 10 := hl
    simp only [hl, hl', if_false]
    rw [splitAux_snoc_LF]; simp

end Nq.Lemmas.Local
