/-
  Helper lemmas for C09: the control flow of `run` (model of qmail-remote.c `smtp()`) realises the
  class rules `expect`; framing and code lemmas for `smtpcode()`.
-/
import Nq.RemoteSmtp
import Nq.RspawnReport
import Nq.Spec.RemoteVerdict

namespace Nq.Lemmas.RemoteSmtp
open Nq Nq.SmtpOut Nq.RemoteSmtp Nq.RspawnReport Nq.Spec.RemoteVerdict

/-- the abstract script of a run over delimited replies `fs` -/
def abstrF (a : Args) (wf : Option WPoint) (fs : List Bytes) : AScript :=
  { codes := fs.map codeNat, n := a.rcpts.length, msgErr := a.msgErr,
    msgPartial := (rblast a.msg).isNone, wfail := wf }

/-- the abstract script of a run: codes as the client itself delimits and computes them -/
def abstr (a : Args) (sc : Script) : AScript := abstrF a sc.wfail (frames .d1 [] sc.stream)

/-- the run shows the outcome `e` (and says QUIT only after a decided verdict) -/
def Good (e : Exp) (r : Res) : Prop :=
  verdictOK e.v (obsOf r) = true ∧ (obsOf r).rl = e.rl ∧ (r.quit = true → e.v.decided = true)

theorem hasInfix_self_append (p y : Bytes) : hasInfix p (p ++ y) = true := by
  cases h : p ++ y with
  | nil =>
    have : p = [] := by cases p <;> simp_all
    simp [hasInfix, this]
  | cons c t =>
    have : p.isPrefixOf (c :: t) = true := by rw [← h]; simp [List.isPrefixOf_iff_prefix]
    simp [hasInfix, this]

theorem hasInfix_append_left (p x y : Bytes) (h : hasInfix p y = true) : hasInfix p (x ++ y) = true := by
  induction x with
  | nil => simpa using h
  | cons c x ih => simp [hasInfix, ih]

theorem headB_append (p q : Bytes) (h : p ≠ []) : headB (p ++ q) = headB p := by
  cases p with
  | nil => exact absurd rfl h
  | cons c p => simp [headB]

theorem good_lost (a : Args) (rs : List Bytes) (w : Bytes) (crit wopen : Bool) :
    Good ⟨rs.map headB, .lost crit⟩ (lost a rs w crit wopen) := by
  refine ⟨?_, rfl, by simp [lost]⟩
  have hz : headB (droppedRep a.host crit) = cZ := by
    unfold droppedRep; rw [List.append_assoc, List.append_assoc, headB_append _ _ (by decide)]; decide
  simp only [verdictOK, obsOf, lost, hz, beq_self_eq_true, Bool.true_and]
  cases crit with
  | false => rfl
  | true =>
    simp only [Bool.not_true, Bool.false_or]
    unfold droppedRep
    simp only [if_true, List.append_assoc]
    exact hasInfix_append_left _ _ _ (hasInfix_append_left _ _ _ (hasInfix_append_left _ _ _
      (hasInfix_self_append _ _)))

def letterV : Verdict → Byte
  | .K => cK | .Z => cZ | .D => cD | .lost _ => cZ

theorem good_quit (a : Args) (wf : Option WPoint) (rs : List Bytes) (w pre app txt : Bytes) (v : Verdict)
    (hne : pre ≠ []) (hv : headB pre = letterV v) (hnl : ∀ c, v ≠ .lost c) :
    Good ⟨rs.map headB, v⟩ (quitWith a wf rs w pre app txt) := by
  unfold quitWith
  have : headB (pre ++ a.host ++ app ++ lit ".\n" ++ said txt) = letterV v := by
    simp only [List.append_assoc]; rw [headB_append _ _ hne, hv]
  cases v with
  | K => exact ⟨by simp only [verdictOK, obsOf, this, letterV]; decide, rfl, fun _ => rfl⟩
  | Z => exact ⟨by simp only [verdictOK, obsOf, this, letterV]; decide, rfl, fun _ => rfl⟩
  | D => exact ⟨by simp only [verdictOK, obsOf, this, letterV]; decide, rfl, fun _ => rfl⟩
  | lost c => exact absurd rfl (hnl c)

theorem good_msg (rs : List Bytes) (m w : Bytes) (wo : Bool) (v : Verdict) (hv : headB m = letterV v)
    (hnl : ∀ c, v ≠ .lost c) : Good ⟨rs.map headB, v⟩ { rcpt := rs, msg := m, wire := w, wireOpen := wo } := by
  refine ⟨?_, rfl, by simp⟩
  cases v with
  | K => simp only [verdictOK, obsOf, hv, letterV]; decide
  | Z => simp only [verdictOK, obsOf, hv, letterV]; decide
  | D => simp only [verdictOK, obsOf, hv, letterV]; decide
  | lost c => exact absurd rfl (hnl c)

/-- `smtp()` from DATA on realises `expData` -/
theorem data_good (a : Args) (wf : Option WPoint) (cs0 : List Nat) (rs : List Bytes) (w : Bytes) (bother : Bool)
    (txt : Bytes) (fs : List Bytes) :
    Good (expData { codes := cs0, n := a.rcpts.length, msgErr := a.msgErr, msgPartial := (rblast a.msg).isNone, wfail := wf }
            (rs.map headB) bother (fs.map codeNat))
         (dataPhase a wf rs w bother txt fs) := by
  unfold expData dataPhase
  by_cases hb : bother = false
  · simp only [hb, if_true]
    exact good_quit a wf rs w _ _ _ .D (by decide) (by decide) (by intro c; simp)
  · simp only [hb, if_false]
    by_cases hw : wf = some .data
    · simp only [hw, if_true]; exact good_lost a rs w false false
    · simp only [hw, if_false]
      cases fs with
      | nil => exact good_lost a rs _ false false
      | cons d fs =>
        simp only [List.map_cons]
        by_cases h5 : codeNat d ≥ 500
        · simp only [h5, if_true]
          exact good_quit a wf rs _ _ _ _ .D (by decide) (by decide) (by intro c; simp)
        · simp only [h5, if_false]
          by_cases h4 : codeNat d ≥ 400
          · simp only [h4, if_true]
            exact good_quit a wf rs _ _ _ _ .Z (by decide) (by decide) (by intro c; simp)
          · simp only [h4, if_false]
            by_cases hwb : wf = some .body
            · simp only [hwb, if_true]; exact good_lost a rs _ false true
            · simp only [hwb, if_false]
              by_cases hme : a.msgErr = true
              · simp only [hme, if_true]
                exact good_msg rs _ _ _ .Z (by decide) (by intro c; simp)
              · simp only [hme, if_false]
                cases hbl : rblast a.msg with
                | none =>
                  simp only [Option.isNone_none, if_true]
                  exact good_msg rs _ _ _ .D (by decide) (by intro c; simp)
                | some enc =>
                  simp only [Option.isNone_some, Bool.false_eq_true, if_false]
                  by_cases hwf : wf = some .final
                  · simp only [hwf, if_true]; exact good_lost a rs _ true true
                  · simp only [hwf, if_false]
                    cases fs with
                    | nil => exact good_lost a rs _ true false
                    | cons f fs =>
                      simp only [List.map_cons]
                      by_cases g5 : codeNat f ≥ 500
                      · simp only [g5, if_true]
                        exact good_quit a wf rs _ _ _ _ .D (by decide) (by decide) (by intro c; simp)
                      · simp only [g5, if_false]
                        by_cases g4 : codeNat f ≥ 400
                        · simp only [g4, if_true]
                          exact good_quit a wf rs _ _ _ _ .Z (by decide) (by decide) (by intro c; simp)
                        · simp only [g4, if_false]
                          exact good_quit a wf rs _ _ _ _ .K (by decide) (by decide) (by intro c; simp)

/-- the RCPT loop realises `expRcpt` -/
theorem rcpt_good (a : Args) (wf : Option WPoint) (cs0 : List Nat) (n0 : Nat) (more : List Bytes) :
    ∀ (i : Nat) (rs : List Bytes) (w : Bytes) (bother : Bool) (txt : Bytes) (fs : List Bytes),
    Good (expRcpt { codes := cs0, n := n0, msgErr := a.msgErr, msgPartial := (rblast a.msg).isNone, wfail := wf }
            i more.length (rs.map headB) bother (fs.map codeNat))
         (rcptLoop a wf i more rs w bother txt fs) := by
  induction more with
  | nil =>
    intro i rs w bother txt fs
    simp only [List.length_nil, expRcpt, rcptLoop]
    have := data_good a wf cs0 rs w bother txt fs
    unfold expData at this ⊢
    exact this
  | cons r more ih =>
    intro i rs w bother txt fs
    simp only [List.length_cons, expRcpt, rcptLoop]
    by_cases hw : wf = some (.rcpt i)
    · simp only [hw, if_true]; exact good_lost a rs w false false
    · simp only [hw, if_false]
      cases fs with
      | nil => exact good_lost a rs _ false false
      | cons p fs =>
        simp only [List.map_cons]
        by_cases h5 : codeNat p ≥ 500
        · simp only [h5, if_true]
          have := ih (i + 1) (rs ++ [[104] ++ a.host ++ notLike ++ said (textOf p)]) (w ++ (lit "RCPT TO:<" ++ r ++ lit ">\r\n")) bother [] fs
          simpa [headB] using this
        · simp only [h5, if_false]
          by_cases h4 : codeNat p ≥ 400
          · simp only [h4, if_true]
            have := ih (i + 1) (rs ++ [[115] ++ a.host ++ notLike ++ said (textOf p)]) (w ++ (lit "RCPT TO:<" ++ r ++ lit ">\r\n")) bother [] fs
            simpa [headB] using this
          · simp only [h4, if_false]
            have := ih (i + 1) (rs ++ [[114]]) (w ++ (lit "RCPT TO:<" ++ r ++ lit ">\r\n")) true (textOf p) fs
            simpa [headB] using this

/-- **the model of `smtp()` realises the class rules** -/
theorem run_good (a : Args) (wf : Option WPoint) (fs : List Bytes) :
    Good (expect (abstrF a wf fs)) (run a wf fs) := by
  unfold expect run abstrF
  cases fs with
  | nil => exact good_lost a [] [] false false
  | cons g fs =>
    simp only [List.map_cons]
    by_cases hg : codeNat g ≠ 220
    · simp only [hg, if_true, ne_eq, not_false_eq_true]
      exact good_quit a wf [] _ _ _ _ .Z (by decide) (by decide) (by intro c; simp)
    · simp only [hg, if_false, ne_eq]
      by_cases hw : wf = some .helo
      · simp only [hw, if_true]; exact good_lost a [] _ false false
      · simp only [hw, if_false]
        cases fs with
        | nil => exact good_lost a [] _ false false
        | cons h fs =>
          simp only [List.map_cons]
          by_cases hh : codeNat h ≠ 250
          · simp only [hh, if_true, ne_eq, not_false_eq_true]
            exact good_quit a wf [] _ _ _ _ .Z (by decide) (by decide) (by intro c; simp)
          · simp only [hh, if_false, ne_eq]
            by_cases hwm : wf = some .mail
            · simp only [hwm, if_true]; exact good_lost a [] _ false false
            · simp only [hwm, if_false]
              cases fs with
              | nil => exact good_lost a [] _ false false
              | cons m fs =>
                simp only [List.map_cons]
                by_cases h5 : codeNat m ≥ 500
                · simp only [h5, if_true]
                  exact good_quit a wf [] _ _ _ _ .D (by decide) (by decide) (by intro c; simp)
                · simp only [h5, if_false]
                  by_cases h4 : codeNat m ≥ 400
                  · simp only [h4, if_true]
                    exact good_quit a wf [] _ _ _ _ .Z (by decide) (by decide) (by intro c; simp)
                  · simp only [h4, if_false]
                    exact rcpt_good a wf _ _ a.rcpts 0 [] _ false _ fs

/-! ### consequences of the class rules (pure reasoning about `expect`) -/

theorem expData_rl (s : AScript) (rl : List Byte) (b : Bool) (cs : List Nat) : (expData s rl b cs).rl = rl := by
  unfold expData
  repeat' split
  all_goals rfl

/-- what a `K` outcome of the DATA phase implies -/
theorem expData_K (s : AScript) (rl : List Byte) (b : Bool) (cs : List Nat) (h : (expData s rl b cs).v = .K) :
    b = true ∧ lt400 cs[0]? = true ∧ lt400 cs[1]? = true ∧ s.wfail ≠ some .data ∧ s.wfail ≠ some .body ∧
    s.wfail ≠ some .final ∧ s.msgErr = false ∧ s.msgPartial = false := by
  unfold expData at h
  by_cases hb : b = false
  · simp [hb] at h
  · simp only [hb, if_false] at h
    by_cases hw : s.wfail = some .data
    · simp [hw] at h
    · simp only [hw, if_false] at h
      cases cs with
      | nil => simp at h
      | cons d cs =>
        simp only at h
        by_cases h5 : d ≥ 500
        · simp [h5] at h
        · simp only [h5, if_false] at h
          by_cases h4 : d ≥ 400
          · simp [h4] at h
          · simp only [h4, if_false] at h
            by_cases hwb : s.wfail = some .body
            · simp [hwb] at h
            · simp only [hwb, if_false] at h
              by_cases hme : s.msgErr = true
              · simp [hme] at h
              · simp only [hme, if_false] at h
                by_cases hmp : s.msgPartial = true
                · simp [hmp] at h
                · simp only [hmp, if_false] at h
                  by_cases hwf : s.wfail = some .final
                  · simp [hwf] at h
                  · simp only [hwf, if_false] at h
                    cases cs with
                    | nil => simp at h
                    | cons f cs =>
                      simp only at h
                      by_cases g5 : f ≥ 500
                      · simp [g5] at h
                      · simp only [g5, if_false] at h
                        by_cases g4 : f ≥ 400
                        · simp [g4] at h
                        · refine ⟨by simpa using hb, ?_, ?_, hw, hwb, hwf, by simpa using hme, by simpa using hmp⟩
                          · simp [lt400]; omega
                          · simp [lt400]; omega

theorem clsLetter_eq_lR (c : Nat) : clsLetter c = lR ↔ c < 400 := by
  unfold clsLetter
  by_cases h5 : c ≥ 500
  · simp only [h5, if_true]; constructor
    · intro h; exact absurd h (by decide)
    · intro h; omega
  · by_cases h4 : c ≥ 400
    · simp only [h5, h4, if_true, if_false]; constructor
      · intro h; exact absurd h (by decide)
      · intro h; omega
    · simp only [h5, h4, if_false]
      exact ⟨fun _ => by omega, fun _ => trivial⟩

/-- recipient letters are the classes of the RCPT replies, in order, never more than recipients -/
theorem expRcpt_rl (s : AScript) : ∀ (k i : Nat) (rl : List Byte) (b : Bool) (cs : List Nat),
    ∃ m, m ≤ k ∧ m ≤ cs.length ∧ (expRcpt s i k rl b cs).rl = rl ++ (cs.take m).map clsLetter := by
  intro k
  induction k with
  | zero => intro i rl b cs; exact ⟨0, by simp, by simp, by simp [expRcpt, expData_rl]⟩
  | succ k ih =>
    intro i rl b cs
    simp only [expRcpt]
    by_cases hw : s.wfail = some (.rcpt i)
    · exact ⟨0, by simp, by simp, by simp [hw]⟩
    · simp only [hw, if_false]
      cases cs with
      | nil => exact ⟨0, by simp, by simp, by simp⟩
      | cons p cs =>
        simp only
        by_cases h5 : p ≥ 500
        · simp only [h5, if_true]
          obtain ⟨m, h1, h2, h3⟩ := ih (i + 1) (rl ++ [lH]) b cs
          exact ⟨m + 1, by omega, by simp; omega, by rw [h3]; simp [clsLetter, h5]⟩
        · simp only [h5, if_false]
          by_cases h4 : p ≥ 400
          · simp only [h4, if_true]
            obtain ⟨m, h1, h2, h3⟩ := ih (i + 1) (rl ++ [lS]) b cs
            exact ⟨m + 1, by omega, by simp; omega, by rw [h3]; simp [clsLetter, h5, h4]⟩
          · simp only [h4, if_false]
            obtain ⟨m, h1, h2, h3⟩ := ih (i + 1) (rl ++ [lR]) true cs
            exact ⟨m + 1, by omega, by simp; omega, by rw [h3]; simp [clsLetter, h5, h4]⟩

/-- what a `K` outcome of the RCPT loop implies -/
theorem expRcpt_K (s : AScript) : ∀ (k i : Nat) (rl : List Byte) (b : Bool) (cs : List Nat),
    (expRcpt s i k rl b cs).v = .K →
    k ≤ cs.length ∧ (expRcpt s i k rl b cs).rl = rl ++ (cs.take k).map clsLetter ∧
    (b = true ∨ ∃ c ∈ cs.take k, c < 400) ∧ lt400 cs[k]? = true ∧ lt400 cs[k + 1]? = true ∧
    (∀ j, i ≤ j → j < i + k → s.wfail ≠ some (.rcpt j)) ∧
    s.wfail ≠ some .data ∧ s.wfail ≠ some .body ∧ s.wfail ≠ some .final ∧
    s.msgErr = false ∧ s.msgPartial = false := by
  intro k
  induction k with
  | zero =>
    intro i rl b cs h
    simp only [expRcpt] at h ⊢
    obtain ⟨h1, h2, h3, h4⟩ := expData_K s rl b cs h
    exact ⟨by simp, by simp [expData_rl], Or.inl h1, h2, h3, by intro j; omega, h4⟩
  | succ k ih =>
    intro i rl b cs h
    simp only [expRcpt] at h ⊢
    by_cases hw : s.wfail = some (.rcpt i)
    · simp [hw] at h
    · simp only [hw, if_false] at h ⊢
      cases cs with
      | nil => simp at h
      | cons p cs =>
        simp only at h ⊢
        have wfj : ∀ (hh : ∀ j, i + 1 ≤ j → j < i + 1 + k → s.wfail ≠ some (.rcpt j)),
            ∀ j, i ≤ j → j < i + (k + 1) → s.wfail ≠ some (.rcpt j) := by
          intro hh j h1 h2
          by_cases hj : j = i
          · rw [hj]; exact hw
          · exact hh j (by omega) (by omega)
        by_cases h5 : p ≥ 500
        · simp only [h5, if_true] at h ⊢
          obtain ⟨a1, a2, a3, a4, a5, a6, a7⟩ := ih (i + 1) (rl ++ [lH]) b cs h
          refine ⟨by simp; omega, by rw [a2]; simp [clsLetter, h5], ?_, by simpa using a4, by simpa using a5, wfj a6, a7⟩
          rcases a3 with a3 | ⟨c, hc, hc'⟩
          · exact Or.inl a3
          · exact Or.inr ⟨c, by simp [hc], hc'⟩
        · simp only [h5, if_false] at h ⊢
          by_cases h4 : p ≥ 400
          · simp only [h4, if_true] at h ⊢
            obtain ⟨a1, a2, a3, a4, a5, a6, a7⟩ := ih (i + 1) (rl ++ [lS]) b cs h
            refine ⟨by simp; omega, by rw [a2]; simp [clsLetter, h5, h4], ?_, by simpa using a4, by simpa using a5, wfj a6, a7⟩
            rcases a3 with a3 | ⟨c, hc, hc'⟩
            · exact Or.inl a3
            · exact Or.inr ⟨c, by simp [hc], hc'⟩
          · simp only [h4, if_false] at h ⊢
            obtain ⟨a1, a2, a3, a4, a5, a6, a7⟩ := ih (i + 1) (rl ++ [lR]) true cs h
            refine ⟨by simp; omega, by rw [a2]; simp [clsLetter, h5, h4], ?_, by simpa using a4, by simpa using a5, wfj a6, a7⟩
            exact Or.inr ⟨p, by simp, by omega⟩

/-- what a `K` outcome implies about the script -/
theorem expect_K (s : AScript) (h : (expect s).v = .K) :
    s.codes[0]? = some 220 ∧ s.codes[1]? = some 250 ∧ lt400 s.codes[2]? = true ∧
    s.n + 3 ≤ s.codes.length ∧ (expect s).rl = ((s.codes.drop 3).take s.n).map clsLetter ∧
    (∃ c ∈ (s.codes.drop 3).take s.n, c < 400) ∧
    lt400 s.codes[3 + s.n]? = true ∧ lt400 s.codes[4 + s.n]? = true ∧
    wfailUnreached s = true ∧ s.msgErr = false ∧ s.msgPartial = false := by
  unfold expect at h ⊢
  cases hc : s.codes with
  | nil => simp [hc] at h
  | cons g cs =>
    simp only [hc] at h ⊢
    by_cases hg : g ≠ 220
    · simp [hg] at h
    · simp only [hg, if_false, ne_eq] at h ⊢
      by_cases hw : s.wfail = some .helo
      · simp [hw] at h
      · simp only [hw, if_false] at h ⊢
        cases cs with
        | nil => simp at h
        | cons hh cs =>
          simp only at h ⊢
          by_cases hh2 : hh ≠ 250
          · simp [hh2] at h
          · simp only [hh2, if_false, ne_eq] at h ⊢
            by_cases hwm : s.wfail = some .mail
            · simp [hwm] at h
            · simp only [hwm, if_false] at h ⊢
              cases cs with
              | nil => simp at h
              | cons m cs =>
                simp only at h ⊢
                by_cases h5 : m ≥ 500
                · simp [h5] at h
                · simp only [h5, if_false] at h ⊢
                  by_cases h4 : m ≥ 400
                  · simp [h4] at h
                  · simp only [h4, if_false] at h ⊢
                    obtain ⟨a1, a2, a3, a4, a5, a6, a7, a8, a9, a11, a12⟩ := expRcpt_K s s.n 0 [] false cs h
                    have hex : ∃ c ∈ cs.take s.n, c < 400 := by
                      rcases a3 with a3 | a3
                      · simp at a3
                      · exact a3
                    have hwu : wfailUnreached s = true := by
                      unfold wfailUnreached
                      cases hwf : s.wfail with
                      | none => rfl
                      | some p =>
                        cases p with
                        | helo => exact absurd hwf hw
                        | mail => exact absurd hwf hwm
                        | rcpt i =>
                          simp only [decide_eq_true_eq]
                          by_cases hi : s.n ≤ i
                          · exact hi
                          · exact absurd hwf (a6 i (by omega) (by omega))
                        | data => exact absurd hwf a7
                        | body => exact absurd hwf a8
                        | final => exact absurd hwf a9
                        | quit => rfl
                    refine ⟨by simpa using hg, by simpa using hh2, by simp [lt400]; omega, by simp; omega, ?_, ?_, ?_, ?_, hwu, a11, a12⟩
                    · rw [a2]; simp
                    · simpa using hex
                    · have : (g :: hh :: m :: cs)[3 + s.n]? = cs[s.n]? := by
                        rw [show 3 + s.n = s.n + 1 + 1 + 1 by omega]; simp
                      rw [this]; exact a4
                    · have : (g :: hh :: m :: cs)[4 + s.n]? = cs[s.n + 1]? := by
                        rw [show 4 + s.n = s.n + 1 + 1 + 1 + 1 by omega]; simp
                      rw [this]; exact a5

/-- shape of the recipient letters for every script -/
theorem expect_rl (s : AScript) :
    ∃ m, m ≤ s.n ∧ (m + 3 ≤ s.codes.length ∨ m = 0) ∧ (expect s).rl = ((s.codes.drop 3).take m).map clsLetter ∧
      (m = 0 ∨ (s.codes[0]? = some 220 ∧ s.codes[1]? = some 250 ∧ lt400 s.codes[2]? = true)) := by
  unfold expect
  have z : ∀ (codes : List Nat) (rl : List Byte), rl = [] → ∃ m, m ≤ s.n ∧ (m + 3 ≤ codes.length ∨ m = 0) ∧
      rl = ((codes.drop 3).take m).map clsLetter ∧
      (m = 0 ∨ (codes[0]? = some 220 ∧ codes[1]? = some 250 ∧ lt400 codes[2]? = true)) :=
    fun codes rl he => ⟨0, by simp, Or.inr rfl, by simp [he], Or.inl rfl⟩
  cases hc : s.codes with
  | nil => exact z _ _ rfl
  | cons g cs =>
    simp only
    by_cases hg : g ≠ 220
    · simp only [hg, if_true, ne_eq, not_false_eq_true]; exact z _ _ rfl
    · simp only [hg, if_false, ne_eq]
      by_cases hw : s.wfail = some .helo
      · simp only [hw, if_true]; exact z _ _ rfl
      · simp only [hw, if_false]
        cases cs with
        | nil => exact z _ _ rfl
        | cons hh cs =>
          simp only
          by_cases hh2 : hh ≠ 250
          · simp only [hh2, if_true, ne_eq, not_false_eq_true]; exact z _ _ rfl
          · simp only [hh2, if_false, ne_eq]
            by_cases hwm : s.wfail = some .mail
            · simp only [hwm, if_true]; exact z _ _ rfl
            · simp only [hwm, if_false]
              cases cs with
              | nil => exact z _ _ rfl
              | cons m cs =>
                simp only
                by_cases h5 : m ≥ 500
                · simp only [h5, if_true]; exact z _ _ rfl
                · simp only [h5, if_false]
                  by_cases h4 : m ≥ 400
                  · simp only [h4, if_true]; exact z _ _ rfl
                  · simp only [h4, if_false]
                    obtain ⟨k, k1, k2, k3⟩ := expRcpt_rl s s.n 0 [] false cs
                    refine ⟨k, k1, Or.inl (by simp; omega), by rw [k3]; simp, Or.inr ⟨by simpa using hg, by simpa using hh2, by simp [lt400]; omega⟩⟩

/-- the two facts an observation must satisfy w.r.t. the class rules -/
def GoodO (s : AScript) (o : Obs) : Prop := verdictOK (expect s).v o = true ∧ o.rl = (expect s).rl

theorem kSound_of_good (s : AScript) (o : Obs) (h : GoodO s o) : kSound s o = true := by
  unfold kSound
  by_cases hk : o.ml = cK
  · have hv : (expect s).v = .K := by
      have h1 := h.1
      cases hv : (expect s).v with
      | K => rfl
      | Z => rw [hv] at h1; simp [verdictOK, hk, cK, cZ, cD] at h1
      | D => rw [hv] at h1; simp [verdictOK, hk, cK, cZ, cD] at h1
      | lost c => rw [hv] at h1; simp [verdictOK, hk, cK, cZ, cD] at h1
    obtain ⟨a1, a2, a3, a4, a5, ⟨c, hc, hc'⟩, a7, a8, a9, a10, a11⟩ := expect_K s hv
    have hlen : o.rl.length = s.n := by rw [h.2, a5]; simp; omega
    have hmem : lR ∈ o.rl := by
      rw [h.2, a5]; exact List.mem_map.mpr ⟨c, hc, (clsLetter_eq_lR c).mpr hc'⟩
    simp [a1, a2, a3, a7, a8, a9, a10, a11, hlen, hmem]
  · simp [hk]

theorem rcptOrder_of_good (s : AScript) (o : Obs) (h : o.rl = (expect s).rl) : rcptOrder s o = true := by
  obtain ⟨m, m1, m2, m3, m4⟩ := expect_rl s
  have hlen : o.rl.length = m := by
    rw [h, m3]; simp
    rcases m2 with m2 | m2 <;> omega
  unfold rcptOrder
  rw [hlen]
  have e1 : o.rl = ((s.codes.drop 3).take m).map clsLetter := by rw [h, m3]
  have e3 : o.rl.isEmpty = true ∨ (s.codes[0]? = some 220 ∧ s.codes[1]? = some 250 ∧ lt400 s.codes[2]? = true) := by
    rcases m4 with m4 | m4
    · left; rw [e1, m4]; simp
    · right; exact m4
  have e2 : m + 3 ≤ s.codes.length ∨ o.rl = [] := by
    rcases m2 with m2 | m2
    · exact Or.inl m2
    · right; rw [e1, m2]; simp
  rcases e3 with e3 | ⟨b1, b2, b3⟩
  · simp [m1, ← e1, e2, e3]
  · simp [m1, ← e1, e2, b1, b2, b3]

/-! ### the QUIT corner: the run whose QUIT write fails vs. the same run with that write succeeding -/

theorem headB_dropped (h : Bytes) (c : Bool) : headB (droppedRep h c) = cZ := by
  unfold droppedRep; simp only [List.append_assoc]; rw [headB_append _ _ (by decide)]; decide

/-- `r` = the run in which the QUIT write fails, `r0` = the same run with it succeeding: the same
reports, recipient and message; the only difference is that the server does not get the QUIT -/
def QuitRel (r0 r : Res) : Prop :=
  r.rcpt = r0.rcpt ∧ r.msg = r0.msg ∧ r.quit = r0.quit ∧ r.wireOpen = r0.wireOpen ∧
  (if r0.quit = true then r0.wire = r.wire ++ quitCmd else r.wire = r0.wire)

theorem quitRel_quit (a : Args) (rs : List Bytes) (w pre app txt : Bytes) :
    QuitRel (quitWith a none rs w pre app txt) (quitWith a (some .quit) rs w pre app txt) := by
  simp [QuitRel, quitWith, quitCmd]

theorem quitRel_lost (a : Args) (rs : List Bytes) (w : Bytes) (c wo : Bool) : QuitRel (lost a rs w c wo) (lost a rs w c wo) := by
  simp [QuitRel, lost]

theorem data_quit (a : Args) (rs : List Bytes) (w : Bytes) (bother : Bool) (txt : Bytes) (fs : List Bytes) :
    QuitRel (dataPhase a none rs w bother txt fs) (dataPhase a (some .quit) rs w bother txt fs) := by
  unfold dataPhase
  simp only [Option.some.injEq, reduceCtorEq, if_false]
  repeat' split
  all_goals first | exact quitRel_quit _ _ _ _ _ _ | exact quitRel_lost _ _ _ _ _ | simp_all [QuitRel]

theorem rcpt_quit (a : Args) (more : List Bytes) : ∀ (i : Nat) (rs : List Bytes) (w : Bytes) (bother : Bool) (txt : Bytes) (fs : List Bytes),
    QuitRel (rcptLoop a none i more rs w bother txt fs) (rcptLoop a (some .quit) i more rs w bother txt fs) := by
  induction more with
  | nil => intro i rs w bother txt fs; simp only [rcptLoop]; exact data_quit a rs w bother txt fs
  | cons r more ih =>
    intro i rs w bother txt fs
    simp only [rcptLoop, Option.some.injEq, reduceCtorEq, if_false]
    cases fs with
    | nil => exact quitRel_lost _ _ _ _ _
    | cons p fs =>
      simp only
      split
      · exact ih _ _ _ _ _ _
      · split
        · exact ih _ _ _ _ _ _
        · exact ih _ _ _ _ _ _

theorem run_quit (a : Args) (fs : List Bytes) : QuitRel (run a none fs) (run a (some .quit) fs) := by
  unfold run
  simp only [Option.some.injEq, reduceCtorEq, if_false]
  repeat' split
  all_goals first | exact quitRel_quit _ _ _ _ _ _ | exact quitRel_lost _ _ _ _ _ | exact rcpt_quit _ _ _ _ _ _ _ _ | simp_all [QuitRel]

theorem expData_quit (s : AScript) (rl : List Byte) (b : Bool) (cs : List Nat) :
    expData { s with wfail := some .quit } rl b cs = expData { s with wfail := none } rl b cs := by
  simp [expData]

theorem expRcpt_quit (s : AScript) : ∀ (k i : Nat) (rl : List Byte) (b : Bool) (cs : List Nat),
    expRcpt { s with wfail := some .quit } i k rl b cs = expRcpt { s with wfail := none } i k rl b cs := by
  intro k
  induction k with
  | zero => intro i rl b cs; simp only [expRcpt]; exact expData_quit s rl b cs
  | succ k ih =>
    intro i rl b cs
    simp only [expRcpt, Option.some.injEq, reduceCtorEq, if_false]
    cases cs with
    | nil => rfl
    | cons p cs => simp only [ih]

/-- the rules ignore a failing QUIT write -/
theorem expect_quit (s : AScript) : expect { s with wfail := some .quit } = expect { s with wfail := none } := by
  unfold expect
  simp only [Option.some.injEq, reduceCtorEq, if_false, expRcpt_quit]

theorem kSound_run (a : Args) (wf : Option WPoint) (fs : List Bytes) :
    kSound (abstrF a wf fs) (obsOf (run a wf fs)) = true :=
  have g := run_good a wf fs
  kSound_of_good _ _ ⟨g.1, g.2.1⟩

/-! ### the RCPT phase of the rules on a script of the expected shape -/

theorem expRcpt_append (s : AScript) (hw : ∀ j, s.wfail ≠ some (.rcpt j)) :
    ∀ (rc : List Nat) (i : Nat) (rl : List Byte) (b : Bool) (rest : List Nat),
    expRcpt s i rc.length rl b (rc ++ rest) =
      expData s (rl ++ rc.map clsLetter) (b || rc.any (fun c => decide (c < 400))) rest := by
  intro rc
  induction rc with
  | nil => intro i rl b rest; simp [expRcpt]
  | cons p rc ih =>
    intro i rl b rest
    simp only [List.length_cons, expRcpt, hw, if_false, List.cons_append]
    by_cases h5 : p ≥ 500
    · have : ¬ p < 400 := by omega
      simp [h5, ih, clsLetter, this]
    · by_cases h4 : p ≥ 400
      · have : ¬ p < 400 := by omega
        simp [h5, h4, ih, clsLetter, this]
      · have : p < 400 := by omega
        simp [h5, h4, ih, clsLetter, this]

/-- greeting 220, HELO 250, MAIL below 400, one reply per recipient, no failing write so far: the rules
reach the DATA phase with the recipients classified by their own replies -/
theorem expect_rcpts (s : AScript) (m : Nat) (rc rest : List Nat) (hc : s.codes = 220 :: 250 :: m :: (rc ++ rest))
    (hm : m < 400) (hn : rc.length = s.n) (h1 : s.wfail ≠ some .helo) (h2 : s.wfail ≠ some .mail)
    (h3 : ∀ j, s.wfail ≠ some (.rcpt j)) :
    expect s = expData s (rc.map clsLetter) (rc.any (fun c => decide (c < 400))) rest := by
  unfold expect
  have m5 : ¬ m ≥ 500 := by omega
  have m4 : ¬ m ≥ 400 := by omega
  simp only [hc, ne_eq, not_true_eq_false, if_false, h1, h2, m5, m4, ← hn]
  rw [expRcpt_append s h3]; simp

/-! ### `smtpcode()`: the code and the framing -/

theorem dig_digit (a : Byte) (h : isDigit a = true) : (dig a).toNat = a.toNat - 48 := by
  unfold dig
  simp [isDigit] at h
  have h1 : (48 : UInt64) ≤ a.toUInt64 := by
    rw [UInt64.le_iff_toNat_le]; simp; exact UInt8.le_iff_toNat_le.mp h.1
  rw [UInt64.toNat_sub_of_le _ _ h1]; simp

/-- **the code of a reply that starts with three digits is their decimal value** -/
theorem codeNat_decimal (l : Bytes) (n : Nat) (h : decCode l = some n) : codeNat l = n := by
  match l, h with
  | a :: b :: c :: r, h =>
    unfold decCode at h
    by_cases hd : (isDigit a && isDigit b && isDigit c) = true
    · simp only [hd, if_true, Option.some.injEq] at h
      simp only [Bool.and_eq_true] at hd
      obtain ⟨⟨ha, hb⟩, hc⟩ := hd
      have la : a.toNat ≤ 57 := by simp [isDigit] at ha; exact UInt8.le_iff_toNat_le.mp ha.2
      have lb : b.toNat ≤ 57 := by simp [isDigit] at hb; exact UInt8.le_iff_toNat_le.mp hb.2
      have lc : c.toNat ≤ 57 := by simp [isDigit] at hc; exact UInt8.le_iff_toNat_le.mp hc.2
      unfold codeNat codeOf
      simp only [UInt64.toNat_add, UInt64.toNat_mul, dig_digit a ha, dig_digit b hb, dig_digit c hc]
      rw [← h]
      simp
      omega
    · simp [hd] at h

/-- a well-formed reply line: at least three bytes, then anything, then LF; no LF inside -/
def WfLine (l : Bytes) : Prop := ∃ x, l = x ++ [LF] ∧ LF ∉ x ∧ 3 ≤ x.length

theorem frames_nolf (t : Bytes) : ∀ (st : RemoteSmtp.CSt) (cur : Bytes), LF ∉ t → frames st cur t = [] := by
  induction t with
  | nil => intro st cur _; simp [frames]
  | cons c t ih =>
    intro st cur h
    have hc : c ≠ LF := fun e => h (by simp [e])
    have ht : LF ∉ t := fun e => h (by simp [e])
    cases st with
    | sep => by_cases hd : c = DASH <;> simp [frames, cnext, hc, hd, ih _ _ ht]
    | _ => simp [frames, cnext, hc, ih _ _ ht]

theorem frames_cont_skip (y : Bytes) : ∀ (cur rest : Bytes), LF ∉ y →
    frames .cont cur (y ++ LF :: rest) = frames .c1 (LF :: (y.reverse ++ cur)) rest := by
  induction y with
  | nil => intro cur rest _; simp [frames, cnext]
  | cons c y ih =>
    intro cur rest h
    have hc : c ≠ LF := fun e => h (by simp [e])
    have hy : LF ∉ y := fun e => h (by simp [e])
    simp [frames, cnext, hc, ih _ _ hy]

theorem frames_tail_skip (y : Bytes) : ∀ (cur rest : Bytes), LF ∉ y →
    frames .tail cur (y ++ LF :: rest) = (LF :: (y.reverse ++ cur)).reverse :: frames .d1 [] rest := by
  induction y with
  | nil => intro cur rest _; simp [frames, cnext]
  | cons c y ih =>
    intro cur rest h
    have hc : c ≠ LF := fun e => h (by simp [e])
    have hy : LF ∉ y := fun e => h (by simp [e])
    simp [frames, cnext, hc, ih _ _ hy]

/-- one well-formed line, read at the start of a reply (`d1`) or after a `-` line (`c1`) -/
theorem frames_line (l : Bytes) (hl : WfLine l) (st : RemoteSmtp.CSt) (hst : st = .d1 ∨ st = .c1) (cur rest : Bytes) :
    frames st cur (l ++ rest) =
      if isCont l then frames .c1 (l.reverse ++ cur) rest else (cur.reverse ++ l) :: frames .d1 [] rest := by
  obtain ⟨x, rfl, hx, hlen⟩ := hl
  match x, hx, hlen with
  | a :: b :: c :: y, hx, _ =>
    have ha : a ≠ LF := fun e => hx (by simp [e])
    have hb : b ≠ LF := fun e => hx (by simp [e])
    have hc : c ≠ LF := fun e => hx (by simp [e])
    have hy : LF ∉ y := fun e => hx (by simp [e])
    have h3 : frames st cur ((a :: b :: c :: y ++ [LF]) ++ rest) = frames .sep (c :: b :: a :: cur) (y ++ LF :: rest) := by
      rcases hst with h | h <;> subst h <;> simp [frames, cnext]
    rw [h3]
    cases y with
    | nil =>
      simp [frames, cnext, isCont, DASH, LF]
    | cons d y' =>
      have hd : d ≠ LF := fun e => hy (by simp [e])
      have hy' : LF ∉ y' := fun e => hy (by simp [e])
      by_cases hD : d = DASH
      · subst hD
        simp [frames, cnext, isCont, frames_cont_skip y' _ _ hy']
      · simp [frames, cnext, isCont, hD, hd, frames_tail_skip y' _ _ hy']

/-- **multi-line reply parsing**: on a stream of well-formed lines (followed by an unterminated rest)
`smtpcode()` delimits exactly the replies of the line-based reading: a run of lines with `-` as their
4th byte plus the first line without -/
theorem frames_eq_groupReplies (ls : List Bytes) (t : Bytes) (hls : ∀ l ∈ ls, WfLine l) (ht : LF ∉ t) :
    ∀ (st : RemoteSmtp.CSt) (cur : Bytes), (st = .d1 ∨ st = .c1) →
      frames st cur (ls.flatten ++ t) = groupReplies cur.reverse ls := by
  induction ls with
  | nil => intro st cur _; simp [groupReplies, frames_nolf t st cur ht]
  | cons l ls ih =>
    intro st cur hst
    have hl := hls l (by simp)
    have hls' : ∀ l' ∈ ls, WfLine l' := fun l' h' => hls l' (by simp [h'])
    rw [List.flatten_cons, List.append_assoc, frames_line l hl st hst]
    have hlen : ¬ l.length < 4 := by
      obtain ⟨x, rfl, _, h3⟩ := hl; simp; omega
    simp only [groupReplies, hlen, if_false]
    by_cases hc : isCont l = true
    · simp only [hc, if_true]
      rw [ih hls' .c1 _ (Or.inr rfl)]; simp
    · simp only [hc, if_false, Bool.false_eq_true]
      rw [ih hls' .d1 [] (Or.inl rfl)]; simp

theorem splitLines_spec (s : Bytes) : ∀ cur : Bytes, LF ∉ cur →
    ∃ t, LF ∉ t ∧ cur.reverse ++ s = (splitLines cur s).flatten ++ t ∧
      ∀ l ∈ splitLines cur s, ∃ x, l = x ++ [LF] ∧ LF ∉ x := by
  induction s with
  | nil => intro cur h; exact ⟨cur.reverse, by simpa using h, by simp [splitLines], by simp [splitLines]⟩
  | cons c r ih =>
    intro cur h
    by_cases hc : c = LF
    · subst hc
      obtain ⟨t, t1, t2, t3⟩ := ih [] (by simp)
      refine ⟨t, t1, ?_, ?_⟩
      · simp only [splitLines, if_true, List.flatten_cons, List.reverse_cons]
        simp only [List.reverse_nil, List.nil_append] at t2
        rw [List.append_assoc, List.append_assoc, ← t2]; simp
      · intro l hl
        simp only [splitLines, if_true, List.mem_cons] at hl
        rcases hl with hl | hl
        · exact ⟨cur.reverse, by simp [hl], by simpa using h⟩
        · exact t3 l hl
    · obtain ⟨t, t1, t2, t3⟩ := ih (c :: cur) (by simp [h, Ne.symm hc])
      refine ⟨t, t1, ?_, ?_⟩
      · simp only [splitLines, hc, if_false]
        rw [← t2]; simp
      · intro l hl
        simp only [splitLines, hc, if_false] at hl
        exact t3 l hl

/-- **multi-line reply parsing, on streams**: if every complete line of the server's stream has at
least three bytes before its LF, `smtpcode()` delimits exactly the replies of the line-based reading -/
theorem frames_eq_specFrames (s : Bytes) (h : wfLines s = true) : frames .d1 [] s = specFrames s := by
  obtain ⟨t, t1, t2, t3⟩ := splitLines_spec s [] (by simp)
  simp only [List.reverse_nil, List.nil_append] at t2
  have hw : ∀ l ∈ splitLines [] s, WfLine l := by
    intro l hl
    obtain ⟨x, hx1, hx2⟩ := t3 l hl
    have : l.length ≥ 4 := by
      have := (List.all_eq_true.mp h) l hl
      simpa using this
    exact ⟨x, hx1, hx2, by rw [hx1] at this; simp at this; omega⟩
  have := frames_eq_groupReplies (splitLines [] s) t hw t1 .d1 [] (Or.inl rfl)
  rw [← t2] at this
  simpa [specFrames] using this

/-! ### "partial last line" without the encoder -/

theorem rrun_isNone (m : Bytes) : ∀ s, (rrun s m).isNone = (rfinish (rstate s m)).isNone := by
  induction m with
  | nil => intro s; simp [rrun, rstate]
  | cons c m ih =>
    intro s
    simp only [rrun, rstate]
    rw [← ih]
    cases rrun (rstep s c).1 m <;> simp

theorem rstate_snoc (m : Bytes) (c : Byte) : ∀ s, rstate s (m ++ [c]) = (rstep (rstate s m) c).1 := by
  induction m with
  | nil => intro s; simp [rstate]
  | cons x m ih => intro s; simp [rstate, ih]

/-- the clear-cut cases of "partial last line" agree with the encoder model -/
theorem partialMsg_eq (msg : Bytes) : partialMsg msg (rblast msg).isNone = (rblast msg).isNone := by
  rcases List.eq_nil_or_concat msg with h | ⟨m, c, h⟩
  · subst h; simp [partialMsg, rblast, rrun, rfinish]
  · subst h
    simp only [partialMsg, List.concat_eq_append, List.getLast?_append, List.getLast?_singleton, Option.some_or]
    unfold rblast
    rw [rrun_isNone, rstate_snoc]
    by_cases hl : c = LF
    · subst hl; cases rstate .top m <;> simp [rstep, rfinish]
    · by_cases hc : c = CR
      · subst hc; simp [CR, LF]
      · simp only [hl, hc, if_false]
        cases rstate .top m <;> by_cases hd : c = DOT <;> simp [rstep, rfinish, hl, hc, hd, DOT, CR, LF]

end Nq.Lemmas.RemoteSmtp
