/- qmail-newu's line compiler (`newuLine`, `newuLoop`, `getln`, `dataCut`, `byteChr`) equals the declarative
   reading of users/assign (`specLine`, `specParse`: colon-separated fields of LF-separated lines), for every file. -/
import Nq.Users
import Nq.Spec.Users

namespace Nq.Lemmas.Users
open Nq Nq.Users Nq.Spec.Users

/-! ## splitOn -/

theorem splitOn_ne_nil (sep : Byte) : ∀ l : Bytes, splitOn sep l ≠ []
  | [] => by simp [splitOn]
  | c :: r => by
    simp only [splitOn]
    split
    · simp
    · split <;> simp

theorem splitOn_cons_ne (sep c : Byte) (r : Bytes) (h : c ≠ sep) :
    ∃ f fs, splitOn sep r = f :: fs ∧ splitOn sep (c :: r) = (c :: f) :: fs := by
  cases hs : splitOn sep r with
  | nil => exact absurd hs (splitOn_ne_nil sep r)
  | cons f fs => exact ⟨f, fs, rfl, by simp [splitOn, h, hs]⟩

theorem splitOn_cons_eq (sep : Byte) (r : Bytes) : splitOn sep (sep :: r) = [] :: splitOn sep r := by
  simp [splitOn]

/-! ## one line: first colon, six more colons -/

/-- `byte_chr` finds the end of the first colon-separated field -/
theorem splitOn_byteChr : ∀ line : Bytes,
    splitOn COLON line = line.take (byteChr line COLON) ::
      (if byteChr line COLON = line.length then [] else splitOn COLON (line.drop (byteChr line COLON + 1)))
  | [] => by simp [splitOn, byteChr]
  | c :: r => by
    by_cases hc : c = COLON
    · subst hc
      rw [splitOn_cons_eq]
      simp [byteChr]
    · obtain ⟨f, fs, h1, h2⟩ := splitOn_cons_ne COLON c r hc
      rw [h2]
      have ih := splitOn_byteChr r
      rw [h1] at ih
      simp only [List.cons.injEq] at ih
      simp only [byteChr, hc, if_false, List.take_succ_cons, List.length_cons, List.drop_succ_cons,
        Nat.add_right_cancel_iff, List.cons.injEq]
      refine ⟨?_, ih.2⟩
      simp [ih.1]

theorem joinNul_cons_cons (f g : Bytes) (fs : List Bytes) : joinNul (f :: g :: fs) = f ++ NUL :: joinNul (g :: fs) := rfl

theorem joinNul_cons_byte (c : Byte) (f : Bytes) (fs : List Bytes) : joinNul ((c :: f) :: fs) = c :: joinNul (f :: fs) := by
  cases fs <;> simp [joinNul]

/-- the data loop of qmail-newu (stop at the `k+1`-th colon, colons become NUL) = the first `k+1` fields joined by NUL,
    provided there are at least `k+2` fields -/
theorem dataCut_spec : ∀ (s : Bytes) (k : Nat),
    dataCut s (k + 1) = if k + 2 ≤ (splitOn COLON s).length then some (joinNul ((splitOn COLON s).take (k + 1))) else none
  | [], k => by simp [dataCut, splitOn]
  | c :: r, k => by
    by_cases hc : c = COLON
    · subst hc
      rw [splitOn_cons_eq]
      cases hs : splitOn COLON r with
      | nil => exact absurd hs (splitOn_ne_nil COLON r)
      | cons f fs =>
        cases k with
        | zero => simp [dataCut, joinNul]
        | succ k =>
          have ih := dataCut_spec r k
          rw [hs] at ih
          simp only [dataCut, if_true, ih]
          simp only [Nat.add_eq_zero_iff, Nat.succ_ne_zero, and_false, if_false, List.length_cons, List.take_succ_cons]
          by_cases hl : k + 2 ≤ fs.length + 1
          · rw [if_pos hl, if_pos (by omega)]
            simp [joinNul_cons_cons]
          · rw [if_neg hl, if_neg (by omega)]; rfl
    · obtain ⟨f, fs, h1, h2⟩ := splitOn_cons_ne COLON c r hc
      have ih := dataCut_spec r k
      rw [h1] at ih
      rw [h2]
      simp only [dataCut, hc, if_false, ih, List.length_cons, List.take_succ_cons]
      by_cases hl : k + 2 ≤ fs.length + 1
      · simp [hl, joinNul_cons_byte]
      · simp [hl]

/-- qmail-newu's reading of one line = the declarative reading (eight or more colon-separated fields, first not empty) -/
theorem newuLine_eq_specLine (line : Bytes) : newuLine line = specLine line := by
  unfold newuLine specLine
  by_cases hn : line.contains NUL = true
  · rw [if_pos hn, if_pos hn]
  · rw [if_neg hn, if_neg hn]
    simp only []
    rw [splitOn_byteChr line]
    by_cases hi : byteChr line COLON = line.length
    · rw [if_pos hi, if_pos hi]
    · rw [if_neg hi, if_neg hi, dataCut_spec]
      generalize splitOn COLON (line.drop (byteChr line COLON + 1)) = rest
      by_cases h0 : byteChr line COLON = 0
      · rw [if_pos h0, h0]
        rcases rest with _ | ⟨u, _ | ⟨ui, _ | ⟨gi, _ | ⟨ho, _ | ⟨da, _ | ⟨ex, _ | ⟨x, xs⟩⟩⟩⟩⟩⟩⟩ <;> first | rfl | simp
      · rw [if_neg h0]
        have hpos : 0 < byteChr line COLON := Nat.pos_of_ne_zero h0
        have hhead : (line.take (byteChr line COLON)).head? = line.head? := by
          cases line with
          | nil => simp
          | cons c r => cases hb : byteChr (c :: r) COLON with
            | zero => omega
            | succ n => simp
        have hemp : (line.take (byteChr line COLON)).isEmpty = false := by
          cases line with
          | nil => simp [byteChr] at hi
          | cons c r => cases hb : byteChr (c :: r) COLON with
            | zero => omega
            | succ n => simp
        rcases rest with _ | ⟨u, _ | ⟨ui, _ | ⟨gi, _ | ⟨ho, _ | ⟨da, _ | ⟨ex, _ | ⟨x, xs⟩⟩⟩⟩⟩⟩⟩ <;>
          first | rfl | simp [hemp, hhead]

/-! ## the file: lines up to the dot line -/

/-- `getln` = the first element of `splitOn LF`; a line without LF is the last element -/
theorem getln_spec : ∀ (inp acc : Bytes), ∃ l,
    (getln inp acc).1 = acc.reverse ++ l ∧
    splitOn LF inp = (if (getln inp acc).2.1 then l :: splitOn LF (getln inp acc).2.2 else [l]) ∧
    ((getln inp acc).2.1 = true → (getln inp acc).2.2.length < inp.length)
  | [], acc => ⟨[], by simp [getln, splitOn]⟩
  | c :: r, acc => by
    by_cases hc : c = LF
    · subst hc
      exact ⟨[], by simp [getln, splitOn]⟩
    · obtain ⟨l, h1, h2, h3⟩ := getln_spec r (c :: acc)
      obtain ⟨f, fs, hs1, hs2⟩ := splitOn_cons_ne LF c r hc
      refine ⟨c :: l, ?_, ?_, ?_⟩
      · simp only [getln, hc, if_false, h1]; simp
      · simp only [getln, hc, if_false]
        rw [hs2]
        rw [hs1] at h2
        by_cases hm : (getln r (c :: acc)).2.1 = true
        · rw [if_pos hm] at h2 ⊢
          injection h2 with ha hb
          rw [ha, hb]
        · rw [if_neg hm] at h2 ⊢
          injection h2 with ha hb
          rw [ha, hb]
      · simp only [getln, hc, if_false]
        intro hm
        have := h3 hm
        simp only [List.length_cons]; omega

/-- the declarative parser as a recursion over the list of lines -/
def parseLines : List Bytes → Option (List Asg)
  | [] => none
  | l :: rest =>
    if l.head? == some DOT then some [] else
    match specLine l with
    | none => none
    | some a => (parseLines rest).map (a :: ·)

theorem specParse_eq_parseLines_aux : ∀ lines : List Bytes,
    (if (lines.takeWhile (fun l => l.head? != some DOT)).length = lines.length then none
     else allSome ((lines.takeWhile (fun l => l.head? != some DOT)).map specLine)) = parseLines lines
  | [] => by simp [parseLines]
  | l :: rest => by
    have ih := specParse_eq_parseLines_aux rest
    by_cases hd : (l.head? == some DOT) = true
    · have : (l.head? != some DOT) = false := by simp [bne, hd]
      simp [parseLines, hd, List.takeWhile_cons, this, allSome]
    · have hd' : (l.head? == some DOT) = false := by simpa using hd
      have : (l.head? != some DOT) = true := by simp [bne, hd']
      simp only [parseLines, hd', List.takeWhile_cons, this, if_true, List.length_cons, List.map_cons,
        Nat.add_right_cancel_iff, Bool.false_eq_true, if_false]
      rw [← ih]
      cases hs : specLine l with
      | none => simp [allSome]
      | some a =>
        simp only [allSome]
        split <;> simp

theorem specParse_eq_parseLines (assign : Bytes) : specParse assign = parseLines (splitOn LF assign) := by
  unfold specParse
  exact specParse_eq_parseLines_aux _

theorem newuLoop_eq_parseLines : ∀ (fuel : Nat) (inp : Bytes) (acc : List Asg), inp.length < fuel →
    newuLoop fuel inp acc = (parseLines (splitOn LF inp)).map (acc.reverse ++ ·)
  | 0, _, _, h => by omega
  | fuel + 1, inp, acc, h => by
    obtain ⟨l, h1, h2, h3⟩ := getln_spec inp []
    simp only [List.reverse_nil, List.nil_append] at h1
    simp only [newuLoop]
    generalize hg : getln inp [] = g at h1 h2 h3
    obtain ⟨line, m, rest⟩ := g
    simp only at h1 h2 h3 ⊢
    subst h1
    rw [h2]
    by_cases hd : (line.head? == some DOT) = true
    · cases m <;> simp [parseLines, hd]
    · have hd' : (line.head? == some DOT) = false := by simpa using hd
      cases m with
      | false =>
        simp only [hd', Bool.false_eq_true, if_false, Bool.not_false, if_true, parseLines]
        cases specLine line <;> simp
      | true =>
        simp only [hd', Bool.false_eq_true, if_false, Bool.not_true, if_true, parseLines, newuLine_eq_specLine]
        cases hs : specLine line with
        | none => simp
        | some a =>
          simp only []
          rw [newuLoop_eq_parseLines fuel rest (a :: acc) (by have := h3 rfl; omega)]
          cases parseLines (splitOn LF rest) <;> simp

/-- qmail-newu's parser = the declarative parser, for every file -/
theorem newuParse_eq_specParse (assign : Bytes) : newuParse assign = specParse assign := by
  unfold newuParse
  rw [newuLoop_eq_parseLines _ _ _ (Nat.lt_succ_self _), specParse_eq_parseLines]
  cases parseLines (splitOn LF assign) <;> simp

end Nq.Lemmas.Users
