/-
  Lemmas for C12: the mbox entry written by `mailfile()` is read back by the mbox(5) reader
  (`Nq.Mbox.mboxRead`) as exactly the delivered message; the header lines are single lines.
-/
import Nq.LocalDeliver

namespace Nq.Lemmas.LD.Rt
open Nq Nq.Mbox Nq.LocalDeliver

/-! ### lines -/

/-- one complete line: LF is the last byte and occurs nowhere else -/
def SingleLine (l : Bytes) : Prop := ∃ pre, l = pre ++ [LF] ∧ LF ∉ pre

/-- a (possibly unterminated) line: non-empty, no LF except possibly as the last byte -/
def LineLike (l : Bytes) : Prop := l ≠ [] ∧ LF ∉ l.dropLast

theorem lines_single_aux : ∀ (pre : Bytes), LF ∉ pre → lines (pre ++ [LF]) = [pre ++ [LF]] := by
  intro pre
  induction pre with
  | nil => intro _; simp [lines]
  | cons c pre ih =>
    intro h
    have hc : c ≠ LF := fun hc => h (by simp [hc])
    have hp : LF ∉ pre := fun hm => h (List.mem_cons_of_mem _ hm)
    simp only [List.cons_append, lines, hc, if_false, ih hp]

theorem lines_single (l : Bytes) (h : SingleLine l) : lines l = [l] := by
  obtain ⟨pre, rfl, hp⟩ := h
  exact lines_single_aux pre hp

theorem lines_ne_nil (r : Bytes) (h : r ≠ []) : lines r ≠ [] := by
  cases r with
  | nil => exact absurd rfl h
  | cons c r =>
    simp only [lines]
    split
    · simp
    · split <;> simp

theorem atBoundary_tail (c : Byte) (a : Bytes) (h : AtBoundary (c :: a)) :
    AtBoundary a ∧ (c ≠ LF → a ≠ []) := by
  unfold AtBoundary at h ⊢
  rcases h with h | h
  · cases h
  · cases a with
    | nil => simp at h; exact ⟨Or.inl rfl, fun hc => absurd h hc⟩
    | cons d a' => exact ⟨Or.inr (by simpa [List.getLast?_cons_cons] using h), fun _ => by simp⟩

theorem lines_append (a b : Bytes) (ha : AtBoundary a) : lines (a ++ b) = lines a ++ lines b := by
  induction a with
  | nil => simp [lines]
  | cons c a ih =>
    obtain ⟨hta, hne⟩ := atBoundary_tail c a ha
    by_cases hc : c = LF
    · simp only [List.cons_append, lines, hc, if_true, ih hta, List.cons_append]
    · have hane := hne hc
      have hl := lines_ne_nil a hane
      simp only [List.cons_append, lines, hc, if_false, ih hta]
      cases hla : lines a with
      | nil => exact absurd hla hl
      | cons l ls => simp

theorem singleLine_atBoundary (l : Bytes) (h : SingleLine l) : AtBoundary l := by
  obtain ⟨pre, rfl, _⟩ := h
  right; simp

theorem lines_flatten (Ls : List Bytes) (h : ∀ l ∈ Ls, SingleLine l) : lines Ls.flatten = Ls := by
  induction Ls with
  | nil => simp [lines]
  | cons l Ls ih =>
    have hl := h l (by simp)
    simp only [List.flatten_cons]
    rw [lines_append l _ (singleLine_atBoundary l hl), lines_single l hl, ih (fun x hx => h x (List.mem_cons_of_mem _ hx))]
    simp

/-- every element of `lines m` is a line -/
theorem lines_lineLike (m : Bytes) : ∀ l ∈ lines m, LineLike l := by
  induction m with
  | nil => intro l h; simp [lines] at h
  | cons c r ih =>
    intro l h
    simp only [lines] at h
    by_cases hc : c = LF
    · simp only [hc, if_true, List.mem_cons] at h
      rcases h with h | h
      · subst h; simp [LineLike]
      · exact ih l h
    · simp only [hc, if_false] at h
      cases hlr : lines r with
      | nil =>
        simp [hlr] at h; subst h
        simp [LineLike]
      | cons x xs =>
        simp only [hlr, List.mem_cons] at h
        rcases h with h | h
        · subst h
          have hx := ih x (by simp [hlr])
          obtain ⟨hx1, hx2⟩ := hx
          refine ⟨by simp, ?_⟩
          rw [List.dropLast_cons_of_ne_nil hx1]
          intro hm
          rcases List.mem_cons.1 hm with hm | hm
          · exact hc hm.symm
          · exact hx2 hm
        · exact ih l (by simp [hlr, h])

/-! ### gfrom and the reader's tests -/

theorem startsFrom_eq (l : Bytes) : startsFrom l = isFromLine l := rfl

theorem startsFrom_snoc_lf (x : Bytes) : startsFrom (x ++ [LF]) = startsFrom x := by
  rcases x with _ | ⟨a, _ | ⟨b, _ | ⟨c, _ | ⟨d, _ | ⟨e, r⟩⟩⟩⟩⟩ <;> simp [startsFrom, LF]

theorem gfrom_snoc_lf (l : Bytes) : gfrom (l ++ [LF]) = gfrom l := by
  induction l with
  | nil => simp [gfrom, startsFrom]
  | cons c r ih =>
    simp only [List.cons_append, gfrom]
    split
    · exact ih
    · have := startsFrom_snoc_lf (c :: r)
      simpa using this

theorem isFromLine_gt (l : Bytes) : isFromLine (62 :: l) = false := by
  simp [isFromLine, fromSp]

/-- gfrom.c is the documented test: a From_ line or a >…>From_ line -/
theorem gfrom_spec (l : Bytes) : gfrom l = (isFromLine l || isQuoted l) := by
  induction l with
  | nil => simp [gfrom, isFromLine, isQuoted, fromSp]
  | cons c r ih =>
    simp only [gfrom, isQuoted]
    by_cases hc : c = 62
    · subst hc
      simp [isFromLine_gt, ih]
    · have : (c == GT) = false := by simpa using hc
      simp [hc, this, startsFrom_eq]

theorem gfrom_ne_nil (l : Bytes) (h : gfrom l = true) : l ≠ [] := by
  intro hl; subst hl; simp [gfrom] at h

theorem completeLine_gt (l : Bytes) (h : l ≠ []) : completeLine (62 :: l) = 62 :: completeLine l := by
  unfold completeLine
  rw [List.getLast?_cons_of_ne_nil h] <;> try exact h
  split <;> simp

theorem gfrom_completeLine (l : Bytes) : gfrom (completeLine l) = gfrom l := by
  unfold completeLine; split
  · rfl
  · exact gfrom_snoc_lf l

/-- what the reader's unquoting does to a line written by the copy loop -/
theorem unquote_written (l : Bytes) : unquote (completeLine (quoteLine l)) = completeLine l := by
  unfold quoteLine
  by_cases hg : gfrom l = true
  · have hne := gfrom_ne_nil l hg
    simp only [hg, if_true, completeLine_gt l hne]
    have hq : isQuoted (62 :: completeLine l) = true := by
      simp only [isQuoted]
      have := gfrom_spec (completeLine l)
      rw [gfrom_completeLine, hg] at this
      simp [← this]
    simp [unquote, hq]
  · have hg' : gfrom l = false := by simpa using hg
    simp only [hg', Bool.false_eq_true, if_false]
    have := gfrom_spec (completeLine l)
    rw [gfrom_completeLine, hg'] at this
    have hq : isQuoted (completeLine l) = false := by
      cases h : isQuoted (completeLine l) with
      | false => rfl
      | true => simp [h] at this
    simp [unquote, hq]

/-- no line written by the copy loop is a From_ line -/
theorem written_not_from (l : Bytes) : isFromLine (completeLine (quoteLine l)) = false := by
  unfold quoteLine
  by_cases hg : gfrom l = true
  · have hne := gfrom_ne_nil l hg
    simp only [hg, if_true, completeLine_gt l hne, isFromLine_gt]
  · have hg' : gfrom l = false := by simpa using hg
    simp only [hg', Bool.false_eq_true, if_false]
    have := gfrom_spec (completeLine l)
    rw [gfrom_completeLine, hg'] at this
    cases h : isFromLine (completeLine l) with
    | false => rfl
    | true => simp [h] at this

theorem lineLike_gt (l : Bytes) (h : LineLike l) : LineLike (62 :: l) := by
  obtain ⟨h1, h2⟩ := h
  refine ⟨by simp, ?_⟩
  rw [List.dropLast_cons_of_ne_nil h1]
  intro hm
  rcases List.mem_cons.1 hm with hm | hm
  · cases hm
  · exact h2 hm

theorem completeLine_single (l : Bytes) (h : LineLike l) : SingleLine (completeLine l) := by
  obtain ⟨h1, h2⟩ := h
  unfold completeLine
  split
  · rename_i hl
    have hd := List.dropLast_concat_getLast h1
    rw [List.getLast?_eq_getLast h1] at hl
    have hl' : l.getLast h1 = LF := by simpa using hl
    rw [hl'] at hd
    exact ⟨l.dropLast, hd.symm, h2⟩
  · rename_i hl
    refine ⟨l, rfl, ?_⟩
    intro hm
    have hd := List.dropLast_concat_getLast h1
    rw [← hd] at hm
    rcases List.mem_append.1 hm with hm | hm
    · exact h2 hm
    · simp at hm
      apply hl
      rw [List.getLast?_eq_getLast h1, ← hm]

theorem written_single (m : Bytes) : ∀ l ∈ (lines m).map (fun l => completeLine (quoteLine l)), SingleLine l := by
  intro l hl
  obtain ⟨x, hx, rfl⟩ := List.mem_map.1 hl
  have hx' := lines_lineLike m x hx
  apply completeLine_single
  unfold quoteLine; split
  · exact lineLike_gt x hx'
  · exact hx'

/-! ### completion of the last line -/

theorem flatten_lines (m : Bytes) : (lines m).flatten = m := by
  induction m with
  | nil => simp [lines]
  | cons c r ih =>
    simp only [lines]
    by_cases hc : c = LF
    · simp [hc, ih]
    · simp only [hc, if_false]
      cases hlr : lines r with
      | nil => rw [hlr] at ih; simp at ih; simp [← ih]
      | cons x xs => rw [hlr] at ih; simp at ih ⊢; exact ih

theorem completeLine_of_lf (l : Bytes) (h : l.getLast? = some LF) : completeLine l = l := by simp [completeLine, h]

/-- completing every line = completing the last one -/
theorem flatten_complete (m : Bytes) : ((lines m).map completeLine).flatten = completeLastLine m := by
  induction m with
  | nil => simp [lines, completeLastLine]
  | cons c r ih =>
    simp only [lines]
    by_cases hc : c = LF
    · subst hc
      simp only [if_true, List.map_cons, List.flatten_cons, ih]
      unfold completeLastLine completeLine
      cases r with
      | nil => simp
      | cons d r' => simp [List.getLast?_cons_cons]; split <;> rfl
    · simp only [hc, if_false]
      cases hlr : lines r with
      | nil =>
        have hr : r = [] := by
          by_cases hr : r = []
          · exact hr
          · exact absurd hlr (lines_ne_nil r hr)
        subst hr
        simp [completeLine, completeLastLine, hc]
      | cons x xs =>
        have hr : r ≠ [] := by intro hr; subst hr; simp [lines] at hlr
        have hx := (lines_lineLike r x (by simp [hlr])).1
        rw [hlr] at ih
        simp only [List.map_cons, List.flatten_cons] at ih ⊢
        have e1 : completeLine (c :: x) = c :: completeLine x := by
          unfold completeLine
          rw [List.getLast?_cons_of_ne_nil hx] <;> try exact hx
          split <;> simp
        rw [e1, List.cons_append, ih]
        unfold completeLastLine
        obtain ⟨d, r', rfl⟩ := List.exists_cons_of_ne_nil hr
        simp [List.getLast?_cons_cons]
        split <;> simp

theorem completeLastLine_append (h m : Bytes) (hh : h.getLast? = some LF) :
    completeLastLine (h ++ m) = h ++ completeLastLine m := by
  unfold completeLastLine
  by_cases hm : m = []
  · subst hm; simp [hh]
  · have e : (h ++ m).getLast? = m.getLast? := by
      rw [List.getLast?_append, List.getLast?_eq_getLast hm]; simp
    rw [e]
    simp only [List.append_eq_nil_iff, hm, and_false, false_or]
    split <;> simp

/-! ### the reader on an appended entry -/

theorem takeWhile_stop (p : Bytes → Bool) (xs ys : List Bytes) (f : Bytes) (hf : p f = false) :
    (xs ++ f :: ys).takeWhile p = xs.takeWhile p := by
  induction xs with
  | nil => simp [List.takeWhile, hf]
  | cons x xs ih => simp only [List.cons_append, List.takeWhile]; split <;> simp [ih]

theorem group_cons (l : Bytes) (ls : List Bytes) :
    group (l :: ls) = if isFromLine l then (l, ls.takeWhile (fun x => !isFromLine x)) :: group ls else group ls := rfl

theorem stripBlank_concat (xs : List Bytes) : stripBlank (xs ++ [[LF]]) = xs := by
  unfold stripBlank; rw [List.getLast?_concat, List.dropLast_concat]; simp

theorem group_append (xs ys : List Bytes) (f : Bytes) (hf : isFromLine f = true) :
    group (xs ++ f :: ys) = group xs ++ group (f :: ys) := by
  induction xs with
  | nil => simp [group]
  | cons x xs ih =>
    rw [List.cons_append, group_cons x (xs ++ f :: ys), group_cons x xs]
    split
    · rw [takeWhile_stop _ xs ys f (by simp [hf]), ih]; simp
    · exact ih

theorem group_nofrom (ls : List Bytes) (h : ∀ l ∈ ls, isFromLine l = false) : group ls = [] := by
  induction ls with
  | nil => simp [group]
  | cons l ls ih =>
    simp only [group, h l (by simp), Bool.false_eq_true, if_false]
    exact ih (fun x hx => h x (List.mem_cons_of_mem _ hx))

theorem takeWhile_all (p : Bytes → Bool) (ls : List Bytes) (h : ∀ l ∈ ls, p l = true) : ls.takeWhile p = ls := by
  induction ls with
  | nil => simp
  | cons l ls ih =>
    simp only [List.takeWhile, h l (by simp)]
    rw [ih (fun x hx => h x (List.mem_cons_of_mem _ hx))]

theorem group_one (f : Bytes) (ls : List Bytes) (hf : isFromLine f = true) (h : ∀ l ∈ ls, isFromLine l = false) :
    group (f :: ls) = [(f, ls)] := by
  simp only [group, hf, if_true, group_nofrom ls h]
  rw [takeWhile_all _ ls (fun l hl => by simp [h l hl])]

theorem single_not_quoted (l : Bytes) (h : gfrom l = false) : unquote l = l := by
  have := gfrom_spec l
  rw [h] at this
  have hq : isQuoted l = false := by
    cases hq : isQuoted l with
    | false => rfl
    | true => simp [hq] at this
  simp [unquote, hq]

theorem not_from_of_gfrom (l : Bytes) (h : gfrom l = false) : isFromLine l = false := by
  have := gfrom_spec l
  rw [h] at this
  cases hq : isFromLine l with
  | false => rfl
  | true => simp [hq] at this

/-- **Round trip, general form.**  `uf` is a From_ line, `rp` and `dt` are single lines that are
neither From_ nor >From_ lines; the old file ends at a line boundary. -/
theorem roundtrip (box uf rp dt msg : Bytes) (hbox : AtBoundary box)
    (huf : SingleLine uf) (hufF : isFromLine uf = true)
    (hrp : SingleLine rp) (hrpG : gfrom rp = false) (hdt : SingleLine dt) (hdtG : gfrom dt = false) :
    AtBoundary (box ++ mboxEntry uf rp dt msg) ∧
    mboxRead (box ++ mboxEntry uf rp dt msg) = mboxRead box ++ [(uf, completeLastLine (rp ++ dt ++ msg))] := by
  constructor
  · right; simp [mboxEntry]
  · let qs := (lines msg).map (fun l => completeLine (quoteLine l))
    have hentry : mboxEntry uf rp dt msg = (uf :: rp :: dt :: (qs ++ [[LF]])).flatten := by
      simp [mboxEntry, mboxBody, qs, List.append_assoc]
    have hall : ∀ l ∈ uf :: rp :: dt :: (qs ++ [[LF]]), SingleLine l := by
      intro l hl
      simp only [List.mem_cons, List.mem_append, List.mem_singleton] at hl
      rcases hl with rfl | rfl | rfl | hl | hl
      · exact huf
      · exact hrp
      · exact hdt
      · exact written_single msg l hl
      · rcases hl with rfl | hl
        · exact ⟨[], by simp, by simp⟩
        · cases hl
    have hlines : lines (box ++ mboxEntry uf rp dt msg) = lines box ++ uf :: rp :: dt :: (qs ++ [[LF]]) := by
      rw [lines_append box _ hbox, hentry, lines_flatten _ hall]
    have hnf : ∀ l ∈ rp :: dt :: (qs ++ [[LF]]), isFromLine l = false := by
      intro l hl
      simp only [List.mem_cons, List.mem_append, List.mem_singleton] at hl
      rcases hl with rfl | rfl | hl | hl
      · exact not_from_of_gfrom _ hrpG
      · exact not_from_of_gfrom _ hdtG
      · obtain ⟨x, _, rfl⟩ := List.mem_map.1 hl
        exact written_not_from x
      · rcases hl with rfl | hl
        · simp [isFromLine, fromSp]
        · cases hl
    unfold mboxRead
    rw [hlines, group_append _ _ uf hufF, group_one uf _ hufF hnf, List.map_append]
    congr 1
    simp only [List.map_cons, List.map_nil, decode]
    have hstrip : stripBlank (rp :: dt :: (qs ++ [[LF]])) = rp :: dt :: qs := by
      have : rp :: dt :: (qs ++ [[LF]]) = (rp :: dt :: qs) ++ [[LF]] := by simp
      rw [this, stripBlank_concat]
    rw [hstrip]
    simp only [List.map_cons, List.flatten_cons, single_not_quoted rp hrpG, single_not_quoted dt hdtG]
    have hq : (qs.map unquote).flatten = completeLastLine msg := by
      rw [← flatten_complete msg]
      congr 1
      simp only [qs, List.map_map]
      apply List.map_congr_left
      intro l _
      exact unquote_written l
    rw [hq]
    have hlast : (rp ++ dt).getLast? = some LF := by
      obtain ⟨pre, rfl, _⟩ := hdt
      simp
    rw [completeLastLine_append (rp ++ dt) msg hlast]
    simp [List.append_assoc]

/-! ### the header lines -/

theorem noLF_ne (c : Byte) : Local.noLF c ≠ LF := by
  unfold Local.noLF; split
  · decide
  · assumption

theorem rpline_single (sender : Bytes) : SingleLine (Local.rpline sender) := by
  refine ⟨(Local.returnPath ++ Local.quote2 sender).map Local.noLF ++ [62], by simp [Local.rpline], ?_⟩
  intro hm
  rcases List.mem_append.1 hm with hm | hm
  · obtain ⟨c, _, hc⟩ := List.mem_map.1 hm
    exact noLF_ne c hc
  · simp at hm; exact absurd hm (by decide)

theorem dtline_single (loc host : Bytes) : SingleLine (Local.dtline loc host) := by
  refine ⟨(Local.deliveredTo ++ Local.envrecip loc host).map Local.noLF, rfl, ?_⟩
  intro hm
  obtain ⟨c, _, hc⟩ := List.mem_map.1 hm
  exact noLF_ne c hc

theorem rpline_gfrom (sender : Bytes) : gfrom (Local.rpline sender) = false := by
  simp [Local.rpline, Local.returnPath, Local.noLF, gfrom, startsFrom, LF]

theorem dtline_gfrom (loc host : Bytes) : gfrom (Local.dtline loc host) = false := by
  simp [Local.dtline, Local.deliveredTo, Local.noLF, gfrom, startsFrom, LF]

theorem getD_mem {α : Type} (tab : List α) (d : α) : ∀ i, tab.getD i d = d ∨ tab.getD i d ∈ tab := by
  induction tab with
  | nil => intro i; simp
  | cons x xs ih =>
    intro i
    cases i with
    | zero => simp
    | succ i =>
      rcases ih i with h | h
      · left; simpa using h
      · right; simp only [List.getD_cons_succ]; exact List.mem_cons_of_mem _ h

theorem dig_ne (d : Nat) : dig d ≠ LF := by
  unfold dig
  rcases getD_mem digits 48 d with h | h
  · rw [h]; decide
  · intro hc; rw [hc] at h; simp [digits, LF] at h

theorem fmtDec_noLF (n : Nat) : LF ∉ fmtDec n := by
  induction n using Nat.strongRecOn with
  | _ n ih =>
    unfold fmtDec
    split
    · intro hm; simp at hm; exact dig_ne _ hm.symm
    · intro hm
      rcases List.mem_append.1 hm with hm | hm
      · exact ih (n / 10) (by omega) hm
      · simp at hm; exact dig_ne _ hm.symm

theorem fmt02_noLF (n : Nat) : LF ∉ fmt02 n := by
  unfold fmt02; split
  · intro hm; simp at hm; rcases hm with hm | hm
    · exact absurd hm (by decide)
    · exact dig_ne _ hm.symm
  · exact fmtDec_noLF n

theorem tab_noLF (tab : List Bytes) (h : ∀ l ∈ tab, LF ∉ l) (i : Nat) : LF ∉ tab.getD i [] := by
  rcases getD_mem tab [] i with h' | h'
  · rw [h']; simp
  · exact h _ h'

theorem daytab_noLF : ∀ l ∈ daytab, LF ∉ l := by decide
theorem montab_noLF : ∀ l ∈ montab, LF ∉ l := by decide

theorem nm_app {a b : Bytes} (ha : LF ∉ a) (hb : LF ∉ b) : LF ∉ a ++ b := by
  intro h; rcases List.mem_append.1 h with h | h
  · exact ha h
  · exact hb h

theorem myctime_single (t : Nat) : SingleLine (myctime t) := by
  unfold myctime
  refine ⟨_, rfl, ?_⟩
  repeat' apply nm_app
  all_goals first
    | exact tab_noLF _ daytab_noLF _
    | exact tab_noLF _ montab_noLF _
    | exact fmt02_noLF _
    | exact fmtDec_noLF _
    | decide

theorem ufSender_clean (sender : Bytes) : ∀ c ∈ ufSender sender, c ≠ SP ∧ c ≠ TAB ∧ c ≠ LF := by
  intro c hc
  unfold ufSender at hc
  split at hc
  · revert c; decide
  · obtain ⟨x, _, rfl⟩ := List.mem_map.1 hc
    split
    · decide
    · rename_i h; simp only [not_or] at h; exact h

theorem uflinePrefix_eq (sender : Bytes) : Local.uflinePrefix sender = fromSp ++ ufSender sender ++ [SP] := by
  unfold Local.uflinePrefix ufSender fromSp
  split <;> rfl

theorem ufline_single (sender : Bytes) (t : Nat) : SingleLine (ufline sender t) := by
  obtain ⟨pre, hpre, hno⟩ := myctime_single t
  refine ⟨Local.uflinePrefix sender ++ pre, by simp [ufline, hpre], ?_⟩
  rw [uflinePrefix_eq]
  intro hm
  simp only [List.mem_append, List.mem_singleton] at hm
  rcases hm with ((hm | hm) | hm) | hm
  · simp [fromSp, LF] at hm
  · exact (ufSender_clean sender _ hm).2.2 rfl
  · cases hm
  · exact hno hm

theorem ufline_from (sender : Bytes) (t : Nat) : isFromLine (ufline sender t) = true := by
  simp [ufline, uflinePrefix_eq, isFromLine, fromSp]

theorem takeWhile_word (p : Byte → Bool) (a : Bytes) (b : Byte) (r : Bytes) (ha : ∀ c ∈ a, p c = true) (hb : p b = false) :
    (a ++ b :: r).takeWhile p = a := by
  induction a with
  | nil => simp [List.takeWhile, hb]
  | cons x xs ih =>
    simp only [List.cons_append, List.takeWhile, ha x (by simp)]
    rw [ih (fun c hc => ha c (List.mem_cons_of_mem _ hc))]

/-- the reader recovers the (sanitised) envelope sender from the From_ line -/
theorem ufline_sender (sender : Bytes) (t : Nat) : envSender (ufline sender t) = ufSender sender := by
  unfold envSender ufline
  rw [uflinePrefix_eq]
  have : (fromSp ++ ufSender sender ++ [SP] ++ myctime t).drop 5 = ufSender sender ++ SP :: myctime t := by
    simp [fromSp]
  rw [this]
  apply takeWhile_word
  · intro c hc
    obtain ⟨h1, h2, h3⟩ := ufSender_clean sender c hc
    simp [h1, h2, h3]
  · simp


/-! ### maildir names -/

theorem dig_mem (d : Nat) : dig d ∈ digits := by
  unfold dig
  rcases getD_mem digits 48 d with h | h
  · rw [h]; decide
  · exact h

theorem fmtDec_digits (n : Nat) : ∀ c ∈ fmtDec n, c ∈ digits := by
  induction n using Nat.strongRecOn with
  | _ n ih =>
    intro c hc
    unfold fmtDec at hc
    split at hc
    · simp at hc; subst hc; exact dig_mem n
    · rcases List.mem_append.1 hc with hc | hc
      · exact ih (n / 10) (by omega) c hc
      · simp at hc; subst hc; exact dig_mem _

theorem digits_ne_dot : ∀ c ∈ digits, c ≠ DOT := by decide

theorem dig_val (d : Nat) (h : d < 10) : (dig d).toNat - 48 = d := by
  have : d = 0 ∨ d = 1 ∨ d = 2 ∨ d = 3 ∨ d = 4 ∨ d = 5 ∨ d = 6 ∨ d = 7 ∨ d = 8 ∨ d = 9 := by omega
  rcases this with rfl | rfl | rfl | rfl | rfl | rfl | rfl | rfl | rfl | rfl <;> rfl

theorem decVal_snoc (a : Bytes) (d : Byte) : decVal (a ++ [d]) = decVal a * 10 + (d.toNat - 48) := by
  simp [decVal, List.foldl_append]

/-- `fmt_ulong` is injective: the decimal digits determine the number -/
theorem decVal_fmtDec (n : Nat) : decVal (fmtDec n) = n := by
  induction n using Nat.strongRecOn with
  | _ n ih =>
    unfold fmtDec
    split
    · rename_i h; simp [decVal, dig_val n h]
    · rename_i h
      rw [decVal_snoc, ih (n / 10) (by omega), dig_val (n % 10) (Nat.mod_lt _ (by decide))]
      omega

theorem split_at_dot : ∀ (a a' r r' : Bytes), (∀ c ∈ a, c ≠ DOT) → (∀ c ∈ a', c ≠ DOT) →
    a ++ DOT :: r = a' ++ DOT :: r' → a = a' ∧ r = r' := by
  intro a
  induction a with
  | nil =>
    intro a' r r' _ ha' h
    cases a' with
    | nil => simp at h; exact ⟨rfl, h⟩
    | cons x xs => simp at h; exact absurd h.1.symm (ha' x (by simp))
  | cons y ys ih =>
    intro a' r r' ha ha' h
    cases a' with
    | nil => simp at h; exact absurd h.1 (ha y (by simp))
    | cons x xs =>
      simp only [List.cons_append, List.cons.injEq] at h
      obtain ⟨hxy, hrest⟩ := h
      obtain ⟨e1, e2⟩ := ih xs r r' (fun c hc => ha c (List.mem_cons_of_mem _ hc)) (fun c hc => ha' c (List.mem_cons_of_mem _ hc)) hrest
      exact ⟨by rw [hxy, e1], e2⟩

/-- the file name determines the time and the process id of the delivery -/
theorem maildirName_inj (t p t' p' : Nat) (h h' : Bytes) (he : maildirName t p h = maildirName t' p' h') :
    t = t' ∧ p = p' := by
  unfold maildirName at he
  simp only [List.append_assoc, List.singleton_append] at he
  have nd := fun n c hc => digits_ne_dot c (fmtDec_digits n c hc)
  obtain ⟨e1, e2⟩ := split_at_dot _ _ _ _ (nd t) (nd t') he
  obtain ⟨e3, _⟩ := split_at_dot _ _ _ _ (nd p) (nd p') e2
  constructor
  · rw [← decVal_fmtDec t, ← decVal_fmtDec t', e1]
  · rw [← decVal_fmtDec p, ← decVal_fmtDec p', e3]

end Nq.Lemmas.LD.Rt
