/-
  Lemmas for C10, part 4: routing is invariant under ASCII case changes of addresses and keys.
-/
import Nq.Lemmas.RewriteSpec

namespace Nq.Lemmas.RewriteCase
open Nq Nq.Rewrite Nq.Route Nq.Lemmas.RewriteMap Nq.Lemmas.RewriteSpec

/-- a byte that is not a letter in either case: lower-casing neither creates nor destroys it -/
def Caseless (c : Byte) : Prop := ∀ x, (lowerByte x = c ↔ x = c)

set_option maxRecDepth 100000 in
theorem caseless_at : Caseless AT := by
  unfold Caseless; apply byte_forall; decide

set_option maxRecDepth 100000 in
theorem caseless_pct : Caseless PCT := by
  unfold Caseless; apply byte_forall; decide

set_option maxRecDepth 100000 in
theorem caseless_dot : Caseless DOT := by
  unfold Caseless; apply byte_forall; decide

set_option maxRecDepth 100000 in
theorem lowerByte_idem (c : Byte) : lowerByte (lowerByte c) = lowerByte c := by
  revert c; apply byte_forall; decide

theorem lower_idem (s : Bytes) : lower (lower s) = lower s := by
  unfold lower; rw [List.map_map]; congr 1; funext c; exact lowerByte_idem c

theorem lower_cons (x : Byte) (r : Bytes) : lower (x :: r) = lowerByte x :: lower r := rfl
theorem lower_append (a b : Bytes) : lower (a ++ b) = lower a ++ lower b := by simp [lower]
theorem lower_take (n : Nat) (a : Bytes) : lower (a.take n) = (lower a).take n := by simp [lower, List.map_take]
theorem lower_drop (n : Nat) (a : Bytes) : lower (a.drop n) = (lower a).drop n := by simp [lower, List.map_drop]
theorem lower_set (a : Bytes) (n : Nat) (c : Byte) : lower (a.set n c) = (lower a).set n (lowerByte c) := by
  simp [lower, List.map_set]

theorem rchr_lower {c : Byte} (hc : Caseless c) (s : Bytes) : rchr c (lower s) = rchr c s := by
  induction s with
  | nil => rfl
  | cons x r ih =>
    simp only [lower_cons, rchr, ih, lower_length]
    by_cases hx : x = c
    · have : lowerByte x = c := (hc x).2 hx
      subst hx
      simp [this]
    · have : ¬ lowerByte x = c := fun h => hx ((hc x).1 h)
      simp [hx, this]

theorem rchr_ci {c : Byte} (hc : Caseless c) {a b : Bytes} (h : lower a = lower b) : rchr c a = rchr c b := by
  rw [← rchr_lower hc a, ← rchr_lower hc b, h]

theorem length_ci {a b : Bytes} (h : lower a = lower b) : a.length = b.length := by
  rw [← lower_length a, ← lower_length b, h]

/-- lookups that only depend on the key up to ASCII case (every `constmap` is like that) -/
structure CI (L : Lookups) : Prop where
  ph : ∀ k k', lower k = lower k' → L.ph k = L.ph k'
  locals : ∀ k k', lower k = lower k' → L.locals k = L.locals k'
  vdoms : ∀ k k', lower k = lower k' → L.vdoms k = L.vdoms k'

theorem phLoop_ci {L : Lookups} (ci : CI L) : ∀ (n : Nat) (a a' : Bytes) (i : Nat), lower a = lower a' →
    lower (phLoop L.ph n a i) = lower (phLoop L.ph n a' i) := by
  intro n
  induction n with
  | zero => intro a a' i h; exact h
  | succ n ih =>
    intro a a' i h
    simp only [phLoop]
    have h1 : L.ph (a.drop (i + 1)) = L.ph (a'.drop (i + 1)) := ci.ph _ _ (by rw [lower_drop, lower_drop, h])
    have h2 : rchr PCT (a.take i) = rchr PCT (a'.take i) := rchr_ci caseless_pct (by rw [lower_take, lower_take, h])
    rw [h1, h2]
    split
    · split
      · exact h
      · apply ih
        rw [lower_set, lower_set, lower_take, lower_take, h]
    · exact h

theorem cand_lower (a : Bytes) (at_ i : Nat) : cand (lower a) at_ i = cand a at_ i := by
  unfold cand
  rw [lower_length]
  have : ((lower a)[i]? == some DOT) = (a[i]? == some DOT) := by
    unfold lower
    rw [List.getElem?_map]
    cases a[i]? with
    | none => rfl
    | some x =>
      simp only [Option.map_some]
      rw [Bool.eq_iff_iff]
      simp only [beq_iff_eq, Option.some.injEq]
      exact caseless_dot x
  rw [this]

theorem vscan_ci {L : Lookups} (ci : CI L) (a a' : Bytes) (at_ : Nat) (h : lower a = lower a') :
    ∀ (n i : Nat), vscan L.vdoms a at_ n i = vscan L.vdoms a' at_ n i := by
  intro n
  induction n with
  | zero => intro i; rfl
  | succ n ih =>
    intro i
    simp only [vscan]
    have hc : cand a at_ i = cand a' at_ i := by rw [← cand_lower a, ← cand_lower a', h]
    have hv : L.vdoms (a.drop i) = L.vdoms (a'.drop i) := ci.vdoms _ _ (by rw [lower_drop, lower_drop, h])
    rw [hc, hv, ih]

theorem tailPart_ci {L : Lookups} (ci : CI L) (a a' : Bytes) (h : lower a = lower a') :
    (tailPart L a).chan = (tailPart L a').chan ∧ (tailPart L a).tag = (tailPart L a').tag ∧
      lower (tailPart L a).addr = lower (tailPart L a').addr := by
  unfold tailPart
  have hat : rchr AT a = rchr AT a' := rchr_ci caseless_at h
  have hl : L.locals (a.drop (rchr AT a + 1)) = L.locals (a'.drop (rchr AT a' + 1)) :=
    ci.locals _ _ (by rw [lower_drop, lower_drop, h, hat])
  have hv := vscan_ci ci a a' (rchr AT a') h (a'.length + 1) 0
  rw [hl, hat, length_ci h, hv]
  split
  · exact ⟨rfl, rfl, h⟩
  · split
    · split
      · exact ⟨rfl, rfl, h⟩
      · exact ⟨rfl, rfl, h⟩
    · exact ⟨rfl, rfl, h⟩

theorem rewriteWith_ci {L : Lookups} (ci : CI L) (env env' r r' : Bytes)
    (he : lower env = lower env') (hr : lower r = lower r') :
    (rewriteWith L env r).chan = (rewriteWith L env' r').chan ∧
    (rewriteWith L env r).tag = (rewriteWith L env' r').tag ∧
    lower (rewriteWith L env r).addr = lower (rewriteWith L env' r').addr := by
  rw [rewriteWith_eq, rewriteWith_eq]
  apply tailPart_ci ci
  have hi : rchr AT r = rchr AT r' := rchr_ci caseless_at hr
  have hlen := length_ci hr
  have h0 : lower (if rchr AT r = r.length then r ++ AT :: env else r) =
      lower (if rchr AT r' = r'.length then r' ++ AT :: env' else r') := by
    rw [hi, hlen]
    split
    · rw [lower_append, lower_append, lower_cons, lower_cons, hr, he]
    · exact hr
  rw [hi] at h0 ⊢
  rw [length_ci h0]
  exact phLoop_ci ci _ _ _ _ h0

/-! ### the finite maps only see keys up to case -/

def lowerKeys (es : List Ent) : List Ent := es.map (fun e => ⟨lower e.key, e.val⟩)

theorem mapLookupRev_ci (es : List Ent) {k k' : Bytes} (h : lower k = lower k') :
    mapLookupRev k es = mapLookupRev k' es := by
  induction es with
  | nil => rfl
  | cons e r ih =>
    have hk : keyEq k e = keyEq k' e := by unfold keyEq; rw [h]
    simp only [mapLookupRev]
    rw [hk, ih]

theorem mapLookupRev_lowerKeys (es : List Ent) (k : Bytes) :
    mapLookupRev k (lowerKeys es) = mapLookupRev k es := by
  induction es with
  | nil => rfl
  | cons e r ih =>
    have hk : keyEq k (⟨lower e.key, e.val⟩ : Ent) = keyEq k e := by unfold keyEq; simp only [lower_idem]
    unfold lowerKeys at ih
    simp only [lowerKeys, List.map_cons, mapLookupRev]
    rw [hk, ih]

theorem mapLookup_lowerKeys (es : List Ent) (k : Bytes) : mapLookup (lowerKeys es) k = mapLookup es k := by
  unfold mapLookup
  have : (lowerKeys es).reverse = lowerKeys es.reverse := by simp [lowerKeys]
  rw [this, mapLookupRev_lowerKeys]

theorem mapLookup_keys_ci {es es' : List Ent} (h : lowerKeys es = lowerKeys es') (k : Bytes) :
    mapLookup es k = mapLookup es' k := by
  rw [← mapLookup_lowerKeys es, ← mapLookup_lowerKeys es', h]

theorem cfg_ci (c : Cfg) : CI c.lookups where
  ph := fun k k' h => by simp only [Cfg.lookups, mapLookup, mapLookupRev_ci _ h]
  locals := fun k k' h => by simp only [Cfg.lookups, mapLookup, mapLookupRev_ci _ h]
  vdoms := fun k k' h => by simp only [Cfg.lookups, mapLookup, mapLookupRev_ci _ h]

theorem lookups_keys_ci {c c' : Cfg} (hp : lowerKeys c.ph = lowerKeys c'.ph)
    (hl : lowerKeys c.locals = lowerKeys c'.locals) (hv : lowerKeys c.vdoms = lowerKeys c'.vdoms) :
    c.lookups = c'.lookups := by
  unfold Cfg.lookups
  congr 1
  · funext k; rw [mapLookup_keys_ci hp]
  · funext k; rw [mapLookup_keys_ci hl]
  · funext k; rw [mapLookup_keys_ci hv]

end Nq.Lemmas.RewriteCase
