/-
  Oversized delivery reports are truncated (property C18, qmail-send.c `del_dochan`): every log line the
  model `Nq.SendReport.feed` writes for a delivery carries at most REPORTMAX − 2 bytes of report text
  (or REPORTMAX − 3 bytes followed by the fixed sentence for a message past its queue lifetime) —
  the oracle predicate `Nq.Spec.TB.truncOK`.  Statement: `Props.C18_send_trunc`.
  Core Lean only.
-/
import Nq.Lemmas.SendL
import Nq.Lemmas.CleanL

namespace Nq.Lemmas.SendTruncL
open Nq Nq.SendReport Nq.Spec.TB Nq.Lemmas.SendL

/-! ### `str` literals as explicit byte lists (`String.toUTF8` does not reduce by `decide`) -/

theorem len_eq (bs : ByteArray) : bs.data.toList.length = bs.size := by
  cases bs; rfl

theorem loop_eq (bs : ByteArray) : ∀ (k i : Nat) (r : List UInt8), bs.size - i = k →
    ByteArray.toList.loop bs i r = r.reverse ++ bs.data.toList.drop i := by
  intro k
  induction k with
  | zero =>
    intro i r h
    rw [ByteArray.toList.loop]
    have : ¬ i < bs.size := by omega
    rw [if_neg this]
    have : bs.data.toList.length ≤ i := by
      have := len_eq bs
      omega
    rw [List.drop_eq_nil_of_le this]; simp
  | succ k ih =>
    intro i r h
    rw [ByteArray.toList.loop]
    have hi : i < bs.size := by omega
    rw [if_pos hi, ih (i+1) _ (by omega)]
    have hl : i < bs.data.toList.length := by
      have := len_eq bs
      omega
    rw [List.drop_eq_getElem_cons hl]
    simp [ByteArray.get!, hi]

theorem toByteArray_toList (l : List UInt8) : l.toByteArray.toList = l := by
  rw [ByteArray.toList, loop_eq _ _ 0 [] rfl]
  simp [List.data_toByteArray]

theorem str_ofList (cs : List Char) : str (String.ofList cs) = cs.flatMap String.utf8EncodeChar := by
  unfold str
  rw [show (String.ofList cs).toUTF8 = (String.ofList cs).toByteArray from rfl,
    String.toByteArray_ofList]
  exact toByteArray_toList _

theorem s_delivery : str "delivery " =
    [100, 101, 108, 105, 118, 101, 114, 121, 32] := by
  rw [show "delivery " = String.ofList
    ['d', 'e', 'l', 'i', 'v', 'e', 'r', 'y', ' '] from rfl, str_ofList]
  decide

theorem s_success : str ": success: " =
    [58, 32, 115, 117, 99, 99, 101, 115, 115, 58, 32] := by
  rw [show ": success: " = String.ofList
    [':', ' ', 's', 'u', 'c', 'c', 'e', 's', 's', ':', ' '] from rfl, str_ofList]
  decide

theorem s_failure : str ": failure: " =
    [58, 32, 102, 97, 105, 108, 117, 114, 101, 58, 32] := by
  rw [show ": failure: " = String.ofList
    [':', ' ', 'f', 'a', 'i', 'l', 'u', 'r', 'e', ':', ' '] from rfl, str_ofList]
  decide

theorem s_deferral : str ": deferral: " =
    [58, 32, 100, 101, 102, 101, 114, 114, 97, 108, 58, 32] := by
  rw [show ": deferral: " = String.ofList
    [':', ' ', 'd', 'e', 'f', 'e', 'r', 'r', 'a', 'l', ':', ' '] from rfl, str_ofList]
  decide

theorem s_mangled : str ": report mangled, will defer\n" =
    [58, 32, 114, 101, 112, 111, 114, 116, 32, 109, 97, 110, 103, 108, 101, 100, 44, 32, 119, 105, 108, 108, 32, 100, 101, 102, 101, 114, 10] := by
  rw [show ": report mangled, will defer\n" = String.ofList
    [':', ' ', 'r', 'e', 'p', 'o', 'r', 't', ' ', 'm', 'a', 'n', 'g', 'l', 'e', 'd', ',', ' ', 'w', 'i', 'l', 'l', ' ', 'd', 'e', 'f', 'e', 'r', '\n'] from rfl, str_ofList]
  decide

theorem s_range : str "warning: internal error: delivery report out of range\n" =
    [119, 97, 114, 110, 105, 110, 103, 58, 32, 105, 110, 116, 101, 114, 110, 97, 108, 32, 101, 114, 114, 111, 114, 58, 32, 100, 101, 108, 105, 118, 101, 114, 121, 32, 114, 101, 112, 111, 114, 116, 32, 111, 117, 116, 32, 111, 102, 32, 114, 97, 110, 103, 101, 10] := by
  rw [show "warning: internal error: delivery report out of range\n" = String.ofList
    ['w', 'a', 'r', 'n', 'i', 'n', 'g', ':', ' ', 'i', 'n', 't', 'e', 'r', 'n', 'a', 'l', ' ', 'e', 'r', 'r', 'o', 'r', ':', ' ', 'd', 'e', 'l', 'i', 'v', 'e', 'r', 'y', ' ', 'r', 'e', 'p', 'o', 'r', 't', ' ', 'o', 'u', 't', ' ', 'o', 'f', ' ', 'r', 'a', 'n', 'g', 'e', '\n'] from rfl, str_ofList]
  decide

theorem s_trouble : str "warning: trouble marking " =
    [119, 97, 114, 110, 105, 110, 103, 58, 32, 116, 114, 111, 117, 98, 108, 101, 32, 109, 97, 114, 107, 105, 110, 103, 32] := by
  rw [show "warning: trouble marking " = String.ofList
    ['w', 'a', 'r', 'n', 'i', 'n', 'g', ':', ' ', 't', 'r', 'o', 'u', 'b', 'l', 'e', ' ', 'm', 'a', 'r', 'k', 'i', 'n', 'g', ' '] from rfl, str_ofList]
  decide

theorem s_unstat : str "warning: unable to stat " =
    [119, 97, 114, 110, 105, 110, 103, 58, 32, 117, 110, 97, 98, 108, 101, 32, 116, 111, 32, 115, 116, 97, 116, 32] := by
  rw [show "warning: unable to stat " = String.ofList
    ['w', 'a', 'r', 'n', 'i', 'n', 'g', ':', ' ', 'u', 'n', 'a', 'b', 'l', 'e', ' ', 't', 'o', ' ', 's', 't', 'a', 't', ' '] from rfl, str_ofList]
  decide

theorem s_ununlink : str "warning: unable to unlink " =
    [119, 97, 114, 110, 105, 110, 103, 58, 32, 117, 110, 97, 98, 108, 101, 32, 116, 111, 32, 117, 110, 108, 105, 110, 107, 32] := by
  rw [show "warning: unable to unlink " = String.ofList
    ['w', 'a', 'r', 'n', 'i', 'n', 'g', ':', ' ', 'u', 'n', 'a', 'b', 'l', 'e', ' ', 't', 'o', ' ', 'u', 'n', 'l', 'i', 'n', 'k', ' '] from rfl, str_ofList]
  decide

theorem s_status : str "status: local " =
    [115, 116, 97, 116, 117, 115, 58, 32, 108, 111, 99, 97, 108, 32] := by
  rw [show "status: local " = String.ofList
    ['s', 't', 'a', 't', 'u', 's', ':', ' ', 'l', 'o', 'c', 'a', 'l', ' '] from rfl, str_ofList]
  decide

/-! ### reading a log line -/

/-- the oracle's test of one log line -/
def lineOK (t : Bytes) : Bool := match reportTextOf t with | some x => textFits x | none => true

theorem truncOK_iff (evs : List Ev) : truncOK evs = true ↔ ∀ t, Ev.log t ∈ evs → lineOK t = true := by
  unfold truncOK
  rw [List.all_eq_true]
  constructor
  · intro h t ht
    exact h _ ht
  · intro h e he
    cases e with
    | log t => exact h t he
    | _ => rfl

/-- a line that does not start with 'd' is not a delivery line -/
theorem lineOK_other (c : Byte) (rest : Bytes) (h : c ≠ 100) : lineOK (c :: rest) = true := by
  have : reportTextOf (c :: rest) = none := by
    unfold reportTextOf
    rw [if_neg]
    intro he
    simp only [List.take_succ_cons, DELIVERY, List.cons.injEq] at he
    exact h he.1
  simp only [lineOK, this]

theorem dropWhile_digits (ds rest : Bytes) (h : ds.all isDigit = true) :
    (ds ++ rest).dropWhile (· != 58) = rest.dropWhile (· != 58) := by
  induction ds with
  | nil => rfl
  | cons c r ih =>
    simp only [List.all_cons, Bool.and_eq_true] at h
    have hc : (c != 58) = true := by
      have := h.1
      simp only [isDigit, Bool.and_eq_true, decide_eq_true_eq] at this
      have h2 : c ≤ 57 := this.2
      have : c ≠ 58 := by
        intro he; rw [he] at h2; exact absurd h2 (by decide)
      simpa using this
    rw [List.cons_append, List.dropWhile_cons, if_pos hc]
    exact ih h.2

theorem dropWhile_all (p : Byte → Bool) (w rest : Bytes) (h : ∀ c ∈ w, p c = true) :
    (w ++ rest).dropWhile p = rest.dropWhile p := by
  induction w with
  | nil => rfl
  | cons c r ih =>
    rw [List.cons_append, List.dropWhile_cons, if_pos (h c (by simp))]
    exact ih (fun y hy => h y (by simp [hy]))

/-- the text of `delivery <n>: <word> <x>` is `<x>` when `<word>` has no blank -/
theorem text_of (n : Nat) (w x : Bytes) (hw : ∀ c ∈ w, (c != 32) = true) :
    reportTextOf (DELIVERY ++ (Clean.fmtUlong n ++ (58 :: 32 :: (w ++ 32 :: x)))) = some x := by
  unfold reportTextOf
  have h9 : (DELIVERY ++ (Clean.fmtUlong n ++ (58 :: 32 :: (w ++ 32 :: x)))).take 9 = DELIVERY := by
    simp [DELIVERY]
  rw [if_pos h9]
  have hd : (DELIVERY ++ (Clean.fmtUlong n ++ (58 :: 32 :: (w ++ 32 :: x)))).dropWhile (· != 58)
      = 58 :: 32 :: (w ++ 32 :: x) := by
    rw [dropWhile_all (· != 58) DELIVERY _ (by decide), dropWhile_digits _ _ (Nq.Lemmas.CleanL.fmtUlong_digits n)]
    simp [List.dropWhile_cons]
  rw [hd]
  show some (((w ++ 32 :: x).dropWhile (· != 32)).drop 1) = some x
  rw [dropWhile_all (· != 32) w _ hw]
  simp [List.dropWhile_cons]

theorem text_success (n : Nat) (x : Bytes) :
    reportTextOf (str "delivery " ++ Clean.fmtUlong n ++ str ": success: " ++ x) = some x := by
  rw [s_delivery, s_success]
  have := text_of n [115, 117, 99, 99, 101, 115, 115, 58] x (by decide)
  simpa [DELIVERY] using this

theorem text_failure (n : Nat) (x : Bytes) :
    reportTextOf (str "delivery " ++ Clean.fmtUlong n ++ str ": failure: " ++ x) = some x := by
  rw [s_delivery, s_failure]
  have := text_of n [102, 97, 105, 108, 117, 114, 101, 58] x (by decide)
  simpa [DELIVERY] using this

theorem text_deferral (n : Nat) (x : Bytes) :
    reportTextOf (str "delivery " ++ Clean.fmtUlong n ++ str ": deferral: " ++ x) = some x := by
  rw [s_delivery, s_deferral]
  have := text_of n [100, 101, 102, 101, 114, 114, 97, 108, 58] x (by decide)
  simpa [DELIVERY] using this

/-- `delivery <n>: report mangled, will defer`: the "text" the oracle reads is `mangled, will defer\n` -/
theorem text_mangled (n : Nat) :
    reportTextOf (str "delivery " ++ Clean.fmtUlong n ++ str ": report mangled, will defer\n") =
      some [109, 97, 110, 103, 108, 101, 100, 44, 32, 119, 105, 108, 108, 32, 100, 101, 102, 101, 114, 10] := by
  rw [s_delivery, s_mangled]
  have := text_of n [114, 101, 112, 111, 114, 116] [109, 97, 110, 103, 108, 101, 100, 44, 32, 119, 105, 108, 108, 32, 100, 101, 102, 101, 114, 10] (by decide)
  simpa [DELIVERY] using this

/-! ### the bound on the text -/

theorem logsafe_length (s : Bytes) : (logsafe s).length = s.length := by simp [logsafe]

theorem logsafe_append (a b : Bytes) : logsafe (a ++ b) = logsafe a ++ logsafe b := by simp [logsafe]

/-- a text cut from a report line of at most REPORTMAX bytes fits -/
theorem fits_plain (dl : Bytes) (h : dl.length ≤ Nq.Gen.REPORTMAX) :
    textFits (logsafe (cstr2 (dl.drop 2)) ++ [LF]) = true := by
  have h1 : (cstr2 (dl.drop 2)).length ≤ (dl.drop 2).length := by
    unfold cstr2; exact (List.takeWhile_prefix _).length_le
  have h2 : (dl.drop 2).length = dl.length - 2 := List.length_drop
  unfold textFits TEXTMAX
  simp only [List.length_append, logsafe_length, List.length_singleton, Bool.or_eq_true, decide_eq_true_eq]
  left; omega

/-- the text of a report rewritten for a message past its queue lifetime fits -/
theorem fits_dying (dl : Bytes) (h : dl.length ≤ Nq.Gen.REPORTMAX) :
    textFits (logsafe (dl.dropLast.drop 2 ++ DYINGMSG) ++ [LF]) = true := by
  have h2 : (dl.dropLast.drop 2).length = dl.length - 1 - 2 := by
    rw [List.length_drop, List.length_dropLast]
  have hR : 3 ≤ Nq.Gen.REPORTMAX := by unfold Nq.Gen.REPORTMAX; omega
  have hsuf : DYINGLOG <:+ logsafe (dl.dropLast.drop 2 ++ DYINGMSG) ++ [LF] := by
    refine ⟨logsafe (dl.dropLast.drop 2), ?_⟩
    rw [logsafe_append, List.append_assoc]; rfl
  unfold textFits TEXTMAX
  simp only [Bool.or_eq_true, Bool.and_eq_true, decide_eq_true_eq]
  right
  refine ⟨?_, List.isSuffixOf_iff_suffix.mpr hsuf⟩
  simp only [List.length_append, logsafe_length, List.length_singleton, DYINGLOG, h2]
  omega

/-! ### which log lines each routine writes -/

/-- every log line of `evs` passes the oracle's test -/
def LogsOK (evs : List Ev) : Prop := ∀ t, Ev.log t ∈ evs → lineOK t = true

theorem LogsOK_append (a b : List Ev) (ha : LogsOK a) (hb : LogsOK b) : LogsOK (a ++ b) := by
  intro t ht
  rcases List.mem_append.mp ht with h | h
  · exact ha t h
  · exact hb t h

theorem LogsOK_nil : LogsOK [] := fun t ht => by cases ht

theorem lineOK_w (rest : Bytes) : lineOK (119 :: rest) = true := lineOK_other 119 rest (by decide)
theorem lineOK_s (rest : Bytes) : lineOK (115 :: rest) = true := lineOK_other 115 rest (by decide)

theorem markdone_logs (c : Nat) (st : St) (id pos : Nat) : LogsOK (markdone c st id pos).2 := by
  unfold markdone
  simp only [nextPlan]
  by_cases h : st.plan.headD 0 = 1
  · simp only [h, if_true]
    intro t ht
    simp only [List.mem_cons, reduceCtorEq, Ev.log.injEq, List.not_mem_nil, or_false, false_or] at ht
    rw [ht, s_trouble]
    exact lineOK_w _
  · simp only [h, if_false]
    intro t ht
    simp at ht

theorem statOthers_logs (id : Nat) (cs : List Nat) (st : St) : LogsOK (statOthers id cs st).2.1 := by
  induction cs generalizing st with
  | nil => simp [statOthers]; exact LogsOK_nil
  | cons c cs ih =>
    unfold statOthers
    simp only [nextPlan]
    by_cases h1 : st.plan.headD 0 = 1
    · simp only [h1, if_true]
      intro t ht; simp at ht
    · by_cases h2 : st.plan.headD 0 = 2
      · have e21 : ¬ ((2 : Nat) = 1) := by decide
        simp only [h2, e21, if_true, if_false]
        intro t ht
        simp only [List.mem_cons, reduceCtorEq, Ev.log.injEq, List.not_mem_nil, or_false, false_or] at ht
        rw [ht, s_unstat]
        exact lineOK_w _
      · simp only [h1, h2, if_false]
        intro t ht
        simp only [List.mem_cons, reduceCtorEq, false_or] at ht
        exact ih _ t ht

theorem jobClose_aux_logs (st2 : St) (id ch now : Nat) (path : Bytes) :
    LogsOK (if (statOthers id (otherChannels ch) st2).2.2 = true
        then ((statOthers id (otherChannels ch) st2).1, Ev.unlink path :: (statOthers id (otherChannels ch) st2).2.1)
        else ((statOthers id (otherChannels ch) st2).1,
              Ev.unlink path :: (statOthers id (otherChannels ch) st2).2.1 ++ [Ev.pq 2 id now])).2 := by
  have hl := statOthers_logs id (otherChannels ch) st2
  by_cases h4 : (statOthers id (otherChannels ch) st2).2.2 = true
  · rw [if_pos h4]
    intro t ht
    simp only [List.mem_cons, reduceCtorEq, false_or] at ht
    exact hl t ht
  · rw [if_neg h4]
    intro t ht
    simp only [List.mem_cons, List.mem_append, reduceCtorEq, false_or, List.not_mem_nil, or_false] at ht
    exact hl t ht

theorem jobClose_logs (env : Env) (st : St) (j : Nat) : LogsOK (jobClose env st j).2 := by
  unfold jobClose
  cases hj : st.jobs[j]? with
  | none => exact LogsOK_nil
  | some jb =>
    simp only [setJob, nextPlan]
    by_cases h1 : 0 < jb.refs - 1
    · simp only [h1, if_true]; exact LogsOK_nil
    · simp only [h1, if_false]
      by_cases h2 : jb.hiteof = true ∧ jb.numtodo = 0
      · rw [if_pos h2]
        by_cases h3 : st.plan.headD 0 = 1
        · simp only [h3, if_true]
          intro t ht
          simp only [List.mem_cons, reduceCtorEq, Ev.log.injEq, List.not_mem_nil, or_false, false_or] at ht
          rw [ht, s_ununlink]
          exact lineOK_w _
        · simp only [h3, if_false]
          exact jobClose_aux_logs _ jb.id jb.channel env.now _
      · rw [if_neg h2]
        intro t ht; simp at ht

theorem statusLine_ok (env : Env) (st : St) : lineOK (statusLine env st) = true := by
  unfold statusLine
  rw [s_status]
  exact lineOK_s _

theorem finishReport_logs (env : Env) (r : St × List Ev) (d j : Nat) (h : LogsOK r.2) :
    LogsOK (finishReport env r d j).2 := by
  unfold finishReport
  refine LogsOK_append _ _ (LogsOK_append _ _ h (jobClose_logs env r.1 j)) ?_
  intro t ht
  simp only [List.mem_singleton, Ev.log.injEq] at ht
  rw [ht]; exact statusLine_ok _ _

theorem reportCore_logs (env : Env) (st : St) (sl : Slot) (jb : Job) (letter : Byte) (text : Bytes)
    (hfit : textFits (logsafe text ++ [LF]) = true) : LogsOK (reportCore env st sl jb letter text).2 := by
  have hm := markdone_logs env.chan st jb.id sl.mpos
  have hK : lineOK (str "delivery " ++ Clean.fmtUlong sl.delid ++ str ": success: " ++ logsafe text ++ [LF]) = true := by
    rw [List.append_assoc _ (logsafe text) [LF]]
    simp only [lineOK, text_success, hfit]
  have hZ : lineOK (str "delivery " ++ Clean.fmtUlong sl.delid ++ str ": deferral: " ++ logsafe text ++ [LF]) = true := by
    rw [List.append_assoc _ (logsafe text) [LF]]
    simp only [lineOK, text_deferral, hfit]
  have hD : lineOK (str "delivery " ++ Clean.fmtUlong sl.delid ++ str ": failure: " ++ logsafe text ++ [LF]) = true := by
    rw [List.append_assoc _ (logsafe text) [LF]]
    simp only [lineOK, text_failure, hfit]
  have hM : lineOK (str "delivery " ++ Clean.fmtUlong sl.delid ++ str ": report mangled, will defer\n") = true := by
    simp only [lineOK, text_mangled]
    decide
  unfold reportCore
  by_cases h75 : letter = 75
  · simp only [h75, if_true]
    intro t ht
    simp only [List.mem_cons, Ev.log.injEq] at ht
    rcases ht with ht | ht
    · rw [ht]; exact hK
    · exact hm t ht
  · by_cases h90 : letter = 90
    · have e9075 : ¬ ((90 : Byte) = 75) := by decide
      simp only [h90, e9075, if_true, if_false]
      intro t ht
      simp only [List.mem_singleton, Ev.log.injEq] at ht
      rw [ht]; exact hZ
    · by_cases h68 : letter = 68
      · have e68a : ¬ ((68 : Byte) = 75) := by decide
        have e68b : ¬ ((68 : Byte) = 90) := by decide
        simp only [h68, e68a, e68b, if_true, if_false]
        intro t ht
        simp only [List.mem_cons, List.mem_append, Ev.log.injEq, addbounce, reduceCtorEq, List.not_mem_nil, or_false, false_or] at ht
        rcases ht with ht | ht
        · rw [ht]; exact hD
        · exact hm t ht
      · simp only [h75, h90, h68, if_false]
        intro t ht
        simp only [List.mem_singleton, Ev.log.injEq] at ht
        rw [ht]; exact hM

theorem processLine_logs (env : Env) (st : St) (dl : Bytes) (h : dl.length ≤ Nq.Gen.REPORTMAX) :
    LogsOK (processLine env st dl).2 := by
  cases hs : st.slots.getD (dl.headD 0).toNat none with
  | none =>
    rw [processLine_unused env st dl hs]
    intro t ht
    simp only [List.mem_singleton, Ev.log.injEq] at ht
    rw [ht, WARN, s_range]
    exact lineOK_w _
  | some sl =>
    unfold processLine
    simp only [hs]
    generalize st.jobs.getD sl.j ⟨0, 0, 0, false, false, 0, 0⟩ = jb
    apply finishReport_logs
    apply reportCore_logs
    by_cases hd : dl.getD 1 0 = 90 ∧ jb.dying = true
    · rw [if_pos hd]; exact fits_dying dl h
    · rw [if_neg hd]; exact fits_plain dl h

/-- the invariant of the report line: at most REPORTMAX bytes are kept, and `dlen` is their number -/
def LineInv (st : St) : Prop := st.dlen ≤ Nq.Gen.REPORTMAX ∧ st.drev.length = st.dlen

theorem step_logs (env : Env) (st : St) (ch : Byte) (hi : LineInv st) :
    LogsOK (step env st ch).2 ∧ LineInv (step env st ch).1 := by
  unfold step
  have h1 : LineInv (if st.dlen < Nq.Gen.REPORTMAX then { st with drev := ch :: st.drev, dlen := st.dlen + 1 } else st) := by
    by_cases hlt : st.dlen < Nq.Gen.REPORTMAX
    · rw [if_pos hlt]; exact ⟨hlt, by simp [hi.2]⟩
    · rw [if_neg hlt]; exact hi
  generalize (if st.dlen < Nq.Gen.REPORTMAX then { st with drev := ch :: st.drev, dlen := st.dlen + 1 } else st) = st1 at h1
  simp only []
  by_cases hc : ch = 0 ∧ st1.dlen > 1
  · rw [if_pos hc]
    have hlen : st1.drev.reverse.length ≤ Nq.Gen.REPORTMAX := by rw [List.length_reverse, h1.2]; exact h1.1
    refine ⟨processLine_logs env _ _ hlen, ?_⟩
    have hd := processLine_dlen env { st1 with drev := [], dlen := 0 } st1.drev.reverse
    have hr : (processLine env { st1 with drev := [], dlen := 0 } st1.drev.reverse).1.drev = [] := by
      cases hs : ({ st1 with drev := [], dlen := 0 } : St).slots.getD (st1.drev.reverse.headD 0).toNat none with
      | none => rw [processLine_unused env _ _ hs]
      | some sl => exact (processLine_used env _ _ sl hs).1
    exact ⟨by rw [hd]; exact Nat.zero_le _, by rw [hr, hd]; rfl⟩
  · rw [if_neg hc]; exact ⟨LogsOK_nil, h1⟩

theorem feed_logs (env : Env) (st : St) (s : Bytes) (hi : LineInv st) : LogsOK (feed env st s).2 := by
  induction s generalizing st with
  | nil => exact LogsOK_nil
  | cons c r ih =>
    obtain ⟨s1, s2⟩ := step_logs env st c hi
    simp only [feed]
    exact LogsOK_append _ _ s1 (ih _ s2)

/-- **oversized reports are truncated**, for every byte stream -/
theorem feed_truncOK (env : Env) (st : St) (s : Bytes) (h1 : st.dlen ≤ Nq.Gen.REPORTMAX) (h2 : st.drev.length = st.dlen) :
    truncOK (feed env st s).2 = true :=
  (truncOK_iff _).mpr (feed_logs env st s ⟨h1, h2⟩)

end Nq.Lemmas.SendTruncL
