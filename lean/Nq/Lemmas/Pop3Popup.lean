/-
  qmail-popup against the independent pre-authentication reference `Pop3Ref.prefStep` / `pwalk` /
  `popupOk`: every dialogue of the model is accepted.  Core Lean only.
-/
import Nq.Lemmas.Pop3Walk7
namespace Nq.Lemmas.Pop3
open Nq Nq.Pop3 Nq.Pop3Ref Nq.Lemmas.Pop3Fmt

/-- model state and reference state of the dialogue agree on the user name given so far -/
def PRel (s : Popup.PSt) (ps : PRef) : Prop :=
  (ps.user = none ∧ s.seenuser = false) ∨ (ps.user = some s.username ∧ s.seenuser = true)

theorem apop_split (arg : Bytes) :
    match arg.idxOf? SP with
    | none => arg.dropWhile (· ≠ SP) = []
    | some i => arg.takeWhile (· ≠ SP) = arg.take i ∧ arg.dropWhile (· ≠ SP) = SP :: arg.drop (i + 1) := by
  induction arg with
  | nil => simp
  | cons c t ih =>
    rw [List.idxOf?_cons]
    by_cases hc : c = SP
    · simp [hc]
    · have hb : (c == SP) = false := by simpa using hc
      rw [hb]
      simp only [Bool.false_eq_true, if_false]
      cases h : t.idxOf? SP with
      | none => rw [h] at ih; simp [hc]; simpa using ih
      | some i =>
        rw [h] at ih
        simp only [Option.map_some]
        simp only [List.takeWhile_cons, List.dropWhile_cons, hc, ne_eq, not_false_eq_true, decide_true, if_true,
          List.take_succ_cons, List.drop_succ_cons]
        exact ⟨by rw [ih.1], ih.2⟩

theorem pfeed_exit (b : Bytes) : ∀ (r : Popup.PRun) (c : Nat), r.act = .exit c → b.foldl Popup.pfeedByte r = r := by
  induction b with
  | nil => intro r c _; rfl
  | cons x b ih =>
    intro r c h
    rw [List.foldl_cons]
    have : Popup.pfeedByte r x = r := by unfold Popup.pfeedByte; simp [h]
    rw [this]; exact ih r c h

theorem pwalk_cons (greet : Bytes) (childOk : Bool) (ps ps' : PRef) (l v a : Bytes) (e : PExpect) (rest : List Bytes)
    (w : Bytes) (fd3 : Option Bytes) (h1 : splitCmd l = (v, a)) (h2 : prefStep greet ps v a = (ps', e)) :
    pwalk greet childOk ps (l :: rest) w fd3 =
      match e with
      | .ok => (match readLine w with
        | some (r, w') => isOk r && pwalk greet childOk ps' rest w' fd3
        | none => false)
      | .err => (match readLine w with
        | some (r, w') => isErr r && pwalk greet childOk ps' rest w' fd3
        | none => false)
      | .quit => (match readLine w with
        | some (r, w') => isOk r && w'.isEmpty && fd3.isNone
        | none => false)
      | .auth expected =>
        (fd3 == some expected &&
        (if childOk then w.isEmpty else match readLine w with
          | some (r, w') => isErr r && w'.isEmpty
          | none => false)) := by
  simp only [pwalk, h1, h2]
  cases e <;> rfl

theorem readLine_errLine (t : String) (w : Bytes) (h : LF ∉ str t) :
    readLine (errLine t ++ w) = some (errSp ++ str t, w) := by
  have : errLine t ++ w = (errSp ++ str t) ++ CR :: LF :: w := by simp [errLine]
  rw [this]
  exact readLine_line _ w (mem_app_noLF _ _ (by decide) h)

def childOkOf : Popup.Child → Bool
  | .exited 0 => true
  | _ => false

theorem childMsg_ok (child : Popup.Child) :
    (if childOkOf child then (childMsg child).isEmpty else match readLine (childMsg child) with
      | some (r, w') => isErr r && w'.isEmpty
      | none => false) = true := by
  cases child with
  | crashed =>
    have := readLine_errLine "aack, child crashed" [] noLF_aack
    simp only [List.append_nil] at this
    simp [childOkOf, childMsg, this, isErr_errSp]
  | exited c =>
    cases c with
    | zero => simp [childOkOf, childMsg]
    | succ n =>
      have := readLine_errLine "authorization failed" [] noLF_authfailed
      simp only [List.append_nil] at this
      simp [childOkOf, childMsg, this, isErr_errSp]

/-- the result of the dialogue from a run state onwards -/
theorem pwalk_sim (pid now : Nat) (host : Bytes) (child : Popup.Child) :
    ∀ (lines : List Bytes) (r : Popup.PRun) (ps : PRef) (tail : Bytes), r.act = .cont → r.cmd = [] → PRel r.s ps →
    (∀ l ∈ lines, ∀ c ∈ l, c ≠ NUL ∧ c ≠ LF) → LF ∉ tail →
    ∃ w, (Popup.pfinish pid now host child ((lines.flatMap (· ++ [LF]) ++ tail).foldl Popup.pfeedByte r)).out = r.out ++ w ∧
      pwalk (Popup.unique pid now ++ host) (childOkOf child) ps lines w
        (Popup.pfinish pid now host child ((lines.flatMap (· ++ [LF]) ++ tail).foldl Popup.pfeedByte r)).fd3 = true := by
  intro lines
  induction lines with
  | nil =>
    intro r ps tail ha _ _ _ ht
    refine ⟨[], ?_, ?_⟩
    · simp only [List.flatMap_nil, List.nil_append]
      rw [pfeed_noLF tail r ha ht]
      simp [Popup.pfinish, ha]
    · simp only [List.flatMap_nil, List.nil_append]
      rw [pfeed_noLF tail r ha ht]
      simp [Popup.pfinish, ha, pwalk]
  | cons l ls ih =>
    intro r ps tail ha hc hrel hl ht
    have hl0 := hl l (by simp)
    have hls : ∀ x ∈ ls, ∀ c ∈ x, c ≠ NUL ∧ c ≠ LF := fun x hx => hl x (by simp [hx])
    have hnoLF : LF ∉ l := fun hh => (hl0 LF hh).2 rfl
    have hp := parse_ref l (fun c hc' => (hl0 c hc').1)
    have efold : ((l :: ls).flatMap (· ++ [LF]) ++ tail).foldl Popup.pfeedByte r =
        (ls.flatMap (· ++ [LF]) ++ tail).foldl Popup.pfeedByte (pstepLine r l) := by
      rw [List.flatMap_cons, List.append_assoc, List.foldl_append, pfeed_line r l ha hc hnoLF]
    rw [efold]
    generalize hv : (parseLine l).1 = v at hp
    generalize hav : (parseLine l).2 = a at hp
    have estep : pstepLine r l = { s := (Popup.pexec r.s v a).1, cmd := [], out := r.out ++ (Popup.pexec r.s v a).2.1,
                                   act := (Popup.pexec r.s v a).2.2 } := by
      simp [pstepLine, ha, hv, hav]
    rw [estep]
    -- a command after which the loop goes on
    have cont : ∀ (s' : Popup.PSt) (o : Bytes) (ps' : PRef) (e : PExpect),
        Popup.pexec r.s v a = (s', o, .cont) → prefStep (Popup.unique pid now ++ host) ps (lower v) a = (ps', e) →
        PRel s' ps' →
        ((e = .ok ∧ o = okLine) ∨ (e = .err ∧ ∃ t, o = errLine t ∧ LF ∉ str t)) →
        ∃ w, (Popup.pfinish pid now host child ((ls.flatMap (· ++ [LF]) ++ tail).foldl Popup.pfeedByte
              { s := (Popup.pexec r.s v a).1, cmd := [], out := r.out ++ (Popup.pexec r.s v a).2.1,
                act := (Popup.pexec r.s v a).2.2 })).out = r.out ++ w ∧
          pwalk (Popup.unique pid now ++ host) (childOkOf child) ps (l :: ls) w
            (Popup.pfinish pid now host child ((ls.flatMap (· ++ [LF]) ++ tail).foldl Popup.pfeedByte
              { s := (Popup.pexec r.s v a).1, cmd := [], out := r.out ++ (Popup.pexec r.s v a).2.1,
                act := (Popup.pexec r.s v a).2.2 })).fd3 = true := by
      intro s' o ps' e hex href hrel' hshape
      rw [hex]
      obtain ⟨w', hw1, hw2⟩ := ih { s := s', cmd := [], out := r.out ++ o, act := .cont } ps' tail rfl rfl hrel' hls ht
      refine ⟨o ++ w', by rw [hw1]; simp, ?_⟩
      rw [pwalk_cons _ _ ps ps' l (lower v) a e ls _ _ hp href]
      rcases hshape with ⟨he, ho⟩ | ⟨he, t, ho, hlf⟩
      · subst he; subst ho
        simp only [readLine_okLine, isOk_okSp []]
        simpa [isOk, okSp] using hw2
      · subst he; subst ho
        simp only [readLine_errLine t w' hlf, isErr_errSp]
        simpa using hw2
    by_cases h1 : lower v = vUser
    · by_cases ha0 : a = []
      · exact cont r.s (errLine "syntax error") ps .err (by simp [Popup.pexec, verbIs, h1, ha0])
          (by rw [h1]; simp [prefStep, vUser, ha0]) hrel (Or.inr ⟨rfl, _, rfl, noLF_syntax⟩)
      · exact cont { seenuser := true, username := a } okLine { user := some a } .ok
          (by simp [Popup.pexec, verbIs, h1, ha0]) (by rw [h1]; simp [prefStep, vUser, ha0])
          (Or.inr ⟨rfl, rfl⟩) (Or.inl ⟨rfl, rfl⟩)
    by_cases h2 : lower v = vPass
    · rcases hrel with ⟨hu, hs⟩ | ⟨hu, hs⟩
      · exact cont r.s (errLine "USER first") ps .err (by simp [Popup.pexec, verbIs, h2, hs, vUser, vPass])
          (by rw [h2]; simp [prefStep, vPass, hu]) (Or.inl ⟨hu, hs⟩) (Or.inr ⟨rfl, _, rfl, noLF_userfirst⟩)
      · by_cases ha0 : a = []
        · exact cont r.s (errLine "syntax error") ps .err (by simp [Popup.pexec, verbIs, h2, hs, ha0, vUser, vPass])
            (by rw [h2]; simp [prefStep, vPass, hu, ha0]) (Or.inr ⟨hu, hs⟩) (Or.inr ⟨rfl, _, rfl, noLF_syntax⟩)
        · -- the checker is started
          have hex : Popup.pexec r.s v a = (r.s, [], .auth ⟨r.s.username, a⟩) := by
            simp [Popup.pexec, verbIs, h2, hs, ha0, vUser, vPass]
          have href : prefStep (Popup.unique pid now ++ host) ps (lower v) a =
              (ps, .auth (r.s.username ++ [0] ++ a ++ [0] ++ [60] ++ (Popup.unique pid now ++ host) ++ [62, 0])) := by
            rw [h2]; simp [prefStep, vPass, hu, ha0]
          rw [hex, pfeed_auth _ _ ⟨r.s.username, a⟩ rfl, pfinish_auth pid now host child _ ⟨r.s.username, a⟩ rfl]
          refine ⟨childMsg child, by simp, ?_⟩
          rw [pwalk_cons _ _ ps ps l (lower v) a _ ls _ _ hp href]
          simp only [childMsg_ok, Bool.and_true]
          simp [Popup.fd3]
    by_cases h3 : lower v = vApop
    · have hsp := apop_split a
      cases hi : a.idxOf? SP with
      | none =>
        rw [hi] at hsp
        exact cont r.s (errLine "syntax error") ps .err
          (by
            unfold Popup.pexec
            simp only [verbIs, h3]
            rw [hsp]
            simp [vUser, vPass, vApop])
          (by rw [h3]; simp [prefStep, vApop, hi]) hrel (Or.inr ⟨rfl, _, rfl, noLF_syntax⟩)
      | some i =>
        rw [hi] at hsp
        have hex : Popup.pexec r.s v a = (r.s, [], .auth ⟨a.take i, a.drop (i + 1)⟩) := by
          unfold Popup.pexec
          simp only [verbIs, h3]
          rw [hsp.1, hsp.2]
          simp [vUser, vPass, vApop]
        have href : prefStep (Popup.unique pid now ++ host) ps (lower v) a =
            (ps, .auth (a.take i ++ [0] ++ a.drop (i + 1) ++ [0] ++ [60] ++ (Popup.unique pid now ++ host) ++ [62, 0])) := by
          rw [h3]; simp [prefStep, vApop, hi]
        rw [hex, pfeed_auth _ _ ⟨a.take i, a.drop (i + 1)⟩ rfl, pfinish_auth pid now host child _ ⟨a.take i, a.drop (i + 1)⟩ rfl]
        refine ⟨childMsg child, by simp, ?_⟩
        rw [pwalk_cons _ _ ps ps l (lower v) a _ ls _ _ hp href]
        simp only [childMsg_ok, Bool.and_true]
        simp [Popup.fd3]
    by_cases h4 : lower v = vQuit
    · have hex : Popup.pexec r.s v a = (r.s, okLine, .exit 1) := by
        simp [Popup.pexec, verbIs, h4, vUser, vPass, vApop, vQuit]
      have href : prefStep (Popup.unique pid now ++ host) ps (lower v) a = (ps, .quit) := by
        rw [h4]; simp [prefStep, vQuit]
      rw [hex, pfeed_exit _ _ 1 rfl]
      refine ⟨okLine, by simp [Popup.pfinish], ?_⟩
      rw [pwalk_cons _ _ ps ps l (lower v) a _ ls _ _ hp href]
      have := readLine_okLine []
      simp only [List.append_nil] at this
      simp [this, isOk, okSp, Popup.pfinish]
    by_cases h5 : lower v = vNoop
    · exact cont r.s okLine ps .ok (by simp [Popup.pexec, verbIs, h5, vUser, vPass, vApop, vQuit, vNoop])
        (by rw [h5]; simp [prefStep, vNoop]) hrel (Or.inl ⟨rfl, rfl⟩)
    · exact cont r.s (errLine "authorization first") ps .err (by simp [Popup.pexec, verbIs, h1, h2, h3, h4, h5])
        (by
          simp only [vUser, vPass, vApop, vQuit, vNoop] at h1 h2 h3 h4 h5
          simp [prefStep, h1, h2, h3, h4, h5]) hrel (Or.inr ⟨rfl, _, rfl, noLF_authfirst⟩)

theorem unique_noLF (pid now : Nat) : LF ∉ Popup.unique pid now := by
  unfold Popup.unique
  exact mem_app_noLF _ _ (mem_app_noLF _ _ (mem_app_noLF _ _ (fmtNat_noLF pid) (by decide)) (fmtNat_noLF now)) (by decide)

/-- **Every dialogue of qmail-popup is accepted by the pre-authentication reference.** -/
theorem popup_ok (pid now : Nat) (host : Bytes) (child : Popup.Child) (lines : List Bytes) (tail : Bytes)
    (hh : LF ∉ host) (hl : ∀ l ∈ lines, ∀ c ∈ l, c ≠ NUL ∧ c ≠ LF) (ht : LF ∉ tail) :
    popupOk host lines (childOkOf child)
      (Popup.pmain pid now host child (lines.flatMap (· ++ [LF]) ++ tail)).out
      (Popup.pmain pid now host child (lines.flatMap (· ++ [LF]) ++ tail)).fd3 = true := by
  obtain ⟨w, hw1, hw2⟩ := pwalk_sim pid now host child lines { out := Popup.greeting pid now host } {} tail rfl rfl
    (Or.inl ⟨rfl, rfl⟩) hl ht
  unfold Popup.pmain
  rw [hw1]
  generalize (Popup.pfinish pid now host child _).fd3 = fd3 at hw2 ⊢
  have hg : Popup.greeting pid now host ++ w =
      (okSp ++ ([60] ++ (Popup.unique pid now ++ host) ++ [62])) ++ CR :: LF :: w := by
    simp [Popup.greeting]
  have hlf : LF ∉ okSp ++ ([60] ++ (Popup.unique pid now ++ host) ++ [62]) :=
    mem_app_noLF _ _ (by decide) (mem_app_noLF _ _ (mem_app_noLF _ _ (by decide)
      (mem_app_noLF _ _ (unique_noLF pid now) hh)) (by decide))
  unfold popupOk
  show (match readLine (Popup.greeting pid now host ++ w) with
    | none => false
    | some (g, w) => _) = true
  rw [hg, readLine_line _ w hlf]
  have e1 : (okSp ++ ([60] ++ (Popup.unique pid now ++ host) ++ [62])).take 5 = [43, 79, 75, 32, 60] := by simp [okSp]
  have e2 : (okSp ++ ([60] ++ (Popup.unique pid now ++ host) ++ [62])).getLast? = some 62 := by
    have : okSp ++ ([60] ++ (Popup.unique pid now ++ host) ++ [62]) = (okSp ++ ([60] ++ (Popup.unique pid now ++ host))) ++ [62] := by
      simp
    rw [this, List.getLast?_concat]
  have e3 : ((okSp ++ ([60] ++ (Popup.unique pid now ++ host) ++ [62])).drop 5).dropLast = Popup.unique pid now ++ host := by
    have : (okSp ++ ([60] ++ (Popup.unique pid now ++ host) ++ [62])).drop 5 = (Popup.unique pid now ++ host) ++ [62] := by
      simp [okSp]
    rw [this, List.dropLast_concat]
  have e4 : (Popup.unique pid now ++ host).drop ((Popup.unique pid now ++ host).length - host.length) = host := by
    rw [List.length_append, Nat.add_sub_cancel]
    exact List.drop_left
  have e5 : (Popup.unique pid now ++ host).contains AT = true := by
    simp [Popup.unique]
  simp only [isOk_okSp, e1, e2, e3, e4, e5, hw2]
  simp

end Nq.Lemmas.Pop3
