import Nq.Spawn
import Nq.Spec.TrustBoundary
