/-
  Lemmas about the spawn.c model (`Nq.Spawn`): the generated report texts, the case analysis of
  `docmd`, the message-id check, the report/slot balance.
-/
import Nq.Spawn
import Nq.Spec.TrustBoundary

namespace Nq.Lemmas.SpawnL
open Nq Nq.Spawn Nq.Spec.TB Nq.Gen.SpawnTexts

/-- a report body: a status letter followed by NUL-free text -/
def textOK (t : Bytes) : Bool := (match t with | l :: _ => isLetter l | [] => false) && !t.contains 0

/-- every fixed text of spawn.c / qmail-lspawn.c / qmail-rspawn.c (as extracted from the current
sources) starts with K, Z or D and contains no NUL -/
theorem texts_ok :
    ([E_TOOBIG, E_INUSE, E_NONNUM, E_TOOLONG, E_TOOSHORT, E_NOHOST, E_OPEN, E_FSTAT, E_TYPE, E_OWNER, E_PIPE, E_FORK,
      L_CRASHED, R_CRASHED, R_SOFT, R_HARD, R_NOOUTPUT].all textOK &&
     lspawnTexts.all (fun p => textOK p.2) && lspawnLetters.all (fun p => isLetter p.2) && isLetter lspawnDefault) = true := by
  decide

/-- the refusals for a file that is not a regular file of the queue user are temporary (`Z`) -/
theorem guard_texts_Z : E_TYPE.head? = some 90 ∧ E_OWNER.head? = some 90 := by decide

/-- the validation cascade of `docmd()` up to (not including) `open_read` -/
def Checks (st : St) : Prop :=
  st.delnum < Nq.Gen.auto_spawn ∧ slotUsed st.slots st.delnum = false ∧ badChars true st.messid = false ∧
  st.messid.length ≤ MESSID_MAX ∧ st.messid.head? ≠ some 0

def popPlan (st : St) : St := { st with plan := st.plan.tail }

/-- complete case analysis of `docmd()` -/
theorem docmd_cases (st : St) :
    (∃ t, t ∈ [E_TOOBIG, E_INUSE, E_NONNUM, E_TOOLONG, E_TOOSHORT, E_NOHOST] ∧ docmd st = (st, [.report st.delnum t])) ∨
    (Checks st ∧ ∃ j, rchrAt st.recip 0 none = some j ∧
      ((∃ t, docmd st = (popPlan st, [.openRead st.messid.dropLast, .report st.delnum t]) ∧
          ((st.plan.headD 0 = 1 ∧ t = E_OPEN) ∨ (st.plan.headD 0 = 2 ∧ t = E_FSTAT) ∨
           ((st.plan.headD 0 = 3 ∨ st.plan.headD 0 = 7 ∨ st.plan.headD 0 = 8) ∧ t = E_TYPE) ∨
           (st.plan.headD 0 = 4 ∧ t = E_OWNER) ∨ (st.plan.headD 0 = 5 ∧ t = E_PIPE))) ∨
       (st.plan.headD 0 = 6 ∧ docmd st = (popPlan st, [.openRead st.messid.dropLast,
          .spawnCall st.delnum st.sender.dropLast st.recip.dropLast j, .report st.delnum E_FORK])) ∨
       ((st.plan.headD 0 = 0 ∨ st.plan.headD 0 > 8) ∧
        docmd st = ({ popPlan st with slots := st.slots.set st.delnum (some []) },
          [.openRead st.messid.dropLast, .spawnCall st.delnum st.sender.dropLast st.recip.dropLast j])))) := by
  unfold docmd
  by_cases h1 : st.delnum ≥ Nq.Gen.auto_spawn
  · left; exact ⟨E_TOOBIG, by simp, by simp (config := {decide := true}) only [Bool.false_eq_true, if_false, if_true, h1, if_true]⟩
  by_cases h2 : slotUsed st.slots st.delnum = true
  · left; exact ⟨E_INUSE, by simp, by simp (config := {decide := true}) only [Bool.false_eq_true, if_false, if_true, h1, h2, if_true, if_false]⟩
  by_cases h3 : badChars true st.messid = true
  · left; exact ⟨E_NONNUM, by simp, by simp (config := {decide := true}) only [Bool.false_eq_true, if_false, if_true, h1, h2, h3, if_true, if_false]⟩
  by_cases h4 : st.messid.length > MESSID_MAX
  · left; exact ⟨E_TOOLONG, by simp, by simp (config := {decide := true}) only [Bool.false_eq_true, if_false, if_true, h1, h2, h3, h4, if_true, if_false]⟩
  by_cases h5 : st.messid.head? = some 0
  · left; exact ⟨E_TOOSHORT, by simp, by simp (config := {decide := true}) only [Bool.false_eq_true, if_false, if_true, h1, h2, h3, h4, h5, if_true, if_false]⟩
  simp only [h1, h2, h3, h4, h5, if_false]
  cases hj : rchrAt st.recip 0 none with
  | none => left; exact ⟨E_NOHOST, by simp, rfl⟩
  | some j =>
    right
    refine ⟨⟨by omega, by simpa using h2, by simpa using h3, by omega, h5⟩, j, rfl, ?_⟩
    simp only [popPlan]
    by_cases p1 : st.plan.headD 0 = 1
    · left; exact ⟨E_OPEN, by simp (config := {decide := true}) only [Bool.false_eq_true, if_false, if_true, p1, if_true], Or.inl ⟨p1, rfl⟩⟩
    by_cases p2 : st.plan.headD 0 = 2
    · left; exact ⟨E_FSTAT, by simp (config := {decide := true}) only [Bool.false_eq_true, if_false, if_true, p1, p2, if_true, if_false], Or.inr (Or.inl ⟨p2, rfl⟩)⟩
    by_cases p3 : st.plan.headD 0 = 3 ∨ st.plan.headD 0 = 7 ∨ st.plan.headD 0 = 8
    · left; exact ⟨E_TYPE, by simp (config := {decide := true}) only [Bool.false_eq_true, if_false, if_true, p1, p2, p3, if_true, if_false], Or.inr (Or.inr (Or.inl ⟨p3, rfl⟩))⟩
    by_cases p4 : st.plan.headD 0 = 4
    · left; exact ⟨E_OWNER, by simp (config := {decide := true}) only [Bool.false_eq_true, if_false, if_true, p1, p2, p3, p4, if_true, if_false], Or.inr (Or.inr (Or.inr (Or.inl ⟨p4, rfl⟩)))⟩
    by_cases p5 : st.plan.headD 0 = 5
    · left; exact ⟨E_PIPE, by simp (config := {decide := true}) only [Bool.false_eq_true, if_false, if_true, p1, p2, p3, p4, p5, if_true, if_false], Or.inr (Or.inr (Or.inr (Or.inr ⟨p5, rfl⟩)))⟩
    by_cases p6 : st.plan.headD 0 = 6
    · right; left; exact ⟨p6, by simp (config := {decide := true}) only [Bool.false_eq_true, if_false, if_true, p1, p2, p3, p4, p5, p6, if_true, if_false]⟩
    · right; right
      refine ⟨by omega, by simp (config := {decide := true}) only [Bool.false_eq_true, if_false, if_true, p1, p2, p3, p4, p5, p6, if_false]⟩

/-! ### the message-id check -/

theorem badChars_ok (first : Bool) (m : Bytes) (h0 : ∀ c ∈ m, c ≠ 0) (h : badChars first (m ++ [0]) = false) :
    (∀ c ∈ m, isDigit c = true ∨ c = 47) ∧ (first = true → ∀ c, m.head? = some c → isDigit c = true) := by
  induction m generalizing first with
  | nil => simp
  | cons c r ih =>
    have hc : c ≠ 0 := h0 c (by simp)
    simp only [List.cons_append, badChars, Bool.or_eq_false_iff, Bool.and_eq_false_iff] at h
    obtain ⟨ha, hb⟩ := h
    obtain ⟨i1, _⟩ := ih false (fun x hx => h0 x (by simp [hx])) hb
    have hcne : (c != 0) = true := by simpa using hc
    constructor
    · intro x hx
      rcases List.mem_cons.mp hx with hx | hx
      · subst hx
        rcases ha with (ha | ha) | ha
        · rw [hcne] at ha; cases ha
        · by_cases h47 : x = 47
          · exact Or.inr h47
          · have : (x != 47) = true := by simpa using h47
            simp [this] at ha
        · left; simpa using ha
      · exact i1 x hx
    · intro hf x hx
      simp only [List.head?_cons, Option.some.injEq] at hx
      subst hx
      rcases ha with (ha | ha) | ha
      · rw [hcne] at ha; cases ha
      · simp [hf] at ha
      · simpa using ha

/-- a message id that passed `docmd`'s checks is a well-formed relative queue file name -/
theorem okPath_of_checks (m : Bytes) (h0 : ∀ c ∈ m, c ≠ 0) (h1 : badChars true (m ++ [0]) = false)
    (h2 : (m ++ [0]).length ≤ MESSID_MAX) (h3 : (m ++ [0]).head? ≠ some 0) : okPath m = true := by
  obtain ⟨a, b⟩ := badChars_ok true m h0 h1
  cases m with
  | nil => simp at h3
  | cons c r =>
    have hd : isDigit c = true := b rfl c rfl
    have hlen : (c :: r).length ≤ 99 := by
      have : MESSID_MAX = 100 := by decide
      simp only [List.length_append, List.length_cons, List.length_nil] at h2 ⊢
      omega
    unfold okPath
    simp only [List.isEmpty_cons, Bool.not_false, Bool.true_and, hd, Bool.and_true, Bool.and_eq_true,
      decide_eq_true_eq, List.all_eq_true]
    refine ⟨hlen, ?_⟩
    intro x hx
    rcases a x hx with h | h
    · simp [h]
    · simp [h]

/-! ### reports and slots -/

def nReports (evs : List Ev) : Nat := (reportsOf evs).length

theorem usedCount_set_some (slots : List (Option Bytes)) (i : Nat) (x : Bytes)
    (h : slotUsed slots i = false) (hi : i < slots.length) :
    ((slots.set i (some x)).filter Option.isSome).length = (slots.filter Option.isSome).length + 1 := by
  induction slots generalizing i with
  | nil => simp at hi
  | cons a r ih =>
    cases i with
    | zero =>
      simp only [slotUsed, List.getD_cons_zero] at h
      cases a with
      | none => simp
      | some v => simp at h
    | succ i =>
      simp only [slotUsed, List.getD_cons_succ] at h
      simp only [List.set_cons_succ, List.length_cons] at hi ⊢
      have := ih i h (by omega)
      cases a <;> simp [List.filter_cons, this]

theorem usedCount_set_none (slots : List (Option Bytes)) (i : Nat) (out : Bytes)
    (h : slots.getD i none = some out) :
    ((slots.set i none).filter Option.isSome).length + 1 = (slots.filter Option.isSome).length := by
  induction slots generalizing i with
  | nil => simp at h
  | cons a r ih =>
    cases i with
    | zero =>
      simp only [List.getD_cons_zero] at h
      subst h; simp
    | succ i =>
      simp only [List.getD_cons_succ] at h
      have := ih i h
      cases a <;> simp [List.filter_cons] <;> omega

theorem usedCount_set_same (slots : List (Option Bytes)) (i : Nat) (out x : Bytes)
    (h : slots.getD i none = some out) :
    ((slots.set i (some x)).filter Option.isSome).length = (slots.filter Option.isSome).length := by
  induction slots generalizing i with
  | nil => simp at h
  | cons a r ih =>
    cases i with
    | zero =>
      simp only [List.getD_cons_zero] at h
      subst h; simp
    | succ i =>
      simp only [List.getD_cons_succ] at h
      have := ih i h
      cases a <;> simp [List.filter_cons, this]

/-- per-command balance of `docmd` (statement: `Props.C18_spawn_one_cmd`) -/
theorem docmd_balance (st : St) (hl : st.slots.length = Nq.Gen.auto_spawn) :
    nReports (docmd st).2 + usedCount (docmd st).1 = usedCount st + 1 ∧
    (∀ d b, Ev.report d b ∈ (docmd st).2 → d = st.delnum ∧ textOK b = true) ∧
    (docmd st).1.slots.length = st.slots.length := by
  have tk := texts_ok
  simp only [List.all_cons, List.all_nil, Bool.and_true, Bool.and_eq_true] at tk
  obtain ⟨⟨⟨⟨t1, t2, t3, t4, t5, t6, t7, t8, t9, t10, t11, t12, _⟩, _⟩, _⟩, _⟩ := tk
  rcases docmd_cases st with ⟨t, ht, h1⟩ | ⟨hc, j, _, h1⟩
  · rw [h1]
    refine ⟨by simp [nReports, reportsOf]; omega, ?_, rfl⟩
    intro d b hb
    simp only [List.mem_singleton, Ev.report.injEq] at hb
    obtain ⟨hd, hb⟩ := hb
    subst hd hb
    simp only [List.mem_cons, List.not_mem_nil, or_false] at ht
    rcases ht with h | h | h | h | h | h <;> subst h <;> exact ⟨rfl, by assumption⟩
  · rcases h1 with ⟨t, h1, ht⟩ | ⟨_, h1⟩ | ⟨_, h1⟩
    · rw [h1]
      refine ⟨by simp [nReports, reportsOf, usedCount, popPlan]; omega, ?_, rfl⟩
      intro d b hb
      simp only [List.mem_cons, List.mem_singleton, Ev.report.injEq, List.not_mem_nil, or_false, reduceCtorEq, false_or] at hb
      obtain ⟨hd, hb⟩ := hb
      subst hd hb
      rcases ht with ⟨_, h⟩ | ⟨_, h⟩ | ⟨_, h⟩ | ⟨_, h⟩ | ⟨_, h⟩ <;> subst h <;> exact ⟨rfl, by assumption⟩
    · rw [h1]
      refine ⟨by simp [nReports, reportsOf, usedCount, popPlan]; omega, ?_, rfl⟩
      intro d b hb
      simp only [List.mem_cons, List.mem_singleton, Ev.report.injEq, List.not_mem_nil, or_false, reduceCtorEq, false_or] at hb
      obtain ⟨hd, hb⟩ := hb
      subst hd hb
      exact ⟨rfl, t12⟩
    · rw [h1]
      refine ⟨?_, by simp, by simp [popPlan]⟩
      have := usedCount_set_some st.slots st.delnum [] hc.2.1 (by rw [hl]; exact hc.1)
      simp [nReports, reportsOf, usedCount, popPlan, this]

/-! ### `report()`: the body is a fixed text, or a letter followed by pieces of the child's output -/

/-- the texts `report()` can print that do not come from the child -/
def fixedTexts : List Bytes := [L_CRASHED, R_CRASHED, R_SOFT, R_HARD, R_NOOUTPUT] ++ lspawnTexts.map (·.2)

theorem fixedTexts_ok : fixedTexts.all textOK = true := by decide

theorem lookup_mem {β : Type} (k : Nat) (l : List (Nat × β)) (v : β) (h : l.lookup k = some v) : (k, v) ∈ l := by
  induction l with
  | nil => simp [List.lookup] at h
  | cons p r ih =>
    obtain ⟨a, b⟩ := p
    by_cases hk : k = a
    · subst hk; simp [List.lookup] at h; subst h; simp
    · have : (k == a) = false := by simpa using hk
      simp only [List.lookup, this] at h
      exact List.mem_cons_of_mem _ (ih h)

theorem cstr_nul (s : Bytes) : ∀ c ∈ cstr s, c ≠ 0 := by
  induction s with
  | nil => simp [cstr]
  | cons x r ih =>
    intro c hc
    unfold cstr at hc ih
    rw [List.takeWhile_cons] at hc
    by_cases hx : (x != 0) = true
    · simp only [hx, if_true, List.mem_cons] at hc
      rcases hc with h | h
      · subst h; simpa using hx
      · exact ih c h
    · simp [hx] at hc

theorem cstr_prefix (s : Bytes) : cstr s <+: s := List.takeWhile_prefix _

/-- a report body that is not one of the fixed texts -/
def FromChild (body out : Bytes) : Prop :=
  ∃ l a b, isLetter l = true ∧ body = [l] ++ a ++ b ∧ a <:+: out ∧ b <:+: out ∧ (∀ c ∈ a, c ≠ 0) ∧ (∀ c ∈ b, c ≠ 0)

theorem nil_infix (out : Bytes) : ([] : Bytes) <:+: out := ⟨[], out, by simp⟩

theorem lreport_shape (wstat : Nat) (out : Bytes) : lreport wstat out ∈ fixedTexts ∨ FromChild (lreport wstat out) out := by
  unfold lreport
  by_cases h1 : wstat % 128 ≠ 0
  · left; rw [if_pos h1]; decide
  · rw [if_neg h1]
    cases h2 : lspawnTexts.lookup (wstat / 256) with
    | some t =>
      left
      have := lookup_mem _ _ _ h2
      simp only [fixedTexts, List.mem_append, List.mem_map]
      exact Or.inr ⟨_, this, rfl⟩
    | none =>
      right
      refine ⟨(lspawnLetters.lookup (wstat / 256)).getD lspawnDefault, cstr out, [], ?_, by simp, (cstr_prefix out).isInfix,
        nil_infix out, cstr_nul out, by simp⟩
      have tk := texts_ok
      simp only [Bool.and_eq_true, List.all_eq_true] at tk
      cases h3 : lspawnLetters.lookup (wstat / 256) with
      | none => exact tk.2
      | some l => exact tk.1.2 _ (lookup_mem _ _ _ h3)

theorem rsLetter_letter (o : Int) : isLetter (rsLetter o) = true := by
  unfold rsLetter
  by_cases h1 : o = 1
  · rw [if_pos h1]; decide
  · rw [if_neg h1]
    by_cases h0 : o = 0
    · rw [if_pos h0]; decide
    · rw [if_neg h0]; decide

theorem rsText_shape (s : Bytes) (more : Bool) :
    (rsText s more).1 <:+: s ∧ (rsText s more).2 <:+: s ∧ (∀ c ∈ (rsText s more).1, c ≠ 0) ∧ (∀ c ∈ (rsText s more).2, c ≠ 0) := by
  have hsuf : s.drop 1 <:+ s := List.drop_suffix 1 s
  have ha : cstr (s.drop 1) <:+: s := (cstr_prefix _).isInfix.trans hsuf.isInfix
  unfold rsText
  simp only []
  split
  · by_cases h5 : (cstr (s.drop 1)).length = (s.drop 1).length
    · rw [if_pos h5]; exact ⟨nil_infix s, nil_infix s, by simp, by simp⟩
    · rw [if_neg h5]; exact ⟨ha, nil_infix s, cstr_nul _, by simp⟩
  · rename_i c v hd
    have hv : v <:+ s := by
      have h1 : c :: v <:+ s.drop 1 := by rw [← hd]; exact List.drop_suffix _ _
      exact ((List.suffix_cons c v).trans h1).trans hsuf
    by_cases hm : more = true ∧ (c = 90 ∨ c = 68 ∨ c = 75)
    · rw [if_pos hm]; exact ⟨ha, (cstr_prefix v).isInfix.trans hv.isInfix, cstr_nul _, cstr_nul _⟩
    · rw [if_neg hm]; exact ⟨ha, nil_infix s, cstr_nul _, by simp⟩

theorem rreport_shape (wstat : Nat) (out : Bytes) : rreport wstat out ∈ fixedTexts ∨ FromChild (rreport wstat out) out := by
  unfold rreport
  by_cases h1 : wstat % 128 ≠ 0
  · left; rw [if_pos h1]; decide
  rw [if_neg h1]
  by_cases h2 : wstat / 256 = R_SOFTCODE
  · left; rw [if_pos h2]; decide
  rw [if_neg h2]
  by_cases h3 : wstat / 256 ≠ 0
  · left; rw [if_pos h3]; decide
  rw [if_neg h3]
  by_cases h4 : out = []
  · left; rw [if_pos h4]; decide
  rw [if_neg h4]
  right
  obtain ⟨t1, t2, t3, t4⟩ := rsText_shape out (decide (rsResult none out ≤ rsOrr out))
  exact ⟨_, _, _, rsLetter_letter _, rfl, t1, t2, t3, t4⟩

theorem reportBody_shape (k : Kind) (wstat : Nat) (out : Bytes) :
    reportBody k wstat out ∈ fixedTexts ∨ FromChild (reportBody k wstat out) out := by
  cases k
  · exact lreport_shape wstat out
  · exact rreport_shape wstat out

theorem reportBody_textOK (k : Kind) (wstat : Nat) (out : Bytes) : textOK (reportBody k wstat out) = true := by
  rcases reportBody_shape k wstat out with h | ⟨l, a, b, hl, hb, _, _, ha0, hb0⟩
  · exact List.all_eq_true.mp fixedTexts_ok _ h
  · rw [hb]
    have hl0 : l ≠ 0 := by
      intro h0; rw [h0] at hl; simp [isLetter] at hl
    have hmem : ¬ (0 ∈ [l] ++ a ++ b) := by
      intro h
      simp only [List.mem_append, List.mem_singleton] at h
      rcases h with (h | h) | h
      · exact hl0 h.symm
      · exact ha0 0 h rfl
      · exact hb0 0 h rfl
    have hc : ([l] ++ a ++ b).contains 0 = false := by
      cases hcc : ([l] ++ a ++ b).contains 0 with
      | false => rfl
      | true => exact absurd (by simpa using hcc) hmem
    simp only [textOK, hc, Bool.not_false, Bool.and_true]
    simpa using hl

/-! ### the whole session: reports written + children running = commands completed -/

/-- the framing automaton of `getcmd()` alone: next stage, and whether this byte completes a command -/
def stageStep : Stage → Byte → Stage × Bool
  | .delnum, _ => (.messid, false)
  | .messid, c => if c = 0 then (.sender, false) else (.messid, false)
  | .sender, c => if c = 0 then (.recip, false) else (.sender, false)
  | .recip, c => if c = 0 then (.delnum, true) else (.recip, false)

def stageAfter : Stage → Bytes → Stage
  | s, [] => s
  | s, c :: r => stageAfter (stageStep s c).1 r

/-- number of commands completed by a byte string read from stage `s`: a command is one byte followed
by three NUL-terminated fields -/
def countCmds : Stage → Bytes → Nat
  | _, [] => 0
  | s, c :: r => (if (stageStep s c).2 then 1 else 0) + countCmds (stageStep s c).1 r

theorem countCmds_append (s : Stage) (a b : Bytes) :
    countCmds s (a ++ b) = countCmds s a + countCmds (stageAfter s a) b := by
  induction a generalizing s with
  | nil => simp [countCmds, stageAfter]
  | cons c r ih => simp only [List.cons_append, countCmds, stageAfter, ih]; omega

theorem stageAfter_append (s : Stage) (a b : Bytes) : stageAfter s (a ++ b) = stageAfter (stageAfter s a) b := by
  induction a generalizing s with
  | nil => rfl
  | cons c r ih => simp only [List.cons_append, stageAfter, ih]

theorem count_messid (m tail : Bytes) (h0 : ∀ c ∈ m, c ≠ 0) :
    countCmds .messid (m ++ 0 :: tail) = countCmds .sender tail := by
  induction m with
  | nil => simp [countCmds, stageStep]
  | cons c r ih =>
    have hc : c ≠ 0 := h0 c (by simp)
    simp [countCmds, stageStep, hc, ih (fun x hx => h0 x (by simp [hx]))]

theorem count_sender (m tail : Bytes) (h0 : ∀ c ∈ m, c ≠ 0) :
    countCmds .sender (m ++ 0 :: tail) = countCmds .recip tail := by
  induction m with
  | nil => simp [countCmds, stageStep]
  | cons c r ih =>
    have hc : c ≠ 0 := h0 c (by simp)
    simp [countCmds, stageStep, hc, ih (fun x hx => h0 x (by simp [hx]))]

theorem count_recip (m tail : Bytes) (h0 : ∀ c ∈ m, c ≠ 0) :
    countCmds .recip (m ++ 0 :: tail) = 1 + countCmds .delnum tail := by
  induction m with
  | nil => simp [countCmds, stageStep]
  | cons c r ih =>
    have hc : c ≠ 0 := h0 c (by simp)
    simp [countCmds, stageStep, hc, ih (fun x hx => h0 x (by simp [hx]))]

/-- **the grammar**: one byte, then three NUL-free fields each ended by NUL, is exactly one command,
and the reader is back at the start of a command -/
theorem count_command (d : Byte) (m sd rc : Bytes) (hm : ∀ c ∈ m, c ≠ 0) (hs : ∀ c ∈ sd, c ≠ 0) (hr : ∀ c ∈ rc, c ≠ 0)
    (rest : Bytes) :
    countCmds .delnum (d :: (m ++ 0 :: (sd ++ 0 :: (rc ++ 0 :: rest)))) = 1 + countCmds .delnum rest := by
  simp only [countCmds, stageStep]
  rw [count_messid m _ hm, count_sender sd _ hs, count_recip rc _ hr]
  simp

theorem reportsOf_append (a b : List Ev) : reportsOf (a ++ b) = reportsOf a ++ reportsOf b := by
  induction a with
  | nil => rfl
  | cons e a ih => cases e <;> simp [reportsOf, ih]

theorem nReports_append (a b : List Ev) : nReports (a ++ b) = nReports a + nReports b := by
  simp [nReports, reportsOf_append]

/-- session invariant -/
def SInv (st : St) : Prop := st.slots.length = Nq.Gen.auto_spawn

theorem cstep_balance (st : St) (ch : Byte) (hi : SInv st) :
    nReports (cstep st ch).2 + usedCount (cstep st ch).1 = usedCount st + (if (stageStep st.stage ch).2 then 1 else 0) ∧
    (cstep st ch).1.stage = (stageStep st.stage ch).1 ∧ SInv (cstep st ch).1 ∧ (cstep st ch).1.reading = st.reading := by
  unfold cstep
  cases hst : st.stage with
  | delnum => simp [stageStep, nReports, reportsOf, usedCount, SInv]; exact hi
  | messid =>
    by_cases hc : ch = 0 <;> simp [hc, stageStep, nReports, reportsOf, usedCount, SInv] <;> exact hi
  | sender =>
    by_cases hc : ch = 0 <;> simp [hc, stageStep, nReports, reportsOf, usedCount, SInv] <;> exact hi
  | recip =>
    by_cases hc : ch = 0
    · subst hc
      have hb := docmd_balance { st with recip := st.recip ++ [0] } hi
      have hr : (docmd { st with recip := st.recip ++ [0] }).1.reading = st.reading := by
        rcases docmd_cases { st with recip := st.recip ++ [0] } with ⟨t, _, h⟩ | ⟨_, j, _, h⟩
        · rw [h]
        · rcases h with ⟨t, h, _⟩ | ⟨_, h⟩ | ⟨_, h⟩ <;> rw [h] <;> rfl
      simp only [hst] at hb hr
      simp only [if_true, stageStep]
      refine ⟨?_, ?_, ?_, ?_⟩
      · simpa [usedCount] using hb.1
      · trivial
      · simp only [SInv]; rw [hb.2.2]; exact hi
      · exact hr
    · simp [hc, stageStep, nReports, reportsOf, usedCount, SInv]; exact hi

theorem cfeed_balance (st : St) (bytes : Bytes) (hi : SInv st) :
    nReports (cfeed st bytes).2 + usedCount (cfeed st bytes).1 = usedCount st + countCmds st.stage bytes ∧
    (cfeed st bytes).1.stage = stageAfter st.stage bytes ∧ SInv (cfeed st bytes).1 ∧ (cfeed st bytes).1.reading = st.reading := by
  induction bytes generalizing st with
  | nil => simp [cfeed, countCmds, stageAfter, nReports, reportsOf]; exact hi
  | cons c r ih =>
    obtain ⟨b1, b2, b3, b4⟩ := cstep_balance st c hi
    obtain ⟨i1, i2, i3, i4⟩ := ih (cstep st c).1 b3
    simp only [cfeed, countCmds, stageAfter, nReports_append]
    rw [b2] at i1 i2
    refine ⟨by omega, i2, i3, i4.trans b4⟩

/-! `inputOf` (the bytes that arrive on descriptor 0 before its EOF) is defined with the model, in `Nq.Spawn`. -/

theorem set_none_same (l : List (Option Bytes)) (i : Nat) (h : l.getD i none = none) : l.set i none = l := by
  induction l generalizing i with
  | nil => rfl
  | cons a r ih =>
    cases i with
    | zero => simp only [List.getD_cons_zero] at h; subst h; rfl
    | succ n => simp only [List.getD_cons_succ] at h; simp only [List.set_cons_succ, ih n h]

theorem childExit_balance (k : Kind) (st : St) (slot wstat : Nat) (hi : SInv st) :
    nReports (childExit k st slot wstat).2 + usedCount (childExit k st slot wstat).1 = usedCount st ∧
    (childExit k st slot wstat).1.stage = st.stage ∧ SInv (childExit k st slot wstat).1 ∧
    (childExit k st slot wstat).1.reading = st.reading ∧
    (childExit k st slot wstat).1.slots = st.slots.set slot none := by
  cases h : st.slots.getD slot none with
  | none =>
    have e : childExit k st slot wstat = (st, []) := by simp only [childExit, h]
    rw [e]
    exact ⟨by simp [nReports, reportsOf], rfl, hi, rfl, (set_none_same _ _ h).symm⟩
  | some out =>
    have e : childExit k st slot wstat =
        ({ st with slots := st.slots.set slot none }, [.report slot (reportBody k wstat out)]) := by
      simp only [childExit, h]
    rw [e]
    have := usedCount_set_none st.slots slot out h
    refine ⟨?_, rfl, ?_, rfl, rfl⟩
    · simp only [nReports, reportsOf, usedCount, List.length_cons, List.length_nil] at this ⊢
      omega
    · simp only [SInv, List.length_set]; exact hi

/-- `sigchld()` changes nothing but the bookkeeping of dead children: the slot stays in use -/
theorem reap_facts (st : St) (slot wstat : Nat) :
    (reap st slot wstat).slots = st.slots ∧ (reap st slot wstat).stage = st.stage ∧
    (reap st slot wstat).reading = st.reading ∧ (reap st slot wstat).plan = st.plan := by
  unfold reap
  cases st.slots.getD slot none with
  | none => exact ⟨rfl, rfl, rfl, rfl⟩
  | some out =>
    cases st.dead.getD slot none with
    | none => exact ⟨rfl, rfl, rfl, rfl⟩
    | some w => exact ⟨rfl, rfl, rfl, rfl⟩

/-- the three shapes of `pipeEof` -/
theorem pipeEof_cases (k : Kind) (st : St) (slot : Nat) :
    (pipeEof k st slot = (st, []) ∧ (st.slots.getD slot none = none ∨ st.dead.getD slot none = none)) ∨
    ∃ out ws, st.slots.getD slot none = some out ∧ st.dead.getD slot none = some ws ∧
      pipeEof k st slot = ({ st with slots := st.slots.set slot none, dead := st.dead.set slot none },
        [.report slot (reportBody k ws out)]) := by
  unfold pipeEof
  cases h1 : st.slots.getD slot none with
  | none => exact Or.inl ⟨rfl, Or.inl rfl⟩
  | some out =>
    cases h2 : st.dead.getD slot none with
    | none => exact Or.inl ⟨rfl, Or.inr rfl⟩
    | some ws => exact Or.inr ⟨out, ws, rfl, rfl, rfl⟩

/-- EOF on the pipe of a reaped child: one report, one slot released -/
theorem pipeEof_balance (k : Kind) (st : St) (slot : Nat) (hi : SInv st) :
    nReports (pipeEof k st slot).2 + usedCount (pipeEof k st slot).1 = usedCount st ∧
    (pipeEof k st slot).1.stage = st.stage ∧ SInv (pipeEof k st slot).1 ∧
    (pipeEof k st slot).1.reading = st.reading ∧ (pipeEof k st slot).1.plan = st.plan ∧
    ((st.dead.getD slot none).isSome = true → (pipeEof k st slot).1.slots = st.slots.set slot none) := by
  rcases pipeEof_cases k st slot with ⟨e, hn⟩ | ⟨out, ws, h1, h2, e⟩
  · rw [e]
    refine ⟨by simp [nReports, reportsOf], rfl, hi, rfl, rfl, ?_⟩
    intro hd
    rcases hn with hn | hn
    · exact (set_none_same _ _ hn).symm
    · rw [hn] at hd; cases hd
  · rw [e]
    have := usedCount_set_none st.slots slot out h1
    refine ⟨?_, rfl, ?_, rfl, rfl, fun _ => rfl⟩
    · simp only [nReports, reportsOf, usedCount, List.length_cons, List.length_nil] at this ⊢
      omega
    · simp only [SInv, List.length_set]; exact hi

/-- the events on the children's side (output, death in one or two steps, EOF on the pipe) -/
def childOp : Op → Bool
  | .cmd _ => false
  | .eof => false
  | _ => true

theorem inputOf_childOp (op : Op) (h : childOp op = true) : inputOf [op] = [] := by
  cases op <;> simp [childOp] at h <;> rfl

/-- a child-side event keeps  reports written + slots in use  and touches neither the command
reader nor the end-of-input flag -/
theorem childOp_balance (k : Kind) (st : St) (op : Op) (hi : SInv st) (hc : childOp op = true) :
    nReports (ostep k st op).2 + usedCount (ostep k st op).1 = usedCount st ∧
    (ostep k st op).1.stage = st.stage ∧ SInv (ostep k st op).1 ∧ (ostep k st op).1.reading = st.reading := by
  cases op with
  | cmd bytes => simp [childOp] at hc
  | eof => simp [childOp] at hc
  | out slot bytes =>
    cases h : st.slots.getD slot none with
    | none =>
      have e : ostep k st (.out slot bytes) = (st, []) := by simp only [ostep, h]
      rw [e]; exact ⟨by simp [nReports, reportsOf], rfl, hi, rfl⟩
    | some out =>
      have e : ostep k st (.out slot bytes) =
          ({ st with slots := st.slots.set slot (some (accumulate k out bytes)) }, []) := by simp only [ostep, h]
      rw [e]
      have := usedCount_set_same st.slots slot out (accumulate k out bytes) h
      refine ⟨?_, rfl, ?_, rfl⟩
      · simp only [nReports, reportsOf, usedCount, List.length_nil, Nat.zero_add]; exact this
      · simp only [SInv, List.length_set]; exact hi
  | exit slot wstat =>
    by_cases hd : (st.dead.getD slot none).isSome = true
    · have e : ostep k st (.exit slot wstat) = (st, []) := by simp only [ostep, hd, if_true]
      rw [e]; exact ⟨by simp [nReports, reportsOf], rfl, hi, rfl⟩
    · have e : ostep k st (.exit slot wstat) = childExit k st slot wstat := by
        simp only [ostep, hd, Bool.false_eq_true, if_false]
      rw [e]
      obtain ⟨c1, c2, c3, c4, _⟩ := childExit_balance k st slot wstat hi
      exact ⟨c1, c2, c3, c4⟩
  | reap slot wstat =>
    obtain ⟨r1, r2, r3, _⟩ := reap_facts st slot wstat
    have e : ostep k st (.reap slot wstat) = (reap st slot wstat, []) := rfl
    rw [e]
    refine ⟨?_, r2, ?_, r3⟩
    · simp only [nReports, reportsOf, usedCount, List.length_nil, Nat.zero_add, r1]
    · simp only [SInv, r1]; exact hi
  | peof slot =>
    obtain ⟨p1, p2, p3, p4, _, _⟩ := pipeEof_balance k st slot hi
    exact ⟨p1, p2, p3, p4⟩
  | cclose slot =>
    have e : ostep k st (.cclose slot) = (st, []) := rfl
    rw [e]; exact ⟨by simp [nReports, reportsOf], rfl, hi, rfl⟩

theorem ostep_balance (k : Kind) (st : St) (op : Op) (hi : SInv st) (hr : st.reading = true) (hne : op ≠ .eof) :
    nReports (ostep k st op).2 + usedCount (ostep k st op).1 = usedCount st + countCmds st.stage (inputOf [op]) ∧
    (ostep k st op).1.stage = stageAfter st.stage (inputOf [op]) ∧ SInv (ostep k st op).1 ∧ (ostep k st op).1.reading = true := by
  by_cases hc : childOp op = true
  · obtain ⟨c1, c2, c3, c4⟩ := childOp_balance k st op hi hc
    rw [inputOf_childOp op hc]
    simp only [countCmds, stageAfter, Nat.add_zero]
    exact ⟨c1, c2, c3, c4.trans hr⟩
  · cases op with
    | cmd bytes =>
      obtain ⟨c1, c2, c3, c4⟩ := cfeed_balance st bytes hi
      simp only [ostep, hr, if_true, inputOf, List.append_nil]
      exact ⟨c1, c2, c3, c4.trans hr⟩
    | eof => exact absurd rfl hne
    | out slot bytes => simp [childOp] at hc
    | exit slot wstat => simp [childOp] at hc
    | reap slot wstat => simp [childOp] at hc
    | peof slot => simp [childOp] at hc
    | cclose slot => simp [childOp] at hc

/-- after the end of input: commands are no longer read, every event keeps the balance -/
theorem ostep_closed (k : Kind) (st : St) (op : Op) (hi : SInv st) (hr : st.reading = false) :
    nReports (ostep k st op).2 + usedCount (ostep k st op).1 = usedCount st ∧
    SInv (ostep k st op).1 ∧ (ostep k st op).1.reading = false := by
  by_cases hc : childOp op = true
  · obtain ⟨c1, _, c3, c4⟩ := childOp_balance k st op hi hc
    exact ⟨c1, c3, c4.trans hr⟩
  · cases op with
    | cmd bytes =>
      have e : ostep k st (.cmd bytes) = (st, []) := by simp only [ostep, hr, Bool.false_eq_true, if_false]
      rw [e]; exact ⟨by simp [nReports, reportsOf], hi, hr⟩
    | eof =>
      have e : ostep k st .eof = (stopReading st, []) := rfl
      rw [e]; exact ⟨by simp [nReports, reportsOf, usedCount, stopReading], hi, rfl⟩
    | out slot bytes => simp [childOp] at hc
    | exit slot wstat => simp [childOp] at hc
    | reap slot wstat => simp [childOp] at hc
    | peof slot => simp [childOp] at hc
    | cclose slot => simp [childOp] at hc

theorem inputOf_cons (op : Op) (r : List Op) (hne : op ≠ .eof) : inputOf (op :: r) = inputOf [op] ++ inputOf r := by
  cases op <;> simp [inputOf] at hne ⊢

theorem orun_closed (k : Kind) (st : St) (ops : List Op) (hi : SInv st) (hr : st.reading = false) :
    nReports (orun k st ops).2 + usedCount (orun k st ops).1 = usedCount st ∧
    SInv (orun k st ops).1 ∧ (orun k st ops).1.reading = false := by
  induction ops generalizing st with
  | nil => simp [orun, nReports, reportsOf]; exact ⟨hi, hr⟩
  | cons op r ih =>
    obtain ⟨o1, o2, o3⟩ := ostep_closed k st op hi hr
    obtain ⟨i1, i2, i3⟩ := ih (ostep k st op).1 o2 o3
    simp only [orun, nReports_append]
    exact ⟨by omega, i2, i3⟩

/-- **the balance at every point of a session**: reports written + slots in use (running or reaped
but not yet reported) = complete commands received before the end of input -/
theorem orun_balance (k : Kind) (st : St) (ops : List Op) (hi : SInv st) (hr : st.reading = true) :
    nReports (orun k st ops).2 + usedCount (orun k st ops).1 = usedCount st + countCmds st.stage (inputOf ops) ∧
    SInv (orun k st ops).1 := by
  induction ops generalizing st with
  | nil => simp [orun, inputOf, countCmds, nReports, reportsOf]; exact hi
  | cons op r ih =>
    by_cases hne : op = .eof
    · subst hne
      have hi' : SInv (stopReading st) := hi
      obtain ⟨c1, c2, _⟩ := orun_closed k (stopReading st) r hi' rfl
      have e : orun k st (.eof :: r) = ((orun k (stopReading st) r).1, (orun k (stopReading st) r).2) := by
        simp only [orun, ostep, List.nil_append]
      rw [e]
      have hu : usedCount (stopReading st) = usedCount st := rfl
      simp only [inputOf, countCmds, Nat.add_zero]
      exact ⟨by omega, c2⟩
    · obtain ⟨o1, o2, o3, o4⟩ := ostep_balance k st op hi hr hne
      obtain ⟨i1, i2⟩ := ih (ostep k st op).1 o3 o4
      rw [inputOf_cons op r hne, countCmds_append]
      simp only [orun, nReports_append]
      rw [o2] at i1
      exact ⟨by omega, i2⟩

/-- the end of a slot at the end of the script -/
theorem finish_balance (k : Kind) (st : St) (i : Nat) (hi : SInv st) :
    nReports (finish k st i).2 + usedCount (finish k st i).1 = usedCount st ∧
    SInv (finish k st i).1 ∧ (finish k st i).1.slots = st.slots.set i none := by
  unfold finish
  cases hd : st.dead.getD i none with
  | none =>
    obtain ⟨c1, _, c3, _, c5⟩ := childExit_balance k st i 0 hi
    exact ⟨c1, c3, c5⟩
  | some w =>
    obtain ⟨p1, _, p3, _, _, p6⟩ := pipeEof_balance k st i hi
    exact ⟨p1, p3, p6 (by rw [hd]; rfl)⟩

/-- slots `i … i+fuel-1` cleared -/
def clearRange : List (Option Bytes) → Nat → Nat → List (Option Bytes)
  | l, _, 0 => l
  | l, i, f + 1 => clearRange (l.set i none) (i + 1) f

theorem drain_balance (k : Kind) (st : St) (fuel i : Nat) (hi : SInv st) :
    nReports (drain k st fuel i).2 + usedCount (drain k st fuel i).1 = usedCount st ∧
    (drain k st fuel i).1.slots = clearRange st.slots i fuel := by
  induction fuel generalizing st i with
  | zero => simp [drain, clearRange, nReports, reportsOf]
  | succ f ih =>
    obtain ⟨c1, c3, c5⟩ := finish_balance k st i hi
    obtain ⟨i1, i2⟩ := ih (finish k st i).1 (i + 1) c3
    simp only [drain, nReports_append, clearRange]
    rw [c5] at i2
    exact ⟨by omega, i2⟩

theorem clearRange_cons (x : Option Bytes) (l : List (Option Bytes)) (i f : Nat) :
    clearRange (x :: l) (i + 1) f = x :: clearRange l i f := by
  induction f generalizing l i with
  | zero => rfl
  | succ f ih => simp only [clearRange, List.set_cons_succ, ih]

theorem clearRange_all (l : List (Option Bytes)) : (clearRange l 0 l.length).filter Option.isSome = [] := by
  induction l with
  | nil => rfl
  | cons a r ih =>
    simp only [List.length_cons, clearRange, List.set_cons_zero, clearRange_cons]
    simpa using ih

theorem filter_replicate_none (n : Nat) :
    (List.replicate n (none : Option Bytes)).filter Option.isSome = [] := by
  induction n with
  | zero => rfl
  | succ n ih => simp [List.replicate_succ, ih]

/-- from any start-of-command state with no child running -/
theorem session_balance (k : Kind) (st0 : St) (script : List Op) (hi : SInv st0) (hr : st0.reading = true)
    (hu : usedCount st0 = 0) :
    nReports ((orun k st0 script).2 ++ (drain k (stopReading (orun k st0 script).1) Nq.Gen.auto_spawn 0).2)
      = countCmds st0.stage (inputOf script) ∧
    usedCount (drain k (stopReading (orun k st0 script).1) Nq.Gen.auto_spawn 0).1 = 0 := by
  obtain ⟨o1, o2⟩ := orun_balance k st0 script hi hr
  have h1 : SInv (stopReading (orun k st0 script).1) := o2
  obtain ⟨d1, d2⟩ := drain_balance k _ Nq.Gen.auto_spawn 0 h1
  have hz : usedCount (drain k (stopReading (orun k st0 script).1) Nq.Gen.auto_spawn 0).1 = 0 := by
    unfold usedCount
    rw [d2]
    have hlen : Nq.Gen.auto_spawn = (orun k st0 script).1.slots.length := o2.symm
    have hsl : (stopReading (orun k st0 script).1).slots = (orun k st0 script).1.slots := rfl
    rw [hsl, hlen, clearRange_all]; rfl
  refine ⟨?_, hz⟩
  rw [nReports_append]
  have e : usedCount (stopReading (orun k st0 script).1) = usedCount (orun k st0 script).1 := rfl
  rw [e] at d1
  omega

theorem init_facts (plan : List Nat) :
    SInv ({ plan := plan } : St) ∧ usedCount ({ plan := plan } : St) = 0 ∧
    ({ plan := plan } : St).reading = true ∧ ({ plan := plan } : St).stage = .delnum := by
  refine ⟨?_, ?_, rfl, rfl⟩
  · unfold SInv
    exact List.length_replicate
  · unfold usedCount
    have : ({ plan := plan } : St).slots = List.replicate Nq.Gen.auto_spawn none := rfl
    rw [this, filter_replicate_none]; rfl

theorem nReports_hello (n : Nat) (l : List Ev) : nReports (Ev.hello n :: l) = nReports l := rfl

theorem runFrom_eq (k : Kind) (st0 : St) (script : List Op) :
    runFrom k st0 script =
      ((drain k (stopReading (orun k st0 script).1) Nq.Gen.auto_spawn 0).1,
       Ev.hello Nq.Gen.auto_spawn ::
         ((orun k st0 script).2 ++ (drain k (stopReading (orun k st0 script).1) Nq.Gen.auto_spawn 0).2)) := rfl

theorem runFrom_balance (k : Kind) (st0 : St) (script : List Op) (hi : SInv st0) (hr : st0.reading = true)
    (hu : usedCount st0 = 0) (hs : st0.stage = .delnum) :
    nReports (runFrom k st0 script).2 = countCmds .delnum (inputOf script) ∧ usedCount (runFrom k st0 script).1 = 0 := by
  obtain ⟨s1, s2⟩ := session_balance k st0 script hi hr hu
  rw [hs] at s1
  rw [runFrom_eq]
  clear hi
  generalize Nq.Gen.auto_spawn = n at s1 s2 ⊢
  refine ⟨?_, s2⟩
  show nReports (Ev.hello n :: ((orun k st0 script).2 ++ (drain k (stopReading (orun k st0 script).1) n 0).2)) = _
  rw [nReports_hello]
  exact s1

/-- **one report per command over a whole session** -/
theorem run_balance (k : Kind) (plan : List Nat) (script : List Op) :
    nReports (run k plan script).2 = countCmds .delnum (inputOf script) ∧ usedCount (run k plan script).1 = 0 := by
  obtain ⟨hi, hu, hr, hs⟩ := init_facts plan
  unfold run
  exact runFrom_balance k _ script hi hr hu hs

/-! ### the exit test of the main loop -/

theorem getD_none_of_unused (l : List (Option Bytes)) (h : (l.filter Option.isSome).length = 0) (i : Nat) :
    l.getD i none = none := by
  induction l generalizing i with
  | nil => rfl
  | cons a r ih =>
    cases a with
    | some v => simp at h
    | none =>
      cases i with
      | zero => rfl
      | succ n =>
        simp only [List.getD_cons_succ]
        exact ih (by simpa using h) n

theorem exited_iff (st : St) : exited st = true ↔ st.reading = false ∧ usedCount st = 0 := by
  unfold exited
  cases st.reading <;> simp

/-- a slot in use — its child running, or reaped with the report still to be written — keeps the
program alive after the end of input -/
theorem not_exited_of_used (st : St) (i : Nat) (out : Bytes) (h : st.slots.getD i none = some out) :
    exited st = false := by
  cases he : exited st with
  | false => rfl
  | true =>
    obtain ⟨_, hu⟩ := (exited_iff st).mp he
    have := getD_none_of_unused st.slots hu i
    rw [h] at this; cases this

theorem stopReading_of_closed (st : St) (hr : st.reading = false) : stopReading st = st := by
  cases st
  simp only [stopReading] at hr ⊢
  subst hr; rfl

/-- once the exit test holds no event has any effect: leaving (`_exit(0)`) and going on are the same -/
theorem ostep_exited (k : Kind) (st : St) (op : Op) (h : exited st = true) : ostep k st op = (st, []) := by
  obtain ⟨hr, hu⟩ := (exited_iff st).mp h
  have hn : ∀ i, st.slots.getD i none = none := getD_none_of_unused st.slots hu
  cases op with
  | cmd bytes => simp only [ostep, hr, Bool.false_eq_true, if_false]
  | out slot bytes => simp only [ostep, hn slot]
  | exit slot wstat =>
    by_cases hd : (st.dead.getD slot none).isSome = true
    · simp only [ostep, hd, if_true]
    · simp only [ostep, hd, Bool.false_eq_true, if_false, childExit, hn slot]
  | eof => simp only [ostep, stopReading_of_closed st hr]
  | reap slot wstat => simp only [ostep, reap, hn slot]
  | peof slot => simp only [ostep, pipeEof, hn slot]
  | cclose slot => rfl

theorem orun_exited (k : Kind) (st : St) (ops : List Op) (h : exited st = true) : orun k st ops = (st, []) := by
  induction ops with
  | nil => rfl
  | cons op r ih => simp only [orun, ostep_exited k st op h, ih, List.append_nil]

/-- the events after the exit point (`consumed`) do not matter: the model that stops there, as the
program does, and the model that runs the whole script agree -/
theorem orun_take_consumed (k : Kind) (st : St) (ops : List Op) :
    orun k st (ops.take (consumed k st ops)) = orun k st ops := by
  induction ops generalizing st with
  | nil => rfl
  | cons op r ih =>
    by_cases h : exited st = true
    · simp only [consumed, h, if_true, List.take_zero]
      rw [orun_exited k st _ h, orun_exited k st _ h]
    · simp only [consumed, h, Bool.false_eq_true, if_false, List.take_succ_cons, orun, ih]

theorem consumed_le (k : Kind) (st : St) (ops : List Op) : consumed k st ops ≤ ops.length := by
  induction ops generalizing st with
  | nil => exact Nat.le_refl _
  | cons op r ih =>
    by_cases h : exited st = true
    · simp only [consumed, h, if_true]; exact Nat.zero_le _
    · simp only [consumed, h, Bool.false_eq_true, if_false, List.length_cons]
      exact Nat.succ_le_succ (ih _)

/-- at every point of a run from the initial state -/
theorem run_prefix_balance (k : Kind) (plan : List Nat) (ops : List Op) :
    nReports (orun k { plan := plan } ops).2 + usedCount (orun k { plan := plan } ops).1 =
      countCmds .delnum (inputOf ops) := by
  obtain ⟨hi, hu, hr, hs⟩ := init_facts plan
  obtain ⟨o1, _⟩ := orun_balance k _ ops hi hr
  rw [hs, hu] at o1
  omega

end Nq.Lemmas.SpawnL
