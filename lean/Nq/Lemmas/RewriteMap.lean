/-
  Lemmas for C10, part 1: case folding, the djb hash, and the hash table of constmap.c
  (`cmInit`/`CM.lookup`) against the finite map `mapLookup`.
-/
import Nq.Rewrite
import Nq.Spec.Route

namespace Nq.Lemmas.RewriteMap
open Nq Nq.Rewrite Nq.Route

theorem byte_forall (P : Byte → Prop) (h : ∀ n : Fin 256, P (UInt8.ofNat n.val)) : ∀ c, P c := by
  intro c
  have := h ⟨c.toNat, UInt8.toNat_lt c⟩
  simpa using this

set_option maxRecDepth 100000 in
/-- `case_diffb`'s folding is ASCII lower-casing -/
theorem foldb_eq_lower (c : Byte) : foldb c = lowerByte c := by
  revert c; apply byte_forall; decide

set_option maxRecDepth 100000 in
/-- the hash folds case the same way (shifted by 'A') -/
theorem hashCh_eq (c : Byte) : hashCh c = lowerByte c - 65 := by
  revert c; apply byte_forall; decide

theorem map_foldb (s : Bytes) : s.map foldb = lower s := by
  unfold lower; congr 1; funext c; exact foldb_eq_lower c

theorem caseEq_eq (s t : Bytes) : caseEq s t = (lower s == lower t) := by
  unfold caseEq; rw [map_foldb, map_foldb]

theorem cmHash_eq (s : Bytes) :
    cmHash s = (lower s).foldl (fun (h : UInt64) (c : Byte) => ((h <<< 5) + h) ^^^ (c - 65).toUInt64) 5381 := by
  unfold cmHash lower
  rw [List.foldl_map]
  congr 1; funext h c; rw [hashCh_eq]

/-- keys equal up to ASCII case have the same hash -/
theorem cmHash_lower {a b : Bytes} (h : lower a = lower b) : cmHash a = cmHash b := by
  rw [cmHash_eq, cmHash_eq, h]

theorem lower_length (s : Bytes) : (lower s).length = s.length := by simp [lower]

/-- the chain-walk test of `constmap()` (hash, length, case_diffb) is exactly key equality up to case -/
theorem walk_test (k : Bytes) (e : Ent) :
    (cmHash k = cmHash e.key ∧ k.length = e.key.length ∧ caseEq e.key k = true) ↔ keyEq k e = true := by
  unfold keyEq
  rw [caseEq_eq]
  constructor
  · rintro ⟨_, _, h⟩; exact h
  · intro h
    have h' : lower e.key = lower k := by simpa using h
    refine ⟨cmHash_lower h'.symm, ?_, h⟩
    rw [← lower_length k, ← lower_length e.key, h']

theorem insert_mask (cm : CM) (e : Ent) : (cm.insert e).mask = cm.mask := rfl

theorem lookup_insert (cm : CM) (e : Ent) (k : Bytes) :
    (cm.insert e).lookup k = if keyEq k e = true then some e.val else cm.lookup k := by
  unfold CM.lookup CM.insert
  simp only
  by_cases hb : (cmHash k &&& cm.mask) = (cmHash e.key &&& cm.mask)
  · rw [if_pos hb]
    simp only [walk]
    by_cases hk : keyEq k e = true
    · rw [if_pos ((walk_test k e).2 hk), if_pos hk]
    · rw [if_neg (fun h => hk ((walk_test k e).1 h)), if_neg hk]
  · rw [if_neg hb]
    have hk : ¬ keyEq k e = true := by
      intro hk
      have := ((walk_test k e).2 hk).1
      exact hb (by rw [this])
    rw [if_neg hk]

theorem mapLookupRev_append (k : Bytes) (a b : List Ent) :
    mapLookupRev k (a ++ b) = match mapLookupRev k a with
      | some v => some v
      | none => mapLookupRev k b := by
  induction a with
  | nil => simp [mapLookupRev]
  | cons e r ih =>
    simp only [List.cons_append, mapLookupRev]
    by_cases h : keyEq k e = true
    · simp [h]
    · simp [h, ih]

theorem lookup_foldl (k : Bytes) (es : List Ent) (cm : CM) :
    (es.foldl CM.insert cm).lookup k = match mapLookupRev k es.reverse with
      | some v => some v
      | none => cm.lookup k := by
  induction es generalizing cm with
  | nil => simp [mapLookupRev]
  | cons e r ih =>
    simp only [List.foldl_cons, List.reverse_cons]
    rw [ih, mapLookupRev_append, lookup_insert]
    cases h : mapLookupRev k r.reverse with
    | some v => simp
    | none =>
      simp only [mapLookupRev]
      by_cases hk : keyEq k e = true <;> simp [hk]

theorem lookup_empty (m : UInt64) (k : Bytes) : (CM.empty m).lookup k = none := by
  simp [CM.lookup, CM.empty, walk]

/-- **the hash table is the finite map** (any buffer, with or without repeated keys) -/
theorem lookup_cmInit (s : Bytes) (fc : Bool) (k : Bytes) :
    (cmInit s fc).lookup k = mapLookup (parseEntries s fc) k := by
  unfold cmInit mapLookup
  rw [lookup_foldl, lookup_empty]
  cases mapLookupRev k (parseEntries s fc).reverse <;> rfl

/-! ### finite map vs. the documented "entry for key" (no repeated keys) -/

theorem isSome_mapLookupRev (k : Bytes) (es : List Ent) :
    (mapLookupRev k es).isSome = es.any (fun e => lower e.key == lower k) := by
  induction es with
  | nil => rfl
  | cons e r ih =>
    simp only [mapLookupRev, List.any_cons, keyEq]
    by_cases h : (lower e.key == lower k) = true
    · simp [h]
    · simp [h, ih]

theorem isSome_mapLookup (es : List Ent) (k : Bytes) : (mapLookup es k).isSome = listed es k := by
  unfold mapLookup listed
  rw [isSome_mapLookupRev, List.any_reverse]

theorem listed_congr (es : List Ent) {a b : Bytes} (h : lower a = lower b) : listed es a = listed es b := by
  unfold listed; rw [h]

theorem entryFor_none_of_not_listed (es : List Ent) (k : Bytes) (h : listed es k = false) : entryFor es k = none := by
  unfold entryFor
  have : es.find? (fun e => lower e.key == lower k) = none := by
    rw [List.find?_eq_none]
    intro e he
    unfold listed at h
    rw [List.any_eq_false] at h
    exact h e he
  rw [this]

theorem entryFor_cons (e : Ent) (r : List Ent) (k : Bytes) :
    entryFor (e :: r) k = if keyEq k e = true then some e.val else entryFor r k := by
  unfold entryFor keyEq
  rw [List.find?_cons]
  by_cases h : (lower e.key == lower k) = true <;> simp [h]

theorem mapLookup_eq_entryFor (es : List Ent) (k : Bytes) (h : noDupKeys es = true) :
    mapLookup es k = entryFor es k := by
  unfold mapLookup
  induction es with
  | nil => rfl
  | cons e r ih =>
    simp only [noDupKeys, Bool.and_eq_true, Bool.not_eq_true'] at h
    rw [List.reverse_cons, mapLookupRev_append, ih h.2, entryFor_cons]
    simp only [mapLookupRev]
    by_cases hk : keyEq k e = true
    · have : lower e.key = lower k := by simpa [keyEq] using hk
      rw [entryFor_none_of_not_listed r k (by rw [← listed_congr r this]; exact h.1)]
    · cases entryFor r k <;> simp [hk]

end Nq.Lemmas.RewriteMap
