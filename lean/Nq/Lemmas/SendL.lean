/-
  Lemmas about the qmail-send report reader model (`Nq.SendReport`): which parts of the state each
  routine can touch, which events it can emit, the REPORTMAX bound.
-/
import Nq.SendReport
import Nq.Spec.TrustBoundary

namespace Nq.Lemmas.SendL
open Nq Nq.SendReport Nq.Spec.TB

/-- events that touch neither a recipient file nor a bounce file -/
def quiet : Ev → Bool
  | .mark _ _ _ => false
  | .openWriteFail _ => false
  | .stray => false
  | .openAppend _ => false
  | .bounce _ => false
  | _ => true

/-- the line buffer and the slot table are untouched -/
def Frame (st st' : St) : Prop := st'.drev = st.drev ∧ st'.dlen = st.dlen ∧ st'.slots = st.slots

theorem Frame.refl (st : St) : Frame st st := ⟨rfl, rfl, rfl⟩
theorem Frame.trans {a b c : St} (h1 : Frame a b) (h2 : Frame b c) : Frame a c :=
  ⟨h2.1.trans h1.1, h2.2.1.trans h1.2.1, h2.2.2.trans h1.2.2⟩

theorem nextPlan_frame (st : St) : Frame st (nextPlan st).2 ∧ (nextPlan st).2.jobs = st.jobs := by
  simp [nextPlan, Frame]

theorem markdone_frame (c : Nat) (st : St) (id pos : Nat) :
    Frame st (markdone c st id pos).1 ∧ (markdone c st id pos).1.jobs = st.jobs := by
  unfold markdone
  simp only [nextPlan]
  by_cases h : st.plan.headD 0 = 1
  · simp only [h, if_true]; simp [Frame]
  · simp only [h, if_false]; simp [Frame]

/-- `markdone` either writes the single byte 'D' at `pos` of the channel's recipient file of `id`, or
fails to open it and only logs -/
theorem markdone_events (c : Nat) (st : St) (id pos : Nat) :
    (markdone c st id pos).2 = [.mark (Clean.fmtqfn (chanaddr c) id true) pos [68]] ∨
    ∃ t, (markdone c st id pos).2 = [.openWriteFail (Clean.fmtqfn (chanaddr c) id true), .log t] := by
  unfold markdone
  simp only [nextPlan]
  by_cases h : st.plan.headD 0 = 1
  · right; simp only [h, if_true]; exact ⟨_, rfl⟩
  · left; simp only [h, if_false]

theorem statOthers_frame (id : Nat) (cs : List Nat) (st : St) :
    Frame st (statOthers id cs st).1 ∧ (statOthers id cs st).1.jobs = st.jobs ∧
    ∀ e ∈ (statOthers id cs st).2.1, quiet e = true := by
  induction cs generalizing st with
  | nil => simp [statOthers, Frame]
  | cons c cs ih =>
    unfold statOthers
    simp only [nextPlan]
    by_cases h1 : st.plan.headD 0 = 1
    · simp only [h1, if_true]; simp [Frame, quiet]
    · by_cases h2 : st.plan.headD 0 = 2
      · simp only [h1, h2, if_true, if_false]; simp [Frame, quiet]
      · obtain ⟨g1, g2, g3⟩ := ih { st with plan := st.plan.tail }
        simp only [h1, h2, if_false]
        refine ⟨⟨g1.1, g1.2.1, g1.2.2⟩, g2, ?_⟩
        intro e he
        simp only [List.mem_cons] at he
        rcases he with he | he
        · subst he; rfl
        · exact g3 e he

theorem jobClose_aux (st st2 : St) (id ch now : Nat) (path : Bytes) (hf : Frame st st2) :
    Frame st (if (statOthers id (otherChannels ch) st2).2.2 = true
        then ((statOthers id (otherChannels ch) st2).1, Ev.unlink path :: (statOthers id (otherChannels ch) st2).2.1)
        else ((statOthers id (otherChannels ch) st2).1,
              Ev.unlink path :: (statOthers id (otherChannels ch) st2).2.1 ++ [Ev.pq 2 id now])).1 ∧
    ∀ e ∈ (if (statOthers id (otherChannels ch) st2).2.2 = true
        then ((statOthers id (otherChannels ch) st2).1, Ev.unlink path :: (statOthers id (otherChannels ch) st2).2.1)
        else ((statOthers id (otherChannels ch) st2).1,
              Ev.unlink path :: (statOthers id (otherChannels ch) st2).2.1 ++ [Ev.pq 2 id now])).2, quiet e = true := by
  have hso := statOthers_frame id (otherChannels ch) st2
  by_cases h4 : (statOthers id (otherChannels ch) st2).2.2 = true
  · rw [if_pos h4]
    refine ⟨hf.trans hso.1, ?_⟩
    intro e he
    simp only [List.mem_cons] at he
    rcases he with he | he
    · subst he; rfl
    · exact hso.2.2 e he
  · rw [if_neg h4]
    refine ⟨hf.trans hso.1, ?_⟩
    intro e he
    simp only [List.mem_cons, List.mem_append, List.mem_singleton] at he
    rcases he with (he | he) | he
    · subst he; rfl
    · exact hso.2.2 e he
    · rcases he with he | he
      · subst he; rfl
      · simp at he

theorem jobClose_frame (env : Env) (st : St) (j : Nat) :
    Frame st (jobClose env st j).1 ∧ ∀ e ∈ (jobClose env st j).2, quiet e = true := by
  unfold jobClose
  cases hj : st.jobs[j]? with
  | none => exact ⟨Frame.refl st, by simp⟩
  | some jb =>
    simp only [setJob, nextPlan]
    by_cases h1 : 0 < jb.refs - 1
    · simp only [h1, if_true]; exact ⟨⟨rfl, rfl, rfl⟩, by simp⟩
    · simp only [h1, if_false]
      by_cases h2 : jb.hiteof = true ∧ jb.numtodo = 0
      · rw [if_pos h2]
        by_cases h3 : st.plan.headD 0 = 1
        · simp only [h3, if_true]; exact ⟨⟨rfl, rfl, rfl⟩, by simp [quiet]⟩
        · simp only [h3, if_false]
          exact jobClose_aux st _ jb.id jb.channel env.now _ ⟨rfl, rfl, rfl⟩
      · rw [if_neg h2]; exact ⟨⟨rfl, rfl, rfl⟩, by simp [quiet]⟩

theorem marksOf_quiet (evs : List Ev) (h : ∀ e ∈ evs, quiet e = true) :
    marksOf evs = [] ∧ bouncesOf evs = [] ∧ writesOK evs = true := by
  induction evs with
  | nil => simp [marksOf, bouncesOf, writesOK]
  | cons e r ih =>
    have he := h e (by simp)
    have hr := ih (fun x hx => h x (by simp [hx]))
    cases e <;> simp_all [marksOf, bouncesOf, writesOK, quiet]

theorem marksOf_append (a b : List Ev) : marksOf (a ++ b) = marksOf a ++ marksOf b := by
  induction a with
  | nil => rfl
  | cons e a ih => cases e <;> simp [marksOf, ih]

theorem bouncesOf_append (a b : List Ev) : bouncesOf (a ++ b) = bouncesOf a ++ bouncesOf b := by
  induction a with
  | nil => rfl
  | cons e a ih => cases e <;> simp [bouncesOf, ih]

/-! ### one report line -/

def WARN : Bytes := str "warning: internal error: delivery report out of range\n"

/-- a report naming a slot that is out of range or not in use changes nothing -/
theorem processLine_unused (env : Env) (st : St) (dl : Bytes)
    (h : st.slots.getD (dl.headD 0).toNat none = none) :
    processLine env st dl = (st, [.log WARN]) := by
  unfold processLine
  simp only [h]
  rfl

theorem writesOK_append (a b : List Ev) : writesOK (a ++ b) = (writesOK a && writesOK b) := by
  induction a with
  | nil => simp [writesOK]
  | cons e a ih => cases e <;> simp [writesOK, ih, Bool.and_assoc]

theorem finishReport_spec (env : Env) (st : St) (r : St × List Ev) (d j : Nat) (hf : Frame st r.1) :
    (finishReport env r d j).1.drev = st.drev ∧ (finishReport env r d j).1.dlen = st.dlen ∧
    (finishReport env r d j).1.slots = st.slots.set d none ∧
    marksOf (finishReport env r d j).2 = marksOf r.2 ∧ bouncesOf (finishReport env r d j).2 = bouncesOf r.2 ∧
    writesOK (finishReport env r d j).2 = writesOK r.2 := by
  obtain ⟨hc, hq⟩ := jobClose_frame env r.1 j
  have hq' := marksOf_quiet _ hq
  unfold finishReport
  simp only [marksOf_append, bouncesOf_append, writesOK_append, hq'.1, hq'.2.1, hq'.2.2]
  refine ⟨hc.1.trans hf.1, hc.2.1.trans hf.2.1, by rw [hc.2.2, hf.2.2], ?_, ?_, ?_⟩ <;>
    simp [marksOf, bouncesOf, writesOK]

theorem reportCore_spec (env : Env) (st : St) (sl : Slot) (jb : Job) (letter : Byte) (text : Bytes) :
    Frame st (reportCore env st sl jb letter text).1 ∧
    (marksOf (reportCore env st sl jb letter text).2 = [] ∨
     marksOf (reportCore env st sl jb letter text).2 = [(Clean.fmtqfn (chanaddr env.chan) jb.id true, sl.mpos)]) ∧
    (bouncesOf (reportCore env st sl jb letter text).2 = [] ∨
     bouncesOf (reportCore env st sl jb letter text).2 = [Clean.fmtqfn (str "bounce/") jb.id false]) ∧
    writesOK (reportCore env st sl jb letter text).2 = true ∧
    ((letter ≠ 75 ∧ letter ≠ 68) → marksOf (reportCore env st sl jb letter text).2 = [] ∧
       bouncesOf (reportCore env st sl jb letter text).2 = []) := by
  have hm := markdone_frame env.chan st jb.id sl.mpos
  have hfr : Frame st (setJob (markdone env.chan st jb.id sl.mpos).1 sl.j { jb with numtodo := jb.numtodo - 1 }) :=
    ⟨hm.1.1, hm.1.2.1, hm.1.2.2⟩
  unfold reportCore
  by_cases hK : letter = 75
  · simp only [hK, if_true]
    refine ⟨hfr, ?_, ?_, ?_, fun h => absurd rfl h.1⟩
    · rcases markdone_events env.chan st jb.id sl.mpos with h | ⟨t, h⟩ <;> rw [h] <;> simp [marksOf]
    · rcases markdone_events env.chan st jb.id sl.mpos with h | ⟨t, h⟩ <;> rw [h] <;> simp [bouncesOf]
    · rcases markdone_events env.chan st jb.id sl.mpos with h | ⟨t, h⟩ <;> rw [h] <;> simp [writesOK]
  · by_cases hZ : letter = 90
    · simp only [hK, hZ, if_true, if_false]
      exact ⟨Frame.refl st, by simp [marksOf], by simp [bouncesOf], by simp [writesOK], fun _ => by simp [marksOf, bouncesOf]⟩
    · by_cases hD : letter = 68
      · have e1 : (90 : Byte) ≠ 75 := by decide
        simp only [hK, hZ, hD, if_true, if_false]
        have e68a : ¬ ((68 : Byte) = 75) := by decide
        have e68b : ¬ ((68 : Byte) = 90) := by decide
        simp only [e68a, e68b, if_false]
        refine ⟨hfr, ?_, ?_, ?_, fun h => absurd rfl h.2⟩
        · rcases markdone_events env.chan st jb.id sl.mpos with h | ⟨t, h⟩ <;> rw [h] <;> simp [marksOf, addbounce]
        · rcases markdone_events env.chan st jb.id sl.mpos with h | ⟨t, h⟩ <;> rw [h] <;> simp [bouncesOf, addbounce]
        · rcases markdone_events env.chan st jb.id sl.mpos with h | ⟨t, h⟩ <;> rw [h] <;> simp [writesOK, addbounce]
      · simp only [hK, hZ, hD, if_false]
        exact ⟨Frame.refl st, by simp [marksOf], by simp [bouncesOf], by simp [writesOK], fun _ => by simp [marksOf, bouncesOf]⟩

/-- what a report for a slot in use can do: the line buffer is untouched, the slot is freed, no
other slot changes, and the events are: at most one `mark` — of this slot's recipient record — at
most one bounce — for this slot's message — and otherwise only quiet events -/
theorem processLine_used (env : Env) (st : St) (dl : Bytes) (sl : Slot)
    (h : st.slots.getD (dl.headD 0).toNat none = some sl) :
    (processLine env st dl).1.drev = st.drev ∧ (processLine env st dl).1.dlen = st.dlen ∧
    (processLine env st dl).1.slots = st.slots.set (dl.headD 0).toNat none ∧
    (marksOf (processLine env st dl).2 = [] ∨
     marksOf (processLine env st dl).2 =
       [(Clean.fmtqfn (chanaddr env.chan) (st.jobs.getD sl.j ⟨0, 0, 0, false, false, 0, 0⟩).id true, sl.mpos)]) ∧
    (bouncesOf (processLine env st dl).2 = [] ∨
     bouncesOf (processLine env st dl).2 =
       [Clean.fmtqfn (str "bounce/") (st.jobs.getD sl.j ⟨0, 0, 0, false, false, 0, 0⟩).id false]) ∧
    writesOK (processLine env st dl).2 = true ∧
    ((dl.getD 1 0 ≠ 75 ∧ dl.getD 1 0 ≠ 90 ∧ dl.getD 1 0 ≠ 68) →
      marksOf (processLine env st dl).2 = [] ∧ bouncesOf (processLine env st dl).2 = []) := by
  unfold processLine
  simp only [h]
  generalize hjb : st.jobs.getD sl.j ⟨0, 0, 0, false, false, 0, 0⟩ = jb
  generalize hletter : (if dl.getD 1 0 = 90 ∧ jb.dying = true then (68 : Byte) else dl.getD 1 0) = letter
  generalize htext : (if dl.getD 1 0 = 90 ∧ jb.dying = true then dl.dropLast.drop 2 ++ DYINGMSG else cstr2 (dl.drop 2)) = text
  obtain ⟨c1, c2, c3, c4, c5⟩ := reportCore_spec env st sl jb letter text
  obtain ⟨f1, f2, f3, f4, f5, f6⟩ := finishReport_spec env st (reportCore env st sl jb letter text) (dl.headD 0).toNat sl.j c1
  refine ⟨f1, f2, f3, by rw [f4]; exact c2, by rw [f5]; exact c3, by rw [f6]; exact c4, ?_⟩
  intro hl
  rw [f4, f5]
  apply c5
  rw [← hletter]
  have : ¬ (dl.getD 1 0 = 90 ∧ jb.dying = true) := fun hh => hl.2.1 hh.1
  simp only [this, if_false]
  exact ⟨hl.1, hl.2.2⟩

/-! ### the REPORTMAX bound -/

theorem processLine_dlen (env : Env) (st : St) (dl : Bytes) : (processLine env st dl).1.dlen = st.dlen := by
  cases h : st.slots.getD (dl.headD 0).toNat none with
  | none => rw [processLine_unused env st dl h]
  | some sl => exact (processLine_used env st dl sl h).2.1

theorem step_dlen (env : Env) (st : St) (ch : Byte) (h : st.dlen ≤ Nq.Gen.REPORTMAX) :
    (step env st ch).1.dlen ≤ Nq.Gen.REPORTMAX := by
  unfold step
  by_cases h1 : st.dlen < Nq.Gen.REPORTMAX
  · simp only [h1, if_true]
    by_cases h2 : ch = 0 ∧ st.dlen + 1 > 1
    · rw [if_pos h2, processLine_dlen]; exact Nat.zero_le _
    · rw [if_neg h2]; exact h1
  · simp only [h1, if_false]
    by_cases h2 : ch = 0 ∧ st.dlen > 1
    · rw [if_pos h2, processLine_dlen]; exact Nat.zero_le _
    · rw [if_neg h2]; exact h

theorem feed_dlen (env : Env) (st : St) (s : Bytes) (h : st.dlen ≤ Nq.Gen.REPORTMAX) :
    (feed env st s).1.dlen ≤ Nq.Gen.REPORTMAX := by
  induction s generalizing st with
  | nil => exact h
  | cons c r ih => unfold feed; exact ih _ (step_dlen env st c h)

/-! ### the whole stream: simulation by the reference reader of `Nq.Spec.TB` -/

abbrev dflt : Job := ⟨0, 0, 0, false, false, 0, 0⟩

/-- the parts of the job table the report reader's decisions depend on never change -/
def JobsSame (a b : List Job) : Prop :=
  ∀ j, (a.getD j dflt).id = (b.getD j dflt).id ∧ (a.getD j dflt).dying = (b.getD j dflt).dying

theorem JobsSame.refl (a : List Job) : JobsSame a a := fun _ => ⟨rfl, rfl⟩
theorem JobsSame.trans {a b c : List Job} (h1 : JobsSame a b) (h2 : JobsSame b c) : JobsSame a c :=
  fun j => ⟨(h1 j).1.trans (h2 j).1, (h1 j).2.trans (h2 j).2⟩

theorem getD_set (l : List Job) (i j : Nat) (x : Job) :
    (l.set i x).getD j dflt = if i = j ∧ i < l.length then x else l.getD j dflt := by
  simp only [List.getD_eq_getElem?_getD, List.getElem?_set]
  by_cases h1 : i = j
  · by_cases h2 : i < l.length
    · simp [h1, h2]; subst h1; simp [h2]
    · subst h1
      simp only [h2, and_false, if_false, if_true]
      have : l[i]? = none := by simp; omega
      simp [this]
  · simp [h1]

theorem set_same (l : List Job) (i : Nat) (x : Job) (hid : x.id = (l.getD i dflt).id) (hdy : x.dying = (l.getD i dflt).dying) :
    JobsSame (l.set i x) l := by
  intro j
  rw [getD_set]
  by_cases h : i = j ∧ i < l.length
  · rw [if_pos h]; obtain ⟨h1, _⟩ := h; subst h1; exact ⟨hid, hdy⟩
  · rw [if_neg h]; exact ⟨rfl, rfl⟩

theorem getElem?_getD (l : List Job) (j : Nat) (jb : Job) (h : l[j]? = some jb) : l.getD j dflt = jb := by
  simp [List.getD_eq_getElem?_getD, h]

theorem jobClose_aux_jobs (st2 : St) (id ch now : Nat) (path : Bytes) :
    (if (statOthers id (otherChannels ch) st2).2.2 = true
        then ((statOthers id (otherChannels ch) st2).1, Ev.unlink path :: (statOthers id (otherChannels ch) st2).2.1)
        else ((statOthers id (otherChannels ch) st2).1,
              Ev.unlink path :: (statOthers id (otherChannels ch) st2).2.1 ++ [Ev.pq 2 id now])).1.jobs = st2.jobs := by
  have hso := statOthers_frame id (otherChannels ch) st2
  by_cases h4 : (statOthers id (otherChannels ch) st2).2.2 = true
  · rw [if_pos h4]; exact hso.2.1
  · rw [if_neg h4]; exact hso.2.1

theorem JobsSame_of_eq {a b c : List Job} (h : a = b) (hs : JobsSame b c) : JobsSame a c := h ▸ hs

theorem jobClose_jobs (env : Env) (st : St) (j : Nat) : JobsSame (jobClose env st j).1.jobs st.jobs := by
  unfold jobClose
  cases hj : st.jobs[j]? with
  | none => exact JobsSame.refl _
  | some jb =>
    have hg := getElem?_getD _ _ _ hj
    have hs : JobsSame (st.jobs.set j { jb with refs := jb.refs - 1 }) st.jobs :=
      set_same _ _ _ (by rw [hg]) (by rw [hg])
    simp only [setJob, nextPlan]
    by_cases h1 : 0 < jb.refs - 1
    · simp only [h1, if_true]; exact hs
    · simp only [h1, if_false]
      by_cases h2 : jb.hiteof = true ∧ jb.numtodo = 0
      · rw [if_pos h2]
        by_cases h3 : st.plan.headD 0 = 1
        · simp only [h3, if_true]; exact hs
        · simp only [h3, if_false]
          exact JobsSame_of_eq (jobClose_aux_jobs _ jb.id jb.channel env.now _) hs
      · rw [if_neg h2]; exact hs

theorem attemptsOf_append (a b : List Ev) : attemptsOf (a ++ b) = attemptsOf a ++ attemptsOf b := by
  induction a with
  | nil => rfl
  | cons e a ih => cases e <;> simp [attemptsOf, ih]

theorem attemptsOf_quiet (evs : List Ev) (h : ∀ e ∈ evs, quiet e = true) : attemptsOf evs = [] := by
  induction evs with
  | nil => rfl
  | cons e r ih =>
    have he := h e (by simp)
    have hr := ih (fun x hx => h x (by simp [hx]))
    cases e <;> simp_all [attemptsOf, quiet]

theorem finishReport_more (env : Env) (r : St × List Ev) (d j : Nat) :
    attemptsOf (finishReport env r d j).2 = attemptsOf r.2 ∧ JobsSame (finishReport env r d j).1.jobs r.1.jobs := by
  obtain ⟨_, hq⟩ := jobClose_frame env r.1 j
  unfold finishReport
  simp only [attemptsOf_append, attemptsOf_quiet _ hq]
  exact ⟨by simp [attemptsOf], jobClose_jobs env r.1 j⟩

theorem reportCore_K (env : Env) (st : St) (sl : Slot) (jb : Job) (text : Bytes) :
    ∃ lg, reportCore env st sl jb 75 text =
      (setJob (markdone env.chan st jb.id sl.mpos).1 sl.j { jb with numtodo := jb.numtodo - 1 },
       Ev.log lg :: (markdone env.chan st jb.id sl.mpos).2) := by
  unfold reportCore
  rw [if_pos rfl]
  exact ⟨_, rfl⟩

theorem reportCore_D (env : Env) (st : St) (sl : Slot) (jb : Job) (text : Bytes) :
    ∃ lg, reportCore env st sl jb 68 text =
      (setJob (markdone env.chan st jb.id sl.mpos).1 sl.j { jb with numtodo := jb.numtodo - 1 },
       Ev.log lg :: addbounce jb.id sl.recip text ++ (markdone env.chan st jb.id sl.mpos).2) := by
  unfold reportCore
  rw [if_neg (by decide), if_neg (by decide), if_pos rfl]
  exact ⟨_, rfl⟩

theorem reportCore_other (env : Env) (st : St) (sl : Slot) (jb : Job) (letter : Byte) (text : Bytes)
    (h75 : letter ≠ 75) (h68 : letter ≠ 68) :
    ∃ lg, reportCore env st sl jb letter text = (st, [Ev.log lg]) := by
  unfold reportCore
  rw [if_neg h75]
  by_cases hZ : letter = 90
  · rw [if_pos hZ]; exact ⟨_, rfl⟩
  · rw [if_neg hZ, if_neg h68]; exact ⟨_, rfl⟩

/-- the `switch` by letter: K and D try to mark this delivery's record (once; a failed open_write
loses the mark), everything else tries nothing -/
theorem reportCore_letter (env : Env) (st : St) (sl : Slot) (jb : Job) (letter : Byte) (text : Bytes)
    (hjb : jb = st.jobs.getD sl.j dflt) :
    JobsSame (reportCore env st sl jb letter text).1.jobs st.jobs ∧
    ((letter = 75 ∨ letter = 68) →
      attemptsOf (reportCore env st sl jb letter text).2 = [Clean.fmtqfn (chanaddr env.chan) jb.id true] ∧
      (marksOf (reportCore env st sl jb letter text).2 = [(Clean.fmtqfn (chanaddr env.chan) jb.id true, sl.mpos)] ∨
       marksOf (reportCore env st sl jb letter text).2 = [])) ∧
    (¬(letter = 75 ∨ letter = 68) →
      attemptsOf (reportCore env st sl jb letter text).2 = [] ∧ marksOf (reportCore env st sl jb letter text).2 = []) := by
  have hm := markdone_frame env.chan st jb.id sl.mpos
  have hdec : JobsSame (setJob (markdone env.chan st jb.id sl.mpos).1 sl.j { jb with numtodo := jb.numtodo - 1 }).jobs st.jobs := by
    simp only [setJob]; rw [hm.2]
    exact set_same _ _ _ (by rw [hjb]) (by rw [hjb])
  by_cases hK : letter = 75
  · subst hK
    obtain ⟨lg, e⟩ := reportCore_K env st sl jb text
    rw [e]
    refine ⟨hdec, fun _ => ?_, fun h => absurd (Or.inl rfl) h⟩
    rcases markdone_events env.chan st jb.id sl.mpos with h | ⟨t, h⟩ <;> rw [h] <;> simp [attemptsOf, marksOf]
  · by_cases hD : letter = 68
    · subst hD
      obtain ⟨lg, e⟩ := reportCore_D env st sl jb text
      rw [e]
      refine ⟨hdec, fun _ => ?_, fun h => absurd (Or.inr rfl) h⟩
      rcases markdone_events env.chan st jb.id sl.mpos with h | ⟨t, h⟩ <;> rw [h] <;> simp [attemptsOf, marksOf, addbounce]
    · obtain ⟨lg, e⟩ := reportCore_other env st sl jb letter text hK hD
      rw [e]
      refine ⟨JobsSame.refl _, fun h => ?_, fun _ => by simp [attemptsOf, marksOf]⟩
      rcases h with h | h
      · exact absurd h hK
      · exact absurd h hD

/-- when does a report ask for a mark (the reference reader's condition) -/
def wantsMark (jobs : List Job) (sl : Slot) (l : Byte) : Prop :=
  l = 75 ∨ l = 68 ∨ (l = 90 ∧ (jobs.getD sl.j dflt).dying = true)

theorem processLine_sim (env : Env) (st : St) (dl : Bytes) (jobs : List Job) (sl : Slot) (hJ : JobsSame st.jobs jobs)
    (h : st.slots.getD (dl.headD 0).toNat none = some sl) :
    JobsSame (processLine env st dl).1.jobs jobs ∧
    (wantsMark jobs sl (dl.getD 1 0) →
      attemptsOf (processLine env st dl).2 = [(entryOf env.chan jobs sl).1] ∧
      (marksOf (processLine env st dl).2 = [entryOf env.chan jobs sl] ∨ marksOf (processLine env st dl).2 = [])) ∧
    (¬ wantsMark jobs sl (dl.getD 1 0) →
      attemptsOf (processLine env st dl).2 = [] ∧ marksOf (processLine env st dl).2 = []) := by
  unfold processLine
  simp only [h]
  generalize hjb : st.jobs.getD sl.j ⟨0, 0, 0, false, false, 0, 0⟩ = jb
  have hjb' : jb = st.jobs.getD sl.j dflt := hjb.symm
  have hid : jb.id = (jobs.getD sl.j dflt).id := by rw [hjb']; exact (hJ sl.j).1
  have hdy : jb.dying = (jobs.getD sl.j dflt).dying := by rw [hjb']; exact (hJ sl.j).2
  generalize hletter : (if dl.getD 1 0 = 90 ∧ jb.dying = true then (68 : Byte) else dl.getD 1 0) = letter
  generalize htext : (if dl.getD 1 0 = 90 ∧ jb.dying = true then dl.dropLast.drop 2 ++ DYINGMSG else cstr2 (dl.drop 2)) = text
  obtain ⟨c1, c2, c3⟩ := reportCore_letter env st sl jb letter text hjb'
  obtain ⟨f1, f2⟩ := finishReport_more env (reportCore env st sl jb letter text) (dl.headD 0).toNat sl.j
  obtain ⟨_, _, _, f4, _, _⟩ := finishReport_spec env st (reportCore env st sl jb letter text) (dl.headD 0).toNat sl.j
    (reportCore_spec env st sl jb letter text).1
  have hent : entryOf env.chan jobs sl = (Clean.fmtqfn (chanaddr env.chan) jb.id true, sl.mpos) := by
    unfold entryOf; rw [hid]
  have hiff : (letter = 75 ∨ letter = 68) ↔ wantsMark jobs sl (dl.getD 1 0) := by
    unfold wantsMark
    rw [← hletter, ← hdy]
    by_cases hz : dl.getD 1 0 = 90 ∧ jb.dying = true
    · rw [if_pos hz]
      constructor
      · intro _; exact Or.inr (Or.inr hz)
      · intro _; exact Or.inr rfl
    · rw [if_neg hz]
      constructor
      · intro hh; rcases hh with hh | hh
        · exact Or.inl hh
        · exact Or.inr (Or.inl hh)
      · intro hh; rcases hh with hh | hh | hh
        · exact Or.inl hh
        · exact Or.inr hh
        · exact absurd hh hz
  refine ⟨(f2.trans c1).trans hJ, ?_, ?_⟩
  · intro hw
    obtain ⟨a1, a2⟩ := c2 (hiff.mpr hw)
    rw [f1, f4, hent]
    exact ⟨a1, a2⟩
  · intro hw
    obtain ⟨a1, a2⟩ := c3 (fun hh => hw (hiff.mp hh))
    rw [f1, f4]
    exact ⟨a1, a2⟩

/-- the simulation relation between the model state and the reference reader's state -/
def Rel (jobs : List Job) (st : St) (rst : RefSt) : Prop :=
  rst.rev = st.drev ∧ rst.n = st.dlen ∧ rst.slots = st.slots ∧ JobsSame st.jobs jobs

theorem step_sim (env : Env) (jobs : List Job) (st : St) (rst : RefSt) (ch : Byte) (hR : Rel jobs st rst) :
    attemptsOf (step env st ch).2 = (refStep env.chan jobs rst ch).2.map (·.1) ∧
    (marksOf (step env st ch).2).Sublist (refStep env.chan jobs rst ch).2 ∧
    Rel jobs (step env st ch).1 (refStep env.chan jobs rst ch).1 := by
  obtain ⟨r1, r2, r3, r4⟩ := hR
  obtain ⟨rrev, rn, rslots⟩ := rst
  simp only at r1 r2 r3
  subst r1 r2 r3
  -- the state after the byte has been appended (and the line cut to REPORTMAX)
  generalize hst1 : (if st.dlen < Nq.Gen.REPORTMAX then { st with drev := ch :: st.drev, dlen := st.dlen + 1 } else st) = st1
  have hslots : st1.slots = st.slots := by rw [← hst1]; split <;> rfl
  have hjobs : st1.jobs = st.jobs := by rw [← hst1]; split <;> rfl
  have href : (if st.dlen < Nq.Gen.REPORTMAX then ({ rev := ch :: st.drev, n := st.dlen + 1, slots := st.slots } : RefSt)
      else { rev := st.drev, n := st.dlen, slots := st.slots }) = { rev := st1.drev, n := st1.dlen, slots := st.slots } := by
    rw [← hst1]; split <;> rfl
  unfold step refStep
  simp only [hst1, href]
  by_cases hc : ch = 0 ∧ st1.dlen > 1
  · rw [if_pos hc, if_pos hc]
    try simp only
    cases hs : st.slots.getD ((st1.drev.reverse.headD 0).toNat) none with
    | none =>
      have hs' : ({ st1 with drev := [], dlen := 0 } : St).slots.getD ((st1.drev.reverse.headD 0).toNat) none = none := by
        show st1.slots.getD _ none = none
        rw [hslots]; exact hs
      rw [processLine_unused env _ _ hs']
      refine ⟨by simp [attemptsOf], by simp [marksOf], rfl, rfl, ?_, ?_⟩
      · show st.slots = st1.slots
        exact hslots.symm
      · show JobsSame st1.jobs jobs
        rw [hjobs]; exact r4
    | some sl =>
      have hs' : ({ st1 with drev := [], dlen := 0 } : St).slots.getD ((st1.drev.reverse.headD 0).toNat) none = some sl := by
        show st1.slots.getD _ none = some sl
        rw [hslots]; exact hs
      have hJ' : JobsSame ({ st1 with drev := [], dlen := 0 } : St).jobs jobs := by
        show JobsSame st1.jobs jobs
        rw [hjobs]; exact r4
      obtain ⟨p1, p2, p3⟩ := processLine_sim env _ st1.drev.reverse jobs sl hJ' hs'
      obtain ⟨u1, u2, u3, _⟩ := processLine_used env _ st1.drev.reverse sl hs'
      have hrel : Rel jobs (processLine env { st1 with drev := [], dlen := 0 } st1.drev.reverse).1
          { rev := [], n := 0, slots := st.slots.set ((st1.drev.reverse.headD 0).toNat) none } := by
        refine ⟨u1.symm, u2.symm, ?_, p1⟩
        rw [u3]
        show st.slots.set _ none = st1.slots.set _ none
        rw [hslots]
      simp only []
      by_cases hw : wantsMark jobs sl (st1.drev.reverse.getD 1 0)
      · obtain ⟨a1, a2⟩ := p2 hw
        have hcond : (st1.drev.reverse.getD 1 0 = 75 ∨ st1.drev.reverse.getD 1 0 = 68 ∨
            (st1.drev.reverse.getD 1 0 = 90 ∧ (jobs.getD sl.j ⟨0, 0, 0, false, false, 0, 0⟩).dying = true)) := hw
        rw [if_pos hcond]
        refine ⟨by rw [a1]; rfl, ?_, hrel⟩
        rcases a2 with a2 | a2 <;> rw [a2]
        · exact List.Sublist.refl _
        · exact List.nil_sublist _
      · obtain ⟨a1, a2⟩ := p3 hw
        have hcond : ¬ (st1.drev.reverse.getD 1 0 = 75 ∨ st1.drev.reverse.getD 1 0 = 68 ∨
            (st1.drev.reverse.getD 1 0 = 90 ∧ (jobs.getD sl.j ⟨0, 0, 0, false, false, 0, 0⟩).dying = true)) := hw
        rw [if_neg hcond]
        exact ⟨by rw [a1]; rfl, by rw [a2]; exact List.nil_sublist _, hrel⟩
  · rw [if_neg hc, if_neg hc]
    refine ⟨by simp [attemptsOf], by simp [marksOf], rfl, rfl, ?_, ?_⟩
    · show st.slots = st1.slots
      exact hslots.symm
    · show JobsSame st1.jobs jobs
      rw [hjobs]; exact r4

theorem feed_sim (env : Env) (jobs : List Job) (st : St) (rst : RefSt) (s : Bytes) (hR : Rel jobs st rst) :
    attemptsOf (feed env st s).2 = (refRun env.chan jobs rst s).map (·.1) ∧
    (marksOf (feed env st s).2).Sublist (refRun env.chan jobs rst s) := by
  induction s generalizing st rst with
  | nil => simp [feed, refRun, attemptsOf, marksOf]
  | cons c r ih =>
    obtain ⟨s1, s2, s3⟩ := step_sim env jobs st rst c hR
    obtain ⟨i1, i2⟩ := ih _ _ s3
    simp only [feed, refRun, attemptsOf_append, marksOf_append, List.map_append]
    exact ⟨by rw [s1, i1], List.Sublist.append s2 i2⟩

/-! ### the reference reader only marks deliveries in flight, each at most once (multiset inclusion) -/

theorem count_inflight_set (c : Nat) (jobs : List Job) (slots : List (Option Slot)) (d : Nat) (sl : Slot)
    (h : slots.getD d none = some sl) (x : Bytes × Nat) :
    (inflight c jobs (slots.set d none)).count x + (if (entryOf c jobs sl == x) = true then 1 else 0)
      = (inflight c jobs slots).count x := by
  induction slots generalizing d with
  | nil => simp at h
  | cons a r ih =>
    cases d with
    | zero =>
      simp only [List.getD_cons_zero] at h
      subst h
      simp [inflight, List.filterMap_cons, List.count_cons]
    | succ n =>
      simp only [List.getD_cons_succ] at h
      have := ih n h
      simp only [inflight] at this ⊢
      cases a with
      | none => simpa [List.filterMap_cons] using this
      | some v => simp only [List.set_cons_succ, List.filterMap_cons, Option.map_some, List.count_cons]; omega

theorem refStep_sub (c : Nat) (jobs : List Job) (rst : RefSt) (ch : Byte) (x : Bytes × Nat) :
    (refStep c jobs rst ch).2.count x + (inflight c jobs (refStep c jobs rst ch).1.slots).count x
      ≤ (inflight c jobs rst.slots).count x := by
  unfold refStep
  generalize hst1 : (if rst.n < Nq.Gen.REPORTMAX then { rst with rev := ch :: rst.rev, n := rst.n + 1 } else rst) = st1
  have hslots : st1.slots = rst.slots := by rw [← hst1]; split <;> rfl
  simp only []
  by_cases hc : ch = 0 ∧ st1.n > 1
  · rw [if_pos hc]
    cases hs : st1.slots.getD ((st1.rev.reverse.headD 0).toNat) none with
    | none => simp only []; rw [hslots]; simp
    | some sl =>
      simp only []
      have hcnt := count_inflight_set c jobs st1.slots _ sl hs x
      rw [hslots] at hcnt
      rw [hslots]
      by_cases hw : (st1.rev.reverse.getD 1 0 = 75 ∨ st1.rev.reverse.getD 1 0 = 68 ∨
          (st1.rev.reverse.getD 1 0 = 90 ∧ (jobs.getD sl.j ⟨0, 0, 0, false, false, 0, 0⟩).dying = true))
      · rw [if_pos hw]
        simp only [List.count_cons, List.count_nil]
        omega
      · rw [if_neg hw]
        simp only [List.count_nil]
        omega
  · rw [if_neg hc]; rw [hslots]; simp

theorem refRun_sub (c : Nat) (jobs : List Job) (rst : RefSt) (s : Bytes) (x : Bytes × Nat) :
    (refRun c jobs rst s).count x ≤ (inflight c jobs rst.slots).count x := by
  induction s generalizing rst with
  | nil => simp [refRun]
  | cons ch r ih =>
    have h1 := refStep_sub c jobs rst ch x
    have h2 := ih (refStep c jobs rst ch).1
    simp only [refRun, List.count_append]
    omega

theorem subMultiset_of_count {α : Type} [BEq α] (xs pool : List α) (h : ∀ x, xs.count x ≤ pool.count x) :
    subMultiset xs pool = true := by
  unfold subMultiset
  rw [List.all_eq_true]
  intro x _
  simpa using h x

/-- **the whole stream** -/
theorem feed_stream (env : Env) (st : St) (s : Bytes) (h0 : st.drev = []) (h1 : st.dlen = 0) :
    sendStrict env.chan st.jobs st.slots s (feed env st s).2 = true ∧
    subMultiset (marksOf (feed env st s).2) (inflight env.chan st.jobs st.slots) = true := by
  have hR : Rel st.jobs st { slots := st.slots } := ⟨h0.symm, h1.symm, rfl, JobsSame.refl _⟩
  obtain ⟨a1, a2⟩ := feed_sim env st.jobs st _ s hR
  constructor
  · unfold sendStrict refMarks
    rw [a1]
    simp only [beq_self_eq_true, Bool.true_and]
    exact List.isSublist_iff_sublist.mpr a2
  · apply subMultiset_of_count
    intro x
    exact Nat.le_trans (List.Sublist.count_le x a2) (refRun_sub env.chan st.jobs { slots := st.slots } s x)

theorem processLine_writesOK (env : Env) (st : St) (dl : Bytes) : writesOK (processLine env st dl).2 = true := by
  cases h : st.slots.getD (dl.headD 0).toNat none with
  | none => rw [processLine_unused env st dl h]; rfl
  | some sl => exact (processLine_used env st dl sl h).2.2.2.2.2.1

theorem step_writesOK (env : Env) (st : St) (ch : Byte) : writesOK (step env st ch).2 = true := by
  unfold step
  generalize (if st.dlen < Nq.Gen.REPORTMAX then { st with drev := ch :: st.drev, dlen := st.dlen + 1 } else st) = st1
  simp only []
  by_cases hc : ch = 0 ∧ st1.dlen > 1
  · rw [if_pos hc]; exact processLine_writesOK _ _ _
  · rw [if_neg hc]; rfl

theorem feed_writesOK (env : Env) (st : St) (s : Bytes) : writesOK (feed env st s).2 = true := by
  induction s generalizing st with
  | nil => rfl
  | cons c r ih => simp only [feed, writesOK_append, step_writesOK, ih, Bool.and_self]

end Nq.Lemmas.SendL
