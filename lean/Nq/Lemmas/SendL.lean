/-
  Lemmas about the qmail-send report reader model (`Nq.SendReport`): which parts of the state each
  routine can touch, which events it can emit, the REPORTMAX bound.
-/
import Nq.SendReport
import Nq.Spec.TrustBoundary

namespace Nq.Lemmas.SendL
open Nq Nq.SendReport Nq.Spec.TB

/-- events that touch neither a recipient file nor a bounce file -/
def quiet : Ev → Bool
  | .mark _ _ _ => false
  | .openWriteFail _ => false
  | .stray => false
  | .openAppend _ => false
  | .bounce _ => false
  | _ => true

/-- the line buffer and the slot table are untouched -/
def Frame (st st' : St) : Prop := st'.drev = st.drev ∧ st'.dlen = st.dlen ∧ st'.slots = st.slots

theorem Frame.refl (st : St) : Frame st st := ⟨rfl, rfl, rfl⟩
theorem Frame.trans {a b c : St} (h1 : Frame a b) (h2 : Frame b c) : Frame a c :=
  ⟨h2.1.trans h1.1, h2.2.1.trans h1.2.1, h2.2.2.trans h1.2.2⟩

theorem nextPlan_frame (st : St) : Frame st (nextPlan st).2 ∧ (nextPlan st).2.jobs = st.jobs := by
  simp [nextPlan, Frame]

theorem markdone_frame (c : Nat) (st : St) (id pos : Nat) :
    Frame st (markdone c st id pos).1 ∧ (markdone c st id pos).1.jobs = st.jobs := by
  unfold markdone
  simp only [nextPlan]
  by_cases h : st.plan.headD 0 = 1
  · simp only [h, if_true]; simp [Frame]
  · simp only [h, if_false]; simp [Frame]

/-- `markdone` either writes the single byte 'D' at `pos` of the channel's recipient file of `id`, or
fails to open it and only logs -/
theorem markdone_events (c : Nat) (st : St) (id pos : Nat) :
    (markdone c st id pos).2 = [.mark (Clean.fmtqfn (chanaddr c) id true) pos [68]] ∨
    ∃ t, (markdone c st id pos).2 = [.openWriteFail (Clean.fmtqfn (chanaddr c) id true), .log t] := by
  unfold markdone
  simp only [nextPlan]
  by_cases h : st.plan.headD 0 = 1
  · right; simp only [h, if_true]; exact ⟨_, rfl⟩
  · left; simp only [h, if_false]

theorem statOthers_frame (id : Nat) (cs : List Nat) (st : St) :
    Frame st (statOthers id cs st).1 ∧ (statOthers id cs st).1.jobs = st.jobs ∧
    ∀ e ∈ (statOthers id cs st).2.1, quiet e = true := by
  induction cs generalizing st with
  | nil => simp [statOthers, Frame]
  | cons c cs ih =>
    unfold statOthers
    simp only [nextPlan]
    by_cases h1 : st.plan.headD 0 = 1
    · simp only [h1, if_true]; simp [Frame, quiet]
    · by_cases h2 : st.plan.headD 0 = 2
      · simp only [h1, h2, if_true, if_false]; simp [Frame, quiet]
      · obtain ⟨g1, g2, g3⟩ := ih { st with plan := st.plan.tail }
        simp only [h1, h2, if_false]
        refine ⟨⟨g1.1, g1.2.1, g1.2.2⟩, g2, ?_⟩
        intro e he
        simp only [List.mem_cons] at he
        rcases he with he | he
        · subst he; rfl
        · exact g3 e he

theorem jobClose_aux (st st2 : St) (id ch now : Nat) (path : Bytes) (hf : Frame st st2) :
    Frame st (if (statOthers id (otherChannels ch) st2).2.2 = true
        then ((statOthers id (otherChannels ch) st2).1, Ev.unlink path :: (statOthers id (otherChannels ch) st2).2.1)
        else ((statOthers id (otherChannels ch) st2).1,
              Ev.unlink path :: (statOthers id (otherChannels ch) st2).2.1 ++ [Ev.pq 2 id now])).1 ∧
    ∀ e ∈ (if (statOthers id (otherChannels ch) st2).2.2 = true
        then ((statOthers id (otherChannels ch) st2).1, Ev.unlink path :: (statOthers id (otherChannels ch) st2).2.1)
        else ((statOthers id (otherChannels ch) st2).1,
              Ev.unlink path :: (statOthers id (otherChannels ch) st2).2.1 ++ [Ev.pq 2 id now])).2, quiet e = true := by
  have hso := statOthers_frame id (otherChannels ch) st2
  by_cases h4 : (statOthers id (otherChannels ch) st2).2.2 = true
  · rw [if_pos h4]
    refine ⟨hf.trans hso.1, ?_⟩
    intro e he
    simp only [List.mem_cons] at he
    rcases he with he | he
    · subst he; rfl
    · exact hso.2.2 e he
  · rw [if_neg h4]
    refine ⟨hf.trans hso.1, ?_⟩
    intro e he
    simp only [List.mem_cons, List.mem_append, List.mem_singleton] at he
    rcases he with (he | he) | he
    · subst he; rfl
    · exact hso.2.2 e he
    · rcases he with he | he
      · subst he; rfl
      · simp at he

theorem jobClose_frame (env : Env) (st : St) (j : Nat) :
    Frame st (jobClose env st j).1 ∧ ∀ e ∈ (jobClose env st j).2, quiet e = true := by
  unfold jobClose
  cases hj : st.jobs[j]? with
  | none => exact ⟨Frame.refl st, by simp⟩
  | some jb =>
    simp only [setJob, nextPlan]
    by_cases h1 : 0 < jb.refs - 1
    · simp only [h1, if_true]; exact ⟨⟨rfl, rfl, rfl⟩, by simp⟩
    · simp only [h1, if_false]
      by_cases h2 : jb.hiteof = true ∧ jb.numtodo = 0
      · rw [if_pos h2]
        by_cases h3 : st.plan.headD 0 = 1
        · simp only [h3, if_true]; exact ⟨⟨rfl, rfl, rfl⟩, by simp [quiet]⟩
        · simp only [h3, if_false]
          exact jobClose_aux st _ jb.id jb.channel env.now _ ⟨rfl, rfl, rfl⟩
      · rw [if_neg h2]; exact ⟨⟨rfl, rfl, rfl⟩, by simp [quiet]⟩

theorem marksOf_quiet (evs : List Ev) (h : ∀ e ∈ evs, quiet e = true) :
    marksOf evs = [] ∧ bouncesOf evs = [] ∧ writesOK evs = true := by
  induction evs with
  | nil => simp [marksOf, bouncesOf, writesOK]
  | cons e r ih =>
    have he := h e (by simp)
    have hr := ih (fun x hx => h x (by simp [hx]))
    cases e <;> simp_all [marksOf, bouncesOf, writesOK, quiet]

theorem marksOf_append (a b : List Ev) : marksOf (a ++ b) = marksOf a ++ marksOf b := by
  induction a with
  | nil => rfl
  | cons e a ih => cases e <;> simp [marksOf, ih]

theorem bouncesOf_append (a b : List Ev) : bouncesOf (a ++ b) = bouncesOf a ++ bouncesOf b := by
  induction a with
  | nil => rfl
  | cons e a ih => cases e <;> simp [bouncesOf, ih]

/-! ### one report line -/

def WARN : Bytes := str "warning: internal error: delivery report out of range\n"

/-- a report naming a slot that is out of range or not in use changes nothing -/
theorem processLine_unused (env : Env) (st : St) (dl : Bytes)
    (h : st.slots.getD (dl.headD 0).toNat none = none) :
    processLine env st dl = (st, [.log WARN]) := by
  unfold processLine
  simp only [h]
  rfl

theorem writesOK_append (a b : List Ev) : writesOK (a ++ b) = (writesOK a && writesOK b) := by
  induction a with
  | nil => simp [writesOK]
  | cons e a ih => cases e <;> simp [writesOK, ih, Bool.and_assoc]

theorem finishReport_spec (env : Env) (st : St) (r : St × List Ev) (d j : Nat) (hf : Frame st r.1) :
    (finishReport env r d j).1.drev = st.drev ∧ (finishReport env r d j).1.dlen = st.dlen ∧
    (finishReport env r d j).1.slots = st.slots.set d none ∧
    marksOf (finishReport env r d j).2 = marksOf r.2 ∧ bouncesOf (finishReport env r d j).2 = bouncesOf r.2 ∧
    writesOK (finishReport env r d j).2 = writesOK r.2 := by
  obtain ⟨hc, hq⟩ := jobClose_frame env r.1 j
  have hq' := marksOf_quiet _ hq
  unfold finishReport
  simp only [marksOf_append, bouncesOf_append, writesOK_append, hq'.1, hq'.2.1, hq'.2.2]
  refine ⟨hc.1.trans hf.1, hc.2.1.trans hf.2.1, by rw [hc.2.2, hf.2.2], ?_, ?_, ?_⟩ <;>
    simp [marksOf, bouncesOf, writesOK]

theorem reportCore_spec (env : Env) (st : St) (sl : Slot) (jb : Job) (letter : Byte) (text : Bytes) :
    Frame st (reportCore env st sl jb letter text).1 ∧
    (marksOf (reportCore env st sl jb letter text).2 = [] ∨
     marksOf (reportCore env st sl jb letter text).2 = [(Clean.fmtqfn (chanaddr env.chan) jb.id true, sl.mpos)]) ∧
    (bouncesOf (reportCore env st sl jb letter text).2 = [] ∨
     bouncesOf (reportCore env st sl jb letter text).2 = [Clean.fmtqfn (str "bounce/") jb.id false]) ∧
    writesOK (reportCore env st sl jb letter text).2 = true ∧
    ((letter ≠ 75 ∧ letter ≠ 68) → marksOf (reportCore env st sl jb letter text).2 = [] ∧
       bouncesOf (reportCore env st sl jb letter text).2 = []) := by
  have hm := markdone_frame env.chan st jb.id sl.mpos
  have hfr : Frame st (setJob (markdone env.chan st jb.id sl.mpos).1 sl.j { jb with numtodo := jb.numtodo - 1 }) :=
    ⟨hm.1.1, hm.1.2.1, hm.1.2.2⟩
  unfold reportCore
  by_cases hK : letter = 75
  · simp only [hK, if_true]
    refine ⟨hfr, ?_, ?_, ?_, fun h => absurd rfl h.1⟩
    · rcases markdone_events env.chan st jb.id sl.mpos with h | ⟨t, h⟩ <;> rw [h] <;> simp [marksOf]
    · rcases markdone_events env.chan st jb.id sl.mpos with h | ⟨t, h⟩ <;> rw [h] <;> simp [bouncesOf]
    · rcases markdone_events env.chan st jb.id sl.mpos with h | ⟨t, h⟩ <;> rw [h] <;> simp [writesOK]
  · by_cases hZ : letter = 90
    · simp only [hK, hZ, if_true, if_false]
      exact ⟨Frame.refl st, by simp [marksOf], by simp [bouncesOf], by simp [writesOK], fun _ => by simp [marksOf, bouncesOf]⟩
    · by_cases hD : letter = 68
      · have e1 : (90 : Byte) ≠ 75 := by decide
        simp only [hK, hZ, hD, if_true, if_false]
        have e68a : ¬ ((68 : Byte) = 75) := by decide
        have e68b : ¬ ((68 : Byte) = 90) := by decide
        simp only [e68a, e68b, if_false]
        refine ⟨hfr, ?_, ?_, ?_, fun h => absurd rfl h.2⟩
        · rcases markdone_events env.chan st jb.id sl.mpos with h | ⟨t, h⟩ <;> rw [h] <;> simp [marksOf, addbounce]
        · rcases markdone_events env.chan st jb.id sl.mpos with h | ⟨t, h⟩ <;> rw [h] <;> simp [bouncesOf, addbounce]
        · rcases markdone_events env.chan st jb.id sl.mpos with h | ⟨t, h⟩ <;> rw [h] <;> simp [writesOK, addbounce]
      · simp only [hK, hZ, hD, if_false]
        exact ⟨Frame.refl st, by simp [marksOf], by simp [bouncesOf], by simp [writesOK], fun _ => by simp [marksOf, bouncesOf]⟩

/-- what a report for a slot in use can do: the line buffer is untouched, the slot is freed, no
other slot changes, and the events are: at most one `mark` — of this slot's recipient record — at
most one bounce — for this slot's message — and otherwise only quiet events -/
theorem processLine_used (env : Env) (st : St) (dl : Bytes) (sl : Slot)
    (h : st.slots.getD (dl.headD 0).toNat none = some sl) :
    (processLine env st dl).1.drev = st.drev ∧ (processLine env st dl).1.dlen = st.dlen ∧
    (processLine env st dl).1.slots = st.slots.set (dl.headD 0).toNat none ∧
    (marksOf (processLine env st dl).2 = [] ∨
     marksOf (processLine env st dl).2 =
       [(Clean.fmtqfn (chanaddr env.chan) (st.jobs.getD sl.j ⟨0, 0, 0, false, false, 0, 0⟩).id true, sl.mpos)]) ∧
    (bouncesOf (processLine env st dl).2 = [] ∨
     bouncesOf (processLine env st dl).2 =
       [Clean.fmtqfn (str "bounce/") (st.jobs.getD sl.j ⟨0, 0, 0, false, false, 0, 0⟩).id false]) ∧
    writesOK (processLine env st dl).2 = true ∧
    ((dl.getD 1 0 ≠ 75 ∧ dl.getD 1 0 ≠ 90 ∧ dl.getD 1 0 ≠ 68) →
      marksOf (processLine env st dl).2 = [] ∧ bouncesOf (processLine env st dl).2 = []) := by
  unfold processLine
  simp only [h]
  generalize hjb : st.jobs.getD sl.j ⟨0, 0, 0, false, false, 0, 0⟩ = jb
  generalize hletter : (if dl.getD 1 0 = 90 ∧ jb.dying = true then (68 : Byte) else dl.getD 1 0) = letter
  generalize htext : (if dl.getD 1 0 = 90 ∧ jb.dying = true then dl.dropLast.drop 2 ++ DYINGMSG else cstr2 (dl.drop 2)) = text
  obtain ⟨c1, c2, c3, c4, c5⟩ := reportCore_spec env st sl jb letter text
  obtain ⟨f1, f2, f3, f4, f5, f6⟩ := finishReport_spec env st (reportCore env st sl jb letter text) (dl.headD 0).toNat sl.j c1
  refine ⟨f1, f2, f3, by rw [f4]; exact c2, by rw [f5]; exact c3, by rw [f6]; exact c4, ?_⟩
  intro hl
  rw [f4, f5]
  apply c5
  rw [← hletter]
  have : ¬ (dl.getD 1 0 = 90 ∧ jb.dying = true) := fun hh => hl.2.1 hh.1
  simp only [this, if_false]
  exact ⟨hl.1, hl.2.2⟩

/-! ### the REPORTMAX bound -/

theorem processLine_dlen (env : Env) (st : St) (dl : Bytes) : (processLine env st dl).1.dlen = st.dlen := by
  cases h : st.slots.getD (dl.headD 0).toNat none with
  | none => rw [processLine_unused env st dl h]
  | some sl => exact (processLine_used env st dl sl h).2.1

theorem step_dlen (env : Env) (st : St) (ch : Byte) (h : st.dlen ≤ Nq.Gen.REPORTMAX) :
    (step env st ch).1.dlen ≤ Nq.Gen.REPORTMAX := by
  unfold step
  by_cases h1 : st.dlen < Nq.Gen.REPORTMAX
  · simp only [h1, if_true]
    by_cases h2 : ch = 0 ∧ st.dlen + 1 > 1
    · rw [if_pos h2, processLine_dlen]; exact Nat.zero_le _
    · rw [if_neg h2]; exact h1
  · simp only [h1, if_false]
    by_cases h2 : ch = 0 ∧ st.dlen > 1
    · rw [if_pos h2, processLine_dlen]; exact Nat.zero_le _
    · rw [if_neg h2]; exact h

theorem feed_dlen (env : Env) (st : St) (s : Bytes) (h : st.dlen ≤ Nq.Gen.REPORTMAX) :
    (feed env st s).1.dlen ≤ Nq.Gen.REPORTMAX := by
  induction s generalizing st with
  | nil => exact h
  | cons c r ih => unfold feed; exact ih _ (step_dlen env st c h)

end Nq.Lemmas.SendL
