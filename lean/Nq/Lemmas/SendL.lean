import Nq.SendReport
import Nq.Spec.TrustBoundary
