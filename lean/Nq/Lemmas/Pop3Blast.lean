/-
  Lemmas about `Nq.Pop3.blast` (qmail-pop3d.c blast()) against the RFC 1939 client decoder
  `Nq.Pop3Ref.popDecode` and the line structure `Nq.Pop3Ref.lines`.
-/
import Nq.Pop3
import Nq.Spec.Pop3Ref

namespace Nq.Lemmas.Pop3
open Nq Nq.Pop3 Nq.Pop3Ref

/-- line-level form of the blast loop: the match flags are dropped -/
def blastLines : Nat → Bool → List Bytes → Bytes
  | _, _, [] => []
  | limit, inh, l :: rest =>
    if limit ≠ 0 ∧ inh = false ∧ limit = 1 then []
    else
      (if l.head? = some DOT then [DOT] else []) ++ l ++ [CR, LF] ++
        blastLines (if limit ≠ 0 ∧ inh = false then limit - 1 else limit) (if l = [] then false else inh) rest

/-- only the last line getln returns can be unterminated, so the `if (!match) break` of blast()
never cuts anything off -/
theorem blastLoop_eq_lines (m : Bytes) : ∀ (cur : Bytes) (limit : Nat) (inh : Bool),
    blastLoop limit inh (getlns cur m) = blastLines limit inh ((getlns cur m).map Prod.fst) := by
  induction m with
  | nil =>
    intro cur limit inh
    by_cases h : cur = []
    · simp [getlns, h, blastLoop, blastLines]
    · simp [getlns, h, blastLoop, blastLines]
  | cons c m ih =>
    intro cur limit inh
    by_cases h : c = LF
    · simp only [getlns, h, if_true, List.map_cons, blastLoop, blastLines, ih]
    · simp only [getlns, h, if_false]
      exact ih _ _ _

/-- the lines getln returns are the lines of the file -/
theorem getlns_lines (m : Bytes) : ∀ cur : Bytes,
    (getlns cur m).map Prod.fst =
      match lines m with
      | [] => if cur = [] then [] else [cur.reverse]
      | l :: ls => (cur.reverse ++ l) :: ls := by
  induction m with
  | nil => intro cur; by_cases h : cur = [] <;> simp [getlns, lines, h]
  | cons c m ih =>
    intro cur
    by_cases h : c = LF
    · have := ih []
      simp only [getlns, h, if_true, List.map_cons, lines]
      rw [this]
      cases lines m <;> simp
    · have := ih (c :: cur)
      simp only [getlns, h, if_false, lines]
      rw [this]
      cases lines m <;> simp

theorem getlns_nil_lines (m : Bytes) : (getlns [] m).map Prod.fst = lines m := by
  rw [getlns_lines]
  cases lines m <;> simp

theorem lines_noLF (m : Bytes) : ∀ l ∈ lines m, LF ∉ l := by
  induction m with
  | nil => simp [lines]
  | cons c m ih =>
    by_cases h : c = LF
    · simp only [lines, h, if_true]
      intro l hl
      rcases List.mem_cons.mp hl with h1 | h1
      · simp [h1]
      · exact ih l h1
    · simp only [lines, h, if_false]
      cases hm : lines m with
      | nil => simp; exact fun hh => h hh.symm
      | cons l0 ls =>
        rw [hm] at ih
        intro l hl
        rcases List.mem_cons.mp hl with h1 | h1
        · subst h1
          have := ih l0 (by simp)
          simp only [List.mem_cons, not_or]
          exact ⟨fun hh => h hh.symm, this⟩
        · exact ih l (by simp [h1])

/-! ### the decoder on one transmitted line -/

/-- what the decoder does once a complete line has been read -/
def lineDone (line w : Bytes) : Option (List Bytes × Bytes) :=
  if line = [DOT] then some ([], w)
  else match decGo [] w with
    | some (ls, r) => some (unstuff line :: ls, r)
    | none => none

theorem decGo_line (l : Bytes) : ∀ (cur w : Bytes), LF ∉ l →
    decGo cur (l ++ CR :: LF :: w) = lineDone (cur.reverse ++ l) w := by
  induction l with
  | nil =>
    intro cur w _
    by_cases hc : cur = [DOT] <;> simp [decGo, lineDone, CR, LF, hc] <;> (cases decGo [] w <;> rfl)
  | cons x l ih =>
    intro cur w h
    have hx : x ≠ LF := fun hh => h (by simp [hh])
    have hl : LF ∉ l := fun hh => h (by simp [hh])
    simp only [List.cons_append, decGo, hx, if_false]
    rw [ih (x :: cur) w hl]
    simp

/-- the dot-stuffing blast() applies -/
def stuff (l : Bytes) : Bytes := (if l.head? = some DOT then [DOT] else []) ++ l

theorem stuff_ne_dot (l : Bytes) : stuff l ≠ [DOT] := by
  cases l with
  | nil => simp [stuff]
  | cons c r =>
    by_cases h : c = DOT
    · simp [stuff, h]
    · simp [stuff, h]

theorem unstuff_stuff (l : Bytes) : unstuff (stuff l) = l := by
  cases l with
  | nil => simp [stuff, unstuff]
  | cons c r =>
    by_cases h : c = DOT
    · simp [stuff, unstuff, h]
    · simp [stuff, unstuff, h]

theorem stuff_noLF (l : Bytes) (h : LF ∉ l) : LF ∉ stuff l := by
  unfold stuff
  split <;> simp [h, LF, DOT]

theorem decGo_stuffed (l w : Bytes) (h : LF ∉ l) :
    decGo [] (stuff l ++ CR :: LF :: w) =
      match decGo [] w with
      | some (ls, r) => some (l :: ls, r)
      | none => none := by
  rw [decGo_line (stuff l) [] w (stuff_noLF l h)]
  simp [lineDone, stuff_ne_dot, unstuff_stuff]

theorem decGo_end (rest : Bytes) : decGo [] (blastEnd ++ rest) = some ([[]], rest) := by
  simp [blastEnd, decGo, unstuff, CR, LF, DOT]

theorem blastLines_zero_cons (inh : Bool) (l : Bytes) (ls : List Bytes) :
    blastLines 0 inh (l :: ls) = stuff l ++ CR :: LF :: blastLines 0 (if l = [] then false else inh) ls := by
  simp [blastLines, stuff]

theorem blastLines_body_cons (k : Nat) (l : Bytes) (ls : List Bytes) :
    blastLines (k + 2) false (l :: ls) = stuff l ++ CR :: LF :: blastLines (k + 1) false ls := by
  simp [blastLines, stuff]

theorem blastLines_hdr_cons (n : Nat) (l : Bytes) (ls : List Bytes) :
    blastLines (n + 1) true (l :: ls) =
      stuff l ++ CR :: LF :: blastLines (n + 1) (if l = [] then false else true) ls := by
  simp [blastLines, stuff]

/-- RETR: the whole message -/
theorem decode_all (ls : List Bytes) : ∀ (inh : Bool) (rest : Bytes), (∀ l ∈ ls, LF ∉ l) →
    decGo [] (blastLines 0 inh ls ++ blastEnd ++ rest) = some (ls ++ [[]], rest) := by
  induction ls with
  | nil => intro inh rest _; simpa [blastLines] using decGo_end rest
  | cons l ls ih =>
    intro inh rest h
    rw [blastLines_zero_cons]
    simp only [List.cons_append, List.append_assoc]
    rw [decGo_stuffed l _ (h l (by simp))]
    have := ih (if l = [] then false else inh) rest (fun x hx => h x (by simp [hx]))
    simp only [List.append_assoc] at this
    rw [this]

/-- TOP, after the blank line: `k` more lines -/
theorem decode_body (ls : List Bytes) : ∀ (k : Nat) (rest : Bytes), (∀ l ∈ ls, LF ∉ l) →
    decGo [] (blastLines (k + 1) false ls ++ blastEnd ++ rest) = some (ls.take k ++ [[]], rest) := by
  induction ls with
  | nil => intro k rest _; simpa [blastLines] using decGo_end rest
  | cons l ls ih =>
    intro k rest h
    cases k with
    | zero => simpa [blastLines] using decGo_end rest
    | succ k =>
      rw [blastLines_body_cons]
      simp only [List.cons_append, List.append_assoc]
      rw [decGo_stuffed l _ (h l (by simp))]
      have := ih k rest (fun x hx => h x (by simp [hx]))
      simp only [List.append_assoc] at this
      rw [this]
      simp

/-- TOP: header, blank line, `n` body lines -/
theorem decode_top (ls : List Bytes) : ∀ (n : Nat) (rest : Bytes), (∀ l ∈ ls, LF ∉ l) →
    decGo [] (blastLines (n + 1) true ls ++ blastEnd ++ rest) = some (topLines n ls ++ [[]], rest) := by
  induction ls with
  | nil => intro n rest _; simpa [blastLines, topLines] using decGo_end rest
  | cons l ls ih =>
    intro n rest h
    rw [blastLines_hdr_cons]
    simp only [List.cons_append, List.append_assoc]
    rw [decGo_stuffed l _ (h l (by simp))]
    by_cases hl : l = []
    · have := decode_body ls n rest (fun x hx => h x (by simp [hx]))
      simp only [List.append_assoc] at this
      simp only [hl, if_true]
      rw [this]
      simp [topLines]
    · have := ih n rest (fun x hx => h x (by simp [hx]))
      simp only [List.append_assoc] at this
      simp only [hl, if_false]
      rw [this]
      simp [topLines, hl]

end Nq.Lemmas.Pop3
