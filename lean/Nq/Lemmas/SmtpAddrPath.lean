/- Nq.Lemmas.SmtpAddrPath — start / source route of the path spec against the model; the composed statement `addrRaw = specPath`. -/
import Nq.Lemmas.SmtpAddrSpec
namespace Nq.SmtpAddrSpec
open Nq Nq.SmtpSession

theorem splitFirst_some (b : Byte) : ∀ (s : Bytes) (p : Bytes × Bytes), splitFirst b s = some p →
    s = p.1 ++ b :: p.2 ∧ b ∉ p.1 := by
  intro s
  induction s with
  | nil => intro p h; simp [splitFirst] at h
  | cons c r ih =>
    intro p h
    by_cases hc : c = b
    · simp [splitFirst, if_pos hc] at h; subst h; simp [hc]
    · simp only [splitFirst, if_neg hc] at h
      cases hr : splitFirst b r with
      | none => rw [hr] at h; simp at h
      | some q =>
        rw [hr] at h; simp at h; subst h
        obtain ⟨a1, a2⟩ := ih q hr
        refine ⟨by simp; exact a1, ?_⟩
        simp; exact ⟨fun e => hc e.symm, a2⟩

theorem splitFirst_none (b : Byte) : ∀ (s : Bytes), splitFirst b s = none → b ∉ s := by
  intro s
  induction s with
  | nil => intro _; simp
  | cons c r ih =>
    intro h
    by_cases hc : c = b
    · simp [splitFirst, if_pos hc] at h
    · simp only [splitFirst, if_neg hc] at h
      cases hr : splitFirst b r with
      | none => simp; exact ⟨fun e => hc e.symm, ih hr⟩
      | some q => rw [hr] at h; simp at h

theorem dropThrough_split (b : Byte) : ∀ (pre post : Bytes), b ∉ pre → dropThrough b (pre ++ b :: post) = post := by
  intro pre
  induction pre with
  | nil => intro post _; simp [dropThrough]
  | cons c r ih =>
    intro post h
    simp at h
    have hc : c ≠ b := fun e => h.1 e.symm
    simp [dropThrough, if_neg hc]; exact ih post h.2

theorem dropThrough_none (b : Byte) : ∀ (s : Bytes), b ∉ s → dropThrough b s = [] := by
  intro s
  induction s with
  | nil => intro _; rfl
  | cons c r ih =>
    intro h
    simp at h
    have hc : c ≠ b := fun e => h.1 e.symm
    simp [dropThrough, if_neg hc]; exact ih h.2

theorem dropWhile_ne_split (b : Byte) : ∀ (pre post : Bytes), b ∉ pre →
    (pre ++ b :: post).dropWhile (· != b) = b :: post := by
  intro pre
  induction pre with
  | nil => intro post _; simp
  | cons c r ih =>
    intro post h
    simp at h
    have hc : c ≠ b := fun e => h.1 e.symm
    simp [hc]; exact ih post h.2

theorem dropWhile_ne_none (b : Byte) : ∀ (s : Bytes), b ∉ s → s.dropWhile (· != b) = [] := by
  intro s
  induction s with
  | nil => intro _; rfl
  | cons c r ih =>
    intro h
    simp at h
    have hc : c ≠ b := fun e => h.1 e.symm
    simp [List.dropWhile_cons, hc]; exact ih h.2

theorem dropWhile_sp (k : Nat) (body : Bytes) (h : body.head? ≠ some SP) :
    (List.replicate k SP ++ body).dropWhile (· == SP) = body := by
  induction k with
  | zero =>
    cases body with
    | nil => rfl
    | cons c r =>
      have hc : c ≠ SP := by simpa using h
      simp [List.dropWhile_cons, hc]
  | succ k ih =>
    rw [List.replicate_succ, List.cons_append, List.dropWhile_cons, if_pos (by simp)]; exact ih

theorem dropWhile_sp_form (r : Bytes) : ∃ k, r = List.replicate k SP ++ r.dropWhile (· == SP) ∧
    (r.dropWhile (· == SP)).head? ≠ some SP := by
  induction r with
  | nil => exact ⟨0, by simp⟩
  | cons c r ih =>
    by_cases hc : c = SP
    · obtain ⟨k, h1, h2⟩ := ih
      refine ⟨k + 1, ?_, ?_⟩
      · subst hc
        rw [List.dropWhile_cons, if_pos (by simp), List.replicate_succ, List.cons_append, ← h1]
      · subst hc
        rw [List.dropWhile_cons, if_pos (by simp)]; exact h2
    · exact ⟨0, by simp [List.dropWhile_cons, hc]⟩

/-- the relation determines start and terminator: they are what the model takes -/
theorem IsStart_model (arg : Bytes) (term : Byte) (body : Bytes) (h : IsStart arg term body) :
    addrStart arg = (term, body) := by
  rcases h with ⟨pre, ha, hp, ht⟩ | ⟨hl, ht, h⟩
  · have hm : SmtpSession.LTc ∈ arg := by subst ha; simp [LAB]
    subst ha ht
    simp only [addrStart, if_pos hm]
    rw [show SmtpSession.LTc = LAB from rfl, dropThrough_split LAB pre body hp]
  · have hm : ¬ SmtpSession.LTc ∈ arg := hl
    subst ht
    simp only [addrStart, if_neg hm]
    rcases h with ⟨hc, hb⟩ | ⟨pre, k, ha, hp, hb⟩
    · subst hb
      rw [show SmtpSession.COLON = COL from rfl, dropWhile_ne_none COL arg hc]; rfl
    · subst ha
      rw [show SmtpSession.COLON = COL from rfl, dropWhile_ne_split COL pre _ hp]
      simp only [List.drop_succ_cons, List.drop_zero]
      rw [dropWhile_sp k body hb]

theorem specStart_is (arg : Bytes) : IsStart arg (specStart arg).1 (specStart arg).2 := by
  unfold specStart
  cases h1 : splitFirst LAB arg with
  | some p =>
    obtain ⟨a, b⟩ := splitFirst_some LAB arg p h1
    exact Or.inl ⟨p.1, a, b, rfl⟩
  | none =>
    have hl := splitFirst_none LAB arg h1
    cases h2 : splitFirst COL arg with
    | none => exact Or.inr ⟨hl, rfl, Or.inl ⟨splitFirst_none COL arg h2, rfl⟩⟩
    | some p =>
      obtain ⟨a, b⟩ := splitFirst_some COL arg p h2
      obtain ⟨k, hk, hh⟩ := dropWhile_sp_form p.2
      refine Or.inr ⟨hl, rfl, Or.inr ⟨p.1, k, ?_, b, hh⟩⟩
      simp only []
      rw [← hk]; exact a

theorem IsRoute_model (body rest : Bytes) (h : IsRoute body rest) : stripRoute body = rest := by
  rcases h with ⟨hh, hr⟩ | ⟨r, hb, h⟩
  · subst hr
    cases rest with
    | nil => rfl
    | cons c r =>
      have hc : c ≠ AT := by simpa using hh
      simp [stripRoute, if_neg hc]
  · subst hb
    simp only [stripRoute, if_true]
    rcases h with ⟨hc, hr⟩ | ⟨p, hp, hc⟩
    · subst hr; exact dropThrough_none COL r hc
    · subst hp; exact dropThrough_split COL p rest hc

theorem specRoute_is (body : Bytes) : IsRoute body (specRoute body) := by
  cases body with
  | nil => exact Or.inl ⟨by simp, rfl⟩
  | cons c r =>
    by_cases hc : c = AT
    · subst hc
      simp only [specRoute, if_true]
      refine Or.inr ⟨r, rfl, ?_⟩
      cases h : splitFirst COL r with
      | none => exact Or.inl ⟨splitFirst_none COL r h, rfl⟩
      | some p =>
        obtain ⟨a, b⟩ := splitFirst_some COL r p h
        exact Or.inr ⟨p.1, a, b⟩
    · refine Or.inl ⟨by simpa using hc, ?_⟩
      simp [specRoute, if_neg hc]

theorem addrStart_term (arg : Bytes) : (addrStart arg).1 = RAB ∨ (addrStart arg).1 = SP := by
  unfold addrStart; split
  · exact Or.inl rfl
  · exact Or.inr rfl

/-- the grammar determines the address, and it is the model's -/
theorem IsPath_model (arg a : Bytes) (h : IsPath arg a) : a = addrRaw arg := by
  obtain ⟨term, body, rest, h1, h2, h3⟩ := h
  have e1 := IsStart_model arg term body h1
  have e2 := IsRoute_model body rest h2
  have ht : term = RAB ∨ term = SP := by
    have := addrStart_term arg; rw [e1] at this; exact this
  have hb : BSL ≠ term := by rcases ht with rfl | rfl <;> decide
  have hd : DQ ≠ term := by rcases ht with rfl | rfl <;> decide
  have e3 := IsUnq_unq term hb hd rest a h3
  simp only [addrRaw, e1, e2]; exact e3

theorem specPath_is (arg : Bytes) : IsPath arg (specPath arg) :=
  ⟨_, _, _, specStart_is arg, specRoute_is _, specUnq_is _ _⟩

theorem addrRaw_eq_spec (arg : Bytes) : addrRaw arg = specPath arg :=
  (IsPath_model arg _ (specPath_is arg)).symm

theorem IsPath_iff (arg a : Bytes) : IsPath arg a ↔ a = specPath arg :=
  ⟨fun h => by rw [← addrRaw_eq_spec]; exact IsPath_model arg a h, fun h => h ▸ specPath_is arg⟩

end Nq.SmtpAddrSpec
